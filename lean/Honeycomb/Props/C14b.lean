/-
  C14, second part — exact β tables after `insert_vertices_on_edge`, and the vertices of the new darts
  (`honeycomb-kernels/src/cell_insertion/vertices.rs`, model `Model/Kernels/VertexInsertion.lean`).

  PROVED (every well-formed map, every edge shape, every `k`)
  * `C14_insertVertices_beta_structure` (`InsertResult`) — after a successful call:
      first side   e → fh[0] → … → fh[k-1] → old successor of e           (β1),
      second side  e2 → sh[0] → … → sh[k-1] → old successor of e2          (β1, two-dart edge, e2 = β2 e),
      β2 pairs the two sides in reverse order (e2 ↔ fh[k-1], sh[j] ↔ fh[k-2-j], sh[k-1] ↔ e),
      every other β1 and β2 image of every dart is unchanged, β0 changes only at the new darts and the two old
      successors; the result is well formed (so β0 is the inverse of β1 there too, and the null dart keeps its
      null images).
  * `C14_new_darts_distinct_vertices` — the vertex of `fh[t]` in the result is `{fh[t]}` (one-dart edge) or
      `{fh[t], sh[k-1-t]}` (two-dart edge) (`new_vertex_darts`), hence the vertex identifiers of the new darts are
      pairwise distinct (uses C03: `vertex_id_transac` = minimum of the vertex orbit, equal ids ⇔ same orbit).
  * `C14_new_vertex_position_full` — `C14_new_vertex_position` without side hypothesis: the i-th point sits at the
      vertex identifier of the i-th new dart, every other slot of every storage is unchanged.
  Tools: exact effects of the link cores on sized maps (`*_eff`), "nothing non-null is overwritten" (`Ext`), the two
  chain loops (`chainFirst_struct`, `chainSecond_struct`).

  * `C14_insertVertex_beta_structure` — the same `InsertResult` (one new dart per side) for `insert_vertex_on_edge`, the
      `k = 1` kernel with its own code path.

  CONTINUED in Props/C14c.lean: the vertices of the old darts (end points included) keep their dart sets, identifiers
  and coordinates.
-/
import Honeycomb.Lemmas.KernelWF2
import Honeycomb.Props.C14
import Honeycomb.Props.C03
import Mathlib.Data.List.Nodup

set_option linter.unusedSimpArgs false
set_option linter.unusedVariables false

namespace HC.C14
open HC

/-! ## exact effects of the link cores on sized maps -/

/-- nothing non-null is overwritten -/
def Ext (m m' : Map Val) : Prop := ∀ i y, m.β i y ≠ 0 → m'.β i y = m.β i y

theorem Ext.refl (m : Map Val) : Ext m m := fun _ _ _ => rfl

theorem Ext.trans {m m1 m2 : Map Val} (h1 : Ext m m1) (h2 : Ext m1 m2) : Ext m m2 := by
  intro i y hy
  have e1 := h1 i y hy
  rw [h2 i y (by rw [e1]; exact hy), e1]

theorem oneLinkCore_eff {l r : Nat} {m m' : Map Val} {a : Unit} (hs : Sized 3 m)
    (h : run (oneLinkCore l r) m = (.ok a, m')) :
    Sized 3 m' ∧ m.β 1 l = 0 ∧ m.β 0 r = 0 ∧ Ext m m' ∧
      ∀ i d, m'.β i d = if 0 = i ∧ r = d then l else if 1 = i ∧ l = d then r else m.β i d := by
  obtain ⟨o1, o2, f1, f0, rfl⟩ := oneLinkCore_ok h
  have s1 : Sized 3 (m.setβ 1 l r) := hs.setβ _ _ _
  have hl := ((hs.okβ 1 l).1 o1).2
  have hr := ((hs.okβ 0 r).1 o2).2
  have e : ∀ i d, ((m.setβ 1 l r).setβ 0 r l).β i d =
      if 0 = i ∧ r = d then l else if 1 = i ∧ l = d then r else m.β i d := by
    intro i d
    rw [s1.β_setβ (by omega) (by rw [Map.n_setβ]; exact hr), hs.β_setβ (by omega) hl]
  refine ⟨s1.setβ _ _ _, f1, f0, ?_, e⟩
  intro i y hy
  rw [e]
  by_cases c1 : 0 = i ∧ r = y
  · obtain ⟨rfl, rfl⟩ := c1; exact absurd f0 hy
  · rw [if_neg c1]
    by_cases c2 : 1 = i ∧ l = y
    · obtain ⟨rfl, rfl⟩ := c2; exact absurd f1 hy
    · rw [if_neg c2]

theorem twoLinkCore_eff {l r : Nat} {m m' : Map Val} {a : Unit} (hs : Sized 3 m)
    (h : run (iLinkCore 2 l r) m = (.ok a, m')) :
    Sized 3 m' ∧ m.β 2 l = 0 ∧ m.β 2 r = 0 ∧ Ext m m' ∧
      ∀ i d, m'.β i d = if 2 = i ∧ r = d then l else if 2 = i ∧ l = d then r else m.β i d := by
  obtain ⟨o1, o2, f1, f0, rfl⟩ := iLinkCore_ok h
  have s1 : Sized 3 (m.setβ 2 l r) := hs.setβ _ _ _
  have hl := ((hs.okβ 2 l).1 o1).2
  have hr := ((hs.okβ 2 r).1 o2).2
  have e : ∀ i d, ((m.setβ 2 l r).setβ 2 r l).β i d =
      if 2 = i ∧ r = d then l else if 2 = i ∧ l = d then r else m.β i d := by
    intro i d
    rw [s1.β_setβ (by omega) (by rw [Map.n_setβ]; exact hr), hs.β_setβ (by omega) hl]
  refine ⟨s1.setβ _ _ _, f1, f0, ?_, e⟩
  intro i y hy
  rw [e]
  by_cases c1 : 2 = i ∧ r = y
  · obtain ⟨rfl, rfl⟩ := c1; exact absurd f0 hy
  · rw [if_neg c1]
    by_cases c2 : 2 = i ∧ l = y
    · obtain ⟨rfl, rfl⟩ := c2; exact absurd f1 hy
    · rw [if_neg c2]

theorem oneUnlinkCore_eff {l : Nat} {m m' : Map Val} {a : Unit} (hs : Sized 3 m)
    (h : run (oneUnlinkCore l) m = (.ok a, m')) :
    Sized 3 m' ∧ m.β 1 l ≠ 0 ∧
      ∀ i d, m'.β i d = if 0 = i ∧ m.β 1 l = d then 0 else if 1 = i ∧ l = d then 0 else m.β i d := by
  obtain ⟨o1, o2, hne, rfl⟩ := oneUnlinkCore_ok h
  have s1 : Sized 3 (m.setβ 1 l 0) := hs.setβ _ _ _
  have hl := ((hs.okβ 1 l).1 o1).2
  refine ⟨s1.setβ _ _ _, hne, fun i d => ?_⟩
  rw [s1.β_setβ (by omega) (by rw [Map.n_setβ]; exact ((hs.okβ 0 _).1 o2).2), hs.β_setβ (by omega) hl]

theorem twoUnlinkCore_eff {l : Nat} {m m' : Map Val} {a : Unit} (hs : Sized 3 m)
    (h : run (iUnlinkCore 2 l) m = (.ok a, m')) :
    Sized 3 m' ∧ m.β 2 l ≠ 0 ∧
      ∀ i d, m'.β i d = if 2 = i ∧ m.β 2 l = d then 0 else if 2 = i ∧ l = d then 0 else m.β i d := by
  obtain ⟨o1, o2, hne, rfl⟩ := iUnlinkCore_ok h
  have s1 : Sized 3 (m.setβ 2 l 0) := hs.setβ _ _ _
  have hl := ((hs.okβ 2 l).1 o1).2
  refine ⟨s1.setβ _ _ _, hne, fun i d => ?_⟩
  rw [s1.β_setβ (by omega) (by rw [Map.n_setβ]; exact ((hs.okβ 2 _).1 o2).2), hs.β_setβ (by omega) hl]

/-! ## the two chains -/

/-- first side: `prev → l[0] → l[1] → …`; only β1 of the darts before the last one and β0 of the new darts are
    written, nothing non-null is overwritten -/
theorem chainFirst_struct : ∀ (l : List Nat) (prev : Nat) (m m' : Map Val) (r : Nat),
    Sized 3 m → (∀ x ∈ l, x ≠ 0) → run (chainFirst prev l) m = (.ok r, m') →
      Sized 3 m' ∧ r = l.getLastD prev ∧ Ext m m' ∧ B1Chain m' prev l ∧
      (∀ y, y ∉ (prev :: l).dropLast → m'.β 1 y = m.β 1 y) ∧
      (∀ y, y ∉ l → m'.β 0 y = m.β 0 y) ∧ (∀ y, m'.β 2 y = m.β 2 y) := by
  intro l
  induction l with
  | nil =>
      intro prev m m' r hs _ h
      simp [chainFirst] at h
      obtain ⟨rfl, rfl⟩ := h
      exact ⟨hs, rfl, Ext.refl _, trivial, fun _ _ => rfl, fun _ _ => rfl, fun _ => rfl⟩
  | cons nd rest ih =>
      intro prev m m' r hs hnz h
      unfold chainFirst at h
      obtain ⟨_, m1, h1, h⟩ := run_bind_ok h
      obtain ⟨s1, _, _, x1, e1⟩ := oneLinkCore_eff hs h1
      obtain ⟨s2, hr, x2, hch, f1, f0, f2⟩ := ih nd m1 m' r s1 (fun x hx => hnz x (by simp [hx])) h
      have hnd : nd ≠ 0 := hnz nd (by simp)
      refine ⟨s2, by rw [List.getLastD_cons]; exact hr, x1.trans x2, ⟨?_, hch⟩, ?_, ?_, ?_⟩
      · have : m1.β 1 prev = nd := by rw [e1]; simp
        rw [x2 1 prev (by rw [this]; exact hnd), this]
      · intro y hy
        rw [List.dropLast_cons_of_ne_nil (by simp)] at hy
        simp only [List.mem_cons, not_or] at hy
        rw [f1 y hy.2, e1, if_neg (fun hh => absurd hh.1 (by decide)), if_neg (fun hh => hy.1 hh.2.symm)]
      · intro y hy
        simp only [List.mem_cons, not_or] at hy
        rw [f0 y hy.2, e1, if_neg (fun hh => hy.1 hh.2.symm), if_neg (fun hh => absurd hh.1 (by decide))]
      · intro y
        rw [f2 y, e1, if_neg (fun hh => absurd hh.1 (by decide)), if_neg (fun hh => absurd hh.1 (by decide))]

/-- second side: `prev → nd_0 → nd_1 → …` through β1, each dart before the last 2-linked with the matching first-side
    dart -/
theorem chainSecond_struct : ∀ (l : List (Nat × Nat)) (prev : Nat) (m m' : Map Val) (r : Nat),
    Sized 3 m → prev ≠ 0 → (∀ p ∈ l, p.1 ≠ 0 ∧ p.2 ≠ 0) → run (chainSecond prev l) m = (.ok r, m') →
      Sized 3 m' ∧ r = (l.map Prod.snd).getLastD prev ∧ Ext m m' ∧ B1Chain m' prev (l.map Prod.snd) ∧
      (∀ p ∈ (prev :: l.map Prod.snd).zip (l.map Prod.fst), m'.β 2 p.1 = p.2 ∧ m'.β 2 p.2 = p.1) ∧
      (∀ y, y ∉ (prev :: l.map Prod.snd).dropLast → m'.β 1 y = m.β 1 y) ∧
      (∀ y, y ∉ l.map Prod.snd → m'.β 0 y = m.β 0 y) ∧
      (∀ y, y ∉ (prev :: l.map Prod.snd).dropLast → y ∉ l.map Prod.fst → m'.β 2 y = m.β 2 y) := by
  intro l
  induction l with
  | nil =>
      intro prev m m' r hs _ _ h
      simp [chainSecond] at h
      obtain ⟨rfl, rfl⟩ := h
      exact ⟨hs, rfl, Ext.refl _, trivial, by simp, fun _ _ => rfl, fun _ _ => rfl, fun _ _ _ => rfl⟩
  | cons c rest ih =>
      intro prev m m' r hs hp hnz h
      obtain ⟨d, nd⟩ := c
      obtain ⟨hd0, hnd0⟩ := hnz (d, nd) (by simp)
      unfold chainSecond at h
      obtain ⟨_, m1, h1, h⟩ := run_bind_ok h
      obtain ⟨s1, _, _, x1, e1⟩ := twoLinkCore_eff hs h1
      obtain ⟨_, m2, h2, h⟩ := run_bind_ok h
      obtain ⟨s2, _, _, x2, e2⟩ := oneLinkCore_eff s1 h2
      obtain ⟨s3, hr, x3, hch, hp2, f1, f0, f2⟩ :=
        ih nd m2 m' r s2 hnd0 (fun p hp => hnz p (by simp [hp])) h
      have a1 : m2.β 1 prev = nd := by rw [e2]; simp
      have a2 : m2.β 2 prev = d := by
        rw [e2, if_neg (fun hh => absurd hh.1 (by decide)), if_neg (fun hh => absurd hh.1 (by decide)), e1]
        by_cases c : d = prev
        · simp [c]
        · simp [c]
      have a3 : m2.β 2 d = prev := by
        rw [e2, if_neg (fun hh => absurd hh.1 (by decide)), if_neg (fun hh => absurd hh.1 (by decide)), e1]
        simp
      refine ⟨s3, by rw [List.map_cons, List.getLastD_cons]; exact hr, (x1.trans x2).trans x3, ⟨?_, hch⟩, ?_, ?_, ?_, ?_⟩
      · rw [x3 1 prev (by rw [a1]; exact hnd0), a1]
      · intro p hp'
        simp only [List.map_cons, List.zip_cons_cons, List.mem_cons] at hp'
        rcases hp' with rfl | hp'
        · exact ⟨by rw [x3 2 prev (by rw [a2]; exact hd0), a2], by rw [x3 2 d (by rw [a3]; exact hp), a3]⟩
        · exact hp2 p hp'
      · intro y hy
        simp only [List.map_cons] at hy
        rw [List.dropLast_cons_of_ne_nil (by simp)] at hy
        simp only [List.mem_cons, not_or] at hy
        rw [f1 y hy.2, e2, if_neg (fun hh => absurd hh.1 (by decide)), if_neg (fun hh => hy.1 hh.2.symm), e1,
          if_neg (fun hh => absurd hh.1 (by decide)), if_neg (fun hh => absurd hh.1 (by decide))]
      · intro y hy
        simp only [List.map_cons, List.mem_cons, not_or] at hy
        rw [f0 y hy.2, e2, if_neg (fun hh => hy.1 hh.2.symm), if_neg (fun hh => absurd hh.1 (by decide)), e1,
          if_neg (fun hh => absurd hh.1 (by decide)), if_neg (fun hh => absurd hh.1 (by decide))]
      · intro y hy1 hy2
        simp only [List.map_cons] at hy1 hy2
        rw [List.dropLast_cons_of_ne_nil (by simp)] at hy1
        simp only [List.mem_cons, not_or] at hy1 hy2
        rw [f2 y hy1.2 hy2.2, e2, if_neg (fun hh => absurd hh.1 (by decide)),
          if_neg (fun hh => absurd hh.1 (by decide)), e1, if_neg (fun hh => hy2.1 hh.2.symm),
          if_neg (fun hh => hy1.1 hh.2.symm)]

/-! ## the editing part of `insert_vertices_on_edge` -/

theorem whenP_ok {c : Bool} {p : P Val Unit} {m m' : Map Val} {a : Unit} (h : run (whenP c p) m = (.ok a, m')) :
    (c = true ∧ run p m = (.ok a, m')) ∨ (c = false ∧ m' = m) := by
  unfold whenP at h
  cases c
  · right; simp at h; exact ⟨rfl, h.symm⟩
  · left; exact ⟨rfl, h⟩

theorem sameβ_placeVertices (k : Nat) (v1 v2 : Val) (l : List (Rat × Nat)) {m m' : Map Val} {a : Unit}
    (h : run (placeVertices k v1 v2 l) m = (.ok a, m')) : ∀ i d, m'.β i d = m.β i d := by
  have st := attrOnly_placeVertices k v1 v2 l m
  rw [h] at st
  exact st.β

/-- the `if b1d1_old != 0 { unlink::<1>(base_dart1) }` step, uniformly -/
theorem unlinkOld_eff {e : Nat} {m m' : Map Val} {a : Unit} (hs : Sized 3 m) (h0 : m.β 0 0 = 0)
    (h : run (whenP (decide (m.β 1 e ≠ 0)) (oneUnlinkCore e)) m = (.ok a, m')) :
    Sized 3 m' ∧
      ∀ i d, m'.β i d = if 0 = i ∧ m.β 1 e = d then 0 else if 1 = i ∧ e = d then 0 else m.β i d := by
  rcases whenP_ok h with ⟨_, h1⟩ | ⟨hc, hm⟩
  · obtain ⟨s1, _, e1⟩ := oneUnlinkCore_eff hs h1
    exact ⟨s1, e1⟩
  · rw [hm]
    have ho : m.β 1 e = 0 := by simpa using hc
    refine ⟨hs, fun i d => ?_⟩
    by_cases c1 : 0 = i ∧ m.β 1 e = d
    · obtain ⟨rfl, rfl⟩ := c1; rw [if_pos ⟨rfl, rfl⟩, ho]; exact h0
    · rw [if_neg c1]
      by_cases c2 : 1 = i ∧ e = d
      · obtain ⟨rfl, rfl⟩ := c2; rw [if_pos ⟨rfl, rfl⟩]; exact ho
      · rw [if_neg c2]

/-- the `if b1d1_old != 0 { link::<1>(prev, b1d1_old) }` step, uniformly (given that both slots are empty) -/
theorem linkOld_eff {l o : Nat} {m m' : Map Val} {a : Unit} (hs : Sized 3 m) (hl : m.β 1 l = 0) (h00 : m.β 0 0 = 0)
    (h : run (whenP (decide (o ≠ 0)) (oneLinkCore l o)) m = (.ok a, m')) :
    Sized 3 m' ∧ Ext m m' ∧
      (∀ y, m'.β 1 y = if l = y then o else m.β 1 y) ∧
      (∀ y, (y ≠ o ∨ o = 0) → m'.β 0 y = m.β 0 y) ∧ (∀ y, m'.β 2 y = m.β 2 y) := by
  rcases whenP_ok h with ⟨hcT, h1⟩ | ⟨hc, hm⟩
  · obtain ⟨s1, _, _, x1, e1⟩ := oneLinkCore_eff hs h1
    refine ⟨s1, x1, fun y => ?_, fun y hy => ?_, fun y => ?_⟩
    · rw [e1, if_neg (fun hh => absurd hh.1 (by decide))]; simp
    · have hy' : y ≠ o := by
        rcases hy with c | c
        · exact c
        · exact absurd c (by simpa using hcT)
      rw [e1, if_neg (fun hh => hy' hh.2.symm), if_neg (fun hh => absurd hh.1 (by decide))]
    · rw [e1, if_neg (fun hh => absurd hh.1 (by decide)), if_neg (fun hh => absurd hh.1 (by decide))]
  · rw [hm]
    have ho : o = 0 := by simpa using hc
    refine ⟨hs, Ext.refl _, fun y => ?_, fun _ _ => rfl, fun _ => rfl⟩
    by_cases c : l = y
    · subst c; rw [if_pos rfl, ho]; exact hl
    · rw [if_neg c]

/-- the same step as one uniform table -/
theorem linkOld_eff' {l o : Nat} {m m' : Map Val} {a : Unit} (hs : Sized 3 m) (hl : m.β 1 l = 0)
    (h : run (whenP (decide (o ≠ 0)) (oneLinkCore l o)) m = (.ok a, m')) :
    Sized 3 m' ∧
      ∀ i d, m'.β i d = if o ≠ 0 ∧ 0 = i ∧ o = d then l else if 1 = i ∧ l = d then o else m.β i d := by
  rcases whenP_ok h with ⟨hcT, h1⟩ | ⟨hc, hm⟩
  · obtain ⟨s1, _, _, _, e1⟩ := oneLinkCore_eff hs h1
    have ho : o ≠ 0 := by simpa using hcT
    refine ⟨s1, fun i d => ?_⟩
    rw [e1]
    by_cases c : 0 = i ∧ o = d
    · rw [if_pos c, if_pos ⟨ho, c⟩]
    · rw [if_neg c, if_neg (fun (hh : o ≠ 0 ∧ 0 = i ∧ o = d) => c hh.2)]
  · rw [hm]
    have ho : o = 0 := by simpa using hc
    refine ⟨hs, fun i d => ?_⟩
    rw [if_neg (fun hh => hh.1 ho)]
    by_cases c : 1 = i ∧ l = d
    · obtain ⟨rfl, rfl⟩ := c; rw [if_pos ⟨rfl, rfl⟩, ho]; exact hl
    · rw [if_neg c]

theorem getLastD_mem : ∀ (l : List Nat) (e : Nat), l.getLastD e ∈ e :: l := by
  intro l
  induction l with
  | nil => intro e; simp
  | cons x rest ih =>
      intro e
      rw [List.getLastD_cons]
      exact List.mem_cons_of_mem _ (ih x)

theorem getLastD_not_mem_dropLast : ∀ (l : List Nat) (e : Nat), (e :: l).Nodup → l.getLastD e ∉ (e :: l).dropLast := by
  intro l
  induction l with
  | nil => intro e _; simp [List.dropLast]
  | cons x rest ih =>
      intro e hnd
      rw [List.getLastD_cons, List.dropLast_cons_of_ne_nil (by simp)]
      simp only [List.nodup_cons] at hnd
      simp only [List.mem_cons, not_or]
      exact ⟨fun hh => hnd.1 (hh ▸ getLastD_mem rest x), ih x (by simp only [List.nodup_cons]; exact hnd.2)⟩

theorem getLastD_ne_of_ne_nil : ∀ (l : List Nat) (e : Nat), l ≠ [] → l.getLastD e ∈ l := by
  intro l e h
  cases l with
  | nil => exact absurd rfl h
  | cons x rest => rw [List.getLastD_cons]; exact getLastD_mem rest x

/-- what a successful `insert_vertices_on_edge` has done to the β tables (`e` the edge dart, `fh`/`sh` the two halves
    of the spare darts; `o1 = β1(e)`, `e2 = β2(e)`, `o2 = β1(e2)` read in the map `m` before the call):
    * first side: `e → fh[0] → … → fh[k-1] → o1` through β1;
    * second side (two-dart edge): `e2 → sh[0] → … → sh[k-1] → o2` through β1;
    * β2 pairs the two sides in reverse order: `e2 ↔ fh[k-1]`, `sh[j] ↔ fh[k-2-j]`, …, `sh[k-1] ↔ e`;
    * every other β1 / β2 image is unchanged, β0 changes only at the new darts and at the two old successors (where
      it is the inverse of β1 again, the result being well formed) -/
structure InsertResult (m m' : Map Val) (e : Nat) (fh sh : List Nat) : Prop where
  side1 : B1Chain m' e fh ∧ m'.β 1 (fh.getLastD e) = m.β 1 e
  side2 : m.β 2 e ≠ 0 → B1Chain m' (m.β 2 e) sh ∧ m'.β 1 (sh.getLastD (m.β 2 e)) = m.β 1 (m.β 2 e)
  pairs : m.β 2 e ≠ 0 → (∀ p ∈ (m.β 2 e :: sh).zip fh.reverse, m'.β 2 p.1 = p.2 ∧ m'.β 2 p.2 = p.1) ∧
    m'.β 2 (sh.getLastD (m.β 2 e)) = e ∧ m'.β 2 e = sh.getLastD (m.β 2 e)
  frame1 : ∀ y, y ∉ e :: fh → (m.β 2 e ≠ 0 → y ∉ m.β 2 e :: sh) → m'.β 1 y = m.β 1 y
  frame2 : ∀ y, (m.β 2 e ≠ 0 → y ∉ e :: fh ∧ y ∉ m.β 2 e :: sh) → m'.β 2 y = m.β 2 y
  frame0 : ∀ y, y ∉ fh → y ≠ m.β 1 e → (m.β 2 e ≠ 0 → y ∉ sh ∧ y ≠ m.β 1 (m.β 2 e)) → m'.β 0 y = m.β 0 y

/-- one-dart edge -/
theorem body_struct_one (k : Nat) (v1 v2 : Val) (e : Nat) (fh sh : List Nat) (ts : List Rat) (m m' : Map Val)
    (hs : Sized 3 m) (hnull : ∀ i, i < 3 → m.β i 0 = 0) (he2 : m.β 2 e = 0)
    (hfh0 : ∀ x ∈ fh, x ≠ 0) (hfree : ∀ x ∈ fh, ∀ i, i < 3 → m.β i x = 0) (hnd : (e :: fh).Nodup)
    (h : run (insertVerticesBody k v1 v2 e (m.β 2 e) (m.β 1 e) fh sh ts) m = (.ok (), m')) :
    InsertResult m m' e fh sh := by
  unfold insertVerticesBody at h
  obtain ⟨_, ma, ha, k1⟩ := run_bind_ok h
  obtain ⟨sa, ea⟩ := unlinkOld_eff hs (hnull 0 (by omega)) ha
  obtain ⟨_, mb, hb, k2⟩ := run_bind_ok k1
  have hmb : mb = ma := by
    rcases whenP_ok hb with ⟨c, _⟩ | ⟨_, hm⟩
    · simp [he2] at c
    · exact hm
  rw [hmb] at k2
  obtain ⟨r, mc, hc, k3⟩ := run_bind_ok k2
  obtain ⟨sc, hr, xc, hch, f1, f0, f2⟩ := chainFirst_struct fh e ma mc r sa hfh0 hc
  have hrm := getLastD_mem fh e
  have hrd := getLastD_not_mem_dropLast fh e hnd
  simp only [List.nodup_cons] at hnd
  -- β1 of the last dart is still null
  have hr0 : mc.β 1 r = 0 := by
    rw [hr, f1 _ hrd, ea, if_neg (fun hh => absurd hh.1 (by decide))]
    by_cases c : e = fh.getLastD e
    · rw [if_pos ⟨rfl, c⟩]
    · rw [if_neg (fun hh => c hh.2)]
      simp only [List.mem_cons] at hrm
      rcases hrm with hh | hh
      · exact absurd hh.symm c
      · exact hfree _ hh 1 (by omega)
  have h00 : mc.β 0 0 = 0 := by
    rw [f0 0 (fun hh => hfh0 0 hh rfl), ea]
    by_cases c : m.β 1 e = 0
    · rw [if_pos ⟨rfl, c⟩]
    · rw [if_neg (fun hh => c hh.2), if_neg (fun hh => absurd hh.1 (by decide))]; exact hnull 0 (by omega)
  obtain ⟨_, md, hd, k4⟩ := run_bind_ok k3
  obtain ⟨sd, xd, g1, g0, g2⟩ := linkOld_eff sc hr0 h00 hd
  obtain ⟨_, me, hee, k5⟩ := run_bind_ok k4
  have hme : me = md := by
    rcases whenP_ok hee with ⟨c, _⟩ | ⟨_, hm⟩
    · simp [he2] at c
    · exact hm
  rw [hme] at k5
  have hβ := sameβ_placeVertices k v1 v2 _ k5
  refine ⟨⟨?_, ?_⟩, fun hh => absurd he2 hh, fun hh => absurd he2 hh, ?_, ?_, ?_⟩
  · -- the chain persists: only β1 of the last dart was written afterwards
    refine B1Chain.frame fh e hch fun y hy => ?_
    rw [hβ, g1, if_neg (fun hh => hrd (by rw [← hr, hh]; exact hy))]
  · rw [hβ, g1, hr, if_pos rfl]
  · intro y hy _
    simp only [List.mem_cons, not_or] at hy
    rw [hβ, g1, if_neg (fun hh => by
          rw [hr] at hh; rw [← hh] at hy
          simp only [List.mem_cons] at hrm
          rcases hrm with c | c
          · exact hy.1 c
          · exact hy.2 c),
      f1 y (fun hh => by
          have := List.dropLast_subset _ hh
          simp only [List.mem_cons] at this
          rcases this with c | c
          · exact hy.1 c
          · exact hy.2 c),
      ea, if_neg (fun hh => absurd hh.1 (by decide)), if_neg (fun hh => hy.1 hh.2.symm)]
  · intro y _
    rw [hβ, g2, f2, ea, if_neg (fun hh => absurd hh.1 (by decide)), if_neg (fun hh => absurd hh.1 (by decide))]
  · intro y hy1 hy2 _
    rw [hβ, g0 y (Or.inl hy2), f0 y hy1, ea, if_neg (fun hh => hy2 hh.2.symm), if_neg (fun hh => absurd hh.1 (by decide))]

/-- two-dart edge -/
theorem body_struct_two (k : Nat) (v1 v2 : Val) (e : Nat) (fh sh : List Nat) (ts : List Rat) (m m' : Map Val)
    (hs : Sized 3 m) (hnull : ∀ i, i < 3 → m.β i 0 = 0) (he : e ≠ 0) (he2 : m.β 2 e ≠ 0)
    (hee2 : e ≠ m.β 2 e)
    (hfh0 : ∀ x ∈ fh, x ≠ 0) (hfree : ∀ x ∈ fh, ∀ i, i < 3 → m.β i x = 0) (hnd : (e :: fh).Nodup)
    (hsh0 : ∀ x ∈ sh, x ≠ 0) (hsfree : ∀ x ∈ sh, ∀ i, i < 3 → m.β i x = 0) (hnd2 : (m.β 2 e :: sh).Nodup)
    (hdis : ∀ x ∈ e :: fh, x ∉ m.β 2 e :: sh) (hlen : fh.length = sh.length)
    (h : run (insertVerticesBody k v1 v2 e (m.β 2 e) (m.β 1 e) fh sh ts) m = (.ok (), m')) :
    InsertResult m m' e fh sh := by
  have hdis' : ∀ x ∈ m.β 2 e :: sh, x ∉ e :: fh := fun x hx hh => hdis x hh hx
  unfold insertVerticesBody at h
  obtain ⟨_, ma, ha, k1⟩ := run_bind_ok h
  obtain ⟨sa, ea⟩ := unlinkOld_eff hs (hnull 0 (by omega)) ha
  obtain ⟨_, mb, hb, k2⟩ := run_bind_ok k1
  have hb' : run (iUnlinkCore 2 e) ma = (.ok (), mb) := by
    rcases whenP_ok hb with ⟨_, hh⟩ | ⟨c, _⟩
    · exact hh
    · simp [he2] at c
  obtain ⟨sb, _, eb⟩ := twoUnlinkCore_eff sa hb'
  have ea2 : ∀ y, ma.β 2 y = m.β 2 y := fun y => by
    rw [ea, if_neg (fun hh => absurd hh.1 (by decide)), if_neg (fun hh => absurd hh.1 (by decide))]
  rw [ea2] at eb
  obtain ⟨r, mc, hc, k3⟩ := run_bind_ok k2
  obtain ⟨sc, hr, xc, hch, f1, f0, f2⟩ := chainFirst_struct fh e mb mc r sb hfh0 hc
  have hrm := getLastD_mem fh e
  have hrd := getLastD_not_mem_dropLast fh e hnd
  have hndF := hnd
  simp only [List.nodup_cons] at hnd
  have eb1 : ∀ y, mb.β 1 y = if e = y then 0 else m.β 1 y := fun y => by
    rw [eb, if_neg (fun hh => absurd hh.1 (by decide)), if_neg (fun hh => absurd hh.1 (by decide)), ea,
      if_neg (fun hh => absurd hh.1 (by decide))]
    simp
  have eb0 : ∀ y, mb.β 0 y = if m.β 1 e = y then 0 else m.β 0 y := fun y => by
    rw [eb, if_neg (fun hh => absurd hh.1 (by decide)), if_neg (fun hh => absurd hh.1 (by decide)), ea]
    by_cases c : m.β 1 e = y
    · rw [if_pos ⟨rfl, c⟩, if_pos c]
    · rw [if_neg (fun hh => c hh.2), if_neg (fun hh => absurd hh.1 (by decide)), if_neg c]
  have hr0 : mc.β 1 r = 0 := by
    rw [hr, f1 _ hrd, eb1]
    by_cases c : e = fh.getLastD e
    · rw [if_pos c]
    · rw [if_neg c]
      simp only [List.mem_cons] at hrm
      rcases hrm with hh | hh
      · exact absurd hh.symm c
      · exact hfree _ hh 1 (by omega)
  have h00 : mc.β 0 0 = 0 := by
    rw [f0 0 (fun hh => hfh0 0 hh rfl), eb0]
    by_cases c : m.β 1 e = 0
    · rw [if_pos c]
    · rw [if_neg c]; exact hnull 0 (by omega)
  obtain ⟨_, md, hd, k4⟩ := run_bind_ok k3
  obtain ⟨sd, xd, g1, g0, g2⟩ := linkOld_eff sc hr0 h00 hd
  obtain ⟨_, me, hee, k5⟩ := run_bind_ok k4
  have hside : run (insertVerticesSide2 e (m.β 2 e) fh sh) md = (.ok (), me) := by
    rcases whenP_ok hee with ⟨_, hh⟩ | ⟨c, _⟩
    · exact hh
    · simp [he2] at c
  have hβ := sameβ_placeVertices k v1 v2 _ k5
  -- the second side
  unfold insertVerticesSide2 at hside
  obtain ⟨_, q1⟩ := rB_bind_ok hside
  have he2F : m.β 2 e ∉ e :: fh := hdis' _ (by simp)
  have hrne2 : r ≠ m.β 2 e := fun hh => he2F (by rw [← hh, hr]; exact hrm)
  have hmd1 : ∀ y, y ∉ e :: fh → md.β 1 y = m.β 1 y := by
    intro y hy
    have hyr : r ≠ y := fun hh => hy (by rw [← hh, hr]; exact hrm)
    rw [g1, if_neg hyr, f1 y (fun hh => hy (List.dropLast_subset _ hh)), eb1,
      if_neg (fun hh => hy (by rw [← hh]; simp))]
  have ho2 : md.β 1 (m.β 2 e) = m.β 1 (m.β 2 e) := hmd1 _ he2F
  rw [ho2] at q1
  obtain ⟨_, m5, h5, q2⟩ := run_bind_ok q1
  have hmd00 : md.β 0 0 = 0 := by
    by_cases c : m.β 1 e = 0
    · rw [g0 0 (Or.inr c)]; exact h00
    · rw [g0 0 (Or.inl (fun hh => c hh.symm))]; exact h00
  have h5' : run (whenP (decide (md.β 1 (m.β 2 e) ≠ 0)) (oneUnlinkCore (m.β 2 e))) md = (.ok (), m5) := by
    rw [ho2]; exact h5
  obtain ⟨s5, e5⟩ := unlinkOld_eff sd hmd00 h5'
  rw [ho2] at e5
  obtain ⟨r2, m6, h6, q3⟩ := run_bind_ok q2
  have hzl : (fh.reverse.zip sh).map Prod.fst = fh.reverse := List.map_fst_zip (by simp [hlen])
  have hzr : (fh.reverse.zip sh).map Prod.snd = sh := List.map_snd_zip (by simp [hlen])
  obtain ⟨s6, hr2, x6, hch2, hp2, j1, j0, j2⟩ := chainSecond_struct (fh.reverse.zip sh) (m.β 2 e) m5 m6 r2 s5 he2
    (fun p hp => ⟨hfh0 _ (by simpa using mem_zip_fst hp), hsh0 _ (mem_zip_snd hp)⟩) h6
  rw [hzr] at hr2 hch2 hp2 j1 j0 j2
  rw [hzl] at hp2 j2
  have hr2m := getLastD_mem sh (m.β 2 e)
  have hr2d := getLastD_not_mem_dropLast sh (m.β 2 e) hnd2
  have hr2F : r2 ∉ e :: fh := hdis' _ (by rw [hr2]; exact hr2m)
  have hr20 : m6.β 1 r2 = 0 := by
    rw [hr2, j1 _ hr2d, e5, if_neg (fun hh => absurd hh.1 (by decide))]
    by_cases c : m.β 2 e = sh.getLastD (m.β 2 e)
    · rw [if_pos ⟨rfl, c⟩]
    · rw [if_neg (fun hh => c hh.2), hmd1 _ (by rw [← hr2]; exact hr2F)]
      simp only [List.mem_cons] at hr2m
      rcases hr2m with hh | hh
      · exact absurd hh.symm c
      · exact hsfree _ hh 1 (by omega)
  have h600 : m6.β 0 0 = 0 := by
    rw [j0 0 (fun hh => hsh0 0 hh rfl), e5]
    by_cases c : m.β 1 (m.β 2 e) = 0
    · rw [if_pos ⟨rfl, c⟩]
    · rw [if_neg (fun hh => c hh.2), if_neg (fun hh => absurd hh.1 (by decide))]; exact hmd00
  obtain ⟨_, m7, h7, q4⟩ := run_bind_ok q3
  obtain ⟨s7, x7, t1, t0, t2⟩ := linkOld_eff s6 hr20 h600 h7
  obtain ⟨s8, _, _, x8, e8⟩ := twoLinkCore_eff s7 q4
  have e81 : ∀ y, me.β 1 y = m7.β 1 y := fun y => by
    rw [e8, if_neg (fun hh => absurd hh.1 (by decide)), if_neg (fun hh => absurd hh.1 (by decide))]
  have e80 : ∀ y, me.β 0 y = m7.β 0 y := fun y => by
    rw [e8, if_neg (fun hh => absurd hh.1 (by decide)), if_neg (fun hh => absurd hh.1 (by decide))]
  -- β1 outside the second side is as after the first side
  have K1 : ∀ y, y ∉ m.β 2 e :: sh → m'.β 1 y = md.β 1 y := by
    intro y hy
    have hyr2 : r2 ≠ y := fun hh => hy (by rw [← hh, hr2]; exact hr2m)
    rw [hβ, e81, t1, if_neg hyr2, j1 y (fun hh => hy (List.dropLast_subset _ hh)), e5,
      if_neg (fun hh => absurd hh.1 (by decide)), if_neg (fun hh => hy (by rw [← hh.2]; simp))]
  have hrS : r ∉ m.β 2 e :: sh := hdis _ (by rw [hr]; exact hrm)
  refine ⟨⟨?_, ?_⟩, fun _ => ⟨?_, ?_⟩, fun _ => ⟨?_, ?_, ?_⟩, ?_, ?_, ?_⟩
  · refine B1Chain.frame fh e hch fun y hy => ?_
    have hyF : y ∈ e :: fh := List.dropLast_subset _ hy
    rw [K1 y (hdis y hyF), g1, if_neg (fun hh => hrd (by rw [← hr, hh]; exact hy))]
  · rw [K1 _ (by rw [← hr]; exact hrS), g1, hr, if_pos rfl]
  · refine B1Chain.frame sh _ hch2 fun y hy => ?_
    rw [hβ, e81, t1, if_neg (fun hh => hr2d (by rw [← hr2, hh]; exact hy))]
  · rw [hβ, e81, t1, hr2, if_pos rfl]
  · intro p hp
    obtain ⟨a, b⟩ := hp2 p hp
    have hp1 : p.1 ≠ 0 := by
      have := mem_zip_fst hp
      simp only [List.mem_cons] at this
      rcases this with c | c
      · rw [c]; exact he2
      · exact hsh0 _ c
    have hp2' : p.2 ≠ 0 := hfh0 _ (by simpa using mem_zip_snd hp)
    constructor
    · rw [hβ, x8 2 p.1 (by rw [x7 2 p.1 (by rw [a]; exact hp2'), a]; exact hp2'),
        x7 2 p.1 (by rw [a]; exact hp2'), a]
    · rw [hβ, x8 2 p.2 (by rw [x7 2 p.2 (by rw [b]; exact hp1), b]; exact hp1),
        x7 2 p.2 (by rw [b]; exact hp1), b]
  · rw [hβ, e8, ← hr2]
    by_cases c : e = r2
    · simp [c]
    · simp [c]
  · rw [hβ, e8, ← hr2]; simp
  · intro y hy1 hy2
    rw [K1 y (hy2 he2), hmd1 y hy1]
  · intro y hy
    obtain ⟨hy1, hy2⟩ := hy he2
    have hyr2 : r2 ≠ y := fun hh => hy2 (by rw [← hh, hr2]; exact hr2m)
    have hye : e ≠ y := fun hh => hy1 (by rw [← hh]; simp)
    rw [hβ, e8, if_neg (fun hh => hye hh.2), if_neg (fun hh => hyr2 hh.2), t2,
      j2 y (fun hh => hy2 (List.dropLast_subset _ hh)) (fun hh => hy1 (List.mem_cons_of_mem _ (by simpa using hh))),
      e5, if_neg (fun hh => absurd hh.1 (by decide)), if_neg (fun hh => absurd hh.1 (by decide)), g2, f2, eb,
      if_neg (fun hh => hy2 (by rw [← hh.2]; simp)), if_neg (fun hh => hye hh.2), ea2]
  · intro y hy1 hy2 hy3
    obtain ⟨hy3a, hy3b⟩ := hy3 he2
    rw [hβ, e80, t0 y (Or.inl hy3b), j0 y hy3a, e5, if_neg (fun hh => hy3b hh.2.symm),
      if_neg (fun hh => absurd hh.1 (by decide)), g0 y (Or.inl hy2), f0 y hy1, eb0, if_neg (fun hh => hy2 hh.symm)]

/-! ## the theorem on `insert_vertices_on_edge` -/

/-- **C14 (b), exact β tables**: after a successful `insert_vertices_on_edge` on a well-formed map the edge is
    replaced by the `k + 1` segments of `InsertResult` — `e → fh[0] → … → fh[k-1] → old successor` on the first side,
    the mirrored chain on the second side of a two-dart edge, β2 pairing the two sides in reverse order — every other
    β1 / β2 image of every dart is unchanged, β0 changes only at the new darts and the two old successors, and the map is
    well formed again (so β0 is the inverse of β1 there too).  `fh`, `sh` are the two halves of the spare darts.
    User-side hypotheses as for `C14_insertVertices_preserves_WF`, plus: the first-half darts are pairwise distinct
    (also on a one-dart edge). -/
theorem C14_insertVertices_beta_structure (m m' : Map Val) (e : Nat) (nds : List Nat) (ts : List Rat)
    (hwf : WF 3 m) (he : C01.InUse m e)
    (hlive : ∀ d ∈ nds, m.unused d = false)
    (hfhnd : (nds.take ts.length).Nodup) (hnodup : m.β 2 e ≠ 0 → nds.Nodup)
    (h : run (insertVerticesOnEdge m.n e nds ts) m = (.ok (), m')) :
    WF 3 m' ∧ InsertResult m m' e (nds.take ts.length) (nds.drop ts.length) := by
  refine ⟨C14_insertVertices_preserves_WF m m' e nds ts hwf he hlive hnodup h, ?_⟩
  obtain ⟨hc, hfree, hok, hfh0, hsh0, _, hend, vid1, vid2, v1, v2, _, _, _, _, hbody⟩ := insertVertices_ok_elim h
  have hfreeF : ∀ x ∈ nds.take ts.length, ∀ i, i < 3 → m.β i x = 0 :=
    fun x hx i hi => free_β (hfree x (List.mem_of_mem_take hx)).2 i hi
  have hfreeS : ∀ x ∈ nds.drop ts.length, ∀ i, i < 3 → m.β i x = 0 :=
    fun x hx i hi => free_β (hfree x (List.mem_of_mem_drop hx)).2 i hi
  -- the edge dart is not free, hence not a spare dart
  have heF : e ∉ nds.take ts.length := by
    intro hh
    rcases hend with c | c
    · exact c (hfreeF e hh 1 (by omega))
    · exact c (hfreeF e hh 2 (by omega))
  have hndF : (e :: nds.take ts.length).Nodup := by
    simp only [List.nodup_cons]; exact ⟨heF, hfhnd⟩
  by_cases h2 : m.β 2 e = 0
  · exact body_struct_one m.n v1 v2 e _ _ ts m m' hwf.toSized hwf.null h2 hfh0 hfreeF hndF hbody
  · have hinv := hwf.invol 2 (by omega) (by omega) e he.2.1 h2
    have hnd := hnodup h2
    rw [← List.take_append_drop ts.length nds] at hnd
    obtain ⟨_, hndS, hdisj⟩ := List.nodup_append.1 hnd
    -- neither `e` nor `β2 e` is free
    have he2S : m.β 2 e ∉ nds.drop ts.length := by
      intro hh
      have := hfreeS _ hh 2 (by omega)
      rw [hinv.1] at this; exact he.1 this
    have he2F : m.β 2 e ∉ nds.take ts.length := by
      intro hh
      have := hfreeF _ hh 2 (by omega)
      rw [hinv.1] at this; exact he.1 this
    have heS : e ∉ nds.drop ts.length := fun hh => h2 (hfreeS e hh 2 (by omega))
    refine body_struct_two m.n v1 v2 e _ _ ts m m' hwf.toSized hwf.null he.1 h2 (fun hh => hinv.2 hh.symm)
      hfh0 hfreeF hndF (hsh0 h2) hfreeS (by simp only [List.nodup_cons]; exact ⟨he2S, hndS⟩) ?_ ?_ hbody
    · intro x hx hx2
      simp only [List.mem_cons] at hx hx2
      rcases hx with rfl | hx
      · rcases hx2 with c | c
        · exact hinv.2 c.symm
        · exact heS c
      · rcases hx2 with c | c
        · exact he2F (c ▸ hx)
        · exact hdisj x hx x c rfl
    · rw [List.length_take, List.length_drop]; omega

/-! ## `insert_vertex_on_edge` (the `k = 1` kernel) -/

theorem sameβ_vid_write (k nd : Nat) (v : Val) {m m' : Map Val} {a : Unit}
    (h : run (do let vnew ← vertexId2 k nd; let _ ← writeVtx vnew v; pure ()) m = (.ok a, m')) :
    ∀ i d, m'.β i d = m.β i d := by
  have ao : AttrOnly (do let vnew ← vertexId2 k nd; let _ ← writeVtx vnew v; pure () : P Val Unit) :=
    AttrOnly.bind (AttrOnly.of_readOnly (readOnly_vertexId2 _ _)) fun _ =>
      AttrOnly.bind (attrOnly_writeVtx _ _) fun _ => AttrOnly.pure _
  have st := ao m
  rw [h] at st
  exact st.β

/-- one-dart edge -/
theorem body1_struct (k : Nat) (v1 v2 : Val) (e nd1 nd2 : Nat) (t : Option Rat) (m m' : Map Val)
    (hs : Sized 3 m) (hnull : ∀ i, i < 3 → m.β i 0 = 0) (he2 : m.β 2 e = 0) (hnd0 : nd1 ≠ 0)
    (hfree : ∀ i, i < 3 → m.β i nd1 = 0) (hne : e ≠ nd1)
    (h : run (insertVertexBody1 k v1 v2 e (m.β 1 e) nd1 t) m = (.ok (), m')) :
    InsertResult m m' e [nd1] [nd2] := by
  unfold insertVertexBody1 at h
  obtain ⟨_, ma, ha, k1⟩ := run_bind_ok h
  obtain ⟨sa, ea⟩ := unlinkOld_eff hs (hnull 0 (by omega)) ha
  obtain ⟨_, mb, hb, k2⟩ := run_bind_ok k1
  obtain ⟨sb, _, _, _, eb⟩ := oneLinkCore_eff sa hb
  obtain ⟨_, mc, hc, k3⟩ := run_bind_ok k2
  obtain ⟨sc, _, _, _, ec⟩ := oneLinkCore_eff sb hc
  have hβ := sameβ_vid_write k nd1 _ k3
  have f1 : ∀ y, m'.β 1 y = if nd1 = y then m.β 1 e else if e = y then nd1 else m.β 1 y := by
    intro y
    rw [hβ, ec, eb, ea]
    simp only [show ¬ (0 = 1) by decide, false_and, if_false, true_and]
    by_cases c1 : nd1 = y
    · simp [c1]
    · by_cases c2 : e = y
      · simp [c1, c2]
      · simp [c1, c2]
  refine ⟨⟨⟨?_, trivial⟩, ?_⟩, fun hh => absurd he2 hh, fun hh => absurd he2 hh, ?_, ?_, ?_⟩
  · rw [f1, if_neg (fun hh => hne hh.symm), if_pos rfl]
  · show m'.β 1 nd1 = m.β 1 e
    rw [f1, if_pos rfl]
  · intro y hy _
    simp only [List.mem_cons, List.not_mem_nil, or_false, not_or] at hy
    rw [f1, if_neg (fun hh => hy.2 hh.symm), if_neg (fun hh => hy.1 hh.symm)]
  · intro y _
    rw [hβ, ec, eb, ea]
    simp only [show ¬ (0 = 2) by decide, show ¬ (1 = 2) by decide, false_and, if_false]
  · intro y hy1 hy2 _
    simp only [List.mem_cons, List.not_mem_nil, or_false] at hy1
    rw [hβ, ec, if_neg (fun hh => hy2 hh.2.symm), if_neg (fun hh => absurd hh.1 (by decide)), eb,
      if_neg (fun hh => hy1 hh.2.symm), if_neg (fun hh => absurd hh.1 (by decide)), ea,
      if_neg (fun hh => hy2 hh.2.symm), if_neg (fun hh => absurd hh.1 (by decide))]

/-- two-dart edge -/
theorem body2_struct (k : Nat) (v1 v2 : Val) (e nd1 nd2 : Nat) (t : Option Rat) (m m' : Map Val)
    (hs : Sized 3 m) (hnull : ∀ i, i < 3 → m.β i 0 = 0) (he2 : m.β 2 e ≠ 0) (hee2 : e ≠ m.β 2 e)
    (hinv : m.β 2 (m.β 2 e) = e)
    (hnd10 : nd1 ≠ 0) (hnd20 : nd2 ≠ 0)
    (hfree1 : ∀ i, i < 3 → m.β i nd1 = 0) (hfree2 : ∀ i, i < 3 → m.β i nd2 = 0)
    (h12 : nd1 ≠ nd2) (hen1 : e ≠ nd1) (hen2 : e ≠ nd2) (h2n1 : m.β 2 e ≠ nd1) (h2n2 : m.β 2 e ≠ nd2)
    (h : run (insertVertexBody2 k v1 v2 e (m.β 2 e) (m.β 1 e) (m.β 1 (m.β 2 e)) nd1 nd2 t) m = (.ok (), m')) :
    InsertResult m m' e [nd1] [nd2] := by
  unfold insertVertexBody2 at h
  obtain ⟨_, ma, ha, k1⟩ := run_bind_ok h
  obtain ⟨sa, ea⟩ := unlinkOld_eff hs (hnull 0 (by omega)) ha
  obtain ⟨_, mb, hb, k2⟩ := run_bind_ok k1
  have ho2 : ma.β 1 (m.β 2 e) = m.β 1 (m.β 2 e) := by
    rw [ea, if_neg (fun hh => absurd hh.1 (by decide)), if_neg (fun hh => hee2 hh.2)]
  have hb' : run (whenP (decide (ma.β 1 (m.β 2 e) ≠ 0)) (oneUnlinkCore (m.β 2 e))) ma = (.ok (), mb) := by
    rw [ho2]; exact hb
  have ha00 : ma.β 0 0 = 0 := by
    rw [ea]
    by_cases c : m.β 1 e = 0
    · rw [if_pos ⟨rfl, c⟩]
    · rw [if_neg (fun hh => c hh.2), if_neg (fun hh => absurd hh.1 (by decide))]; exact hnull 0 (by omega)
  obtain ⟨sb, eb⟩ := unlinkOld_eff sa ha00 hb'
  rw [ho2] at eb
  obtain ⟨_, mc, hc, k3⟩ := run_bind_ok k2
  obtain ⟨sc, _, ec⟩ := twoUnlinkCore_eff sb hc
  have hb2e : mb.β 2 e = m.β 2 e := by
    rw [eb, if_neg (fun hh => absurd hh.1 (by decide)), if_neg (fun hh => absurd hh.1 (by decide)), ea,
      if_neg (fun hh => absurd hh.1 (by decide)), if_neg (fun hh => absurd hh.1 (by decide))]
  rw [hb2e] at ec
  obtain ⟨_, md, hd, k4⟩ := run_bind_ok k3
  obtain ⟨sd, _, _, _, ed⟩ := oneLinkCore_eff sc hd
  obtain ⟨_, me, hee, k5⟩ := run_bind_ok k4
  have hnd1free : md.β 1 nd1 = 0 := by
    rw [ed, ec, eb, ea]
    simp only [show ¬ (0 = 1) by decide, show ¬ (2 = 1) by decide, false_and, if_false, true_and,
      if_neg hen1, if_neg h2n1]
    exact hfree1 1 (by omega)
  obtain ⟨se, ee⟩ := linkOld_eff' sd hnd1free hee
  obtain ⟨_, mf, hf, k6⟩ := run_bind_ok k5
  obtain ⟨sf, _, _, _, ef⟩ := oneLinkCore_eff se hf
  obtain ⟨_, mg, hg, k7⟩ := run_bind_ok k6
  have hnd2free : mf.β 1 nd2 = 0 := by
    rw [ef, ee, ed, ec, eb, ea]
    simp only [show ¬ (0 = 1) by decide, show ¬ (2 = 1) by decide, false_and, and_false, if_false, true_and,
      if_neg h2n2, if_neg h12, if_neg hen2]
    exact hfree2 1 (by omega)
  obtain ⟨sg, eg⟩ := linkOld_eff' sf hnd2free hg
  obtain ⟨_, mh, hh', k8⟩ := run_bind_ok k7
  obtain ⟨sh', _, _, _, eh⟩ := twoLinkCore_eff sg hh'
  obtain ⟨_, mi, hi', k9⟩ := run_bind_ok k8
  obtain ⟨si, _, _, _, ei⟩ := twoLinkCore_eff sh' hi'
  have hβ := sameβ_vid_write k nd1 _ k9
  -- the final tables
  have F1 : ∀ y, m'.β 1 y = if nd2 = y then m.β 1 (m.β 2 e) else if m.β 2 e = y then nd2 else
      if nd1 = y then m.β 1 e else if e = y then nd1 else m.β 1 y := by
    intro y
    rw [hβ, ei, eh, eg, ef, ee, ed, ec, eb, ea]
    simp only [show ¬ (0 = 1) by decide, show ¬ (2 = 1) by decide, false_and, and_false, if_false, true_and]
    by_cases c1 : nd2 = y
    · simp [c1]
    · by_cases c2 : m.β 2 e = y
      · simp [c1, c2]
      · by_cases c3 : nd1 = y
        · simp [c1, c2, c3]
        · by_cases c4 : e = y
          · simp [c1, c2, c3, c4]
          · simp [c1, c2, c3, c4]
  have F2 : ∀ y, m'.β 2 y = if nd1 = y then m.β 2 e else if m.β 2 e = y then nd1 else
      if nd2 = y then e else if e = y then nd2 else m.β 2 y := by
    intro y
    rw [hβ, ei, eh, eg, ef, ee, ed, ec, eb, ea]
    simp only [show ¬ (0 = 2) by decide, show ¬ (1 = 2) by decide, false_and, and_false, if_false, true_and]
    by_cases c1 : nd1 = y
    · simp [c1]
    · by_cases c2 : m.β 2 e = y
      · simp [c1, c2]
      · by_cases c3 : nd2 = y
        · simp [c1, c2, c3]
        · by_cases c4 : e = y
          · simp [c1, c2, c3, c4]
          · simp [c1, c2, c3, c4]
  refine ⟨⟨⟨?_, trivial⟩, ?_⟩, fun _ => ⟨⟨?_, trivial⟩, ?_⟩, fun _ => ⟨?_, ?_, ?_⟩, ?_, ?_, ?_⟩
  · rw [F1, if_neg (fun hh => hen2 hh.symm), if_neg (fun hh => hee2 hh.symm), if_neg (fun hh => hen1 hh.symm),
      if_pos rfl]
  · show m'.β 1 nd1 = m.β 1 e
    rw [F1, if_neg (fun hh => h12 hh.symm), if_neg h2n1, if_pos rfl]
  · rw [F1, if_neg (fun hh => h2n2 hh.symm), if_pos rfl]
  · show m'.β 1 nd2 = m.β 1 (m.β 2 e)
    rw [F1, if_pos rfl]
  · intro p hp
    simp only [List.reverse_cons, List.reverse_nil, List.nil_append, List.zip_cons_cons, List.zip_nil_right,
      List.mem_singleton] at hp
    subst hp
    exact ⟨by show m'.β 2 (m.β 2 e) = nd1; rw [F2, if_neg (fun hh => h2n1 hh.symm), if_pos rfl],
      by show m'.β 2 nd1 = m.β 2 e; rw [F2, if_pos rfl]⟩
  · show m'.β 2 nd2 = e
    rw [F2, if_neg h12, if_neg h2n2, if_pos rfl]
  · show m'.β 2 e = nd2
    rw [F2, if_neg (fun hh => hen1 hh.symm), if_neg (fun hh => hee2 hh.symm), if_neg (fun hh => hen2 hh.symm),
      if_pos rfl]
  · intro y hy1 hy2
    have hy2' := hy2 he2
    simp only [List.mem_cons, List.not_mem_nil, or_false, not_or] at hy1 hy2'
    rw [F1, if_neg (fun hh => hy2'.2 hh.symm), if_neg (fun hh => hy2'.1 hh.symm), if_neg (fun hh => hy1.2 hh.symm),
      if_neg (fun hh => hy1.1 hh.symm)]
  · intro y hy
    obtain ⟨hy1, hy2⟩ := hy he2
    simp only [List.mem_cons, List.not_mem_nil, or_false, not_or] at hy1 hy2
    rw [F2, if_neg (fun hh => hy1.2 hh.symm), if_neg (fun hh => hy2.1 hh.symm), if_neg (fun hh => hy2.2 hh.symm),
      if_neg (fun hh => hy1.1 hh.symm)]
  · intro y hy1 hy2 hy3
    obtain ⟨hy3a, hy3b⟩ := hy3 he2
    simp only [List.mem_cons, List.not_mem_nil, or_false] at hy1 hy3a
    rw [hβ, ei, eh, eg, ef, ee, ed, ec, eb, ea]
    simp only [show ¬ (1 = 0) by decide, show ¬ (2 = 0) by decide, false_and, and_false, if_false, true_and]
    rw [if_neg (fun hh => hy3b hh.2.symm), if_neg (fun hh => hy3a hh.symm), if_neg (fun hh => hy2 hh.2.symm),
      if_neg (fun hh => hy1 hh.symm), if_neg (fun hh => hy3b hh.symm), if_neg (fun hh => hy2 hh.symm)]

/-- **C14 (b), exact β tables for `insert_vertex_on_edge`**: the same `InsertResult` with one new dart per side —
    `e → nd1 → old successor`, `e2 → nd2 → old successor of e2`, `e2 ↔ nd1`, `nd2 ↔ e`, everything else unchanged —
    and a well-formed result -/
theorem C14_insertVertex_beta_structure (m m' : Map Val) (e nd1 nd2 : Nat) (t : Option Rat)
    (hwf : WF 3 m) (he : C01.InUse m e)
    (hl1 : m.unused nd1 = false) (hl2 : m.β 2 e ≠ 0 → m.unused nd2 = false ∧ nd1 ≠ nd2)
    (hend : m.β 1 e ≠ 0 ∨ m.β 2 e ≠ 0)
    (h : run (insertVertexOnEdge m.n e nd1 nd2 t) m = (.ok (), m')) :
    WF 3 m' ∧ InsertResult m m' e [nd1] [nd2] := by
  refine ⟨C14_insertVertex_preserves_WF m m' e nd1 nd2 t hwf he hl1 (fun hh => (hl2 hh).1) hend h, ?_⟩
  obtain ⟨_, _, hnd1, hnd2, vid1, vid2, v1, v2, _, _, _, _, hB1, hB2⟩ := insertVertex_ok_elim h
  have hf1 : ∀ i, i < 3 → m.β i nd1 = 0 := fun i hi => free_β hnd1.2.2 i hi
  have hen1 : e ≠ nd1 := by
    rintro rfl
    rcases hend with c | c
    · exact c (hf1 1 (by omega))
    · exact c (hf1 2 (by omega))
  by_cases b2 : m.β 2 e = 0
  · exact body1_struct m.n v1 v2 e nd1 nd2 t m m' hwf.toSized hwf.null b2 hnd1.1 hf1 hen1 (hB1 b2)
  · obtain ⟨g1, _, g3⟩ := hnd2 b2
    have hf2 : ∀ i, i < 3 → m.β i nd2 = 0 := fun i hi => free_β g3 i hi
    have hinv := hwf.invol 2 (by omega) (by omega) e he.2.1 b2
    refine body2_struct m.n v1 v2 e nd1 nd2 t m m' hwf.toSized hwf.null b2 (fun hh => hinv.2 hh.symm) hinv.1
      hnd1.1 g1 hf1 hf2 (hl2 b2).2 hen1 ?_ ?_ ?_ (hB2 b2)
    · rintro rfl; exact b2 (hf2 2 (by omega))
    · intro hh
      have := hf1 2 (by omega)
      rw [← hh, hinv.1] at this; exact he.1 this
    · intro hh
      have := hf2 2 (by omega)
      rw [← hh, hinv.1] at this; exact he.1 this

/-! ## the new darts lie in pairwise distinct vertices -/

theorem B1Chain.index {m : Map Val} : ∀ (l : List Nat) (d j : Nat), B1Chain m d l → j < l.length →
    m.β 1 ((d :: l).getD j 0) = (d :: l).getD (j + 1) 0 := by
  intro l
  induction l with
  | nil => intro d j _ hj; simp at hj
  | cons x rest ih =>
      intro d j h hj
      cases j with
      | zero => simpa using h.1
      | succ j' =>
          have := ih x j' h.2 (by simpa using hj)
          simpa using this

theorem zip_index {Q : Nat × Nat → Prop} {A B : List Nat} (h : ∀ p ∈ A.zip B, Q p) (j : Nat)
    (hA : j < A.length) (hB : j < B.length) : Q (A.getD j 0, B.getD j 0) := by
  have hz : j < (A.zip B).length := by simp [List.length_zip]; omega
  have := h _ (List.getElem_mem hz)
  rw [List.getElem_zip] at this
  rw [List.getD_eq_getElem?_getD, List.getD_eq_getElem?_getD, List.getElem?_eq_getElem hA,
    List.getElem?_eq_getElem hB]
  exact this

theorem getLastD_index : ∀ (l : List Nat) (d : Nat), l.getLastD d = (d :: l).getD l.length 0 := by
  intro l
  induction l with
  | nil => intro d; rfl
  | cons x rest ih => intro d; rw [List.getLastD_cons, ih x]; simp

theorem getD_mem_of_lt {l : List Nat} {j : Nat} (h : j < l.length) : l.getD j 0 ∈ l := by
  rw [List.getD_eq_getElem?_getD, List.getElem?_eq_getElem h]; exact List.getElem_mem h

/-- the vertex closure argument: a set of darts closed under the two vertex images contains the whole vertex -/
theorem reach_vertex_closed {m : Map Val} (S : Nat → Prop) (h0 : S 0)
    (hcl : ∀ y, S y → S (m.β 1 (m.β 2 y)) ∧ S (m.β 2 (m.β 0 y))) {a x : Nat} (ha : S a)
    (hr : Reach (C03.g2 m .vertex) a x) : S x := by
  induction hr with
  | refl => exact ha
  | tail _ hc ih =>
      simp only [C03.g2, List.mem_cons, List.not_mem_nil, or_false] at hc
      rcases hc with rfl | rfl
      · exact (hcl _ ih).1
      · exact (hcl _ ih).2

/-- after a successful insertion the vertex of the `t`-th new dart `fh[t]` consists of that dart and (two-dart edge)
    its mirror `sh[k-1-t]` only -/
theorem new_vertex_darts (m m' : Map Val) (e : Nat) (fh sh : List Nat) (hwf : WF 3 m) (hwf' : WF 3 m') (hn : m'.n = m.n)
    (he : e < m.n) (hfhlt : ∀ x ∈ fh, x < m.n ∧ x ≠ 0) (hfree : ∀ x ∈ fh, ∀ i, i < 3 → m.β i x = 0)
    (h2 : m.β 2 e ≠ 0 → fh.length = sh.length ∧ m.β 2 e < m.n ∧ ∀ x ∈ sh, x < m.n ∧ x ≠ 0)
    (hres : InsertResult m m' e fh sh) (t : Nat) (ht : t < fh.length) (x : Nat)
    (hr : Reach (C03.g2 m' .vertex) (fh.getD t 0) x) :
    x = fh.getD t 0 ∨ x = 0 ∨ (m.β 2 e ≠ 0 ∧ x = (m.β 2 e :: sh).getD (fh.length - t) 0) := by
  have hnull := hwf'.null
  have c1 := fun j hj => B1Chain.index fh e j hres.side1.1 hj
  -- β0 along the first side
  have i1 : ∀ j, j < fh.length → m'.β 0 ((e :: fh).getD (j + 1) 0) = (e :: fh).getD j 0 := by
    intro j hj
    have hlt : (e :: fh).getD j 0 < m'.n := by
      rw [hn]
      cases j with
      | zero => simpa using he
      | succ j' => exact (hfhlt _ (by simpa using getD_mem_of_lt (l := fh) (j := j') (by omega))).1
    have hne : (e :: fh).getD (j + 1) 0 ≠ 0 := (hfhlt _ (by simpa using getD_mem_of_lt hj)).2
    have := hwf'.inv01 _ hlt (by rw [c1 j hj]; exact hne)
    rw [c1 j hj] at this; exact this
  have ha : (e :: fh).getD (t + 1) 0 = fh.getD t 0 := by simp
  by_cases he2 : m.β 2 e = 0
  · -- one-dart edge: the vertex is the dart alone
    have hb2 : ∀ y, m'.β 2 y = m.β 2 y := fun y => hres.frame2 y (fun hh => absurd he2 hh)
    have hS1free : ∀ j, j ≤ fh.length → m.β 2 ((e :: fh).getD j 0) = 0 := by
      intro j hj
      cases j with
      | zero => simpa using he2
      | succ j' => exact hfree _ (by simpa using getD_mem_of_lt (l := fh) (j := j') (by omega)) 2 (by omega)
    have := reach_vertex_closed (m := m') (fun y => y = fh.getD t 0 ∨ y = 0) (Or.inr rfl) ?_ (Or.inl rfl) hr
    · rcases this with c | c
      · exact Or.inl c
      · exact Or.inr (Or.inl c)
    · intro y hy
      rcases hy with rfl | rfl
      · constructor
        · right; rw [hb2, ← ha, hS1free _ (by omega)]; exact hnull 1 (by omega)
        · right; rw [← ha, i1 t ht, hb2, hS1free _ (by omega)]
      · exact ⟨Or.inr (by rw [hnull 2 (by omega)]; exact hnull 1 (by omega)),
          Or.inr (by rw [hnull 0 (by omega)]; exact hnull 2 (by omega))⟩
  · obtain ⟨hlen, he2lt, hshlt⟩ := h2 he2
    obtain ⟨hch2, _⟩ := hres.side2 he2
    obtain ⟨hpz, hpl1, hpl2⟩ := hres.pairs he2
    have c2 := fun j hj => B1Chain.index sh (m.β 2 e) j hch2 hj
    have i2 : ∀ j, j < sh.length → m'.β 0 ((m.β 2 e :: sh).getD (j + 1) 0) = (m.β 2 e :: sh).getD j 0 := by
      intro j hj
      have hlt : (m.β 2 e :: sh).getD j 0 < m'.n := by
        rw [hn]
        cases j with
        | zero => simpa using he2lt
        | succ j' => exact (hshlt _ (by simpa using getD_mem_of_lt (l := sh) (j := j') (by omega))).1
      have hne : (m.β 2 e :: sh).getD (j + 1) 0 ≠ 0 := (hshlt _ (by simpa using getD_mem_of_lt hj)).2
      have := hwf'.inv01 _ hlt (by rw [c2 j hj]; exact hne)
      rw [c2 j hj] at this; exact this
    -- β2 in index form: S2[j] ↔ S1[k-j]
    have p : ∀ j, j ≤ fh.length → m'.β 2 ((m.β 2 e :: sh).getD j 0) = (e :: fh).getD (fh.length - j) 0 ∧
        m'.β 2 ((e :: fh).getD (fh.length - j) 0) = (m.β 2 e :: sh).getD j 0 := by
      intro j hj
      by_cases hjk : j = fh.length
      · subst hjk
        rw [Nat.sub_self, hlen, ← getLastD_index]
        exact ⟨hpl1, hpl2⟩
      · have hj' : j < fh.length := by omega
        have := zip_index (Q := fun p => m'.β 2 p.1 = p.2 ∧ m'.β 2 p.2 = p.1) hpz j
          (by simp; omega) (by simp; omega)
        have hrev : fh.reverse.getD j 0 = (e :: fh).getD (fh.length - j) 0 := by
          rw [List.getD_eq_getElem?_getD, List.getElem?_eq_getElem (by simp; omega), List.getElem_reverse]
          have : fh.length - j = (fh.length - 1 - j) + 1 := by omega
          rw [this]
          simp [List.getD_eq_getElem?_getD, List.getElem?_eq_getElem (show fh.length - 1 - j < fh.length by omega)]
        rw [hrev] at this
        exact this
    have hb : (fh.length - t) = (fh.length - t - 1) + 1 := by omega
    have := reach_vertex_closed (m := m')
      (fun y => y = fh.getD t 0 ∨ y = 0 ∨ y = (m.β 2 e :: sh).getD (fh.length - t) 0)
      (Or.inr (Or.inl rfl)) ?_ (Or.inl rfl) hr
    · rcases this with c | c | c
      · exact Or.inl c
      · exact Or.inr (Or.inl c)
      · exact Or.inr (Or.inr ⟨he2, c⟩)
    · intro y hy
      rcases hy with rfl | rfl | rfl
      · constructor
        · -- β1(β2 a) = b
          right; right
          have hp := (p (fh.length - t - 1) (by omega)).2
          have e1 : fh.length - (fh.length - t - 1) = t + 1 := by omega
          rw [e1, ha] at hp
          rw [hp, c2 _ (by omega), ← hb]
        · -- β2(β0 a) = b
          right; right
          rw [← ha, i1 t ht]
          have hp := (p (fh.length - t) (by omega)).2
          have e1 : fh.length - (fh.length - t) = t := by omega
          rw [e1] at hp
          exact hp
      · exact ⟨Or.inr (Or.inl (by rw [hnull 2 (by omega)]; exact hnull 1 (by omega))),
          Or.inr (Or.inl (by rw [hnull 0 (by omega)]; exact hnull 2 (by omega)))⟩
      · constructor
        · -- β1(β2 b) = a
          left
          have hp := (p (fh.length - t) (by omega)).1
          have e1 : fh.length - (fh.length - t) = t := by omega
          rw [e1] at hp
          rw [hp, c1 t ht, ha]
        · -- β2(β0 b) = a
          left
          rw [hb, i2 _ (by omega)]
          have hp := (p (fh.length - t - 1) (by omega)).1
          have e1 : fh.length - (fh.length - t - 1) = t + 1 := by omega
          rw [e1, ha] at hp
          exact hp

/-- **C14 (c), the new darts lie in pairwise distinct vertices**: after a successful `insert_vertices_on_edge` the
    vertex identifiers of the first-half darts, computed on the resulting map, are pairwise distinct (the vertex of
    `fh[t]` is `{fh[t]}` on a one-dart edge and `{fh[t], sh[k-1-t]}` on a two-dart edge) — the hypothesis of
    `C14_new_vertex_position` -/
theorem C14_new_darts_distinct_vertices (m m' : Map Val) (e : Nat) (nds : List Nat) (ts : List Rat)
    (hwf : WF 3 m) (he : C01.InUse m e)
    (hlive : ∀ d ∈ nds, m.unused d = false)
    (hfhnd : (nds.take ts.length).Nodup) (hnodup : m.β 2 e ≠ 0 → nds.Nodup)
    (h : run (insertVerticesOnEdge m.n e nds ts) m = (.ok (), m')) :
    ((ts.zip (nds.take ts.length)).map (fun x => (run (vertexId2 m.n x.2) m').1)).Nodup := by
  have hinv := insertVertices_inv m m' e nds ts hwf he hlive hnodup h
  obtain ⟨hwf', hres⟩ := C14_insertVertices_beta_structure m m' e nds ts hwf he hlive hfhnd hnodup h
  obtain ⟨hc, hfree, _, hfh0, hsh0, _, _, _⟩ := insertVertices_ok_elim h
  have hn : m'.n = m.n := hinv.n_eq
  have hlt : ∀ x ∈ nds, x < m.n := fun x hx => ((hwf.toSized.okβ 0 x).1 (hfree x hx).1).2
  have hfhlt : ∀ x ∈ nds.take ts.length, x < m.n ∧ x ≠ 0 :=
    fun x hx => ⟨hlt x (List.mem_of_mem_take hx), hfh0 x hx⟩
  have hfreeF : ∀ x ∈ nds.take ts.length, ∀ i, i < 3 → m.β i x = 0 :=
    fun x hx i hi => free_β (hfree x (List.mem_of_mem_take hx)).2 i hi
  have hlenF : (nds.take ts.length).length = ts.length := by rw [List.length_take]; omega
  have h2 : m.β 2 e ≠ 0 → (nds.take ts.length).length = (nds.drop ts.length).length ∧ m.β 2 e < m.n ∧
      ∀ x ∈ nds.drop ts.length, x < m.n ∧ x ≠ 0 := by
    intro hh
    refine ⟨by rw [List.length_take, List.length_drop]; omega, hwf.range 2 (by omega) e he.2.1, ?_⟩
    exact fun x hx => ⟨hlt x (List.mem_of_mem_drop hx), hsh0 hh x hx⟩
  -- the list of identifiers is the image of the first half
  have hmap : (ts.zip (nds.take ts.length)).map (fun x => (run (vertexId2 m.n x.2) m').1)
      = (nds.take ts.length).map (fun d => (run (vertexId2 m.n d) m').1) := by
    have : (ts.zip (nds.take ts.length)).map (fun x => (run (vertexId2 m.n x.2) m').1)
        = ((ts.zip (nds.take ts.length)).map Prod.snd).map (fun d => (run (vertexId2 m.n d) m').1) := by
      rw [List.map_map]; rfl
    rw [this, List.map_snd_zip (by omega)]
  rw [hmap]
  refine List.Nodup.map_on ?_ hfhnd
  intro a ha b hb hab
  obtain ⟨alt, a0⟩ := hfhlt a ha
  obtain ⟨blt, b0⟩ := hfhlt b hb
  have ra := (C03.C03_vertexId2_min hwf' a0 (by rw [hn]; exact alt)).1
  have rb := (C03.C03_vertexId2_min hwf' b0 (by rw [hn]; exact blt)).1
  rw [hn] at ra rb
  rw [ra, rb] at hab
  simp only [Out.ok.injEq] at hab
  have hreach := (C03.C03_same_id_iff_same_cell hwf' (pol := .vertex) trivial a0 (by rw [hn]; exact alt) b0
    (by rw [hn]; exact blt)).1.1 hab
  -- `a = fh[t]`
  obtain ⟨t, ht, rfl⟩ := List.getElem_of_mem ha
  have hgd : (nds.take ts.length).getD t 0 = (nds.take ts.length)[t] := by
    rw [List.getD_eq_getElem?_getD, List.getElem?_eq_getElem ht]; rfl
  rw [← hgd] at hreach
  rcases new_vertex_darts m m' e _ _ hwf hwf' hn he.2.1 hfhlt hfreeF h2 hres t ht b hreach with c | c | ⟨he2, c⟩
  · rw [c, hgd]
  · exact absurd c b0
  · -- `b` would be a second-half dart (or `β2 e`): impossible for a first-half dart
    exfalso
    obtain ⟨hl, _, _⟩ := h2 he2
    have hnd := hnodup he2
    rw [← List.take_append_drop ts.length nds] at hnd
    have hdisj := (List.nodup_append.1 hnd).2.2
    have hj : (nds.take ts.length).length - t = ((nds.take ts.length).length - t - 1) + 1 := by omega
    rw [hj] at c
    simp only [List.getD_cons_succ] at c
    have hmemS : b ∈ nds.drop ts.length := by
      rw [c]; exact getD_mem_of_lt (by omega)
    exact hdisj b hb b hmemS rfl

/-- **C14 (c), positions, unconditional form**: after a successful `insert_vertices_on_edge` the `i`-th new point
    `v1 + (v2 - v1)·t_i` sits in the slot of the vertex identifier of the `i`-th new dart (computed on the result) and
    no other slot of any storage has changed — `C14_new_vertex_position` with its hypothesis discharged -/
theorem C14_new_vertex_position_full (m m' : Map Val) (e : Nat) (nds : List Nat) (ts : List Rat)
    (hwf : WF 3 m) (he : C01.InUse m e)
    (hlive : ∀ d ∈ nds, m.unused d = false)
    (hfhnd : (nds.take ts.length).Nodup) (hnodup : m.β 2 e ≠ 0 → nds.Nodup)
    (h : run (insertVerticesOnEdge m.n e nds ts) m = (.ok (), m')) :
    ∃ vid1 vid2 v1 v2,
      run (vertexId2 m.n e) m = (.ok vid1, m) ∧
      run (vertexId2 m.n (if m.β 1 e ≠ 0 then m.β 1 e else m.β 2 e)) m = (.ok vid2, m) ∧
      m.att 0 vid1 = some v1 ∧ m.att 0 vid2 = some v2 ∧
      (∀ x ∈ ts.zip (nds.take ts.length), ∀ vid, (run (vertexId2 m.n x.2) m').1 = .ok vid →
        m'.att 0 vid = some (placeVal v1 v2 (some x.1))) ∧
      (∀ s d, (s ≠ 0 ∨ ∀ x ∈ ts.zip (nds.take ts.length), (run (vertexId2 m.n x.2) m').1 ≠ .ok d) →
        m'.att s d = m.att s d) :=
  C14_new_vertex_position h (C14_new_darts_distinct_vertices m m' e nds ts hwf he hlive hfhnd hnodup h)

/-! ## non-vacuity -/

/-- two-dart edge 1 ↔ 4 of `exMap` (dart 1 on the triangle 1-2-3), two vertices, spare darts 5, 6 | 7, 8 -/
def exMap2 : Map Val :=
  { (Map.empty 3 6 9 : Map Val) with
    b := #[#[0, 3, 1, 2, 0, 0, 0, 0, 0], #[0, 2, 3, 1, 0, 0, 0, 0, 0], #[0, 4, 0, 0, 1, 0, 0, 0, 0]]
    a := #[#[none, some (.pt 0 0 0), some (.pt 4 0 0), some (.pt 0 4 0), none, none, none, none, none],
           Array.replicate 10 none, Array.replicate 10 none, Array.replicate 10 none,
           Array.replicate 10 none, Array.replicate 10 none] }

example : (run (insertVerticesOnEdge exMap2.n 1 [5, 6, 7, 8] [1/4, 1/2]) exMap2).1 = .ok () := by decide +kernel

example : InsertResult exMap2 (run (insertVerticesOnEdge exMap2.n 1 [5, 6, 7, 8] [1/4, 1/2]) exMap2).2 1 [5, 6] [7, 8] :=
  (C14_insertVertices_beta_structure exMap2 _ 1 [5, 6, 7, 8] [1/4, 1/2] (by decide +kernel) (by decide +kernel)
    (by decide +kernel) (by decide) (by decide +kernel) (ok_of_fst (by decide +kernel))).2

/-- what it says on this instance: 1 → 5 → 6 → 2, 4 → 7 → 8 (4 was 1-free), β2: 4 ↔ 6, 7 ↔ 5, 8 ↔ 1 -/
def exRes2 : Map Val := (run (insertVerticesOnEdge exMap2.n 1 [5, 6, 7, 8] [1/4, 1/2]) exMap2).2

example : [exRes2.β 1 1, exRes2.β 1 5, exRes2.β 1 6, exRes2.β 1 4, exRes2.β 1 7, exRes2.β 1 8,
    exRes2.β 2 4, exRes2.β 2 7, exRes2.β 2 8, exRes2.β 2 1] = [5, 6, 2, 7, 8, 0, 6, 5, 1, 8] := by decide +kernel

example : ((([1/4, 1/2] : List Rat).zip [5, 6]).map (fun x => (run (vertexId2 exMap2.n x.2) exRes2).1)).Nodup :=
  C14_new_darts_distinct_vertices exMap2 _ 1 [5, 6, 7, 8] [1/4, 1/2] (by decide +kernel) (by decide +kernel)
    (by decide +kernel) (by decide) (by decide +kernel) (ok_of_fst (by decide +kernel))

/-- the vertices of the new darts 5, 6 are {5, 8} and {6, 7}; their points sit at the ids 5 and 6 -/
example : [(run (vertexId2 exMap2.n 5) exRes2).1, (run (vertexId2 exMap2.n 8) exRes2).1,
    (run (vertexId2 exMap2.n 6) exRes2).1, (run (vertexId2 exMap2.n 7) exRes2).1] = [.ok 5, .ok 5, .ok 6, .ok 6] := by
  decide +kernel
example : [exRes2.att 0 5, exRes2.att 0 6] = [some (.pt 1 0 0), some (.pt 2 0 0)] := by decide +kernel

/-- `insert_vertex_on_edge` on the same two-dart edge: 1 → 5 → 2, 4 → 6, β2: 4 ↔ 5, 6 ↔ 1 -/
example : InsertResult exMap2 (run (insertVertexOnEdge exMap2.n 1 5 6 none) exMap2).2 1 [5] [6] :=
  (C14_insertVertex_beta_structure exMap2 _ 1 5 6 none (by decide +kernel) (by decide +kernel) (by decide +kernel)
    (by decide +kernel) (by decide +kernel) (ok_of_fst (by decide +kernel))).2

end HC.C14
