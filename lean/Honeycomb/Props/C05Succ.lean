/-
  C05 — the "unsew succeeds on a fully embedded mesh" clause, and the remaining cell-level arms.

  Setting of the success theorems: configurations WITHOUT user storages bound to vertices, edges or
  faces and whose built-in vertex `split` is total on defined values (`PlainCfg`: e.g.
  `stdCfg 4 0`, the `Vertex3` law), no fault injection (`fc = 0`), the vertex storage present.
  `Embedded m`: the vertex identifier (= smallest dart of the vertex cell, Props/C05Cells.lean) of
  every in-use dart has coordinates.

  * `C05_oneUnsew3_succeeds`, `C05_twoUnsew3_succeeds`: on a well-formed, mirrored, embedded 3-map,
    a 1-unsew of a 1-sewn dart that is not 3-linked to its own successor (C02b: `NoAdj`), resp. a
    2-unsew of a 2-sewn dart whose two darts have successors (closed faces) and whose end points
    are four different vertices afterwards (the property's proviso) RETURNS `Ok` — the only
    refusals of the model are a link-core refusal (excluded by sewn-ness and the mirror condition)
    and `split` of an undefined value (excluded by `Embedded` at the identifier the code reads,
    which is the cell minimum: this is where D13 used to bite) — and the result is again
    well-formed, mirrored and `Embedded`; the new vertex values are the halves of `split` of the old
    one, at the cell minima (`SplitIn`, through `C05_oneUnsew3_cells` / `C05_twoUnsew3_cells`).
  * `threeUnlink3_run` / `C05_threeUnsew3_succeeds`: on a well-formed, mirrored, embedded 3-map
    whose faces are 3-linked as a whole and not to themselves (`Sided3`, `hnsg`; C02b), a 3-unsew of
    a 3-sewn dart of a closed face: `three_unlink` RETURNS `Ok` (every check of its walk passes, the
    fuel `n + 1` suffices: the face has fewer than `n` darts), the two face walks of the code are
    the two cycles, and under the property's proviso (no vertex of the unlinked map takes part in
    two of the splits `(β1 l_t, r_t)`) every step of the splitting loop finds a value at the
    identifier it splits from — the call returns `Ok`, the result is well-formed, mirrored and
    `Embedded` (`unsewLoop_run`: the invariant `EmbP` along the chain of partitions
    `Glue (cells of the unlinked map) (pairs still to be split)`).
    For sews the property claims no success (geometry / orientation may refuse): nothing here.
  * `far_to_disj` / `C05_threeSew3_vertices_far`: the cell-level proviso of a 3-sew implies the
    identifier-level one, so the data theorem `C05_threeSew3_vertices` holds under the cell-level
    hypothesis alone.
  * `C05_twoSew3_cells_free/_left/_right`, `C05_twoUnsew3_cells_free/_left/_right`: the open-face
    arms of the 2-sew / 2-unsew at cell level (outside the property's scope: closed faces).
  * non-vacuity: two 3-sewn tetrahedra (`exTets`) — 1-, 2- and 3-unsew succeed, the 3-sew of the
    unsewn pair satisfies the proviso — and `C02.exMap` for the open arms.
-/
import Honeycomb.Props.C05Cells2
import Honeycomb.Props.C02b
import Honeycomb.Props.C03b

set_option linter.unusedSimpArgs false
set_option linter.unusedVariables false

namespace HC.C05
open HC HC.CellCalc HC.Cell3
open HC.C04 (vStores eStores)
variable {X : Type}

/-! ## running programs forward -/

theorem run_bind_of_ok {α β : Type} {p : P X α} {f : α → P X β} {m m1 : Map X} {a : α}
    (h : run p m = (.ok a, m1)) : run (p.bind f) m = run (f a) m1 := by
  rw [run_bind, h]

theorem oneUnlinkCore_run {l : Nat} {m : Map X} (h1 : m.okβ 1 l = true) (hne : m.β 1 l ≠ 0)
    (h0 : m.okβ 0 (m.β 1 l) = true) : run (oneUnlinkCore (X := X) l) m = (.ok (), m.unlink1 l) := by
  unfold oneUnlinkCore
  simp only [Prog.bind_eq, bind, run_rB, h1, if_true, run_wB, hne, if_false, run_wB', Map.okβ_setβ, h0]
  rfl

theorem iUnlinkCore_run {i l : Nat} {m : Map X} (h1 : m.okβ i l = true) (hne : m.β i l ≠ 0)
    (h0 : m.okβ i (m.β i l) = true) : run (iUnlinkCore (X := X) i l) m = (.ok (), m.unlinkI i l) := by
  unfold iUnlinkCore
  simp only [Prog.bind_eq, bind, run_rB, h1, if_true, run_wB, hne, if_false, run_wB', Map.okβ_setβ, h0]
  rfl

/-- the 3-D `one_unlink` succeeds on a 1-linked dart of a mirrored map, unless the dart is 3-linked
    to its own successor -/
theorem oneUnlink3_run {l : Nat} {m : Map X} (hw : WF 4 m) (hM : Mirror m) (hln : l < m.n)
    (hne : m.β 1 l ≠ 0) (hadj : m.β 3 l ≠ m.β 1 l) :
    ∃ m1, run (oneUnlink3 (X := X) l) m = (.ok (), m1) := by
  have hrn : m.β 1 l < m.n := hw.range 1 (by omega) l hln
  have ok : ∀ i x, i < 4 → x < m.n → m.okβ i x = true := fun i x hi hx => hw.okβ4 hi hx
  have hw1 : WF 4 (m.unlink1 l) := hw.unlink1 (by omega) hln hne
  have ok1 : ∀ i x, i < 4 → x < m.n → (m.unlink1 l).okβ i x = true := fun i x hi hx => hw1.okβ4 hi hx
  have ho1 : Only01 m (m.unlink1 l) := Only01.unlink1 hw hln
  have e3 : ∀ x, (m.unlink1 l).β 3 x = m.β 3 x := fun x => ho1.β 3 x (by omega)
  have eβ := hw.toSized.β_unlink1 (by omega) hln hrn
  have e1 : ∀ x, (m.unlink1 l).β 1 x = if l = x then 0 else m.β 1 x := by intro x; rw [eβ]; simp
  unfold oneUnlink3
  simp only [Prog.bind_eq, bind, run_rB, ok 1 l (by omega) hln, if_true]
  rw [run_bind_of_ok (oneUnlinkCore_run (ok 1 l (by omega) hln) hne (ok 0 _ (by omega) hrn))]
  simp only [run_rB, ok1 3 l (by omega) hln, ok1 3 _ (by omega) hrn, if_true, e3]
  by_cases hc : m.β 3 l ≠ 0 ∧ m.β 3 (m.β 1 l) ≠ 0
  · rw [if_pos hc]
    have hbn : m.β 3 (m.β 1 l) < m.n := hw.range 3 (by omega) _ hrn
    simp only [run_rB, ok1 1 _ (by omega) hbn, if_true]
    -- the mirror condition: β1 (β3 r) = β3 l
    have hmir : m.β 1 (m.β 3 (m.β 1 l)) = m.β 3 l := hM l hln hne hc.1 hc.2
    have hbl : ¬ l = m.β 3 (m.β 1 l) := by
      intro hh
      -- β3 r = l ⇒ β3 l = r
      have := invol_back hw (i := 3) (by omega) (by omega) hrn hc.2
      rw [← hh] at this
      exact hadj this
    have hx : (m.unlink1 l).β 1 (m.β 3 (m.β 1 l)) = m.β 3 l := by rw [e1, if_neg hbl, hmir]
    rw [hx]
    simp only [ne_eq, not_true_eq_false, if_false]
    exact ⟨_, oneUnlinkCore_run (ok1 1 _ (by omega) hbn) (by rw [hx]; exact hc.1)
      (by rw [hx]; exact ok1 0 _ (by omega) (hw.range 3 (by omega) l hln))⟩
  · rw [if_neg hc]
    exact ⟨_, rfl⟩

/-! ## identifiers: total, and cell minima -/

theorem vid_run {m : Map X} (h : WF 4 m) {n d : Nat} (hn : n = m.n) (hd0 : d ≠ 0) (hd : d < m.n) :
    ∃ v, run (vertexId3 (X := X) n d) m = (.ok v, m) ∧ IsVid3 m d v ∧ v ≠ 0 ∧ v < m.n := by
  subst hn
  have hr := (C03.C03_vertexId3_min h hd0 hd).1
  have hs := (vertexId3_spec h hd0 hd hr).2
  exact ⟨_, hr, hs, (sameCell_ne_zero h hd0 hd hs.1).1, (sameCell_ne_zero h hd0 hd hs.1).2⟩

theorem eid_run {m : Map X} (h : WF 4 m) {n d : Nat} (hn : n = m.n) (hd0 : d ≠ 0) (hd : d < m.n) :
    ∃ v, run (edgeId3 (X := X) n d) m = (.ok v, m) ∧ IsEid3 m d v := by
  subst hn
  have hr := (C03.C03_edgeId3_min h hd0 hd).1
  exact ⟨_, hr, (edgeId3_spec h hd0 hd hr).2⟩

/-! ## embedded meshes -/

/-- no user storage is bound to vertices, edges or faces; the built-in vertex `split` never fails on
    a defined value (`Vertex3`: the value is copied) -/
structure PlainCfg (cfg : Cfg X) : Prop where
  noUser : ∀ k, k < 3 → storagesOf cfg k = []
  split : ∀ x, ∃ a b, (cfg.law 0).split x = .ok (a, b)

/-- the vertex identifier of every in-use dart has coordinates -/
def Embedded (m : Map X) : Prop :=
  ∀ d v, d ≠ 0 → d < m.n → m.unused d = false → IsVid3 m d v → (m.att 0 v).isSome = true

/-- `Embedded` from its computable form (C03b: `cellId3` is the identifier) -/
theorem embedded_of_cellId3 {m : Map X} (h : WF 4 m)
    (hall : ∀ d, d < m.n → d ≠ 0 → m.unused d = false → (m.att 0 (C03.cellId3 m .vertex d)).isSome = true) :
    Embedded m := by
  intro d v hd0 hd hu hv
  obtain ⟨w, hr, hs, hw0, _⟩ := vid_run h rfl hd0 hd
  have : w = C03.cellId3 m .vertex d := by
    have := (C03.C03_vertexId3_min h hd0 hd).1
    rw [this] at hr; simp at hr; exact hr.symm
  rw [hv.unique hs (hv.ne_zero h hd0 hd) hw0, this]
  exact hall d hd hd0 hu

/-- the standing hypotheses of the success theorems -/
structure Ready (m : Map X) : Prop where
  wf : WF 4 m
  mir : Mirror m
  fc : m.fc = 0
  st0 : 0 < m.a.size
  emb : Embedded m

theorem okA0 {m : Map X} (h : WF 4 m) (hs : 0 < m.a.size) {v : Nat} (hv : v < m.n) : m.okA 0 v = true := by
  unfold Map.okA
  have := h.asz 0 hs
  simp only [hs, decide_true, Bool.true_and, decide_eq_true_eq]
  omega


theorem vStores_plain {cfg : Cfg X} (hc : PlainCfg cfg) : vStores cfg = [0] := by
  unfold vStores; rw [hc.noUser 0 (by decide)]

theorem splitAttrs_plain {cfg : Cfg X} (hc : PlainCfg cfg) {k : Nat} (hk : k < 3) (a b c : Nat) (m : Map X) :
    run (splitAttrs cfg k a b c) m = (.ok (), m) := by
  unfold splitAttrs; rw [hc.noUser k hk]; rfl

theorem united_far {g : Nat → List Nat} {n p q d : Nat} (h1 : ¬ SameCell g n d p) (h2 : ¬ SameCell g n d q)
    (e : Nat) : United g n p q d e ↔ SameCell g n d e := by
  constructor
  · rintro (h | ⟨h, _⟩ | ⟨h, _⟩)
    · exact h
    · exact absurd h h1
    · exact absurd h h2
  · exact Or.inl

theorem united_same {g : Nat → List Nat} {n p q : Nat} (hpq : SameCell g n p q) (d e : Nat) :
    United g n p q d e ↔ SameCell g n d e := by
  constructor
  · rintro (h | ⟨h1, h2⟩ | ⟨h1, h2⟩)
    · exact h
    · exact .trans h1 (.trans hpq h2)
    · exact .trans h1 (.trans (.symm hpq) h2)
  · exact Or.inl

/-- identifiers are the same when the cells are -/
theorem isVid3_of_cells {m m' : Map X} (hn : m'.n = m.n) {d : Nat}
    (hc : ∀ e, SameCell (g3v m') m.n d e ↔ SameCell (g3v m) m.n d e) {v : Nat} (hv : IsVid3 m' d v) :
    IsVid3 m d v := by
  unfold IsVid3 at hv ⊢
  rw [hn] at hv
  exact ⟨(hc v).1 hv.1, fun e he he0 => hv.2 e ((hc e).2 he) he0⟩

/-- the 1-split of storage 0 on a defined value, forward -/
theorem splitS0_run {cfg : Cfg X} (hc : PlainCfg cfg) {m : Map X} (hw : WF 4 m) (hfc : m.fc = 0)
    (hs : 0 < m.a.size) {lo ro inp : Nat} (hlo : lo < m.n) (hro : ro < m.n) (hin : inp < m.n) (hne : lo ≠ ro)
    {x : X} (hx : m.att 0 inp = some x) :
    ∃ a b, (cfg.law 0).split x = .ok (a, b) ∧ run (splitS cfg 0 lo ro inp) m = (.ok (), m.splitAt 0 lo ro inp a b) := by
  obtain ⟨a, b, hab⟩ := hc.split x
  refine ⟨a, b, hab, ?_⟩
  rw [splitS_run cfg 0 lo ro inp m hfc hne (okA0 hw hs hin) (okA0 hw hs hlo) (okA0 hw hs hro), hx]
  show (match (cfg.law 0).split x with
    | .ok (a, b) => (Out.ok (), m.splitAt 0 lo ro inp a b)
    | .error e => (Out.err e, m)) = _
  rw [hab]

/-- **C05, 1-unsew succeeds on an embedded mesh**: on a well-formed, mirrored, embedded 3-map the
    1-unsew of a 1-sewn in-use dart that is not 3-linked to its own successor returns `Ok`, and the
    result is again well-formed, mirrored and embedded (the split halves sit at the identifiers —
    cell minima — of the two new vertices: `C05_oneUnsew3_cells` applies to this run) -/
theorem C05_oneUnsew3_succeeds (cfg : Cfg X) (hc : PlainCfg cfg) (m : Map X) (l : Nat) (R : Ready m)
    (hl : C02.InUse m l) (hsewn : m.β 1 l ≠ 0) (hadj : m.β 3 l ≠ m.β 1 l) :
    ∃ m', run (oneUnsew3 cfg m.n l) m = (.ok (), m') ∧ Ready m' := by
  obtain ⟨hl0, hln, hlu⟩ := hl
  have hw := R.wf
  have ir := hw.image_inUse (i := 1) (by omega) hln hsewn
  have ok : ∀ i x, i < 4 → x < m.n → m.okβ i x = true := fun i x hi hx => hw.okβ4 hi hx
  obtain ⟨vold, hvold, svold, vold0, voldn⟩ := vid_run hw rfl hsewn ir.1
  obtain ⟨m1, hunl⟩ := oneUnlink3_run hw R.mir hln hsewn hadj
  obtain ⟨hw1, ho, hM1⟩ := oneUnlink3_ok hw hln hunl
  have hn1 : m1.n = m.n := ho.n
  have ok1 : ∀ i x, i < 4 → x < m.n → m1.okβ i x = true := fun i x hi hx => hw1.okβ4 hi (by rw [hn1]; exact hx)
  have e2 : m1.β 2 l = m.β 2 l := ho.β 2 l (by omega)
  have e3 : m1.β 3 l = m.β 3 l := ho.β 3 l (by omega)
  -- the run, step by step
  have start : ∀ m', run (do
      let b2l ← rB 2 l
      let b3l ← rB 3 l
      if b2l = 0 ∧ b3l = 0 then pure () else
      let vl ← vertexId3 m.n (if b2l ≠ 0 then b2l else b3l)
      let vr ← vertexId3 m.n (m.β 1 l)
      if vl ≠ vr then do
        splitS cfg 0 vl vr vold
        splitAttrs cfg 0 vl vr vold
      else pure () : P X Unit) m1 = (.ok (), m') → run (oneUnsew3 cfg m.n l) m = (.ok (), m') := by
    intro m' h
    unfold oneUnsew3
    simp only [Prog.bind_eq, bind, run_rB, ok 1 l (by omega) hln, if_true]
    rw [run_bind_of_ok hvold, run_bind_of_ok hunl]
    exact h
  have fc1 : m1.fc = 0 := by rw [ho.fc]; exact R.fc
  have st1 : 0 < m1.a.size := by rw [ho.a]; exact R.st0
  -- the result is embedded whenever the vertex partition and the values did not change
  have emb_same : (∀ d e, SameCell (g3v m) m.n d e ↔ SameCell (g3v m1) m.n d e) → Embedded m1 := by
    intro hcells d v hd0 hd hu hv
    have hv' := isVid3_of_cells hn1 (fun e => (hcells d e).symm) hv
    have := R.emb d v hd0 (by rw [← hn1]; exact hd) (by rw [← ho.unused]; exact hu) hv'
    unfold Map.att at this ⊢; rw [ho.a]; exact this
  by_cases c : m.β 2 l = 0 ∧ m.β 3 l = 0
  · -- `l` is 2- and 3-free: nothing to split
    have hrun : run (oneUnsew3 cfg m.n l) m = (.ok (), m1) := by
      apply start
      simp only [Prog.bind_eq, bind, run_rB, ok1 2 l (by omega) hln, ok1 3 l (by omega) hln, if_true, e2, e3,
        if_pos c]
      rfl
    refine ⟨m1, hrun, hw1, hM1 R.mir, fc1, st1, ?_⟩
    obtain ⟨m1', _, hunl', _, _, _, _, _, hcase⟩ := C05_oneUnsew3_cells cfg m.n m m1 l () hw ⟨hl0, hln, hlu⟩ R.fc hrun
    have : m1' = m1 := by rw [hunl] at hunl'; simp at hunl'; exact hunl'.symm
    rw [this] at hcase
    have hh : headOf m l = 0 := by unfold headOf; rw [c.2]; simp [c.1]
    rcases hcase with ⟨_, _, hcells⟩ | ⟨hne, _⟩
    · exact emb_same hcells
    · exact absurd hh hne
  · -- the two new vertex identifiers
    have hd0 : (if m.β 2 l ≠ 0 then m.β 2 l else m.β 3 l) ≠ 0 := by
      split
      · assumption
      · intro h3; exact c ⟨by omega, h3⟩
    have hdn : (if m.β 2 l ≠ 0 then m.β 2 l else m.β 3 l) < m1.n := by
      rw [hn1]; split
      · exact hw.range 2 (by omega) l hln
      · exact hw.range 3 (by omega) l hln
    obtain ⟨vl, hvl, svl, vl0, vln⟩ := vid_run hw1 hn1.symm hd0 hdn
    obtain ⟨vr, hvr, svr, vr0, vrn⟩ := vid_run hw1 hn1.symm hsewn (by rw [hn1]; exact ir.1)
    rw [hn1] at vln vrn
    have pre : ∀ m', run (if vl ≠ vr then do
          splitS cfg 0 vl vr vold
          splitAttrs cfg 0 vl vr vold
        else pure () : P X Unit) m1 = (.ok (), m') → run (oneUnsew3 cfg m.n l) m = (.ok (), m') := by
      intro m' h
      apply start
      simp only [Prog.bind_eq, bind, run_rB, ok1 2 l (by omega) hln, ok1 3 l (by omega) hln, if_true, e2, e3,
        if_neg c]
      rw [run_bind_of_ok hvl, run_bind_of_ok hvr]
      exact h
    by_cases hv : vl ≠ vr
    · -- a genuine split: the old value is defined at the old identifier (Embedded)
      have hval : (m.att 0 vold).isSome = true := R.emb _ vold hsewn ir.1 ir.2 svold
      obtain ⟨x, hx⟩ := Option.isSome_iff_exists.1 hval
      have hx1 : m1.att 0 vold = some x := by unfold Map.att at hx ⊢; rw [ho.a]; exact hx
      obtain ⟨a, b, hab, hsplit⟩ := splitS0_run hc hw1 fc1 st1 (lo := vl) (ro := vr) (inp := vold)
        (by rw [hn1]; exact vln) (by rw [hn1]; exact vrn) (by rw [hn1]; exact voldn) hv hx1
      have hrun : run (oneUnsew3 cfg m.n l) m = (.ok (), m1.splitAt 0 vl vr vold a b) := by
        apply pre
        rw [if_pos hv]
        show run ((splitS cfg 0 vl vr vold).bind fun _ => splitAttrs cfg 0 vl vr vold) m1 = _
        rw [run_bind_of_ok hsplit, splitAttrs_plain hc (by decide)]
      refine ⟨_, hrun, ?_⟩
      obtain ⟨m1', vold', hunl', _, htopo, _, _, svold', hcase⟩ :=
        C05_oneUnsew3_cells cfg m.n m _ l () hw ⟨hl0, hln, hlu⟩ R.fc hrun
      have : m1' = m1 := by rw [hunl] at hunl'; simp at hunl'; exact hunl'.symm
      subst this
      have st := splitAt_sameTopo m1' 0 vl vr vold a b
      have hwS : WF 4 (m1'.splitAt 0 vl vr vold a b) := hw1.sameTopo st
      refine ⟨hwS, st.mirror (hM1 R.mir), by rw [splitAt_fc]; exact fc1, by rw [st.asz]; exact st1, ?_⟩
      rcases hcase with ⟨hh, _, _⟩ | ⟨hh, vl', vr', svl', svr', hcells, hold, _⟩
      · -- headOf = 0 contradicts the branch
        exfalso; apply c
        unfold headOf at hh
        by_cases h3 : m.β 3 l ≠ 0
        · rw [if_pos h3] at hh; exact absurd hh h3
        · rw [if_neg h3] at hh; exact ⟨hh, by omega⟩
      · -- the identifiers of the cells theorem are the ones the code computed
        have hhn : headOf m l < m1'.n := by rw [hn1]; exact headOf_lt hw hln
        -- the dart the code starts from is in the cell of the head
        have svlh : IsVid3 m1' (headOf m l) vl := by
          unfold headOf
          by_cases h3 : m.β 3 l ≠ 0
          · rw [if_pos h3]
            by_cases h2 : m.β 2 l ≠ 0
            · rw [if_pos h2] at svl
              have hs := head_same hw1 (l := l) (by rw [hn1]; exact hln) (by rw [e2]; exact h2) (by rw [e3]; exact h3)
              rw [e2, e3] at hs
              exact svl.congr hs
            · rw [if_neg h2] at svl; exact svl
          · rw [if_neg h3]
            have h2 : m.β 2 l ≠ 0 := fun h2 => c ⟨h2, by omega⟩
            rw [if_pos h2] at svl; exact svl
        have evl : vl' = vl := svl'.unique svlh (svl'.ne_zero hw1 hh hhn) vl0
        have evr : vr' = vr := svr'.unique svr (svr'.ne_zero hw1 hsewn (by rw [hn1]; exact ir.1)) vr0
        have evo : vold' = vold := svold'.unique svold (svold'.ne_zero hw hsewn ir.1) vold0
        subst evl evr evo
        have hold' : vold' = vl' ∨ vold' = vr' := by omega
        -- values after the split
        have hatt := fun t e => att_splitAt m1' 0 vl' vr' vold' a b t e
          (okA0 hw1 st1 (by rw [hn1]; exact voldn)) (okA0 hw1 st1 (by rw [hn1]; exact vln))
          (okA0 hw1 st1 (by rw [hn1]; exact vrn))
        intro d v hd0' hd hu hvv
        have hvv1 : IsVid3 m1' d v := (isVid3_sameTopo st d v).1 hvv
        have hd1 : d < m1'.n := by rw [← st.n]; exact hd
        by_cases e1 : v = vr'
        · rw [hatt, e1]; simp
        · by_cases e2' : v = vl'
          · rw [hatt, e2']; simp [hv]
          · -- another vertex: its cell and its value are those of `m`
            have far1 : ¬ SameCell (g3v m1') m.n d (headOf m l) := by
              intro hs
              have := (svl'.congr (show SameCell (g3v m1') m1'.n (headOf m l) d by rw [hn1]; exact .symm hs))
              exact e2' (hvv1.unique this (hvv1.ne_zero hw1 hd0' hd1) vl0)
            have far2 : ¬ SameCell (g3v m1') m.n d (m.β 1 l) := by
              intro hs
              have := (svr'.congr (show SameCell (g3v m1') m1'.n (m.β 1 l) d by rw [hn1]; exact .symm hs))
              exact e1 (hvv1.unique this (hvv1.ne_zero hw1 hd0' hd1) vr0)
            have hvm : IsVid3 m d v := by
              refine isVid3_of_cells hn1 (fun e => ?_) hvv1
              rw [hcells, united_far far1 far2]
            have := R.emb d v hd0' (by rw [← hn1]; exact hd1) (by
              have : m.unused d = m1'.unused d := (ho.unused d).symm
              rw [this, ← st.unused]; exact hu) hvm
            have e3' : v ≠ vold' := by rcases hold' with hh' | hh' <;> rw [hh'] <;> assumption
            rw [hatt]
            simp only [e1, e2', e3', and_false, if_false]
            unfold Map.att at this ⊢; rw [ho.a]; exact this
    · -- the vertex does not split: nothing is touched
      have hv' : vl = vr := by omega
      have hrun : run (oneUnsew3 cfg m.n l) m = (.ok (), m1) := by
        apply pre; rw [if_neg hv]; rfl
      refine ⟨m1, hrun, hw1, hM1 R.mir, fc1, st1, ?_⟩
      obtain ⟨m1', _, hunl', _, _, _, _, _, hcase⟩ := C05_oneUnsew3_cells cfg m.n m m1 l () hw ⟨hl0, hln, hlu⟩ R.fc hrun
      have : m1' = m1 := by rw [hunl] at hunl'; simp at hunl'; exact hunl'.symm
      rw [this] at hcase
      rcases hcase with ⟨_, _, hcells⟩ | ⟨hh, vl', vr', svl', svr', hcells, _, _⟩
      · exact emb_same hcells
      · apply emb_same
        intro d e
        rw [hcells]
        -- both new identifiers coincide: the head and `r` are in one cell of `m1`
        have hhn : headOf m l < m1.n := by rw [hn1]; exact headOf_lt hw hln
        have svlh : IsVid3 m1 (headOf m l) vl := by
          unfold headOf
          by_cases h3 : m.β 3 l ≠ 0
          · rw [if_pos h3]
            by_cases h2 : m.β 2 l ≠ 0
            · rw [if_pos h2] at svl
              have hs := head_same hw1 (l := l) (by rw [hn1]; exact hln) (by rw [e2]; exact h2) (by rw [e3]; exact h3)
              rw [e2, e3] at hs
              exact svl.congr hs
            · rw [if_neg h2] at svl; exact svl
          · rw [if_neg h3]
            have h2 : m.β 2 l ≠ 0 := fun h2 => c ⟨h2, by omega⟩
            rw [if_pos h2] at svl; exact svl
        have hsame : SameCell (g3v m1) m.n (headOf m l) (m.β 1 l) := by
          have a := svlh.1
          have b := svr.1
          rw [hn1] at a b
          rw [hv'] at a
          exact .trans a (.symm b)
        exact united_same hsame d e


/-! ## one split of a chain, abstractly -/

/-- every class of an in-use dart has a value at its smallest dart -/
def EmbP (P : Nat → Nat → Prop) (inuse : Nat → Prop) (att : Nat → Option X) : Prop :=
  ∀ d v, inuse d → IsMinOf P d v → (att v).isSome = true

/-- **one split keeps the mesh embedded**: the class of `p` under `P` is the union of the classes of
    `p` and `q` under the finer `P'`, every other class is unchanged; the value at the old smallest
    dart `min a b` is split into the two new smallest darts `a`, `b` -/
theorem embP_split {P P' : Nat → Nat → Prop} (hP' : Equivalence P') {inuse : Nat → Prop}
    {att att' : Nat → Option X} {p q a b : Nat}
    (hunion : ∀ e, P p e ↔ (P' p e ∨ P' q e))
    (hother : ∀ d, ¬ P' d p → ¬ P' d q → ∀ e, P d e ↔ P' d e)
    (ha : IsMinOf P' p a) (hb : IsMinOf P' q b) (ha0 : a ≠ 0) (hb0 : b ≠ 0)
    (hnz : ∀ d v, inuse d → IsMinOf P' d v → v ≠ 0)
    (hatta : (att' a).isSome = true) (hattb : (att' b).isSome = true)
    (hframe : ∀ e, e ≠ a → e ≠ b → att' e = att e)
    (hE : EmbP P inuse att) : EmbP P' inuse att' := by
  intro d v hu hv
  have hv0 := hnz d v hu hv
  by_cases c1 : P' d p
  · have := (ha.congr hP' (hP'.symm c1))
    rw [hv.unique this hv0 ha0]; exact hatta
  · by_cases c2 : P' d q
    · have := (hb.congr hP' (hP'.symm c2))
      rw [hv.unique this hv0 hb0]; exact hattb
    · have hvP : IsMinOf P d v :=
        ⟨(hother d c1 c2 v).2 hv.1, fun e he he0 => hv.2 e ((hother d c1 c2 e).1 he) he0⟩
      have e1 : v ≠ a := by
        intro hh; apply c1
        exact hP'.trans hv.1 (by rw [hh]; exact hP'.symm ha.1)
      have e2 : v ≠ b := by
        intro hh; apply c2
        exact hP'.trans hv.1 (by rw [hh]; exact hP'.symm hb.1)
      rw [hframe v e1 e2]
      exact hE d v hu hvP

/-- the old value, at the old smallest dart -/
theorem embP_old {P P' : Nat → Nat → Prop} {inuse : Nat → Prop} {att : Nat → Option X} {p q a b : Nat}
    (hunion : ∀ e, P p e ↔ (P' p e ∨ P' q e)) (ha : IsMinOf P' p a) (hb : IsMinOf P' q b) (hp : inuse p)
    (hE : EmbP P inuse att) : (att (min a b)).isSome = true :=
  hE p _ hp (isMinOf_union hunion ha hb)

/-- peeling the first pair off a separated list -/
theorem glue_cons_sep {R : Nat → Nat → Prop} (hR : Equivalence R) {p q : Nat} {rest : List (Nat × Nat)}
    (hsep : ((p, q) :: rest).Pairwise (Far R)) :
    (∀ e, Glue R ((p, q) :: rest) p e ↔ (Glue R rest p e ∨ Glue R rest q e)) ∧
    (∀ d, ¬ Glue R rest d p → ¬ Glue R rest d q → ∀ e, Glue R ((p, q) :: rest) d e ↔ Glue R rest d e) ∧
    (∀ e, Glue R rest p e ↔ R p e) ∧ (∀ e, Glue R rest q e ↔ R q e) := by
  have hc := List.pairwise_cons.1 hsep
  have farp : ∀ pq, pq ∈ rest → ¬ R p pq.1 ∧ ¬ R p pq.2 := fun pq hm => ⟨(hc.1 pq hm).1, (hc.1 pq hm).2.1⟩
  have farq : ∀ pq, pq ∈ rest → ¬ R q pq.1 ∧ ¬ R q pq.2 := fun pq hm => ⟨(hc.1 pq hm).2.2.1, (hc.1 pq hm).2.2.2⟩
  have gp := glue_sep_other hR hc.2 farp
  have gq := glue_sep_other hR hc.2 farq
  refine ⟨?_, ?_, gp, gq⟩
  · intro e
    rw [gp, gq]
    exact glue_sep_pair hR hsep (pq := (p, q)) (by simp) e
  · intro d h1 h2 e
    constructor
    · intro h
      rcases (glue_sep hR hsep d e).1 h with k | ⟨pq, hm, k⟩
      · exact .base k
      · rcases List.mem_cons.1 hm with rfl | hm'
        · exfalso
          rcases k with ⟨k1, _⟩ | ⟨k1, _⟩
          · exact h1 (.base k1)
          · exact h2 (.base k1)
        · exact (glue_sep hR hc.2 d e).2 (Or.inr ⟨pq, hm', k⟩)
    · exact Glue.mono fun x hx => List.mem_cons_of_mem _ hx

theorem glue_equiv (R : Nat → Nat → Prop) (hR : Equivalence R) (ps : List (Nat × Nat)) : Equivalence (Glue R ps) :=
  ⟨fun x => .base (hR.refl x), .symm, .trans⟩


/-! ## the attribute step of a vertex split -/

/-- `vertices.split(a, b, min a b)` on a defined value: succeeds, both new identifiers hold a value,
    nothing else changes (`a = b`: the value only moves, onto itself) -/
theorem split_attr_step {cfg : Cfg X} (hc : PlainCfg cfg) {s : Map X} (hw : WF 4 s) (hfc : s.fc = 0)
    (hs : 0 < s.a.size) {a b : Nat} (han : a < s.n) (hbn : b < s.n)
    (hval : (s.att 0 (min a b)).isSome = true) :
    ∃ s', run (splitS cfg 0 a b (min a b)) s = (.ok (), s') ∧ SameTopo s s' ∧ s'.fc = 0 ∧
      (s'.att 0 a).isSome = true ∧ (s'.att 0 b).isSome = true ∧
      ∀ e, e ≠ a → e ≠ b → s'.att 0 e = s.att 0 e := by
  have hon : min a b < s.n := by omega
  by_cases hab : a = b
  · subst hab
    rw [Nat.min_self] at hval ⊢
    refine ⟨_, splitS_run_move cfg 0 a a s (okA0 hw hs han) (okA0 hw hs han), moveAt_sameTopo _ _ _ _,
      by rw [moveAt_fc]; exact hfc, ?_, ?_, ?_⟩
    · rw [att_moveAt s 0 a a 0 a (okA0 hw hs han) (okA0 hw hs han)]; simpa using hval
    · rw [att_moveAt s 0 a a 0 a (okA0 hw hs han) (okA0 hw hs han)]; simpa using hval
    · intro e h1 _
      rw [att_moveAt s 0 a a 0 e (okA0 hw hs han) (okA0 hw hs han)]; simp [h1]
  · obtain ⟨x, hx⟩ := Option.isSome_iff_exists.1 hval
    obtain ⟨x1, x2, _, hrun⟩ := splitS0_run hc hw hfc hs han hbn hon hab hx
    have hatt := fun e => att_splitAt s 0 a b (min a b) x1 x2 0 e (okA0 hw hs hon) (okA0 hw hs han) (okA0 hw hs hbn)
    refine ⟨_, hrun, splitAt_sameTopo _ _ _ _ _ _ _, by rw [splitAt_fc]; exact hfc, ?_, ?_, ?_⟩
    · rw [hatt]; simp [hab]
    · rw [hatt]; simp
    · intro e h1 h2
      have h3 : e ≠ min a b := by omega
      rw [hatt]; simp [h1, h2, h3]

/-- a dart counts when it is non-null, exists and is not removed -/
def InUseD (m : Map X) (d : Nat) : Prop := d ≠ 0 ∧ d < m.n ∧ m.unused d = false

theorem embedded_iff (m : Map X) :
    Embedded m ↔ EmbP (SameCell (g3v m) m.n) (InUseD m) (fun v => m.att 0 v) :=
  ⟨fun h d v hu hv => h d v hu.1 hu.2.1 hu.2.2 hv, fun h d v h0 hd hu hv => h d v ⟨h0, hd, hu⟩ hv⟩

theorem embP_congr {P P' : Nat → Nat → Prop} {inuse : Nat → Prop} {att : Nat → Option X}
    (h : ∀ d e, P d e ↔ P' d e) (hE : EmbP P inuse att) : EmbP P' inuse att :=
  fun d v hu hv => hE d v hu ⟨(h d v).2 hv.1, fun e he he0 => hv.2 e ((h d e).1 he) he0⟩

/-- the old vertex partition of a 2-unlinked map: the new one with `l — β1 r`, `r — β1 l` united -/
theorem twoUnlink_cells {m : Map X} (hwf : WF 4 m) {l : Nat} (hl0 : l ≠ 0) (hln : l < m.n)
    (hlu : m.unused l = false) (hne : m.β 2 l ≠ 0) (hbl : m.β 1 l ≠ 0) (hbr : m.β 1 (m.β 2 l) ≠ 0) (d e : Nat) :
    SameCell (g3v m) m.n d e ↔
      Glue (SameCell (g3v (m.unlinkI 2 l)) m.n) [(l, m.β 1 (m.β 2 l)), (m.β 2 l, m.β 1 l)] d e := by
  have ir := hwf.image_inUse (i := 2) (by omega) hln hne
  have hrn := ir.1
  have hwf1 : WF 4 (m.unlinkI 2 l) := hwf.unlinkI (by omega) (by omega) hln hne
  have hinv := hwf.invol 2 (by omega) (by omega) l hln hne
  have hlr : l ≠ m.β 2 l := fun hh => hinv.2 hh.symm
  have eβ := hwf.toSized.β_unlinkI (i := 2) (by omega) hln hrn
  have h2l' : (m.unlinkI 2 l).β 2 l = 0 := by rw [eβ]; simp
  have h2r' : (m.unlinkI 2 l).β 2 (m.β 2 l) = 0 := by rw [eβ]; simp
  have h1 : ∀ e, (m.unlinkI 2 l).β 1 e = m.β 1 e := by intro e; rw [eβ]; simp
  have hu : ∀ e, (m.unlinkI 2 l).unused e = m.unused e := fun _ => rfl
  rw [← sameCell_of_β_eq (relink2_β hwf hln hne) m.n d e]
  have := vertex_cells_link2 hwf1 (l := l) (r := m.β 2 l) hl0 hne hlr hln hrn
    (by rw [hu]; exact hlu) (by rw [hu]; exact ir.2) h2l' h2r' d e
  rw [pairsV2_both (by rw [h1]; exact hbl) (by rw [h1]; exact hbr), h1, h1] at this
  exact this

/-- **C05, 2-unsew succeeds on an embedded mesh** (closed faces: both darts have a successor; the
    property's proviso: the end points of the edge are four different vertices afterwards): the call
    returns `Ok` and the result is again well-formed, mirrored and embedded — each of the two old
    vertex values is split between the identifiers (cell minima) of the two vertices it falls
    into (`C05_twoUnsew3_cells` applies to this run) -/
theorem C05_twoUnsew3_succeeds (cfg : Cfg X) (hc : PlainCfg cfg) (m : Map X) (l : Nat) (R : Ready m)
    (hl : C02.InUse m l) (hsewn : m.β 2 l ≠ 0) (hbl : m.β 1 l ≠ 0) (hbr : m.β 1 (m.β 2 l) ≠ 0)
    (hfar : Far (SameCell (g3v (m.unlinkI 2 l)) m.n) (l, m.β 1 (m.β 2 l)) (m.β 2 l, m.β 1 l)) :
    ∃ m', run (twoUnsew3 cfg m.n l) m = (.ok (), m') ∧ Ready m' := by
  obtain ⟨hl0, hln, hlu⟩ := hl
  have hw := R.wf
  have ir := hw.image_inUse (i := 2) (by omega) hln hsewn
  have hrn := ir.1
  have han : m.β 1 (m.β 2 l) < m.n := hw.range 1 (by omega) _ hrn
  have hbn : m.β 1 l < m.n := hw.range 1 (by omega) l hln
  have ok : ∀ i x, i < 4 → x < m.n → m.okβ i x = true := fun i x hi hx => hw.okβ4 hi hx
  have hw1 : WF 4 (m.unlinkI 2 l) := hw.unlinkI (by omega) (by omega) hln hsewn
  have hn1 : (m.unlinkI 2 l).n = m.n := rfl
  have hu1 : ∀ e, (m.unlinkI 2 l).unused e = m.unused e := fun _ => rfl
  have ha1 : (m.unlinkI 2 l).a = m.a := rfl
  have fc1 : (m.unlinkI 2 l).fc = 0 := R.fc
  have st1 : 0 < (m.unlinkI 2 l).a.size := R.st0
  -- identifiers
  obtain ⟨eold, heold, _⟩ := eid_run hw rfl hl0 hln
  obtain ⟨lvold, hlvold, slvold, lvold0, lvoldn⟩ := vid_run hw rfl hl0 hln
  obtain ⟨rvold, hrvold, srvold, rvold0, rvoldn⟩ := vid_run hw rfl hsewn hrn
  obtain ⟨enl, henl, _⟩ := eid_run hw1 hn1.symm hl0 hln
  obtain ⟨enr, henr, _⟩ := eid_run hw1 hn1.symm hsewn hrn
  obtain ⟨a, hra, sa, a0, an⟩ := vid_run hw1 hn1.symm hl0 hln
  obtain ⟨b, hrb, sb, b0, bn⟩ := vid_run hw1 hn1.symm hbr han
  obtain ⟨c, hrc, sc, c0, cn⟩ := vid_run hw1 hn1.symm hbl hbn
  obtain ⟨d, hrd, sd, d0, dn⟩ := vid_run hw1 hn1.symm hsewn hrn
  -- partitions
  have eqV := sameCell_equiv (g3v (m.unlinkI 2 l)) m.n
  have hv := twoUnlink_cells hw hl0 hln hlu hsewn hbl hbr
  have hsep : [(l, m.β 1 (m.β 2 l)), (m.β 2 l, m.β 1 l)].Pairwise (Far (SameCell (g3v (m.unlinkI 2 l)) m.n)) :=
    pairwise_two hfar
  obtain ⟨u1, o1, p1, q1⟩ := glue_cons_sep eqV hsep
  have hsep2 : [(m.β 2 l, m.β 1 l)].Pairwise (Far (SameCell (g3v (m.unlinkI 2 l)) m.n)) := by simp
  obtain ⟨u2, o2, p2, q2⟩ := glue_cons_sep eqV hsep2
  -- the old identifiers are the minima of the unions
  have sa' : IsMinOf (Glue (SameCell (g3v (m.unlinkI 2 l)) m.n) [(m.β 2 l, m.β 1 l)]) l a :=
    ⟨(p1 a).2 sa.1, fun e he he0 => sa.2 e ((p1 e).1 he) he0⟩
  have sb' : IsMinOf (Glue (SameCell (g3v (m.unlinkI 2 l)) m.n) [(m.β 2 l, m.β 1 l)]) (m.β 1 (m.β 2 l)) b :=
    ⟨(q1 b).2 sb.1, fun e he he0 => sb.2 e ((q1 e).1 he) he0⟩
  have sd' : IsMinOf (Glue (SameCell (g3v (m.unlinkI 2 l)) m.n) []) (m.β 2 l) d :=
    ⟨(p2 d).2 sd.1, fun e he he0 => sd.2 e ((p2 e).1 he) he0⟩
  have sc' : IsMinOf (Glue (SameCell (g3v (m.unlinkI 2 l)) m.n) []) (m.β 1 l) c :=
    ⟨(q2 c).2 sc.1, fun e he he0 => sc.2 e ((q2 e).1 he) he0⟩
  have elv : lvold = min a b := by
    have := isMinOf_union (G := SameCell (g3v m) m.n) (fun e => by rw [hv]; exact u1 e) sa' sb'
    exact IsMinOf.unique slvold this lvold0 (by omega)
  -- `r` in the intermediate partition: its class is the union of those of `r` and `β1 l`
  have srP1 : IsMinOf (Glue (SameCell (g3v (m.unlinkI 2 l)) m.n) [(m.β 2 l, m.β 1 l)]) (m.β 2 l) (min d c) :=
    isMinOf_union u2 sd' sc'
  -- `r` is far from the first pair, so its old class is its intermediate class
  have rfar : ¬ Glue (SameCell (g3v (m.unlinkI 2 l)) m.n) [(m.β 2 l, m.β 1 l)] (m.β 2 l) l ∧
      ¬ Glue (SameCell (g3v (m.unlinkI 2 l)) m.n) [(m.β 2 l, m.β 1 l)] (m.β 2 l) (m.β 1 (m.β 2 l)) := by
    have gn := glue_nil eqV
    constructor
    · intro hh
      rcases (u2 l).1 hh with k | k
      · exact hfar.1 (.symm ((gn _ _).1 k))
      · exact hfar.2.1 (.symm ((gn _ _).1 k))
    · intro hh
      rcases (u2 _).1 hh with k | k
      · exact hfar.2.2.1 (.symm ((gn _ _).1 k))
      · exact hfar.2.2.2 (.symm ((gn _ _).1 k))
  have erv : rvold = min d c := by
    have : IsMinOf (SameCell (g3v m) m.n) (m.β 2 l) (min d c) :=
      ⟨(hv _ _).2 ((o1 _ rfar.1 rfar.2 _).2 srP1.1), fun e he he0 =>
        srP1.2 e ((o1 _ rfar.1 rfar.2 e).1 ((hv _ _).1 he)) he0⟩
    exact IsMinOf.unique srvold this rvold0 (by omega)
  -- the embedded invariant along the chain
  have E0 : EmbP (Glue (SameCell (g3v (m.unlinkI 2 l)) m.n) [(l, m.β 1 (m.β 2 l)), (m.β 2 l, m.β 1 l)])
      (InUseD m) (fun v => (m.unlinkI 2 l).att 0 v) :=
    embP_congr hv ((embedded_iff m).1 R.emb)
  -- minima of classes of in-use darts are non-null (the classes refine the old vertex cells)
  have nz : ∀ (ps : List (Nat × Nat)), (∀ x, x ∈ ps → x ∈ [(l, m.β 1 (m.β 2 l)), (m.β 2 l, m.β 1 l)]) →
      ∀ d' v, InUseD m d' → IsMinOf (Glue (SameCell (g3v (m.unlinkI 2 l)) m.n) ps) d' v → v ≠ 0 := by
    intro ps hsub d' v hu hmin
    have := (hv d' v).2 (Glue.mono hsub hmin.1)
    exact (sameCell_ne_zero hw hu.1 hu.2.1 this).1
  have inl : InUseD m l := ⟨hl0, hln, hlu⟩
  have inr : InUseD m (m.β 2 l) := ⟨hsewn, hrn, ir.2⟩
  -- the run up to the two splits
  have start : ∀ m', run (do
      splitS cfg 0 a b lvold
      splitS cfg 0 c d rvold
      splitAttrs cfg 0 a b lvold
      splitAttrs cfg 0 c d rvold : P X Unit) (m.unlinkI 2 l) = (.ok (), m') →
      run (twoUnsew3 cfg m.n l) m = (.ok (), m') := by
    intro m' h
    unfold twoUnsew3
    simp only [Prog.bind_eq, bind, run_rB, ok 2 l (by omega) hln, ok 1 l (by omega) hln, ok 1 _ (by omega) hrn,
      if_true]
    have c1 : ¬ (m.β 1 l = 0 ∧ m.β 1 (m.β 2 l) = 0) := fun hh => hbl hh.1
    rw [if_neg c1, if_neg hbl, if_neg hbr]
    rw [run_bind_of_ok heold, run_bind_of_ok hlvold, run_bind_of_ok hrvold,
      run_bind_of_ok (iUnlinkCore_run (ok 2 l (by omega) hln) hsewn (ok 2 _ (by omega) hrn)),
      run_bind_of_ok henl, run_bind_of_ok henr, run_bind_of_ok (splitAttrs_plain hc (by decide) _ _ _ _),
      run_bind_of_ok hra, run_bind_of_ok hrb, run_bind_of_ok hrc, run_bind_of_ok hrd]
    exact h
  -- first split
  have val1 : ((m.unlinkI 2 l).att 0 (min a b)).isSome = true := embP_old (fun e => u1 e) sa' sb' inl E0
  obtain ⟨s1, hs1, st01, fcs1, va, vb, fr1⟩ := split_attr_step hc hw1 fc1 st1 (a := a) (b := b)
    (by rw [hn1]; exact an) (by rw [hn1]; exact bn) val1
  have E1 : EmbP (Glue (SameCell (g3v (m.unlinkI 2 l)) m.n) [(m.β 2 l, m.β 1 l)]) (InUseD m)
      (fun v => s1.att 0 v) :=
    embP_split (glue_equiv _ eqV _) (fun e => u1 e) (fun d' h1 h2 e => o1 d' h1 h2 e) sa' sb' a0 b0
      (nz _ (fun x hx => List.mem_cons_of_mem _ hx)) va vb fr1 E0
  -- second split
  have ws1 : WF 4 s1 := hw1.sameTopo st01
  have val2 : (s1.att 0 (min d c)).isSome = true := embP_old (fun e => u2 e) sd' sc' inr E1
  -- the code splits `(c, d)` from `rvold = min d c = min c d`
  obtain ⟨s2, hs2, st12, fcs2, vc, vd, fr2⟩ := split_attr_step hc ws1 fcs1 (by rw [st01.asz]; exact st1)
    (a := c) (b := d) (by rw [st01.n, hn1]; exact cn) (by rw [st01.n, hn1]; exact dn)
    (by rw [Nat.min_comm]; exact val2)
  have E2 : EmbP (Glue (SameCell (g3v (m.unlinkI 2 l)) m.n) []) (InUseD m) (fun v => s2.att 0 v) :=
    embP_split (glue_equiv _ eqV _) (fun e => u2 e) (fun d' h1 h2 e => o2 d' h1 h2 e) sd' sc' d0 c0
      (nz _ (fun x hx => absurd hx (by simp))) vd vc (fun e h1 h2 => fr2 e h2 h1) E1
  have hrun : run (twoUnsew3 cfg m.n l) m = (.ok (), s2) := by
    apply start
    show run ((splitS cfg 0 a b lvold).bind fun _ => (splitS cfg 0 c d rvold).bind fun _ =>
      (splitAttrs cfg 0 a b lvold).bind fun _ => splitAttrs cfg 0 c d rvold) (m.unlinkI 2 l) = _
    rw [elv, run_bind_of_ok hs1, erv, Nat.min_comm d c, run_bind_of_ok hs2,
      run_bind_of_ok (splitAttrs_plain hc (by decide) _ _ _ _), splitAttrs_plain hc (by decide)]
  have st02 := st01.trans st12
  have hM1 : Mirror (m.unlinkI 2 l) := by
    have eβ := hw.toSized.β_unlinkI (i := 2) (by omega) hln hrn
    refine mirror_of_β13 (m := m) rfl ?_ ?_ R.mir
    · intro x; rw [eβ]; simp
    · intro x; rw [eβ]; simp
  refine ⟨s2, hrun, hw1.sameTopo st02, st02.mirror hM1, fcs2, by rw [st02.asz]; exact st1, ?_⟩
  -- embedded: the final partition is that of the unlinked map
  intro d' v hd0 hd hu hvv
  have hvv1 : IsVid3 (m.unlinkI 2 l) d' v := (isVid3_sameTopo st02 d' v).1 hvv
  have hd1 : d' < m.n := by rw [← hn1, ← st02.n]; exact hd
  have hu1' : m.unused d' = false := by rw [← hu1, ← st02.unused]; exact hu
  refine E2 d' v ⟨hd0, hd1, hu1'⟩ ?_
  unfold IsVid3 at hvv1
  rw [hn1] at hvv1
  exact ⟨.base hvv1.1, fun e he he0 => hvv1.2 e ((glue_nil eqV _ _).1 he) he0⟩


/-! ## 3-sew: the cell-level proviso implies the identifier-level one -/

theorem run_ok_inj' {α : Type} {p : P X α} {m m1 m2 : Map X} {a b : α}
    (h1 : run p m = (.ok a, m1)) (h2 : run p m = (.ok b, m2)) : a = b := by
  rw [h1] at h2; simp at h2; exact h2.1

/-- the collected lists are determined by the zipped walks -/
theorem collected_det {n : Nat} {m : Map X} : ∀ {zs es vs es' vs' : List (Nat × Nat)},
    Collected n m zs es vs → Collected n m zs es' vs' → es = es' ∧ vs = vs' := by
  intro zs es vs es' vs' h1
  induction h1 generalizing es' vs' with
  | nil => intro h2; cases h2; exact ⟨rfl, rfl⟩
  | @cons l r rest e1 v1 e1' v1' hP _ ih =>
      intro h2
      cases h2 with
      | @cons _ _ _ e2 v2 e2' v2' hP2 hC2 =>
          obtain ⟨i1, i2⟩ := ih hC2
          obtain ⟨el, er, a1, a2, hel, her, ha1, ha2, hes, hvs⟩ := hP
          obtain ⟨el', er', b1, b2, hel', her', hb1, hb2, hes', hvs'⟩ := hP2
          have := run_ok_inj' hel hel'
          have := run_ok_inj' her her'
          have := run_ok_inj' ha1 hb1
          have := run_ok_inj' ha2 hb2
          subst_vars
          refine ⟨rfl, ?_⟩
          rcases hvs with ⟨k, rfl⟩ | ⟨k, a3, a4, ha3, ha4, rfl⟩ <;>
            rcases hvs' with ⟨k', rfl⟩ | ⟨k', b3, b4, hb3, hb4, rfl⟩
          · rfl
          · exact absurd k' k
          · exact absurd k k'
          · have := run_ok_inj' ha3 hb3
            have := run_ok_inj' ha4 hb4
            subst_vars; rfl

theorem zip_pairwise_fst : ∀ {l l' : List Nat}, l.Nodup → (l.zip l').Pairwise (fun x y => x.1 ≠ y.1) := by
  intro l
  induction l with
  | nil => intro l' _; simp
  | cons a t ih =>
      intro l' hn
      cases l' with
      | nil => simp
      | cons b t' =>
          have hc := List.nodup_cons.1 hn
          simp only [List.zip_cons_cons, List.pairwise_cons]
          refine ⟨?_, ih hc.2⟩
          intro y hy hh
          exact hc.1 (by rw [show a = y.1 from hh]; exact (List.of_mem_zip hy).1)

/-- on closed faces, from the alignment of the collected vertex pairs with the zipped walks -/
theorem collected_pairwise {m : Map X} (hwf : WF 4 m) {Pz : Nat × Nat → Nat × Nat → Prop}
    (hdisj : ∀ lr lr' p p', Pz lr lr' → IsVid3 m (m.β 1 lr.1) p.1 → IsVid3 m lr.2 p.2 →
      IsVid3 m (m.β 1 lr'.1) p'.1 → IsVid3 m lr'.2 p'.2 → Disj p p') :
    ∀ {zs es vs : List (Nat × Nat)}, Collected m.n m zs es vs →
      (∀ lr, lr ∈ zs → lr.1 ≠ 0 ∧ lr.1 < m.n ∧ lr.2 ≠ 0 ∧ lr.2 < m.n ∧ m.β 1 lr.1 ≠ 0 ∧ m.β 0 lr.1 ≠ 0) →
      zs.Pairwise Pz → vs.Pairwise Disj := by
  intro zs es vs hC
  induction hC with
  | nil => intro _ _; exact List.Pairwise.nil
  | @cons l r rest es vs es' vs' hP hC' ih =>
      intro hz hp
      have hpc := List.pairwise_cons.1 hp
      have hz' := fun lr hm => hz lr (List.mem_cons_of_mem _ hm)
      have ihv := ih hz' hpc.2
      obtain ⟨_, _, i3, _⟩ := collected_ids hwf hC' hz'
      obtain ⟨hl0, hln, hr0, hrn, h1, h0⟩ := hz (l, r) (by simp)
      obtain ⟨el, er, v1, v2, hel, her, hv1, hv2, hes, hvs⟩ := hP
      rw [if_neg h1] at hv1
      have s3 := (vertexId3_spec hwf h1 (hwf.range 1 (by omega) l hln) hv1).2
      have s4 := (vertexId3_spec hwf hr0 hrn hv2).2
      have hvs' : vs = [(v1, v2)] := by
        rcases hvs with ⟨_, k⟩ | ⟨k, _⟩
        · exact k
        · exact absurd k h0
      subst hvs'
      refine List.pairwise_append.2 ⟨by simp, ihv, ?_⟩
      intro p hp' p' hp''
      have : p = (v1, v2) := by simpa using hp'
      subst this
      obtain ⟨lr', hm', k1, k2⟩ := i3 p' hp''
      exact hdisj (l, r) lr' _ p' (hpc.1 lr' hm') s3 s4 k1 k2

theorem far_to_disj {m : Map X} {a b a' b' : Nat} {p p' : Nat × Nat}
    (hfar : Far (SameCell (g3v m) m.n) (a, b) (a', b'))
    (h1 : IsVid3 m a p.1) (h2 : IsVid3 m b p.2) (h1' : IsVid3 m a' p'.1) (h2' : IsVid3 m b' p'.2) :
    Disj p p' := by
  have key : ∀ x y v w, IsVid3 m x v → IsVid3 m y w → v = w → SameCell (g3v m) m.n x y :=
    fun x y v w hv hw e => .trans hv.1 (by rw [e]; exact .symm hw.1)
  exact ⟨fun e => hfar.1 (key _ _ _ _ h1 h1' e), fun e => hfar.2.1 (key _ _ _ _ h1 h2' e),
    fun e => hfar.2.2.1 (key _ _ _ _ h2 h1' e), fun e => hfar.2.2.2 (key _ _ _ _ h2 h2' e)⟩

/-- **C05 (3-sew, vertices) under the cell-level proviso alone**: if no old vertex cell takes part
    in two of the unions `β1 l — r` of the 3-link (`Far` on the pairs of the walk), then the
    identifier-level proviso of `C05_threeSew3_vertices` holds, hence every kept pair of collected
    vertex identifiers ends with `merge*` of the two values held before the call at the smaller
    identifier — the smallest dart of the united cell — and nothing at the other; vertex
    identifiers in no kept pair keep their value -/
theorem C05_threeSew3_vertices_far (cfg : Cfg X) (m m' : Map X) (ld rd : Nat) (u : Unit)
    (hwf : WF 4 m) (hl : C02.InUse m ld) (hr : C02.InUse m rd) (hne : ld ≠ rd) (hfc : m.fc = 0)
    (hclosed : ∀ t, it m 1 t ld ≠ 0)
    (h : run (threeSew3 cfg m.n ld rd) m = (.ok u, m')) :
    ∃ (L : Nat) (m1 : Map X) (vs : List (Nat × Nat)),
      run (threeLink3 (X := X) m.n ld rd) m = (.ok (), m1) ∧
      ((pairsA m (walkPairs m 1 0 L ld rd)).Pairwise (Far (SameCell (g3v m) m.n)) →
        (vs.filter keepPair).Pairwise Disj ∧
        (∀ p, p ∈ vs.filter keepPair → ∀ t, t ∈ vStores cfg →
          ∃ v, mergeVal (cfg.law t) (m.att t p.1) (m.att t p.2) = .ok v ∧
            m'.att t (min p.1 p.2) = some v ∧ m'.att t (max p.1 p.2) = none) ∧
        (∀ t e, t ∈ vStores cfg → (∀ p, p ∈ vs.filter keepPair → e ≠ p.1 ∧ e ≠ p.2) →
          m'.att t e = m.att t e) ∧
        (∀ p, p ∈ vs → ∃ lr, lr ∈ walkPairs m 1 0 L ld rd ∧ IsVid3 m (m.β 1 lr.1) p.1 ∧ IsVid3 m lr.2 p.2 ∧
          IsVid3 m1 (m.β 1 lr.1) (min p.1 p.2))) := by
  obtain ⟨lo, ro, es, vs, hfo, hC, hdata⟩ := C05_threeSew3_vertices cfg m.n ld rd m m' u hfc h
  obtain ⟨hl0, hln, hlu⟩ := hl
  obtain ⟨hr0, hrn, hru⟩ := hr
  obtain ⟨_, _, _, _, m1, _, _, _, _, hlink, _, _, _, _⟩ := C05_threeSew3_effect cfg m.n ld rd m m' u hfc h
  obtain ⟨hw1, hg, _, hshape⟩ := threeLink3_ok hwf hl0 hr0 hln hrn hlu hru hne hlink
  obtain ⟨L, hL0, hL, hpl, hpr, hminl⟩ := threeLink3_linked_closed hwf.toSized hl0 hr0 hclosed hlink
  have cl : Cyc m 1 ld L := ⟨hL0, hpl, hclosed⟩
  have cr : Cyc m 0 rd L := ⟨hL0, hpr, C02.periodic_never_null (hwf.null 0 (by omega)) hL0 hpr hr0⟩
  have d10 : Dir 1 0 := Or.inl ⟨rfl, rfl⟩
  have d01 : Dir 0 1 := Or.inr ⟨rfl, rfl⟩
  have hminr : ∀ t, 0 < t → t < L → it m 0 t rd ≠ rd := by
    rcases hshape with ⟨L', hL'0, hp', _, hmin'⟩ | ⟨F, _, hF0, _⟩
    · have : L' = L := by
        rcases Nat.lt_trichotomy L' L with hh | hh | hh
        · exact absurd hp' (hminl L' hL'0 hh)
        · exact hh
        · exact absurd hpl (hmin' L hL0 hh).1
      subst this
      intro t h0 ht; exact (hmin' t h0 ht).2.2.1
    · exact absurd hF0 (hclosed F)
  -- the two face walks of the code
  have hfo' := hfo
  unfold faceOrbits3 at hfo'
  obtain ⟨lo', h1, hfo'⟩ := run_ro_bind_ok (readOnly_bfs _ (readOnly_gen3_custom _) _ _ _ _) hfo'
  obtain ⟨ro', h2, hfo'⟩ := run_ro_bind_ok (readOnly_bfs _ (readOnly_gen3_custom _) _ _ _ _) hfo'
  obtain ⟨hp, _⟩ := run_pure_ok hfo'
  simp only [Prod.mk.injEq] at hp
  obtain ⟨rfl, rfl⟩ := hp
  have o1 := (face_orbit_cycle (X := X) hwf d10 hl0 hln cl).1
  have o2 := (face_orbit_cycle (X := X) hwf d01 hr0 hrn cr).1
  have e1 : lo = bfsPure (gIJ m 1 0) (m.n + 1) [ld] [0, ld] [] := by
    have : run (orbitWith m.n (gen3 (X := X) (.custom [1, 0])) ld) m = (.ok lo, m) := h1
    rw [o1] at this; simp at this; exact this.symm
  have e2 : ro = bfsPure (gIJ m 0 1) (m.n + 1) [rd] [0, rd] [] := by
    have : run (orbitWith m.n (gen3 (X := X) (.custom [0, 1])) rd) m = (.ok ro, m) := h2
    rw [o2] at this; simp at this; exact this.symm
  have hzip : ∀ pq, pq ∈ lo.zip ro ↔ pq ∈ walkPairs m 1 0 L ld rd := by
    intro pq; rw [e1, e2]
    exact zip_face_walks hwf hl0 hr0 hln hrn cl cr hminl hminr pq
  have hlond : lo.Nodup := by
    rw [e1]
    exact (bfsPure_spec (gIJ_null hwf (i := 1) (j := 0) (by omega) (by omega))
      (gIJ_range hwf (i := 1) (j := 0) (by omega) (by omega)) hl0 hln).2.1
  have hps : ∀ lr, lr ∈ walkPairs m 1 0 L ld rd →
      lr.1 ≠ 0 ∧ lr.1 < m.n ∧ lr.2 ≠ 0 ∧ lr.2 < m.n ∧ m.β 1 lr.1 ≠ 0 ∧ m.β 0 lr.1 ≠ 0 ∧ m.β 1 lr.2 ≠ 0 := by
    intro lr hm
    obtain ⟨_, _, _, _, a5, a6, a7, a8⟩ := hL.pairs lr hm
    obtain ⟨t, ht, rfl⟩ := (mem_walkPairs L ld rd lr).1 hm
    refine ⟨a5, a7, a6, a8, ?_, ?_, ?_⟩
    · show m.β 1 (it m 1 t ld) ≠ 0
      rw [← it_succ']; exact cl.nz _
    · show m.β 0 (it m 1 t ld) ≠ 0
      rw [cl.pred hwf d10 hln t]; exact cl.nz _
    · show m.β 1 (it m 0 t rd) ≠ 0
      rw [cr.pred hwf d01 hrn t]; exact cr.nz _
  have hz : ∀ lr, lr ∈ lo.zip ro →
      lr.1 ≠ 0 ∧ lr.1 < m.n ∧ lr.2 ≠ 0 ∧ lr.2 < m.n ∧ m.β 1 lr.1 ≠ 0 ∧ m.β 0 lr.1 ≠ 0 := by
    intro lr hm
    obtain ⟨a1, a2, a3, a4, a5, a6, _⟩ := hps lr ((hzip lr).1 hm)
    exact ⟨a1, a2, a3, a4, a5, a6⟩
  obtain ⟨_, _, c3, _⟩ := collected_ids hwf hC hz
  have hverts : ∀ d e, SameCell (g3v m1) m.n d e ↔
      Glue (SameCell (g3v m) m.n) (pairsA m (walkPairs m 1 0 L ld rd)) d e := by
    intro d e
    rw [vertex_cells_linked3 hwf hw1 hL (fun pq hm => ⟨(hps pq hm).2.2.2.2.1, (hps pq hm).2.2.2.2.2.2⟩) d e]
    constructor
    · exact Glue.mono fun x hx => (pairsV3_closed hwf hln hrn cl cr x).1 hx
    · exact Glue.mono fun x hx => (pairsV3_closed hwf hln hrn cl cr x).2 hx
  refine ⟨L, m1, vs, hlink, fun hfar => ?_⟩
  -- the zipped walks are pairwise far, in their own order
  have eqV := sameCell_equiv (g3v m) m.n
  have hPz : (lo.zip ro).Pairwise (fun x y =>
      Far (SameCell (g3v m) m.n) (m.β 1 x.1, x.2) (m.β 1 y.1, y.2)) := by
    refine List.Pairwise.imp_of_mem (fun {x y} hx hy hxy => ?_) (zip_pairwise_fst hlond)
    have hx' := (hzip x).1 hx
    have hy' := (hzip y).1 hy
    have mx : (m.β 1 x.1, x.2) ∈ pairsA m (walkPairs m 1 0 L ld rd) := List.mem_map.2 ⟨x, hx', rfl⟩
    have my : (m.β 1 y.1, y.2) ∈ pairsA m (walkPairs m 1 0 L ld rd) := List.mem_map.2 ⟨y, hy', rfl⟩
    rcases pairwise_mem hfar mx my with k | k | k
    · exfalso
      have e : m.β 1 x.1 = m.β 1 y.1 := (Prod.mk.inj k).1
      have a := hwf.inv01 x.1 (hps x hx').2.1 (hps x hx').2.2.2.2.1
      have b := hwf.inv01 y.1 (hps y hy').2.1 (hps y hy').2.2.2.2.1
      rw [e, b] at a
      exact hxy a.symm
    · exact k
    · exact k.symm eqV
  have hD : vs.Pairwise Disj :=
    collected_pairwise hwf (fun lr lr' p p' hP a1 a2 a3 a4 => far_to_disj hP a1 a2 a3 a4) hC hz hPz
  have hDf : (vs.filter keepPair).Pairwise Disj := hD.filter _
  obtain ⟨d1, d2⟩ := hdata hDf
  refine ⟨hDf, d1, d2, ?_⟩
  intro p hp
  obtain ⟨lr, hm, k1, k2⟩ := c3 p hp
  have hm' := (hzip lr).1 hm
  refine ⟨lr, hm', k1, k2, ?_⟩
  have hmem : (m.β 1 lr.1, lr.2) ∈ pairsA m (walkPairs m 1 0 L ld rd) := List.mem_map.2 ⟨lr, hm', rfl⟩
  have hG : ∀ e, SameCell (g3v m1) m.n (m.β 1 lr.1) e ↔
      (SameCell (g3v m) m.n (m.β 1 lr.1) e ∨ SameCell (g3v m) m.n lr.2 e) := by
    intro e; rw [hverts]
    exact glue_sep_pair eqV hfar (pq := (m.β 1 lr.1, lr.2)) hmem e
  unfold IsVid3; rw [hL.n]
  exact isMinOf_union hG k1 k2


/-! ## 3-unsew on an embedded mesh -/

/-- the walk of `three_unlink` is total on a stretch of `k` linked pairs of distinct darts -/
theorem unlinkWalk_run {ld rd stop : Nat} :
    ∀ (k f ls rs : Nat) (s : Map X), WF 4 s → k < f → ls < s.n → rs < s.n →
      (∀ t, t < k → it s 1 t ls ≠ stop ∧ it s 1 t ls ≠ 0 ∧ s.β 3 (it s 0 t rs) = it s 1 t ls) →
      (∀ t t', t < t' → t' < k → it s 1 t ls ≠ it s 1 t' ls ∧ it s 1 t ls ≠ it s 0 t' rs) →
      (it s 1 k ls = stop ∨ it s 1 k ls = 0) →
      ∃ s', run (threeUnlinkWalk (X := X) ld rd stop 1 0 false f ls rs) s =
        (.ok (it s 1 k ls, it s 0 k rs), s') := by
  intro k
  induction k with
  | zero =>
      intro f ls rs s hw hf hlsn hrsn _ _ hend
      cases f with
      | zero => omega
      | succ f =>
          unfold threeUnlinkWalk
          have : ¬ (ls ≠ stop ∧ ls ≠ 0) := by
            intro hh
            rcases hend with k | k
            · exact hh.1 k
            · exact hh.2 k
          rw [if_neg this]
          exact ⟨s, rfl⟩
  | succ k ih =>
      intro f ls rs s hw hf hlsn hrsn hp hd hend
      cases f with
      | zero => omega
      | succ f =>
          obtain ⟨p1, p2, p3⟩ := hp 0 (by omega)
          simp only [it_zero] at p1 p2 p3
          have ok : ∀ i x, i < 4 → x < s.n → s.okβ i x = true := fun i x hi hx => hw.okβ4 hi hx
          have h3 : s.β 3 ls = rs := by
            have := invol_back hw (i := 3) (by omega) (by omega) hrsn (by rw [p3]; exact p2)
            rw [p3] at this; exact this
          have hne : s.β 3 ls ≠ 0 := by
            rw [h3]; intro hh; apply p2; rw [← p3, hh]; exact hw.null 3 (by omega)
          have hw1 : WF 4 (s.unlinkI 3 ls) := hw.unlinkI (by omega) (by omega) hlsn hne
          have eβ := hw.toSized.β_unlinkI (i := 3) (by omega) hlsn (by rw [h3]; exact hrsn)
          have e1 : ∀ x, (s.unlinkI 3 ls).β 1 x = s.β 1 x := by intro x; rw [eβ]; simp
          have e0 : ∀ x, (s.unlinkI 3 ls).β 0 x = s.β 0 x := by intro x; rw [eβ]; simp
          have i1 := it_congr e1
          have i0 := it_congr e0
          have hn1 : (s.unlinkI 3 ls).n = s.n := rfl
          obtain ⟨s', hs'⟩ := ih f (s.β 1 ls) (s.β 0 rs) (s.unlinkI 3 ls) hw1 (by omega)
            (hw.range 1 (by omega) ls hlsn) (hw.range 0 (by omega) rs hrsn)
            (by
              intro t ht
              obtain ⟨q1, q2, q3⟩ := hp (t + 1) (by omega)
              obtain ⟨d1, d2⟩ := hd 0 (t + 1) (by omega) (by omega)
              simp only [it_zero] at d1 d2
              rw [i1, i0]
              refine ⟨q1, q2, ?_⟩
              show (s.unlinkI 3 ls).β 3 (it s 0 (t + 1) rs) = it s 1 (t + 1) ls
              rw [eβ, h3]
              have a1 : ¬ rs = it s 0 (t + 1) rs := by
                intro hh
                apply d1
                rw [← q3, ← hh, p3]
              have a2 : ¬ ls = it s 0 (t + 1) rs := d2
              simp only [a1, a2, and_false, if_false]
              exact q3)
            (by
              intro t t' htt ht'
              obtain ⟨d1, d2⟩ := hd (t + 1) (t' + 1) (by omega) (by omega)
              rw [i1, i1, i0]
              exact ⟨d1, d2⟩)
            (by rw [i1]; exact hend)
          refine ⟨s', ?_⟩
          unfold threeUnlinkWalk
          rw [if_pos ⟨p1, p2⟩]
          simp only [Prog.bind_eq, bind, run_rB, ok 3 rs (by omega) hrsn, if_true, p3, ne_eq, not_true_eq_false,
            if_false, Bool.false_eq_true, Prog.pure_eq, run_ret]
          rw [run_bind_of_ok (show run (Prog.ret ls : P X Nat) s = (.ok ls, s) from rfl)]
          simp only [not_true_eq_false, if_false]
          rw [run_bind_of_ok (iUnlinkCore_run (ok 3 ls (by omega) hlsn) hne (ok 3 _ (by omega) (by rw [h3]; exact hrsn)))]
          simp only [Prog.bind_eq, bind, run_rB, hw1.okβ4 (i := 1) (by omega) (show ls < (s.unlinkI 3 ls).n from hlsn),
            hw1.okβ4 (i := 0) (by omega) (show rs < (s.unlinkI 3 ls).n from hrsn), if_true, e1, e0]
          rw [i1, i0] at hs'
          exact hs'


/-- on a mirrored map whose faces are 3-linked as a whole (`Sided3`), every dart of a closed
    3-linked face is linked to the matching dart of the opposite face -/
theorem face_linked {m : Map X} (hw : WF 4 m) (hM : Mirror m) (hS : Sided3 m) {ld : Nat} (hln : ld < m.n)
    (hne : m.β 3 ld ≠ 0) (hclosed : ∀ t, it m 1 t ld ≠ 0) :
    ∀ t, m.β 3 (it m 1 t ld) = it m 0 t (m.β 3 ld) ∧ it m 0 t (m.β 3 ld) ≠ 0 := by
  intro t
  induction t with
  | zero => exact ⟨rfl, hne⟩
  | succ t ih =>
      obtain ⟨i1, i2⟩ := ih
      have hdn : it m 1 t ld < m.n := it_lt hw (i := 1) (by omega) t ld hln
      have hb1 : m.β 1 (it m 1 t ld) ≠ 0 := by rw [← it_succ']; exact hclosed _
      have hb3 : m.β 3 (it m 1 t ld) ≠ 0 := by rw [i1]; exact i2
      have hb31 : m.β 3 (m.β 1 (it m 1 t ld)) ≠ 0 := fun hh => hb3 ((hS _ hdn hb1).2 hh)
      have hmir := hM _ hdn hb1 hb3 hb31
      have hyn : m.β 3 (m.β 1 (it m 1 t ld)) < m.n :=
        hw.range 3 (by omega) _ (hw.range 1 (by omega) _ hdn)
      have := hw.inv01 _ hyn (by rw [hmir]; exact hb3)
      rw [hmir, i1] at this
      rw [it_succ', it_succ', this]
      exact ⟨rfl, hb31⟩

/-- the face does not contain its own 3-image: no left dart is a right dart -/
theorem face_disj {m : Map X} (hw : WF 4 m) {ld : Nat} (hrn : m.β 3 ld < m.n)
    (hq : ∀ t, it m 0 t (m.β 3 ld) ≠ 0) (hnsg : ∀ t, it m 1 t ld ≠ m.β 3 ld) :
    ∀ t' t, it m 1 t ld ≠ it m 0 t' (m.β 3 ld) := by
  intro t'
  induction t' with
  | zero => exact hnsg
  | succ t' ih =>
      intro t hh
      apply ih (t + 1)
      have hqn : it m 0 t' (m.β 3 ld) < m.n := it_lt hw (i := 0) (by omega) t' _ hrn
      have := hw.inv10 _ hqn (by rw [← it_succ']; exact hq _)
      rw [it_succ', hh, it_succ', this]

theorem cyc_len_lt {m : Map X} (hw : WF 4 m) {ld L : Nat} (hln : ld < m.n) (cl : Cyc m 1 ld L)
    (hmin : ∀ t, 0 < t → t < L → it m 1 t ld ≠ ld) : L < m.n := by
  have hnd : ((List.range L).map (fun t => it m 1 t ld)).Nodup := by
    unfold List.Nodup
    rw [List.pairwise_map]
    refine List.Pairwise.imp_of_mem (fun {a b} ha hb hab => ?_) (List.pairwise_lt_range (n := L))
    intro hh
    have := Cyc.inj hw (Or.inl ⟨rfl, rfl⟩) hln cl hmin (List.mem_range.1 ha) (List.mem_range.1 hb) hh
    omega
  have := length_lt_of_nodup hw.npos hnd
    (fun x hx => by obtain ⟨t, _, rfl⟩ := List.mem_map.1 hx; exact cl.nz t)
    (fun x hx => by obtain ⟨t, _, rfl⟩ := List.mem_map.1 hx; exact it_lt hw (i := 1) (by omega) t ld hln)
  simpa using this

/-- **`three_unlink` succeeds** on a 3-linked dart of a closed face of a mirrored map whose faces are
    3-linked as a whole (`Sided3`, C02b) and not to themselves -/
theorem threeUnlink3_run {m : Map X} (hw : WF 4 m) (hM : Mirror m) (hS : Sided3 m) {ld L : Nat}
    (hln : ld < m.n) (hne : m.β 3 ld ≠ 0) (cl : Cyc m 1 ld L)
    (hmin : ∀ t, 0 < t → t < L → it m 1 t ld ≠ ld) (hnsg : ∀ t, it m 1 t ld ≠ m.β 3 ld) :
    ∃ m1, run (threeUnlink3 (X := X) m.n ld) m = (.ok (), m1) := by
  have hrn : m.β 3 ld < m.n := hw.range 3 (by omega) ld hln
  have hl0 : ld ≠ 0 := fun hh => hne (by rw [hh]; exact hw.null 3 (by omega))
  have ok : ∀ i x, i < 4 → x < m.n → m.okβ i x = true := fun i x hi hx => hw.okβ4 hi hx
  have FL := face_linked hw hM hS hln hne cl.nz
  have FD := face_disj hw hrn (fun t => (FL t).2) hnsg
  have back : ∀ t, m.β 3 (it m 0 t (m.β 3 ld)) = it m 1 t ld := by
    intro t
    have := invol_back hw (i := 3) (by omega) (by omega) (it_lt hw (i := 1) (by omega) t ld hln)
      (by rw [(FL t).1]; exact (FL t).2)
    rw [(FL t).1] at this; exact this
  have hw0 : WF 4 (m.unlinkI 3 ld) := hw.unlinkI (by omega) (by omega) hln hne
  have eβ := hw.toSized.β_unlinkI (i := 3) (by omega) hln hrn
  have e1 : ∀ x, (m.unlinkI 3 ld).β 1 x = m.β 1 x := by intro x; rw [eβ]; simp
  have e0 : ∀ x, (m.unlinkI 3 ld).β 0 x = m.β 0 x := by intro x; rw [eβ]; simp
  have i1 := it_congr e1
  have i0 := it_congr e0
  have hn0 : (m.unlinkI 3 ld).n = m.n := rfl
  have hLn := cyc_len_lt hw hln cl hmin
  have hpos := cl.pos
  have sh1 : ∀ t, it m 1 t (m.β 1 ld) = it m 1 (t + 1) ld := fun t => rfl
  have sh0 : ∀ t, it m 0 t (m.β 0 (m.β 3 ld)) = it m 0 (t + 1) (m.β 3 ld) := fun t => rfl
  obtain ⟨m1, hwalk⟩ := unlinkWalk_run (X := X) (ld := ld) (rd := m.β 3 ld) (stop := ld) (L - 1) (m.n + 1)
    (m.β 1 ld) (m.β 0 (m.β 3 ld)) (m.unlinkI 3 ld) hw0 (by omega)
    (hw.range 1 (by omega) ld hln) (hw.range 0 (by omega) _ hrn)
    (by
      intro t ht
      rw [i1, i0, sh1, sh0]
      refine ⟨hmin (t + 1) (by omega) (by omega), cl.nz _, ?_⟩
      rw [eβ]
      have a1 : ¬ m.β 3 ld = it m 0 (t + 1) (m.β 3 ld) := by
        intro hh
        have := back (t + 1)
        rw [← hh, invol_back hw (by omega) (by omega) hln hne] at this
        exact hmin (t + 1) (by omega) (by omega) this.symm
      have a2 : ¬ ld = it m 0 (t + 1) (m.β 3 ld) := FD (t + 1) 0
      simp only [a1, a2, and_false, if_false]
      exact back (t + 1))
    (by
      intro t t' htt ht'
      rw [i1, i1, i0, sh1, sh1, sh0]
      refine ⟨fun hh => ?_, FD _ _⟩
      have := Cyc.inj hw (Or.inl ⟨rfl, rfl⟩) hln cl hmin (s := t + 1) (t := t' + 1) (by omega) (by omega) hh
      omega)
    (by
      left
      rw [i1, sh1, show L - 1 + 1 = L by omega]
      exact cl.per)
  have hend : it (m.unlinkI 3 ld) 1 (L - 1) (m.β 1 ld) = ld := by
    rw [i1, sh1, show L - 1 + 1 = L by omega]; exact cl.per
  rw [hend] at hwalk
  refine ⟨m1, ?_⟩
  unfold threeUnlink3
  simp only [Prog.bind_eq, bind, run_rB, ok 3 ld (by omega) hln, if_true]
  rw [run_bind_of_ok (iUnlinkCore_run (ok 3 ld (by omega) hln) hne (ok 3 _ (by omega) hrn))]
  simp only [Prog.bind_eq, bind, run_rB, hw0.okβ4 (i := 1) (by omega) (show ld < (m.unlinkI 3 ld).n from hln),
    hw0.okβ4 (i := 0) (by omega) (show m.β 3 ld < (m.unlinkI 3 ld).n from hrn), if_true, e1, e0]
  rw [run_bind_of_ok hwalk]
  simp only [hl0, if_false]
  rfl


/-- the splitting loop of `three_unsew` runs to the end on an embedded mesh (closed faces; the
    property's proviso on the listed pairs): every step finds a value at the identifier it splits —
    the smallest dart of the class still to be split — and leaves one at both new smallest darts -/
theorem unsewLoop_run {cfg : Cfg X} (hc : PlainCfg cfg) {m1 : Map X} (hw1 : WF 4 m1) :
    ∀ (zs : List (Nat × Nat)) (s : Map X), SameTopo m1 s → s.fc = 0 → 0 < s.a.size →
      (∀ lr, lr ∈ zs → lr.1 ≠ 0 ∧ lr.1 < m1.n ∧ lr.2 ≠ 0 ∧ lr.2 < m1.n ∧ m1.β 1 lr.1 ≠ 0 ∧ m1.β 0 lr.1 ≠ 0 ∧
        m1.unused (m1.β 1 lr.1) = false) →
      (pairsA m1 zs).Pairwise (Far (SameCell (g3v m1) m1.n)) →
      (∀ d v, InUseD m1 d → Glue (SameCell (g3v m1) m1.n) (pairsA m1 zs) d v → v ≠ 0) →
      EmbP (Glue (SameCell (g3v m1) m1.n) (pairsA m1 zs)) (InUseD m1) (fun v => s.att 0 v) →
      ∃ s', run (threeUnsewLoop cfg m1.n zs) s = (.ok (), s') ∧ SameTopo m1 s' ∧ s'.fc = 0 ∧
        EmbP (Glue (SameCell (g3v m1) m1.n) []) (InUseD m1) (fun v => s'.att 0 v) := by
  intro zs
  induction zs with
  | nil =>
      intro s st hfc hs _ _ _ hE
      exact ⟨s, rfl, st, hfc, hE⟩
  | cons p rest ih =>
      intro s st hfc hs hz hsep hnz hE
      obtain ⟨l, r⟩ := p
      obtain ⟨hl0, hln, hr0, hrn, hb1, hb0, hbu⟩ := hz (l, r) (by simp)
      simp only at hl0 hln hr0 hrn hb1 hb0 hbu
      have ws : WF 4 s := hw1.sameTopo st
      have hns : m1.n = s.n := st.n.symm
      have oks : ∀ i x, i < 4 → x < m1.n → s.okβ i x = true :=
        fun i x hi hx => ws.okβ4 hi (by rw [st.n]; exact hx)
      have hbn : m1.β 1 l < m1.n := hw1.range 1 (by omega) l hln
      obtain ⟨el, hel, _⟩ := eid_run ws hns hl0 (by rw [st.n]; exact hln)
      obtain ⟨er, her, _⟩ := eid_run ws hns hr0 (by rw [st.n]; exact hrn)
      obtain ⟨v1, hv1, sv1, v10, v1n⟩ := vid_run ws hns hb1 (by rw [st.n]; exact hbn)
      obtain ⟨v2, hv2, sv2, v20, v2n⟩ := vid_run ws hns hr0 (by rw [st.n]; exact hrn)
      have sv1' := (isVid3_sameTopo st _ _).1 sv1
      have sv2' := (isVid3_sameTopo st _ _).1 sv2
      have eqV := sameCell_equiv (g3v m1) m1.n
      have hpa : pairsA m1 ((l, r) :: rest) = (m1.β 1 l, r) :: pairsA m1 rest := rfl
      rw [hpa] at hsep hnz hE
      obtain ⟨u1, o1, p1, q1⟩ := glue_cons_sep eqV hsep
      have sa' : IsMinOf (Glue (SameCell (g3v m1) m1.n) (pairsA m1 rest)) (m1.β 1 l) v1 :=
        ⟨(p1 v1).2 sv1'.1, fun e he he0 => sv1'.2 e ((p1 e).1 he) he0⟩
      have sb' : IsMinOf (Glue (SameCell (g3v m1) m1.n) (pairsA m1 rest)) r v2 :=
        ⟨(q1 v2).2 sv2'.1, fun e he he0 => sv2'.2 e ((q1 e).1 he) he0⟩
      have inb : InUseD m1 (m1.β 1 l) := ⟨hb1, hbn, hbu⟩
      have val : (s.att 0 (min v1 v2)).isSome = true := embP_old (fun e => u1 e) sa' sb' inb hE
      obtain ⟨s2, hs2, st2, fc2, va, vb, fr⟩ := split_attr_step hc ws hfc hs v1n v2n val
      have hnz' : ∀ d v, InUseD m1 d → Glue (SameCell (g3v m1) m1.n) (pairsA m1 rest) d v → v ≠ 0 :=
        fun d v hu hg => hnz d v hu (Glue.mono (fun x hx => List.mem_cons_of_mem _ hx) hg)
      have E1 : EmbP (Glue (SameCell (g3v m1) m1.n) (pairsA m1 rest)) (InUseD m1) (fun v => s2.att 0 v) :=
        embP_split (glue_equiv _ eqV _) (fun e => u1 e) (fun d' h1 h2 e => o1 d' h1 h2 e) sa' sb' v10 v20
          (fun d v hu hm => hnz' d v hu hm.1) va vb fr hE
      have st02 := st.trans st2
      obtain ⟨s', hrun, st', fc', E'⟩ := ih s2 st02 fc2 (by rw [st2.asz]; exact hs)
        (fun lr hm => hz lr (List.mem_cons_of_mem _ hm)) (List.pairwise_cons.1 hsep).2 hnz' E1
      refine ⟨s', ?_, st', fc', E'⟩
      have ws2 : WF 4 s2 := hw1.sameTopo st02
      have ok2 : s2.okβ 0 l = true := ws2.okβ4 (by omega) (by rw [st02.n]; exact hln)
      unfold threeUnsewLoop
      simp only [Prog.bind_eq, bind]
      rw [run_bind_of_ok hel, run_bind_of_ok her, run_bind_of_ok (splitAttrs_plain hc (by decide) _ _ _ _)]
      simp only [run_rB, oks 1 l (by omega) hln, oks 2 l (by omega) hln, if_true, st.β, hb1, if_false]
      rw [run_bind_of_ok hv1, run_bind_of_ok hv2, run_bind_of_ok hs2,
        run_bind_of_ok (splitAttrs_plain hc (by decide) _ _ _ _)]
      simp only [run_rB, ok2, if_true, st02.β, hb0, if_false]
      exact hrun


theorem mirror_shrink {m m1 : Map X} (hs : Shrink3 m m1) (hM : Mirror m) : Mirror m1 := by
  intro d hd h1 h3 h31
  have e1 : ∀ x, m1.β 1 x = m.β 1 x := fun x => hs.β 1 x (by omega)
  have a3 : m1.β 3 d = m.β 3 d := by
    rcases hs.sub d with k | k
    · exact k
    · exact absurd k h3
  have a31 : m1.β 3 (m1.β 1 d) = m.β 3 (m.β 1 d) := by
    rcases hs.sub (m1.β 1 d) with k | k
    · rw [k, e1]
    · exact absurd k h31
  rw [a31, e1, a3]
  rw [hs.n] at hd
  exact hM d hd (by rw [← e1]; exact h1) (by rw [← a3]; exact h3) (by rw [← a31]; exact h31)

/-- **C05, 3-unsew succeeds on an embedded mesh**.  `ld` is 3-sewn, its face is closed (`Cyc`, of
    least period `L`), the map is well-formed, mirrored, its faces are 3-linked as a whole and not
    to themselves (`Sided3`, `hnsg`: C02b shows the guarded editing API keeps both), and embedded.
    Then `three_unlink` returns `Ok`; and under the property's proviso — no vertex of the unlinked
    map takes part in two of the `L` splits `(β1 l_t, r_t)` — the whole call returns `Ok` and the
    result is again well-formed, mirrored and embedded: every step of the splitting loop finds a
    value under the identifier it splits from (`min` of the two new identifiers = the smallest dart
    of the class still to be split) and leaves the two halves under the two new smallest darts
    (`UnsewnPairs` / `C05_threeUnsew3_cells` describe this run) -/
theorem C05_threeUnsew3_succeeds (cfg : Cfg X) (hc : PlainCfg cfg) (m : Map X) (ld L : Nat) (R : Ready m)
    (hS : Sided3 m) (hl : C02.InUse m ld) (hsewn : m.β 3 ld ≠ 0) (cl : Cyc m 1 ld L)
    (hmin : ∀ t, 0 < t → t < L → it m 1 t ld ≠ ld) (hnsg : ∀ t, it m 1 t ld ≠ m.β 3 ld) :
    ∃ m1, run (threeUnlink3 (X := X) m.n ld) m = (.ok (), m1) ∧
      ((pairsA m (walkPairs m 1 0 L ld (m.β 3 ld))).Pairwise (Far (SameCell (g3v m1) m.n)) →
        ∃ m', run (threeUnsew3 cfg m.n ld) m = (.ok (), m') ∧ Ready m') := by
  obtain ⟨hl0, hln, hlu⟩ := hl
  have hwf := R.wf
  have hM := R.mir
  obtain ⟨m1, hunl⟩ := threeUnlink3_run hwf hM hS hln hsewn cl hmin hnsg
  refine ⟨m1, hunl, fun hfar => ?_⟩
  obtain ⟨L', hne, hL, cl', cr, hminl, hminr, hw1⟩ := threeUnlink3_unlinked_closed hwf hM hln cl.nz hunl
  have hLL : L' = L := by
    rcases Nat.lt_trichotomy L' L with hh | hh | hh
    · exact absurd cl'.per (hmin L' cl'.pos hh)
    · exact hh
    · exact absurd cl.per (hminl L cl.pos hh)
  subst hLL
  have hsh := (threeUnlink3_ok hwf hln hunl).2
  have hrn : m.β 3 ld < m.n := hwf.range 3 (by omega) ld hln
  have d10 : Dir 1 0 := Or.inl ⟨rfl, rfl⟩
  have d01 : Dir 0 1 := Or.inr ⟨rfl, rfl⟩
  have hn1 : m1.n = m.n := hL.n.symm
  have e1 : ∀ x, m1.β 1 x = m.β 1 x := fun x => (hL.other 1 x (by omega)).symm
  have e0 : ∀ x, m1.β 0 x = m.β 0 x := fun x => (hL.other 0 x (by omega)).symm
  have i1 : ∀ t x, it m1 1 t x = it m 1 t x := it_congr e1
  have i0 : ∀ t x, it m1 0 t x = it m 0 t x := it_congr e0
  have wp : walkPairs m1 1 0 L' ld (m.β 3 ld) = walkPairs m 1 0 L' ld (m.β 3 ld) := walkPairs_congr e1 e0 _ _ _
  have cl1 : Cyc m1 1 ld L' := ⟨cl.pos, by rw [i1]; exact cl.per, fun t => by rw [i1]; exact cl.nz t⟩
  have cr1 : Cyc m1 0 (m.β 3 ld) L' := ⟨cr.pos, by rw [i0]; exact cr.per, fun t => by rw [i0]; exact cr.nz t⟩
  have hln1 : ld < m1.n := by rw [hn1]; exact hln
  have hrn1 : m.β 3 ld < m1.n := by rw [hn1]; exact hrn
  have hu1 : ∀ x, m1.unused x = m.unused x := fun x => by unfold Map.unused; rw [hsh.u]
  have hatt : ∀ v, m1.att 0 v = m.att 0 v := fun v => by unfold Map.att; rw [hsh.a]
  -- the face walks of the code
  have o1 := (face_orbit_cycle (X := X) hw1 d10 hl0 hln1 cl1).1
  have o2 := (face_orbit_cycle (X := X) hw1 d01 hne hrn1 cr1).1
  have hzip : ∀ pq, pq ∈ (bfsPure (gIJ m1 1 0) (m1.n + 1) [ld] [0, ld] []).zip
      (bfsPure (gIJ m1 0 1) (m1.n + 1) [m.β 3 ld] [0, m.β 3 ld] []) ↔ pq ∈ walkPairs m 1 0 L' ld (m.β 3 ld) := by
    intro pq
    rw [← wp]
    exact zip_face_walks hw1 hl0 hne hln1 hrn1 cl1 cr1 (fun t h0 ht => by rw [i1]; exact hminl t h0 ht)
      (fun t h0 ht => by rw [i0]; exact hminr t h0 ht) pq
  have hlond : (bfsPure (gIJ m1 1 0) (m1.n + 1) [ld] [0, ld] []).Nodup :=
    (bfsPure_spec (gIJ_null hw1 (i := 1) (j := 0) (by omega) (by omega))
      (gIJ_range hw1 (i := 1) (j := 0) (by omega) (by omega)) hl0 hln1).2.1
  generalize hlo : bfsPure (gIJ m1 1 0) (m1.n + 1) [ld] [0, ld] [] = lo at o1 hzip hlond
  generalize hro : bfsPure (gIJ m1 0 1) (m1.n + 1) [m.β 3 ld] [0, m.β 3 ld] [] = ro at o2 hzip
  have hfo : run (faceOrbits3 (X := X) m1.n ld (m.β 3 ld)) m1 = (.ok (lo, ro), m1) := by
    unfold faceOrbits3
    simp only [Prog.bind_eq, bind]
    rw [run_bind_of_ok o1, run_bind_of_ok o2]
    rfl
  -- the darts of the walk
  have hps : ∀ lr, lr ∈ walkPairs m 1 0 L' ld (m.β 3 ld) →
      lr.1 ≠ 0 ∧ lr.1 < m1.n ∧ lr.2 ≠ 0 ∧ lr.2 < m1.n ∧ m1.β 1 lr.1 ≠ 0 ∧ m1.β 0 lr.1 ≠ 0 ∧
        m1.unused (m1.β 1 lr.1) = false ∧ m1.β 1 lr.2 ≠ 0 := by
    intro lr hm
    obtain ⟨t, ht, rfl⟩ := (mem_walkPairs L' ld _ lr).1 hm
    have hpn : it m 1 t ld < m.n := it_lt hwf (i := 1) (by omega) t ld hln
    have hqn : it m 0 t (m.β 3 ld) < m.n := it_lt hwf (i := 0) (by omega) t _ hrn
    have hb : m.β 1 (it m 1 t ld) ≠ 0 := by rw [← it_succ']; exact cl.nz _
    refine ⟨cl.nz t, by rw [hn1]; exact hpn, cr.nz t, by rw [hn1]; exact hqn, ?_, ?_, ?_, ?_⟩
    · show m1.β 1 (it m 1 t ld) ≠ 0
      rw [e1]; exact hb
    · show m1.β 0 (it m 1 t ld) ≠ 0
      rw [e0, cl.pred hwf d10 hln t]; exact cl.nz _
    · show m1.unused (m1.β 1 (it m 1 t ld)) = false
      rw [hu1, e1]; exact (hwf.image_inUse (i := 1) (by omega) hpn hb).2
    · show m1.β 1 (it m 0 t (m.β 3 ld)) ≠ 0
      rw [e1, cr.pred hwf d01 hrn t]; exact cr.nz _
  have pa : ∀ ps, pairsA m1 ps = pairsA m ps := by
    intro ps; unfold pairsA; simp only [e1]
  have hverts : ∀ d e, SameCell (g3v m) m1.n d e ↔
      Glue (SameCell (g3v m1) m1.n) (pairsA m1 (lo.zip ro)) d e := by
    intro d e
    have := vertex_cells_linked3 hw1 hwf hL (fun pq hm => ⟨(hps pq hm).2.2.2.2.1, (hps pq hm).2.2.2.2.2.2.2⟩) d e
    rw [hn1]
    rw [hn1] at this
    rw [this]
    have hcl := fun x => pairsV3_closed hw1 hln1 hrn1 cl1 cr1 x
    rw [wp, pa] at hcl
    have hmemA : ∀ x, x ∈ pairsA m (walkPairs m 1 0 L' ld (m.β 3 ld)) ↔ x ∈ pairsA m1 (lo.zip ro) := by
      intro x
      rw [pa]
      unfold pairsA
      simp only [List.mem_map]
      constructor
      · rintro ⟨y, hy, rfl⟩; exact ⟨y, (hzip y).2 hy, rfl⟩
      · rintro ⟨y, hy, rfl⟩; exact ⟨y, (hzip y).1 hy, rfl⟩
    constructor
    · exact Glue.mono fun x hx => (hmemA x).1 ((hcl x).1 hx)
    · exact Glue.mono fun x hx => (hcl x).2 ((hmemA x).2 hx)
  -- the proviso, in the order of the zipped walks
  have eqV := sameCell_equiv (g3v m1) m1.n
  rw [← hn1] at hfar
  have hsep : (pairsA m1 (lo.zip ro)).Pairwise (Far (SameCell (g3v m1) m1.n)) := by
    unfold pairsA
    rw [List.pairwise_map]
    refine List.Pairwise.imp_of_mem (fun {x y} hx hy hxy => ?_) (zip_pairwise_fst hlond)
    have hx' := (hzip x).1 hx
    have hy' := (hzip y).1 hy
    have mx : (m.β 1 x.1, x.2) ∈ pairsA m (walkPairs m 1 0 L' ld (m.β 3 ld)) := List.mem_map.2 ⟨x, hx', rfl⟩
    have my : (m.β 1 y.1, y.2) ∈ pairsA m (walkPairs m 1 0 L' ld (m.β 3 ld)) := List.mem_map.2 ⟨y, hy', rfl⟩
    rw [e1, e1]
    rcases pairwise_mem hfar mx my with k | k | k
    · exfalso
      have e : m.β 1 x.1 = m.β 1 y.1 := (Prod.mk.inj k).1
      have a := hwf.inv01 x.1 (by rw [← hn1]; exact (hps x hx').2.1) (by rw [← e1]; exact (hps x hx').2.2.2.2.1)
      have b := hwf.inv01 y.1 (by rw [← hn1]; exact (hps y hy').2.1) (by rw [← e1]; exact (hps y hy').2.2.2.2.1)
      rw [e, b] at a
      exact hxy a.symm
    · exact k
    · exact k.symm eqV
  have inu : ∀ d, InUseD m1 d → d ≠ 0 ∧ d < m.n ∧ m.unused d = false :=
    fun d hu => ⟨hu.1, by rw [← hn1]; exact hu.2.1, by rw [← hu1]; exact hu.2.2⟩
  have hnz : ∀ d v, InUseD m1 d → Glue (SameCell (g3v m1) m1.n) (pairsA m1 (lo.zip ro)) d v → v ≠ 0 := by
    intro d v hu hg
    have := (hverts d v).2 hg
    rw [hn1] at this
    exact (sameCell_ne_zero hwf (inu d hu).1 (inu d hu).2.1 this).1
  have hE : EmbP (Glue (SameCell (g3v m1) m1.n) (pairsA m1 (lo.zip ro))) (InUseD m1) (fun v => m1.att 0 v) := by
    intro d v hu hmin
    show (m1.att 0 v).isSome = true
    rw [hatt]
    refine R.emb d v (inu d hu).1 (inu d hu).2.1 (inu d hu).2.2 ?_
    unfold IsVid3
    rw [← hn1]
    exact ⟨(hverts d v).2 hmin.1, fun e he he0 => hmin.2 e ((hverts d e).1 he) he0⟩
  obtain ⟨s', hrun, st', fc', E'⟩ := unsewLoop_run hc hw1 (lo.zip ro) m1 (SameTopo.refl m1)
    (by rw [hsh.fc]; exact R.fc) (by rw [hsh.a]; exact R.st0)
    (fun lr hm => by
      obtain ⟨a1, a2, a3, a4, a5, a6, a7, _⟩ := hps lr ((hzip lr).1 hm)
      exact ⟨a1, a2, a3, a4, a5, a6, a7⟩) hsep hnz hE
  have hM1 : Mirror m1 := mirror_shrink hsh hM
  refine ⟨s', ?_, hw1.sameTopo st', st'.mirror hM1, fc', by rw [st'.asz, hsh.a]; exact R.st0, ?_⟩
  · rw [← hn1]
    rw [← hn1] at hunl
    unfold threeUnsew3
    simp only [Prog.bind_eq, bind, run_rB, hwf.okβ4 (i := 3) (by omega) hln, if_true]
    rw [run_bind_of_ok hunl, run_bind_of_ok hfo]
    simp only []
    rw [run_bind_of_ok (splitAttrs_plain hc (by decide) _ _ _ _)]
    exact hrun
  · intro d' v hd0 hd hu hvv
    have hvv1 : IsVid3 m1 d' v := (isVid3_sameTopo st' d' v).1 hvv
    refine E' d' v ⟨hd0, by rw [← st'.n]; exact hd, by rw [← st'.unused]; exact hu⟩ ?_
    unfold IsVid3 at hvv1
    exact ⟨.base hvv1.1, fun e he he0 => hvv1.2 e ((glue_nil eqV _ _).1 he) he0⟩


/-! ## the open-face arms of the 2-sew / 2-unsew at cell level

  Outside the property's scope (closed faces), for completeness, mirroring Props/C04Cells2.lean.
  The general vertex partition is `Glue … (pairsV2 m l r)` (`vertex_cells_link2`): a dart without a
  successor contributes the pair with its β3 image instead (`headV`).  When the open dart is also
  3-free the pair disappears and the code's merges are exactly the unions of cells.  (When an open
  dart IS 3-linked, the 2-link unites two vertex cells more than the code merges: stated in the
  partition, no claim on the data.) -/

theorem pairsV2_free {m : Map X} {l r : Nat} (hbl : m.β 1 l = 0) (hbr : m.β 1 r = 0) (h3l : m.β 3 l = 0)
    (h3r : m.β 3 r = 0) : pairsV2 m l r = [] := by
  unfold pairsV2 headV; simp [hbl, hbr, h3l, h3r]

theorem pairsV2_left {m : Map X} {l r : Nat} (hbl : m.β 1 l = 0) (hbr : m.β 1 r ≠ 0) (h3l : m.β 3 l = 0) :
    pairsV2 m l r = [(l, m.β 1 r)] := by
  unfold pairsV2 headV; simp [hbl, hbr, h3l]

theorem pairsV2_right {m : Map X} {l r : Nat} (hbl : m.β 1 l ≠ 0) (hbr : m.β 1 r = 0) (h3r : m.β 3 r = 0) :
    pairsV2 m l r = [(r, m.β 1 l)] := by
  unfold pairsV2 headV; simp [hbl, hbr, h3r]

/-- the identifier of the edge made by a 2-link is the smaller of the two old identifiers -/
theorem eid_link2_min {m : Map X} (hwf : WF 4 m) {l r el er en : Nat} (hl0 : l ≠ 0) (hr0 : r ≠ 0) (hlr : l ≠ r)
    (hln : l < m.n) (hrn : r < m.n) (hlu : m.unused l = false) (hru : m.unused r = false)
    (h2l : m.β 2 l = 0) (h2r : m.β 2 r = 0)
    (s_el : IsEid3 m l el) (s_er : IsEid3 m r er) (s_en : IsEid3 (m.linkI 2 l r) l en) : en = min el er := by
  have hwf1 : WF 4 (m.linkI 2 l r) := hwf.linkI (by omega) (by omega) hl0 hr0 hlr hln hrn hlu hru h2l h2r
  have hn1 : (m.linkI 2 l r).n = m.n := rfl
  have he := edge_cells_link2 hwf hl0 hr0 hlr hln hrn h2l h2r
  have eqE := sameCell_equiv (g3e m) m.n
  have hG : ∀ e, SameCell (g3e (m.linkI 2 l r)) m.n l e ↔
      (SameCell (g3e m) m.n l e ∨ SameCell (g3e m) m.n r e) := by
    intro e
    rw [he]
    exact glue_sep_pair eqE (ps := [(l, r)]) (by simp) (pq := (l, r)) (by simp) e
  have hu := isMinOf_union hG s_el s_er
  have e0 : en ≠ 0 := sameCellE_ne_zero hwf1 hl0 (by rw [hn1]; exact hln) s_en.1
  have a0 := sameCellE_ne_zero hwf hl0 hln s_el.1
  have b0 := sameCellE_ne_zero hwf hr0 hrn s_er.1
  exact IsMinOf.unique s_en hu e0 (by omega)

/-- **C05, 2-sew at cell level, neither dart has a successor**: only the edge storages merge
    `(el, er)` into `min el er`, the identifier of the new edge; no vertex value moves.  The vertex
    partition is unchanged when both darts are 3-free -/
theorem C05_twoSew3_cells_free (cfg : Cfg X) (n : Nat) (m m' : Map X) (l r : Nat) (u : Unit)
    (hwf : WF 4 m) (hl : C02.InUse m l) (hr : C02.InUse m r) (hlr : l ≠ r) (hfc : m.fc = 0)
    (hbl : m.β 1 l = 0) (hbr : m.β 1 r = 0)
    (h : run (twoSew3 cfg n l r) m = (.ok u, m')) :
    WF 4 (m.linkI 2 l r) ∧ SameTopo (m.linkI 2 l r) m' ∧
    (∀ d e, SameCell (g3v (m.linkI 2 l r)) m.n d e ↔ Glue (SameCell (g3v m) m.n) (pairsV2 m l r) d e) ∧
    (m.β 3 l = 0 → m.β 3 r = 0 →
      ∀ d e, SameCell (g3v (m.linkI 2 l r)) m.n d e ↔ SameCell (g3v m) m.n d e) ∧
    (∀ d e, SameCell (g3e (m.linkI 2 l r)) m.n d e ↔ Glue (SameCell (g3e m) m.n) [(l, r)] d e) ∧
    ∃ el er en, IsEid3 m l el ∧ IsEid3 m r er ∧ IsEid3 (m.linkI 2 l r) l en ∧ en = min el er ∧
      MergedIn cfg (eStores cfg) en el er (m.linkI 2 l r) m' := by
  obtain ⟨hl0, hln, hlu⟩ := hl
  obtain ⟨hr0, hrn, hru⟩ := hr
  obtain ⟨el, er, m1, en, hel, her, hlink, hen, hE⟩ := C05_twoSew3_free cfg n l r m m' u hfc hbl hbr h
  obtain ⟨_, _, h2l, h2r, hm1⟩ := iLinkCore_ok hlink
  have hm1' : m1 = m.linkI 2 l r := hm1
  subst hm1'
  have hwf1 : WF 4 (m.linkI 2 l r) := hwf.linkI (by omega) (by omega) hl0 hr0 hlr hln hrn hlu hru h2l h2r
  have hn1 : (m.linkI 2 l r).n = m.n := rfl
  have hv := vertex_cells_link2 hwf hl0 hr0 hlr hln hrn hlu hru h2l h2r
  have s_el := (edgeId3_spec hwf hl0 hln hel).2
  have s_er := (edgeId3_spec hwf hr0 hrn her).2
  have s_en := (edgeId3_spec hwf1 hl0 (by rw [hn1]; exact hln) hen).2
  refine ⟨hwf1, hE.topo, hv, ?_, edge_cells_link2 hwf hl0 hr0 hlr hln hrn h2l h2r, el, er, en, s_el, s_er, s_en,
    eid_link2_min hwf hl0 hr0 hlr hln hrn hlu hru h2l h2r s_el s_er s_en, hE⟩
  intro h3l h3r d e
  rw [hv, pairsV2_free hbl hbr h3l h3r]
  exact glue_nil (sameCell_equiv (g3v m) m.n) d e

/-- **C05, 2-sew at cell level, only `r` has a successor**: the vertex values of `l` and `β1 r`
    are merged under the new vertex identifier of `l`; when `l` is 3-free the cells of `l` and
    `β1 r` are united, nothing else changes, and that identifier is the smaller of the two old ones -/
theorem C05_twoSew3_cells_left (cfg : Cfg X) (n : Nat) (m m' : Map X) (l r : Nat) (u : Unit)
    (hwf : WF 4 m) (hl : C02.InUse m l) (hr : C02.InUse m r) (hlr : l ≠ r) (hfc : m.fc = 0)
    (hbl : m.β 1 l = 0) (hbr : m.β 1 r ≠ 0)
    (h : run (twoSew3 cfg n l r) m = (.ok u, m')) :
    WF 4 (m.linkI 2 l r) ∧ SameTopo (m.linkI 2 l r) m' ∧
    (∀ d e, SameCell (g3v (m.linkI 2 l r)) m.n d e ↔ Glue (SameCell (g3v m) m.n) (pairsV2 m l r) d e) ∧
    (∀ d e, SameCell (g3e (m.linkI 2 l r)) m.n d e ↔ Glue (SameCell (g3e m) m.n) [(l, r)] d e) ∧
    ∃ el er lv b1rv lvn en ma, IsEid3 m l el ∧ IsEid3 m r er ∧ IsVid3 m l lv ∧ IsVid3 m (m.β 1 r) b1rv ∧
      IsVid3 (m.linkI 2 l r) l lvn ∧ IsEid3 (m.linkI 2 l r) l en ∧ en = min el er ∧
      (m.β 3 l = 0 →
        (∀ d e, SameCell (g3v (m.linkI 2 l r)) m.n d e ↔ Glue (SameCell (g3v m) m.n) [(l, m.β 1 r)] d e) ∧
        lvn = min lv b1rv) ∧
      MergedIn cfg (vStores cfg) lvn lv b1rv (m.linkI 2 l r) ma ∧ MergedIn cfg (eStores cfg) en el er ma m' := by
  obtain ⟨hl0, hln, hlu⟩ := hl
  obtain ⟨hr0, hrn, hru⟩ := hr
  have han : m.β 1 r < m.n := hwf.range 1 (by omega) r hrn
  obtain ⟨el, er, lv, b1rv, m1, lvn, en, ma, hel, her, hlv, hb1rv, hlink, hlvn, hen, hV, hE⟩ :=
    C05_twoSew3_left cfg n l r m m' u hfc hbl hbr h
  obtain ⟨_, _, h2l, h2r, hm1⟩ := iLinkCore_ok hlink
  have hm1' : m1 = m.linkI 2 l r := hm1
  subst hm1'
  have hwf1 : WF 4 (m.linkI 2 l r) := hwf.linkI (by omega) (by omega) hl0 hr0 hlr hln hrn hlu hru h2l h2r
  have hn1 : (m.linkI 2 l r).n = m.n := rfl
  have hv := vertex_cells_link2 hwf hl0 hr0 hlr hln hrn hlu hru h2l h2r
  have s_el := (edgeId3_spec hwf hl0 hln hel).2
  have s_er := (edgeId3_spec hwf hr0 hrn her).2
  have s_en := (edgeId3_spec hwf1 hl0 (by rw [hn1]; exact hln) hen).2
  have s_lv := (vertexId3_spec hwf hl0 hln hlv).2
  have s_b1rv := (vertexId3_spec hwf hbr han hb1rv).2
  have s_lvn := (vertexId3_spec hwf1 hl0 (by rw [hn1]; exact hln) hlvn).2
  refine ⟨hwf1, hV.topo.trans hE.topo, hv, edge_cells_link2 hwf hl0 hr0 hlr hln hrn h2l h2r, el, er, lv, b1rv, lvn, en,
    ma, s_el, s_er, s_lv, s_b1rv, s_lvn, s_en,
    eid_link2_min hwf hl0 hr0 hlr hln hrn hlu hru h2l h2r s_el s_er s_en, ?_, hV, hE⟩
  intro h3l
  have hv' : ∀ d e, SameCell (g3v (m.linkI 2 l r)) m.n d e ↔ Glue (SameCell (g3v m) m.n) [(l, m.β 1 r)] d e := by
    intro d e; rw [hv, pairsV2_left hbl hbr h3l]
  refine ⟨hv', ?_⟩
  have eqV := sameCell_equiv (g3v m) m.n
  have hG : ∀ e, SameCell (g3v (m.linkI 2 l r)) m.n l e ↔
      (SameCell (g3v m) m.n l e ∨ SameCell (g3v m) m.n (m.β 1 r) e) := by
    intro e; rw [hv']
    exact glue_sep_pair eqV (ps := [(l, m.β 1 r)]) (by simp) (pq := (l, m.β 1 r)) (by simp) e
  have u1 := isMinOf_union hG s_lv s_b1rv
  have z1 := s_lvn.ne_zero hwf1 hl0 (by rw [hn1]; exact hln)
  have z2 := s_lv.ne_zero hwf hl0 hln
  have z3 := s_b1rv.ne_zero hwf hbr han
  exact IsMinOf.unique s_lvn u1 z1 (by omega)

/-- **C05, 2-sew at cell level, only `l` has a successor** (mirror case) -/
theorem C05_twoSew3_cells_right (cfg : Cfg X) (n : Nat) (m m' : Map X) (l r : Nat) (u : Unit)
    (hwf : WF 4 m) (hl : C02.InUse m l) (hr : C02.InUse m r) (hlr : l ≠ r) (hfc : m.fc = 0)
    (hbl : m.β 1 l ≠ 0) (hbr : m.β 1 r = 0)
    (h : run (twoSew3 cfg n l r) m = (.ok u, m')) :
    WF 4 (m.linkI 2 l r) ∧ SameTopo (m.linkI 2 l r) m' ∧
    (∀ d e, SameCell (g3v (m.linkI 2 l r)) m.n d e ↔ Glue (SameCell (g3v m) m.n) (pairsV2 m l r) d e) ∧
    (∀ d e, SameCell (g3e (m.linkI 2 l r)) m.n d e ↔ Glue (SameCell (g3e m) m.n) [(l, r)] d e) ∧
    ∃ el er b1lv rv rvn en ma, IsEid3 m l el ∧ IsEid3 m r er ∧ IsVid3 m (m.β 1 l) b1lv ∧ IsVid3 m r rv ∧
      IsVid3 (m.linkI 2 l r) r rvn ∧ IsEid3 (m.linkI 2 l r) l en ∧ en = min el er ∧
      (m.β 3 r = 0 →
        (∀ d e, SameCell (g3v (m.linkI 2 l r)) m.n d e ↔ Glue (SameCell (g3v m) m.n) [(r, m.β 1 l)] d e) ∧
        rvn = min b1lv rv) ∧
      MergedIn cfg (vStores cfg) rvn b1lv rv (m.linkI 2 l r) ma ∧ MergedIn cfg (eStores cfg) en el er ma m' := by
  obtain ⟨hl0, hln, hlu⟩ := hl
  obtain ⟨hr0, hrn, hru⟩ := hr
  have hbn : m.β 1 l < m.n := hwf.range 1 (by omega) l hln
  obtain ⟨el, er, b1lv, rv, m1, rvn, en, ma, hel, her, hb1lv, hrv, hlink, hrvn, hen, hV, hE⟩ :=
    C05_twoSew3_right cfg n l r m m' u hfc hbl hbr h
  obtain ⟨_, _, h2l, h2r, hm1⟩ := iLinkCore_ok hlink
  have hm1' : m1 = m.linkI 2 l r := hm1
  subst hm1'
  have hwf1 : WF 4 (m.linkI 2 l r) := hwf.linkI (by omega) (by omega) hl0 hr0 hlr hln hrn hlu hru h2l h2r
  have hn1 : (m.linkI 2 l r).n = m.n := rfl
  have hv := vertex_cells_link2 hwf hl0 hr0 hlr hln hrn hlu hru h2l h2r
  have s_el := (edgeId3_spec hwf hl0 hln hel).2
  have s_er := (edgeId3_spec hwf hr0 hrn her).2
  have s_en := (edgeId3_spec hwf1 hl0 (by rw [hn1]; exact hln) hen).2
  have s_b1lv := (vertexId3_spec hwf hbl hbn hb1lv).2
  have s_rv := (vertexId3_spec hwf hr0 hrn hrv).2
  have s_rvn := (vertexId3_spec hwf1 hr0 (by rw [hn1]; exact hrn) hrvn).2
  refine ⟨hwf1, hV.topo.trans hE.topo, hv, edge_cells_link2 hwf hl0 hr0 hlr hln hrn h2l h2r, el, er, b1lv, rv, rvn, en,
    ma, s_el, s_er, s_b1lv, s_rv, s_rvn, s_en,
    eid_link2_min hwf hl0 hr0 hlr hln hrn hlu hru h2l h2r s_el s_er s_en, ?_, hV, hE⟩
  intro h3r
  have hv' : ∀ d e, SameCell (g3v (m.linkI 2 l r)) m.n d e ↔ Glue (SameCell (g3v m) m.n) [(r, m.β 1 l)] d e := by
    intro d e; rw [hv, pairsV2_right hbl hbr h3r]
  refine ⟨hv', ?_⟩
  have eqV := sameCell_equiv (g3v m) m.n
  have hG : ∀ e, SameCell (g3v (m.linkI 2 l r)) m.n r e ↔
      (SameCell (g3v m) m.n r e ∨ SameCell (g3v m) m.n (m.β 1 l) e) := by
    intro e; rw [hv']
    exact glue_sep_pair eqV (ps := [(r, m.β 1 l)]) (by simp) (pq := (r, m.β 1 l)) (by simp) e
  have u1 := isMinOf_union hG s_rv s_b1lv
  have z1 := s_rvn.ne_zero hwf1 hr0 (by rw [hn1]; exact hrn)
  have z2 := s_rv.ne_zero hwf hr0 hrn
  have z3 := s_b1lv.ne_zero hwf hbl hbn
  rw [Nat.min_comm]
  exact IsMinOf.unique s_rvn u1 z1 (by omega)


/-- what every arm of the 2-unsew shares: the 2-unlink, the partitions read backwards, the edge split -/
theorem twoUnsew3_common (cfg : Cfg X) (n : Nat) (m m' : Map X) (l : Nat) (u : Unit)
    (hwf : WF 4 m) (hl : C02.InUse m l) (hfc : m.fc = 0)
    (h : run (twoUnsew3 cfg n l) m = (.ok u, m')) :
    m.β 2 l ≠ 0 ∧ WF 4 (m.unlinkI 2 l) ∧ SameTopo (m.unlinkI 2 l) m' ∧
    (∀ d e, SameCell (g3v m) m.n d e ↔
      Glue (SameCell (g3v (m.unlinkI 2 l)) m.n) (pairsV2 (m.unlinkI 2 l) l (m.β 2 l)) d e) ∧
    (∀ d e, SameCell (g3e m) m.n d e ↔ Glue (SameCell (g3e (m.unlinkI 2 l)) m.n) [(l, m.β 2 l)] d e) ∧
    ∃ eold enl enr me, IsEid3 m l eold ∧ IsEid3 (m.unlinkI 2 l) l enl ∧ IsEid3 (m.unlinkI 2 l) (m.β 2 l) enr ∧
      eold = min enl enr ∧ SplitIn cfg (eStores cfg) enl enr eold (m.unlinkI 2 l) me ∧
      ((m.β 1 l = 0 ∧ m.β 1 (m.β 2 l) = 0 ∧ m' = me) ∨
       (m.β 1 l = 0 ∧ m.β 1 (m.β 2 l) ≠ 0 ∧ ∃ lvold a b,
          IsVid3 m l lvold ∧ IsVid3 (m.unlinkI 2 l) l a ∧ IsVid3 (m.unlinkI 2 l) (m.β 1 (m.β 2 l)) b ∧
          SplitIn cfg (vStores cfg) a b lvold me m') ∨
       (m.β 1 l ≠ 0 ∧ m.β 1 (m.β 2 l) = 0 ∧ ∃ rvold a b,
          IsVid3 m (m.β 2 l) rvold ∧ IsVid3 (m.unlinkI 2 l) (m.β 1 l) a ∧ IsVid3 (m.unlinkI 2 l) (m.β 2 l) b ∧
          SplitIn cfg (vStores cfg) a b rvold me m') ∨
       (m.β 1 l ≠ 0 ∧ m.β 1 (m.β 2 l) ≠ 0)) := by
  obtain ⟨hl0, hln, hlu⟩ := hl
  obtain ⟨eold, m1, enl, enr, me, he, hunl, henl, henr, hE, htopo, hcase⟩ :=
    C05_twoUnsew3_effect cfg n l m m' u hfc h
  obtain ⟨_, _, hne, hm1⟩ := iUnlinkCore_ok hunl
  have hm1' : m1 = m.unlinkI 2 l := hm1
  subst hm1'
  have ir := hwf.image_inUse (i := 2) (by omega) hln hne
  have hrn := ir.1
  have hwf1 : WF 4 (m.unlinkI 2 l) := hwf.unlinkI (by omega) (by omega) hln hne
  have hn1 : (m.unlinkI 2 l).n = m.n := rfl
  have hinv := hwf.invol 2 (by omega) (by omega) l hln hne
  have hlr : l ≠ m.β 2 l := fun hh => hinv.2 hh.symm
  have eβ := hwf.toSized.β_unlinkI (i := 2) (by omega) hln hrn
  have h2l' : (m.unlinkI 2 l).β 2 l = 0 := by rw [eβ]; simp
  have h2r' : (m.unlinkI 2 l).β 2 (m.β 2 l) = 0 := by rw [eβ]; simp
  have hu : ∀ e, (m.unlinkI 2 l).unused e = m.unused e := fun _ => rfl
  have han : m.β 1 (m.β 2 l) < m.n := hwf.range 1 (by omega) _ hrn
  have hbn : m.β 1 l < m.n := hwf.range 1 (by omega) l hln
  have hβ := relink2_β hwf hln hne
  have hv : ∀ d e, SameCell (g3v m) m.n d e ↔
      Glue (SameCell (g3v (m.unlinkI 2 l)) m.n) (pairsV2 (m.unlinkI 2 l) l (m.β 2 l)) d e := by
    intro d e
    rw [← sameCell_of_β_eq hβ m.n d e]
    exact vertex_cells_link2 hwf1 (l := l) (r := m.β 2 l) hl0 hne hlr hln hrn
      (by rw [hu]; exact hlu) (by rw [hu]; exact ir.2) h2l' h2r' d e
  have hee : ∀ d e, SameCell (g3e m) m.n d e ↔ Glue (SameCell (g3e (m.unlinkI 2 l)) m.n) [(l, m.β 2 l)] d e := by
    intro d e
    rw [← g3e_congr hβ]
    exact edge_cells_link2 hwf1 (l := l) (r := m.β 2 l) hl0 hne hlr hln hrn h2l' h2r' d e
  have ste : SameTopo (m.unlinkI 2 l) me := hE.topo
  have hwfe : WF 4 me := hwf1.sameTopo ste
  have hne' : me.n = m.n := ste.n
  have s_eold := (edgeId3_spec hwf hl0 hln he).2
  have s_enl := (edgeId3_spec hwf1 hl0 (by rw [hn1]; exact hln) henl).2
  have s_enr := (edgeId3_spec hwf1 hne (by rw [hn1]; exact hrn) henr).2
  have eqE := sameCell_equiv (g3e (m.unlinkI 2 l)) m.n
  have hold : eold = min enl enr := by
    have hG : ∀ e, SameCell (g3e m) m.n l e ↔
        (SameCell (g3e (m.unlinkI 2 l)) m.n l e ∨ SameCell (g3e (m.unlinkI 2 l)) m.n (m.β 2 l) e) := by
      intro e
      rw [hee]
      exact glue_sep_pair eqE (ps := [(l, m.β 2 l)]) (by simp) (pq := (l, m.β 2 l)) (by simp) e
    have hu := isMinOf_union (G := SameCell (g3e m) m.n) hG s_enl s_enr
    have e0 := sameCellE_ne_zero hwf hl0 hln s_eold.1
    have a0 := sameCellE_ne_zero hwf1 hl0 (by rw [hn1]; exact hln) s_enl.1
    have b0 := sameCellE_ne_zero hwf1 hne (by rw [hn1]; exact hrn) s_enr.1
    exact IsMinOf.unique s_eold hu e0 (by omega)
  refine ⟨hne, hwf1, htopo, hv, hee, eold, enl, enr, me, s_eold, s_enl, s_enr, hold, hE, ?_⟩
  rcases hcase with ⟨c1, c2, c3⟩ | ⟨c1, c2, lvold, a, b, hlv, ha, hb, hS⟩ | ⟨c1, c2, rvold, a, b, hrv, ha, hb, hS⟩ |
      ⟨c1, c2, _⟩
  · exact Or.inl ⟨c1, c2, c3⟩
  · refine Or.inr (Or.inl ⟨c1, c2, lvold, a, b, (vertexId3_spec hwf hl0 hln hlv).2, ?_, ?_, hS⟩)
    · exact (isVid3_sameTopo ste _ _).1 (vertexId3_spec hwfe hl0 (by rw [hne']; exact hln) ha).2
    · exact (isVid3_sameTopo ste _ _).1 (vertexId3_spec hwfe c2 (by rw [hne']; exact han) hb).2
  · refine Or.inr (Or.inr (Or.inl ⟨c1, c2, rvold, a, b, (vertexId3_spec hwf hne hrn hrv).2, ?_, ?_, hS⟩))
    · exact (isVid3_sameTopo ste _ _).1 (vertexId3_spec hwfe c1 (by rw [hne']; exact hbn) ha).2
    · exact (isVid3_sameTopo ste _ _).1 (vertexId3_spec hwfe hne (by rw [hne']; exact hrn) hb).2
  · exact Or.inr (Or.inr (Or.inr ⟨c1, c2⟩))

/-- **C05, 2-unsew at cell level, neither dart has a successor**: only the edge storages split
    `min enl enr` — the old edge identifier — between the two new edge identifiers; the vertex
    partition is unchanged when both darts are 3-free -/
theorem C05_twoUnsew3_cells_free (cfg : Cfg X) (n : Nat) (m m' : Map X) (l : Nat) (u : Unit)
    (hwf : WF 4 m) (hl : C02.InUse m l) (hfc : m.fc = 0)
    (hbl : m.β 1 l = 0) (hbr : m.β 1 (m.β 2 l) = 0)
    (h : run (twoUnsew3 cfg n l) m = (.ok u, m')) :
    m.β 2 l ≠ 0 ∧ WF 4 (m.unlinkI 2 l) ∧ SameTopo (m.unlinkI 2 l) m' ∧
    (m.β 3 l = 0 → m.β 3 (m.β 2 l) = 0 →
      ∀ d e, SameCell (g3v m) m.n d e ↔ SameCell (g3v (m.unlinkI 2 l)) m.n d e) ∧
    (∀ d e, SameCell (g3e m) m.n d e ↔ Glue (SameCell (g3e (m.unlinkI 2 l)) m.n) [(l, m.β 2 l)] d e) ∧
    ∃ eold enl enr, IsEid3 m l eold ∧ IsEid3 (m.unlinkI 2 l) l enl ∧ IsEid3 (m.unlinkI 2 l) (m.β 2 l) enr ∧
      eold = min enl enr ∧ SplitIn cfg (eStores cfg) enl enr eold (m.unlinkI 2 l) m' := by
  obtain ⟨hne, hwf1, htopo, hv, hee, eold, enl, enr, me, s1, s2, s3, hold, hE, hcase⟩ :=
    twoUnsew3_common cfg n m m' l u hwf hl hfc h
  have hrn := hwf.range 2 (by omega) l hl.2.1
  have eβ := hwf.toSized.β_unlinkI (i := 2) (by omega) hl.2.1 hrn
  have h1 : ∀ e, (m.unlinkI 2 l).β 1 e = m.β 1 e := by intro e; rw [eβ]; simp
  have h3 : ∀ e, (m.unlinkI 2 l).β 3 e = m.β 3 e := by intro e; rw [eβ]; simp
  have hme : m' = me := by
    rcases hcase with ⟨_, _, c⟩ | ⟨_, c, _⟩ | ⟨c, _⟩ | ⟨c, _⟩
    · exact c
    · exact absurd hbr c
    · exact absurd hbl c
    · exact absurd hbl c
  subst hme
  refine ⟨hne, hwf1, htopo, ?_, hee, eold, enl, enr, s1, s2, s3, hold, hE⟩
  intro h3l h3r d e
  rw [hv, pairsV2_free (by rw [h1]; exact hbl) (by rw [h1]; exact hbr) (by rw [h3]; exact h3l)
    (by rw [h3]; exact h3r)]
  exact glue_nil (sameCell_equiv (g3v (m.unlinkI 2 l)) m.n) d e

/-- **C05, 2-unsew at cell level, only `r = β2 l` has a successor**: the old vertex value of `l`
    is split between the new identifiers of `l` and of `β1 r`; when `l` is 3-free the old cell of
    `l` is the union of these two cells and its identifier the smaller of the two -/
theorem C05_twoUnsew3_cells_left (cfg : Cfg X) (n : Nat) (m m' : Map X) (l : Nat) (u : Unit)
    (hwf : WF 4 m) (hl : C02.InUse m l) (hfc : m.fc = 0)
    (hbl : m.β 1 l = 0) (hbr : m.β 1 (m.β 2 l) ≠ 0)
    (h : run (twoUnsew3 cfg n l) m = (.ok u, m')) :
    m.β 2 l ≠ 0 ∧ WF 4 (m.unlinkI 2 l) ∧ SameTopo (m.unlinkI 2 l) m' ∧
    (∀ d e, SameCell (g3e m) m.n d e ↔ Glue (SameCell (g3e (m.unlinkI 2 l)) m.n) [(l, m.β 2 l)] d e) ∧
    ∃ eold enl enr lvold a b me, IsEid3 m l eold ∧ IsEid3 (m.unlinkI 2 l) l enl ∧
      IsEid3 (m.unlinkI 2 l) (m.β 2 l) enr ∧ eold = min enl enr ∧
      IsVid3 m l lvold ∧ IsVid3 (m.unlinkI 2 l) l a ∧ IsVid3 (m.unlinkI 2 l) (m.β 1 (m.β 2 l)) b ∧
      (m.β 3 l = 0 →
        (∀ d e, SameCell (g3v m) m.n d e ↔
          Glue (SameCell (g3v (m.unlinkI 2 l)) m.n) [(l, m.β 1 (m.β 2 l))] d e) ∧ lvold = min a b) ∧
      SplitIn cfg (eStores cfg) enl enr eold (m.unlinkI 2 l) me ∧ SplitIn cfg (vStores cfg) a b lvold me m' := by
  obtain ⟨hne, hwf1, htopo, hv, hee, eold, enl, enr, me, s1, s2, s3, hold, hE, hcase⟩ :=
    twoUnsew3_common cfg n m m' l u hwf hl hfc h
  obtain ⟨hl0, hln, hlu⟩ := hl
  have hrn := hwf.range 2 (by omega) l hln
  have han : m.β 1 (m.β 2 l) < m.n := hwf.range 1 (by omega) _ hrn
  have hn1 : (m.unlinkI 2 l).n = m.n := rfl
  have eβ := hwf.toSized.β_unlinkI (i := 2) (by omega) hln hrn
  have h1 : ∀ e, (m.unlinkI 2 l).β 1 e = m.β 1 e := by intro e; rw [eβ]; simp
  have h3 : ∀ e, (m.unlinkI 2 l).β 3 e = m.β 3 e := by intro e; rw [eβ]; simp
  rcases hcase with ⟨_, c, _⟩ | ⟨_, _, lvold, a, b, sl, sa, sb, hS⟩ | ⟨c, _⟩ | ⟨c, _⟩
  · exact absurd c hbr
  · refine ⟨hne, hwf1, htopo, hee, eold, enl, enr, lvold, a, b, me, s1, s2, s3, hold, sl, sa, sb, ?_, hE, hS⟩
    intro h3l
    have hv' : ∀ d e, SameCell (g3v m) m.n d e ↔
        Glue (SameCell (g3v (m.unlinkI 2 l)) m.n) [(l, m.β 1 (m.β 2 l))] d e := by
      intro d e
      rw [hv, pairsV2_left (by rw [h1]; exact hbl) (by rw [h1]; exact hbr) (by rw [h3]; exact h3l), h1]
    refine ⟨hv', ?_⟩
    have eqV := sameCell_equiv (g3v (m.unlinkI 2 l)) m.n
    have hG : ∀ e, SameCell (g3v m) m.n l e ↔ (SameCell (g3v (m.unlinkI 2 l)) m.n l e ∨
        SameCell (g3v (m.unlinkI 2 l)) m.n (m.β 1 (m.β 2 l)) e) := by
      intro e; rw [hv']
      exact glue_sep_pair eqV (ps := [(l, m.β 1 (m.β 2 l))]) (by simp) (pq := (l, m.β 1 (m.β 2 l))) (by simp) e
    have u1 := isMinOf_union (G := SameCell (g3v m) m.n) hG sa sb
    have z1 := sl.ne_zero hwf hl0 hln
    have z2 := sa.ne_zero hwf1 hl0 (by rw [hn1]; exact hln)
    have z3 := sb.ne_zero hwf1 hbr (by rw [hn1]; exact han)
    exact IsMinOf.unique sl u1 z1 (by omega)
  · exact absurd hbl c
  · exact absurd hbl c

/-- **C05, 2-unsew at cell level, only `l` has a successor** (mirror case) -/
theorem C05_twoUnsew3_cells_right (cfg : Cfg X) (n : Nat) (m m' : Map X) (l : Nat) (u : Unit)
    (hwf : WF 4 m) (hl : C02.InUse m l) (hfc : m.fc = 0)
    (hbl : m.β 1 l ≠ 0) (hbr : m.β 1 (m.β 2 l) = 0)
    (h : run (twoUnsew3 cfg n l) m = (.ok u, m')) :
    m.β 2 l ≠ 0 ∧ WF 4 (m.unlinkI 2 l) ∧ SameTopo (m.unlinkI 2 l) m' ∧
    (∀ d e, SameCell (g3e m) m.n d e ↔ Glue (SameCell (g3e (m.unlinkI 2 l)) m.n) [(l, m.β 2 l)] d e) ∧
    ∃ eold enl enr rvold a b me, IsEid3 m l eold ∧ IsEid3 (m.unlinkI 2 l) l enl ∧
      IsEid3 (m.unlinkI 2 l) (m.β 2 l) enr ∧ eold = min enl enr ∧
      IsVid3 m (m.β 2 l) rvold ∧ IsVid3 (m.unlinkI 2 l) (m.β 1 l) a ∧ IsVid3 (m.unlinkI 2 l) (m.β 2 l) b ∧
      (m.β 3 (m.β 2 l) = 0 →
        (∀ d e, SameCell (g3v m) m.n d e ↔
          Glue (SameCell (g3v (m.unlinkI 2 l)) m.n) [(m.β 2 l, m.β 1 l)] d e) ∧ rvold = min a b) ∧
      SplitIn cfg (eStores cfg) enl enr eold (m.unlinkI 2 l) me ∧ SplitIn cfg (vStores cfg) a b rvold me m' := by
  obtain ⟨hne, hwf1, htopo, hv, hee, eold, enl, enr, me, s1, s2, s3, hold, hE, hcase⟩ :=
    twoUnsew3_common cfg n m m' l u hwf hl hfc h
  obtain ⟨hl0, hln, hlu⟩ := hl
  have hrn := hwf.range 2 (by omega) l hln
  have hbn : m.β 1 l < m.n := hwf.range 1 (by omega) l hln
  have hn1 : (m.unlinkI 2 l).n = m.n := rfl
  have eβ := hwf.toSized.β_unlinkI (i := 2) (by omega) hln hrn
  have h1 : ∀ e, (m.unlinkI 2 l).β 1 e = m.β 1 e := by intro e; rw [eβ]; simp
  have h3 : ∀ e, (m.unlinkI 2 l).β 3 e = m.β 3 e := by intro e; rw [eβ]; simp
  rcases hcase with ⟨c, _⟩ | ⟨c, _⟩ | ⟨_, _, rvold, a, b, sr, sa, sb, hS⟩ | ⟨_, c⟩
  · exact absurd c hbl
  · exact absurd c hbl
  · refine ⟨hne, hwf1, htopo, hee, eold, enl, enr, rvold, a, b, me, s1, s2, s3, hold, sr, sa, sb, ?_, hE, hS⟩
    intro h3r
    have hv' : ∀ d e, SameCell (g3v m) m.n d e ↔
        Glue (SameCell (g3v (m.unlinkI 2 l)) m.n) [(m.β 2 l, m.β 1 l)] d e := by
      intro d e
      rw [hv, pairsV2_right (by rw [h1]; exact hbl) (by rw [h1]; exact hbr) (by rw [h3]; exact h3r), h1]
    refine ⟨hv', ?_⟩
    have eqV := sameCell_equiv (g3v (m.unlinkI 2 l)) m.n
    have hG : ∀ e, SameCell (g3v m) m.n (m.β 2 l) e ↔ (SameCell (g3v (m.unlinkI 2 l)) m.n (m.β 2 l) e ∨
        SameCell (g3v (m.unlinkI 2 l)) m.n (m.β 1 l) e) := by
      intro e; rw [hv']
      exact glue_sep_pair eqV (ps := [(m.β 2 l, m.β 1 l)]) (by simp) (pq := (m.β 2 l, m.β 1 l)) (by simp) e
    have u1 := isMinOf_union (G := SameCell (g3v m) m.n) hG sb sa
    have z1 := sr.ne_zero hwf hne hrn
    have z2 := sa.ne_zero hwf1 hbl (by rw [hn1]; exact hbn)
    have z3 := sb.ne_zero hwf1 hne (by rw [hn1]; exact hrn)
    rw [Nat.min_comm]
    exact IsMinOf.unique sr u1 z1 (by omega)
  · exact absurd hbr c


/-! ## non-vacuity -/

/-- two darts whose (computable) vertex identifiers differ are in different vertex cells -/
theorem not_sameCell_of_cellId3 {m : Map X} (h : WF 4 m) {a b : Nat} (ha0 : a ≠ 0) (ha : a < m.n)
    (hb0 : b ≠ 0) (hb : b < m.n) (hne : C03.cellId3 m .vertex a ≠ C03.cellId3 m .vertex b) :
    ¬ SameCell (g3v m) m.n a b := by
  intro hs
  have sa := (vertexId3_spec h ha0 ha (C03.C03_vertexId3_min h ha0 ha).1).2
  have sb := (vertexId3_spec h hb0 hb (C03.C03_vertexId3_min h hb0 hb).1).2
  have eqV := sameCell_equiv (g3v m) m.n
  have sa' : IsVid3 m b (C03.cellId3 m .vertex a) := IsMinOf.congr eqV sa hs
  exact hne (IsMinOf.unique sa' sb (sa.ne_zero h ha0 ha) (sb.ne_zero h hb0 hb))

def CidFar (m : Map X) (x y : Nat × Nat) : Prop :=
  C03.cellId3 m .vertex x.1 ≠ C03.cellId3 m .vertex y.1 ∧ C03.cellId3 m .vertex x.1 ≠ C03.cellId3 m .vertex y.2 ∧
  C03.cellId3 m .vertex x.2 ≠ C03.cellId3 m .vertex y.1 ∧ C03.cellId3 m .vertex x.2 ≠ C03.cellId3 m .vertex y.2

instance (m : Map X) (x y : Nat × Nat) : Decidable (CidFar m x y) := by unfold CidFar; exact inferInstance

def ValidPair (m : Map X) (x : Nat × Nat) : Prop := x.1 ≠ 0 ∧ x.1 < m.n ∧ x.2 ≠ 0 ∧ x.2 < m.n

instance (m : Map X) (x : Nat × Nat) : Decidable (ValidPair m x) := by unfold ValidPair; exact inferInstance

/-- the proviso `Far`, from its computable form -/
theorem far_of_cellId3 {m : Map X} (h : WF 4 m) {n : Nat} (hn : n = m.n) {x y : Nat × Nat}
    (hx : ValidPair m x) (hy : ValidPair m y) (hc : CidFar m x y) : Far (SameCell (g3v m) n) x y := by
  subst hn
  exact ⟨not_sameCell_of_cellId3 h hx.1 hx.2.1 hy.1 hy.2.1 hc.1,
    not_sameCell_of_cellId3 h hx.1 hx.2.1 hy.2.2.1 hy.2.2.2 hc.2.1,
    not_sameCell_of_cellId3 h hx.2.2.1 hx.2.2.2 hy.1 hy.2.1 hc.2.2.1,
    not_sameCell_of_cellId3 h hx.2.2.1 hx.2.2.2 hy.2.2.1 hy.2.2.2 hc.2.2.2⟩

theorem pairwise_far_of_cellId3 {m : Map X} (h : WF 4 m) {n : Nat} (hn : n = m.n) {ps : List (Nat × Nat)}
    (hv : ∀ p, p ∈ ps → ValidPair m p) (hc : ps.Pairwise (CidFar m)) :
    ps.Pairwise (Far (SameCell (g3v m) n)) :=
  List.Pairwise.imp_of_mem (fun {x y} hx hy hxy => far_of_cellId3 h hn (hv x hx) (hv y hy) hxy) hc

/-- a closed face from its computable description -/
theorem cyc_of_period {m : Map X} (hw : WF 4 m) {d L : Nat} (hL : 0 < L) (hp : it m 1 L d = d) (hd : d ≠ 0) :
    Cyc m 1 d L := ⟨hL, hp, periodic_nz (hw.null 1 (by omega)) hL hp hd⟩

theorem cyc_all_of_lt {m : Map X} {d L x : Nat} (c : Cyc m 1 d L) (h : ∀ t, t < L → it m 1 t d ≠ x) :
    ∀ t, it m 1 t d ≠ x := by
  intro t
  obtain ⟨s, hs, he⟩ := c.mod t
  rw [he]; exact h s hs

/-- no user storages, the `Vertex3` law on the built-in vertices -/
def plainCfg : Cfg Val := stdCfg 4 0

theorem plainCfg_plain : PlainCfg plainCfg := ⟨by decide, fun x => ⟨x, x, rfl⟩⟩

/-- two tetrahedra (darts 1–12 and 13–24, faces of three darts) 3-sewn along the faces
    `(1, 2, 3)` / `(14, 13, 15)`; the five vertices carry coordinates at their identifiers -/
def exTets : Map Val :=
  { (Map.empty 4 1 25 : Map Val) with
    b := #[#[0, 3, 1, 2, 6, 4, 5, 9, 7, 8, 12, 10, 11, 15, 13, 14, 18, 16, 17, 21, 19, 20, 24, 22, 23],
           #[0, 2, 3, 1, 5, 6, 4, 8, 9, 7, 11, 12, 10, 14, 15, 13, 17, 18, 16, 20, 21, 19, 23, 24, 22],
           #[0, 10, 7, 4, 3, 9, 11, 2, 12, 5, 1, 6, 8, 20, 23, 17, 21, 15, 22, 24, 13, 16, 18, 14, 19],
           #[0, 14, 13, 15, 0, 0, 0, 0, 0, 0, 0, 0, 0, 2, 1, 3, 0, 0, 0, 0, 0, 0, 0, 0, 0]]
    a := #[#[none, some (.pt 0 0 0), some (.pt 0 1 0), some (.pt 1 0 0), none, none, some (.pt 0 0 1), none, none,
             none, none, none, none, none, none, none, some (.pt 0 0 (-1)), none, none, none, none, none, none,
             none, none]] }

theorem exTets_wf : WF 4 exTets := by decide +kernel

theorem exTets_ready : Ready exTets :=
  ⟨exTets_wf, by decide +kernel, rfl, by decide, embedded_of_cellId3 exTets_wf (by decide +kernel)⟩

example : Sided3 exTets := by decide +kernel

/-- 1-unsew of a dart of a free face of the first tetrahedron -/
example : ∃ m', run (oneUnsew3 plainCfg exTets.n 4) exTets = (.ok (), m') ∧ Ready m' :=
  C05_oneUnsew3_succeeds plainCfg plainCfg_plain exTets 4 exTets_ready (by decide +kernel) (by decide +kernel)
    (by decide +kernel)

/-- 2-unsew of an edge between two free faces of the first tetrahedron: its end points stay two
    different vertices -/
example : ∃ m', run (twoUnsew3 plainCfg exTets.n 4) exTets = (.ok (), m') ∧ Ready m' :=
  C05_twoUnsew3_succeeds plainCfg plainCfg_plain exTets 4 exTets_ready (by decide +kernel) (by decide +kernel)
    (by decide +kernel) (by decide +kernel)
    (far_of_cellId3 (m := exTets.unlinkI 2 4) (by decide +kernel) rfl (by decide +kernel) (by decide +kernel)
      (by decide +kernel))

/-- 3-unsew of the two tetrahedra: the glued face has three darts, its three vertices split into six -/
example : ∃ m', run (threeUnsew3 plainCfg exTets.n 1) exTets = (.ok (), m') ∧ Ready m' := by
  have cl : Cyc exTets 1 1 3 := cyc_of_period exTets_wf (by decide) (by decide +kernel) (by decide)
  obtain ⟨m1, h1, himp⟩ := C05_threeUnsew3_succeeds plainCfg plainCfg_plain exTets 1 3 exTets_ready
    (by decide +kernel) (by decide +kernel) (by decide +kernel) cl
    (fun t h0 ht => (by decide +kernel : ∀ t, t < 3 → 0 < t → it exTets 1 t 1 ≠ 1) t ht h0)
    (cyc_all_of_lt cl (by decide +kernel))
  have e : m1 = (run (threeUnlink3 (X := Val) exTets.n 1) exTets).2 := by rw [h1]
  subst e
  exact himp (pairwise_far_of_cellId3 (by decide +kernel) (by decide +kernel) (by decide +kernel) (by decide +kernel))


theorem run_of_fst {α : Type} {p : P X α} {m : Map X} {a : α} (h : (run p m).1 = .ok a) :
    run p m = (.ok a, (run p m).2) := Prod.ext h rfl

/-- the two tetrahedra, 3-unsewn: six vertices on the two free faces; sewing them again satisfies
    the cell-level proviso (three pairs of six different vertices) -/
def exTetsOpen : Map Val := (run (threeUnsew3 plainCfg exTets.n 1) exTets).2

example : (run (threeUnsew3 plainCfg exTets.n 1) exTets).1 = .ok () ∧
    (run (threeSew3 plainCfg exTetsOpen.n 1 14) exTetsOpen).1 = .ok () := by decide +kernel
example := C05_threeSew3_vertices_far plainCfg exTetsOpen (run (threeSew3 plainCfg exTetsOpen.n 1 14) exTetsOpen).2
  1 14 () (by decide +kernel) (by decide +kernel) (by decide +kernel) (by decide) (by decide +kernel)
  (C02.periodic_never_null (L := 3) (by decide +kernel) (by decide) (by decide +kernel) (by decide))
  (run_of_fst (by decide +kernel))
example : (pairsA exTetsOpen (walkPairs exTetsOpen 1 0 3 1 14)).Pairwise
    (Far (SameCell (g3v exTetsOpen) exTetsOpen.n)) :=
  pairwise_far_of_cellId3 (by decide +kernel) rfl (by decide +kernel) (by decide +kernel)

open HC.C02 (exMap exCfg) in
/-- `C02.exMap`: the free dart 14 and the open chain 11-12-13 (13 has no successor) -/
example : (run (twoSew3 exCfg 16 14 13) exMap).1 = .ok () ∧ (run (twoSew3 exCfg 16 14 11) exMap).1 = .ok () ∧
    (run (twoSew3 exCfg 16 11 14) exMap).1 = .ok () := by decide +kernel
open HC.C02 (exMap exCfg) in
example := C05_twoSew3_cells_free exCfg 16 exMap (run (twoSew3 exCfg 16 14 13) exMap).2 14 13 ()
  (by decide +kernel) (by decide +kernel) (by decide +kernel) (by decide) rfl (by decide +kernel) (by decide +kernel)
  (Prod.ext (by decide +kernel : (run (twoSew3 exCfg 16 14 13) exMap).1 = .ok ()) rfl)
open HC.C02 (exMap exCfg) in
example := C05_twoSew3_cells_left exCfg 16 exMap (run (twoSew3 exCfg 16 14 11) exMap).2 14 11 ()
  (by decide +kernel) (by decide +kernel) (by decide +kernel) (by decide) rfl (by decide +kernel) (by decide +kernel)
  (Prod.ext (by decide +kernel : (run (twoSew3 exCfg 16 14 11) exMap).1 = .ok ()) rfl)
open HC.C02 (exMap exCfg) in
example := C05_twoSew3_cells_right exCfg 16 exMap (run (twoSew3 exCfg 16 11 14) exMap).2 11 14 ()
  (by decide +kernel) (by decide +kernel) (by decide +kernel) (by decide) rfl (by decide +kernel) (by decide +kernel)
  (Prod.ext (by decide +kernel : (run (twoSew3 exCfg 16 11 14) exMap).1 = .ok ()) rfl)

/-- dart 14 2-sewn to the end of the chain, resp. to its first dart -/
def exOpenF : Map Val := (run (twoSew3 C02.exCfg 16 14 13) C02.exMap).2
def exOpenL : Map Val := (run (twoSew3 C02.exCfg 16 14 11) C02.exMap).2

open HC.C02 (exCfg) in
example : (run (twoUnsew3 exCfg 16 14) exOpenF).1 = .ok () ∧ (run (twoUnsew3 exCfg 16 14) exOpenL).1 = .ok () ∧
    (run (twoUnsew3 exCfg 16 11) exOpenL).1 = .ok () := by decide +kernel
open HC.C02 (exCfg) in
example := C05_twoUnsew3_cells_free exCfg 16 exOpenF (run (twoUnsew3 exCfg 16 14) exOpenF).2 14 ()
  (by decide +kernel) (by decide +kernel) (by decide +kernel) (by decide +kernel) (by decide +kernel)
  (Prod.ext (by decide +kernel : (run (twoUnsew3 exCfg 16 14) exOpenF).1 = .ok ()) rfl)
open HC.C02 (exCfg) in
example := C05_twoUnsew3_cells_left exCfg 16 exOpenL (run (twoUnsew3 exCfg 16 14) exOpenL).2 14 ()
  (by decide +kernel) (by decide +kernel) (by decide +kernel) (by decide +kernel) (by decide +kernel)
  (Prod.ext (by decide +kernel : (run (twoUnsew3 exCfg 16 14) exOpenL).1 = .ok ()) rfl)
open HC.C02 (exCfg) in
example := C05_twoUnsew3_cells_right exCfg 16 exOpenL (run (twoUnsew3 exCfg 16 11) exOpenL).2 11 ()
  (by decide +kernel) (by decide +kernel) (by decide +kernel) (by decide +kernel) (by decide +kernel)
  (Prod.ext (by decide +kernel : (run (twoUnsew3 exCfg 16 11) exOpenL).1 = .ok ()) rfl)

end HC.C05
