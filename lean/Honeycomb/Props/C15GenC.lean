/-
  C15 — `is_orbit_orientation_consistent` (honeycomb-kernels/src/utils/routines.rs), TRANSLATED (`Gen.Collapse.orientRef`,
  `orientLoop`, `orientRefZero`, `orientLoopZero`, written by `python3 tools/gen_lean.py collapse`), interpreted, is EQUAL
  to `isOrbitOrientationConsistent` of Model/Kernels/Collapse.lean; hence the whole translated `collapse_edge` with the
  translated orientation check is the model's `collapseEdge`.  Taken as given: `Vertex2::cross_product_from_vertices`,
  `is_zero`, `signum` are `cross … = 0` / `crossSignum` of Model/Kernels/Geom2.lean; `orbit_transac(Vertex, vid)` is `orbit2`.
-/
import Honeycomb.Props.C15GenB

namespace HC.GenTie
open HC HC.C15

/-- one triangle block (header of `Gen.Collapse.orientRef`): `crossp.is_zero()` and `crossp.signum()` -/
def colFan (n : Nat) (newV : Val) (d : Nat) : List Nat → P Val (Bool × Int)
  | [i1, s1, i2, s2, xa, xb, ra, rb, ca, cb, cc] => do
      let x1 ← rB i1 ([d].getD s1 0)
      let x2 ← rB i2 ([d, x1].getD s2 0)
      let vid1 ← vertexId2 n ([d, x1, x2].getD xa 0)
      let vid2 ← vertexId2 n ([d, x1, x2].getD xb 0)
      let v1 ← rA 0 ([vid1, vid2].getD ra 0)
      match v1 with
      | none => Prog.retry
      | some v1 => do
          let v2 ← rA 0 ([vid1, vid2].getD rb 0)
          match v2 with
          | none => Prog.retry
          | some v2 =>
              let a := [newV, v1, v2].getD ca newV
              let b := [newV, v1, v2].getD cb newV
              let c := [newV, v1, v2].getD cc newV
              pure (decide (cross a.p2 b.p2 c.p2 = 0), crossSignum a.p2 b.p2 c.p2)
  | _ => Prog.panic

/-- the loop over `tmp[1..]`; `lz`: the test has the disjunct `crossp.is_zero()` -/
def colFanAll (n : Nat) (blk : List Nat) (lz : Bool) (newV : Val) (ref : Int) : List Nat → P Val Bool
  | [] => pure true
  | d :: ds => do
      let zs ← colFan n newV d blk
      if (lz && zs.1) = true ∨ ref ≠ zs.2 then pure false else colFanAll n blk lz newV ref ds

/-- the translated `is_orbit_orientation_consistent`; `rz`: the reference block returns `Ok(false)` on a zero cross product -/
def colOrient (n : Nat) (bref bloop : List Nat) (rz lz : Bool) (vid : Nat) : P Val Bool := do
  let nv ← rA 0 vid
  match nv with
  | none => Prog.retry
  | some newV => do
      let tmp ← orbit2 n .vertex vid
      match tmp with
      | [] => Prog.panic
      | d :: ds => do
          let zr ← colFan n newV d bref
          if (rz && zr.1) = true then pure false else colFanAll n bloop lz newV zr.2 ds

theorem colFan_ref (n : Nat) (newV : Val) (d : Nat) : colFan n newV d Gen.Collapse.orientRef = fanSign n newV d := rfl
theorem colFan_loop (n : Nat) (newV : Val) (d : Nat) : colFan n newV d Gen.Collapse.orientLoop = fanSign n newV d := rfl

theorem colFanAll_eq (n : Nat) (newV : Val) (ref : Int) (ds : List Nat) :
    colFanAll n Gen.Collapse.orientLoop Gen.Collapse.orientLoopZero newV ref ds = fanAllSame n newV ref ds := by
  show colFanAll n Gen.Collapse.orientLoop true newV ref ds = fanAllSame n newV ref ds
  induction ds with
  | nil => rfl
  | cons d ds ih =>
    simp only [colFanAll, fanAllSame, colFan_loop, ih, Bool.true_and]

/-- **tie of `is_orbit_orientation_consistent`**: which darts, which vertices in which order, and a ZERO cross product is
    refused both in the reference triangle and in the loop (repaired D15g) -/
theorem C15_gen_collapse_orient (n vid : Nat) :
    colOrient n Gen.Collapse.orientRef Gen.Collapse.orientLoop Gen.Collapse.orientRefZero Gen.Collapse.orientLoopZero vid =
      isOrbitOrientationConsistent n vid := by
  simp only [colOrient, isOrbitOrientationConsistent, colFan_ref, colFanAll_eq, Gen.Collapse.orientRefZero, Bool.true_and]
  rfl

/-- **tie of `collapse_edge`, every callee translated** -/
theorem C15_gen_collapse_edge_full (cfg : Cfg Val) (n e : Nat) :
    colCollapseEdge cfg n (colOrient n Gen.Collapse.orientRef Gen.Collapse.orientLoop Gen.Collapse.orientRefZero
      Gen.Collapse.orientLoopZero) e = collapseEdge cfg n e := by
  rw [show colOrient n Gen.Collapse.orientRef Gen.Collapse.orientLoop Gen.Collapse.orientRefZero Gen.Collapse.orientLoopZero =
    isOrbitOrientationConsistent n from funext (C15_gen_collapse_orient n)]
  exact C15_gen_collapse_edge cfg n e

/-- **C15 on the translated `collapse_edge`** (the clause the repaired defect D15g was about): whenever the translated kernel —
    guard, helpers, top level and orientation post-check all as regenerated from the source — answers `Ok(v)` on a
    well-formed map, the new vertex has coordinates and the triangles around it all have a STRICTLY positive or all a
    strictly negative cross product: no flattened triangle passes -/
theorem C15_gen_collapse_no_flat_triangle (cfg : Cfg Val) (m m' : Map Val) (e v : Nat) (hwf : WF 3 m) (he : e < m.n)
    (h : run (colCollapseEdge cfg m.n (colOrient m.n Gen.Collapse.orientRef Gen.Collapse.orientLoop
      Gen.Collapse.orientRefZero Gen.Collapse.orientLoopZero) e) m = (.ok v, m')) :
    ∃ newV tmp, m'.att 0 v = some newV ∧ run (orbit2 m.n .vertex v) m' = (.ok tmp, m') ∧
      ((∀ d, d ∈ tmp → ∃ c, C15.FanCross m.n m' newV d c ∧ 0 < c) ∨
       (∀ d, d ∈ tmp → ∃ c, C15.FanCross m.n m' newV d c ∧ c < 0)) := by
  rw [C15_gen_collapse_edge_full] at h
  exact C15.C15_collapse_no_flat_triangle cfg m m' e v hwf he h

end HC.GenTie
