/-
  C15 — the edge-collapse kernel (honeycomb-kernels/src/remeshing/collapse.rs), TRANSLATED from the source on every
  run (`Gen/Collapse.lean`, written by `python3 tools/gen_lean.py collapse`): the half-cell helpers
  `collapse_halfcell_to_midpoint` / `collapse_halfcell_to_base`, the two edge-level helpers `collapse_edge_to_midpoint` /
  `collapse_edge_to_base` (which call the TRANSLATED half-cell helpers) and the guard function `is_collapsible`,
  interpreted in the model's transaction monad, are EQUAL as programs to the hand-written definitions of
  Model/Kernels/Collapse.lean.  `map.sew::<I>` / `map.unsew::<I>` are looked up in the translated dispatch of
  Props/C15Gen.lean.  Taken as given (as in C15Gen): `unlink::<2>` is `iUnlinkCore 2`, `remove_free_dart_transac` is
  `removeFreeDartTx`, `read_attribute` / `write_attribute` / `read_vertex` / `write_vertex` act on the storages of the
  model, `AttributeUpdate::merge` / `anchor_dim` on `VertexAnchor` / `EdgeAnchor` are the generated `merge` / `dim` of
  Gen/Anchors.lean.
-/
import Honeycomb.Props.C15Gen
import Honeycomb.Gen.Collapse
import Honeycomb.Model.Kernels.Collapse

namespace HC.GenTie
open HC HC.C15 Gen.Anchors
variable {X : Type}

/-- numeric operand: as `remN`, plus 12 = NULL_VERTEX_ID -/
def colN (ps : List Nat) (env : List (RemVal X)) (a : Nat) : Nat :=
  if a = 12 then 0 else remN ps env a

/-- the meaning of a generated instruction list of Gen/Collapse.lean; returns the variables bound; `half h a b c` is the
    half-cell helper number `h` called on `(a, b, c)`; the fuel only makes the recursion structural -/
def colInterp (cfg : Cfg X) (n : Nat) (half : Nat → Nat → Nat → Nat → P X Unit) (ps : List Nat) :
    Nat → List (RemVal X) → List (Nat × List Nat) → P X (List (RemVal X))
  | 0, _, _ => Prog.panic
  | _ + 1, env, [] => pure env
  | f + 1, env, (1, [i, a]) :: rest => do
      let v ← rB i (colN ps env a)
      colInterp cfg n half ps f (env ++ [.n v]) rest
  | f + 1, env, (3, k :: i :: as) :: rest =>
      match remDispatch cfg n Gen.Remesh.sewDispatch k i (as.map (colN ps env)) with
      | some p => do p; colInterp cfg n half ps f env rest
      | none => Prog.panic
  | f + 1, env, (7, [a]) :: rest => do
      let v ← vertexId2 n (colN ps env a)
      colInterp cfg n half ps f (env ++ [.n v]) rest
  | f + 1, env, (11, [a, x]) :: rest =>
      match remX env x with
      | some v => do
          let _ ← remWriteVtx (colN ps env a) v
          colInterp cfg n half ps f env rest
      | none => Prog.panic
  | f + 1, env, (12, [x, m]) :: rest =>
      match remO env x with
      | some o => do
          remOnSome o (fun a => do let _ ← colInterp cfg n half ps f (env ++ [.x a]) (rest.take m); pure ())
          colInterp cfg n half ps f env (rest.drop m)
      | none => Prog.panic
  | f + 1, env, (13, [k, a, x, k']) :: rest =>
      match remX env x with
      | some v =>
          if k = k' then do
            let _ ← writeAttr cfg (stVA + k) (colN ps env a) v
            colInterp cfg n half ps f env rest
          else Prog.panic
      | none => Prog.panic
  | f + 1, env, (15, [a]) :: rest => do
      let _ ← removeFreeDartTx (colN ps env a)
      colInterp cfg n half ps f env rest
  | f + 1, env, (16, [2, a]) :: rest => do
      iUnlinkCore 2 (colN ps env a)
      colInterp cfg n half ps f env rest
  | f + 1, env, (17, [a, c, m]) :: rest => do
      (if colN ps env a ≠ colN ps env c then do let _ ← colInterp cfg n half ps f env (rest.take m); pure () else pure ())
      colInterp cfg n half ps f env (rest.drop m)
  | f + 1, env, (20, [h, a, b, c]) :: rest => do
      half h (colN ps env a) (colN ps env b) (colN ps env c)
      colInterp cfg n half ps f env rest
  | f + 1, env, (21, [a]) :: rest => do
      let v ← rA 0 (colN ps env a)
      colInterp cfg n half ps f (env ++ [.o v]) rest
  | f + 1, env, (22, [k, a]) :: rest => do
      let v ← readAttr cfg (stVA + k) (colN ps env a)
      colInterp cfg n half ps f (env ++ [.o v]) rest
  | f + 1, env, (23, [a, c, b, a', c', b', z]) :: rest => do
      let v ← (if colN ps env a ≠ colN ps env c then vertexId2 n (colN ps env b)
        else if colN ps env a' ≠ colN ps env c' then vertexId2 n (colN ps env b')
        else pure (colN ps env z) : P X Nat)
      colInterp cfg n half ps f (env ++ [.n v]) rest
  | _, _, _ => Prog.panic

/-- a translated function returning `Ok(())` -/
def colUnit (p : P X (List (RemVal X))) : P X Unit := p.bind (fun _ => .ret ())

/-- a translated function returning `Ok(<operand res>)` -/
def colNat (ps : List Nat) (res : Nat) (p : P X (List (RemVal X))) : P X Nat := p.bind (fun env => .ret (colN ps env res))

theorem colIteBind {α β : Type} (c : Prop) [Decidable c] (p q : P X α) (f : α → P X β) :
    (if c then p else q).bind f = if c then p.bind f else q.bind f := by
  split <;> rfl

/-- no half-cell helper calls another -/
def colNoHalf : Nat → Nat → Nat → Nat → P X Unit := fun _ _ _ _ => Prog.panic

/-- the translated half-cell helper number `h` (0 = `collapse_halfcell_to_midpoint`, 1 = `collapse_halfcell_to_base`) -/
def colHalf (cfg : Cfg X) (n : Nat) : Nat → Nat → Nat → Nat → P X Unit
  | 0, a, b, c => colUnit (colInterp cfg n colNoHalf [a, b, c] 32 [] Gen.Collapse.collapseHalfcellToMidpoint)
  | 1, a, b, c => colUnit (colInterp cfg n colNoHalf [a, b, c] 32 [] Gen.Collapse.collapseHalfcellToBase)
  | _, _, _, _ => Prog.panic

/-- **tie of `collapse_halfcell_to_midpoint`** (three 1-unsews, the two β2 reads, two 2-unsews, the 2-sew with its
    arguments in order, the three removals) -/
theorem C15_gen_collapse_halfMid (cfg : Cfg Val) (n b0d d b1d : Nat) :
    colHalf cfg n 0 b0d d b1d = collapseHalfMid cfg n b0d d b1d := by
  simp only [colHalf, colUnit, Gen.Collapse.collapseHalfcellToMidpoint, colInterp, colN, remN, collapseHalfMid, List.map,
    List.getD_cons_zero, List.getD_cons_succ, List.nil_append, List.cons_append, rem_disp_sew2, rem_disp_unsew1, rem_disp_unsew2,
    Prog.bind_eq, Prog.pure_eq, Prog.bind_assoc, Prog.ret_bind, Nat.reduceEqDiff, if_false, Nat.reduceSub, remBindUnit] <;> rfl

/-- **tie of `collapse_halfcell_to_base`** -/
theorem C15_gen_collapse_halfBase (cfg : Cfg Val) (n dPe dE dNe : Nat) :
    colHalf cfg n 1 dPe dE dNe = collapseHalfBase cfg n dPe dE dNe := by
  simp only [colHalf, colUnit, Gen.Collapse.collapseHalfcellToBase, colInterp, colN, remN, collapseHalfBase, List.map,
    List.getD_cons_zero, List.getD_cons_succ, List.nil_append, List.cons_append, List.take, List.drop,
    rem_disp_sew1, rem_disp_unsew1, rem_disp_unsew2,
    Prog.bind_eq, Prog.pure_eq, Prog.bind_assoc, Prog.ret_bind, colIteBind, Nat.reduceEqDiff, if_false, Nat.reduceSub, remBindUnit] <;> rfl

/-- **tie of `collapse_edge_to_midpoint`** (the half-cell helpers called are the translated ones) -/
theorem C15_gen_collapse_edgeToMidpoint (cfg : Cfg Val) (n b0l l b1l b0r r b1r : Nat) :
    colNat [b0l, l, b1l, b0r, r, b1r] Gen.Collapse.collapseEdgeToMidpointResult
      (colInterp cfg n (colHalf cfg n) [b0l, l, b1l, b0r, r, b1r] 32 [] Gen.Collapse.collapseEdgeToMidpoint) =
      collapseEdgeToMidpoint cfg n b0l l b1l b0r r b1r := by
  simp only [colNat, Gen.Collapse.collapseEdgeToMidpoint, Gen.Collapse.collapseEdgeToMidpointResult, colInterp, colN, remN,
    collapseEdgeToMidpoint, collapsedVid, C15_gen_collapse_halfMid, List.map,
    List.getD_cons_zero, List.getD_cons_succ, List.nil_append, List.cons_append, List.take, List.drop, rem_disp_unsew2,
    Prog.bind_eq, Prog.pure_eq, Prog.bind_assoc, Prog.ret_bind, colIteBind, Nat.reduceEqDiff, if_false, if_true, Nat.reduceSub,
    remBindUnit, Prog.bind_ret] <;> rfl

/-- the anchors numbered in the order read -/
def colVA (la ra : VertexAnchor) : Nat → Option VertexAnchor
  | 0 => some la
  | 1 => some ra
  | _ => none

def colDim (la ra : VertexAnchor) (ea : EdgeAnchor) : Nat → Option Nat
  | 0 => some la.dim
  | 1 => some ra.dim
  | 2 => some ea.dim
  | _ => none

def colChoiceOf : Nat → Option Collapsible
  | 0 => some .average
  | 1 => some .left
  | 2 => some .right
  | _ => none

/-- the decision of the translated `is_collapsible` once the three anchors are read (`none` = `unreachable!()` or a
    shape the interpreter gives no meaning to) -/
def colDecide (la ra : VertexAnchor) (ea : EdgeAnchor) (mrg : Nat × Nat) (dims : List (Nat × Nat)) (eqs : Nat × Nat)
    (tbl : List (Bool × Bool × Nat)) (msgs : String × String) : Option (Except Err Collapsible) :=
  match colVA la ra mrg.1, colVA la ra mrg.2, colVA la ra eqs.1, colVA la ra eqs.2, dims with
  | some x, some y, some p, some q, [(a, b), (c, d)] =>
    match colDim la ra ea a, colDim la ra ea b, colDim la ra ea c, colDim la ra ea d with
    | some da, some db, some dc, some dd =>
      match VertexAnchor.merge x y with
      | some val =>
        if da = db ∨ dc = dd then
          match tbl.find? (fun r => r.1 == decide (val = p) && r.2.1 == decide (val = q)) with
          | some r => (colChoiceOf r.2.2).map .ok
          | none => none
        else some (.error (errNonCollapsible msgs.1))
      | none => some (.error (errNonCollapsible msgs.2))
    | _, _, _, _ => none
  | _, _, _, _, _ => none

/-- **tie of the decision of `is_collapsible`**: which anchors are merged, which dimensions are compared, which
    outcome per arm, which message per refusal -/
theorem C15_gen_collapse_choice (la ra : VertexAnchor) (ea : EdgeAnchor) :
    colDecide la ra ea Gen.Collapse.guardMerge Gen.Collapse.guardDims Gen.Collapse.guardEqs Gen.Collapse.guardTable
      Gen.Collapse.guardMsgs = collapseChoice la ra ea := by
  simp only [colDecide, Gen.Collapse.guardMerge, Gen.Collapse.guardDims, Gen.Collapse.guardEqs, Gen.Collapse.guardTable,
    Gen.Collapse.guardMsgs, colVA, colDim, collapseChoice]
  cases VertexAnchor.merge la ra with
  | none => rfl
  | some val =>
    simp only
    split
    · cases decide (val = la) <;> cases decide (val = ra) <;> rfl
    · rfl

/-- the translated `is_collapsible` -/
def colGuard (cfg : Cfg Val) (n e : Nat) : P Val Collapsible :=
  if !regd cfg (stVA + Gen.Collapse.guardKind) then
    (match colChoiceOf Gen.Collapse.guardEarly with
     | some c => pure c
     | none => Prog.panic)
  else
  (colInterp cfg n colNoHalf [e] 8 [] Gen.Collapse.guardPre).bind fun env =>
  match Gen.Collapse.guardReads with
  | [(0, i1), (0, i2), (1, i3)] => do
      let a1 ← readAttr cfg (stVA + 0) (colN [e] env i1)
      let a2 ← readAttr cfg (stVA + 0) (colN [e] env i2)
      let a3 ← readAttr cfg (stVA + 1) (colN [e] env i3)
      match a1, a2, a3 with
      | some a1, some a2, some a3 =>
          match vAnchorOf a1, vAnchorOf a2, eAnchorOf a3 with
          | some la, some ra, some ea =>
              match colDecide la ra ea Gen.Collapse.guardMerge Gen.Collapse.guardDims Gen.Collapse.guardEqs
                  Gen.Collapse.guardTable Gen.Collapse.guardMsgs with
              | some (.ok c) => pure c
              | some (.error err) => abort err
              | none => Prog.panic
          | _, _, _ => Prog.panic
      | _, _, _ => Prog.retry
  | _ => Prog.panic

/-- **tie of `is_collapsible`** (the early return when no `VertexAnchor` storage is registered, the reads in order, the
    three anchor reads with their kinds and identifiers, `retry()` unless all three are defined, the decision) -/
theorem C15_gen_collapse_isCollapsible (cfg : Cfg Val) (n e : Nat) : colGuard cfg n e = isCollapsible cfg n e := by
  simp only [colGuard, isCollapsible, C15_gen_collapse_choice, Gen.Collapse.guardKind, Gen.Collapse.guardEarly,
    Gen.Collapse.guardPre, Gen.Collapse.guardReads, colChoiceOf, colInterp, colN, remN, List.getD_cons_zero, List.getD_cons_succ,
    List.nil_append, List.cons_append, Prog.bind_eq, Prog.pure_eq, Prog.bind_assoc, Prog.ret_bind, Nat.reduceEqDiff, if_false,
    Nat.reduceSub, Nat.add_zero, List.getD_eq_getElem?_getD, List.getElem?_cons_zero, List.getElem?_cons_succ, Option.getD_some] <;> rfl

/-- **C15 (b) stated on the translated decision**: the `unreachable!()` of the translated `is_collapsible` is unreachable -/
theorem C15_gen_collapse_choice_total (la ra : VertexAnchor) (ea : EdgeAnchor) :
    colDecide la ra ea Gen.Collapse.guardMerge Gen.Collapse.guardDims Gen.Collapse.guardEqs Gen.Collapse.guardTable
      Gen.Collapse.guardMsgs ≠ none := by
  rw [C15_gen_collapse_choice]
  exact C15_collapse_choice_total la ra ea

/-- the translated half-cell helper RUNS: on the unit square it gives the outcome of the model -/
example : (atomically (colHalf (stdCfg 3 0) unitSquare.n 0 1 2 3) unitSquare).1 =
    (atomically (collapseHalfMid (stdCfg 3 0) unitSquare.n 1 2 3) unitSquare).1 := by
  rw [C15_gen_collapse_halfMid]

end HC.GenTie
