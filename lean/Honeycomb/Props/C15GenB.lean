/-
  C15 — the edge-collapse kernel (honeycomb-kernels/src/remeshing/collapse.rs), TRANSLATED from the source on every
  run (`Gen/Collapse.lean`, written by `python3 tools/gen_lean.py collapse`): the half-cell helpers
  `collapse_halfcell_to_midpoint` / `collapse_halfcell_to_base`, the two edge-level helpers `collapse_edge_to_midpoint` /
  `collapse_edge_to_base` (which call the TRANSLATED half-cell helpers) and the guard function `is_collapsible`,
  interpreted in the model's transaction monad, are EQUAL as programs to the hand-written definitions of
  Model/Kernels/Collapse.lean.  `map.sew::<I>` / `map.unsew::<I>` are looked up in the translated dispatch of
  Props/C15Gen.lean.  Taken as given (as in C15Gen): `unlink::<2>` is `iUnlinkCore 2`, `remove_free_dart_transac` is
  `removeFreeDartTx`, `read_attribute` / `write_attribute` / `read_vertex` / `write_vertex` act on the storages of the
  model, `AttributeUpdate::merge` / `anchor_dim` on `VertexAnchor` / `EdgeAnchor` are the generated `merge` / `dim` of
  Gen/Anchors.lean.
-/
import Honeycomb.Props.C15Gen
import Honeycomb.Gen.Collapse
import Honeycomb.Model.Kernels.Collapse

namespace HC.GenTie
open HC HC.C15 Gen.Anchors
variable {X : Type}

/-- numeric operand: as `remN`, plus 12 = NULL_VERTEX_ID -/
def colN (ps : List Nat) (env : List (RemVal X)) (a : Nat) : Nat :=
  if a = 12 then 0 else remN ps env a

/-- the meaning of a generated instruction list of Gen/Collapse.lean; returns the variables bound; `half h a b c` is the
    half-cell helper number `h` called on `(a, b, c)`; the fuel only makes the recursion structural -/
def colInterp (cfg : Cfg X) (n : Nat) (half : Nat → Nat → Nat → Nat → P X Unit) (ps : List Nat) :
    Nat → List (RemVal X) → List (Nat × List Nat) → P X (List (RemVal X))
  | 0, _, _ => Prog.panic
  | _ + 1, env, [] => pure env
  | f + 1, env, (1, [i, a]) :: rest => do
      let v ← rB i (colN ps env a)
      colInterp cfg n half ps f (env ++ [.n v]) rest
  | f + 1, env, (3, k :: i :: as) :: rest =>
      match remDispatch cfg n Gen.Remesh.sewDispatch k i (as.map (colN ps env)) with
      | some p => do p; colInterp cfg n half ps f env rest
      | none => Prog.panic
  | f + 1, env, (7, [a]) :: rest => do
      let v ← vertexId2 n (colN ps env a)
      colInterp cfg n half ps f (env ++ [.n v]) rest
  | f + 1, env, (11, [a, x]) :: rest =>
      match remX env x with
      | some v => do
          let _ ← remWriteVtx (colN ps env a) v
          colInterp cfg n half ps f env rest
      | none => Prog.panic
  | f + 1, env, (12, [x, m]) :: rest =>
      match remO env x with
      | some o => do
          remOnSome o (fun a => do let _ ← colInterp cfg n half ps f (env ++ [.x a]) (rest.take m); pure ())
          colInterp cfg n half ps f env (rest.drop m)
      | none => Prog.panic
  | f + 1, env, (13, [k, a, x, k']) :: rest =>
      match remX env x with
      | some v =>
          if k = k' then do
            let _ ← writeAttr cfg (stVA + k) (colN ps env a) v
            colInterp cfg n half ps f env rest
          else Prog.panic
      | none => Prog.panic
  | f + 1, env, (15, [a]) :: rest => do
      let _ ← removeFreeDartTx (colN ps env a)
      colInterp cfg n half ps f env rest
  | f + 1, env, (16, [2, a]) :: rest => do
      iUnlinkCore 2 (colN ps env a)
      colInterp cfg n half ps f env rest
  | f + 1, env, (17, [a, c, m]) :: rest => do
      (if colN ps env a ≠ colN ps env c then do let _ ← colInterp cfg n half ps f env (rest.take m); pure () else pure ())
      colInterp cfg n half ps f env (rest.drop m)
  | f + 1, env, (20, [h, a, b, c]) :: rest => do
      half h (colN ps env a) (colN ps env b) (colN ps env c)
      colInterp cfg n half ps f env rest
  | f + 1, env, (21, [a]) :: rest => do
      let v ← rA 0 (colN ps env a)
      colInterp cfg n half ps f (env ++ [.o v]) rest
  | f + 1, env, (22, [k, a]) :: rest => do
      let v ← readAttr cfg (stVA + k) (colN ps env a)
      colInterp cfg n half ps f (env ++ [.o v]) rest
  | f + 1, env, (23, [a, c, b, a', c', b', z]) :: rest => do
      let v ← (if colN ps env a ≠ colN ps env c then vertexId2 n (colN ps env b)
        else if colN ps env a' ≠ colN ps env c' then vertexId2 n (colN ps env b')
        else pure (colN ps env z) : P X Nat)
      colInterp cfg n half ps f (env ++ [.n v]) rest
  | _, _, _ => Prog.panic

/-- a translated function returning `Ok(())` -/
def colUnit (p : P X (List (RemVal X))) : P X Unit := p.bind (fun _ => .ret ())

/-- a translated function returning `Ok(<operand res>)` -/
def colNat (ps : List Nat) (res : Nat) (p : P X (List (RemVal X))) : P X Nat := p.bind (fun env => .ret (colN ps env res))

theorem colIteBind {α β : Type} (c : Prop) [Decidable c] (p q : P X α) (f : α → P X β) :
    (if c then p else q).bind f = if c then p.bind f else q.bind f := by
  split <;> rfl

/-- no half-cell helper calls another -/
def colNoHalf : Nat → Nat → Nat → Nat → P X Unit := fun _ _ _ _ => Prog.panic

/-- the translated half-cell helper number `h` (0 = `collapse_halfcell_to_midpoint`, 1 = `collapse_halfcell_to_base`) -/
def colHalf (cfg : Cfg X) (n : Nat) : Nat → Nat → Nat → Nat → P X Unit
  | 0, a, b, c => colUnit (colInterp cfg n colNoHalf [a, b, c] 32 [] Gen.Collapse.collapseHalfcellToMidpoint)
  | 1, a, b, c => colUnit (colInterp cfg n colNoHalf [a, b, c] 32 [] Gen.Collapse.collapseHalfcellToBase)
  | _, _, _, _ => Prog.panic

/-- **tie of `collapse_halfcell_to_midpoint`** (three 1-unsews, the two β2 reads, two 2-unsews, the 2-sew with its
    arguments in order, the three removals) -/
theorem C15_gen_collapse_halfMid (cfg : Cfg Val) (n b0d d b1d : Nat) :
    colHalf cfg n 0 b0d d b1d = collapseHalfMid cfg n b0d d b1d := by
  simp only [colHalf, colUnit, Gen.Collapse.collapseHalfcellToMidpoint, colInterp, colN, remN, collapseHalfMid, List.map,
    List.getD_cons_zero, List.getD_cons_succ, List.nil_append, List.cons_append, rem_disp_sew2, rem_disp_unsew1, rem_disp_unsew2,
    Prog.bind_eq, Prog.pure_eq, Prog.bind_assoc, Prog.ret_bind, Nat.reduceEqDiff, if_false, Nat.reduceSub, remBindUnit] <;> rfl

/-- **tie of `collapse_halfcell_to_base`** -/
theorem C15_gen_collapse_halfBase (cfg : Cfg Val) (n dPe dE dNe : Nat) :
    colHalf cfg n 1 dPe dE dNe = collapseHalfBase cfg n dPe dE dNe := by
  simp only [colHalf, colUnit, Gen.Collapse.collapseHalfcellToBase, colInterp, colN, remN, collapseHalfBase, List.map,
    List.getD_cons_zero, List.getD_cons_succ, List.nil_append, List.cons_append, List.take, List.drop,
    rem_disp_sew1, rem_disp_unsew1, rem_disp_unsew2,
    Prog.bind_eq, Prog.pure_eq, Prog.bind_assoc, Prog.ret_bind, colIteBind, Nat.reduceEqDiff, if_false, Nat.reduceSub, remBindUnit] <;> rfl

/-- **tie of `collapse_edge_to_midpoint`** (the half-cell helpers called are the translated ones) -/
theorem C15_gen_collapse_edgeToMidpoint (cfg : Cfg Val) (n b0l l b1l b0r r b1r : Nat) :
    colNat [b0l, l, b1l, b0r, r, b1r] Gen.Collapse.collapseEdgeToMidpointResult
      (colInterp cfg n (colHalf cfg n) [b0l, l, b1l, b0r, r, b1r] 32 [] Gen.Collapse.collapseEdgeToMidpoint) =
      collapseEdgeToMidpoint cfg n b0l l b1l b0r r b1r := by
  simp only [colNat, Gen.Collapse.collapseEdgeToMidpoint, Gen.Collapse.collapseEdgeToMidpointResult, colInterp, colN, remN,
    collapseEdgeToMidpoint, collapsedVid, C15_gen_collapse_halfMid, List.map,
    List.getD_cons_zero, List.getD_cons_succ, List.nil_append, List.cons_append, List.take, List.drop, rem_disp_unsew2,
    Prog.bind_eq, Prog.pure_eq, Prog.bind_assoc, Prog.ret_bind, colIteBind, Nat.reduceEqDiff, if_false, if_true, Nat.reduceSub,
    remBindUnit, Prog.bind_ret] <;> rfl

/-- the model's `if let Some(v) = o { k v }` as `remOnSome` -/
theorem col_matchSome (o : Option Val) (k : Val → P Val Unit) :
    (match o with
     | some v => k v
     | none => pure ()) = remOnSome o k := by
  cases o <;> rfl

/-- **tie of `collapse_edge_to_base`** (the three reads of the base vertex before any edit, the 2-unsew of `l`, the half-cell
    helper on `(b1r, r, b0r)` then on `(b0l, l, b1l)`, the identifier selection, the two conditional writes at `new_vid`) -/
theorem C15_gen_collapse_edgeToBase (cfg : Cfg Val) (n b0l l b1l b0r r b1r : Nat) :
    colNat [b0l, l, b1l, b0r, r, b1r] Gen.Collapse.collapseEdgeToBaseResult
      (colInterp cfg n (colHalf cfg n) [b0l, l, b1l, b0r, r, b1r] 32 [] Gen.Collapse.collapseEdgeToBase) =
      collapseEdgeToBase cfg n b0l l b1l b0r r b1r := by
  simp only [colNat, Gen.Collapse.collapseEdgeToBase, Gen.Collapse.collapseEdgeToBaseResult, colInterp, colN, remN, remO, remX,
    collapseEdgeToBase, C15_gen_collapse_halfBase, List.map,
    List.getD_cons_zero, List.getD_cons_succ, List.nil_append, List.cons_append, List.take, List.drop, rem_disp_unsew2,
    Prog.bind_eq, Prog.pure_eq, Prog.bind_assoc, Prog.ret_bind, Nat.reduceEqDiff, if_false, if_true, Nat.reduceSub,
    remBindUnit, Prog.bind_ret, remWriteVtx_val, Nat.add_zero]
  refine congrArg (Prog.bind _) (funext fun lVid => congrArg (Prog.bind _) (funext fun tv => congrArg (Prog.bind _)
    (funext fun ta => ?_)))
  cases tv <;> cases ta <;>
    simp only [remOnSome, colIteBind, collapsedVid, Prog.bind_assoc, Prog.ret_bind, Prog.bind_ret, remBindUnit] <;> rfl

/-- the anchors numbered in the order read -/
def colVA (la ra : VertexAnchor) : Nat → Option VertexAnchor
  | 0 => some la
  | 1 => some ra
  | _ => none

def colDim (la ra : VertexAnchor) (ea : EdgeAnchor) : Nat → Option Nat
  | 0 => some la.dim
  | 1 => some ra.dim
  | 2 => some ea.dim
  | _ => none

def colChoiceOf : Nat → Option Collapsible
  | 0 => some .average
  | 1 => some .left
  | 2 => some .right
  | _ => none

/-- the decision of the translated `is_collapsible` once the three anchors are read (`none` = `unreachable!()` or a
    shape the interpreter gives no meaning to) -/
def colDecide (la ra : VertexAnchor) (ea : EdgeAnchor) (mrg : Nat × Nat) (dims : List (Nat × Nat)) (eqs : Nat × Nat)
    (tbl : List (Bool × Bool × Nat)) (msgs : String × String) : Option (Except Err Collapsible) :=
  match colVA la ra mrg.1, colVA la ra mrg.2, colVA la ra eqs.1, colVA la ra eqs.2, dims with
  | some x, some y, some p, some q, [(a, b), (c, d)] =>
    match colDim la ra ea a, colDim la ra ea b, colDim la ra ea c, colDim la ra ea d with
    | some da, some db, some dc, some dd =>
      match VertexAnchor.merge x y with
      | some val =>
        if da = db ∨ dc = dd then
          match tbl.find? (fun r => r.1 == decide (val = p) && r.2.1 == decide (val = q)) with
          | some r => (colChoiceOf r.2.2).map .ok
          | none => none
        else some (.error (errNonCollapsible msgs.1))
      | none => some (.error (errNonCollapsible msgs.2))
    | _, _, _, _ => none
  | _, _, _, _, _ => none

/-- **tie of the decision of `is_collapsible`**: which anchors are merged, which dimensions are compared, which
    outcome per arm, which message per refusal -/
theorem C15_gen_collapse_choice (la ra : VertexAnchor) (ea : EdgeAnchor) :
    colDecide la ra ea Gen.Collapse.guardMerge Gen.Collapse.guardDims Gen.Collapse.guardEqs Gen.Collapse.guardTable
      Gen.Collapse.guardMsgs = collapseChoice la ra ea := by
  simp only [colDecide, Gen.Collapse.guardMerge, Gen.Collapse.guardDims, Gen.Collapse.guardEqs, Gen.Collapse.guardTable,
    Gen.Collapse.guardMsgs, colVA, colDim, collapseChoice]
  cases VertexAnchor.merge la ra with
  | none => rfl
  | some val =>
    simp only
    split
    · cases decide (val = la) <;> cases decide (val = ra) <;> rfl
    · rfl

/-- the translated `is_collapsible` -/
def colGuard (cfg : Cfg Val) (n e : Nat) : P Val Collapsible :=
  if !regd cfg (stVA + Gen.Collapse.guardKind) then
    (match colChoiceOf Gen.Collapse.guardEarly with
     | some c => pure c
     | none => Prog.panic)
  else
  (colInterp cfg n colNoHalf [e] 8 [] Gen.Collapse.guardPre).bind fun env =>
  match Gen.Collapse.guardReads with
  | [(0, i1), (0, i2), (1, i3)] => do
      let a1 ← readAttr cfg (stVA + 0) (colN [e] env i1)
      let a2 ← readAttr cfg (stVA + 0) (colN [e] env i2)
      let a3 ← readAttr cfg (stVA + 1) (colN [e] env i3)
      match a1, a2, a3 with
      | some a1, some a2, some a3 =>
          match vAnchorOf a1, vAnchorOf a2, eAnchorOf a3 with
          | some la, some ra, some ea =>
              match colDecide la ra ea Gen.Collapse.guardMerge Gen.Collapse.guardDims Gen.Collapse.guardEqs
                  Gen.Collapse.guardTable Gen.Collapse.guardMsgs with
              | some (.ok c) => pure c
              | some (.error err) => abort err
              | none => Prog.panic
          | _, _, _ => Prog.panic
      | _, _, _ => Prog.retry
  | _ => Prog.panic

/-- **tie of `is_collapsible`** (the early return when no `VertexAnchor` storage is registered, the reads in order, the
    three anchor reads with their kinds and identifiers, `retry()` unless all three are defined, the decision) -/
theorem C15_gen_collapse_isCollapsible (cfg : Cfg Val) (n e : Nat) : colGuard cfg n e = isCollapsible cfg n e := by
  simp only [colGuard, isCollapsible, C15_gen_collapse_choice, Gen.Collapse.guardKind, Gen.Collapse.guardEarly,
    Gen.Collapse.guardPre, Gen.Collapse.guardReads, colChoiceOf, colInterp, colN, remN, List.getD_cons_zero, List.getD_cons_succ,
    List.nil_append, List.cons_append, Prog.bind_eq, Prog.pure_eq, Prog.bind_assoc, Prog.ret_bind, Nat.reduceEqDiff, if_false,
    Nat.reduceSub, Nat.add_zero, List.getD_eq_getElem?_getD, List.getElem?_cons_zero, List.getElem?_cons_succ, Option.getD_some] <;> rfl

/-- the translated edge-level helper number `f` (0 = `collapse_edge_to_midpoint`, 1 = `collapse_edge_to_base`) on the
    two triples `ps` -/
def colEdge (cfg : Cfg Val) (n : Nat) : Nat → List Nat → P Val Nat
  | 0, ps => colNat ps Gen.Collapse.collapseEdgeToMidpointResult
      (colInterp cfg n (colHalf cfg n) ps 32 [] Gen.Collapse.collapseEdgeToMidpoint)
  | 1, ps => colNat ps Gen.Collapse.collapseEdgeToBaseResult
      (colInterp cfg n (colHalf cfg n) ps 32 [] Gen.Collapse.collapseEdgeToBase)
  | _, _ => Prog.panic

/-- the meaning of the translated top level `collapse_edge` (header of `Gen.Collapse.collapseEdge`); `guard` =
    `is_collapsible`, `edge f` = the edge-level helpers, `orient` = `is_orbit_orientation_consistent`; returns the
    variables bound -/
def colTop (guard : Nat → P Val Collapsible) (edge : Nat → List Nat → P Val Nat) (orient : Nat → P Val Bool)
    (errs : List String) (ps : List Nat) : Nat → List (RemVal Val) → List (Nat × List Nat) → P Val (List (RemVal Val))
  | 0, _, _ => Prog.panic
  | _ + 1, env, [] => pure env
  | f + 1, env, (0, [a, b, v]) :: rest =>
      if colN ps env a = colN ps env b then abort (remErr errs v) else
      colTop guard edge orient errs ps f env rest
  | f + 1, env, (1, [i, a]) :: rest => do
      let v ← rB i (colN ps env a)
      colTop guard edge orient errs ps f (env ++ [.n v]) rest
  | f + 1, env, (24, [i, a, b, v]) :: rest => do
      let x ← rB i (colN ps env a)
      if x ≠ colN ps env b then abort (remErr errs v) else
      colTop guard edge orient errs ps f env rest
  | f + 1, env, (25, [a, c, i, b, d, v]) :: rest => do
      -- `&&` short-circuits: the β is only read when the first comparison is true
      let bad ← (if colN ps env a ≠ colN ps env c then do
        let y ← rB i (colN ps env b)
        pure (decide (y ≠ colN ps env d)) else pure false : P Val Bool)
      if bad then abort (remErr errs v) else
      colTop guard edge orient errs ps f env rest
  | f + 1, env, (26, [x, f0, a1, a2, a3, a4, a5, a6, f1, b1, b2, b3, b4, b5, b6, f2, c1, c2, c3, c4, c5, c6]) :: rest => do
      let c ← guard (colN ps env x)
      let v ← (match c with
        | .average => edge f0 [colN ps env a1, colN ps env a2, colN ps env a3, colN ps env a4, colN ps env a5, colN ps env a6]
        | .left => edge f1 [colN ps env b1, colN ps env b2, colN ps env b3, colN ps env b4, colN ps env b5, colN ps env b6]
        | .right => edge f2 [colN ps env c1, colN ps env c2, colN ps env c3, colN ps env c4, colN ps env c5, colN ps env c6])
      colTop guard edge orient errs ps f (env ++ [.n v]) rest
  | f + 1, env, (27, [a, v]) :: rest => do
      let ok ← orient (colN ps env a)
      if !ok then abort (remErr errs v) else
      colTop guard edge orient errs ps f env rest
  | _, _, _ => Prog.panic

/-- the translated `collapse_edge(t, map, e)`, every callee the translated one except the orientation check `orient` -/
def colCollapseEdge (cfg : Cfg Val) (n : Nat) (orient : Nat → P Val Bool) (e : Nat) : P Val Nat :=
  colNat [e] Gen.Collapse.collapseEdgeResult
    (colTop (colGuard cfg n) (colEdge cfg n) orient Gen.Collapse.collapseErrors [e] 32 [] Gen.Collapse.collapseEdge)

theorem col_errs : remErr Gen.Collapse.collapseErrors 3 = errNullEdge ∧ remErr Gen.Collapse.collapseErrors 4 = errBadTopology ∧
    remErr Gen.Collapse.collapseErrors 2 = errInvertedOrientation := ⟨rfl, rfl, rfl⟩

/-- **tie of the top level `collapse_edge`**: the NullEdge guard, the five β reads in order, the two BadTopology guards (the
    second with its short-circuit `&&`), the match on the answer of the translated `is_collapsible` into the translated
    edge-level helpers with their two triples, the InvertedOrientation abort, the identifier returned -/
theorem C15_gen_collapse_edge (cfg : Cfg Val) (n e : Nat) :
    colCollapseEdge cfg n (isOrbitOrientationConsistent n) e = collapseEdge cfg n e := by
  simp only [colCollapseEdge, Gen.Collapse.collapseEdge, colTop, colEdge, colN, remN,
    C15_gen_collapse_isCollapsible, C15_gen_collapse_edgeToMidpoint, C15_gen_collapse_edgeToBase,
    col_errs.1, col_errs.2.1, col_errs.2.2,
    List.getD_cons_zero, List.getD_cons_succ, List.nil_append, List.cons_append, Nat.reduceEqDiff, if_false, if_true, Nat.reduceSub]
  simp only [colNat, Gen.Collapse.collapseEdgeResult, colN, remN, collapseEdge, abort, Prog.abort_bind,
    List.getD_cons_zero, List.getD_cons_succ, List.nil_append, List.cons_append,
    Prog.bind_eq, Prog.pure_eq, Prog.bind_assoc, Prog.ret_bind, colIteBind, Nat.reduceEqDiff, if_false, if_true, Nat.reduceSub,
    Prog.bind_ret]
  rfl

/-- **C15 (b) stated on the translated decision**: the `unreachable!()` of the translated `is_collapsible` is unreachable -/
theorem C15_gen_collapse_choice_total (la ra : VertexAnchor) (ea : EdgeAnchor) :
    colDecide la ra ea Gen.Collapse.guardMerge Gen.Collapse.guardDims Gen.Collapse.guardEqs Gen.Collapse.guardTable
      Gen.Collapse.guardMsgs ≠ none := by
  rw [C15_gen_collapse_choice]
  exact C15_collapse_choice_total la ra ea

/-- the translated half-cell helper RUNS: on the unit square it gives the outcome of the model -/
example : (atomically (colHalf (stdCfg 3 0) unitSquare.n 0 1 2 3) unitSquare).1 =
    (atomically (collapseHalfMid (stdCfg 3 0) unitSquare.n 1 2 3) unitSquare).1 := by
  rw [C15_gen_collapse_halfMid]

end HC.GenTie
