/-
  C19, third part — "moderate magnitude" made explicit: the C19 operators in BOUNDED-exponent arithmetic.

  `rndB p emin emax` (Model/Rounding.lean) is IEEE round-to-nearest-even with the exponent range of a real
  format (binary64: `rndB 53 (-1022) 1023`, binary32: `rndB 24 (-126) 127`): gradual underflow below `2^emin`,
  `none` (an infinity) above the largest finite number.  The evaluators `…B` below run the expressions of the
  Rust operators with it, operation by operation, in the `Option` monad.

  THEOREMS (`C19c_*`).  If the coordinates are multiples of `2^g` of absolute value at most `2^h`
  (`G g h`, Lemmas/RoundingRange.lean — e.g. every `p`-bit float with `2^lo ≤ |x| ≤ 2^h`, or zero, for
  `g = lo − p`: `G.of_representable`), and `g`, `h` satisfy the explicit inequalities of each theorem, then no
  operation overflows or underflows: every intermediate result is zero or in the normal range, the bounded
  evaluator returns `some v`, and `v` is exactly the value of the model operator in the UNBOUNDED arithmetic
  `FlR (rnd p)` — so every `C19b_*` theorem (sign band, bounds, …) holds for the bounded arithmetic as well.
  For binary64 all conditions hold with `g = −340`, `h = 340` (floats with `2^−287 ≤ |x| ≤ 2^340`, or 0), for
  binary32 with `g = −42`, `h = 41` (`2^−18 ≤ |x| ≤ 2^41`); the two-level operators (dot, cross, orientation)
  alone allow `g = −511, h = 510` resp. `g = −63, h = 62` (`C19c_orient_f64`, `C19c_orient_f32`).

  PARTIAL: scalar division `v / k` is covered for quotients (`C19c_div`), whose results are not on a grid —
  it cannot be chained further by these lemmas; `unit_dir`/`normal_dir` (sqrt / hypot) are not covered here
  (see Props/C20c.lean for a normalisation under an explicit assumption on sqrt).
-/
import Honeycomb.Props.C19b
import Honeycomb.Lemmas.RoundingRange

set_option linter.unusedSimpArgs false

namespace HC.C19
open HC.Geo HC.Rounding

variable (p : ℕ) (emin emax : ℤ)

/-! ## bounded evaluators (the Rust expressions, operation by operation) -/

/-- `x - y`, `x + y`, `x * y`, `x / y` -/
def subB (x y : ℚ) : Option ℚ := rndB p emin emax (x - y)
def addB (x y : ℚ) : Option ℚ := rndB p emin emax (x + y)
def mulB (x y : ℚ) : Option ℚ := rndB p emin emax (x * y)
def divB (x y : ℚ) : Option ℚ := rndB p emin emax (x / y)

/-- `Vector2::dot`: `x0*y0 + x1*y1` -/
def dot2B (x0 x1 y0 y1 : ℚ) : Option ℚ := do
  let a ← mulB p emin emax x0 y0
  let b ← mulB p emin emax x1 y1
  addB p emin emax a b

/-- `Vector3::dot`: `x0*y0 + x1*y1 + x2*y2` -/
def dot3B (x0 x1 x2 y0 y1 y2 : ℚ) : Option ℚ := do
  let a ← mulB p emin emax x0 y0
  let b ← mulB p emin emax x1 y1
  let s ← addB p emin emax a b
  let c ← mulB p emin emax x2 y2
  addB p emin emax s c

/-- one component of `Vector3::cross`: `x*y - z*w` -/
def crossB (x y z w : ℚ) : Option ℚ := do
  let a ← mulB p emin emax x y
  let b ← mulB p emin emax z w
  subB p emin emax a b

/-- `Vertex2::cross_product_from_vertices` -/
def orientB (a b c : P2 ℚ) : Option ℚ := do
  let A ← subB p emin emax b.x a.x
  let B ← subB p emin emax c.y b.y
  let C ← subB p emin emax b.y a.y
  let D ← subB p emin emax c.x b.x
  let P ← mulB p emin emax A B
  let Q ← mulB p emin emax C D
  subB p emin emax P Q

/-- `(v + u) - v`, one component -/
def addsubB (v u : ℚ) : Option ℚ := do
  let s ← addB p emin emax v u
  subB p emin emax s v

/-- `Vertex::average`, one component: `(a + b) / two` -/
def avgB (a b : ℚ) : Option ℚ := do
  let s ← addB p emin emax a b
  divB p emin emax s 2

/-- `(a × b)·w` with the cross product given by its three computed components -/
def crossDotB (a b w : V3 ℚ) : Option ℚ := do
  let c0 ← crossB p emin emax a.y b.z a.z b.y
  let c1 ← crossB p emin emax a.z b.x a.x b.z
  let c2 ← crossB p emin emax a.x b.y a.y b.x
  dot3B p emin emax c0 c1 c2 w.x w.y w.z

/-- the same inputs as numbers of the unbounded arithmetic -/
def lift2 (a : P2 ℚ) : P2 (FlR (rnd p)) := ⟨⟨a.x⟩, ⟨a.y⟩⟩
def liftV2 (a : V2 ℚ) : V2 (FlR (rnd p)) := ⟨⟨a.x⟩, ⟨a.y⟩⟩
def liftV3 (a : V3 ℚ) : V3 (FlR (rnd p)) := ⟨⟨a.x⟩, ⟨a.y⟩, ⟨a.z⟩⟩
def liftP3 (a : P3 ℚ) : P3 (FlR (rnd p)) := ⟨⟨a.x⟩, ⟨a.y⟩, ⟨a.z⟩⟩

variable {p emin emax} (hp : 0 < p)
include hp

/-! ## one operation -/

theorem C19c_sub {g h : ℤ} {x y : ℚ} (hx : G g h x) (hy : G g h y) (hg : emin ≤ g) (hh : h + 1 ≤ emax) :
    subB p emin emax x y = some (rnd p (x - y)) ∧ G g (h + 1) (rnd p (x - y)) :=
  ⟨rndB_of_G hp (hx.sub hy) hg hh, (hx.sub hy).rnd hp⟩

theorem C19c_add {g h : ℤ} {x y : ℚ} (hx : G g h x) (hy : G g h y) (hg : emin ≤ g) (hh : h + 1 ≤ emax) :
    addB p emin emax x y = some (rnd p (x + y)) ∧ G g (h + 1) (rnd p (x + y)) :=
  ⟨rndB_of_G hp (hx.add hy) hg hh, (hx.add hy).rnd hp⟩

theorem C19c_mul {gr1 h1 g2 h2 : ℤ} {x y : ℚ} (hx : G gr1 h1 x) (hy : G g2 h2 y) (hg : emin ≤ gr1 + g2)
    (hh : h1 + h2 ≤ emax) :
    mulB p emin emax x y = some (rnd p (x * y)) ∧ G (gr1 + g2) (h1 + h2) (rnd p (x * y)) :=
  ⟨rndB_of_G hp (hx.mul hy) hg hh, (hx.mul hy).rnd hp⟩

/-- quotient of two nonzero grid numbers (PARTIAL: the result is in range but on no grid) -/
theorem C19c_div {g h : ℤ} {x y : ℚ} (hx : G g h x) (hy : G g h y) (hy0 : y ≠ 0)
    (hg : emin ≤ g - h) (hh : h - g ≤ emax) :
    divB p emin emax x y = some (rnd p (x / y)) := by
  apply rndB_eq_rnd hp
  · by_cases hx0 : x = 0
    · left; simp [hx0]
    · right
      have hyp : 0 < |y| := abs_pos.mpr hy0
      rw [abs_div, le_div_iff₀ hyp]
      calc (2 : ℚ) ^ emin * |y| ≤ 2 ^ (g - h) * 2 ^ h :=
            mul_le_mul (two_zpow_le hg) hy.2 (abs_nonneg _) (two_zpow_pos _).le
        _ = 2 ^ g := by rw [← two_zpow_add]; congr 1; ring
        _ ≤ |x| := hx.lower hx0
  · have hyp : 0 < |y| := abs_pos.mpr hy0
    rw [abs_div, div_le_iff₀ hyp]
    calc |x| ≤ (2 : ℚ) ^ h := hx.2
      _ = 2 ^ (h - g) * 2 ^ g := by rw [← two_zpow_add]; congr 1; ring
      _ ≤ 2 ^ emax * |y| := mul_le_mul (two_zpow_le hh) (hy.lower hy0) (two_zpow_pos _).le (two_zpow_pos _).le

/-! ## the operators -/

/-- **(v + u) − v**, componentwise: no overflow, no underflow, and the value of the unbounded model -/
theorem C19c_addsub {g h : ℤ} {v u : ℚ} (hv : G g h v) (hu : G g h u) (hg : emin ≤ g) (hh : h + 2 ≤ emax) :
    addsubB p emin emax v u = some (rnd p (rnd p (v + u) - v)) := by
  obtain ⟨e1, gr1⟩ := C19c_add (emin := emin) (emax := emax) hp hv hu hg (by omega)
  have := (C19c_sub (emin := emin) (emax := emax) hp gr1 (hv.mono le_rfl (by omega : h ≤ h + 1)) hg (by omega)).1
  simp only [addsubB, e1, Option.bind_eq_bind, Option.bind_some, this]

/-- **dot product (2-D)** -/
theorem C19c_dot2 {g h : ℤ} {x0 x1 y0 y1 : ℚ} (h0 : G g h x0) (h1 : G g h x1) (k0 : G g h y0) (k1 : G g h y1)
    (hg : emin ≤ g + g) (hh : h + h + 1 ≤ emax) :
    dot2B p emin emax x0 x1 y0 y1 = some (V2.dot (liftV2 p ⟨x0, x1⟩) (liftV2 p ⟨y0, y1⟩)).val := by
  obtain ⟨e1, gr1⟩ := C19c_mul (emin := emin) (emax := emax) hp h0 k0 hg (by omega)
  obtain ⟨e2, g2⟩ := C19c_mul (emin := emin) (emax := emax) hp h1 k1 hg (by omega)
  have e3 := (C19c_add (emin := emin) (emax := emax) hp gr1 g2 hg hh).1
  simp only [dot2B, e1, e2, e3, Option.bind_eq_bind, Option.bind_some, V2.dot, liftV2, FlR.add_val, FlR.mul_val]

/-- **dot product (3-D)** -/
theorem C19c_dot3 {g h : ℤ} {x0 x1 x2 y0 y1 y2 : ℚ} (h0 : G g h x0) (h1 : G g h x1) (h2 : G g h x2)
    (k0 : G g h y0) (k1 : G g h y1) (k2 : G g h y2) (hg : emin ≤ g + g) (hh : h + h + 2 ≤ emax) :
    dot3B p emin emax x0 x1 x2 y0 y1 y2
      = some (V3.dot (liftV3 p ⟨x0, x1, x2⟩) (liftV3 p ⟨y0, y1, y2⟩)).val := by
  obtain ⟨e1, gr1⟩ := C19c_mul (emin := emin) (emax := emax) hp h0 k0 hg (by omega)
  obtain ⟨e2, g2⟩ := C19c_mul (emin := emin) (emax := emax) hp h1 k1 hg (by omega)
  obtain ⟨e3, g3⟩ := C19c_add (emin := emin) (emax := emax) hp gr1 g2 hg (by omega)
  obtain ⟨e4, g4⟩ := C19c_mul (emin := emin) (emax := emax) hp h2 k2 hg (by omega)
  have e5 := (C19c_add (emin := emin) (emax := emax) hp g3 (g4.mono le_rfl (by omega : h + h ≤ h + h + 1)) hg (by omega)).1
  simp only [dot3B, e1, e2, e3, e4, e5, Option.bind_eq_bind, Option.bind_some, V3.dot, liftV3, FlR.add_val,
    FlR.mul_val]

/-- one component of the cross product -/
theorem C19c_crossB {g h : ℤ} {x y z w : ℚ} (hx : G g h x) (hy : G g h y) (hz : G g h z) (hw : G g h w)
    (hg : emin ≤ g + g) (hh : h + h + 1 ≤ emax) :
    crossB p emin emax x y z w = some (rnd p (rnd p (x * y) - rnd p (z * w))) ∧
      G (g + g) (h + h + 1) (rnd p (rnd p (x * y) - rnd p (z * w))) := by
  obtain ⟨e1, gr1⟩ := C19c_mul (emin := emin) (emax := emax) hp hx hy hg (by omega)
  obtain ⟨e2, g2⟩ := C19c_mul (emin := emin) (emax := emax) hp hz hw hg (by omega)
  obtain ⟨e3, g3⟩ := C19c_sub (emin := emin) (emax := emax) hp gr1 g2 hg hh
  exact ⟨by simp only [crossB, e1, e2, e3, Option.bind_eq_bind, Option.bind_some], g3⟩

/-- **cross product**: the three bounded components are those of the unbounded model -/
theorem C19c_cross {g h : ℤ} {a b : V3 ℚ} (hax : G g h a.x) (hay : G g h a.y) (haz : G g h a.z)
    (hbx : G g h b.x) (hby : G g h b.y) (hbz : G g h b.z) (hg : emin ≤ g + g) (hh : h + h + 1 ≤ emax) :
    crossB p emin emax a.y b.z a.z b.y = some (V3.cross (liftV3 p a) (liftV3 p b)).x.val ∧
    crossB p emin emax a.z b.x a.x b.z = some (V3.cross (liftV3 p a) (liftV3 p b)).y.val ∧
    crossB p emin emax a.x b.y a.y b.x = some (V3.cross (liftV3 p a) (liftV3 p b)).z.val := by
  refine ⟨?_, ?_, ?_⟩
  · exact (C19c_crossB (emin := emin) (emax := emax) hp hay hbz haz hby hg hh).1
  · exact (C19c_crossB (emin := emin) (emax := emax) hp haz hbx hax hbz hg hh).1
  · exact (C19c_crossB (emin := emin) (emax := emax) hp hax hby hay hbx hg hh).1

/-- **orientation product**: under `emin ≤ 2g` and `2h + 3 ≤ emax` none of the 7 operations of
    `cross_product_from_vertices` overflows or underflows, and the result is that of the unbounded model —
    so `C19b_orient_sign` (computed sign = exact sign outside the rounding band) holds for it
    (`0 ≤ h`: the cap is at least 1) -/
theorem C19c_orient {g h : ℤ} {a b c : P2 ℚ} (hax : G g h a.x) (hay : G g h a.y) (hbx : G g h b.x)
    (hby : G g h b.y) (hcx : G g h c.x) (hcy : G g h c.y) (hg1 : emin ≤ g) (hg : emin ≤ g + g)
    (h0 : 0 ≤ h) (hh : h + h + 3 ≤ emax) :
    orientB p emin emax a b c = some (P2.orient (lift2 p a) (lift2 p b) (lift2 p c)).val := by
  obtain ⟨e1, gr1⟩ := C19c_sub (emin := emin) (emax := emax) hp hbx hax hg1 (by omega)
  obtain ⟨e2, g2⟩ := C19c_sub (emin := emin) (emax := emax) hp hcy hby hg1 (by omega)
  obtain ⟨e3, g3⟩ := C19c_sub (emin := emin) (emax := emax) hp hby hay hg1 (by omega)
  obtain ⟨e4, g4⟩ := C19c_sub (emin := emin) (emax := emax) hp hcx hbx hg1 (by omega)
  obtain ⟨e5, g5⟩ := C19c_mul (emin := emin) (emax := emax) hp gr1 g2 hg (by omega)
  obtain ⟨e6, g6⟩ := C19c_mul (emin := emin) (emax := emax) hp g3 g4 hg (by omega)
  have e7 := (C19c_sub (emin := emin) (emax := emax) hp g5 g6 hg (by omega)).1
  simp only [orientB, e1, e2, e3, e4, e5, e6, e7, Option.bind_eq_bind, Option.bind_some, P2.orient, lift2,
    FlR.sub_val, FlR.mul_val]

/-- **average**, one component -/
theorem C19c_avg {g h : ℤ} {a b : ℚ} (ha : G g h a) (hb : G g h b) (hg : emin ≤ g - 1) (hh : h + 1 ≤ emax) :
    avgB p emin emax a b = some (rnd p (rnd p (a + b) / 2)) := by
  obtain ⟨e1, gr1⟩ := C19c_add (emin := emin) (emax := emax) hp ha hb (by omega) hh
  have e2 : divB p emin emax (rnd p (a + b)) 2 = some (rnd p (rnd p (a + b) / 2)) :=
    rndB_of_G hp gr1.half hg (by omega)
  simp only [avgB, e1, e2, Option.bind_eq_bind, Option.bind_some]

/-- **(a × b)·w**: three levels of products; needs `emin ≤ 3g`, `3h + 3 ≤ emax` -/
theorem C19c_crossDot {g h : ℤ} {a b w : V3 ℚ} (hax : G g h a.x) (hay : G g h a.y) (haz : G g h a.z)
    (hbx : G g h b.x) (hby : G g h b.y) (hbz : G g h b.z) (hwx : G g h w.x) (hwy : G g h w.y)
    (hwz : G g h w.z) (hg2 : emin ≤ g + g) (hg : emin ≤ g + g + g) (h0 : 0 ≤ h)
    (hh : h + h + 1 + h + 2 ≤ emax) :
    crossDotB p emin emax a b w
      = some (V3.dot (V3.cross (liftV3 p a) (liftV3 p b)) (liftV3 p w)).val := by
  obtain ⟨c0, k0⟩ := C19c_crossB (emin := emin) (emax := emax) hp hay hbz haz hby hg2 (by omega)
  obtain ⟨c1, k1⟩ := C19c_crossB (emin := emin) (emax := emax) hp haz hbx hax hbz hg2 (by omega)
  obtain ⟨c2, k2⟩ := C19c_crossB (emin := emin) (emax := emax) hp hax hby hay hbx hg2 (by omega)
  obtain ⟨e1, gr1⟩ := C19c_mul (emin := emin) (emax := emax) hp k0 hwx hg (by omega)
  obtain ⟨e2, g2⟩ := C19c_mul (emin := emin) (emax := emax) hp k1 hwy hg (by omega)
  obtain ⟨e3, g3⟩ := C19c_add (emin := emin) (emax := emax) hp gr1 g2 hg (by omega)
  obtain ⟨e4, g4⟩ := C19c_mul (emin := emin) (emax := emax) hp k2 hwz hg (by omega)
  have e5 := (C19c_add (emin := emin) (emax := emax) hp g3 (g4.mono le_rfl (by omega : h + h + 1 + h ≤ h + h + 1 + h + 1)) hg (by omega)).1
  simp only [crossDotB, dot3B, c0, c1, c2, e1, e2, e3, e4, e5, Option.bind_eq_bind, Option.bind_some, V3.dot,
    V3.cross, liftV3, FlR.add_val, FlR.mul_val, FlR.sub_val]

omit hp in
/-- integers are on every grid `2^g`, `g ≤ 0` -/
theorem G_intCast {g h : ℤ} (n : ℤ) (hg : g ≤ 0) (hn : |(n : ℚ)| ≤ (2 : ℚ) ^ h) : G g h (n : ℚ) :=
  G.mono (g := 0) ⟨⟨n, by simp⟩, hn⟩ hg le_rfl

/-! ## the real formats -/

omit hp in
/-- **binary64**: coordinates that are multiples of `2^-511` of absolute value at most `2^510` (every binary64
    number with `2^-458 ≤ |x| ≤ 2^510`, and zero): the orientation product neither overflows nor underflows
    and is the value of the idealised arithmetic -/
theorem C19c_orient_f64 {a b c : P2 ℚ} (hax : G (-511) 510 a.x) (hay : G (-511) 510 a.y)
    (hbx : G (-511) 510 b.x) (hby : G (-511) 510 b.y) (hcx : G (-511) 510 c.x) (hcy : G (-511) 510 c.y) :
    orientB 53 (-1022) 1023 a b c = some (P2.orient (lift2 53 a) (lift2 53 b) (lift2 53 c)).val :=
  C19c_orient (p := 53) (by norm_num) hax hay hbx hby hcx hcy (by norm_num) (by norm_num) (by norm_num)
    (by norm_num)

omit hp in
/-- **binary32**: multiples of `2^-63` of absolute value at most `2^62` (binary32 numbers with
    `2^-39 ≤ |x| ≤ 2^62`, and zero) -/
theorem C19c_orient_f32 {a b c : P2 ℚ} (hax : G (-63) 62 a.x) (hay : G (-63) 62 a.y)
    (hbx : G (-63) 62 b.x) (hby : G (-63) 62 b.y) (hcx : G (-63) 62 c.x) (hcy : G (-63) 62 c.y) :
    orientB 24 (-126) 127 a b c = some (P2.orient (lift2 24 a) (lift2 24 b) (lift2 24 c)).val :=
  C19c_orient (p := 24) (by norm_num) hax hay hbx hby hcx hcy (by norm_num) (by norm_num) (by norm_num)
    (by norm_num)

omit hp in
/-- every binary64 number with `2^-458 ≤ |x| ≤ 2^510`, or zero, satisfies the hypothesis of `C19c_orient_f64` -/
theorem C19c_f64_on_grid {x : ℚ} (hr : Representable 53 x) (hlo : x = 0 ∨ (2 : ℚ) ^ (-458 : ℤ) ≤ |x|)
    (hhi : |x| ≤ (2 : ℚ) ^ (510 : ℤ)) : G (-511) 510 x := by
  have := G.of_representable hr hlo hhi
  norm_num at this
  exact this

omit hp in
theorem C19c_f32_on_grid {x : ℚ} (hr : Representable 24 x) (hlo : x = 0 ∨ (2 : ℚ) ^ (-39 : ℤ) ≤ |x|)
    (hhi : |x| ≤ (2 : ℚ) ^ (62 : ℤ)) : G (-63) 62 x := by
  have := G.of_representable hr hlo hhi
  norm_num at this
  exact this

/-! ## Non-vacuity -/
section Examples
omit hp

theorem G_one {g h : ℤ} (hg : g ≤ 0) (hh : 0 ≤ h) : G g h (1 : ℚ) := by
  have := G_intCast (g := g) (h := h) 1 hg (by
    have : (2 : ℚ) ^ (0 : ℤ) ≤ 2 ^ h := two_zpow_le hh
    simpa using this)
  simpa using this
theorem G_f64_zero : G (-511) 510 (0 : ℚ) := G.zero _ _
theorem G_f64_one : G (-511) 510 (1 : ℚ) := G_one (by norm_num) (by norm_num)

/-- the standard frame in binary64: no overflow, no underflow, value of the idealised arithmetic -/
example : orientB 53 (-1022) 1023 ⟨0, 0⟩ ⟨1, 0⟩ ⟨0, 1⟩
    = some (P2.orient (lift2 53 ⟨0, 0⟩) (lift2 53 ⟨1, 0⟩) (lift2 53 ⟨0, 1⟩)).val :=
  C19c_orient_f64 G_f64_zero G_f64_zero G_f64_one G_f64_zero G_f64_zero G_f64_one
/-- … and the bounded evaluator really computes: the orientation product of the standard frame is 1 -/
example : orientB 53 (-1022) 1023 ⟨0, 0⟩ ⟨1, 0⟩ ⟨0, 1⟩ = some 1 := by decide +kernel
/-- outside the range the bounded arithmetic differs: `2^600 · 2^600` overflows binary64 -/
example : mulB 53 (-1022) 1023 (2 ^ 600) (2 ^ 600) = none := by decide +kernel
/-- … and `2^-600 · 2^-600` underflows to zero, whereas the unbounded rounding keeps `2^-1200` -/
example : mulB 53 (-1022) 1023 (1 / 2 ^ 600) (1 / 2 ^ 600) = some 0 ∧ rnd 53 (1 / 2 ^ 600 * (1 / 2 ^ 600)) ≠ 0 := by
  decide +kernel
example : subB 53 (-1022) 1023 1 0 = some (rnd 53 (1 - 0)) := (C19c_sub (p := 53) (by norm_num) G_f64_one G_f64_zero (by norm_num) (by norm_num)).1
example : addB 53 (-1022) 1023 1 1 = some (rnd 53 (1 + 1)) := (C19c_add (p := 53) (by norm_num) G_f64_one G_f64_one (by norm_num) (by norm_num)).1
example : mulB 53 (-1022) 1023 1 1 = some (rnd 53 (1 * 1)) := (C19c_mul (p := 53) (by norm_num) G_f64_one G_f64_one (by norm_num) (by norm_num)).1
example : divB 53 (-1022) 1023 0 1 = some (rnd 53 (0 / 1)) :=
  C19c_div (p := 53) (g := -500) (h := 500) (by norm_num) (G.zero _ _)
    (G_one (by norm_num) (by norm_num)) (by norm_num) (by norm_num) (by norm_num)
example : addsubB 53 (-1022) 1023 1 1 = some (rnd 53 (rnd 53 (1 + 1) - 1)) :=
  C19c_addsub (p := 53) (by norm_num) G_f64_one G_f64_one (by norm_num) (by norm_num)
example := C19c_dot2 (p := 53) (emin := -1022) (emax := 1023) (by norm_num) G_f64_one G_f64_zero G_f64_zero G_f64_one (by norm_num) (by norm_num)
example := C19c_dot3 (p := 53) (emin := -1022) (emax := 1023) (by norm_num) G_f64_one G_f64_zero G_f64_zero G_f64_zero G_f64_one G_f64_zero (by norm_num) (by norm_num)
example := C19c_crossB (p := 53) (emin := -1022) (emax := 1023) (by norm_num) G_f64_one G_f64_zero G_f64_zero G_f64_one (by norm_num) (by norm_num)
example := C19c_cross (p := 53) (emin := -1022) (emax := 1023) (a := ⟨1, 0, 0⟩) (b := ⟨0, 1, 0⟩) (by norm_num)
  G_f64_one G_f64_zero G_f64_zero G_f64_zero G_f64_one G_f64_zero (by norm_num) (by norm_num)
example : avgB 53 (-1022) 1023 1 0 = some (rnd 53 (rnd 53 (1 + 0) / 2)) :=
  C19c_avg (p := 53) (by norm_num) G_f64_one G_f64_zero (by norm_num) (by norm_num)
example := C19c_crossDot (p := 53) (emin := -1022) (emax := 1023) (a := ⟨1, 0, 0⟩) (b := ⟨0, 1, 0⟩) (w := ⟨1, 0, 0⟩)
  (g := -340) (h := 340) (by norm_num)
  (G_one (by norm_num) (by norm_num)) (G.zero _ _) (G.zero _ _) (G.zero _ _) (G_one (by norm_num) (by norm_num))
  (G.zero _ _) (G_one (by norm_num) (by norm_num)) (G.zero _ _) (G.zero _ _)
  (by norm_num) (by norm_num) (by norm_num) (by norm_num)
example : G (-63) 62 (3 / 8 : ℚ) :=
  C19c_f32_on_grid ⟨3, -3, by norm_num, by norm_num⟩ (Or.inr (by
    have : (2 : ℚ) ^ (-39 : ℤ) ≤ 2 ^ (-2 : ℤ) := two_zpow_le (by norm_num)
    have e : (2 : ℚ) ^ (-2 : ℤ) = 1 / 4 := by norm_num
    rw [e] at this; rw [abs_of_pos (by norm_num)]; linarith)) (by
    have : (2 : ℚ) ^ (0 : ℤ) ≤ 2 ^ (62 : ℤ) := two_zpow_le (by norm_num)
    rw [abs_of_pos (by norm_num)]; simp at this; linarith)
example : G (-511) 510 (3 / 8 : ℚ) :=
  C19c_f64_on_grid ⟨3, -3, by norm_num, by norm_num⟩ (Or.inr (by
    have : (2 : ℚ) ^ (-458 : ℤ) ≤ 2 ^ (-2 : ℤ) := two_zpow_le (by norm_num)
    have e : (2 : ℚ) ^ (-2 : ℤ) = 1 / 4 := by norm_num
    rw [e] at this; rw [abs_of_pos (by norm_num)]; linarith)) (by
    rw [abs_of_pos (by norm_num)]
    exact le_trans (by norm_num : (3 / 8 : ℚ) ≤ 2 ^ (0 : ℤ)) (two_zpow_le (by norm_num)))
example := C19c_orient_f32 (a := ⟨0, 0⟩) (b := ⟨0, 0⟩) (c := ⟨0, 0⟩) (G.zero _ _) (G.zero _ _) (G.zero _ _)
  (G.zero _ _) (G.zero _ _) (G.zero _ _)
example : G (-511) 510 ((7 : ℤ) : ℚ) := G_intCast 7 (by norm_num) (by
  rw [abs_of_pos (by norm_num)]
  exact le_trans (by norm_num : (((7 : ℤ) : ℚ)) ≤ 2 ^ (3 : ℤ)) (two_zpow_le (by norm_num)))

end Examples

end HC.C19
