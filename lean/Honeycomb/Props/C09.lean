/-
  C09 — cmap text serialization round-trips every 2-map (token level).

  `C09_roundtrip`: for every well-formed 2-map `m` (any size below 2^32 darts, open and closed
  cells, isolated and removed darts, defined and undefined vertices), loading the token lines
  written by `serialize` succeeds and yields a map with the same number of darts, the same β
  images, the same removal flags, the same value (or absence of value) on every vertex id, and
  serializing that map gives the same token lines again.

  What is assumed (explicit hypotheses, no axiom):
  * `CoordsPrintable m`: the printed coordinate tokens contain no `#` and are read back by the
    model's coordinate parser as the same rational (coordinates are opaque tokens at this level;
    the float printing/parsing of the implementation is validated by `rt`, not proved);
  * `PlainVer ver`: the version token has no `#` and does not start with `[`;
  * `m.n ≤ 2^32`: dart ids are `u32`;
  * `m.unused 0 = false`: the null dart is not flagged as removed (the validating loader rejects
    the id 0 in `[UNUSED]`, while `serialize` prints it when the flag is set).
  The numeral round trip `parseU32 (natTok v) = some v` is proved (`parseU32_natTok`).
-/
import Honeycomb.Lemmas.CmapText

namespace HC.C09
open HC HC.CmapText

/-- the vertex slots that `serialize` prints hold 2-D points whose coordinate tokens are
    `#`-free and parse back to the same value -/
structure CoordsPrintable (m : Map Val) : Prop where
  pt : ∀ v ∈ iterVertices2 m, ∀ val, m.att 0 v = some val →
    ∃ x y, val = .pt x y 0 ∧ parseCoord (ratStr x) = some x ∧ parseCoord (ratStr y) = some y ∧
      NoHash (ratStr x) ∧ NoHash (ratStr y)

def fx (m : Map Val) (v : Nat) : Rat := match m.att 0 v with | some (.pt x _ _) => x | _ => 0
def fy (m : Map Val) (v : Nat) : Rat := match m.att 0 v with | some (.pt _ y _) => y | _ => 0

/-- the `[VERTICES]` lines as a map over the vertex ids that hold a value -/
theorem vertexLines_eq (m : Map Val) : ∀ (l : List Nat),
    (∀ v ∈ l, ∀ val, m.att 0 v = some val → ∃ x y, val = .pt x y 0) →
    l.filterMap (vertexLine m) =
      (l.filter fun v => (m.att 0 v).isSome).map fun v => [natTok v, ratStr (fx m v), ratStr (fy m v)]
  | [], _ => rfl
  | v :: l, h => by
    have ih := vertexLines_eq m l (fun w hw => h w (by simp [hw]))
    cases hv : m.att 0 v with
    | none =>
      simp only [List.filterMap_cons, vertexLine, hv, List.filter_cons, Option.isSome_none]
      simpa using ih
    | some val =>
      obtain ⟨x, y, rfl⟩ := h v (by simp) val hv
      have e1 : fx m v = x := by simp [fx, hv]
      have e2 : fy m v = y := by simp [fy, hv]
      simp only [List.filterMap_cons, vertexLine, hv, List.filter_cons, Option.isSome_some, if_true,
        List.map_cons, e1, e2]
      rw [ih]

theorem getD_map_range' (f : Nat → Nat) (n e : Nat) :
    ((List.range' 0 n).map f).getD e 0 = if e < n then f e else 0 := by
  by_cases h : e < n
  · simp [List.getD_eq_getElem?_getD, h]
  · simp [List.getD_eq_getElem?_getD, h]

theorem mem_iterVertices2_props {m : Map Val} {v : Nat} (h : v ∈ iterVertices2 m) :
    v ≠ 0 ∧ m.unused v = false := by
  unfold iterVertices2 iterCells at h
  have := (List.mem_filter.mp h).2
  simp only [decide_eq_true_eq] at this
  exact ⟨this.1, by simpa using this.2.1⟩

/-- **C09** (token level).  The hypothesis `m.unused 0 = false` is needed since the loader fix
    7170072: `serialize` prints the null dart in `[UNUSED]` when its flag is set (reachable with
    `remove_free_dart(0)`), and the validating loader rejects the id 0 there. -/
theorem C09_roundtrip (ver : String) (hver : PlainVer ver) (ns : Nat) (hns : 0 < ns)
    (m : Map Val) (hwf : WF 3 m) (hu0 : m.unused 0 = false) (h32 : m.n ≤ u32Bound)
    (hc : CoordsPrintable m) :
    ∃ m', load ns (serialize ver m) = .ok m' ∧ m'.n = m.n ∧
      (∀ i, i < 3 → ∀ d, m'.β i d = m.β i d) ∧ (∀ d, m'.unused d = m.unused d) ∧
      (∀ v ∈ iterVertices2 m, m'.att 0 v = m.att 0 v) ∧ serialize ver m' = serialize ver m := by
  have hs : Sized 3 m := hwf.toSized
  have hn : 0 < m.n := hs.npos
  have hpt : ∀ v ∈ iterVertices2 m, ∀ val, m.att 0 v = some val → ∃ x y, val = .pt x y 0 := by
    intro v hv val h
    obtain ⟨x, y, e, _⟩ := hc.pt v hv val h
    exact ⟨x, y, e⟩
  -- the vertex ids holding a value, and their lines
  let vs := (iterVertices2 m).filter fun v => (m.att 0 v).isSome
  have hV := vertexLines_eq m (iterVertices2 m) hpt
  have hvs : ∀ v ∈ vs, v ∈ iterVertices2 m ∧ ∃ x y, m.att 0 v = some (.pt x y 0) ∧
      parseCoord (ratStr x) = some x ∧ parseCoord (ratStr y) = some y ∧
      NoHash (ratStr x) ∧ NoHash (ratStr y) := by
    intro v hv
    have h1 := (List.mem_filter.mp hv)
    refine ⟨h1.1, ?_⟩
    cases hav : m.att 0 v with
    | none => rw [hav] at h1; simp at h1
    | some val =>
      obtain ⟨x, y, rfl, r⟩ := hc.pt v h1.1 val hav
      exact ⟨x, y, rfl, r⟩
  have hfx : ∀ v ∈ vs, m.att 0 v = some (.pt (fx m v) (fy m v) 0) ∧
      parseCoord (ratStr (fx m v)) = some (fx m v) ∧ parseCoord (ratStr (fy m v)) = some (fy m v) ∧
      NoHash (ratStr (fx m v)) ∧ NoHash (ratStr (fy m v)) := by
    intro v hv
    obtain ⟨_, x, y, e, r⟩ := hvs v hv
    have e1 : fx m v = x := by simp [fx, e]
    have e2 : fy m v = y := by simp [fy, e]
    rw [e1, e2]
    exact ⟨e, r⟩
  have hdata : ∀ l ∈ (iterVertices2 m).filterMap (vertexLine m), DataLine l := by
    rw [hV]
    intro l hl
    obtain ⟨v, hv, rfl⟩ := List.mem_map.mp hl
    obtain ⟨_, _, _, n1, n2⟩ := hfx v hv
    refine ⟨by simp, ?_, ?_⟩
    · intro t ht
      simp only [List.mem_cons, List.not_mem_nil, or_false] at ht
      rcases ht with rfl | rfl | rfl
      · exact natTok_noHash _
      · exact n1
      · exact n2
    · simp only [List.head?_cons, Option.bind_some]
      obtain ⟨c, hc1, hc2⟩ := natTok_head v
      rw [hc1]
      intro e
      injection e with e
      subst e
      simp [Char.isDigit] at hc2
  -- stage 1: the section parser
  have hparse := parseFile_serialize hver m hn (by unfold usizeBound; unfold u32Bound at h32; omega)
    _ hdata
  -- stage 2: every image is parsed; the table is β
  have hrows := parseRows_ok (fun i e => natTok (m.β i e)) (fun i e => m.β i e) m.n 0
    (fun i hi e _ he => parseU32_natTok (by
      have := hwf.range i hi e (by omega)
      omega))
  have hbl : ∀ i, betaLine m i = (List.range' 0 m.n).map (fun e => natTok (m.β i e)) := by
    intro i; unfold betaLine; rw [List.range_eq_range']
  have hT : tbl ((List.range' 0 m.n).map (fun e => m.β 0 e), (List.range' 0 m.n).map (fun e => m.β 1 e),
      (List.range' 0 m.n).map (fun e => m.β 2 e)) = fun i e => m.β i e := by
    funext i e
    have hoob : ∀ j, ¬ e < m.n → m.β j e = 0 := fun j h => β_oob hs (fun c => h c.2)
    match i with
    | 0 => show ((List.range' 0 m.n).map _).getD e 0 = _; rw [getD_map_range']; split <;> simp_all
    | 1 => show ((List.range' 0 m.n).map _).getD e 0 = _; rw [getD_map_range']; split <;> simp_all
    | 2 => show ((List.range' 0 m.n).map _).getD e 0 = _; rw [getD_map_range']; split <;> simp_all
    | (k + 3) => show 0 = _; rw [β_oob hs (by omega)]
  have hnull : nullOK (fun i e => m.β i e) = true := by
    simp [nullOK, hwf.null 0 (by omega), hwf.null 1 (by omega), hwf.null 2 (by omega)]
  have hrange : rangeOK (fun i e => m.β i e) (m.n - 1 + 1) = true := by
    unfold rangeOK
    rw [List.all_eq_true]
    intro d hd
    have hd' : d < m.n := by have := List.mem_range.mp hd; omega
    have r0 := hwf.range 0 (by omega) d hd'
    have r1 := hwf.range 1 (by omega) d hd'
    have r2 := hwf.range 2 (by omega) d hd'
    simp only [Bool.and_eq_true, decide_eq_true_eq]
    omega
  have hchk : (List.range' 1 (m.n - 1)).findSome? (dartCheck fun i e => m.β i e) = none := by
    rw [List.findSome?_eq_none_iff]
    intro d hd
    have hd' : d < m.n := by have := List.mem_range'_1.mp hd; omega
    unfold dartCheck
    have c1 : ¬ ((m.β 1 d ≠ 0 ∧ m.β 0 (m.β 1 d) ≠ d) ∨ (m.β 0 d ≠ 0 ∧ m.β 1 (m.β 0 d) ≠ d)) := by
      intro h
      rcases h with ⟨a, b⟩ | ⟨a, b⟩
      · exact b (hwf.inv01 d hd' a)
      · exact b (hwf.inv10 d hd' a)
    have c2 : ¬ (m.β 2 d ≠ 0 ∧ (m.β 2 (m.β 2 d) ≠ d ∨ m.β 2 d = d)) := by
      intro h
      have := hwf.invol 2 (by omega) (by omega) d hd' h.1
      rcases h.2 with b | b
      · exact b this.1
      · exact this.2 b
    rw [if_neg c1, if_neg c2]
  -- stage 3: the β loop
  have hsz0 : Sized 3 (Map.empty 3 ns (m.n - 1 + 1) : Map Val) := sized_empty ns _ (by omega)
  have hn0 : (Map.empty 3 ns (m.n - 1 + 1) : Map Val).n = m.n := by
    show m.n - 1 + 1 = m.n; omega
  obtain ⟨m1, hrun1, hs1, hn1, hu1, ha1, hβ1⟩ :=
    setLoop_ok (fun i e => m.β i e) (m.n - 1) 1 (Map.empty 3 ns (m.n - 1 + 1)) hsz0
      (by rw [hn0]; omega)
  have hn1' : m1.n = m.n := hn1.trans hn0
  have hβ1' : ∀ i, i < 3 → ∀ d, d < m.n → m1.β i d = m.β i d := by
    intro i hi d hd
    rw [hβ1 i d]
    by_cases h0 : d = 0
    · subst h0
      simp [β_empty, hwf.null i hi]
    · have : i < 3 ∧ 1 ≤ d ∧ d < 1 + (m.n - 1) := by omega
      simp [this]
  -- stage 4: the unused loop
  let ids := (List.range m.u.size).filter fun d => m.unused d
  have hids : ∀ d ∈ ids, d < m.n ∧ m.unused d = true := by
    intro d hd
    have := List.mem_filter.mp hd
    exact ⟨by have := List.mem_range.mp this.1; rw [hs.usz] at this; exact this, this.2⟩
  obtain ⟨m2, hrun2, hs2, hn2, hb2, ha2, hu2⟩ :=
    unusedLoop_ok (ids.map natTok) ids m1
      (parsed_natTok ids (fun d hd => by have := (hids d hd).1; omega))
      (List.Nodup.sublist List.filter_sublist List.nodup_range) hs1
      (fun d hd => by
        obtain ⟨hdn, hdu⟩ := hids d hd
        have hd0 : d ≠ 0 := by
          intro e; subst e; rw [hu0] at hdu; cases hdu
        have hdn1 : d < m1.n := by rw [hn1']; exact hdn
        refine ⟨hd0, hdn1, ?_, ?_⟩
        · rw [isFree3, hβ1' 0 (by omega) d hdn, hβ1' 1 (by omega) d hdn, hβ1' 2 (by omega) d hdn,
            hwf.unusedFree d hdn hdu 0 (by omega), hwf.unusedFree d hdn hdu 1 (by omega),
            hwf.unusedFree d hdn hdu 2 (by omega)]
          rfl
        · show rd m1.u d = false
          rw [hu1]
          exact unused_empty _ _ _)
  have hu2' : ∀ d, m2.unused d = m.unused d := by
    intro d
    rw [hu2 d]
    have h0 : m1.unused d = false := by
      show rd m1.u d = false
      rw [hu1]; exact unused_empty _ _ _
    rw [h0, Bool.false_or]
    by_cases hd : d < m.n
    · cases hud : m.unused d with
      | true =>
        have : d ∈ ids := List.mem_filter.mpr ⟨List.mem_range.mpr (by rw [hs.usz]; exact hd), hud⟩
        simp [this]
      | false =>
        have : d ∉ ids := fun h => by have := (hids d h).2; rw [hud] at this; cases this
        simp [this]
    · have : d ∉ ids := fun h => hd (hids d h).1
      simp [this, unused_oob hs hd]
  -- stage 5: the vertices loop
  have ha0 : 0 < m2.a.size := by rw [ha2, ha1, size_a_empty]; exact hns
  obtain ⟨m3, hrun3, hs3, _, hn3, hb3, hu3, ha3⟩ :=
    verticesLoop_ok natTok (fun v => ratStr (fx m v)) (fun v => ratStr (fy m v)) (fx m) (fy m) vs m2
      hs2 ha0 (List.Nodup.sublist List.filter_sublist (nodup_iterVertices2 m))
      (fun v hv => by
        obtain ⟨_, p1, p2, _, _⟩ := hfx v hv
        have hvn := mem_iterVertices2_lt (hvs v hv).1
        obtain ⟨hv0, hvu⟩ := mem_iterVertices2_props (hvs v hv).1
        exact ⟨hv0, by rw [hn2, hn1']; exact hvn, by rw [hu2']; exact hvu,
          parseU32_natTok (by omega), p1, p2⟩)
  have hn3' : m3.n = m.n := hn3.trans (hn2.trans hn1')
  have hβ3 : ∀ i d, m3.β i d = m1.β i d := by
    intro i d
    show rd (rd m3.b i) d = rd (rd m1.b i) d
    rw [hb3, hb2]
  have hu3' : ∀ d, m3.unused d = m.unused d := by
    intro d
    show rd m3.u d = m.unused d
    rw [hu3]; exact hu2' d
  have hatt : ∀ v ∈ iterVertices2 m, m3.att 0 v = m.att 0 v := by
    intro v hv
    rw [ha3 0 v]
    by_cases hin : v ∈ vs
    · simp only [hin, and_self, if_true]
      exact (hfx v hin).1.symm
    · simp only [hin, and_false, if_false]
      have hnone : m.att 0 v = none := by
        cases h : m.att 0 v with
        | none => rfl
        | some val => exact absurd (List.mem_filter.mpr ⟨hv, by rw [h]; rfl⟩) hin
      rw [hnone]
      show rd (rd m2.a 0) v = none
      rw [ha2, ha1]
      exact att_empty _ _ _ _
  have hsame : SameB m m3 := sameB_of_sized hs hs3 hn3'
    (fun i hi d hd => by rw [hβ3, hβ1' i hi d hd])
  refine ⟨m3, ?_, hn3', fun i _ d => (hsame.β i d).symm, hu3', hatt, ?_⟩
  · -- load
    unfold load serialize
    rw [hparse]
    refine build_of_stages (rows := _) rfl rfl (by rw [length_betaLine]; show m.n = m.n - 1 + 1; omega)
      (by rw [length_betaLine]; show m.n = m.n - 1 + 1; omega)
      (by rw [length_betaLine]; show m.n = m.n - 1 + 1; omega) (m1 := m1) (m2 := m2)
      (by rw [hbl 0, hbl 1, hbl 2]; exact hrows) ?_ ?_ ?_ ?_ ?_ ?_
    · rw [hT]; exact hnull
    · rw [hT]; exact hrange
    · rw [hT]; exact hchk
    · rw [hT]; exact hrun1
    · have : ((some (if unusedLine m = [] then [] else [unusedLine m]) : Option (List Line)).getD []).flatten
          = ids.map natTok := by
        show (if unusedLine m = [] then [] else [unusedLine m]).flatten = unusedLine m
        split
        · rename_i h; rw [h]; rfl
        · simp
      rw [this]
      exact hrun2
    · show verticesLoop ((iterVertices2 m).filterMap (vertexLine m)) m2 = .ok m3
      rw [hV]
      exact hrun3
  · -- the second serialization
    have hbl' : ∀ i, betaLine m3 i = betaLine m i := by
      intro i
      unfold betaLine
      rw [hn3']
      apply List.map_congr_left
      intro d _
      rw [hsame.β i d]
    have hul : unusedLine m3 = unusedLine m := by
      unfold unusedLine
      rw [hs3.usz, hs.usz, hn3']
      congr 1
      apply List.filter_congr
      intro d _
      exact hu3' d
    have hiv := iterVertices2_congr hn3' hsame hu3'
    have hvl : (iterVertices2 m3).filterMap (vertexLine m3) =
        (iterVertices2 m).filterMap (vertexLine m) := by
      rw [hiv]
      apply filterMap_congr'
      intro v hv
      unfold vertexLine
      rw [hatt v hv]
    unfold serialize
    rw [hn3', hbl' 0, hbl' 1, hbl' 2, hul, hvl]

/-- the printed vertices are 2-D points whose coordinates have numerators and denominators of
    at most 18 digits (the range of the harness' exact notation) -/
structure SmallCoords (m : Map Val) : Prop where
  pt : ∀ v ∈ iterVertices2 m, ∀ val, m.att 0 v = some val →
    ∃ x y, val = .pt x y 0 ∧ x.num.natAbs < 10 ^ 18 ∧ x.den < 10 ^ 18 ∧
      y.num.natAbs < 10 ^ 18 ∧ y.den < 10 ^ 18

/-- `CoordsPrintable` is not an extra assumption on that range: it is proved
    (`parseCoord_ratStr`, `noHash_ratStr`) -/
theorem C09_coordsPrintable_of_small {m : Map Val} (h : SmallCoords m) : CoordsPrintable m := by
  constructor
  intro v hv val hval
  obtain ⟨x, y, e, a, b, c, d⟩ := h.pt v hv val hval
  exact ⟨x, y, e, parseCoord_ratStr x a b, parseCoord_ratStr y c d, noHash_ratStr x, noHash_ratStr y⟩

/-- the round trip with no assumption on tokens: every well-formed 2-map with fewer than 2^32
    darts and 18-digit rational coordinates -/
theorem C09_roundtrip_small (ver : String) (hver : PlainVer ver) (ns : Nat) (hns : 0 < ns)
    (m : Map Val) (hwf : WF 3 m) (hu0 : m.unused 0 = false) (h32 : m.n ≤ u32Bound)
    (hc : SmallCoords m) :
    ∃ m', load ns (serialize ver m) = .ok m' ∧ m'.n = m.n ∧
      (∀ i, i < 3 → ∀ d, m'.β i d = m.β i d) ∧ (∀ d, m'.unused d = m.unused d) ∧
      (∀ v ∈ iterVertices2 m, m'.att 0 v = m.att 0 v) ∧ serialize ver m' = serialize ver m :=
  C09_roundtrip ver hver ns hns m hwf hu0 h32 (C09_coordsPrintable_of_small hc)

/-! ## non-vacuity: a 5-dart map with an open β1 path, a β2 pair, a removed dart, defined and
    undefined vertices, a value on a non-vertex id (2 is a vertex here; 5 is removed and holds a
    stale value that is not printed) satisfies every hypothesis -/

def exMap : Map Val :=
  { n := 6
    b := #[#[0, 0, 1, 0, 0, 0], #[0, 2, 0, 0, 0, 0], #[0, 0, 0, 4, 3, 0]]
    u := #[false, false, false, false, false, true]
    a := #[#[none, some (.pt (1/4) (-2) 0), some (.pt 7 7 0), some (.pt 3 (-5/8) 0), none,
            some (.pt 1 1 0)]] }

theorem exMap_wf : WF 3 exMap := by decide

theorem plainVer_pkgVersion : PlainVer pkgVersion := ⟨by decide, by decide⟩

theorem exMap_printable : CoordsPrintable exMap := by
  constructor
  intro v hv val h
  have hl : iterVertices2 exMap = [1, 2, 3, 4] := by decide
  rw [hl] at hv
  simp only [List.mem_cons, List.not_mem_nil, or_false] at hv
  rcases hv with rfl | rfl | rfl | rfl
  · have e : exMap.att 0 1 = some (.pt (1/4) (-2) 0) := rfl
    rw [e] at h; injection h with h; subst h
    exact ⟨1/4, -2, rfl, by decide +kernel, by decide +kernel, by decide +kernel, by decide +kernel⟩
  · have e : exMap.att 0 2 = some (.pt 7 7 0) := rfl
    rw [e] at h; injection h with h; subst h
    exact ⟨7, 7, rfl, by decide +kernel, by decide +kernel, by decide +kernel, by decide +kernel⟩
  · have e : exMap.att 0 3 = some (.pt 3 (-5/8) 0) := rfl
    rw [e] at h; injection h with h; subst h
    exact ⟨3, -5/8, rfl, by decide +kernel, by decide +kernel, by decide +kernel, by decide +kernel⟩
  · have e : exMap.att 0 4 = none := by decide
    rw [e] at h; cases h

example : ∃ m', load 1 (serialize pkgVersion exMap) = .ok m' ∧ m'.n = exMap.n ∧
    (∀ i, i < 3 → ∀ d, m'.β i d = exMap.β i d) ∧ (∀ d, m'.unused d = exMap.unused d) ∧
    (∀ v ∈ iterVertices2 exMap, m'.att 0 v = exMap.att 0 v) ∧
    serialize pkgVersion m' = serialize pkgVersion exMap :=
  C09_roundtrip pkgVersion plainVer_pkgVersion 1 (by decide) exMap exMap_wf (by decide) (by decide)
    exMap_printable

end HC.C09
