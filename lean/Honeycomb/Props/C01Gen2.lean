/-
  C01 / C04 — `CMap2::one_sew` / `CMap2::one_unsew` of dim2/sews/one.rs, TRANSLATED from the source on every
  run (`Gen/Sews2.lean`, written by tools/gen_lean.py), interpreted in the model's transaction monad, are EQUAL
  as programs to the hand-written `oneSew2` / `oneUnsew2` of Model/Ops2.lean.  The functions they call are tied
  separately: the link cores in Props/C01Gen.lean, `AttrSparseVec::merge` / `split` in Props/C04Gen.lean, the
  images of the vertex orbit behind `vertex_id_transac` in Props/C03Gen.lean; `merge_attributes` /
  `split_attributes` (a loop over the registered storages) and the traversal itself stay hand-written.
-/
import Honeycomb.Gen.Sews2
import Honeycomb.Model.Ops2

namespace HC.GenTie
open HC
variable {X : Type}

/-- operand of a generated instruction: parameters, the null dart, bound variables -/
def sewArg (l r : Nat) (env : List Nat) : Nat → Nat
  | 0 => l
  | 1 => r
  | 2 => 0
  | n => env.getD (n - 20) 0

/-- the `*_core` function of a call instruction (codes of Gen/Links3.lean) -/
def sewCore : Nat → Nat → Nat → Option (P X Unit)
  | 0, a, b => some (oneLinkCore a b)
  | 1, a, b => some (iLinkCore 2 a b)
  | 3, a, _ => some (oneUnlinkCore a)
  | 4, a, _ => some (iUnlinkCore 2 a)
  | _, _, _ => none

/-- the meaning of a generated instruction list (see the header of Gen/Sews2.lean); the fuel only makes the
    recursion structural -/
def interpSew (cfg : Cfg X) (n l r : Nat) : Nat → List Nat → List (Nat × List Nat) → P X Unit
  | 0, _, _ => Prog.panic
  | _ + 1, _, [] => pure ()
  | f + 1, env, (0, [c, a, b]) :: rest =>
      match sewCore c (sewArg l r env a) (sewArg l r env b) with
      | some p => do p; interpSew cfg n l r f env rest
      | none => Prog.panic
  | f + 1, env, (1, [i, a]) :: rest => do
      let v ← rB i (sewArg l r env a)
      interpSew cfg n l r f (env ++ [v]) rest
  | f + 1, env, (5, [a]) :: rest => do
      let v ← vertexId2 n (sewArg l r env a)
      interpSew cfg n l r f (env ++ [v]) rest
  | f + 1, env, (6, [0, o, a, b]) :: rest => do
      mergeS cfg 0 (sewArg l r env o) (sewArg l r env a) (sewArg l r env b)
      interpSew cfg n l r f env rest
  | f + 1, env, (6, [1, o, a, b]) :: rest => do
      splitS cfg 0 (sewArg l r env o) (sewArg l r env a) (sewArg l r env b)
      interpSew cfg n l r f env rest
  | f + 1, env, (7, [0, p, o, a, b]) :: rest => do
      mergeAttrs cfg p (sewArg l r env o) (sewArg l r env a) (sewArg l r env b)
      interpSew cfg n l r f env rest
  | f + 1, env, (7, [1, p, o, a, b]) :: rest => do
      splitAttrs cfg p (sewArg l r env o) (sewArg l r env a) (sewArg l r env b)
      interpSew cfg n l r f env rest
  | f + 1, env, (8, [a, k, j]) :: rest =>
      if sewArg l r env a = 0 then interpSew cfg n l r f env (rest.take k ++ rest.drop (k + j))
      else interpSew cfg n l r f env (rest.drop k)
  | _, _, _ => Prog.panic

theorem bind_unit' (p : P X Unit) : p.bind (fun _ => Prog.ret ()) = p := Prog.bind_ret p

/-- **tie of `CMap2::one_sew`** -/
theorem C01_gen_oneSew2 (cfg : Cfg X) (n l r : Nat) :
    interpSew cfg n l r 16 [] Gen.oneSew2 = oneSew2 cfg n l r := by
  simp only [Gen.oneSew2, interpSew, sewCore, sewArg, oneSew2, List.drop, List.take, List.getD, List.nil_append,
    List.cons_append, List.append_nil, Prog.bind_eq, Prog.pure_eq, bind_unit']
  rfl

/-- **tie of `CMap2::one_unsew`** -/
theorem C01_gen_oneUnsew2 (cfg : Cfg X) (n l : Nat) :
    interpSew cfg n l 0 16 [] Gen.oneUnsew2 = oneUnsew2 cfg n l := by
  simp only [Gen.oneUnsew2, interpSew, sewCore, sewArg, oneUnsew2, List.drop, List.take, List.getD, List.nil_append,
    List.cons_append, List.append_nil, Prog.bind_eq, Prog.pure_eq, bind_unit']
  rfl

/-- a list the interpreter does not understand is a panic, not a silent success -/
example (cfg : Cfg X) (n l r : Nat) : interpSew cfg n l r 4 [] [(9, [])] = Prog.panic := rfl

end HC.GenTie
