/-
  C01 / C04 — `CMap2::one_sew` / `one_unsew` (dim2/sews/one.rs) and `two_sew` / `two_unsew` (dim2/sews/two.rs),
  TRANSLATED from the source on every run (`Gen/Sews2.lean`, written by tools/gen_lean.py), interpreted in the
  model's transaction monad, are EQUAL as programs to the hand-written `oneSew2` / `oneUnsew2` / `twoSew2` /
  `twoUnsew2` of Model/Ops2.lean: every sew and unsew of a 2-map.  The functions they call are tied
  separately: the link cores in Props/C01Gen.lean, `AttrSparseVec::merge` / `split` in Props/C04Gen.lean, the
  images of the vertex orbit behind `vertex_id_transac` in Props/C03Gen.lean; `merge_attributes` /
  `split_attributes` (a loop over the registered storages) and the traversal itself stay hand-written.
-/
import Honeycomb.Gen.Sews2
import Honeycomb.Model.Ops2
import Honeycomb.Props.C01

namespace HC.GenTie
open HC HC.C01
variable {X : Type}

/-- operand of a generated instruction: parameters, the null dart, bound variables -/
def sewArg (l r : Nat) (env : List Nat) : Nat → Nat
  | 0 => l
  | 1 => r
  | 2 => 0
  | n => env.getD (n - 20) 0

/-- the `*_core` function of a call instruction (codes of Gen/Links3.lean) -/
def sewCore : Nat → Nat → Nat → Option (P X Unit)
  | 0, a, b => some (oneLinkCore a b)
  | 1, a, b => some (iLinkCore 2 a b)
  | 3, a, _ => some (oneUnlinkCore a)
  | 4, a, _ => some (iUnlinkCore 2 a)
  | _, _, _ => none

/-- the meaning of a generated instruction list (see the header of Gen/Sews2.lean); the fuel only makes the
    recursion structural -/
def interpSew (cfg : Cfg X) (n l r : Nat) : Nat → List Nat → List (Nat × List Nat) → P X Unit
  | 0, _, _ => Prog.panic
  | _ + 1, _, [] => pure ()
  | f + 1, env, (0, [c, a, b]) :: rest =>
      match sewCore c (sewArg l r env a) (sewArg l r env b) with
      | some p => do p; interpSew cfg n l r f env rest
      | none => Prog.panic
  | f + 1, env, (1, [i, a]) :: rest => do
      let v ← rB i (sewArg l r env a)
      interpSew cfg n l r f (env ++ [v]) rest
  | f + 1, env, (5, [a]) :: rest => do
      let v ← vertexId2 n (sewArg l r env a)
      interpSew cfg n l r f (env ++ [v]) rest
  | f + 1, env, (6, [0, o, a, b]) :: rest => do
      mergeS cfg 0 (sewArg l r env o) (sewArg l r env a) (sewArg l r env b)
      interpSew cfg n l r f env rest
  | f + 1, env, (6, [1, o, a, b]) :: rest => do
      splitS cfg 0 (sewArg l r env o) (sewArg l r env a) (sewArg l r env b)
      interpSew cfg n l r f env rest
  | f + 1, env, (7, [0, p, o, a, b]) :: rest => do
      mergeAttrs cfg p (sewArg l r env o) (sewArg l r env a) (sewArg l r env b)
      interpSew cfg n l r f env rest
  | f + 1, env, (7, [1, p, o, a, b]) :: rest => do
      splitAttrs cfg p (sewArg l r env o) (sewArg l r env a) (sewArg l r env b)
      interpSew cfg n l r f env rest
  | f + 1, env, (8, [a, k, j]) :: rest =>
      if sewArg l r env a = 0 then interpSew cfg n l r f env (rest.take k ++ rest.drop (k + j))
      else interpSew cfg n l r f env (rest.drop k)
  | f + 1, env, (9, [a, b, k1, k2, k3, k4]) :: rest =>
      let tail := rest.drop (k1 + k2 + k3 + k4)
      if sewArg l r env a = 0 ∧ sewArg l r env b = 0 then interpSew cfg n l r f env (rest.take k1 ++ tail)
      else if sewArg l r env a = 0 then interpSew cfg n l r f env ((rest.drop k1).take k2 ++ tail)
      else if sewArg l r env b = 0 then interpSew cfg n l r f env ((rest.drop (k1 + k2)).take k3 ++ tail)
      else interpSew cfg n l r f env ((rest.drop (k1 + k2 + k3)).take k4 ++ tail)
  | f + 1, env, (10, [a]) :: rest => do
      let v ← edgeId2 (sewArg l r env a)
      interpSew cfg n l r f (env ++ [v]) rest
  | f + 1, env, (11, [vl, vb1r, vb1l, vr, i, a, b]) :: rest => do
      let pl ← rA 0 (sewArg l r env vl)
      let pb1r ← rA 0 (sewArg l r env vb1r)
      let pb1l ← rA 0 (sewArg l r env vb1l)
      let pr ← rA 0 (sewArg l r env vr)
      if badPair cfg pl pb1r pb1l pr then abort (errBadGeometry i (sewArg l r env a) (sewArg l r env b)) else
      interpSew cfg n l r f env rest
  | _, _, _ => Prog.panic

theorem bind_unit' (p : P X Unit) : p.bind (fun _ => Prog.ret ()) = p := Prog.bind_ret p

/-- **tie of `CMap2::one_sew`** -/
theorem C01_gen_oneSew2 (cfg : Cfg X) (n l r : Nat) :
    interpSew cfg n l r 16 [] Gen.oneSew2 = oneSew2 cfg n l r := by
  simp only [Gen.oneSew2, interpSew, sewCore, sewArg, oneSew2, List.drop, List.take, List.getD, List.nil_append,
    List.cons_append, List.append_nil, Prog.bind_eq, Prog.pure_eq, bind_unit']
  rfl

/-- **tie of `CMap2::one_unsew`** -/
theorem C01_gen_oneUnsew2 (cfg : Cfg X) (n l : Nat) :
    interpSew cfg n l 0 16 [] Gen.oneUnsew2 = oneUnsew2 cfg n l := by
  simp only [Gen.oneUnsew2, interpSew, sewCore, sewArg, oneUnsew2, List.drop, List.take, List.getD, List.nil_append,
    List.cons_append, List.append_nil, Prog.bind_eq, Prog.pure_eq, bind_unit']
  rfl

/-- **tie of `CMap2::two_sew`** (all four arms, the orientation test included) -/
theorem C01_gen_twoSew2 (cfg : Cfg X) (n l r : Nat) :
    interpSew cfg n l r 64 [] Gen.twoSew2 = twoSew2 cfg n l r := by
  simp only [Gen.twoSew2, interpSew, sewCore, sewArg, twoSew2, List.drop, List.take, List.getD, List.nil_append,
    List.cons_append, List.append_nil, Prog.bind_eq, Prog.pure_eq, bind_unit']
  rfl

/-- **tie of `CMap2::two_unsew`** (all four arms) -/
theorem C01_gen_twoUnsew2 (cfg : Cfg X) (n l : Nat) :
    interpSew cfg n l 0 64 [] Gen.twoUnsew2 = twoUnsew2 cfg n l := by
  simp only [Gen.twoUnsew2, interpSew, sewCore, sewArg, twoUnsew2, List.drop, List.take, List.getD, List.nil_append,
    List.cons_append, List.append_nil, Prog.bind_eq, Prog.pure_eq, bind_unit']
  rfl

/-- **C01 stated on the translated code**: every successful run of the translated `CMap2::one_sew` /
    `one_unsew` on a well-formed 2-map with in-use arguments, for every attribute configuration, ends in a
    well-formed map -/
theorem C01_gen_one_sews_preserve_WF (cfg : Cfg X) (n l r : Nat) :
    Safe (fun m : Map X => InUse m l ∧ InUse m r) (interpSew cfg n l r 16 [] Gen.oneSew2) ∧
    Safe (fun m : Map X => InUse m l) (interpSew cfg n l 0 16 [] Gen.oneUnsew2) := by
  rw [C01_gen_oneSew2, C01_gen_oneUnsew2]
  exact ⟨safe_oneSew2 cfg n l r, safe_oneUnsew2 cfg n l⟩

/-- the same for the translated `CMap2::two_sew` (distinct darts) / `two_unsew` -/
theorem C01_gen_two_sews_preserve_WF (cfg : Cfg X) (n l r : Nat) :
    Safe (fun m : Map X => InUse m l ∧ InUse m r ∧ l ≠ r) (interpSew cfg n l r 64 [] Gen.twoSew2) ∧
    Safe (fun m : Map X => InUse m l) (interpSew cfg n l 0 64 [] Gen.twoUnsew2) := by
  rw [C01_gen_twoSew2, C01_gen_twoUnsew2]
  exact ⟨safe_twoSew2 cfg n l r, safe_twoUnsew2 cfg n l⟩

/-- a list the interpreter does not understand is a panic, not a silent success -/
example (cfg : Cfg X) (n l r : Nat) : interpSew cfg n l r 4 [] [(9, [])] = Prog.panic := rfl

end HC.GenTie
