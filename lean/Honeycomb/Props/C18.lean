/-
  C18 — dart allocation hands out fresh, blank, addressable darts.

  Stated for any number of β rows (`nb = 3`: CMap2, `nb = 4`: CMap3) and any number of attribute
  storages.  `Alloc nb m` = well-formed + the null dart is not flagged removed.
-/
import Honeycomb.Lemmas.WFAlloc
import Honeycomb.Props.C01
import Honeycomb.Props.C03

set_option linter.unusedSimpArgs false

namespace HC.C18
open HC
variable {X : Type}

/-- number of darts flagged removed (`n_unused_darts`) -/
def unusedCount (m : Map X) : Nat := ((List.range m.n).filter (fun d => m.unused d)).length

structure Alloc (nb : Nat) (m : Map X) : Prop where
  wf : WF nb m
  null : m.unused 0 = false

/-! ## append: `add_free_dart(s)` -/

/-- the ids handed out by `add_free_darts k` are `n .. n+k-1`: non-null, previously non-existent,
    below the new dart count, in use, free, and without a value in every storage -/
theorem C18_add_fresh {nb : Nat} {m : Map X} (h : WF nb m) (k d : Nat)
    (hd1 : m.n ≤ d) (hd2 : d < m.n + k) :
    (m.addFreeDarts k).1 = m.n ∧ (m.addFreeDarts k).2.n = m.n + k ∧
    d ≠ 0 ∧ d < (m.addFreeDarts k).2.n ∧ (m.addFreeDarts k).2.unused d = false ∧
    (∀ i, i < nb → (m.addFreeDarts k).2.β i d = 0) ∧
    (∀ s, s < m.a.size → (rd m.a s).size = m.n → (m.addFreeDarts k).2.att s d = none) := by
  have hs := h.toSized
  have hpos := hs.npos
  refine ⟨rfl, rfl, by omega, hd2, ?_, ?_, ?_⟩
  · rw [addFreeDarts_unused hs]; simp; omega
  · intro i hi; rw [addFreeDarts_β hs k i d hi]; simp; omega
  · intro s hs1 hs2
    unfold Map.addFreeDarts Map.att
    simp only
    rw [rd_map _ _ _ hs1]
    exact rd_ext_ge _ _ _ _ (by omega) (by omega)

/-- existing darts are untouched by an append -/
theorem C18_add_frame {nb : Nat} {m : Map X} (h : WF nb m) (k d : Nat) (hd : d < m.n) :
    (m.addFreeDarts k).2.unused d = m.unused d ∧
    (∀ i, i < nb → (m.addFreeDarts k).2.β i d = m.β i d) := by
  have hs := h.toSized
  refine ⟨?_, ?_⟩
  · rw [addFreeDarts_unused hs]; simp [hd]
  · intro i hi; rw [addFreeDarts_β hs k i d hi]; simp [hd]

theorem filter_length_congr {α : Type} (l : List α) (p q : α → Bool) (h : ∀ x ∈ l, p x = q x) :
    (l.filter p).length = (l.filter q).length := by
  induction l with
  | nil => rfl
  | cons a t ih =>
      have ha := h a (by simp)
      have := ih (fun x hx => h x (by simp [hx]))
      simp only [List.filter_cons, ha]
      split <;> simp [this]

/-- the removed-dart count is unchanged by an append -/
theorem C18_add_unusedCount {nb : Nat} {m : Map X} (h : WF nb m) (k : Nat) :
    unusedCount (m.addFreeDarts k).2 = unusedCount m := by
  have hs := h.toSized
  unfold unusedCount
  rw [addFreeDarts_n]
  have e : List.range (m.n + k) = List.range m.n ++ (List.range' m.n k) := by
    rw [List.range_eq_range', List.range_eq_range', ← List.range'_append]; simp
  rw [e, List.filter_append, List.length_append]
  have h1 : (List.filter (fun d => (m.addFreeDarts k).2.unused d) (List.range' m.n k)) = [] := by
    apply List.filter_eq_nil_iff.2
    intro d hd
    have := List.mem_range'_1.1 hd
    rw [addFreeDarts_unused hs]; simp; omega
  rw [h1]
  simp only [List.length_nil, Nat.add_zero]
  apply filter_length_congr
  intro d hd
  have : d < m.n := List.mem_range.1 hd
  rw [addFreeDarts_unused hs]; simp [this]

/-! ## slot reuse: `insert_free_dart` -/

theorem firstUnused_none {u : Array Bool} (h : firstUnused u = none) : ∀ d, d < u.size → rd u d = false := by
  intro d hd
  unfold firstUnused at h
  have := List.find?_eq_none.1 h d (List.mem_range.2 hd)
  simpa using this

theorem firstUnused_min {u : Array Bool} {d : Nat} (h : firstUnused u = some d) :
    ∀ e, e < d → rd u e = false := by
  intro e he
  unfold firstUnused at h
  rw [List.find?_eq_some_iff_append] at h
  obtain ⟨_, as, bs, hl, hall⟩ := h
  -- `e` occurs before `d` in `range`, hence in `as`
  have hlen : as.length = d := by
    have h1 : (List.range u.size)[as.length]? = some d := by rw [hl]; simp
    rw [List.getElem?_range] at h1
    · simpa using h1
    · have : as.length < (List.range u.size).length := by rw [hl]; simp
      simpa using this
  have hmem : e ∈ as := by
    have h1 : (List.range u.size)[e]? = some e := by
      rw [List.getElem?_range]
      have : as.length < (List.range u.size).length := by rw [hl]; simp
      simp at this; omega
    rw [hl, List.getElem?_append_left (by omega)] at h1
    exact List.mem_of_getElem? h1
  have := hall e hmem
  simpa using this

/-- **C18, insertion**: the dart returned by `insert_free_dart` is non-null, was not in use, is
    below the (new) dart count, is now in use and free; it is the smallest removed slot if there is
    one, else a fresh append -/
theorem C18_insert_fresh {nb : Nat} {m : Map X} (h : Alloc nb m) (hnb : 2 ≤ nb) :
    let d := m.insertFreeDart.1
    let m' := m.insertFreeDart.2
    d ≠ 0 ∧ d < m'.n ∧ (m.n ≤ d ∨ m.unused d = true) ∧ m'.unused d = false ∧
    (∀ i, i < nb → m'.β i d = 0) ∧
    ((m.unused d = true ∧ d < m.n ∧ m'.n = m.n ∧ ∀ e, e < d → m.unused e = false) ∨
     (d = m.n ∧ m'.n = m.n + 1 ∧ ∀ e, e < m.n → m.unused e = false)) := by
  have hs := h.wf.toSized
  simp only
  unfold Map.insertFreeDart
  split
  · rename_i d hd
    obtain ⟨hlt, hu⟩ := firstUnused_some hd
    rw [hs.usz] at hlt
    have hmin := firstUnused_min hd
    have hd0 : d ≠ 0 := by
      intro h0; subst h0
      have := h.null; unfold Map.unused at this; rw [this] at hu; exact absurd hu (by simp)
    refine ⟨hd0, hlt, Or.inr hu, ?_, ?_, Or.inl ⟨hu, hlt, rfl, hmin⟩⟩
    · rw [hs.unused_setU hlt]; simp
    · intro i hi; exact h.wf.unusedFree d hlt hu i hi
  · rename_i hnone
    have hall := firstUnused_none hnone
    rw [hs.usz] at hall
    have := C18_add_fresh h.wf 1 m.n (Nat.le_refl _) (by omega)
    refine ⟨this.2.2.1, this.2.2.2.1, Or.inl (Nat.le_refl _), this.2.2.2.2.1, this.2.2.2.2.2.1,
      Or.inr ⟨rfl, rfl, hall⟩⟩

/-- values of the returned dart: a fresh append is blank (see `C18_add_fresh`); a REUSED slot
    keeps whatever the storages held at that index — neither removal nor reuse clears it -/
theorem C18_insert_reused_value {m : Map X} {d : Nat} (h : firstUnused m.u = some d) (s : Nat) :
    m.insertFreeDart.2.att s d = m.att s d := by
  unfold Map.insertFreeDart; rw [h]; rfl

/-- partial form of "a newly obtained dart has no value": true when the reused slot is blank -/
theorem C18_insert_blank_partial {nb : Nat} {m : Map X} (h : Alloc nb m)
    (hsz : ∀ s, s < m.a.size → (rd m.a s).size = m.n)
    (hblank : ∀ d s, m.unused d = true → m.att s d = none) (s : Nat) (hs : s < m.a.size) :
    m.insertFreeDart.2.att s m.insertFreeDart.1 = none := by
  unfold Map.insertFreeDart
  split
  · rename_i d hd
    obtain ⟨_, hu⟩ := firstUnused_some hd
    show m.att s d = none
    exact hblank d s hu
  · exact (C18_add_fresh h.wf 1 m.n (Nat.le_refl _) (by omega)).2.2.2.2.2.2 s hs (hsz s hs)

/-- the invariant survives insertion -/
theorem C18_insert_alloc {nb : Nat} {m : Map X} (h : Alloc nb m) (hnb : 2 ≤ nb) :
    Alloc nb m.insertFreeDart.2 := by
  refine ⟨h.wf.insertFreeDart hnb, ?_⟩
  have hs := h.wf.toSized
  unfold Map.insertFreeDart
  split
  · rename_i d hd
    obtain ⟨hlt, _⟩ := firstUnused_some hd
    rw [hs.usz] at hlt
    rw [hs.unused_setU hlt]
    split
    · rfl
    · exact h.null
  · rw [addFreeDarts_unused hs]; simp [hs.npos]; exact h.null

/-! ## removal -/

/-- **C18, refusal**: `remove_free_dart d` on an existing dart is refused (panics) exactly when the
    dart is linked or already removed; otherwise it flags the dart and nothing else -/
theorem C18_remove_refuses_iff {nb : Nat} {m : Map X} (h : WF nb m) (d : Nat) (hd : d < m.n) :
    ((m.removeFreeDart nb d).1 = .panic ↔ (m.isFree nb d = false ∨ m.unused d = true)) ∧
    ((m.removeFreeDart nb d).1 = .ok () → (m.removeFreeDart nb d).2 = m.setU d true) := by
  have hok : m.okU d = true := (h.toSized.okU d).2 hd
  unfold Map.removeFreeDart
  simp only [hd, if_true]
  by_cases hf : m.isFree nb d = true
  · simp only [hf, if_true]
    unfold atomically
    rw [run_removeFreeDartTx]
    simp only [hok, if_true]
    cases hu : m.unused d <;> simp
  · simp [hf]

/-- **C18, refusal inside one transaction**: `remove_free_dart_transac` answers whether the dart was ALREADY
    removed as the transaction sees it — a second removal of the same dart composed in the same transaction is
    told `true` (refused) whatever the first one answered, and the flag is set once -/
theorem C18_remove_twice_in_one_transaction (m : Map X) (d : Nat) (hd : m.okU d = true) :
    run (do let a ← removeFreeDartTx (X := X) d; let b ← removeFreeDartTx d; pure (a, b)) m =
      (.ok (m.unused d, true), m.setU d true) := by
  have h2 : (m.setU d true).okU d = true := by rw [Map.okU_setU]; exact hd
  have h3 : (m.setU d true).unused d = true := by rw [Map.unused_setU]; simp [hd]
  have h4 : (m.setU d true).setU d true = m.setU d true := by
    unfold Map.setU; simp [wr]
  simp only [removeFreeDartTx, Prog.bind_eq, Prog.pure_eq, Prog.bind_assoc, Prog.ret_bind, run_rU, run_wU, hd, h2, h3, h4,
    if_true, run_ret]

/-- a removed dart stays out of every cell iterator (they filter on the flag) -/
theorem C18_iter_excludes_removed (m : Map X) (idf : Nat → P X Nat) (x : Nat)
    (hx : x ∈ iterCells m idf) : m.unused x = false ∧ x ≠ 0 ∧ x < m.n := by
  unfold iterCells at hx
  simp only [List.mem_filter, List.mem_range, decide_eq_true_eq, Bool.and_eq_true,
    Bool.not_eq_true', Bool.decide_and] at hx
  exact ⟨hx.2.2.1, hx.2.1, hx.1⟩

/-- every identifier below the dart count is addressable in every storage (and stays so: `WF`
    is preserved by every call, C01) -/
theorem C18_addressable {nb : Nat} {m : Map X} (h : WF nb m) (s d : Nat) (hs : s < m.a.size) (hd : d < m.n) :
    m.okA s d = true := by
  unfold Map.okA
  have := h.asz s hs
  simp [hs]; omega

/-- **C18, orbits**: on a well-formed 2-map, no orbit (any admissible policy, transactional or
    not) of a dart that is in use ever reports a removed dart -/
theorem C18_orbit_excludes_removed {m : Map X} (h : WF 3 m) {pol : Policy} (hp : C03.PolOK pol) {d : Nat}
    (hd0 : d ≠ 0) (hd : d < m.n) (hu : m.unused d = false) :
    ∃ out, run (orbit2 (X := X) m.n pol d) m = (.ok out, m) ∧ ∀ x, x ∈ out → m.unused x = false := by
  have hs := C03.C03_orbit2_spec h hp hd0 hd
  exact ⟨C03.orb m pol d, hs.1, C03.C03_orbit_of_in_use_is_in_use h hp hd0 hd hu⟩

/-! ## D10: the reused slot is NOT blank on the current code (negation witness) -/

/-- dart 2 holds coordinates, is removed, and is handed out again with its old coordinates -/
def d10Map : Map Val :=
  { (Map.empty 3 6 3 : Map Val) with
    u := #[false, false, true]
    a := (Map.empty 3 6 3 : Map Val).a.setIfInBounds 0 #[none, none, some (.pt 7 7 0)] }

theorem C18_D10_reused_slot_keeps_stale_value :
    Alloc 3 d10Map ∧ d10Map.insertFreeDart.1 = 2 ∧
      d10Map.insertFreeDart.2.att 0 2 = some (.pt 7 7 0) := by
  refine ⟨⟨by decide, by decide⟩, by decide, by decide⟩

/-! non-vacuity -/
example : Alloc 3 C01.exMap := ⟨by decide, by decide⟩
example : C01.exMap.okU 1 = true := by decide   -- the hypothesis of C18_remove_twice_in_one_transaction is satisfiable
example : C01.exMap.insertFreeDart.1 = 8 := by decide
example : (C01.exMap.addFreeDarts 2).1 = 9 := by decide

end HC.C18
