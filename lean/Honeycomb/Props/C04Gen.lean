/-
  C04 / C05 / C06 — `AttrSparseVec::merge` and `AttrSparseVec::split` of attributes/collections.rs, the
  only code that moves attribute values when cells merge or split, TRANSLATED from the source on every run
  (`Gen/AttrMoves.lean`, written by tools/gen_lean.py: same-cell guard and branch, reads, law dispatch table,
  writes in order), interpreted in the model's transaction monad, are EQUAL as programs to the hand-written
  `mergeS` / `splitS` of Model/Ops.lean, on which every placement theorem (C04, C05) and the positions of the
  fault countdown (C06) rest.  A changed guard, read, dispatch arm, written cell, written value or order of the
  writes in collections.rs changes the generated data and breaks a theorem of this file.
-/
import Honeycomb.Gen.AttrMoves
import Honeycomb.Model.Ops
import Honeycomb.Lemmas.Attr

namespace HC.GenTie
open HC
variable {X : Type}

/-- cell operand: the three identifier parameters, in the order of the Rust signature -/
def cellOf (c0 c1 c2 : Nat) : Nat → Nat
  | 0 => c0
  | 1 => c1
  | _ => c2

/-- the same-cell branch: reads bind `v`, writes store `None` or `v` -/
def interpSame (s c0 c1 c2 : Nat) : Option X → List (Nat × List Nat) → P X Unit
  | _, [] => pure ()
  | _, (0, [c]) :: rest => do
      let v ← rA s (cellOf c0 c1 c2 c)
      interpSame s c0 c1 c2 v rest
  | v, (1, [c, 0]) :: rest => do
      wA s (cellOf c0 c1 c2 c) none
      interpSame s c0 c1 c2 v rest
  | v, (1, [c, 1]) :: rest => do
      wA s (cellOf c0 c1 c2 c) v
      interpSame s c0 c1 c2 v rest
  | _, _ => Prog.panic

/-- the writes after an `Ok` law result `(a, b)` (`merge` has one result: `a`) -/
def interpWrites (s c0 c1 c2 : Nat) (a b : X) : List (Nat × List Nat) → P X Unit
  | [] => pure ()
  | (1, [c, 0]) :: rest => do
      wA s (cellOf c0 c1 c2 c) none
      interpWrites s c0 c1 c2 a b rest
  | (1, [c, 2]) :: rest => do
      wA s (cellOf c0 c1 c2 c) (some a)
      interpWrites s c0 c1 c2 a b rest
  | (1, [c, 3]) :: rest => do
      wA s (cellOf c0 c1 c2 c) (some b)
      interpWrites s c0 c1 c2 a b rest
  | _ => Prog.panic

def pickVal (a b : Option X) : Nat → Option X
  | 0 => a
  | _ => b

/-- law call of a `merge` arm -/
def mergeArmVal (L : Law X) : Nat → List X → Option (Except Err X)
  | 0, [x, y] => some (L.merge x y)
  | 1, [x] => some (L.mergeInc x)
  | 2, [] => some L.mergeNone
  | _, _ => none

/-- law call of a `split` arm -/
def splitArmVal (L : Law X) : Nat → List X → Option (Except Err (X × X))
  | 0, [x] => some (L.split x)
  | 1, [] => some L.splitNone
  | _, _ => none

/-- first arm whose `Some` / `None` pattern matches the values read -/
def dispatchArms {R : Type} (armVal : Nat → List X → Option R) :
    List (Nat × Nat × Nat × List Nat) → Option X → Option X → Option R
  | [], _, _ => none
  | (p0, p1, law, args) :: rest, a, b =>
      if (a.isSome == (p0 == 1)) && (b.isSome == (p1 == 1)) then
        (args.mapM (pickVal a b)).bind (armVal law)
      else dispatchArms armVal rest a b

/-- the dispatch table of `merge`, as translated, is `mergeVal` -/
theorem C04_gen_merge_dispatch (L : Law X) (a b : Option X) :
    dispatchArms (mergeArmVal L) Gen.mergeArms a b = some (mergeVal L a b) := by
  cases a <;> cases b <;> rfl

/-- the dispatch table of `split`, as translated, is `splitVal` (the second position is unused) -/
theorem C04_gen_split_dispatch (L : Law X) (a : Option X) :
    dispatchArms (splitArmVal L) Gen.splitArms a none = some (splitVal L a) := by
  cases a <;> rfl

/-- `AttrSparseVec::merge` as translated -/
def interpMerge (cfg : Cfg X) (s out l r : Nat) : P X Unit :=
  if cellOf out l r Gen.mergeGuard.1 = cellOf out l r Gen.mergeGuard.2 then
    interpSame s out l r none Gen.mergeSame
  else
    match Gen.mergeReads with
    | [c1, c2] => do
        let vl ← rA s (cellOf out l r c1)
        let vr ← rA s (cellOf out l r c2)
        let L := cfg.law s
        match dispatchArms (mergeArmVal L) Gen.mergeArms vl vr with
        | some e => do
            let v ← lawCall L.ticks errFailedMerge e
            interpWrites s out l r v v Gen.mergeWrites
        | none => Prog.panic
    | _ => Prog.panic

/-- `AttrSparseVec::split` as translated -/
def interpSplit (cfg : Cfg X) (s lout rout inp : Nat) : P X Unit :=
  if cellOf lout rout inp Gen.splitGuard.1 = cellOf lout rout inp Gen.splitGuard.2 then
    interpSame s lout rout inp none Gen.splitSame
  else
    match Gen.splitReads with
    | [c1] => do
        let v ← rA s (cellOf lout rout inp c1)
        let L := cfg.law s
        match dispatchArms (splitArmVal L) Gen.splitArms v none with
        | some e => do
            let (a, b) ← lawCall L.ticks errFailedSplit e
            interpWrites s lout rout inp a b Gen.splitWrites
        | none => Prog.panic
    | _ => Prog.panic

/-- **tie of `AttrSparseVec::merge`**: the translated function is the model's `mergeS` -/
theorem C04_gen_mergeS (cfg : Cfg X) (s out l r : Nat) : interpMerge cfg s out l r = mergeS cfg s out l r := by
  unfold interpMerge mergeS
  simp only [C04_gen_merge_dispatch]
  rfl

/-- **tie of `AttrSparseVec::split`**: the translated function is the model's `splitS` -/
theorem C04_gen_splitS (cfg : Cfg X) (s lout rout inp : Nat) :
    interpSplit cfg s lout rout inp = splitS cfg s lout rout inp := by
  unfold interpSplit splitS
  simp only [C04_gen_split_dispatch]
  rfl

/-- **the translated `merge`, run**: without a pending fault, on two different input cells, the translated
    code either stores the merged value under `out` and clears both inputs, or returns the law's error and
    leaves the map alone (the statement `mergeS_run` all placement theorems start from, now about the
    translated code) -/
theorem C04_gen_merge_run (cfg : Cfg X) (s out l r : Nat) (m : Map X) (hfc : m.fc = 0) (hlr : l ≠ r)
    (hl : m.okA s l = true) (hr : m.okA s r = true) (ho : m.okA s out = true) :
    run (interpMerge cfg s out l r) m =
      match mergeVal (cfg.law s) (m.att s l) (m.att s r) with
      | .ok v => (.ok (), m.mergeAt s out l r v)
      | .error e => (.err e, m) := by
  rw [C04_gen_mergeS]; exact mergeS_run cfg s out l r m hfc hlr hl hr ho

/-- **the translated `split`, run** -/
theorem C04_gen_split_run (cfg : Cfg X) (s lo ro inp : Nat) (m : Map X) (hfc : m.fc = 0) (hlr : lo ≠ ro)
    (hi : m.okA s inp = true) (hl : m.okA s lo = true) (hr : m.okA s ro = true) :
    run (interpSplit cfg s lo ro inp) m =
      match splitVal (cfg.law s) (m.att s inp) with
      | .ok (a, b) => (.ok (), m.splitAt s lo ro inp a b)
      | .error e => (.err e, m) := by
  rw [C04_gen_splitS]; exact splitS_run cfg s lo ro inp m hfc hlr hi hl hr

/-- the interpreters reject what they do not understand -/
example (s : Nat) : interpWrites (X := X) s 0 0 0 (a := x) (b := x) [(9, [])] = Prog.panic := rfl

end HC.GenTie
