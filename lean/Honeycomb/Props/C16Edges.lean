/-
  C16 — step 4 of grisubal, `generate_edge_data` (`Model/Grisubal.lean`: `segNext`, `walkEdge`, `edgeOfKey`, `edgeData`;
  Rust: `routines/compute_new_edges.rs`), as a pure function of the segment map of step 1, the vector of darts of step 2
  and β1 / β2 of the map after step 3.

  * `C16_walk_edge_spec`            the `while` walk from the value of a key: it answers `(e, pts)` exactly when the chain
                                    `v → next v → …` of `new_segments` reaches the first intersection `e` through regular
                                    vertices and points of interest only (`Path`), and `pts` are the coordinates of the points
                                    of interest met, IN THE ORDER of the chain — regular vertices are cut
  * `C16_edge_of_key_spec`          the `MapEdge` of a key: start dart `β2(intersection_darts[i])` (the dart ending at the start
                                    crossing on the far side; `β2(β1(β2(d)))` after a corner crossing), the points of
                                    interest of the path as intermediates, end dart `intersection_darts[j]` (`d` for a corner)
  * `C16_edge_data_spec`            `generate_edge_data` yields one edge per key, the edge of THAT key, in the order of the keys
  * `C16_edge_data_order_independent` for two iteration orders of the `HashMap` (permutations of each other) the two results
                                    are permutations of each other: the set of edges does not depend on the order (the
                                    numbering of the darts step 5 allocates does: it takes the list in its order)

  Tie: `gedges` (hook `verif::edge_data`) on the real maps after step 3, compared as sets (tools/props/c16.py: pipeline5_tie).
-/
import Mathlib.Data.List.Perm.Basic
import Honeycomb.Model.Grisubal

namespace HC.C16
open HC

/-- `v` reaches the intersection `e` through the non-intersection vertices `l` (in order) of the segment map -/
inductive Path (segs : List (GV × GV)) : GV → List GV → GV → Prop where
  | stop {e : GV} (h : e.isCross = true) : Path segs e [] e
  | step {v v' e : GV} {l : List GV} (h : v.isCross = false) (hn : segNext segs v = some v') (hp : Path segs v' l e) :
      Path segs v (v :: l) e

/-- the coordinates of the points of interest of a chain, in order -/
def poisOf (verts : List Pt) (l : List GV) : List Pt :=
  l.filterMap fun v => match v with
    | .poi i => some (verts.getD i (0, 0))
    | _ => none

theorem poisOf_cons_poi (verts : List Pt) (i : Nat) (l : List GV) :
    poisOf verts (.poi i :: l) = verts.getD i (0, 0) :: poisOf verts l := rfl

theorem poisOf_cons_regular (verts : List Pt) (i : Nat) (l : List GV) :
    poisOf verts (.regular i :: l) = poisOf verts l := rfl

theorem walk_of_path {segs : List (GV × GV)} {verts : List Pt} {v e : GV} {l : List GV} (hp : Path segs v l e) :
    ∀ (fuel : Nat) (acc : List Pt), l.length < fuel → walkEdge segs verts fuel v acc = .ok (e, acc ++ poisOf verts l) := by
  induction hp with
  | @stop e h =>
      intro fuel acc hf
      cases fuel with
      | zero => simp at hf
      | succ f =>
          cases e with
          | intersec i => simp [walkEdge, poisOf]
          | corner d => simp [walkEdge, poisOf]
          | regular i => simp [GV.isCross] at h
          | poi i => simp [GV.isCross] at h
  | @step v v' e l h hn _ ih =>
      intro fuel acc hf
      cases fuel with
      | zero => simp at hf
      | succ f =>
          have hf' : l.length < f := by simp only [List.length_cons] at hf; omega
          cases v with
          | intersec i => simp [GV.isCross] at h
          | corner d => simp [GV.isCross] at h
          | regular i =>
              simp only [walkEdge, hn]
              rw [ih f acc hf', poisOf_cons_regular]
          | poi i =>
              simp only [walkEdge, hn]
              rw [ih f _ hf', poisOf_cons_poi, List.append_assoc]
              rfl

theorem path_of_walk {segs : List (GV × GV)} {verts : List Pt} : ∀ (fuel : Nat) (v : GV) (acc : List Pt) (e : GV) (r : List Pt),
    walkEdge segs verts fuel v acc = .ok (e, r) → ∃ l, Path segs v l e ∧ r = acc ++ poisOf verts l ∧ l.length < fuel := by
  intro fuel
  induction fuel with
  | zero => intro v acc e r h; simp [walkEdge] at h
  | succ f ih =>
      intro v acc e r h
      cases v with
      | intersec i =>
          simp only [walkEdge, Res.ok.injEq, Prod.mk.injEq] at h
          exact ⟨[], by rw [← h.1]; exact Path.stop rfl, by rw [← h.2]; simp [poisOf], by simp⟩
      | corner d =>
          simp only [walkEdge, Res.ok.injEq, Prod.mk.injEq] at h
          exact ⟨[], by rw [← h.1]; exact Path.stop rfl, by rw [← h.2]; simp [poisOf], by simp⟩
      | regular i =>
          simp only [walkEdge] at h
          cases hn : segNext segs (.regular i) with
          | none => rw [hn] at h; cases h
          | some v' =>
              rw [hn] at h
              obtain ⟨l, hp, hr, hl⟩ := ih v' acc e r h
              exact ⟨.regular i :: l, Path.step rfl hn hp, by rw [poisOf_cons_regular]; exact hr,
                by simp only [List.length_cons]; omega⟩
      | poi i =>
          simp only [walkEdge] at h
          cases hn : segNext segs (.poi i) with
          | none => rw [hn] at h; cases h
          | some v' =>
              rw [hn] at h
              obtain ⟨l, hp, hr, hl⟩ := ih v' _ e r h
              refine ⟨.poi i :: l, Path.step rfl hn hp, ?_, by simp only [List.length_cons]; omega⟩
              rw [poisOf_cons_poi, hr, List.append_assoc]; rfl

/-- **C16, step 4 — the walk**: from `v` the routine reaches `(e, pts)` iff `e` is the first intersection of the chain from
    `v`, everything before it being regular vertices or points of interest, and `pts` are the points of interest in the order
    of the chain (within the fuel the model gives: one step per entry of the segment map) -/
theorem C16_walk_edge_spec (segs : List (GV × GV)) (verts : List Pt) (fuel : Nat) (v e : GV) (pts : List Pt) :
    walkEdge segs verts fuel v [] = .ok (e, pts) ↔ ∃ l, Path segs v l e ∧ pts = poisOf verts l ∧ l.length < fuel := by
  constructor
  · intro h
    obtain ⟨l, hp, hr, hl⟩ := path_of_walk fuel v [] e pts h
    exact ⟨l, hp, by simpa using hr, hl⟩
  · rintro ⟨l, hp, rfl, hl⟩
    have := walk_of_path (verts := verts) hp fuel [] hl
    simpa using this

/-- the dart a new edge starts from: the β2 image of the dart of the start intersection (`β2(β1(β2(d)))`, the dart of the
    opposite quadrant, after a corner crossing) -/
def startDart (b1 b2 : Nat → Nat) (darts : List Nat) : GV → Nat
  | .intersec i => b2 (darts.getD i 0)
  | .corner d => b2 (b1 (b2 d))
  | _ => 0

/-- the dart a new edge ends at: the dart of the end intersection -/
def endDart (darts : List Nat) : GV → Nat
  | .intersec i => darts.getD i 0
  | .corner d => d
  | _ => 0

/-- **C16, step 4 — the edge of a key** -/
theorem C16_edge_of_key_spec (b1 b2 : Nat → Nat) (verts : List Pt) (segs : List (GV × GV)) (darts : List Nat) (k : GV)
    (ed : MEdge) :
    edgeOfKey b1 b2 verts segs darts k = .ok ed ↔
      ∃ v l e, segNext segs k = some v ∧ Path segs v l e ∧ l.length < segs.length + 1 ∧
        ed = { start := startDart b1 b2 darts k, inter := poisOf verts l, stop := endDart darts e } := by
  unfold edgeOfKey
  cases hn : segNext segs k with
  | none => simp
  | some v =>
      simp only
      cases hw : walkEdge segs verts (segs.length + 1) v [] with
      | panic => simp only [reduceCtorEq, false_iff]; rintro ⟨v', l, e, h1, hp, hl, _⟩
                 injection h1 with h1; subst h1
                 have := walk_of_path (verts := verts) hp _ [] hl
                 rw [hw] at this; cases this
      | diverges => simp only [reduceCtorEq, false_iff]; rintro ⟨v', l, e, h1, hp, hl, _⟩
                    injection h1 with h1; subst h1
                    have := walk_of_path (verts := verts) hp _ [] hl
                    rw [hw] at this; cases this
      | ok x =>
          obtain ⟨e, pts⟩ := x
          obtain ⟨l, hp, hr, hl⟩ := (C16_walk_edge_spec segs verts _ v e pts).1 hw
          simp only [Res.ok.injEq]
          constructor
          · intro h
            refine ⟨v, l, e, rfl, hp, hl, ?_⟩
            rw [← h, hr]
            cases k <;> cases e <;> rfl
          · rintro ⟨v', l', e', h1, hp', hl', rfl⟩
            injection h1 with h1; subst h1
            have := walk_of_path (verts := verts) hp' _ [] hl'
            rw [hw] at this
            simp only [List.nil_append, Res.ok.injEq, Prod.mk.injEq] at this
            rw [← this.1, ← this.2]
            cases k <;> cases e <;> rfl

/-! ## one edge per key -/

theorem edgeData_ok {b1 b2 : Nat → Nat} {verts : List Pt} {segs : List (GV × GV)} {darts : List Nat} :
    ∀ (keys : List GV) (es : List MEdge), edgeData b1 b2 verts segs darts keys = .ok es ↔
      List.Forall₂ (fun k e => edgeOfKey b1 b2 verts segs darts k = .ok e) keys es
  | [], es => by
      simp only [edgeData, Res.ok.injEq]
      constructor
      · intro h; rw [← h]; exact List.Forall₂.nil
      · intro h; cases h; rfl
  | k :: ks, es => by
      unfold edgeData
      cases hk : edgeOfKey b1 b2 verts segs darts k with
      | panic => simp only [reduceCtorEq, false_iff]; intro h; cases h with | cons h1 _ => rw [hk] at h1; cases h1
      | diverges => simp only [reduceCtorEq, false_iff]; intro h; cases h with | cons h1 _ => rw [hk] at h1; cases h1
      | ok e =>
          simp only
          cases hr : edgeData b1 b2 verts segs darts ks with
          | panic =>
              simp only [reduceCtorEq, false_iff]; intro h
              cases h with | cons _ h2 => exact absurd ((edgeData_ok ks _).2 h2) (by rw [hr]; simp)
          | diverges =>
              simp only [reduceCtorEq, false_iff]; intro h
              cases h with | cons _ h2 => exact absurd ((edgeData_ok ks _).2 h2) (by rw [hr]; simp)
          | ok es' =>
              simp only [Res.ok.injEq]
              constructor
              · intro h; rw [← h]; exact List.Forall₂.cons hk ((edgeData_ok ks es').1 hr)
              · intro h
                cases h with
                | cons h1 h2 =>
                    rw [hk] at h1; injection h1 with h1
                    have := (edgeData_ok ks _).2 h2
                    rw [hr] at this; injection this with this
                    rw [h1, this]

/-- **C16, step 4 — one edge per key, the edge of that key, in the order of the keys** -/
theorem C16_edge_data_spec (b1 b2 : Nat → Nat) (verts : List Pt) (segs : List (GV × GV)) (darts : List Nat)
    (keys : List GV) (es : List MEdge) (h : edgeData b1 b2 verts segs darts keys = .ok es) :
    es.length = keys.length ∧
    ∀ (i : Nat) (k : GV), keys[i]? = some k → ∃ e, es[i]? = some e ∧ edgeOfKey b1 b2 verts segs darts k = .ok e := by
  have hf := (edgeData_ok keys es).1 h
  refine ⟨hf.length_eq.symm, ?_⟩
  clear h
  induction hf with
  | nil => intro i k hk; simp at hk
  | cons h1 _ ih =>
      intro i k hk
      cases i with
      | zero => simp only [List.getElem?_cons_zero, Option.some.injEq] at hk; subst hk; exact ⟨_, by simp, h1⟩
      | succ i' => simp only [List.getElem?_cons_succ] at hk ⊢; exact ih i' k hk

/-- the edge the routine builds for a key (when it builds one) -/
def edgeFn (b1 b2 : Nat → Nat) (verts : List Pt) (segs : List (GV × GV)) (darts : List Nat) (k : GV) : MEdge :=
  match edgeOfKey b1 b2 verts segs darts k with
  | .ok e => e
  | _ => { start := 0, inter := [], stop := 0 }

theorem edgeData_eq_map {b1 b2 : Nat → Nat} {verts : List Pt} {segs : List (GV × GV)} {darts : List Nat}
    {keys : List GV} {es : List MEdge} (h : edgeData b1 b2 verts segs darts keys = .ok es) :
    es = keys.map (edgeFn b1 b2 verts segs darts) := by
  have hf := (edgeData_ok keys es).1 h
  clear h
  induction hf with
  | nil => rfl
  | cons h1 _ ih => rw [List.map_cons, ← ih]; unfold edgeFn; rw [h1]

/-- **C16, step 4 — the `HashMap` order only permutes the edges**: two iteration orders that are permutations of each
    other give edge lists that are permutations of each other -/
theorem C16_edge_data_order_independent (b1 b2 : Nat → Nat) (verts : List Pt) (segs : List (GV × GV)) (darts : List Nat)
    {keys keys' : List GV} (hp : keys.Perm keys') {es es' : List MEdge}
    (h : edgeData b1 b2 verts segs darts keys = .ok es) (h' : edgeData b1 b2 verts segs darts keys' = .ok es') :
    es.Perm es' := by
  rw [edgeData_eq_map h, edgeData_eq_map h']
  exact hp.map _

/-! ## example: a triangle cut by one grid line -/

-- P0 → I0 → R1 → P2 → I1 → P0 (segment map of a boundary with two crossings, a regular corner and two points of interest)
def exSegs4 : List (GV × GV) :=
  [(.poi 0, .intersec 0), (.intersec 0, .regular 1), (.regular 1, .poi 2), (.poi 2, .intersec 1), (.intersec 1, .poi 0)]
def exVerts4 : List Pt := [(0, 0), (2, 0), (2, 2)]

example : edgeData (fun d => d + 100) (fun d => d + 1000) exVerts4 exSegs4 [50, 60] [.intersec 0, .intersec 1] =
    .ok [{ start := 1050, inter := [(2, 2)], stop := 60 }, { start := 1060, inter := [(0, 0)], stop := 50 }] := by decide +kernel
example : Path exSegs4 (.regular 1) [.regular 1, .poi 2] (.intersec 1) :=
  Path.step rfl (by decide +kernel) (Path.step rfl (by decide +kernel) (Path.stop rfl))
example : (crossKeys exSegs4) = [.intersec 0, .intersec 1] := by decide +kernel

end HC.C16
