/-
  C13, fifth part — the triangles built by EAR CLIPPING carry the coordinates of the vertex-list triangles
  (header completed below).
-/
import Honeycomb.Props.C13d

set_option linter.unusedSimpArgs false
set_option linter.unusedVariables false

namespace HC.C13
open HC HC.PosCalc HC.C03 HC.CellCalc

variable {n : Nat} {u : Array Bool}

/-! ## two forms of the 1-sew -/

/-- a 1-sew from a dart without β2 neighbour changes neither cells nor coordinates -/
theorem sewNoNb_pos (cfg : Cfg Val) (hlaw : cfg.law 0 = avgLaw) {l r : Nat} {m m' : Map Val} {a : Unit}
    (hi : Inv n u m) (hfc : m.fc = 0) (hl : Live n u l) (hr : Live n u r) (hb : m.β 2 l = 0)
    (h : run (oneSew2 cfg n l r) m = (.ok a, m')) :
    Inv n u m' ∧ m'.fc = 0 ∧ (∀ d, Valid m d → pos m' d = pos m d) ∧ (∀ d e, VC m' d e ↔ VC m d e) := by
  obtain ⟨⟨i', fc'⟩, k, _⟩ := sew1_pos cfg hlaw hi hfc hl hr h
  exact ⟨i', by rw [fc']; exact hfc, (k hb).1, (k hb).2⟩

/-- the β2 neighbour of a dart is never a dart without β2 image -/
theorem nb_ne_free {m : Map Val} (hwf : WF 3 m) {d e : Nat} (hd : Valid m d) (he0 : e ≠ 0) (hfe : m.β 2 e = 0) :
    m.β 2 d ≠ e := by
  intro hh
  by_cases hz : m.β 2 d = 0
  · exact he0 (by rw [← hh]; exact hz)
  · have := (hwf.invol 2 (by omega) (by omega) d hd.2 hz).1
    rw [hh, hfe] at this
    exact hd.1 this.symm

/-- a 1-sew onto a fresh dart `e` (alone in its cell, valueless): every other dart keeps its coordinates; `e` stays
    alone and valueless when `l` has no β2 neighbour, else it joins the vertex of that neighbour and takes its value -/
theorem sewFresh_pos (cfg : Cfg Val) (hlaw : cfg.law 0 = avgLaw) {l e : Nat} {m m' : Map Val} {a : Unit}
    (hi : Inv n u m) (hfc : m.fc = 0) (hl : Live n u l) (he : Live n u e) (hsg : ∀ y, VC m e y → y = e)
    (hne : pos m e = none) (h : run (oneSew2 cfg n l e) m = (.ok a, m')) :
    Inv n u m' ∧ m'.fc = 0 ∧ (∀ d, Valid m d → d ≠ e → pos m' d = pos m d) ∧
    ((m.β 2 l = 0 ∧ (∀ y, VC m' e y → y = e) ∧ pos m' e = none) ∨ (m.β 2 l ≠ 0 ∧ pos m' e = pos m (m.β 2 l))) ∧
    (∀ z, z ≠ e → m.β 2 l ≠ z → (∀ y, VC m z y → y = z) → ∀ y, VC m' z y → y = z) := by
  obtain ⟨⟨i', fc'⟩, k0, k1⟩ := sew1_pos cfg hlaw hi hfc hl he h
  have ve := valid_of_live hi he
  have vl := valid_of_live hi hl
  refine ⟨i', by rw [fc']; exact hfc, ?_⟩
  by_cases hb : m.β 2 l = 0
  · obtain ⟨k, cD⟩ := k0 hb
    exact ⟨fun d hd _ => k d hd, Or.inl ⟨hb, fun y hy => hsg y ((cD e y).1 hy), by rw [k e ve]; exact hne⟩,
      fun z _ _ hs y hy => hs y ((cD z y).1 hy)⟩
  · obtain ⟨cells, keep, merged, value⟩ := k1 hb
    have hbv : Valid m (m.β 2 l) := ⟨hb, hi.wf.range 2 (by omega) l vl.2⟩
    have hv : pos m' e = pos m (m.β 2 l) := by
      rw [value (fun x y _ hy => by rw [hne] at hy; exact absurd hy (by simp)), hne]
      cases pos m (m.β 2 l) <;> rfl
    refine ⟨?_, Or.inr ⟨hb, hv⟩, ?_⟩
    · intro d hd hde
      by_cases hc : VC m d (m.β 2 l)
      · rw [merged d hd (Or.inl hc), hv]
        exact (pos_eq_of_VC hi.wf hd hbv hc).symm
      · exact keep d hd hc (fun c => hde (hsg d (SameCell.symm c)))
    · intro z hze hbz hs y hy
      exact singleton_united hs hbz (fun hh => hze hh.symm) y ((cells z y).1 hy)

end HC.C13
