/-
  C13, fifth part — the triangles built by EAR CLIPPING carry the coordinates of the vertex-list triangles.

  C13.lean proves the area sum and the orientation of the clipped ears for the vertex-list computation
  `earclipTriangles` (the kernel's `vertices` vector with its ear search and `remove`); C13c.lean proves the exact β
  structure of the result (`earTris`: n-2 closed dart triangles, computed with the kernel's `darts` vector).  This file
  ties the two IN THE RESULT MAP, with `pos m d := m.att 0 (vertex_id d)` and the value calculus of
  Lemmas/PosCalc.lean (`unsew1_pos`, `sew1_pos`, and — new — `twoSewBoth_pos` for the 2-sew of two darts with successors):

  * `earIter_pos`     : one iteration (`unsew1 rl; unsew1 y; sew1 y nd1; sew1 nd1 x; sew1 rl nd2; sew1 nd2 r0; sew2 nd1 nd2`)
                        on `rl → x → y → r0` with fresh `nd1`, `nd2`: every other dart keeps `pos`, `nd1` gets the coordinates
                        of `r0`, `nd2` those of `x`.  A fresh dart stays alone and valueless until a sew gives it a β2
                        neighbour's vertex (`sewFresh_pos`) or the final 2-sew merges it with the end point (`merge` with an
                        undefined side, or `avg v v = v`).  The 2-sew needs its two end points `x`, `r0` to be different
                        vertices: they carry different coordinates because the ear test rejected `cross = 0`;
  * `earclipLoop_pos` : the invariant "the `darts` vector is the current face in cyclic order AND `darts[i]` carries
                        `vertices[i]`" through the loop (with `EarsNotLast`, as in C13c);
  * `C13_earclip_triangles_carry_list_coordinates`, `C13_earclip_area_conserved_in_map`,
    `C13_earclip_orientation_in_map` (+ `_ccw_` / `_cw_` for the two public kernels),
    `C13_earclip_old_vertices_keep_coordinates`.

  Hypotheses beyond C13c: fresh spare darts (free, valueless), `cfg.law 0 = avgLaw`, `m.fc = 0`, and an orientation test
  that rejects triples with equal end points (true of `insideCCW` and `insideCW`).

  About the LAST triangle (the three vertices left at the end): the code does not test it.  What is proved is its
  doubled area — the polygon's minus the ears' — nothing about its sign.
-/
import Honeycomb.Props.C13d

set_option linter.unusedSimpArgs false
set_option linter.unusedVariables false

namespace HC.C13
open HC HC.PosCalc HC.C03 HC.CellCalc

variable {n : Nat} {u : Array Bool}

/-! ## two forms of the 1-sew -/

/-- a 1-sew from a dart without β2 neighbour changes neither cells nor coordinates -/
theorem sewNoNb_pos (cfg : Cfg Val) (hlaw : cfg.law 0 = avgLaw) {l r : Nat} {m m' : Map Val} {a : Unit}
    (hi : Inv n u m) (hfc : m.fc = 0) (hl : Live n u l) (hr : Live n u r) (hb : m.β 2 l = 0)
    (h : run (oneSew2 cfg n l r) m = (.ok a, m')) :
    Inv n u m' ∧ m'.fc = 0 ∧ (∀ d, Valid m d → pos m' d = pos m d) ∧ (∀ d e, VC m' d e ↔ VC m d e) := by
  obtain ⟨⟨i', fc'⟩, k, _⟩ := sew1_pos cfg hlaw hi hfc hl hr h
  exact ⟨i', by rw [fc']; exact hfc, (k hb).1, (k hb).2⟩

/-- the β2 neighbour of a dart is never a dart without β2 image -/
theorem nb_ne_free {m : Map Val} (hwf : WF 3 m) {d e : Nat} (hd : Valid m d) (he0 : e ≠ 0) (hfe : m.β 2 e = 0) :
    m.β 2 d ≠ e := by
  intro hh
  by_cases hz : m.β 2 d = 0
  · exact he0 (by rw [← hh]; exact hz)
  · have := (hwf.invol 2 (by omega) (by omega) d hd.2 hz).1
    rw [hh, hfe] at this
    exact hd.1 this.symm

/-- a 1-sew onto a fresh dart `e` (alone in its cell, valueless): every other dart keeps its coordinates; `e` stays
    alone and valueless when `l` has no β2 neighbour, else it joins the vertex of that neighbour and takes its value -/
theorem sewFresh_pos (cfg : Cfg Val) (hlaw : cfg.law 0 = avgLaw) {l e : Nat} {m m' : Map Val} {a : Unit}
    (hi : Inv n u m) (hfc : m.fc = 0) (hl : Live n u l) (he : Live n u e) (hsg : ∀ y, VC m e y → y = e)
    (hne : pos m e = none) (h : run (oneSew2 cfg n l e) m = (.ok a, m')) :
    Inv n u m' ∧ m'.fc = 0 ∧ (∀ d, Valid m d → d ≠ e → pos m' d = pos m d) ∧
    ((m.β 2 l = 0 ∧ (∀ y, VC m' e y → y = e) ∧ pos m' e = none) ∨ (m.β 2 l ≠ 0 ∧ pos m' e = pos m (m.β 2 l))) ∧
    (∀ z, z ≠ e → m.β 2 l ≠ z → (∀ y, VC m z y → y = z) → ∀ y, VC m' z y → y = z) := by
  obtain ⟨⟨i', fc'⟩, k0, k1⟩ := sew1_pos cfg hlaw hi hfc hl he h
  have ve := valid_of_live hi he
  have vl := valid_of_live hi hl
  refine ⟨i', by rw [fc']; exact hfc, ?_⟩
  by_cases hb : m.β 2 l = 0
  · obtain ⟨k, cD⟩ := k0 hb
    exact ⟨fun d hd _ => k d hd, Or.inl ⟨hb, fun y hy => hsg y ((cD e y).1 hy), by rw [k e ve]; exact hne⟩,
      fun z _ _ hs y hy => hs y ((cD z y).1 hy)⟩
  · obtain ⟨cells, keep, merged, value⟩ := k1 hb
    have hbv : Valid m (m.β 2 l) := ⟨hb, hi.wf.range 2 (by omega) l vl.2⟩
    have hv : pos m' e = pos m (m.β 2 l) := by
      rw [value (fun x y _ hy => by rw [hne] at hy; exact absurd hy (by simp)), hne]
      cases pos m (m.β 2 l) <;> rfl
    refine ⟨?_, Or.inr ⟨hb, hv⟩, ?_⟩
    · intro d hd hde
      by_cases hc : VC m d (m.β 2 l)
      · rw [merged d hd (Or.inl hc), hv]
        exact (pos_eq_of_VC hi.wf hd hbv hc).symm
      · exact keep d hd hc (fun c => hde (hsg d (SameCell.symm c)))
    · intro z hze hbz hs y hy
      exact singleton_united hs hbz (fun hh => hze hh.symm) y ((cells z y).1 hy)

/-! ## one iteration of the ear-clipping loop -/

/-- the seven sews of one iteration — `unsew1 rl; unsew1 y; sew1 y nd1; sew1 nd1 x; sew1 rl nd2; sew1 nd2 r0;
    sew2 nd1 nd2` — on a face `rl → x → y → r0` with fresh spare darts `nd1`, `nd2`, when the two end points `x`, `r0`
    of the cut carry different coordinates: every other dart keeps its coordinates, `nd1` gets those of `r0`, `nd2` those
    of `x` -/
theorem earIter_pos (cfg : Cfg Val) (hlaw : cfg.law 0 = avgLaw) {x y r0 rl nd1 nd2 : Nat}
    {m m1 m2 m3 m4 m5 m6 m7 : Map Val} (hi : Inv n u m) (hfc : m.fc = 0)
    (lx : Live n u x) (ly : Live n u y) (lr0 : Live n u r0) (lrl : Live n u rl) (l1 : Live n u nd1) (l2 : Live n u nd2)
    (cyr : m.β 1 y = r0) (clx : m.β 1 rl = x) (hyl : y ≠ rl)
    (h12 : nd1 ≠ nd2) (hn1 : nd1 ≠ x ∧ nd1 ≠ y ∧ nd1 ≠ r0 ∧ nd1 ≠ rl) (hn2 : nd2 ≠ x ∧ nd2 ≠ y ∧ nd2 ≠ r0 ∧ nd2 ≠ rl)
    (hf1 : ∀ i, i < 3 → m.β i nd1 = 0) (hf2 : ∀ i, i < 3 → m.β i nd2 = 0)
    (hp1 : pos m nd1 = none) (hp2 : pos m nd2 = none) (hpx : pos m x ≠ pos m r0)
    (s1 : run (oneUnsew2 cfg n rl) m = (.ok (), m1)) (s2 : run (oneUnsew2 cfg n y) m1 = (.ok (), m2))
    (s3 : run (oneSew2 cfg n y nd1) m2 = (.ok (), m3)) (s4 : run (oneSew2 cfg n nd1 x) m3 = (.ok (), m4))
    (s5 : run (oneSew2 cfg n rl nd2) m4 = (.ok (), m5)) (s6 : run (oneSew2 cfg n nd2 r0) m5 = (.ok (), m6))
    (s7 : run (twoSew2 cfg n nd1 nd2) m6 = (.ok (), m7)) :
    Inv n u m7 ∧ m7.fc = 0 ∧
    (∀ d, Valid m d → d ≠ nd1 → d ≠ nd2 → pos m7 d = pos m d) ∧
    pos m7 nd1 = pos m r0 ∧ pos m7 nd2 = pos m x ∧
    (∀ e, e ≠ x → e ≠ y → e ≠ r0 → e ≠ rl → e ≠ nd1 → e ≠ nd2 → ∀ i, m7.β i e = m.β i e) := by
  have hwf := hi.wf
  have vx := valid_of_live hi lx
  have vy := valid_of_live hi ly
  have vr0 := valid_of_live hi lr0
  have vrl := valid_of_live hi lrl
  have v1 := valid_of_live hi l1
  have v2 := valid_of_live hi l2
  -- the two unsews
  obtain ⟨i1, _, _, e1⟩ := oneUnsew2_eff cfg n hi s1
  rw [clx] at e1
  obtain ⟨⟨_, fc1⟩, pA, _⟩ := unsew1_pos cfg hlaw hi hfc s1
  have hfc1 : m1.fc = 0 := by rw [fc1]; exact hfc
  obtain ⟨i2, _, _, e2⟩ := oneUnsew2_eff cfg n i1 s2
  have hm1y : m1.β 1 y = r0 := by
    rw [e1, if_neg (fun hh => absurd hh.1 (by decide)), if_neg (fun hh => hyl hh.2.symm), cyr]
  rw [hm1y] at e2
  obtain ⟨⟨_, fc2⟩, pB, _⟩ := unsew1_pos cfg hlaw i1 hfc1 s2
  have hfc2 : m2.fc = 0 := by rw [fc2]; exact hfc1
  have pAB : ∀ d, Valid m d → pos m2 d = pos m d := fun d hd => by rw [pB d (valid_trans hi i1 hd), pA d hd]
  have b2_2 : ∀ z, m2.β 2 z = m.β 2 z := by
    intro z; rw [e2, e1]
    simp only [show ¬ (0 = 2) by decide, show ¬ (1 = 2) by decide, false_and, if_false]
  have hf1' : ∀ i, i < 3 → m2.β i nd1 = 0 := by
    intro i hi3
    rw [e2, if_neg (fun hh => hn1.2.2.1 hh.2.symm), if_neg (fun hh => hn1.2.1 hh.2.symm), e1,
      if_neg (fun hh => hn1.1 hh.2.symm), if_neg (fun hh => hn1.2.2.2 hh.2.symm)]
    exact hf1 i hi3
  have hf2' : ∀ i, i < 3 → m2.β i nd2 = 0 := by
    intro i hi3
    rw [e2, if_neg (fun hh => hn2.2.2.1 hh.2.symm), if_neg (fun hh => hn2.2.1 hh.2.symm), e1,
      if_neg (fun hh => hn2.1 hh.2.symm), if_neg (fun hh => hn2.2.2.2 hh.2.symm)]
    exact hf2 i hi3
  have sg1 : ∀ z, VC m2 nd1 z → z = nd1 := free_singleton i2.wf (valid_trans hi i2 v1) hf1'
  have sg2 : ∀ z, VC m2 nd2 z → z = nd2 := free_singleton i2.wf (valid_trans hi i2 v2) hf2'
  -- the neighbours across `y` and `rl` start at `r0` and `x`
  have nbY : m.β 2 y ≠ 0 → Valid m (m.β 2 y) ∧ pos m (m.β 2 y) = pos m r0 ∧ m.β 2 y ≠ nd1 ∧ m.β 2 y ≠ nd2 := by
    intro hnb
    have hnbv : Valid m (m.β 2 y) := ⟨hnb, hwf.range 2 (by omega) y vy.2⟩
    have hinv := hwf.invol 2 (by omega) (by omega) y vy.2 hnb
    have hstep : VC m (m.β 2 y) r0 := by
      refine SameCell.step ⟨hnb, hnbv.2, lr0.1, ?_⟩
      simp only [g2, List.mem_cons]
      left; rw [hinv.1, cyr]
    exact ⟨hnbv, pos_eq_of_VC hwf hnbv vr0 hstep, nb_ne_free hwf vy l1.1 (hf1 2 (by omega)),
      nb_ne_free hwf vy l2.1 (hf2 2 (by omega))⟩
  have nbL : m.β 2 rl ≠ 0 → Valid m (m.β 2 rl) ∧ pos m (m.β 2 rl) = pos m x ∧ m.β 2 rl ≠ nd1 ∧ m.β 2 rl ≠ nd2 := by
    intro hnb
    have hnbv : Valid m (m.β 2 rl) := ⟨hnb, hwf.range 2 (by omega) rl vrl.2⟩
    have hinv := hwf.invol 2 (by omega) (by omega) rl vrl.2 hnb
    have hstep : VC m (m.β 2 rl) x := by
      refine SameCell.step ⟨hnb, hnbv.2, lx.1, ?_⟩
      simp only [g2, List.mem_cons]
      left; rw [hinv.1, clx]
    exact ⟨hnbv, pos_eq_of_VC hwf hnbv vx hstep, nb_ne_free hwf vrl l1.1 (hf1 2 (by omega)),
      nb_ne_free hwf vrl l2.1 (hf2 2 (by omega))⟩
  -- op 3: sew1 y nd1
  obtain ⟨i3, _, _, e3⟩ := oneSew2_eff cfg n i2 ly l1 s3
  obtain ⟨_, hfc3, kC, stC, sglC⟩ := sewFresh_pos cfg hlaw i2 hfc2 ly l1 sg1
    (by rw [pAB nd1 v1]; exact hp1) s3
  rw [b2_2] at stC sglC
  have b2_3 : ∀ z, m3.β 2 z = m.β 2 z := by
    intro z; rw [e3, b2_2]
    simp only [show ¬ (0 = 2) by decide, show ¬ (1 = 2) by decide, false_and, if_false]
  have sg2c : ∀ z, VC m3 nd2 z → z = nd2 :=
    sglC nd2 (fun hh => h12 hh.symm) (nb_ne_free hwf vy l2.1 (hf2 2 (by omega))) sg2
  -- op 4: sew1 nd1 x
  obtain ⟨i4, _, _, e4⟩ := oneSew2_eff cfg n i3 l1 lx s4
  obtain ⟨_, hfc4, kD, cD⟩ := sewNoNb_pos cfg hlaw i3 hfc3 l1 lx (by rw [b2_3]; exact hf1 2 (by omega)) s4
  have b2_4 : ∀ z, m4.β 2 z = m.β 2 z := by
    intro z; rw [e4, b2_3]
    simp only [show ¬ (0 = 2) by decide, show ¬ (1 = 2) by decide, false_and, if_false]
  have sg2d : ∀ z, VC m4 nd2 z → z = nd2 := fun z hz => sg2c z ((cD nd2 z).1 hz)
  have p24 : ∀ d, Valid m d → d ≠ nd1 → pos m4 d = pos m d := fun d hd hne => by
    rw [kD d (valid_trans hi i3 hd), kC d (valid_trans hi i2 hd) hne, pAB d hd]
  -- op 5: sew1 rl nd2
  obtain ⟨i5, _, _, e5⟩ := oneSew2_eff cfg n i4 lrl l2 s5
  obtain ⟨_, hfc5, kE, stE, sglE⟩ := sewFresh_pos cfg hlaw i4 hfc4 lrl l2 sg2d
    (by rw [p24 nd2 v2 (fun hh => h12 hh.symm)]; exact hp2) s5
  rw [b2_4] at stE sglE
  have b2_5 : ∀ z, m5.β 2 z = m.β 2 z := by
    intro z; rw [e5, b2_4]
    simp only [show ¬ (0 = 2) by decide, show ¬ (1 = 2) by decide, false_and, if_false]
  -- op 6: sew1 nd2 r0
  obtain ⟨i6, _, _, e6⟩ := oneSew2_eff cfg n i5 l2 lr0 s6
  obtain ⟨_, hfc6, kF, cF⟩ := sewNoNb_pos cfg hlaw i5 hfc5 l2 lr0 (by rw [b2_5]; exact hf2 2 (by omega)) s6
  -- the state before the 2-sew
  have p46 : ∀ d, Valid m d → d ≠ nd2 → pos m6 d = pos m4 d := fun d hd hne => by
    rw [kF d (valid_trans hi i5 hd), kE d (valid_trans hi i4 hd) hne]
  have p6 : ∀ d, Valid m d → d ≠ nd1 → d ≠ nd2 → pos m6 d = pos m d := fun d hd h1 h2 => by
    rw [p46 d hd h2, p24 d hd h1]
  have st1 : (∀ z, VC m6 nd1 z → z = nd1) ∧ pos m6 nd1 = none ∨ pos m6 nd1 = pos m r0 := by
    rcases stC with ⟨hb, sg, pn⟩ | ⟨hb, pv⟩
    · left
      have sg4 : ∀ z, VC m4 nd1 z → z = nd1 := fun z hz => sg z ((cD nd1 z).1 hz)
      have sg5 : ∀ z, VC m5 nd1 z → z = nd1 := sglE nd1 h12 (nb_ne_free hwf vrl l1.1 (hf1 2 (by omega))) sg4
      refine ⟨fun z hz => sg5 z ((cF nd1 z).1 hz), ?_⟩
      rw [p46 nd1 v1 h12, kD nd1 (valid_trans hi i3 v1)]; exact pn
    · right
      obtain ⟨hv, hp, _, _⟩ := nbY hb
      rw [p46 nd1 v1 h12, kD nd1 (valid_trans hi i3 v1), pv, pAB _ hv, hp]
  have st2 : (∀ z, VC m6 nd2 z → z = nd2) ∧ pos m6 nd2 = none ∨ pos m6 nd2 = pos m x := by
    rcases stE with ⟨hb, sg, pn⟩ | ⟨hb, pv⟩
    · left
      refine ⟨fun z hz => sg z ((cF nd2 z).1 hz), ?_⟩
      rw [kF nd2 (valid_trans hi i5 v2)]; exact pn
    · right
      obtain ⟨hv, hp, hne1, _⟩ := nbL hb
      rw [kF nd2 (valid_trans hi i5 v2), pv, p24 _ hv hne1, hp]
  have hb1n1 : m6.β 1 nd1 = x := by
    rw [e6, if_neg (fun hh => absurd hh.1 (by decide)), if_neg (fun hh => h12 hh.2.symm), e5,
      if_neg (fun hh => absurd hh.1 (by decide)), if_neg (fun hh => hn1.2.2.2 hh.2.symm), e4,
      if_neg (fun hh => absurd hh.1 (by decide)), if_pos ⟨rfl, rfl⟩]
  have hb1n2 : m6.β 1 nd2 = r0 := by
    rw [e6, if_neg (fun hh => absurd hh.1 (by decide)), if_pos ⟨rfl, rfl⟩]
  have px6 : pos m6 x = pos m x := p6 x vx (fun hh => hn1.1 hh.symm) (fun hh => hn2.1 hh.symm)
  have pr6 : pos m6 r0 = pos m r0 := p6 r0 vr0 (fun hh => hn1.2.2.1 hh.symm) (fun hh => hn2.2.2.1 hh.symm)
  have w1 := valid_trans hi i6 v1
  have w2 := valid_trans hi i6 v2
  have wx := valid_trans hi i6 vx
  have wr := valid_trans hi i6 vr0
  have hpx' : pos m r0 ≠ pos m x := fun hh => hpx hh.symm
  -- the four separations
  have q4 : ¬ VC m6 r0 x := fun c => hpx' (by rw [← pr6, ← px6]; exact pos_eq_of_VC i6.wf wr wx c)
  have q2 : ¬ VC m6 nd1 x := by
    intro c
    rcases st1 with ⟨sg, _⟩ | pv
    · exact hn1.1 (sg x c).symm
    · exact hpx' (by rw [← pv, ← px6]; exact pos_eq_of_VC i6.wf w1 wx c)
  have q3 : ¬ VC m6 r0 nd2 := by
    intro c
    rcases st2 with ⟨sg, _⟩ | pv
    · exact hn2.2.2.1 (sg r0 (SameCell.symm c)).symm
    · exact hpx' (by rw [← pv, ← pr6]; exact pos_eq_of_VC i6.wf wr w2 c)
  have q1 : ¬ VC m6 nd1 nd2 := by
    intro c
    rcases st1 with ⟨sg, _⟩ | pv
    · exact h12 (sg nd2 c).symm
    · rcases st2 with ⟨sg, _⟩ | pv2
      · exact h12 (sg nd1 (SameCell.symm c))
      · exact hpx' (by rw [← pv, ← pv2]; exact pos_eq_of_VC i6.wf w1 w2 c)
  -- op 7
  obtain ⟨i7, _, _, e7⟩ := twoSew2_eff cfg n i6 l1 l2 h12 s7
  obtain ⟨⟨_, fc7⟩, keep, mAB, mCD⟩ := twoSewBoth_pos cfg hlaw i6 hfc6 l1 l2 h12
    (by rw [hb1n1]; exact lx.1) (by rw [hb1n2]; exact lr0.1) q1 (by rw [hb1n1]; exact q2) (by rw [hb1n2]; exact q3)
    (by rw [hb1n1, hb1n2]; exact q4) s7
  rw [hb1n1, hb1n2] at keep
  rw [hb1n2] at mAB
  rw [hb1n1] at mCD
  have vAB : (pos m6 nd1).or (pos m6 r0) = pos m r0 := by
    rcases st1 with ⟨_, pn⟩ | pv
    · rw [pn, pr6]; rfl
    · rw [pv, pr6, or_self']
  have vCD : (pos m6 x).or (pos m6 nd2) = pos m x := by
    rcases st2 with ⟨_, pn⟩ | pv
    · rw [pn, px6]; cases pos m x <;> rfl
    · rw [pv, px6, or_self']
  have mAB' := mAB (by
    intro a b ha hb
    rcases st1 with ⟨_, pn⟩ | pv
    · rw [pn] at ha; exact absurd ha (by simp)
    · rw [pv, ← pr6, hb] at ha; exact (Option.some.inj ha).symm)
  have mCD' := mCD (by
    intro a b ha hb
    rcases st2 with ⟨_, pn⟩ | pv
    · rw [pn] at hb; exact absurd hb (by simp)
    · rw [pv, ← px6, ha] at hb; exact Option.some.inj hb)
  rw [vAB] at mAB'
  rw [vCD] at mCD'
  refine ⟨i7, by rw [fc7]; exact hfc6, ?_, ?_, ?_, ?_⟩
  · intro d hd h1 h2
    have wd := valid_trans hi i6 hd
    rw [← p6 d hd h1 h2]
    by_cases cAB : VC m6 d nd1 ∨ VC m6 d r0
    · rw [mAB' d wd cAB]
      rcases cAB with c | c
      · rcases st1 with ⟨sg, _⟩ | pv
        · exact absurd (sg d (SameCell.symm c)) h1
        · rw [pos_eq_of_VC i6.wf wd w1 c, pv]
      · rw [pos_eq_of_VC i6.wf wd wr c, pr6]
    · by_cases cCD : VC m6 d x ∨ VC m6 d nd2
      · rw [mCD' d wd cCD]
        rcases cCD with c | c
        · rw [pos_eq_of_VC i6.wf wd wx c, px6]
        · rcases st2 with ⟨sg, _⟩ | pv
          · exact absurd (sg d (SameCell.symm c)) h2
          · rw [pos_eq_of_VC i6.wf wd w2 c, pv]
      · exact keep d wd (fun c => cAB (Or.inl c)) (fun c => cAB (Or.inr c)) (fun c => cCD (Or.inl c))
          (fun c => cCD (Or.inr c))
  · exact mAB' nd1 w1 (Or.inl (.refl _))
  · exact mCD' nd2 w2 (Or.inr (.refl _))
  · intro e hx hy hr hl h1 h2 i
    rw [e7, if_neg (fun hh => h2 hh.2.symm), if_neg (fun hh => h1 hh.2.symm), e6, if_neg (fun hh => hr hh.2.symm),
      if_neg (fun hh => h2 hh.2.symm), e5, if_neg (fun hh => h2 hh.2.symm), if_neg (fun hh => hl hh.2.symm), e4,
      if_neg (fun hh => hx hh.2.symm), if_neg (fun hh => h1 hh.2.symm), e3, if_neg (fun hh => h1 hh.2.symm),
      if_neg (fun hh => hy hh.2.symm), e2, if_neg (fun hh => hr hh.2.symm), if_neg (fun hh => hy hh.2.symm), e1,
      if_neg (fun hh => hx hh.2.symm), if_neg (fun hh => hl hh.2.symm)]

/-! ## the loop -/

/-- the 2D point carried by the origin of a dart -/
def p2pos (m : Map Val) (d : Nat) : Option P2 := (pos m d).map Val.p2

theorem triP2_of_p2pos {m : Map Val} {a b c : Nat} {pa pb pc : P2} (ha : p2pos m a = some pa)
    (hb : p2pos m b = some pb) (hc : p2pos m c = some pc) : triP2 m (a, b, c) = some (pa, pb, pc) := by
  unfold p2pos at ha hb hc
  unfold triP2
  cases h1 : pos m a with
  | none => rw [h1] at ha; simp at ha
  | some va =>
    cases h2 : pos m b with
    | none => rw [h2] at hb; simp at hb
    | some vb =>
      cases h3 : pos m c with
      | none => rw [h3] at hc; simp at hc
      | some vc =>
        rw [h1] at ha; rw [h2] at hb; rw [h3] at hc
        simp only [Option.map_some, Option.some.injEq] at ha hb hc
        simp only [ha, hb, hc]

/-- the vertex list split like the dart vector -/
theorem split_values {f : Nat → Option P2} {A B : List Nat} {x y : Nat} {vs : List P2}
    (h : (A ++ x :: y :: B).map f = vs.map some) :
    ∃ VA vx vy VB, vs = VA ++ vx :: vy :: VB ∧ A.map f = VA.map some ∧ f x = some vx ∧ f y = some vy ∧
      B.map f = VB.map some := by
  simp only [List.map_append, List.map_cons] at h
  obtain ⟨VA, Vr, hvs, hA, hr⟩ := List.map_eq_append_iff.1 h.symm
  obtain ⟨vx, Vr', hvr, hx, hr'⟩ := List.map_eq_cons_iff.1 hr
  obtain ⟨vy, VB, hvr', hy, hB⟩ := List.map_eq_cons_iff.1 hr'
  exact ⟨VA, vx, vy, VB, by rw [hvs, hvr, hvr'], hA.symm, hx.symm, hy.symm, hB.symm⟩

theorem getD_ear2 (VA VB : List P2) (vx vy vr : P2) (VRt : List P2) (h : VB ++ VA = vr :: VRt) :
    (VA ++ vx :: vy :: VB).getD ((VA.length + 2) % (VA ++ vx :: vy :: VB).length) default = vr := by
  cases VB with
  | nil =>
      simp only [List.nil_append] at h
      subst h
      have : ((vr :: VRt) ++ [vx, vy]).length = (vr :: VRt).length + 2 := by simp
      rw [this, Nat.mod_self]
      simp
  | cons vb VB' =>
      simp only [List.cons_append, List.cons.injEq] at h
      rw [Nat.mod_eq_of_lt (by simp)]
      have e : VA ++ vx :: vy :: vb :: VB' = (VA ++ [vx, vy]) ++ vb :: VB' := by simp
      rw [e, List.getD_eq_getElem?_getD, List.getElem?_append_right (by simp)]
      simp [h.1]

theorem map_length_eq {α β γ : Type} {f : α → γ} {g : β → γ} {l : List α} {l' : List β} (h : l.map f = l'.map g) :
    l.length = l'.length := by
  have := congrArg List.length h
  simpa using this

/-- **the coordinates through the ear-clipping loop**: on a closed face held in cyclic order in the kernel's `darts`
    vector, whose darts carry the points of the kernel's `vs` vector, with fresh spare darts: every dart other than the
    spare darts keeps its coordinates, and the corners of the dart triangles `earTris`, read in the result, are the
    triangles of the vertex-list computation `earclipTriangles`, in order -/
theorem earclipLoop_pos (cfg : Cfg Val) (hlaw : cfg.law 0 = avgLaw) (inside : P2 → P2 → P2 → Bool)
    (hins : ∀ a b c, inside a b c = true → a ≠ c) :
    ∀ (chunks : List (Nat × Nat)) (darts : List Nat) (vs : List P2) (m m' : Map Val) (d0 : Nat) (rest : List Nat),
      Inv n u m → m.fc = 0 → darts = d0 :: rest → ClosedFace m d0 rest → darts.map (p2pos m) = vs.map some →
      vs.length = chunks.length + 3 → (sparesOf chunks).Nodup →
      (∀ x ∈ sparesOf chunks, Live n u x ∧ x ∉ darts) →
      (∀ x ∈ sparesOf chunks, ∀ i, i < 3 → m.β i x = 0) → (∀ x ∈ sparesOf chunks, pos m x = none) →
      EarsNotLast inside chunks.length vs →
      run (earclipLoop cfg n inside chunks darts vs) m = (.ok (), m') →
      Inv n u m' ∧ (∀ d, Valid m d → d ∉ sparesOf chunks → pos m' d = pos m d) ∧
      ∃ tris, earclipTriangles inside chunks.length vs = some tris ∧
        (earTris inside chunks darts vs).map (triP2 m') = tris.map some := by
  intro chunks
  induction chunks with
  | nil =>
      intro darts vs m m' d0 rest hi _ hd hc hmap hvs _ _ _ _ _ h
      unfold earclipLoop at h
      have h3 : vs.length = 3 := by simpa using hvs
      simp [h3] at h
      subst h
      have hl := map_length_eq hmap
      rw [h3] at hl
      match darts, vs, hl, h3, hmap with
      | [a, b, c], [va, vb, vc], _, _, hmap =>
          simp only [List.map_cons, List.map_nil, List.cons.injEq, and_true] at hmap
          refine ⟨hi, fun _ _ _ => rfl, [(va, vb, vc)], rfl, ?_⟩
          simp only [earTris, List.map_cons, List.map_nil, List.cons.injEq, and_true]
          exact triP2_of_p2pos hmap.1 hmap.2.1 hmap.2.2
  | cons c rest' ih =>
      intro darts vs m m' d0 rest hi hfc hd hc hmap hvs hsnd hsp hfree hnone hears h
      obtain ⟨nd1, nd2⟩ := c
      rw [sparesOf_cons] at hsnd hsp hfree hnone
      simp only [List.nodup_cons, List.mem_cons, not_or] at hsnd
      obtain ⟨l1, hn1⟩ := hsp nd1 (by simp)
      obtain ⟨l2, hn2⟩ := hsp nd2 (by simp)
      have hne : nd1 ≠ nd2 := hsnd.1.1
      have hlen : darts.length = vs.length := map_length_eq hmap
      unfold earclipLoop at h
      simp only [List.length_cons] at hears
      unfold EarsNotLast at hears
      cases hf : findEar inside vs with
      | none => simp [hf] at h
      | some ear =>
          simp only [hf] at h
          rw [hf] at hears
          simp only at hears
          obtain ⟨hearlt, hears'⟩ := hears
          have hmod : (ear + 1) % vs.length = ear + 1 := Nat.mod_eq_of_lt hearlt
          rw [hmod] at h
          obtain ⟨A, x, y, B, hsplit, hA⟩ := split_at_ear darts ear (by rw [hlen]; exact hearlt)
          have hgx : darts.getD ear 0 = x := by rw [hsplit, ← hA]; simp
          have hgy : darts.getD (ear + 1) 0 = y := by
            rw [hsplit, ← hA]; simp [List.getD_eq_getElem?_getD]
          rw [hgx, hgy] at h
          -- the face read from the ear: x → y → R → x with R = B ++ A
          have hcx : ClosedFace m x (y :: (B ++ A)) := by
            cases A with
            | nil =>
                simp only [List.nil_append] at hsplit
                rw [hd] at hsplit
                simp only [List.cons.injEq] at hsplit
                obtain ⟨rfl, rfl⟩ := hsplit
                simpa using hc
            | cons a0 A' =>
                rw [hd] at hsplit
                simp only [List.cons_append, List.cons.injEq] at hsplit
                obtain ⟨rfl, rfl⟩ := hsplit
                have := hc.rotate_at
                simpa using this
          have hdnd : darts.Nodup := by rw [hd]; exact hc.nodup
          have hperm : (x :: y :: (B ++ A)).Perm darts := by
            rw [hsplit]
            have e1 : x :: y :: (B ++ A) = (x :: y :: B) ++ A := by simp
            rw [e1]; exact List.perm_append_comm
          have hmemR : ∀ z, z ∈ B ++ A → z ∈ darts := fun z hz => hperm.subset (by simp [hz])
          have hxd : x ∈ darts := hperm.subset (by simp)
          have hyd : y ∈ darts := hperm.subset (by simp)
          have hvalid : ∀ z, z ∈ darts → Valid m z := by
            intro z hz; rw [hd] at hz; exact ⟨hc.nz z hz, hc.lt hi.wf hz⟩
          have hcn := hcx.nodup
          simp only [List.nodup_cons, List.mem_cons, not_or] at hcn
          obtain ⟨⟨hxy, hxR⟩, hyR, hRnd⟩ := hcn
          -- the values, split like the darts
          rw [hsplit] at hmap
          obtain ⟨VA, vx, vy, VB, hvsplit, hmA, hmx, hmy, hmB⟩ := split_values hmap
          have hVA : VA.length = ear := by rw [← map_length_eq hmA]; exact hA
          -- R is not empty
          have hRlen : (B ++ A).length = rest'.length + 2 := by
            have := hperm.length_eq
            simp only [List.length_cons] at this
            rw [hlen, hvs] at this
            simp only [List.length_cons] at this
            omega
          cases hR : B ++ A with
          | nil => rw [hR] at hRlen; simp at hRlen
          | cons r0 Rt =>
            rw [hR] at hcx hxR hyR hRnd hmemR
            have hch := hcx.chain
            simp only [List.cons_append] at hch
            obtain ⟨cxy, cyr, hchR⟩ := hch
            obtain ⟨hchRt, hlast⟩ := B1Chain.last Rt r0 x hchR
            have hrlm := C14.getLastD_mem Rt r0
            have hrld := C14.getLastD_not_mem_dropLast Rt r0 hRnd
            have hx0 : x ≠ 0 := hcx.nz x (by simp)
            have hrllt : Rt.getLastD r0 < m.n :=
              hi.wf.toSized.lt_of_β_ne (i := 1) (by omega) (by rw [hlast]; exact hx0)
            have hb0 : m.β 0 x = Rt.getLastD r0 := by
              have := hi.wf.inv01 _ hrllt (by rw [hlast]; exact hx0)
              rw [hlast] at this; exact this
            have hyrl : y ≠ Rt.getLastD r0 := fun hh => hyR (hh ▸ hrlm)
            have hxrl : x ≠ Rt.getLastD r0 := fun hh => hxR (hh ▸ hrlm)
            have hr0d : r0 ∈ darts := hmemR r0 (by simp)
            have hrld' : Rt.getLastD r0 ∈ darts := hmemR _ hrlm
            -- the value of r0
            have hmR : (r0 :: Rt).map (p2pos m) = (VB ++ VA).map some := by
              rw [← hR, List.map_append, List.map_append, hmA, hmB]
            cases hVR : VB ++ VA with
            | nil => rw [hVR] at hmR; simp at hmR
            | cons vr VRt =>
            rw [hVR] at hmR
            simp only [List.map_cons, List.cons.injEq] at hmR
            have hmr0 : p2pos m r0 = some vr := hmR.1
            have hg0 : vs.getD ear default = vx := by
              rw [hvsplit, ← hVA]; simp
            have hg2 : vs.getD ((ear + 2) % vs.length) default = vr := by
              rw [hvsplit, ← hVA]; exact getD_ear2 VA VB vx vy vr VRt hVR
            have hg1 : vs.getD (ear + 1) default = vy := by
              rw [hvsplit, ← hVA]; simp [List.getD_eq_getElem?_getD]
            have hpx : pos m x ≠ pos m r0 := by
              intro hh
              have ht := (findEar_spec hf).2
              unfold earTest at ht
              simp only [Bool.and_eq_true] at ht
              have := hins _ _ _ ht.1
              rw [hg0, hg2] at this
              apply this
              have e : p2pos m x = p2pos m r0 := by unfold p2pos; rw [hh]
              rw [hmx, hmr0] at e
              exact Option.some.inj e
            -- the seven operations
            obtain ⟨_, _, k1⟩ := rB_ok hi h
            obtain ⟨_, _, k2⟩ := rB_ok hi k1
            rw [hb0, cyr] at k2
            obtain ⟨_, m1, s1, k3⟩ := run_bind_ok k2
            obtain ⟨i1, lrl, lx, e1⟩ := oneUnsew2_eff cfg n hi s1
            rw [hlast] at lx e1
            obtain ⟨_, m2, s2, k4⟩ := run_bind_ok k3
            obtain ⟨i2, ly, lr0, e2⟩ := oneUnsew2_eff cfg n i1 s2
            have hm1y : m1.β 1 y = r0 := by
              rw [e1, if_neg (fun hh => absurd hh.1 (by decide)), if_neg (fun hh => hyrl hh.2.symm), cyr]
            rw [hm1y] at lr0 e2
            obtain ⟨_, m3, s3, k5⟩ := run_bind_ok k4
            obtain ⟨i3, _, _, e3⟩ := oneSew2_eff cfg n i2 ly l1 s3
            obtain ⟨_, m4, s4, k6⟩ := run_bind_ok k5
            obtain ⟨i4, _, _, e4⟩ := oneSew2_eff cfg n i3 l1 lx s4
            obtain ⟨_, m5, s5, k7⟩ := run_bind_ok k6
            obtain ⟨i5, _, _, e5⟩ := oneSew2_eff cfg n i4 lrl l2 s5
            obtain ⟨_, m6, s6, k8⟩ := run_bind_ok k7
            obtain ⟨i6, _, _, e6⟩ := oneSew2_eff cfg n i5 l2 lr0 s6
            obtain ⟨_, m7, s7, k9⟩ := run_bind_ok k8
            obtain ⟨i7, _, _, e7⟩ := twoSew2_eff cfg n i6 l1 l2 hne s7
            have b1 : ∀ z, m7.β 1 z = if nd2 = z then r0 else if Rt.getLastD r0 = z then nd2 else
                if nd1 = z then x else if y = z then nd1 else if y = z then 0 else
                if Rt.getLastD r0 = z then 0 else m.β 1 z := by
              intro z
              rw [e7, e6, e5, e4, e3, e2, e1]
              simp only [show ¬ (0 = 1) by decide, show ¬ (2 = 1) by decide, false_and, if_false, true_and]
            -- spare darts are not darts of the face
            have hnd1d : ∀ z, z ∈ darts → nd1 ≠ z := fun z hz hh => hn1 (hh ▸ hz)
            have hnd2d : ∀ z, z ∈ darts → nd2 ≠ z := fun z hz hh => hn2 (hh ▸ hz)
            -- the coordinates through the iteration
            obtain ⟨_, hfc7, pk, p1, p2, bfr⟩ := earIter_pos cfg hlaw hi hfc lx ly lr0 lrl l1 l2 cyr hlast hyrl hne
              ⟨hnd1d x hxd, hnd1d y hyd, hnd1d r0 hr0d, hnd1d _ hrld'⟩
              ⟨hnd2d x hxd, hnd2d y hyd, hnd2d r0 hr0d, hnd2d _ hrld'⟩
              (hfree nd1 (by simp)) (hfree nd2 (by simp)) (hnone nd1 (by simp)) (hnone nd2 (by simp)) hpx
              s1 s2 s3 s4 s5 s6 s7
            -- the new face nd2 → R → nd2
            have hcf : ClosedFace m7 nd2 (r0 :: Rt) := by
              refine ⟨?_, ?_, ?_⟩
              · simp only [List.cons_append]
                refine ⟨by rw [b1, if_pos rfl], ?_⟩
                refine B1Chain.snoc Rt r0 nd2 (B1Chain.frame Rt r0 hchRt fun z hz => ?_) ?_
                · have hzR : z ∈ r0 :: Rt := List.dropLast_subset _ hz
                  have hzd := hmemR z hzR
                  have hzl : Rt.getLastD r0 ≠ z := fun hh => hrld (hh ▸ hz)
                  have hzy : y ≠ z := fun hh => hyR (hh ▸ hzR)
                  rw [b1, if_neg (hnd2d z hzd), if_neg hzl, if_neg (hnd1d z hzd), if_neg hzy, if_neg hzy, if_neg hzl]
                · rw [b1, if_neg (hnd2d _ hrld'), if_pos rfl]
              · simp only [List.nodup_cons]
                exact ⟨fun hh => hn2 (hmemR _ hh), List.nodup_cons.1 hRnd⟩
              · intro z hz
                simp only [List.mem_cons] at hz
                rcases hz with rfl | hz
                · exact l2.1
                · exact hcx.nz z (by simp only [List.mem_cons]; right; right; exact hz)
            rw [← hR] at hcf
            have hsurg : dartSurgery darts ear nd2 = A ++ nd2 :: B := by
              rw [hsplit, ← hA]; exact dartSurgery_eq A B x y nd2
            have hcyc' : ∃ d0' rest'', dartSurgery darts ear nd2 = d0' :: rest'' ∧ ClosedFace m7 d0' rest'' := by
              rw [hsurg]
              cases A with
              | nil => exact ⟨nd2, B, rfl, by simpa using hcf⟩
              | cons a0 A' =>
                  refine ⟨a0, A' ++ nd2 :: B, by simp, ?_⟩
                  exact hcf.rotate_at
            obtain ⟨d0', rest'', hd', hc'⟩ := hcyc'
            have hsub' : ∀ z, z ∈ dartSurgery darts ear nd2 → z ∈ darts ∨ z = nd2 := by
              intro z hz
              rw [hsurg] at hz
              rw [hsplit]
              simp only [List.mem_append, List.mem_cons] at hz ⊢
              rcases hz with c | c | c
              · exact Or.inl (Or.inl c)
              · exact Or.inr c
              · exact Or.inl (Or.inr (Or.inr (Or.inr c)))
            -- the erased vertex list and the new invariant
            have herase : vs.eraseIdx (ear + 1) = VA ++ vx :: VB := by
              rw [hvsplit, ← hVA, List.eraseIdx_append_of_length_le (by omega)]
              have e1 : VA.length + 1 - VA.length = 1 := by omega
              rw [e1]; rfl
            have hAd : ∀ z, z ∈ A → z ∈ darts := fun z hz => by rw [hsplit]; simp [hz]
            have hBd : ∀ z, z ∈ B → z ∈ darts := fun z hz => by rw [hsplit]; simp [hz]
            have pkd : ∀ z, z ∈ darts → p2pos m7 z = p2pos m z := by
              intro z hz
              unfold p2pos
              rw [pk z (hvalid z hz) (hnd1d z hz).symm (hnd2d z hz).symm]
            have hmap' : (dartSurgery darts ear nd2).map (p2pos m7) = (vs.eraseIdx (ear + 1)).map some := by
              rw [hsurg, herase]
              simp only [List.map_append, List.map_cons]
              rw [← hmA, ← hmB]
              congr 1
              · exact List.map_congr_left fun z hz => pkd z (hAd z hz)
              · congr 1
                · unfold p2pos; rw [p2]; exact hmx
                · exact List.map_congr_left fun z hz => pkd z (hBd z hz)
            have hsepS : ∀ z ∈ sparesOf rest', z ≠ x ∧ z ≠ y ∧ z ≠ r0 ∧ z ≠ Rt.getLastD r0 ∧ z ≠ nd1 ∧ z ≠ nd2 := by
              intro z hz
              have hzd := (hsp z (by simp [hz])).2
              exact ⟨fun hh => hzd (hh ▸ hxd), fun hh => hzd (hh ▸ hyd), fun hh => hzd (hh ▸ hr0d),
                fun hh => hzd (hh ▸ hrld'), fun hh => hsnd.1.2 (hh ▸ hz), fun hh => hsnd.2.1 (hh ▸ hz)⟩
            have vsp : ∀ z ∈ sparesOf rest', Valid m z := fun z hz => valid_of_live hi (hsp z (by simp [hz])).1
            obtain ⟨j1, jkeep, r, hr, hmapT⟩ :=
              ih (dartSurgery darts ear nd2) (vs.eraseIdx (ear + 1)) m7 m' d0' rest'' i7 hfc7 hd' hc' hmap'
              (by rw [List.length_eraseIdx, if_pos hearlt, hvs]; simp) hsnd.2.2
              (fun z hz => ⟨(hsp z (by simp [hz])).1, fun hh => by
                rcases hsub' z hh with c | c
                · exact (hsp z (by simp [hz])).2 c
                · exact hsnd.2.1 (c ▸ hz)⟩)
              (fun z hz i hi3 => by
                obtain ⟨a1, a2, a3, a4, a5, a6⟩ := hsepS z hz
                rw [bfr z a1 a2 a3 a4 a5 a6 i]; exact hfree z (by simp [hz]) i hi3)
              (fun z hz => by
                obtain ⟨_, _, _, _, a5, a6⟩ := hsepS z hz
                rw [pk z (vsp z hz) a5 a6]; exact hnone z (by simp [hz]))
              hears' k9
            have hxsp : x ∉ sparesOf rest' := fun hh => (hsp x (by simp [hh])).2 hxd
            have hysp : y ∉ sparesOf rest' := fun hh => (hsp y (by simp [hh])).2 hyd
            have keepAll : ∀ d, Valid m d → d ≠ nd1 → d ≠ nd2 → d ∉ sparesOf rest' → pos m' d = pos m d := by
              intro d hdv h1 h2 h3
              rw [jkeep d (valid_trans hi i7 hdv) h3, pk d hdv h1 h2]
            refine ⟨j1, ?_, (vx, vy, vr) :: r, ?_, ?_⟩
            · intro d hdv hns
              rw [sparesOf_cons] at hns
              simp only [List.mem_cons, not_or] at hns
              exact keepAll d hdv hns.1 hns.2.1 hns.2.2
            · simp only [List.length_cons]
              unfold earclipTriangles
              simp only [hf, hmod, hr, hg0, hg1, hg2]
            · simp only [earTris, hf, hmod, hgx, hgy, List.map_cons, List.cons.injEq]
              refine ⟨triP2_of_p2pos ?_ ?_ ?_, hmapT⟩
              · unfold p2pos
                rw [keepAll x (hvalid x hxd) (hnd1d x hxd).symm (hnd2d x hxd).symm hxsp]; exact hmx
              · unfold p2pos
                rw [keepAll y (hvalid y hyd) (hnd1d y hyd).symm (hnd2d y hyd).symm hysp]; exact hmy
              · unfold p2pos
                rw [jkeep nd1 (valid_of_live i7 l1) hsnd.1.2, p1]; exact hmr0

/-! ## the kernels -/

theorem cross_ends_eq (a b : P2) : cross a b a = 0 := by unfold cross; ring

/-- a counter-clockwise (resp. clockwise) triple has different end points -/
theorem insideCCW_ends_differ (a b c : P2) (h : insideCCW a b c = true) : a ≠ c := by
  intro hh; subst hh
  unfold insideCCW at h
  rw [cross_ends_eq] at h
  simp at h

theorem insideCW_ends_differ (a b c : P2) (h : insideCW a b c = true) : a ≠ c := by
  intro hh; subst hh
  unfold insideCW at h
  rw [cross_ends_eq] at h
  simp at h

/-- **C13, the triangles of the map carry the triangles of the vertex list (`earclip_cell_*`)**.  On a closed face
    `face :: rest` of a well-formed map, with spare darts that are in use, pairwise distinct, outside the face and
    FRESH (free, no vertex value under them), for an orientation test that rejects triples with equal end points (both
    `insideCCW` and `insideCW` do: `insideCCW_ends_differ`, `insideCW_ends_differ`) and ears never found at the last index
    (`EarsNotLast`, see C13c), every successful run
    * read the vertex list `vals` of the face, on which the vertex-list computation `earclipTriangles` (the object of
      `C13_earclip_area_sum`, `C13_earclip_ears_oriented`) yields `tris`;
    * left the `n - 2` dart triangles `earTris …`, each a closed β1-cycle of the result (`TriFace`), whose corners, read
      through the vertex identifiers of the RESULT map, are `tris`, in order;
    * left the coordinates of every dart other than the spare darts unchanged.
    Needs the vertex merge law to be the average (`Vertex2`) and no injected failure (`fc = 0`). -/
theorem C13_earclip_triangles_carry_list_coordinates (cfg : Cfg Val) (hlaw : cfg.law 0 = avgLaw)
    (inside : P2 → P2 → P2 → Bool) (hins : ∀ a b c, inside a b c = true → a ≠ c) (m m' : Map Val)
    (face : Nat) (nds rest : List Nat) (hwf : WF 3 m) (hfc : m.fc = 0) (hc : ClosedFace m face rest)
    (hsp : ∀ d ∈ nds, C01.InUse m d ∧ d ∉ face :: rest) (hnd : nds.Nodup)
    (hfresh : ∀ d ∈ nds, (∀ i, i < 3 → m.β i d = 0) ∧ m.att 0 d = none)
    (hears : ∀ vals, run (faceVertices m.n (face :: rest)) m = (.ok vals, m) →
      EarsNotLast inside (chunks2 nds).length (vals.map Val.p2))
    (h : run (earclipCell cfg m.n inside face nds) m = (.ok (), m')) :
    ∃ (vals : List Val) (tris : List Tri),
      run (faceVertices m.n (face :: rest)) m = (.ok vals, m) ∧
      (chunks2 nds).length + 3 = (face :: rest).length ∧
      earclipTriangles inside (chunks2 nds).length (vals.map Val.p2) = some tris ∧
      WF 3 m' ∧
      (∀ t ∈ earTris inside (chunks2 nds) (face :: rest) (vals.map Val.p2), TriFace m' t) ∧
      (earTris inside (chunks2 nds) (face :: rest) (vals.map Val.p2)).length + 2 = (face :: rest).length ∧
      (earTris inside (chunks2 nds) (face :: rest) (vals.map Val.p2)).map (triP2 m') = tris.map some ∧
      (∀ d, d ≠ 0 → d < m.n → d ∉ nds → pos m' d = pos m d) := by
  obtain ⟨vals, hv, wf', tf, tl, _⟩ := C13_earclip_structure cfg inside m m' face nds rest hwf hc
    (fun d hd => ⟨(hsp d hd).1, by
      unfold Map.isFree
      simp only [List.all_eq_true, List.mem_range, decide_eq_true_eq]
      exact (hfresh d hd).1, (hsp d hd).2⟩) hnd hears h
  unfold earclipCell at h
  obtain ⟨darts, h1, h3⟩ := ro_bind_ok (readOnly_orbit2 m.n .faceLinear face) h
  have hdarts : darts = face :: rest := by
    have := closedFace_orbit_eq hwf hc
    rw [h1] at this
    simpa using this
  rw [hdarts] at h3
  obtain ⟨vals2, m2, h2, h4⟩ := run_bind_ok h3
  obtain ⟨_, hm2⟩ := faceVertices_length m.n _ _ _ _ h2
  rw [hm2] at h2 h4
  have hve : vals2 = vals := by
    rw [hv] at h2
    simp only [Prod.mk.injEq, Out.ok.injEq, and_true] at h2
    exact h2.symm
  rw [hve] at h4
  obtain ⟨hvl, _⟩ := faceVertices_length m.n _ _ _ _ hv
  cases hcr : checkRequirements (rest.length + 1) nds.length with
  | error e => simp [hcr] at h4
  | ok v =>
      have hcr' : checkRequirements (face :: rest).length nds.length = .ok v := hcr
      simp only [hcr'] at h4
      have hreq := (C13_check_requirements_ok_iff _ _).1 hcr
      have hk := chunks2_length nds
      have hsub := sparesOf_chunks2_sublist nds
      have hcl : (chunks2 nds).length + 3 = (face :: rest).length := by simp only [List.length_cons]; omega
      have hi : Inv m.n m.u m := Inv.of_wf hwf
      have hvals := faceVertices_pos hwf _ _ _ (fun d hd => ⟨hc.nz d hd, hc.lt hwf hd⟩) hv
      have hmap : (face :: rest).map (p2pos m) = (vals.map Val.p2).map some := by
        have e : (face :: rest).map (p2pos m) = ((face :: rest).map (pos m)).map (Option.map Val.p2) := by
          rw [List.map_map]; rfl
        rw [e, ← hvals, List.map_map, List.map_map]
        rfl
      obtain ⟨_, keep, tris, htris, hmapT⟩ := earclipLoop_pos (n := m.n) (u := m.u) cfg hlaw inside hins (chunks2 nds)
        (face :: rest) (vals.map Val.p2) m m' face rest hi hfc rfl hc hmap
        (by rw [List.length_map, hvl]; exact hcl.symm) (hnd.sublist hsub)
        (fun x hx => ⟨(hsp x (hsub.subset hx)).1, (hsp x (hsub.subset hx)).2⟩)
        (fun x hx => (hfresh x (hsub.subset hx)).1)
        (fun x hx => by
          have hx' := hsub.subset hx
          rw [pos_free hwf (valid_of_live hi (hsp x hx').1) (hfresh x hx').1]
          exact (hfresh x hx').2)
        (hears vals hv) h4
      refine ⟨vals, tris, hv, hcl, htris, wf', tf, ?_, hmapT,
        fun d hd0 hdlt hdn => keep d ⟨hd0, hdlt⟩ (fun hh => hdn (hsub.subset hh))⟩
      rw [tl]
      simp only [List.length_cons] at hcl ⊢
      omega

/-- **C13, the area of the polygon is conserved IN THE MAP (`earclip_cell_*`)**: the cross products of the dart triangles
    of the result, corners read through the result's vertex identifiers, add up to twice the signed area of the
    polygon read before the call -/
theorem C13_earclip_area_conserved_in_map (cfg : Cfg Val) (hlaw : cfg.law 0 = avgLaw)
    (inside : P2 → P2 → P2 → Bool) (hins : ∀ a b c, inside a b c = true → a ≠ c) (m m' : Map Val)
    (face : Nat) (nds rest : List Nat) (hwf : WF 3 m) (hfc : m.fc = 0) (hc : ClosedFace m face rest)
    (hsp : ∀ d ∈ nds, C01.InUse m d ∧ d ∉ face :: rest) (hnd : nds.Nodup)
    (hfresh : ∀ d ∈ nds, (∀ i, i < 3 → m.β i d = 0) ∧ m.att 0 d = none)
    (hears : ∀ vals, run (faceVertices m.n (face :: rest)) m = (.ok vals, m) →
      EarsNotLast inside (chunks2 nds).length (vals.map Val.p2))
    (h : run (earclipCell cfg m.n inside face nds) m = (.ok (), m')) :
    ∃ vals : List Val,
      run (faceVertices m.n (face :: rest)) m = (.ok vals, m) ∧
      (∀ t ∈ earTris inside (chunks2 nds) (face :: rest) (vals.map Val.p2), TriFace m' t) ∧
      (mapTris m' (earTris inside (chunks2 nds) (face :: rest) (vals.map Val.p2))).length + 2 = (face :: rest).length ∧
      ((mapTris m' (earTris inside (chunks2 nds) (face :: rest) (vals.map Val.p2))).map tri2).sum
        = area2 (vals.map Val.p2) := by
  obtain ⟨vals, tris, a1, a2, a3, _, a5, a6, a7, _⟩ :=
    C13_earclip_triangles_carry_list_coordinates cfg hlaw inside hins m m' face nds rest hwf hfc hc hsp hnd hfresh hears h
  have e : mapTris m' (earTris inside (chunks2 nds) (face :: rest) (vals.map Val.p2)) = tris :=
    filterMap_of_map_some _ _ _ a7
  have hl := congrArg List.length a7
  simp only [List.length_map] at hl
  obtain ⟨hvl, _⟩ := faceVertices_length m.n _ _ _ _ a1
  refine ⟨vals, a1, a5, by rw [e, ← hl]; exact a6, ?_⟩
  rw [e]
  exact C13_earclip_area_sum inside _ _ tris (by rw [List.length_map, hvl]; exact a2.symm) a3

/-- **C13, the orientation of the triangles IN THE MAP (`earclip_cell_*`)**: the triangles of the result, corners read
    through the result's vertex identifiers, are `ears ++ [last]` where every clipped ear passes the announced orientation
    test (`inside`: strictly counter-clockwise for `_countercw`, strictly clockwise for `_cw`).  The LAST triangle — the
    three vertices left when the spare darts are used up — is not tested by the code: all that is known is its doubled
    area, the polygon's minus the ears'; its orientation follows on a simple polygon of the announced orientation
    (not proved). -/
theorem C13_earclip_orientation_in_map (cfg : Cfg Val) (hlaw : cfg.law 0 = avgLaw)
    (inside : P2 → P2 → P2 → Bool) (hins : ∀ a b c, inside a b c = true → a ≠ c) (m m' : Map Val)
    (face : Nat) (nds rest : List Nat) (hwf : WF 3 m) (hfc : m.fc = 0) (hc : ClosedFace m face rest)
    (hsp : ∀ d ∈ nds, C01.InUse m d ∧ d ∉ face :: rest) (hnd : nds.Nodup)
    (hfresh : ∀ d ∈ nds, (∀ i, i < 3 → m.β i d = 0) ∧ m.att 0 d = none)
    (hears : ∀ vals, run (faceVertices m.n (face :: rest)) m = (.ok vals, m) →
      EarsNotLast inside (chunks2 nds).length (vals.map Val.p2))
    (h : run (earclipCell cfg m.n inside face nds) m = (.ok (), m')) :
    ∃ (vals : List Val) (ears : List Tri) (last : Tri),
      run (faceVertices m.n (face :: rest)) m = (.ok vals, m) ∧
      (∀ t ∈ earTris inside (chunks2 nds) (face :: rest) (vals.map Val.p2), TriFace m' t) ∧
      mapTris m' (earTris inside (chunks2 nds) (face :: rest) (vals.map Val.p2)) = ears ++ [last] ∧
      ears.length = (chunks2 nds).length ∧
      (∀ T ∈ ears, inside T.1 T.2.1 T.2.2 = true) ∧
      tri2 last = area2 (vals.map Val.p2) - (ears.map tri2).sum := by
  obtain ⟨vals, tris, a1, a2, a3, _, a5, a6, a7, _⟩ :=
    C13_earclip_triangles_carry_list_coordinates cfg hlaw inside hins m m' face nds rest hwf hfc hc hsp hnd hfresh hears h
  have e : mapTris m' (earTris inside (chunks2 nds) (face :: rest) (vals.map Val.p2)) = tris :=
    filterMap_of_map_some _ _ _ a7
  have hl := congrArg List.length a7
  simp only [List.length_map] at hl
  obtain ⟨hvl, _⟩ := faceVertices_length m.n _ _ _ _ a1
  have hor := C13_earclip_ears_oriented inside _ _ tris a3
  have hsum := C13_earclip_area_sum inside _ _ tris (by rw [List.length_map, hvl]; exact a2.symm) a3
  have hne : tris ≠ [] := by
    intro h0; rw [h0] at hl; simp only [List.length_nil] at hl
    simp only [List.length_cons] at a6 a2; omega
  refine ⟨vals, tris.dropLast, tris.getLast hne, a1, a5, by rw [e, List.dropLast_concat_getLast], ?_, hor, ?_⟩
  · rw [List.length_dropLast, ← hl]
    simp only [List.length_cons] at a6 a2
    omega
  · have : ((tris.dropLast ++ [tris.getLast hne]).map tri2).sum = area2 (vals.map Val.p2) := by
      rw [List.dropLast_concat_getLast]; exact hsum
    simp only [List.map_append, List.sum_append, List.map_cons, List.map_nil, List.sum_cons, List.sum_nil] at this
    linarith

/-- **C13, untouched coordinates (`earclip_cell_*`)**: every dart other than the spare darts reads the same coordinates
    through its vertex identifier after the call as before -/
theorem C13_earclip_old_vertices_keep_coordinates (cfg : Cfg Val) (hlaw : cfg.law 0 = avgLaw)
    (inside : P2 → P2 → P2 → Bool) (hins : ∀ a b c, inside a b c = true → a ≠ c) (m m' : Map Val)
    (face : Nat) (nds rest : List Nat) (hwf : WF 3 m) (hfc : m.fc = 0) (hc : ClosedFace m face rest)
    (hsp : ∀ d ∈ nds, C01.InUse m d ∧ d ∉ face :: rest) (hnd : nds.Nodup)
    (hfresh : ∀ d ∈ nds, (∀ i, i < 3 → m.β i d = 0) ∧ m.att 0 d = none)
    (hears : ∀ vals, run (faceVertices m.n (face :: rest)) m = (.ok vals, m) →
      EarsNotLast inside (chunks2 nds).length (vals.map Val.p2))
    (h : run (earclipCell cfg m.n inside face nds) m = (.ok (), m')) :
    ∀ d, d ≠ 0 → d < m.n → d ∉ nds → pos m' d = pos m d := by
  obtain ⟨_, _, _, _, _, _, _, _, _, keep⟩ :=
    C13_earclip_triangles_carry_list_coordinates cfg hlaw inside hins m m' face nds rest hwf hfc hc hsp hnd hfresh hears h
  exact keep

/-- **the two public kernels**: after `earclip_cell_countercw` every clipped ear is strictly counter-clockwise IN THE MAP;
    the last triangle has the remaining doubled area -/
theorem C13_earclip_ccw_orientation_in_map (cfg : Cfg Val) (hlaw : cfg.law 0 = avgLaw) (m m' : Map Val)
    (face : Nat) (nds rest : List Nat) (hwf : WF 3 m) (hfc : m.fc = 0) (hc : ClosedFace m face rest)
    (hsp : ∀ d ∈ nds, C01.InUse m d ∧ d ∉ face :: rest) (hnd : nds.Nodup)
    (hfresh : ∀ d ∈ nds, (∀ i, i < 3 → m.β i d = 0) ∧ m.att 0 d = none)
    (hears : ∀ vals, run (faceVertices m.n (face :: rest)) m = (.ok vals, m) →
      EarsNotLast insideCCW (chunks2 nds).length (vals.map Val.p2))
    (h : run (earclipCellCCW cfg m.n face nds) m = (.ok (), m')) :
    ∃ (vals : List Val) (ears : List Tri) (last : Tri),
      run (faceVertices m.n (face :: rest)) m = (.ok vals, m) ∧
      mapTris m' (earTris insideCCW (chunks2 nds) (face :: rest) (vals.map Val.p2)) = ears ++ [last] ∧
      (∀ T ∈ ears, 0 < tri2 T) ∧ tri2 last = area2 (vals.map Val.p2) - (ears.map tri2).sum := by
  obtain ⟨vals, ears, last, a1, _, a3, _, a5, a6⟩ := C13_earclip_orientation_in_map cfg hlaw insideCCW
    insideCCW_ends_differ m m' face nds rest hwf hfc hc hsp hnd hfresh hears h
  refine ⟨vals, ears, last, a1, a3, fun T hT => ?_, a6⟩
  have := a5 T hT
  unfold insideCCW at this
  simpa [tri2] using this

/-- after `earclip_cell_cw` every clipped ear is strictly clockwise IN THE MAP -/
theorem C13_earclip_cw_orientation_in_map (cfg : Cfg Val) (hlaw : cfg.law 0 = avgLaw) (m m' : Map Val)
    (face : Nat) (nds rest : List Nat) (hwf : WF 3 m) (hfc : m.fc = 0) (hc : ClosedFace m face rest)
    (hsp : ∀ d ∈ nds, C01.InUse m d ∧ d ∉ face :: rest) (hnd : nds.Nodup)
    (hfresh : ∀ d ∈ nds, (∀ i, i < 3 → m.β i d = 0) ∧ m.att 0 d = none)
    (hears : ∀ vals, run (faceVertices m.n (face :: rest)) m = (.ok vals, m) →
      EarsNotLast insideCW (chunks2 nds).length (vals.map Val.p2))
    (h : run (earclipCellCW cfg m.n face nds) m = (.ok (), m')) :
    ∃ (vals : List Val) (ears : List Tri) (last : Tri),
      run (faceVertices m.n (face :: rest)) m = (.ok vals, m) ∧
      mapTris m' (earTris insideCW (chunks2 nds) (face :: rest) (vals.map Val.p2)) = ears ++ [last] ∧
      (∀ T ∈ ears, tri2 T < 0) ∧ tri2 last = area2 (vals.map Val.p2) - (ears.map tri2).sum := by
  obtain ⟨vals, ears, last, a1, _, a3, _, a5, a6⟩ := C13_earclip_orientation_in_map cfg hlaw insideCW
    insideCW_ends_differ m m' face nds rest hwf hfc hc hsp hnd hfresh hears h
  refine ⟨vals, ears, last, a1, a3, fun T hT => ?_, a6⟩
  have := a5 T hT
  unfold insideCW at this
  simpa [tri2] using this

/-! ## non-vacuity: the pentagon of `d7Map` (counter-clockwise) and its mirror image (clockwise) -/

theorem d7_ears : ∀ vals, run (faceVertices d7Map.n [1, 2, 3, 4, 5]) d7Map = (.ok vals, d7Map) →
    EarsNotLast insideCCW (chunks2 [6, 7, 8, 9]).length (vals.map Val.p2) := by
  intro vals hv
  rw [d7_vals] at hv
  simp only [Prod.mk.injEq, Out.ok.injEq, and_true] at hv
  subst hv
  decide +kernel

/-- the hypotheses hold on the pentagon; the three dart triangles of the result carry the three triangles of the list -/
example : ∃ (vals : List Val) (tris : List Tri),
    run (faceVertices d7Map.n [1, 2, 3, 4, 5]) d7Map = (.ok vals, d7Map) ∧
    earclipTriangles insideCCW (chunks2 [6, 7, 8, 9]).length (vals.map Val.p2) = some tris ∧
    (earTris insideCCW (chunks2 [6, 7, 8, 9]) [1, 2, 3, 4, 5] (vals.map Val.p2)).map
      (triP2 (run (earclipCell (stdCfg 3 0) d7Map.n insideCCW 1 [6, 7, 8, 9]) d7Map).2) = tris.map some := by
  obtain ⟨vals, tris, a1, _, a3, _, _, _, a7, _⟩ :=
    C13_earclip_triangles_carry_list_coordinates (stdCfg 3 0) rfl insideCCW insideCCW_ends_differ d7Map _ 1 [6, 7, 8, 9]
      [2, 3, 4, 5] d7_wf rfl d7_closed d7_spares (by decide) d7_fresh d7_ears (ok_of_fst (by decide +kernel))
  exact ⟨vals, tris, a1, a3, a7⟩

/-- concretely: (2,3,6), (1,7,8), (9,4,5) carry ((2,1),(4,0),(4,4)), ((0,0),(2,1),(4,4)), ((0,0),(4,4),(0,4)) -/
example : [(2, 3, 6), (1, 7, 8), (9, 4, 5)].map
      (triP2 (run (earclipCell (stdCfg 3 0) d7Map.n insideCCW 1 [6, 7, 8, 9]) d7Map).2)
    = [some (⟨2, 1⟩, ⟨4, 0⟩, ⟨4, 4⟩), some (⟨0, 0⟩, ⟨2, 1⟩, ⟨4, 4⟩), some (⟨0, 0⟩, ⟨4, 4⟩, ⟨0, 4⟩)] ∧
    earclipTriangles insideCCW 2 d7Pentagon
      = some [(⟨2, 1⟩, ⟨4, 0⟩, ⟨4, 4⟩), (⟨0, 0⟩, ⟨2, 1⟩, ⟨4, 4⟩), (⟨0, 0⟩, ⟨4, 4⟩, ⟨0, 4⟩)] := by decide +kernel

/-- area: 8 + 4 + 16 = 28, read in the result map -/
example : ∃ vals : List Val, run (faceVertices d7Map.n [1, 2, 3, 4, 5]) d7Map = (.ok vals, d7Map) ∧
    ((mapTris (run (earclipCell (stdCfg 3 0) d7Map.n insideCCW 1 [6, 7, 8, 9]) d7Map).2
      (earTris insideCCW (chunks2 [6, 7, 8, 9]) [1, 2, 3, 4, 5] (vals.map Val.p2))).map tri2).sum
      = area2 (vals.map Val.p2) := by
  obtain ⟨vals, a1, _, _, a4⟩ :=
    C13_earclip_area_conserved_in_map (stdCfg 3 0) rfl insideCCW insideCCW_ends_differ d7Map _ 1 [6, 7, 8, 9]
      [2, 3, 4, 5] d7_wf rfl d7_closed d7_spares (by decide) d7_fresh d7_ears (ok_of_fst (by decide +kernel))
  exact ⟨vals, a1, a4⟩

example : (mapTris (run (earclipCell (stdCfg 3 0) d7Map.n insideCCW 1 [6, 7, 8, 9]) d7Map).2
    [(2, 3, 6), (1, 7, 8), (9, 4, 5)]).map tri2 = [8, 4, 16] := by decide +kernel

/-- orientation: the two clipped ears pass the test in the map; the last triangle has the rest of the area -/
example : ∃ (vals : List Val) (ears : List Tri) (last : Tri),
    run (faceVertices d7Map.n [1, 2, 3, 4, 5]) d7Map = (.ok vals, d7Map) ∧
    mapTris (run (earclipCell (stdCfg 3 0) d7Map.n insideCCW 1 [6, 7, 8, 9]) d7Map).2
      (earTris insideCCW (chunks2 [6, 7, 8, 9]) [1, 2, 3, 4, 5] (vals.map Val.p2)) = ears ++ [last] ∧
    ears.length = 2 ∧ (∀ T ∈ ears, insideCCW T.1 T.2.1 T.2.2 = true) ∧
    tri2 last = area2 (vals.map Val.p2) - (ears.map tri2).sum := by
  obtain ⟨vals, ears, last, a1, _, a3, a4, a5, a6⟩ :=
    C13_earclip_orientation_in_map (stdCfg 3 0) rfl insideCCW insideCCW_ends_differ d7Map _ 1 [6, 7, 8, 9]
      [2, 3, 4, 5] d7_wf rfl d7_closed d7_spares (by decide) d7_fresh d7_ears (ok_of_fst (by decide +kernel))
  exact ⟨vals, ears, last, a1, a3, a4, a5, a6⟩

example : ∃ (vals : List Val) (ears : List Tri) (last : Tri),
    run (faceVertices d7Map.n [1, 2, 3, 4, 5]) d7Map = (.ok vals, d7Map) ∧
    mapTris (run (earclipCellCCW (stdCfg 3 0) d7Map.n 1 [6, 7, 8, 9]) d7Map).2
      (earTris insideCCW (chunks2 [6, 7, 8, 9]) [1, 2, 3, 4, 5] (vals.map Val.p2)) = ears ++ [last] ∧
    (∀ T ∈ ears, 0 < tri2 T) ∧ tri2 last = area2 (vals.map Val.p2) - (ears.map tri2).sum :=
  C13_earclip_ccw_orientation_in_map (stdCfg 3 0) rfl d7Map _ 1 [6, 7, 8, 9] [2, 3, 4, 5] d7_wf rfl d7_closed
    d7_spares (by decide) d7_fresh d7_ears (ok_of_fst (by decide +kernel))

/-- untouched coordinates -/
example : ∀ d, d ≠ 0 → d < d7Map.n → d ∉ [6, 7, 8, 9] →
    pos (run (earclipCell (stdCfg 3 0) d7Map.n insideCCW 1 [6, 7, 8, 9]) d7Map).2 d = pos d7Map d :=
  C13_earclip_old_vertices_keep_coordinates (stdCfg 3 0) rfl insideCCW insideCCW_ends_differ d7Map _ 1 [6, 7, 8, 9]
    [2, 3, 4, 5] d7_wf rfl d7_closed d7_spares (by decide) d7_fresh d7_ears (ok_of_fst (by decide +kernel))

example : [1, 2, 3, 4, 5].map (pos (run (earclipCell (stdCfg 3 0) d7Map.n insideCCW 1 [6, 7, 8, 9]) d7Map).2)
    = [some (.pt 0 0 0), some (.pt 2 1 0), some (.pt 4 0 0), some (.pt 4 4 0), some (.pt 0 4 0)] := by decide +kernel

/-- the mirror image of the pentagon, clockwise, for `earclip_cell_cw` -/
def d7MapCW : Map Val :=
  { d7Map with
    a := #[#[none, some (.pt 0 0 0), some (.pt 0 4 0), some (.pt 4 4 0), some (.pt 4 0 0), some (.pt 2 1 0),
             none, none, none, none],
           Array.replicate 11 none, Array.replicate 11 none, Array.replicate 11 none,
           Array.replicate 11 none, Array.replicate 11 none] }

theorem d7cw_vals : run (faceVertices d7MapCW.n [1, 2, 3, 4, 5]) d7MapCW
    = (.ok [.pt 0 0 0, .pt 0 4 0, .pt 4 4 0, .pt 4 0 0, .pt 2 1 0], d7MapCW) := by
  have h1 : (run (faceVertices d7MapCW.n [1, 2, 3, 4, 5]) d7MapCW).1
      = .ok [.pt 0 0 0, .pt 0 4 0, .pt 4 4 0, .pt 4 0 0, .pt 2 1 0] := by decide +kernel
  have h2 : run (faceVertices d7MapCW.n [1, 2, 3, 4, 5]) d7MapCW
      = (.ok [.pt 0 0 0, .pt 0 4 0, .pt 4 4 0, .pt 4 0 0, .pt 2 1 0],
          (run (faceVertices d7MapCW.n [1, 2, 3, 4, 5]) d7MapCW).2) := Prod.ext h1 rfl
  obtain ⟨_, e⟩ := faceVertices_length _ _ _ _ _ h2
  rw [e] at h2; exact h2

example : ∃ (vals : List Val) (ears : List Tri) (last : Tri),
    run (faceVertices d7MapCW.n [1, 2, 3, 4, 5]) d7MapCW = (.ok vals, d7MapCW) ∧
    mapTris (run (earclipCellCW (stdCfg 3 0) d7MapCW.n 1 [6, 7, 8, 9]) d7MapCW).2
      (earTris insideCW (chunks2 [6, 7, 8, 9]) [1, 2, 3, 4, 5] (vals.map Val.p2)) = ears ++ [last] ∧
    (∀ T ∈ ears, tri2 T < 0) ∧ tri2 last = area2 (vals.map Val.p2) - (ears.map tri2).sum :=
  C13_earclip_cw_orientation_in_map (stdCfg 3 0) rfl d7MapCW _ 1 [6, 7, 8, 9] [2, 3, 4, 5] (by decide +kernel) rfl
    ⟨by decide +kernel, by decide, by decide⟩ (by decide +kernel) (by decide) (by decide +kernel)
    (by
      intro vals hv
      rw [d7cw_vals] at hv
      simp only [Prod.mk.injEq, Out.ok.injEq, and_true] at hv
      subst hv
      decide +kernel)
    (ok_of_fst (by decide +kernel))

example : (mapTris (run (earclipCellCW (stdCfg 3 0) d7MapCW.n 1 [6, 7, 8, 9]) d7MapCW).2
    [(1, 2, 6), (3, 4, 8), (7, 9, 5)]).map tri2 = [-16, -8, -4] := by decide +kernel

/-! ## the last triangle -/

/-- decidable, on the vertex list alone: the triangle left at the end of `earclipTriangles` passes the announced test -/
def lastOKb (inside : P2 → P2 → P2 → Bool) (k : Nat) (vs : List P2) : Bool :=
  match earclipTriangles inside k vs with
  | none => true
  | some tris =>
      match tris.getLast? with
      | none => true
      | some T => inside T.1 T.2.1 T.2.2

def LastOK (inside : P2 → P2 → P2 → Bool) (k : Nat) (vs : List P2) : Prop := lastOKb inside k vs = true

instance (inside : P2 → P2 → P2 → Bool) (k : Nat) (vs : List P2) : Decidable (LastOK inside k vs) := by
  unfold LastOK; exact inferInstance

/-- **the sign of the last triangle is NOT a consequence of the ear tests** (it needs the simplicity of the polygon): on
    the self-crossing quadrilateral `(0,0) (4,0) (4,4) (5,3)` — doubled area `8 > 0` — the first corner is accepted as a
    counter-clockwise ear (cross `16`, the fourth vertex strictly outside), and the triangle left, `(0,0) (4,4) (5,3)`, is
    CLOCKWISE (cross `-8`) -/
theorem C13_earclip_last_triangle_needs_simplicity_witness :
    findEar insideCCW [⟨0, 0⟩, ⟨4, 0⟩, ⟨4, 4⟩, ⟨5, 3⟩] = some 0 ∧
    earclipTriangles insideCCW 1 [⟨0, 0⟩, ⟨4, 0⟩, ⟨4, 4⟩, ⟨5, 3⟩]
      = some [(⟨0, 0⟩, ⟨4, 0⟩, ⟨4, 4⟩), (⟨0, 0⟩, ⟨4, 4⟩, ⟨5, 3⟩)] ∧
    tri2 (⟨0, 0⟩, ⟨4, 4⟩, ⟨5, 3⟩) = -8 ∧ area2 [⟨0, 0⟩, ⟨4, 0⟩, ⟨4, 4⟩, ⟨5, 3⟩] = 8 ∧
    ¬ LastOK insideCCW 1 [⟨0, 0⟩, ⟨4, 0⟩, ⟨4, 4⟩, ⟨5, 3⟩] := by decide +kernel

/-- **C13, every triangle of the result has the announced orientation — PARTIAL**: under the decidable condition `LastOK`
    on the vertex list (evaluated by the oracle of tools/props/c13.py on every generated simple polygon in general position;
    on a simple polygon of the announced orientation it follows from a Jordan-type argument, which is not proved, and it
    fails without simplicity: `C13_earclip_last_triangle_needs_simplicity_witness`), ALL `n - 2` dart triangles of the
    result map, corners read through the result's vertex identifiers, pass the announced orientation test -/
theorem C13_earclip_all_triangles_oriented_partial (cfg : Cfg Val) (hlaw : cfg.law 0 = avgLaw)
    (inside : P2 → P2 → P2 → Bool) (hins : ∀ a b c, inside a b c = true → a ≠ c) (m m' : Map Val)
    (face : Nat) (nds rest : List Nat) (hwf : WF 3 m) (hfc : m.fc = 0) (hc : ClosedFace m face rest)
    (hsp : ∀ d ∈ nds, C01.InUse m d ∧ d ∉ face :: rest) (hnd : nds.Nodup)
    (hfresh : ∀ d ∈ nds, (∀ i, i < 3 → m.β i d = 0) ∧ m.att 0 d = none)
    (hears : ∀ vals, run (faceVertices m.n (face :: rest)) m = (.ok vals, m) →
      EarsNotLast inside (chunks2 nds).length (vals.map Val.p2))
    (hlast : ∀ vals, run (faceVertices m.n (face :: rest)) m = (.ok vals, m) →
      LastOK inside (chunks2 nds).length (vals.map Val.p2))
    (h : run (earclipCell cfg m.n inside face nds) m = (.ok (), m')) :
    ∃ vals : List Val,
      run (faceVertices m.n (face :: rest)) m = (.ok vals, m) ∧
      (∀ t ∈ earTris inside (chunks2 nds) (face :: rest) (vals.map Val.p2), TriFace m' t) ∧
      (mapTris m' (earTris inside (chunks2 nds) (face :: rest) (vals.map Val.p2))).length + 2 = (face :: rest).length ∧
      ∀ T ∈ mapTris m' (earTris inside (chunks2 nds) (face :: rest) (vals.map Val.p2)),
        inside T.1 T.2.1 T.2.2 = true := by
  obtain ⟨vals, tris, a1, a2, a3, _, a5, a6, a7, _⟩ :=
    C13_earclip_triangles_carry_list_coordinates cfg hlaw inside hins m m' face nds rest hwf hfc hc hsp hnd hfresh hears h
  have e : mapTris m' (earTris inside (chunks2 nds) (face :: rest) (vals.map Val.p2)) = tris :=
    filterMap_of_map_some _ _ _ a7
  have hl := congrArg List.length a7
  simp only [List.length_map] at hl
  have hor := C13_earclip_ears_oriented inside _ _ tris a3
  have hlo := hlast vals a1
  unfold LastOK lastOKb at hlo
  rw [a3] at hlo
  refine ⟨vals, a1, a5, by rw [e, ← hl]; exact a6, ?_⟩
  rw [e]
  intro T hT
  have hne : tris ≠ [] := List.ne_nil_of_mem hT
  rw [← List.dropLast_concat_getLast hne, List.mem_append, List.mem_singleton] at hT
  rcases hT with hT | hT
  · exact hor T hT
  · simp only [List.getLast?_eq_some_getLast hne] at hlo
    rw [hT]; exact hlo

/-- the same for `earclip_cell_countercw`: under `LastOK`, every triangle of the result map is strictly counter-clockwise -/
theorem C13_earclip_ccw_all_triangles_oriented_partial (cfg : Cfg Val) (hlaw : cfg.law 0 = avgLaw) (m m' : Map Val)
    (face : Nat) (nds rest : List Nat) (hwf : WF 3 m) (hfc : m.fc = 0) (hc : ClosedFace m face rest)
    (hsp : ∀ d ∈ nds, C01.InUse m d ∧ d ∉ face :: rest) (hnd : nds.Nodup)
    (hfresh : ∀ d ∈ nds, (∀ i, i < 3 → m.β i d = 0) ∧ m.att 0 d = none)
    (hears : ∀ vals, run (faceVertices m.n (face :: rest)) m = (.ok vals, m) →
      EarsNotLast insideCCW (chunks2 nds).length (vals.map Val.p2))
    (hlast : ∀ vals, run (faceVertices m.n (face :: rest)) m = (.ok vals, m) →
      LastOK insideCCW (chunks2 nds).length (vals.map Val.p2))
    (h : run (earclipCellCCW cfg m.n face nds) m = (.ok (), m')) :
    ∃ vals : List Val,
      run (faceVertices m.n (face :: rest)) m = (.ok vals, m) ∧
      ∀ T ∈ mapTris m' (earTris insideCCW (chunks2 nds) (face :: rest) (vals.map Val.p2)), 0 < tri2 T := by
  obtain ⟨vals, a1, _, _, a4⟩ := C13_earclip_all_triangles_oriented_partial cfg hlaw insideCCW insideCCW_ends_differ
    m m' face nds rest hwf hfc hc hsp hnd hfresh hears hlast h
  refine ⟨vals, a1, fun T hT => ?_⟩
  have := a4 T hT
  unfold insideCCW at this
  simpa [tri2] using this

/-- on the pentagon of `d7Map`: `LastOK` holds, all three triangles of the result are counter-clockwise -/
example : ∃ vals : List Val, run (faceVertices d7Map.n [1, 2, 3, 4, 5]) d7Map = (.ok vals, d7Map) ∧
    ∀ T ∈ mapTris (run (earclipCellCCW (stdCfg 3 0) d7Map.n 1 [6, 7, 8, 9]) d7Map).2
      (earTris insideCCW (chunks2 [6, 7, 8, 9]) [1, 2, 3, 4, 5] (vals.map Val.p2)), 0 < tri2 T :=
  C13_earclip_ccw_all_triangles_oriented_partial (stdCfg 3 0) rfl d7Map _ 1 [6, 7, 8, 9] [2, 3, 4, 5] d7_wf rfl d7_closed
    d7_spares (by decide) d7_fresh d7_ears
    (by
      intro vals hv
      rw [d7_vals] at hv
      simp only [Prod.mk.injEq, Out.ok.injEq, and_true] at hv
      subst hv
      decide +kernel)
    (ok_of_fst (by decide +kernel))

example : ∃ vals : List Val, run (faceVertices d7Map.n [1, 2, 3, 4, 5]) d7Map = (.ok vals, d7Map) ∧
    ∀ T ∈ mapTris (run (earclipCell (stdCfg 3 0) d7Map.n insideCCW 1 [6, 7, 8, 9]) d7Map).2
      (earTris insideCCW (chunks2 [6, 7, 8, 9]) [1, 2, 3, 4, 5] (vals.map Val.p2)), insideCCW T.1 T.2.1 T.2.2 = true := by
  obtain ⟨vals, a1, _, _, a4⟩ := C13_earclip_all_triangles_oriented_partial (stdCfg 3 0) rfl insideCCW
    insideCCW_ends_differ d7Map _ 1 [6, 7, 8, 9] [2, 3, 4, 5] d7_wf rfl d7_closed d7_spares (by decide) d7_fresh d7_ears
    (by
      intro vals hv
      rw [d7_vals] at hv
      simp only [Prod.mk.injEq, Out.ok.injEq, and_true] at hv
      subst hv
      decide +kernel)
    (ok_of_fst (by decide +kernel))
  exact ⟨vals, a1, a4⟩

/-! ## the clockwise twin of `C13_fan_accepts_convex_ccw` -/

/-- **C13, fan on clockwise convex polygons**: if every triangle `(v0, v_i, v_{i+1})`, `1 ≤ i ≤ n-2`, is negatively
    oriented with cross product `≤ -ε` (in particular on a strictly convex CLOCKWISE polygon with coordinates on a lattice
    coarser than `√ε`), the star search returns apex 0: the kernel does not answer `NonFannable` (the star test compares
    signs with the first examined side, it does not prefer an orientation) -/
theorem C13_fan_accepts_convex_cw (vs : List P2) (hn : 3 ≤ vs.length)
    (hneg : ∀ i, i < vs.length → i ≠ 0 → (i + 1) % vs.length ≠ 0 → sideCross vs 0 i ≤ -eps) :
    fanStar vs = some (some 0) := by
  have hsig : ∀ i, i ∈ fanSegs vs.length 0 → sideSignum vs 0 i = -1 ∧ ¬ ratAbs (sideCross vs 0 i) < eps := by
    intro i hi
    obtain ⟨h1, h2, h3⟩ := mem_fanSegs.1 hi
    have := hneg i h1 h2 h3
    have hp : sideCross vs 0 i < 0 := by linarith [eps_pos]
    constructor
    · unfold sideSignum signumF; rw [if_neg (by linarith), if_pos hp]
    · unfold ratAbs; rw [if_pos hp]; linarith
  have h1mem : 1 ∈ fanSegs vs.length 0 :=
    mem_fanSegs.2 ⟨by omega, by omega, by rw [Nat.mod_eq_of_lt (by omega)]; omega⟩
  have htest : fanTest vs 0 = some true := by
    unfold fanTest
    simp only
    cases hs : fanSegs vs.length 0 with
    | nil => rw [hs] at h1mem; simp at h1mem
    | cons i0 rest =>
        simp only [List.map_cons, Option.some.injEq, List.all_eq_true, List.mem_map, Bool.and_eq_true,
          decide_eq_true_eq, Bool.not_eq_true', decide_eq_false_iff_not, forall_exists_index, and_imp]
        intro cz i hi hcz
        subst hcz
        obtain ⟨s1, s2⟩ := hsig i (by rw [hs]; simp [hi])
        obtain ⟨t1, _⟩ := hsig i0 (by rw [hs]; simp)
        unfold sideSignum sideCross at s1 t1
        unfold sideCross at s2
        exact ⟨by rw [s1, t1], s2⟩
  unfold fanStar
  have : List.range vs.length = 0 :: List.range' 1 (vs.length - 1) := by
    rw [List.range_eq_range']
    have : vs.length = (vs.length - 1) + 1 := by omega
    rw [this, List.range'_succ]; simp
  rw [this]
  unfold fanStarFrom
  rw [htest]

/-- a clockwise square and a clockwise convex pentagon -/
example : fanStar [⟨0, 0⟩, ⟨0, 2⟩, ⟨2, 2⟩, ⟨2, 0⟩] = some (some 0) :=
  C13_fan_accepts_convex_cw _ (by decide) (by decide +kernel)

example : fanStar [⟨0, 0⟩, ⟨-1, 2⟩, ⟨1, 4⟩, ⟨3, 3⟩, ⟨3, 1⟩] = some (some 0) :=
  C13_fan_accepts_convex_cw _ (by decide) (by decide +kernel)

end HC.C13
