/-
  C12, second part — the clauses that were "validated only" after the first round, now proved for
  ALL sizes (`nx, ny, nz ≥ 1`; over `Rat`):

    C12_hex3_vertices / C12_hex3_corners / C12_hex3_slots
        3-D hex grid: `vertex_id` ↔ lattice points (bijection with the (nx+1)(ny+1)(nz+1) points),
        every vertex carries exactly origin + (i·lx, j·ly, k·lz); the corner of each local dart is the one
        the GENERATED arms of `generate_hex_offset` give; no other slot holds a value
    C12_hex3_volumes    `volume_id` of a dart is the first dart of its cell (volumes ↔ cells)
    C12_grid2_counts / C12_split2_counts / C12_hex3_counts
        what the iterators yield: (nx+1)(ny+1) vertices, nx(ny+1)+ny(nx+1) (+nx·ny) edges and nx·ny (2·nx·ny)
        faces in 2-D,
        (nx+1)(ny+1)(nz+1) vertices and nx·ny·nz volumes in 3-D
    C12_build2_split_ok / C12_build3_ok / C12_build2_split_total_wf / C12_build3_total
        `build()` on valid descriptors returns Ok with exactly these maps (the mirrored debug
        assertions on the face / volume count hold), zero counts included: never a panic
    C12_ceil_count_rounding / C12_ceil_count_exact
        the third descriptor form under ANY monotone rounding of the quotient that fixes the two integers
        ⌈L/l⌉ and ⌈L/l⌉ − 1 (binary64 round-to-nearest for counts up to 2^53: Props/C12c.lean): the computed count is ⌈L/l⌉ or ⌈L/l⌉ − 1, and it is
        ⌈L/l⌉ exactly when the rounded quotient stays above ⌈L/l⌉ − 1 (in particular whenever the
        quotient is representable)
-/
import Honeycomb.Props.C12
import Honeycomb.Lemmas.Grid3Vertex
import Honeycomb.Lemmas.Grid3Count
import Honeycomb.Lemmas.GridCount2
import Honeycomb.Lemmas.GridFaceSplit
import Honeycomb.Lemmas.GridEdge
import Honeycomb.Lemmas.GridEdgeSplit

namespace HC.C12
open HC HC.Gen

/-! ## 3-D hex grid: vertices -/

open Grid3Vertex in
/-- Vertices ↔ lattice points in the map of `build_3d_grid`: two darts have the same `vertex_id` iff
    they start at the same lattice point; the lattice points of darts are exactly the
    `(nx+1)·(ny+1)·(nz+1)` points `(i, j, k)`, `i ≤ nx`, `j ≤ ny`, `k ≤ nz`; and the vertex of a dart
    carries exactly `origin + (i·lx, j·ly, k·lz)`. -/
theorem C12_hex3_vertices (ox oy oz lx ly lz : Rat) {nx ny nz : Nat} (hnx : 0 < nx) (hny : 0 < ny)
    (hnz : 0 < nz) :
    let m := buildHex3 ox oy oz nx ny nz lx ly lz
    (∀ d e, IsD3 nx ny nz d → IsD3 nx ny nz e → (vid3 m d = vid3 m e ↔ pt3 nx ny d = pt3 nx ny e)) ∧
    (∀ d, IsD3 nx ny nz d →
      (pt3 nx ny d).1 ≤ nx ∧ (pt3 nx ny d).2.1 ≤ ny ∧ (pt3 nx ny d).2.2 ≤ nz ∧
      m.att 0 (vid3 m d) = some (.pt (ox + ((pt3 nx ny d).1 : Rat) * lx)
        (oy + ((pt3 nx ny d).2.1 : Rat) * ly) (oz + ((pt3 nx ny d).2.2 : Rat) * lz))) ∧
    (∀ i j k, i ≤ nx → j ≤ ny → k ≤ nz → ∃ d, IsD3 nx ny nz d ∧ pt3 nx ny d = (i, j, k)) ∧
    (∀ d, 1 ≤ d → d ≤ 24 * nx * ny * nz → IsD3 nx ny nz d) := by
  intro m
  have st : SameTopo (H3 nx ny nz) m := Grid3Vertex.sameTopo_hex3 ox oy oz lx ly lz
  refine ⟨?_, ?_, ?_, ?_⟩
  · intro d e hd he
    constructor
    · intro h
      rw [← (vid3_pt hnx hny st hd).1, ← (vid3_pt hnx hny st he).1]
      exact congrArg (pt3 nx ny) h
    · intro h
      exact vid3_same hnx hny st st hd he h
  · intro d hd
    obtain ⟨h1, h2, h3⟩ := Grid3Count.pt3_le hd
    exact ⟨h1, h2, h3, hex3_att ox oy oz lx ly lz hnx hny hd⟩
  · intro i j k hi hj hk
    exact Grid3Count.pt3_surj hnx hny hnz hi hj hk
  · intro d h1 h2
    exact isD3_of_range hnx hny h1 h2

open Grid3Vertex in
/-- Corners of cell `(ix, iy, iz)`: the vertex at the origin of local dart `o` (0-based) carries
    `origin + ((ix+ax)·lx, (iy+ay)·ly, (iz+az)·lz)` where `(ax, ay, az) = kap o` is the corner the
    GENERATED arms of `generate_hex_offset` assign to `p = o + 1 (mod 24)` — also for local dart 24,
    whose own arm decodes a wrong cell but is never evaluated. -/
theorem C12_hex3_corners (ox oy oz lx ly lz : Rat) {nx ny nz ix iy iz o : Nat} (hnx : 0 < nx)
    (hny : 0 < ny) (hx : ix < nx) (hy : iy < ny) (hz : iz < nz) (ho : o < 24) :
    let m := buildHex3 ox oy oz nx ny nz lx ly lz
    m.att 0 (vid3 m (dartOf 24 nx ny ix iy iz o)) =
      some (.pt (ox + ((ix + (kap o).1 : Nat) : Rat) * lx) (oy + ((iy + (kap o).2.1 : Nat) : Rat) * ly)
        (oz + ((iz + (kap o).2.2 : Nat) : Rat) * lz)) := by
  intro m
  have hd : IsD3 nx ny nz (D3 nx ny ix iy iz o) := ⟨ix, iy, iz, o, hx, hy, hz, ho, rfl⟩
  have := hex3_att ox oy oz lx ly lz hnx hny hd
  rw [pt3_D hx hy ho] at this
  exact this

open Grid3Vertex in
/-- Exactly the vertex identifiers hold a value after `build_3d_grid` (no stale copy under any
    other dart, none under the null dart) -/
theorem C12_hex3_slots (ox oy oz lx ly lz : Rat) {nx ny nz : Nat} (hnx : 0 < nx) (hny : 0 < ny) (s : Nat) :
    let m := buildHex3 ox oy oz nx ny nz lx ly lz
    (m.att 0 s ≠ none ↔ (1 ≤ s ∧ s ≤ 24 * nx * ny * nz) ∧ vid3 m s = s) := by
  intro m
  have st : SameTopo (H3 nx ny nz) m := Grid3Vertex.sameTopo_hex3 ox oy oz lx ly lz
  show (buildHex3 ox oy oz nx ny nz lx ly lz).att 0 s ≠ none ↔ _
  rw [hex3_att_slot ox oy oz lx ly lz hnx hny s]
  by_cases hr : 1 ≤ s ∧ s ≤ 24 * nx * ny * nz
  · have hd : IsD3 nx ny nz s := isD3_of_range hnx hny hr.1 hr.2
    have e : vid3 m s = vid3 (H3 nx ny nz) s := vid3_same hnx hny st (SameTopo.refl _) hd hd rfl
    rw [e]
    by_cases hv : vid3 (H3 nx ny nz) s = s <;> simp [hr, hv]
  · simp [hr]

example : ∃ v, (buildHex3 0 0 0 2 1 1 1 1 1).att 0 (vid3 (buildHex3 0 0 0 2 1 1 1 1 1) (dartOf 24 2 1 1 0 0 23)) = some v :=
  ⟨_, C12_hex3_corners 0 0 0 1 1 1 (nx := 2) (ny := 1) (nz := 1) (ix := 1) (iy := 0) (iz := 0) (o := 23)
    (by decide) (by decide) (by decide) (by decide) (by decide) (by decide)⟩

/-! ## 3-D hex grid: volumes -/

open Grid3Vertex in
/-- `volume_id` of any of the 24 darts of cell `(ix, iy, iz)` is the cell's first dart: two darts
    have the same volume iff they belong to the same cell (volumes ↔ the `nx·ny·nz` cells). -/
theorem C12_hex3_volumes (ox oy oz lx ly lz : Rat) {nx ny nz ix iy iz o : Nat} (hnx : 0 < nx)
    (hny : 0 < ny) (hx : ix < nx) (hy : iy < ny) (hz : iz < nz) (ho : o < 24) :
    let m := buildHex3 ox oy oz nx ny nz lx ly lz
    okVal (run (volumeId3 m.n (dartOf 24 nx ny ix iy iz o)) m) 0 = dartOf 24 nx ny ix iy iz 0 ∧
    (∀ ix' iy' iz' o', ix' < nx → iy' < ny → iz' < nz → o' < 24 →
      (okVal (run (volumeId3 m.n (dartOf 24 nx ny ix' iy' iz' o')) m) 0 =
        okVal (run (volumeId3 m.n (dartOf 24 nx ny ix iy iz o)) m) 0 ↔ ix' = ix ∧ iy' = iy ∧ iz' = iz)) := by
  intro m
  have st : SameTopo (H3 nx ny nz) m := Grid3Vertex.sameTopo_hex3 ox oy oz lx ly lz
  have h := Grid3Count.volid_spec hnx hny st hx hy hz ho
  refine ⟨h, ?_⟩
  intro ix' iy' iz' o' hx' hy' hz' ho'
  have h' := Grid3Count.volid_spec hnx hny st hx' hy' hz' ho'
  show okVal (run (volumeId3 m.n (D3 nx ny ix' iy' iz' o')) m) 0 =
    okVal (run (volumeId3 m.n (D3 nx ny ix iy iz o)) m) 0 ↔ _
  rw [h, h']
  constructor
  · intro e
    obtain ⟨a, b, c, _⟩ := dartOf_inj hx' hy' (by decide : 0 < 24) hx hy (by decide : 0 < 24) e
    exact ⟨a, b, c⟩
  · rintro ⟨rfl, rfl, rfl⟩; rfl

/-! ## counts -/

/-- plain 2-D grid, what the iterators yield: `(nx+1)(ny+1)` vertices, `nx·(ny+1) + ny·(nx+1)`
    edges (horizontal + vertical sides), `nx·ny` faces — Euler: V − E + F = 1 -/
theorem C12_grid2_counts (ox oy lx ly : Rat) {nx ny : Nat} (hnx : 0 < nx) (hny : 0 < ny) :
    let m := buildGrid2 ox oy nx ny lx ly
    (iterVertices2 m).length = (nx + 1) * (ny + 1) ∧
    (iterEdges2 m).length = nx * (ny + 1) + ny * (nx + 1) ∧
    (iterFaces2 m).length = nx * ny := by
  intro m
  refine ⟨GridCountPlain.iterVertices_length hnx hny (sameTopo_grid2 ox oy nx ny lx ly), ?_,
    GridFace.iterFaces_length hnx hny (sameTopo_grid2 ox oy nx ny lx ly)⟩
  rw [GridEdge.iterEdges_length hnx hny (sameTopo_grid2 ox oy nx ny lx ly)]
  ring

/-- split 2-D grid: `(nx+1)(ny+1)` vertices, `nx·(ny+1) + ny·(nx+1) + nx·ny` edges (sides +
    diagonals), `2·nx·ny` faces -/
theorem C12_split2_counts (ox oy lx ly : Rat) {nx ny : Nat} (hnx : 0 < nx) (hny : 0 < ny) :
    let m := buildSplit2 ox oy nx ny lx ly
    (iterVertices2 m).length = (nx + 1) * (ny + 1) ∧
    (iterEdges2 m).length = nx * (ny + 1) + ny * (nx + 1) + nx * ny ∧
    (iterFaces2 m).length = 2 * nx * ny := by
  intro m
  refine ⟨GridCountSplit.iterVertices_length hnx hny (sameTopo_split2 ox oy nx ny lx ly), ?_,
    GridFaceSplit.iterFaces_length hnx hny (sameTopo_split2 ox oy nx ny lx ly)⟩
  rw [GridEdgeSplit.iterEdges_length hnx hny (sameTopo_split2 ox oy nx ny lx ly)]
  ring

/-- 3-D hex grid: `(nx+1)(ny+1)(nz+1)` vertices, `nx·ny·nz` volumes -/
theorem C12_hex3_counts (ox oy oz lx ly lz : Rat) {nx ny nz : Nat} (hnx : 0 < nx) (hny : 0 < ny)
    (hnz : 0 < nz) :
    let m := buildHex3 ox oy oz nx ny nz lx ly lz
    (iterVertices3 m).length = (nx + 1) * (ny + 1) * (nz + 1) ∧ (iterVolumes3 m).length = nx * ny * nz :=
  ⟨Grid3Count.iterVertices_length hnx hny hnz (Grid3Vertex.sameTopo_hex3 ox oy oz lx ly lz),
   Grid3Count.iterVolumes_length hnx hny (Grid3Vertex.sameTopo_hex3 ox oy oz lx ly lz)⟩

example : (iterVertices2 (buildGrid2 0 0 3 2 1 1)).length = 12 :=
  (C12_grid2_counts 0 0 1 1 (nx := 3) (ny := 2) (by decide) (by decide)).1
example : (iterFaces2 (buildSplit2 0 0 3 2 1 1)).length = 12 :=
  (C12_split2_counts 0 0 1 1 (nx := 3) (ny := 2) (by decide) (by decide)).2.2
example : (iterEdges2 (buildGrid2 0 0 3 2 1 1)).length = 17 :=
  (C12_grid2_counts 0 0 1 1 (nx := 3) (ny := 2) (by decide) (by decide)).2.1
example : (iterVolumes3 (buildHex3 0 0 0 2 3 1 1 1 1)).length = 6 :=
  (C12_hex3_counts 0 0 0 1 1 1 (nx := 2) (ny := 3) (nz := 1) (by decide) (by decide) (by decide)).2

/-! ## `build()` returns these maps -/

/-- split grid, valid descriptor: `Ok` with `buildSplit2` (the face-count assertion holds) -/
theorem C12_build2_split_ok (o : Rat × Rat) {nx ny : Nat} {lpx lpy : Rat} (hnx : 0 < nx) (hny : 0 < ny)
    (hx : 0 < lpx) (hy : 0 < lpy) (lens : Option (Rat × Rat)) :
    build2 true o (some (nx, ny)) (some (lpx, lpy)) lens = .ok (buildSplit2 o.1 o.2 nx ny lpx lpy) := by
  have a1 := badLen_pos hx
  have a2 := badLen_pos hy
  have hf := GridFaceSplit.iterFaces_length hnx hny (sameTopo_split2 o.1 o.2 nx ny lpx lpy)
  have h0 : ¬ (nx = 0 ∨ ny = 0) := by omega
  unfold build2
  rcases lens with _ | ⟨lx, ly⟩ <;> simp [parse2, a1, a2, h0, hf]

/-- split grid, every `nx, ny`: never a panic, never an error; a well-formed map with `2·nx·ny` faces -/
theorem C12_build2_split_total_wf (o : Rat × Rat) (nx ny : Nat) {lpx lpy : Rat} (hx : 0 < lpx) (hy : 0 < lpy)
    (lens : Option (Rat × Rat)) :
    ∃ m, build2 true o (some (nx, ny)) (some (lpx, lpy)) lens = .ok m ∧ WF 3 m ∧
      (iterFaces2 m).length = 2 * nx * ny ∧
      m = (if nx = 0 ∨ ny = 0 then emptyMap2 else buildSplit2 o.1 o.2 nx ny lpx lpy) := by
  by_cases h0 : nx = 0 ∨ ny = 0
  · refine ⟨emptyMap2, (C12_build2_zero_count_forms true o h0 hx hy lens).1, emptyMap2_facts.2.1, ?_, by simp [h0]⟩
    rw [emptyMap2_facts.2.2.1]
    rcases h0 with h | h <;> subst h <;> simp
  · have hnx : 0 < nx := by omega
    have hny : 0 < ny := by omega
    exact ⟨_, C12_build2_split_ok o hnx hny hx hy lens, C12_split2_WF o.1 o.2 lpx lpy hnx hny,
      GridFaceSplit.iterFaces_length hnx hny (sameTopo_split2 o.1 o.2 nx ny lpx lpy), by simp [h0]⟩

/-- hex grid, valid descriptor: `Ok` with `buildHex3` (the volume-count assertion holds) -/
theorem C12_build3_ok (o : Rat × Rat × Rat) {nx ny nz : Nat} {lx ly lz : Rat} (hnx : 0 < nx) (hny : 0 < ny)
    (hx : 0 < lx) (hy : 0 < ly) (hz : 0 < lz) (lens : Option (Rat × Rat × Rat)) :
    build3 false o (some (nx, ny, nz)) (some (lx, ly, lz)) lens =
      .ok (buildHex3 o.1 o.2.1 o.2.2 nx ny nz lx ly lz) := by
  have a1 := badLen_pos hx
  have a2 := badLen_pos hy
  have a3 := badLen_pos hz
  have hf := Grid3Count.iterVolumes_length (nz := nz) hnx hny
    (Grid3Vertex.sameTopo_hex3 o.1 o.2.1 o.2.2 lx ly lz)
  unfold build3
  rcases lens with _ | ⟨tx, ty, tz⟩ <;> simp [parse3, a1, a2, a3, hf]

/-- hex grid, every `nx, ny, nz` (zero included) with positive lengths: `Ok`, never a panic; the map has
    `24·nx·ny·nz` darts and is well-formed when the counts are positive -/
theorem C12_build3_total (o : Rat × Rat × Rat) (nx ny nz : Nat) {lx ly lz : Rat} (hx : 0 < lx)
    (hy : 0 < ly) (hz : 0 < lz) (lens : Option (Rat × Rat × Rat)) :
    ∃ m, build3 false o (some (nx, ny, nz)) (some (lx, ly, lz)) lens = .ok m ∧
      m.n = 24 * nx * ny * nz + 1 ∧ (0 < nx → 0 < ny → 0 < nz → WF 4 m) := by
  by_cases h0 : nx = 0 ∨ ny = 0 ∨ nz = 0
  · obtain ⟨m, h1, h2⟩ := C12_build3_zero_count_empty o h0 hx hy hz lens
    refine ⟨m, h1, ?_, ?_⟩
    · rw [h2]; rcases h0 with h | h | h <;> subst h <;> simp
    · intro a b c; omega
  · have hnx : 0 < nx := by omega
    have hny : 0 < ny := by omega
    refine ⟨_, C12_build3_ok o hnx hny hx hy hz lens, hex3_n _ _ _ _ _ _ _ _ _, ?_⟩
    intro _ _ _
    exact C12_hex3_WF o.1 o.2.1 o.2.2 lx ly lz hnx hny

example : build3 false (0, 0, 0) (some (2, 1, 3)) (some (2, 2, 2)) none = .ok (buildHex3 0 0 0 2 1 3 2 2 2) :=
  C12_build3_ok (0, 0, 0) (by decide) (by decide) two_pos two_pos two_pos none
example : build2 true (0, 0) (some (2, 1)) (some (2, 2)) none = .ok (buildSplit2 0 0 2 1 2 2) :=
  C12_build2_split_ok (0, 0) (by decide) (by decide) two_pos two_pos none

/-! ## the third descriptor form under rounding -/

theorem ceil_eq_iff (x : Rat) (n : Int) : x.ceil = n ↔ ((n - 1 : Int) : Rat) < x ∧ x ≤ (n : Rat) := by
  have a := Rat.lt_ceil_iff (x := x) (y := n - 1)
  have b := Rat.ceil_le_iff (x := x) (y := n)
  constructor
  · intro h
    exact ⟨a.mp (by omega), b.mp (by omega)⟩
  · rintro ⟨h1, h2⟩
    have := a.mpr h1
    have := b.mpr h2
    omega

/-- core of the rounding argument: a value `r` between `⌈q⌉ − 1` and `⌈q⌉` has ceiling `⌈q⌉` or
    `⌈q⌉ − 1`, the first iff `r > ⌈q⌉ − 1`, the second iff `r = ⌈q⌉ − 1` -/
theorem C12_ceil_count_of_bounds (r q : Rat) (lo : ((q.ceil - 1 : Int) : Rat) ≤ r)
    (hi : r ≤ (q.ceil : Rat)) :
    (r.ceil = q.ceil ∨ r.ceil = q.ceil - 1) ∧
    (r.ceil = q.ceil ↔ ((q.ceil - 1 : Int) : Rat) < r) ∧
    (r.ceil = q.ceil - 1 ↔ r = ((q.ceil - 1 : Int) : Rat)) := by
  have iff1 : r.ceil = q.ceil ↔ ((q.ceil - 1 : Int) : Rat) < r := by
    rw [ceil_eq_iff]
    exact ⟨fun h => h.1, fun h => ⟨h, hi⟩⟩
  have iff2 : r.ceil = q.ceil - 1 ↔ r = ((q.ceil - 1 : Int) : Rat) := by
    rw [ceil_eq_iff]
    constructor
    · intro h
      exact Rat.le_antisymm h.2 lo
    · intro h
      rw [h]
      exact ⟨Rat.intCast_lt_intCast.mpr (by omega), Rat.le_refl⟩
  refine ⟨?_, iff1, iff2⟩
  by_cases h : ((q.ceil - 1 : Int) : Rat) < r
  · exact Or.inl (iff1.mpr h)
  · exact Or.inr (iff2.mpr (Rat.le_antisymm (Rat.not_lt.mp h) lo))

/-- The count of the form `len_per_cell + lens` is `ceil(rnd(L / l))` where `rnd` is the rounding of
    the division in the coordinate type (`Rat`: the identity; `f64`: IEEE round-to-nearest).  For
    **any** monotone `rnd` that fixes the two integers `⌈q⌉` and `⌈q⌉ − 1` (all the proof uses; an IEEE
    rounding fixes the integers up to `2^p` only, see `Props/C12c.lean` for the binary64 instance) the
    computed count is `⌈q⌉` or `⌈q⌉ − 1`, and it is `⌈q⌉` **iff** the rounded quotient stays strictly
    above `⌈q⌉ − 1`; i.e. the only possible error is one cell too few, when `L/l` exceeds an integer
    by so little that the quotient rounds down onto it. -/
theorem C12_ceil_count_rounding (rnd : Rat → Rat) (mono : ∀ a b : Rat, a ≤ b → rnd a ≤ rnd b) (q : Rat)
    (fixHi : rnd (q.ceil : Rat) = (q.ceil : Rat))
    (fixLo : rnd ((q.ceil - 1 : Int) : Rat) = ((q.ceil - 1 : Int) : Rat)) :
    ((rnd q).ceil = q.ceil ∨ (rnd q).ceil = q.ceil - 1) ∧
    ((rnd q).ceil = q.ceil ↔ ((q.ceil - 1 : Int) : Rat) < rnd q) ∧
    ((rnd q).ceil = q.ceil - 1 ↔ rnd q = ((q.ceil - 1 : Int) : Rat)) := by
  obtain ⟨h1, h2⟩ := (ceil_eq_iff q q.ceil).mp rfl
  have lo : ((q.ceil - 1 : Int) : Rat) ≤ rnd q := by
    have := mono _ _ (Rat.le_of_lt h1)
    rwa [fixLo] at this
  have hi : rnd q ≤ (q.ceil : Rat) := by
    have := mono _ _ h2
    rwa [fixHi] at this
  exact C12_ceil_count_of_bounds (rnd q) q lo hi

/-- corollary for roundings that fix every integer (exact arithmetic; NOT satisfiable by a
    finite-precision rounding, which moves `2^p + 1`) -/
theorem C12_ceil_count_rounding_all (rnd : Rat → Rat) (mono : ∀ a b : Rat, a ≤ b → rnd a ≤ rnd b)
    (fixInt : ∀ n : Int, rnd (n : Rat) = (n : Rat)) (q : Rat) :
    ((rnd q).ceil = q.ceil ∨ (rnd q).ceil = q.ceil - 1) ∧
    ((rnd q).ceil = q.ceil ↔ ((q.ceil - 1 : Int) : Rat) < rnd q) ∧
    ((rnd q).ceil = q.ceil - 1 ↔ rnd q = ((q.ceil - 1 : Int) : Rat)) :=
  C12_ceil_count_rounding rnd mono q (fixInt _) (fixInt _)

/-- in particular the count is exact whenever the quotient is represented exactly (`rnd q = q`):
    cell length a power of two, total length an exact multiple of the cell length, … -/
theorem C12_ceil_count_exact (rnd : Rat → Rat) {l lp : Rat} (h : rnd (l / lp) = l / lp) :
    (rnd (l / lp)).ceil.toNat = ceilCount l lp := by
  unfold ceilCount
  rw [h]

example : ((fun q : Rat => q) (7 / 2)).ceil = (7 / 2 : Rat).ceil :=
  ((C12_ceil_count_rounding (fun q => q) (fun _ _ h => h) (7 / 2) rfl rfl).2.1).mpr
    ((ceil_eq_iff _ _).mp rfl).1

end HC.C12
