/-
  C15, fourth part — ANCHORS after the cuts, for EVERY subset of the three anchor storages (VertexAnchor 6, EdgeAnchor 7,
  FaceAnchor 8, each present or not), on ARBITRARY well-formed 2-maps (no fault injected), spare darts in any numbering.

  cut_outer_edge
    `C15_cutOuter_edge_face_anchors`  EVERY slot of the EdgeAnchor and FaceAnchor storages after the call
                                      (`edgeAnchorsAfter`, `faceAnchorsAfter`): second half of the cut edge = anchor of the
                                      edge (independently of the face anchor), first half unchanged, new inner edge =
                                      `EdgeAnchor::from(face anchor)`, two new faces = face anchor, old face slot emptied,
                                      every other slot unchanged; storages absent / anchors undefined => nothing written.
    `C15_cutOuter_vertex_anchors`     VertexAnchor storage present: every old dart keeps the anchor of its vertex (dart
                                      level: identifiers may move), the new vertex gets `VertexAnchor::from(edge anchor)`
                                      — with or without FaceAnchor storage / face anchor.
    `C15_cutOuter_other_storages`     every other non-vertex-bound storage (in particular an absent VertexAnchor storage)
                                      keeps every slot.
    `C15_cutOuter_anchors`            the same in words, identifiers of the resulting map: both halves keep the edge
                                      anchor, the inner edge gets the face's, both faces keep the face's; no FaceAnchor
                                      storage / unanchored face => no face slot changes.
  cut_inner_edge
    `C15_cutInner_face_anchors`       EVERY slot of the FaceAnchor storage (`innerFaceAnchorsAfter`): left / right new faces
                                      get the anchor of the left / right cut face, independently.
    `C15_cutInner_edge_anchors`       EdgeAnchor storage present: the cut edge has an anchor `A`; EVERY slot
                                      (`innerEdgeAnchorsAfter`): both halves carry `A`, the transversal edges the anchors
                                      derived from their faces.
    `C15_cutInner_other_storages`     every other storage that is neither vertex- nor edge-bound keeps every slot (absent
                                      EdgeAnchor / VertexAnchor storages).
    `C15_cutInner_anchors`            the same in words: four faces keep the anchor of the face they came from, both
                                      halves the edge anchor, the two transversal edges get the anchor of their face.
    `C15_cutInner_vertex_anchor_storage_refused`  with a vertex-bound VertexAnchor storage (generated law, spare darts
                                      without vertex anchor) `cut_inner_edge` NEVER returns `Ok`: its 1-sew `(e, n1)` has to
                                      merge the two halves of the new vertex, both still without anchor.  Hence no
                                      vertex-anchor statement for the inner cut: the set of successful calls is empty.
  collapse_edge
    `C15_collapse_other_storages`     EVERY successful collapse (any variant, any map) leaves every slot of the FaceAnchor
                                      storage — and of every storage that is neither vertex- nor edge-bound nor the
                                      VertexAnchor storage — unchanged (`KA` calculus): the kernel never migrates a face
                                      anchor (the root of finding D15a).
    `C15_collapse_midpoint_face_anchors`  midpoint variant, interior configuration: every surviving dart keeps its face
                                      identifier, hence every surviving face its anchor.
    `C15_collapse_endpoint_target`    end-point variants (`Left` / `Right`), ANY map: the returned vertex holds the position
                                      and the vertex anchor of the chosen end point.
    `C15_collapse_midpoint_vertex_count`  the vertex-count clause (−1) of the interior midpoint collapse under the
                                      hypothesis `no vertex is split by the call`, which excludes the pinch of finding D15f.
  Tools: the dart-level rules of Lemmas/RemeshValues.lean for ANY vertex-bound storage (`vvalT_oneSew2`, `vvalT_oneUnsew2`,
  `sewT_step`), `AnchorLike` (what they need from a law; `anchorLike_V`, `anchorLike_E` for the generated laws), the
  edge-storage effect of the 2-sews (`edge_att_twoUnsew2`, `edge_att_twoSew2_free`).  Examples on the anchored unit square
  (masks 96, 128, 192, 224, 0) at the end.
-/
import Honeycomb.Props.C15c

set_option linter.unusedSimpArgs false
set_option linter.unusedVariables false

namespace HC.C15
open HC HC.C03 HC.C04 Gen.Anchors

/-! ## storages the 1-sews do not touch -/

/-- a 1-sew only merges the vertex-bound storages -/
theorem att_other_oneSew2 (cfg : Cfg Val) {n l r t : Nat} {s s' : Map Val} (hfc : s.fc = 0) (ht : t ∉ vStores cfg)
    (hrun : run (oneSew2 cfg n l r) s = (.ok (), s')) : s'.fc = 0 ∧ ∀ x, s'.att t x = s.att t x := by
  obtain ⟨m1, hcore, _, cases⟩ := C04_oneSew2_effect cfg n l r s s' () hfc hrun
  have fc1 := link1_fc hcore
  rcases cases with ⟨_, rfl⟩ | ⟨_, _, _, _, _, _, _, mg⟩
  · exact ⟨by rw [fc1.1]; exact hfc, fun x => fc1.2.1 t x⟩
  · exact ⟨by rw [mg.fc, fc1.1]; exact hfc, fun x => by rw [mg.other t x ht, fc1.2.1]⟩

/-- a 1-unsew only splits the vertex-bound storages -/
theorem att_other_oneUnsew2 (cfg : Cfg Val) {n l t : Nat} {s s' : Map Val} (hfc : s.fc = 0) (ht : t ∉ vStores cfg)
    (hrun : run (oneUnsew2 cfg n l) s = (.ok (), s')) : s'.fc = 0 ∧ ∀ x, s'.att t x = s.att t x := by
  obtain ⟨m1, hcore, _, cases⟩ := C04_oneUnsew2_effect cfg n l s s' () hfc hrun
  have fc1 := unlink1_fc hcore
  rcases cases with ⟨_, rfl⟩ | ⟨_, _, _, _, _, _, _, sp⟩
  · exact ⟨by rw [fc1.1]; exact hfc, fun x => fc1.2.1 t x⟩
  · exact ⟨by rw [sp.fc, fc1.1]; exact hfc, fun x => by rw [sp.other t x ht, fc1.2.1]⟩

/-- `write_attribute`: nothing without the storage, one slot with it -/
theorem writeAttr_ok {cfg : Cfg Val} {s id : Nat} {v : Val} {m m' : Map Val} {o : Option Val}
    (h : run (writeAttr cfg s id v) m = (.ok o, m')) :
    (regd cfg s = false ∧ m' = m) ∨ (regd cfg s = true ∧ m.okA s id = true ∧ m' = m.setA s id (some v)) := by
  unfold writeAttr at h
  by_cases hr : regd cfg s = true
  · simp only [hr, if_true] at h
    obtain ⟨hok, h⟩ := rA_ok h
    obtain ⟨_, h⟩ := wA_ok h
    simp at h
    exact Or.inr ⟨hr, hok, h.2.symm⟩
  · simp [hr] at h
    exact Or.inl ⟨by simpa using hr, h.2.symm⟩

theorem removeAttr_ok {cfg : Cfg Val} {s id : Nat} {m m' : Map Val} {o : Option Val}
    (h : run (removeAttr cfg s id) m = (.ok o, m')) :
    (regd cfg s = false ∧ m' = m ∧ o = none) ∨
    (regd cfg s = true ∧ m.okA s id = true ∧ m' = m.setA s id none ∧ o = m.att s id) := by
  unfold removeAttr at h
  by_cases hr : regd cfg s = true
  · simp only [hr, if_true] at h
    obtain ⟨hok, h⟩ := rA_ok h
    obtain ⟨_, h⟩ := wA_ok h
    simp at h
    exact Or.inr ⟨hr, hok, h.2.symm, h.1.symm⟩
  · simp [hr] at h
    exact Or.inl ⟨by simpa using hr, h.2.symm, h.1.symm⟩

/-! ## cut_outer_edge: the edge and face anchors, slot by slot -/

theorem cellId_of_sameTopo {m m' : Map Val} (st : SameTopo m m') (pol : Policy) (x : Nat) :
    cellId m' pol x = cellId m pol x := by
  have hb : m'.β = m.β := β_of_sameTopo st
  unfold cellId orb
  have : g2 m' pol = g2 m pol := by funext y; cases pol <;> simp only [g2, hb]
  rw [this, st.n]

/-- the FaceAnchor storage after an outer cut: the anchor `fa` found at the old face identifier `F0` (removed there) is
    written at the identifiers `F1`, `F2` of the two new faces -/
def faceAnchorsAfter (old : Nat → Option Val) (fa : Option Val) (F0 F1 F2 x : Nat) : Option Val :=
  match fa with
  | none => old x
  | some a => if x = F2 ∨ x = F1 then some a else if x = F0 then none else old x

/-- the EdgeAnchor storage after an outer cut: the second half `nd3` gets the anchor `ea` of the cut edge, the new inner
    edge `E1` the anchor derived from the face anchor `fa` -/
def edgeAnchorsAfter (old : Nat → Option Val) (ea fa : Option Val) (nd3 E1 x : Nat) : Option Val :=
  if x = nd3 ∧ ea.isSome then ea
  else match fa with
    | some a => if x = E1 then some (faceToEdgeVal a) else old x
    | none => old x

def spreadFA (old : Nat → Option Val) (fa : Option Val) (F1 F2 x : Nat) : Option Val :=
  match fa with
  | none => old x
  | some a => if x = F2 ∨ x = F1 then some a else old x

def spreadEA (old : Nat → Option Val) (fa : Option Val) (E1 x : Nat) : Option Val :=
  match fa with
  | none => old x
  | some a => if x = E1 then some (faceToEdgeVal a) else old x

/-- **C15 (anchors), cut_outer_edge, EdgeAnchor and FaceAnchor storages — every subset of storages**: on ANY well-formed
    2-map (no fault injected), after a successful `cut_outer_edge(e, [nd1, nd2, nd3])` on a boundary dart of a closed triangle
    with free in-use spare darts (any numbering), whatever anchor storages the map has (`regd cfg stFA`, `regd cfg stEA`,
    `regd cfg stVA` each true or false; the two storages are not vertex-bound):
    * `fa` = the FaceAnchor found at the identifier `F0 = min(e, a, b)` of the cut face (`none` without the storage),
      `ea` = the EdgeAnchor found at `e` (`none` without the storage);
    * FaceAnchor storage, EVERY slot (`faceAnchorsAfter`): with `fa = some a` the identifiers `min(e, nd1, b)` and
      `min(nd3, a, nd2)` of the two new faces hold `a`, the old identifier `F0` is emptied (unless it is one of the two),
      every other slot is unchanged; with `fa = none` NO slot changes;
    * EdgeAnchor storage, EVERY slot (`edgeAnchorsAfter`): the second half of the cut edge (identifier `nd3`) holds `ea`
      when `ea` is defined — INDEPENDENTLY of the face anchor; the new inner edge (identifier `min(nd2, nd1)`) holds
      `EdgeAnchor::from(a)` when `fa = some a` and the EdgeAnchor storage exists; every other slot is unchanged, in
      particular the first half (identifier `e`) keeps `ea`.
    The identifiers are those of the RESULTING map (first conjunct). -/
theorem C15_cutOuter_edge_face_anchors (cfg : Cfg Val) (m m' : Map Val) (e nd1 nd2 nd3 : Nat) (hwf : WF 3 m)
    (hfc : m.fc = 0) (he : C01.InUse m e) (h2e : m.β 2 e = 0)
    (h : run (cutOuterEdge cfg m.n e nd1 nd2 nd3) m = (.ok (), m'))
    (htri : m.β 1 (m.β 1 e) = m.β 0 e) (hb : m.β 0 e ≠ 0)
    (s1 : Spare m nd1) (s2 : Spare m nd2) (s3 : Spare m nd3)
    (hnd : [e, m.β 1 e, m.β 0 e, nd1, nd2, nd3].Nodup)
    (hE : stEA ∉ vStores cfg) (hF : stFA ∉ vStores cfg) {fa ea : Option Val}
    (hfa : fa = if regd cfg stFA then m.att stFA (min e (min (m.β 1 e) (m.β 0 e))) else none)
    (hea : ea = if regd cfg stEA then m.att stEA e else none) :
    (cellId m .face e = min e (min (m.β 1 e) (m.β 0 e)) ∧ cellId m' .face e = min e (min nd1 (m.β 0 e)) ∧
      cellId m' .face nd3 = min nd3 (min (m.β 1 e) nd2) ∧
      cellId m' .edge e = e ∧ cellId m' .edge nd3 = nd3 ∧ cellId m' .edge nd1 = min nd2 nd1) ∧
    (∀ x, m'.att stFA x = faceAnchorsAfter (m.att stFA) fa (min e (min (m.β 1 e) (m.β 0 e)))
      (min e (min nd1 (m.β 0 e))) (min nd3 (min (m.β 1 e) nd2)) x) ∧
    (∀ x, m'.att stEA x =
      edgeAnchorsAfter (m.att stEA) ea (if regd cfg stEA then fa else none) nd3 (min nd2 nd1) x) := by
  obtain ⟨F0, hF0⟩ : ∃ F0, F0 = min e (min (m.β 1 e) (m.β 0 e)) := ⟨_, rfl⟩
  rw [← hF0] at hfa ⊢
  have hn := he.2.1
  have a0 : m.β 1 e ≠ 0 := fun hh => hb (by rw [← htri, hh]; exact hwf.null 1 (by omega))
  have ha : m.β 1 e < m.n := hwf.range 1 (by omega) e hn
  have hbn : m.β 0 e < m.n := hwf.range 0 (by omega) e hn
  have hnd' := hnd
  simp only [List.nodup_cons, List.mem_cons, List.mem_nil_iff, not_or, or_false, List.nodup_nil, and_true] at hnd'
  obtain ⟨⟨d1, d2, d3, d4, d5⟩, ⟨d6, d7, d8, d9⟩, ⟨d10, d11, d12⟩, ⟨d13, d14⟩, d15, _⟩ := hnd'
  have h0 := h
  obtain ⟨hw', f1e, f1n3, _, _, _, _⟩ := C15_cutOuter_cells cfg m m' e nd1 nd2 nd3 hwf he h htri hb s1 s2 s3 hnd
  obtain ⟨⟨p1, p2, p3⟩, ⟨q1, q2, q3⟩, _, _, ⟨u1, u2, u3⟩, _, hn', _⟩ :=
    C15_cutOuter_topology cfg m m' e nd1 nd2 nd3 hwf hn h htri hb hnd
  have hen' : e < m'.n := by rw [hn']; exact hn
  have n1' : nd1 < m'.n := by rw [hn']; exact s1.1.2.1
  have n3' : nd3 < m'.n := by rw [hn']; exact s3.1.2.1
  obtain ⟨_, w2, _⟩ := faceIds_triangle hw' he.1 hen' s1.1.1 hb p1 p2 p3
  obtain ⟨_, _, w6⟩ := faceIds_triangle hw' s3.1.1 n3' a0 s2.1.1 q1 q2 q3
  have L1 : Live m.n m.u nd1 := Live.of_inUse s1.1
  have L2 : Live m.n m.u nd2 := Live.of_inUse s2.1
  have L3 : Live m.n m.u nd3 := Live.of_inUse s3.1
  have Le : Live m.n m.u e := Live.of_inUse he
  have La : Live m.n m.u (m.β 1 e) := live_image hwf (by omega) he.2.1 a0
  have Lb : Live m.n m.u (m.β 0 e) := live_image hwf (by omega) he.2.1 hb
  -- edge identifiers in the result
  have e2e : m'.β 2 e = 0 := by rw [u3 e d3 d4]; exact h2e
  have e2n3 : m'.β 2 nd3 = 0 := by rw [u3 nd3 (Ne.symm d14) (Ne.symm d15)]; exact s3.β 2 (by omega)
  have ide : cellId m' .edge e = e := by rw [edgeId_eq hw' he.1 hen']; simp [e2e]
  have idn3 : cellId m' .edge nd3 = nd3 := by rw [edgeId_eq hw' s3.1.1 n3']; simp [e2n3]
  have idn1 : cellId m' .edge nd1 = min nd2 nd1 := by rw [edgeId_eq hw' s1.1.1 n1', u1]; simp [s2.1.1]
  have idF0 : cellId m .face e = F0 := by
    rw [hF0]; exact faceId_triangle hwf he.1 hn a0 hb rfl htri (hwf.inv10 e hn hb)
  refine ⟨⟨idF0, f1e, f1n3, ide, idn3, idn1⟩, ?_⟩
  -- the kernel, step by step
  unfold cutOuterEdge at h
  obtain ⟨_, m1, r1, h⟩ := run_bind_ok h
  have I1 := Keeps.twoLinkCore (X := Val) L1 L2 d13 m m1 _ (Inv.of_wf hwf) r1
  obtain ⟨_, _, st1⟩ := step_twoLinkCore r1
  obtain ⟨_, m2, r2, h⟩ := run_bind_ok h
  have I2 := Keeps.oneLinkCore (X := Val) L2 L3 m1 m2 _ I1 r2
  obtain ⟨_, _, st2⟩ := step_oneLinkCore r2
  have b2 : m2.β = lnk1 (lnk2 m.β nd1 nd2) nd2 nd3 := by rw [st2.β, st1.β]
  have fc2 : m2.fc = 0 := by rw [(link1_fc r2).1, (linkI_fc r1).1]; exact hfc
  have at2 : ∀ t x, m2.att t x = m.att t x := fun t x => by rw [(link1_fc r2).2.1, (linkI_fc r1).2.1]
  -- the old face identifier
  have v1e : m2.β 1 e = m.β 1 e := by rw [b2]; simp [lnk1, lnk2, upd_apply, Ne.symm d5, Ne.symm d4, Ne.symm d3]
  have v1a : m2.β 1 (m.β 1 e) = m.β 0 e := by
    rw [b2]; simp [lnk1, lnk2, upd_apply, Ne.symm d9, Ne.symm d8, Ne.symm d7, htri]
  have v1b : m2.β 1 (m.β 0 e) = e := by
    rw [b2]; simp [lnk1, lnk2, upd_apply, Ne.symm d10, Ne.symm d11, Ne.symm d12, hwf.inv10 e hn hb]
  have n2 : m2.n = m.n := I2.n_eq
  have fid2 : cellId m2 .face e = F0 := by
    rw [hF0]; exact faceId_triangle I2.wf he.1 (by rw [n2]; exact hn) a0 hb v1e v1a v1b
  obtain ⟨fa', m3, r3, h⟩ := run_bind_ok h
  have I3 := inv_attrOnly (ao_takeFaceAnchor cfg m.n e) I2 r3
  obtain ⟨fc3', _⟩ := keeps0_takeFaceAnchor cfg m.n e m2 m3 fa' r3
  have fc3 : m3.fc = 0 := by rw [fc3']; exact fc2
  have st23 := AttrOnly.run_ok (ao_takeFaceAnchor cfg m.n e) r3
  have take : fa' = fa ∧ (∀ x, m3.att stEA x = m.att stEA x) ∧
      (∀ x, m3.att stFA x = if fa.isSome ∧ x = F0 then none else m.att stFA x) := by
    unfold takeFaceAnchor at r3
    by_cases hr : regd cfg stFA = true
    · simp only [hr, if_true] at r3
      obtain ⟨fid, hfid, r3⟩ := ro_bind_ok (readOnly_faceId2 _ _) r3
      have := (C03_faceId2_min I2.wf he.1 (by rw [n2]; exact hn)).1
      rw [n2] at this
      have efid : fid = F0 := by rw [run_inj hfid this]; exact fid2
      rcases removeAttr_ok r3 with ⟨hf, _, _⟩ | ⟨_, hok, rfl, ho⟩
      · rw [hr] at hf; exact absurd hf (by simp)
      · have hfa' : fa' = fa := by
          rw [hfa, if_pos hr, ho, efid, at2]
        refine ⟨hfa', fun x => ?_, fun x => ?_⟩
        · rw [Map.att_setA, at2]; simp [stFA, stEA]
        · rw [Map.att_setA, at2, efid]
          rw [efid] at hok
          by_cases hx : F0 = x
          · subst hx
            have hfe : fa = m.att stFA F0 := by rw [hfa, if_pos hr]
            rw [hfe]
            simp only [hok, and_true, true_and, if_true]
            cases m.att stFA F0 <;> simp
          · have hx' : ¬ x = F0 := fun hh => hx hh.symm
            simp [hx, hx']
    · simp [hr] at r3
      have hfn : fa = none := by rw [hfa, if_neg hr]
      refine ⟨by rw [← r3.1, hfn], fun x => by rw [← r3.2, at2], fun x => by rw [← r3.2, at2, hfn]; simp⟩
  obtain ⟨hfa', at3E, at3F⟩ := take
  rw [hfa'] at h
  obtain ⟨ea', hpeek, h⟩ := ro_bind_ok (ro_peekEdgeAnchor cfg e) h
  have hea' : ea' = ea := by
    unfold peekEdgeAnchor readAttr at hpeek
    by_cases hr : regd cfg stEA = true
    · simp only [hr, if_true, run_rA'] at hpeek
      split at hpeek
      · simp at hpeek
        rw [hea, if_pos hr, ← hpeek, at3E]
      · simp at hpeek
    · simp [hr] at hpeek
      rw [hea, if_neg hr, hpeek]
  rw [hea'] at h
  obtain ⟨_, h⟩ := HC.C15.rB_ok h
  obtain ⟨_, h⟩ := HC.C15.rB_ok h
  obtain ⟨vid1, _, h⟩ := ro_bind_ok (readOnly_vertexId2 _ _) h
  obtain ⟨vid2, _, h⟩ := ro_bind_ok (readOnly_vertexId2 _ _) h
  obtain ⟨newV, _, h⟩ := ro_bind_ok (ro_midpointOrRetry _ _) h
  obtain ⟨vid, _, h⟩ := ro_bind_ok (readOnly_vertexId2 _ _) h
  obtain ⟨old, m5, r5, h⟩ := run_bind_ok h
  have I5 := inv_attrOnly (ao_writeVtx vid newV) I3 r5
  have e5 : m5 = m3.setA 0 vid (some newV) := by
    unfold writeVtx at r5
    obtain ⟨_, r5⟩ := rA_ok r5
    obtain ⟨_, r5⟩ := wA_ok r5
    simp at r5
    exact r5.2.symm
  have fc5 : m5.fc = 0 := by rw [e5]; exact fc3
  have at5 : ∀ t x, t ≠ 0 → m5.att t x = m3.att t x := fun t x ht => by
    rw [e5, Map.att_setA]; simp [Ne.symm ht]
  have v0e : m3.β 0 e = m.β 0 e := by
    rw [β_of_sameTopo st23, b2]; simp [lnk1, lnk2, upd_apply, Ne.symm d5, Ne.symm d4, Ne.symm d3]
  have v1e3 : m3.β 1 e = m.β 1 e := by rw [β_of_sameTopo st23]; exact v1e
  rw [v0e, v1e3] at h
  -- the six sews touch neither storage
  obtain ⟨_, m6, r6, h⟩ := run_bind_ok h
  have I6 := keeps_oneUnsew2 cfg m.n Le m5 m6 () I5 r6
  obtain ⟨fc6E, at6E⟩ := att_other_oneUnsew2 cfg fc5 hE r6
  obtain ⟨_, at6F⟩ := att_other_oneUnsew2 cfg fc5 hF r6
  obtain ⟨_, m7, r7, h⟩ := run_bind_ok h
  have I7 := keeps_oneUnsew2 cfg m.n La m6 m7 () I6 r7
  obtain ⟨fc7, at7E⟩ := att_other_oneUnsew2 cfg fc6E hE r7
  obtain ⟨_, at7F⟩ := att_other_oneUnsew2 cfg fc6E hF r7
  obtain ⟨_, m8, r8, h⟩ := run_bind_ok h
  have I8 := keeps_oneSew2 cfg m.n Le L1 m7 m8 () I7 r8
  obtain ⟨fc8, at8E⟩ := att_other_oneSew2 cfg fc7 hE r8
  obtain ⟨_, at8F⟩ := att_other_oneSew2 cfg fc7 hF r8
  obtain ⟨_, m9, r9, h⟩ := run_bind_ok h
  have I9 := keeps_oneSew2 cfg m.n L1 Lb m8 m9 () I8 r9
  obtain ⟨fc9, at9E⟩ := att_other_oneSew2 cfg fc8 hE r9
  obtain ⟨_, at9F⟩ := att_other_oneSew2 cfg fc8 hF r9
  obtain ⟨_, m10, r10, h⟩ := run_bind_ok h
  have I10 := keeps_oneSew2 cfg m.n L3 La m9 m10 () I9 r10
  obtain ⟨fc10, at10E⟩ := att_other_oneSew2 cfg fc9 hE r10
  obtain ⟨_, at10F⟩ := att_other_oneSew2 cfg fc9 hF r10
  obtain ⟨_, m11, r11, h⟩ := run_bind_ok h
  have I11 := keeps_oneSew2 cfg m.n La L2 m10 m11 () I10 r11
  obtain ⟨fc11, at11E⟩ := att_other_oneSew2 cfg fc10 hE r11
  obtain ⟨_, at11F⟩ := att_other_oneSew2 cfg fc10 hF r11
  have A11E : ∀ x, m11.att stEA x = m.att stEA x := fun x => by
    rw [at11E, at10E, at9E, at8E, at7E, at6E, at5 _ _ (by simp [stEA]), at3E]
  have A11F : ∀ x, m11.att stFA x = if fa.isSome ∧ x = F0 then none else m.att stFA x := fun x => by
    rw [at11F, at10F, at9F, at8F, at7F, at6F, at5 _ _ (by simp [stFA]), at3F]
  -- the two anchor blocks
  obtain ⟨_, m12, r12, h⟩ := run_bind_ok h
  have st12 := AttrOnly.run_ok (ao_spreadFaceAnchor cfg m.n fa nd1 nd2) r12
  have st13 := AttrOnly.run_ok (ao_spreadEdgeAnchorOuter cfg m.n ea nd1 nd3) h
  have I12 := inv_attrOnly (ao_spreadFaceAnchor cfg m.n fa nd1 nd2) I11 r12
  have stF : SameTopo m11 m' := st12.trans st13
  have n11 : m11.n = m.n := I11.n_eq
  have n12 : m12.n = m.n := I12.n_eq
  have edgeVal : ∀ (s : Map Val) (d eid : Nat), s.β = m'.β → run (edgeId2 (X := Val) d) s = (.ok eid, s) →
      eid = if m'.β 2 d = 0 then d else min (m'.β 2 d) d := by
    intro s d eid hs hr
    rw [run_edgeId2] at hr
    by_cases hb' : s.okβ 2 d = true
    · simp only [hb', if_true, Prod.mk.injEq, Out.ok.injEq] at hr
      rw [← hr.1, hs]
    · simp [hb'] at hr
  have regF : fa.isSome → regd cfg stFA = true := by
    intro hh
    by_cases hr : regd cfg stFA = true
    · exact hr
    · rw [hfa, if_neg hr] at hh; simp at hh
  have regE : ea.isSome → regd cfg stEA = true := by
    intro hh
    by_cases hr : regd cfg stEA = true
    · exact hr
    · rw [hea, if_neg hr] at hh; simp at hh
  -- spreadFaceAnchor
  have S12 : (∀ x, m12.att stFA x =
        spreadFA (m11.att stFA) fa (min e (min nd1 (m.β 0 e))) (min nd3 (min (m.β 1 e) nd2)) x) ∧
      (∀ x, m12.att stEA x = spreadEA (m11.att stEA) (if regd cfg stEA then fa else none) (min nd2 nd1) x) := by
    clear hfa
    cases fa with
    | none =>
        simp only [spreadFaceAnchor, Prog.pure_eq, run_ret, Prod.mk.injEq, true_and] at r12
        subst r12
        exact ⟨fun x => rfl, fun x => by simp [spreadEA]⟩
    | some a =>
        have hrF := regF rfl
        simp only [spreadFA]
        simp only [spreadFaceAnchor] at r12
        obtain ⟨fid1, hf1, r12⟩ := ro_bind_ok (readOnly_faceId2 _ _) r12
        obtain ⟨fid2, hf2, r12⟩ := ro_bind_ok (readOnly_faceId2 _ _) r12
        have := (C03_faceId2_min I11.wf s1.1.1 (by rw [n11]; exact s1.1.2.1)).1
        rw [n11] at this
        have ef1 : fid1 = min e (min nd1 (m.β 0 e)) := by
          rw [run_inj hf1 this, ← cellId_of_sameTopo stF, w2]
        have := (C03_faceId2_min I11.wf s2.1.1 (by rw [n11]; exact s2.1.2.1)).1
        rw [n11] at this
        have ef2 : fid2 = min nd3 (min (m.β 1 e) nd2) := by
          rw [run_inj hf2 this, ← cellId_of_sameTopo stF, w6]
        obtain ⟨_, ma, ra, r12⟩ := run_bind_ok r12
        obtain ⟨_, mb, rb, r12⟩ := run_bind_ok r12
        rcases writeAttr_ok ra with ⟨hf, _⟩ | ⟨_, oka, rfl⟩
        · rw [hrF] at hf; exact absurd hf (by simp)
        rcases writeAttr_ok rb with ⟨hf, _⟩ | ⟨_, okb, rfl⟩
        · rw [hrF] at hf; exact absurd hf (by simp)
        have attF : ∀ x, ((m11.setA stFA fid1 (some a)).setA stFA fid2 (some a)).att stFA x =
            if x = min nd3 (min (m.β 1 e) nd2) ∨ x = min e (min nd1 (m.β 0 e)) then some a else m11.att stFA x := by
          intro x
          rw [Map.att_setA, Map.att_setA, ef1, ef2]
          rw [ef1] at oka
          rw [ef1, ef2, Map.okA_setA] at okb
          simp only [Map.okA_setA]
          by_cases x2 : min nd3 (min (m.β 1 e) nd2) = x
          · subst x2; simp [okb]
          · have x2' : ¬ x = min nd3 (min (m.β 1 e) nd2) := fun hh => x2 hh.symm
            by_cases x1 : min e (min nd1 (m.β 0 e)) = x
            · subst x1; simp [x2, x2', oka]
            · have x1' : ¬ x = min e (min nd1 (m.β 0 e)) := fun hh => x1 hh.symm
              simp [x1, x2, x1', x2']
        have attE0 : ∀ x, ((m11.setA stFA fid1 (some a)).setA stFA fid2 (some a)).att stEA x = m11.att stEA x := by
          intro x; rw [Map.att_setA, Map.att_setA]; simp [stFA, stEA]
        by_cases hrE : regd cfg stEA = true
        · rw [if_pos hrE] at r12 ⊢
          simp only [spreadEA]
          obtain ⟨eid, heid, r12⟩ := ro_bind_ok (readOnly_edgeId2 _) r12
          have ee := edgeVal _ nd1 eid (by
            rw [β_of_sameTopo stF]
            exact β_of_sameTopo ((SameTopo.setA _ _ _ _).trans (SameTopo.setA _ _ _ _))) heid
          rw [u1] at ee
          simp only [s2.1.1, if_false] at ee
          obtain ⟨_, mc, rc, r12⟩ := run_bind_ok r12
          simp only [Prog.pure_eq, run_ret, Prod.mk.injEq, true_and] at r12
          subst r12
          rcases writeAttr_ok rc with ⟨hf, _⟩ | ⟨_, okc, rfl⟩
          · rw [hrE] at hf; exact absurd hf (by simp)
          refine ⟨fun x => ?_, fun x => ?_⟩
          · rw [Map.att_setA]
            simp only [stEA, stFA, Nat.reduceEqDiff, false_and, if_false]
            exact attF x
          · rw [Map.att_setA, ee]
            rw [ee] at okc
            by_cases hx : min nd2 nd1 = x
            · subst hx; simp [okc]
            · have hx' : ¬ x = min nd2 nd1 := fun hh => hx hh.symm
              simp only [hx, hx', and_false, false_and, if_false]
              exact attE0 x
        · rw [if_neg hrE] at r12 ⊢
          simp only [spreadEA]
          simp only [Prog.pure_eq, run_ret, Prod.mk.injEq, true_and] at r12
          subst r12
          exact ⟨attF, attE0⟩
  -- spreadEdgeAnchorOuter
  have S13 : (∀ x, m'.att stFA x = m12.att stFA x) ∧
      (∀ x, m'.att stEA x = if x = nd3 ∧ ea.isSome then ea else m12.att stEA x) := by
    clear hea
    cases ea with
    | none =>
        simp only [spreadEdgeAnchorOuter, Prog.pure_eq, run_ret, Prod.mk.injEq, true_and] at h
        subst h
        exact ⟨fun x => rfl, fun x => by simp⟩
    | some a' =>
        have hrE := regE rfl
        simp only [spreadEdgeAnchorOuter] at h
        obtain ⟨vid', _, h⟩ := ro_bind_ok (readOnly_vertexId2 _ _) h
        obtain ⟨_, md, rd', h⟩ := run_bind_ok h
        obtain ⟨eid, heid, h⟩ := ro_bind_ok (readOnly_edgeId2 _) h
        obtain ⟨_, me, re, h⟩ := run_bind_ok h
        simp only [Prog.pure_eq, run_ret, Prod.mk.injEq, true_and] at h
        subst h
        rcases writeAttr_ok re with ⟨hf, _⟩ | ⟨_, oke, rfl⟩
        · rw [hrE] at hf; exact absurd hf (by simp)
        have ee := edgeVal md nd3 eid (β_of_sameTopo (SameTopo.setA _ _ _ _)).symm heid
        rw [e2n3] at ee
        simp only [if_true] at ee
        rw [ee] at oke
        have dF : ∀ x, md.att stFA x = m12.att stFA x ∧ md.att stEA x = m12.att stEA x := by
          intro x
          rcases writeAttr_ok rd' with ⟨_, rfl⟩ | ⟨_, _, rfl⟩
          · exact ⟨rfl, rfl⟩
          · rw [Map.att_setA, Map.att_setA]; simp [stVA, stFA, stEA]
        refine ⟨fun x => ?_, fun x => ?_⟩
        · rw [Map.att_setA]
          simp only [stEA, stFA, Nat.reduceEqDiff, false_and, if_false]
          exact (dF x).1
        · rw [Map.att_setA, ee]
          by_cases hx : nd3 = x
          · subst hx; simp [oke]
          · have hx' : ¬ x = nd3 := fun hh => hx hh.symm
            simp only [hx, hx', and_false, false_and, if_false]
            exact (dF x).2
  have e11 : m11.att stEA = m.att stEA := funext A11E
  refine ⟨fun x => ?_, fun x => ?_⟩
  · rw [S13.1, S12.1]
    unfold spreadFA faceAnchorsAfter
    cases fa with
    | none => simp only; rw [A11F]; simp
    | some a =>
        simp only
        by_cases hx : x = min nd3 (min (m.β 1 e) nd2) ∨ x = min e (min nd1 (m.β 0 e))
        · simp [hx]
        · rw [if_neg hx, if_neg hx, A11F]; simp
  · rw [S13.2, S12.2, e11]
    unfold spreadEA edgeAnchorsAfter
    generalize (if regd cfg stEA = true then fa else none) = g
    cases g <;> rfl


/-! ## vertex-bound storages at dart level (the rules of Lemmas/RemeshValues.lean for ANY vertex-bound storage `t`) -/

/-- the value of the vertex-bound storage `t` seen from dart `x` -/
def vvalT (t : Nat) (s : Map Val) (x : Nat) : Option Val := s.att t (cellId s .vertex x)

/-- **1-sew**: the β function becomes `lnk1`; when `β2 l` is null nothing else happens; otherwise the darts connected to
    `a = β2 l` or to `r` all see one value `W` afterwards — the merge of the two values when the two vertices were
    different, the common value otherwise — and every other dart sees what it saw. -/
theorem vvalT_oneSew2 (cfg : Cfg Val) {t : Nat} (ht : t ∈ vStores cfg) {n l r : Nat} {s s' : Map Val} (hw : WF 3 s) (hw' : WF 3 s') (hn : s.n = n)
    (hfc : s.fc = 0) (r0 : r ≠ 0) (rn : r < n) (hrun : run (oneSew2 cfg n l r) s = (.ok (), s')) :
    s'.β = lnk1 s.β l r ∧ s.β 1 l = 0 ∧ s'.n = s.n ∧ s'.fc = 0 ∧ (∀ x y, VC s x y → VC s' x y) ∧
    (s.β 2 l = 0 → ∀ x, x ≠ 0 → x < n → vvalT t s' x = vvalT t s x) ∧
    (s.β 2 l ≠ 0 → VC s' (s.β 2 l) r ∧ ∃ W : Option Val,
      (∀ x, x ≠ 0 → x < n → (VC s x (s.β 2 l) ∨ VC s x r) → vvalT t s' x = W) ∧
      (∀ x, x ≠ 0 → x < n → ¬ VC s x (s.β 2 l) → ¬ VC s x r → vvalT t s' x = vvalT t s x) ∧
      (cellId s .vertex (s.β 2 l) ≠ cellId s .vertex r →
        ∃ v, mergeVal (cfg.law t) (vvalT t s (s.β 2 l)) (vvalT t s r) = .ok v ∧ W = some v) ∧
      (cellId s .vertex (s.β 2 l) = cellId s .vertex r → W = vvalT t s r)) := by
  subst hn
  obtain ⟨m1, hcore, st, cases⟩ := C04_oneSew2_effect cfg s.n l r s s' () hfc hrun
  obtain ⟨h1l, _, sc⟩ := step_oneLinkCore hcore
  have fc1 := link1_fc hcore
  have hβ : s'.β = lnk1 s.β l r := by rw [β_of_sameTopo st]; exact sc.β
  have hn' : s'.n = s.n := by rw [st.n]; exact sc.n
  have hw1 : WF 3 m1 := hw'.sameTopo (SameTopo.symm' st)
  have pairs : ∀ u v, VPair s'.β u v ↔ VPair s.β u v ∨ (u = s.β 2 l ∧ v = r ∧ u ≠ 0 ∧ v ≠ 0) := by
    intro u v; rw [hβ]; exact vpair_lnk1 h1l u v
  have mono : ∀ x y, VC s x y → VC s' x y := fun x y h =>
    Conn.mono (fun u v e => Conn.fwd (.refl _) ((pairs u v).2 (Or.inl e))) h
  rcases cases with ⟨h20, rfl⟩ | ⟨h2, v1, v2, nv, hv1, hv2, hnv, mg⟩
  · refine ⟨hβ, h1l, hn', by rw [fc1.1]; exact hfc, mono, ?_, fun hh => absurd h20 hh⟩
    intro _ x x0 xn
    have same : ∀ y, y ≠ 0 → (VC s' x y ↔ VC s x y) := by
      intro y _
      constructor
      · intro h
        refine Conn.mono (fun u v e => ?_) h
        rcases (pairs u v).1 e with e | ⟨hu, _, u0, _⟩
        · exact Conn.fwd (.refl _) e
        · rw [hu] at u0; exact absurd h20 u0
      · exact mono x y
    unfold vvalT
    rw [vid_congr hw hw' hn' x0 xn same, fc1.2.1]
  · refine ⟨hβ, h1l, hn', by rw [mg.fc, fc1.1]; exact hfc, mono, fun hh => absurd hh h2, fun _ => ?_⟩
    have an : s.β 2 l < s.n := by
      by_cases hl : l < s.n
      · exact hw.range 2 (by omega) l hl
      · exact absurd (beta_oob hw (fun hh => hl hh.2)) h2
    -- the three identifiers
    have e1 : v1 = cellId s .vertex (s.β 2 l) := by
      have := (C03_vertexId2_min hw h2 an).1; rw [this] at hv1; simp at hv1; exact hv1.symm
    have e2 : v2 = cellId s .vertex r := by
      have := (C03_vertexId2_min hw r0 rn).1; rw [this] at hv2; simp at hv2; exact hv2.symm
    have e3 : nv = cellId s' .vertex r := by
      have := (C03_vertexId2_min hw1 r0 (by rw [sc.n]; exact rn)).1
      rw [sc.n] at this
      rw [this] at hnv; simp at hnv
      rw [← hnv]; exact (vid_of_sameTopo st r).symm
    have new : VC s' (s.β 2 l) r := Conn.fwd (.refl _) ((pairs _ _).2 (Or.inr ⟨rfl, rfl, h2, r0⟩))
    have dec : ∀ x y, VC s' x y →
        VC s x y ∨ (VC s x (s.β 2 l) ∧ VC s r y) ∨ (VC s x r ∧ VC s (s.β 2 l) y) := fun x y h =>
      Conn.add_edge (E := VPair s.β) (a := s.β 2 l) (b := r) (fun u v e => by
        rcases (pairs u v).1 e with e | ⟨hu, hv, _, _⟩
        · exact Or.inl e
        · exact Or.inr ⟨hu, hv⟩) h
    have att1 : ∀ t e, m1.att t e = s.att t e := fc1.2.1
    have z0 := ht
    refine ⟨new, s'.att t nv, ?_, ?_, ?_, ?_⟩
    · intro x x0 xn hx
      have : VC s' x r := by
        rcases hx with hx | hx
        · exact (mono _ _ hx).trans new
        · exact mono _ _ hx
      unfold vvalT
      rw [(vid_of_vc hw' x0 (by rw [hn']; exact xn) r0 (by rw [hn']; exact rn)).2 this, e3]
    · intro x x0 xn na nr
      have same : ∀ y, y ≠ 0 → (VC s' x y ↔ VC s x y) := by
        intro y _
        constructor
        · intro h
          rcases dec x y h with h | ⟨h, _⟩ | ⟨h, _⟩
          · exact h
          · exact absurd h na
          · exact absurd h nr
        · exact mono x y
      have ceq := vid_congr hw hw' hn' x0 xn same
      obtain ⟨c0, cn, cx⟩ := vc_vid hw x0 xn
      obtain ⟨a0', an', ca⟩ := vc_vid hw h2 an
      obtain ⟨r0', rn', cr⟩ := vc_vid hw r0 rn
      obtain ⟨n0', nn', cnv⟩ := vc_vid hw' r0 (by rw [hn']; exact rn)
      unfold vvalT
      rw [ceq, mg.frame t _ z0 ?_ ?_ ?_, att1]
      · -- not the new identifier
        intro hh
        rw [e3] at hh
        have : VC s' x r := (mono _ _ cx).trans (by rw [hh]; exact cnv.symm)
        rcases dec x r this with h | ⟨h, _⟩ | ⟨h, _⟩
        · exact nr h
        · exact na h
        · exact nr h
      · intro hh; rw [e1] at hh; exact na (cx.trans (by rw [hh]; exact ca.symm))
      · intro hh; rw [e2] at hh; exact nr (cx.trans (by rw [hh]; exact cr.symm))
    · intro hne
      obtain ⟨v, hv, hout⟩ := mg.merged (by rw [e1, e2]; exact hne) t z0
      refine ⟨v, ?_, hout⟩
      unfold vvalT
      rw [att1, att1, e1, e2] at hv
      exact hv
    · intro heq
      have := mg.moved (by rw [e1, e2]; exact heq) t z0
      rw [this, att1, e1, heq]
      rfl

/-- **1-unsew**: the β function becomes `unl1`; no dart sees another vertex value afterwards (the value is copied to
    both halves of a split vertex, moved otherwise) -/
theorem vvalT_oneUnsew2 (cfg : Cfg Val) {t : Nat} (ht : t ∈ vStores cfg) (hL : ∀ o a b, splitVal (cfg.law t) o = .ok (a, b) → o = some a ∧ b = a) {n l : Nat} {s s' : Map Val} (hw : WF 3 s)
    (hw' : WF 3 s') (hn : s.n = n) (hfc : s.fc = 0) (ln : l < n)
    (hrun : run (oneUnsew2 cfg n l) s = (.ok (), s')) :
    s'.β = unl1 s.β l ∧ s.β 1 l ≠ 0 ∧ s'.n = s.n ∧ s'.fc = 0 ∧ ∀ x, x ≠ 0 → x < n → vvalT t s' x = vvalT t s x := by
  subst hn
  obtain ⟨m1, hcore, st, cases⟩ := C04_oneUnsew2_effect cfg s.n l s s' () hfc hrun
  obtain ⟨h1l, sc⟩ := step_oneUnlinkCore hcore
  have fc1 := unlink1_fc hcore
  have hβ : s'.β = unl1 s.β l := by rw [β_of_sameTopo st]; exact sc.β
  have hn' : s'.n = s.n := by rw [st.n]; exact sc.n
  have hw1 : WF 3 m1 := hw'.sameTopo (SameTopo.symm' st)
  have pairs : ∀ u v, VPair s.β u v ↔ VPair s'.β u v ∨ (u = s.β 2 l ∧ v = s.β 1 l ∧ u ≠ 0 ∧ v ≠ 0) := by
    intro u v; rw [hβ]; exact vpair_unl1 u v
  have mono : ∀ x y, VC s' x y → VC s x y := fun x y h =>
    Conn.mono (fun u v e => Conn.fwd (.refl _) ((pairs u v).2 (Or.inl e))) h
  rcases cases with ⟨h20, rfl⟩ | ⟨h2, vold, nl, nr, hvold, hnl, hnr, sp⟩
  · refine ⟨hβ, h1l, hn', by rw [fc1.1]; exact hfc, ?_⟩
    intro x x0 xn
    have same : ∀ y, y ≠ 0 → (VC s' x y ↔ VC s x y) := by
      intro y _
      constructor
      · exact mono x y
      · intro h
        refine Conn.mono (fun u v e => ?_) h
        rcases (pairs u v).1 e with e | ⟨hu, _, u0, _⟩
        · exact Conn.fwd (.refl _) e
        · rw [hu] at u0; exact absurd h20 u0
    unfold vvalT
    rw [vid_congr hw hw' hn' x0 xn same, fc1.2.1]
  · refine ⟨hβ, h1l, hn', by rw [sp.fc, fc1.1]; exact hfc, ?_⟩
    have an : s.β 2 l < s.n := hw.range 2 (by omega) l ln
    have bn : s.β 1 l < s.n := hw.range 1 (by omega) l ln
    have e1 : vold = cellId s .vertex (s.β 1 l) := by
      have := (C03_vertexId2_min hw h1l bn).1; rw [this] at hvold; simp at hvold; exact hvold.symm
    have e2 : nl = cellId s' .vertex (s.β 2 l) := by
      have := (C03_vertexId2_min hw1 h2 (by rw [sc.n]; exact an)).1
      rw [sc.n] at this
      rw [this] at hnl; simp at hnl
      rw [← hnl]; exact (vid_of_sameTopo st _).symm
    have e3 : nr = cellId s' .vertex (s.β 1 l) := by
      have := (C03_vertexId2_min hw1 h1l (by rw [sc.n]; exact bn)).1
      rw [sc.n] at this
      rw [this] at hnr; simp at hnr
      rw [← hnr]; exact (vid_of_sameTopo st _).symm
    have old : VC s (s.β 2 l) (s.β 1 l) := Conn.fwd (.refl _) ((pairs _ _).2 (Or.inr ⟨rfl, rfl, h2, h1l⟩))
    have dec : ∀ x y, VC s x y →
        VC s' x y ∨ (VC s' x (s.β 2 l) ∧ VC s' (s.β 1 l) y) ∨ (VC s' x (s.β 1 l) ∧ VC s' (s.β 2 l) y) := fun x y h =>
      Conn.add_edge (E := VPair s'.β) (a := s.β 2 l) (b := s.β 1 l) (fun u v e => by
        rcases (pairs u v).1 e with e | ⟨hu, hv, _, _⟩
        · exact Or.inl e
        · exact Or.inr ⟨hu, hv⟩) h
    have att1 : ∀ t e, m1.att t e = s.att t e := fc1.2.1
    have z0 := ht
    have an' : s.β 2 l < s'.n := by rw [hn']; exact an
    have bn' : s.β 1 l < s'.n := by rw [hn']; exact bn
    -- the value at the two new identifiers is the old value
    have vals : s'.att t nl = s.att t vold ∧ s'.att t nr = s.att t vold := by
      by_cases hlr : nl = nr
      · have := sp.moved hlr t z0
        rw [att1] at this
        exact ⟨this, by rw [← hlr]; exact this⟩
      · obtain ⟨a, b, hs, hb, ha⟩ := sp.split hlr t z0
        rw [att1] at hs
        obtain ⟨h1, h2'⟩ := hL _ _ _ hs
        exact ⟨by rw [ha, h1], by rw [hb, h1, h2']⟩
    intro x x0 xn
    have xn' : x < s'.n := by rw [hn']; exact xn
    by_cases ca : VC s' x (s.β 2 l)
    · have o : VC s x (s.β 1 l) := (mono _ _ ca).trans old
      unfold vvalT
      rw [(vid_of_vc hw' x0 xn' h2 an').2 ca, ← e2, vals.1, e1, (vid_of_vc hw x0 xn h1l bn).2 o]
    · by_cases cb : VC s' x (s.β 1 l)
      · have o : VC s x (s.β 1 l) := mono _ _ cb
        unfold vvalT
        rw [(vid_of_vc hw' x0 xn' h1l bn').2 cb, ← e3, vals.2, e1, (vid_of_vc hw x0 xn h1l bn).2 o]
      · have same : ∀ y, y ≠ 0 → (VC s' x y ↔ VC s x y) := by
          intro y _
          constructor
          · exact mono x y
          · intro h
            rcases dec x y h with h | ⟨h, _⟩ | ⟨h, _⟩
            · exact h
            · exact absurd h ca
            · exact absurd h cb
        have ceq := vid_congr hw hw' hn' x0 xn same
        obtain ⟨c0, cn, cx⟩ := vc_vid hw' x0 xn'
        obtain ⟨_, _, cna⟩ := vc_vid hw' h2 an'
        obtain ⟨_, _, cnb⟩ := vc_vid hw' h1l bn'
        obtain ⟨_, _, cvo⟩ := vc_vid hw h1l bn
        unfold vvalT
        rw [← ceq, sp.frame t _ z0 ?_ ?_ ?_, att1]
        · intro hh; rw [e2] at hh; exact ca (cx.trans (by rw [hh]; exact cna.symm))
        · intro hh; rw [e3] at hh; exact cb (cx.trans (by rw [hh]; exact cnb.symm))
        · intro hh
          rw [e1] at hh
          -- `x` would be connected to the old identifier, hence to one of the two darts
          have : VC s x (s.β 1 l) := (mono _ _ cx).trans (by rw [hh]; exact cvo.symm)
          rcases dec x _ this with h | ⟨h, _⟩ | ⟨h, _⟩
          · exact cb h
          · exact ca h
          · exact cb h


/-- what the dart-level rules need from the law of a vertex-bound anchor storage -/
structure AnchorLike (L : Law Val) : Prop where
  split : ∀ o a b, splitVal L o = .ok (a, b) → o = some a ∧ b = a
  mergeNone : ∀ v, L.mergeNone ≠ .ok v
  inc : ∀ v w, L.mergeInc v = .ok w → w = v
  idem : ∀ v w, L.merge v v = .ok w → w = v

theorem vanchor_code_ofCode {x : Nat} {p : VertexAnchor} (h : VertexAnchor.ofCode x = some p) : p.code = x := by
  unfold VertexAnchor.ofCode at h
  split at h <;> simp at h <;> subst h <;> simp [VertexAnchor.code, VertexAnchor.id, VertexAnchor.dim] <;> omega

theorem anchorLike_V : AnchorLike anchorLawV := by
  refine ⟨?_, ?_, ?_, ?_⟩
  · intro o a b h
    cases o with
    | none => simp [splitVal, anchorLawV, anchorLawOf, VertexAnchor.splitFromNone] at h
    | some v =>
        simp only [splitVal, anchorLawV, anchorLawOf] at h
        split at h
        · rename_i x
          cases hp : VertexAnchor.ofCode x with
          | none => simp [hp] at h
          | some p =>
              simp [hp, VertexAnchor.split] at h
              have := vanchor_code_ofCode hp
              rw [this] at h
              exact ⟨by rw [h.1], by rw [← h.1, h.2]⟩
        · simp at h
  · intro v h
    simp [anchorLawV, anchorLawOf, VertexAnchor.mergeFromNone] at h
  · intro v w h
    simp only [anchorLawV, anchorLawOf] at h
    split at h
    · rename_i x
      cases hp : VertexAnchor.ofCode x with
      | none => simp [hp] at h
      | some p =>
          simp [hp, VertexAnchor.mergeIncomplete] at h
          rw [vanchor_code_ofCode hp] at h
          exact h.symm
    · simp at h
  · intro v w h
    cases v with
    | pt a b c => simp [anchorLawV, anchorLawOf] at h
    | tm t =>
        cases t with
        | leaf x =>
            simp only [anchorLawV, anchorLawOf] at h
            cases hp : VertexAnchor.ofCode x with
            | none => simp [hp] at h
            | some p =>
                simp [hp, C15_vanchor_merge_idem] at h
                rw [vanchor_code_ofCode hp] at h
                exact h.symm
        | _ => simp [anchorLawV, anchorLawOf] at h


/-- one 1-unsew, for the vertex-bound storage `t` -/
theorem unsewT_step (cfg : Cfg Val) {t : Nat} (ht : t ∈ vStores cfg) (hA : AnchorLike (cfg.law t)) {n : Nat}
    {u : Array Bool} {l : Nat} {s s' : Map Val}
    (J : Inv n u s) (hfc : s.fc = 0) (hl : Live n u l) (hrun : run (oneUnsew2 cfg n l) s = (.ok (), s')) :
    Inv n u s' ∧ s'.fc = 0 ∧ (∀ x, s'.β 2 x = s.β 2 x) ∧ ∀ x, x ≠ 0 → x < n → vvalT t s' x = vvalT t s x := by
  have J' := keeps_oneUnsew2 cfg n hl s s' () J hrun
  obtain ⟨hβ, _, _, fc', vv⟩ := vvalT_oneUnsew2 cfg ht hA.split J.wf J'.wf J.n_eq hfc hl.2.1 hrun
  exact ⟨J', fc', fun x => by rw [hβ, unl1_two'], vv⟩

/-- one 1-sew, for the vertex-bound storage `t` with an anchor-like law.  `K`: any colouring constant on the vertices
    of the map after the step.  Last clause: when the vertex of `a = β2 l` holds the same value as that of `r`, or nothing,
    the darts connected to `a` see the value of `r` afterwards and every other dart sees what it saw. -/
theorem sewT_step (cfg : Cfg Val) {t : Nat} (ht : t ∈ vStores cfg) (hA : AnchorLike (cfg.law t)) {n : Nat}
    {u : Array Bool} {l r : Nat} {s s' : Map Val}
    (J : Inv n u s) (hfc : s.fc = 0) (hl : Live n u l) (hr : Live n u r)
    (hrun : run (oneSew2 cfg n l r) s = (.ok (), s')) :
    Inv n u s' ∧ s'.fc = 0 ∧ (∀ x, s'.β 2 x = s.β 2 x) ∧ (∀ x y, VC s x y → VC s' x y) ∧
    (s.β 2 l ≠ 0 → VC s' (s.β 2 l) r) ∧
    (s.β 2 l = 0 → ∀ x, x ≠ 0 → x < n → vvalT t s' x = vvalT t s x) ∧
    (∀ K : Nat → Nat, (∀ x y, x ≠ 0 → x < n → y ≠ 0 → y < n → VC s' x y → K x = K y) →
      ∀ x, x ≠ 0 → x < n → K x ≠ K r → vvalT t s' x = vvalT t s x) ∧
    (s.β 2 l ≠ 0 → (vvalT t s (s.β 2 l) = vvalT t s r ∨ vvalT t s (s.β 2 l) = none) →
      ∀ x, x ≠ 0 → x < n → (VC s x (s.β 2 l) → vvalT t s' x = vvalT t s r) ∧
        (¬ VC s x (s.β 2 l) → vvalT t s' x = vvalT t s x)) := by
  have J' := keeps_oneSew2 cfg n hl hr s s' () J hrun
  obtain ⟨hβ, _, _, fc', mono, nul, W⟩ := vvalT_oneSew2 cfg ht J.wf J'.wf J.n_eq hfc hr.1 hr.2.1 hrun
  have an : s.β 2 l ≠ 0 → s.β 2 l < n := fun _ => by
    have := J.wf.range 2 (by omega) l (by rw [J.n_eq]; exact hl.2.1); rw [J.n_eq] at this; exact this
  refine ⟨J', fc', fun x => by rw [hβ, lnk1_two'], mono, fun h2 => (W h2).1, nul, ?_, ?_⟩
  · intro K hK x x0 xn hx
    by_cases h2 : s.β 2 l = 0
    · exact nul h2 x x0 xn
    · obtain ⟨new, _, _, oth, _, _⟩ := W h2
      refine oth x x0 xn ?_ ?_
      · intro hc; exact hx (hK _ _ x0 xn hr.1 hr.2.1 ((mono _ _ hc).trans new))
      · intro hc; exact hx (hK _ _ x0 xn hr.1 hr.2.1 (mono _ _ hc))
  · intro h2 hval x x0 xn
    obtain ⟨new, Wv, inn, oth, mg, mv⟩ := W h2
    have hW : Wv = vvalT t s r := by
      by_cases hid : cellId s .vertex (s.β 2 l) = cellId s .vertex r
      · exact mv hid
      · obtain ⟨v, hv, e1⟩ := mg hid
        rcases hval with heq | hnone
        · rw [heq] at hv
          cases hr' : vvalT t s r with
          | none => rw [hr'] at hv; exact absurd hv (hA.mergeNone v)
          | some w => rw [hr'] at hv; rw [e1, hA.idem w v hv]
        · rw [hnone] at hv
          cases hr' : vvalT t s r with
          | none => rw [hr'] at hv; exact absurd hv (hA.mergeNone v)
          | some w => rw [hr'] at hv; rw [e1, hA.inc w v hv]
    constructor
    · intro hc; rw [inn x x0 xn (Or.inl hc), hW]
    · intro hc
      by_cases hcr : VC s x r
      · rw [inn x x0 xn (Or.inr hcr), hW]
        unfold vvalT
        rw [(vid_of_vc J.wf x0 (by rw [J.n_eq]; exact xn) hr.1 (by rw [J.n_eq]; exact hr.2.1)).2 hcr]
      · exact oth x x0 xn hc hcr

/-! ## cut_outer_edge: the vertex anchors, dart by dart -/

theorem vvalT_of_sameTopo {t : Nat} {s s' : Map Val} (st : SameTopo s s') (hat : ∀ x, s'.att t x = s.att t x) (x : Nat) :
    vvalT t s' x = vvalT t s x := by
  unfold vvalT; rw [vid_of_sameTopo st, hat]

theorem att_takeFaceAnchor_ne {cfg : Cfg Val} {k d t : Nat} {m m' : Map Val} {o : Option Val} (ht : t ≠ stFA)
    (h : run (takeFaceAnchor cfg k d) m = (.ok o, m')) : ∀ i, m'.att t i = m.att t i := by
  intro i
  unfold takeFaceAnchor at h
  by_cases hr : regd cfg stFA = true
  · simp only [hr, if_true] at h
    obtain ⟨fid, _, h⟩ := ro_bind_ok (readOnly_faceId2 _ _) h
    rcases removeAttr_ok h with ⟨_, rfl, _⟩ | ⟨_, _, rfl, _⟩
    · rfl
    · rw [Map.att_setA]; simp [Ne.symm ht]
  · simp [hr] at h
    rw [h.2]

theorem att_writeAttr_ne {cfg : Cfg Val} {s id t : Nat} {v : Val} {m m' : Map Val} {o : Option Val} (ht : t ≠ s)
    (h : run (writeAttr cfg s id v) m = (.ok o, m')) : ∀ i, m'.att t i = m.att t i := by
  intro i
  rcases writeAttr_ok h with ⟨_, rfl⟩ | ⟨_, _, rfl⟩
  · rfl
  · rw [Map.att_setA]; simp [Ne.symm ht]

theorem att_spreadFaceAnchor_ne {cfg : Cfg Val} {k a b t : Nat} {fa : Option Val} {m m' : Map Val} (h1 : t ≠ stFA)
    (h2 : t ≠ stEA) (h : run (spreadFaceAnchor cfg k fa a b) m = (.ok (), m')) : ∀ i, m'.att t i = m.att t i := by
  intro i
  cases fa with
  | none =>
      simp only [spreadFaceAnchor, Prog.pure_eq, run_ret, Prod.mk.injEq, true_and] at h
      rw [h]
  | some v =>
      simp only [spreadFaceAnchor] at h
      obtain ⟨_, _, h⟩ := ro_bind_ok (readOnly_faceId2 _ _) h
      obtain ⟨_, _, h⟩ := ro_bind_ok (readOnly_faceId2 _ _) h
      obtain ⟨_, ma, ra, h⟩ := run_bind_ok h
      obtain ⟨_, mb, rb, h⟩ := run_bind_ok h
      have e1 := att_writeAttr_ne h1 ra i
      have e2 := att_writeAttr_ne h1 rb i
      by_cases hr : regd cfg stEA = true
      · rw [if_pos hr] at h
        obtain ⟨_, _, h⟩ := ro_bind_ok (readOnly_edgeId2 _) h
        obtain ⟨_, mc, rc, h⟩ := run_bind_ok h
        simp only [Prog.pure_eq, run_ret, Prod.mk.injEq, true_and] at h
        rw [← h, att_writeAttr_ne h2 rc i, e2, e1]
      · rw [if_neg hr] at h
        simp only [Prog.pure_eq, run_ret, Prod.mk.injEq, true_and] at h
        rw [← h, e2, e1]

/-- **C15 (anchors), cut_outer_edge, the VertexAnchor storage (present, vertex-bound, with the generated law)**: on ANY
    well-formed 2-map (no fault injected), after a successful `cut_outer_edge(e, [nd1, nd2, nd3])` on a boundary dart of a
    closed triangle, the spare darts carrying no vertex anchor:
    * every dart other than the three spare ones sees, at its vertex identifier in the RESULT, the vertex anchor it saw
      at its vertex identifier in the input (`kept`: the unsews copy, the sews merge a vertex with copies of itself or
      with the empty vertex of `nd2`, `merge_incomplete`);
    * the new vertex `{nd1, nd3}` (identifier `min(nd1, nd3)`) carries `VertexAnchor::from(ea)` when the cut edge has an
      EdgeAnchor `ea` (read at `e`; `none` without EdgeAnchor storage), and nothing otherwise — INDEPENDENTLY of the
      FaceAnchor storage and of the face anchor; `nd2` belongs to the vertex of `β0 e`.
    Whether the EdgeAnchor / FaceAnchor storages exist plays no role (no hypothesis on them). -/
theorem C15_cutOuter_vertex_anchors (cfg : Cfg Val) (m m' : Map Val) (e nd1 nd2 nd3 : Nat) (hwf : WF 3 m)
    (hfc : m.fc = 0) (he : C01.InUse m e) (h2e : m.β 2 e = 0)
    (h : run (cutOuterEdge cfg m.n e nd1 nd2 nd3) m = (.ok (), m'))
    (htri : m.β 1 (m.β 1 e) = m.β 0 e) (hb : m.β 0 e ≠ 0)
    (s1 : Spare m nd1) (s2 : Spare m nd2) (s3 : Spare m nd3)
    (hnd : [e, m.β 1 e, m.β 0 e, nd1, nd2, nd3].Nodup)
    (hV : stVA ∈ vStores cfg) (hreg : regd cfg stVA = true) (hLaw : cfg.law stVA = anchorLawV)
    (hnone : m.att stVA nd1 = none ∧ m.att stVA nd2 = none ∧ m.att stVA nd3 = none)
    {ea : Option Val} (hea : ea = if regd cfg stEA then m.att stEA e else none) :
    (∀ x, x ≠ 0 → x < m.n → x ∉ [nd1, nd2, nd3] →
      m'.att stVA (cellId m' .vertex x) = m.att stVA (cellId m .vertex x)) ∧
    cellId m' .vertex nd1 = min nd1 nd3 ∧ cellId m' .vertex nd3 = cellId m' .vertex nd1 ∧
    cellId m' .vertex nd2 = cellId m' .vertex (m.β 0 e) ∧
    m'.att stVA (cellId m' .vertex nd1) = ea.map edgeToVertexVal := by
  have hA : AnchorLike (cfg.law stVA) := by rw [hLaw]; exact anchorLike_V
  have hn := he.2.1
  have a0 : m.β 1 e ≠ 0 := fun hh => hb (by rw [← htri, hh]; exact hwf.null 1 (by omega))
  have ha : m.β 1 e < m.n := hwf.range 1 (by omega) e hn
  have hbn : m.β 0 e < m.n := hwf.range 0 (by omega) e hn
  have hnd' := hnd
  simp only [List.nodup_cons, List.mem_cons, List.mem_nil_iff, not_or, or_false, List.nodup_nil, and_true] at hnd'
  obtain ⟨⟨d1, d2, d3, d4, d5⟩, ⟨d6, d7, d8, d9⟩, ⟨d10, d11, d12⟩, ⟨d13, d14⟩, d15, _⟩ := hnd'
  obtain ⟨hcid, c3, c2, part, _⟩ :=
    C15_cutOuter_vertices cfg m m' e nd1 nd2 nd3 hwf he h htri hb h2e s1 s2 s3 hnd
  obtain ⟨hw', _⟩ := C15_cutOuter_cells cfg m m' e nd1 nd2 nd3 hwf he h htri hb s1 s2 s3 hnd
  obtain ⟨⟨p1, p2, p3⟩, ⟨q1, q2, q3⟩, ⟨r1, r2, r3⟩, ⟨t1, t2, t3⟩, ⟨u1, u2, u3⟩, _, hn', _⟩ :=
    C15_cutOuter_topology cfg m m' e nd1 nd2 nd3 hwf hn h htri hb hnd
  have L1 : Live m.n m.u nd1 := Live.of_inUse s1.1
  have L2 : Live m.n m.u nd2 := Live.of_inUse s2.1
  have L3 : Live m.n m.u nd3 := Live.of_inUse s3.1
  have Le : Live m.n m.u e := Live.of_inUse he
  have La : Live m.n m.u (m.β 1 e) := live_image hwf (by omega) he.2.1 a0
  have Lb : Live m.n m.u (m.β 0 e) := live_image hwf (by omega) he.2.1 hb
  have n1' : nd1 < m'.n := by rw [hn']; exact s1.1.2.1
  have n3' : nd3 < m'.n := by rw [hn']; exact s3.1.2.1
  -- the new vertex in the result
  have e2e : m'.β 2 e = 0 := by rw [u3 e d3 d4]; exact h2e
  have e2n3 : m'.β 2 nd3 = 0 := by rw [u3 nd3 (Ne.symm d14) (Ne.symm d15)]; exact s3.β 2 (by omega)
  have nv' : NV m'.β nd1 nd2 nd3 := ⟨u1, q3, e2n3, t3, u2, by rw [r1]; exact e2e⟩
  obtain ⟨_, others⟩ := vertex_of_NV hw' nv' s1.1.1 n1' s3.1.1 n3'
  have sb : ∀ i, m.β i nd1 = 0 ∧ m.β i nd2 = 0 ∧ m.β i nd3 = 0 := fun i =>
    ⟨spare_beta hwf s1 i, spare_beta hwf s2 i, spare_beta hwf s3 i⟩
  have hs : ∀ t, t ∈ [nd1, nd2, nd3] → Spare m t := by
    intro t ht; simp only [List.mem_cons, List.mem_nil_iff, or_false] at ht
    rcases ht with rfl | rfl | rfl <;> assumption
  obtain ⟨F, hF⟩ : ∃ F, F = lnk1 (lnk2 m.β nd1 nd2) nd2 nd3 := ⟨_, rfl⟩
  have pairsF : ∀ u v, VPair F u v ↔ VPair m.β u v ∨ (u = nd1 ∧ v = nd3) := by
    intro u v
    have P1 : ∀ u v, VPair (lnk2 m.β nd1 nd2) u v ↔ VPair m.β u v := by
      intro u v
      rw [vpair_lnk2 (sb 2).1 (sb 2).2.1 d13]
      constructor
      · rintro (ed | ⟨_, hv, _, v0⟩ | ⟨_, hv, _, v0⟩)
        · exact ed
        · rw [(sb 1).1] at hv; exact absurd hv v0
        · rw [(sb 1).2.1] at hv; exact absurd hv v0
      · exact Or.inl
    rw [hF, vpair_lnk1 (by simp [lnk2, upd_apply, sb 1]), P1]
    have : lnk2 m.β nd1 nd2 2 nd2 = nd1 := by simp [lnk2, upd_apply]
    rw [this]
    constructor
    · rintro (ed | ⟨hu, hv, _, _⟩)
      · exact Or.inl ed
      · exact Or.inr ⟨hu, hv⟩
    · rintro (ed | ⟨hu, hv⟩)
      · exact Or.inl ed
      · exact Or.inr ⟨hu, hv, by rw [hu]; exact s1.1.1, by rw [hv]; exact s3.1.1⟩
  have noSpare : ∀ u v, VPair m.β u v → ∀ t, t ∈ [nd1, nd2, nd3] → u ≠ t ∧ v ≠ t := by
    rintro u v ⟨zz, e2, e1, _, _⟩ t ht
    rw [← e2, ← e1]
    exact ⟨beta_ne_spare hwf (hs t ht) 2 zz, beta_ne_spare hwf (hs t ht) 1 zz⟩
  have oldconn : ∀ x y, x ∉ [nd1, nd3] → Conn (VPair F) x y → VC m x y ∧ y ∉ [nd1, nd3] := by
    intro x y hx hc
    induction hc with
    | refl => exact ⟨.refl _, hx⟩
    | fwd _ ed ih =>
        rcases (pairsF _ _).1 ed with ed | ⟨hu, _⟩
        · refine ⟨.fwd ih.1 ed, ?_⟩
          have k := noSpare _ _ ed
          simp only [List.mem_cons, List.mem_nil_iff, not_or, or_false]
          exact ⟨(k nd1 (by simp)).2, (k nd3 (by simp)).2⟩
        · exact absurd (by simp [hu]) ih.2
    | bwd _ ed ih =>
        rcases (pairsF _ _).1 ed with ed | ⟨_, hv⟩
        · refine ⟨.bwd ih.1 ed, ?_⟩
          have k := noSpare _ _ ed
          simp only [List.mem_cons, List.mem_nil_iff, not_or, or_false]
          exact ⟨(k nd1 (by simp)).1, (k nd3 (by simp)).1⟩
        · exact absurd (by simp [hv]) ih.2
  have conn1 : ∀ y, Conn (VPair F) nd1 y → y = nd1 ∨ y = nd3 := by
    intro y hc
    induction hc with
    | refl => exact Or.inl rfl
    | fwd _ ed ih =>
        rcases (pairsF _ _).1 ed with ed | ⟨_, hv⟩
        · have k := noSpare _ _ ed
          rcases ih with ih | ih
          · exact absurd ih (k nd1 (by simp)).1
          · exact absurd ih (k nd3 (by simp)).1
        · exact Or.inr hv
    | bwd _ ed ih =>
        rcases (pairsF _ _).1 ed with ed | ⟨hu, _⟩
        · have k := noSpare _ _ ed
          rcases ih with ih | ih
          · exact absurd ih (k nd1 (by simp)).2
          · exact absurd ih (k nd3 (by simp)).2
        · exact Or.inl hu
  have conn2 : ∀ y, Conn (VPair F) nd2 y → y = nd2 := by
    intro y hc
    induction hc with
    | refl => rfl
    | fwd _ ed ih =>
        rcases (pairsF _ _).1 ed with ed | ⟨hu, _⟩
        · exact absurd ih (noSpare _ _ ed nd2 (by simp)).1
        · rw [ih] at hu; exact absurd hu (Ne.symm d13)
    | bwd _ ed ih =>
        rcases (pairsF _ _).1 ed with ed | ⟨_, hv⟩
        · exact absurd ih (noSpare _ _ ed nd2 (by simp)).2
        · rw [ih] at hv; exact absurd hv d15
  -- the kernel
  have h0 := h
  unfold cutOuterEdge at h
  obtain ⟨_, m1, r1', h⟩ := run_bind_ok h
  have I1 := Keeps.twoLinkCore (X := Val) L1 L2 d13 m m1 _ (Inv.of_wf hwf) r1'
  obtain ⟨_, _, st1⟩ := step_twoLinkCore r1'
  obtain ⟨_, m2, r2', h⟩ := run_bind_ok h
  have I2 := Keeps.oneLinkCore (X := Val) L2 L3 m1 m2 _ I1 r2'
  obtain ⟨_, _, st2⟩ := step_oneLinkCore r2'
  have b2 : m2.β = F := by rw [hF, st2.β, st1.β]
  have fc2 : m2.fc = 0 := by rw [(link1_fc r2').1, (linkI_fc r1').1]; exact hfc
  have at2 : ∀ t x, m2.att t x = m.att t x := fun t x => by rw [(link1_fc r2').2.1, (linkI_fc r1').2.1]
  have n2 : m2.n = m.n := I2.n_eq
  have vc2 : ∀ x y, VC m2 x y ↔ Conn (VPair F) x y := fun x y => by unfold VC; rw [b2]
  -- values after the links
  have V2old : ∀ x, x ≠ 0 → x < m.n → x ∉ [nd1, nd2, nd3] → vvalT stVA m2 x = vvalT stVA m x := by
    intro x x0 xn hx
    simp only [List.mem_cons, List.mem_nil_iff, not_or, or_false] at hx
    have hx' : x ∉ [nd1, nd3] := by simp [hx.1, hx.2.2]
    unfold vvalT
    rw [at2]
    congr 1
    refine vid_congr hwf I2.wf n2 x0 xn (fun y _ => ?_)
    rw [vc2]
    exact ⟨fun hc => (oldconn x y hx' hc).1,
      Conn.mono (fun u v ed => Conn.fwd (.refl _) ((pairsF u v).2 (Or.inl ed)))⟩
  have V2n1 : vvalT stVA m2 nd1 = none := by
    obtain ⟨_, _, kc⟩ := vc_vid I2.wf s1.1.1 (by rw [n2]; exact s1.1.2.1)
    unfold vvalT
    rw [at2]
    rcases conn1 _ ((vc2 _ _).1 kc) with hh | hh <;> rw [hh]
    · exact hnone.1
    · exact hnone.2.2
  have V2n2 : vvalT stVA m2 nd2 = none := by
    obtain ⟨_, _, kc⟩ := vc_vid I2.wf s2.1.1 (by rw [n2]; exact s2.1.2.1)
    unfold vvalT
    rw [at2, conn2 _ ((vc2 _ _).1 kc)]
    exact hnone.2.1
  obtain ⟨fa', m3, r3, h⟩ := run_bind_ok h
  have I3 := inv_attrOnly (ao_takeFaceAnchor cfg m.n e) I2 r3
  obtain ⟨fc3', _⟩ := keeps0_takeFaceAnchor cfg m.n e m2 m3 fa' r3
  have fc3 : m3.fc = 0 := by rw [fc3']; exact fc2
  have st23 := AttrOnly.run_ok (ao_takeFaceAnchor cfg m.n e) r3
  have at3 : ∀ x, m3.att stVA x = m2.att stVA x := att_takeFaceAnchor_ne (by simp [stVA, stFA]) r3
  have at3E : ∀ x, m3.att stEA x = m.att stEA x := fun x => by
    rw [att_takeFaceAnchor_ne (by simp [stEA, stFA]) r3, at2]
  obtain ⟨ea', hpeek, h⟩ := ro_bind_ok (ro_peekEdgeAnchor cfg e) h
  have hea' : ea' = ea := by
    unfold peekEdgeAnchor readAttr at hpeek
    by_cases hr : regd cfg stEA = true
    · simp only [hr, if_true, run_rA'] at hpeek
      split at hpeek
      · simp at hpeek
        rw [hea, if_pos hr, ← hpeek, at3E]
      · simp at hpeek
    · simp [hr] at hpeek
      rw [hea, if_neg hr, hpeek]
  rw [hea'] at h
  obtain ⟨_, h⟩ := HC.C15.rB_ok h
  obtain ⟨_, h⟩ := HC.C15.rB_ok h
  obtain ⟨vid1, _, h⟩ := ro_bind_ok (readOnly_vertexId2 _ _) h
  obtain ⟨vid2, _, h⟩ := ro_bind_ok (readOnly_vertexId2 _ _) h
  obtain ⟨newV, _, h⟩ := ro_bind_ok (ro_midpointOrRetry _ _) h
  obtain ⟨vid, _, h⟩ := ro_bind_ok (readOnly_vertexId2 _ _) h
  obtain ⟨old, m5, r5, h⟩ := run_bind_ok h
  have I5 := inv_attrOnly (ao_writeVtx vid newV) I3 r5
  have e5 : m5 = m3.setA 0 vid (some newV) := by
    unfold writeVtx at r5
    obtain ⟨_, r5⟩ := rA_ok r5
    obtain ⟨_, r5⟩ := wA_ok r5
    simp at r5
    exact r5.2.symm
  have fc5 : m5.fc = 0 := by rw [e5]; exact fc3
  have st35 : SameTopo m3 m5 := by rw [e5]; exact SameTopo.setA _ _ _ _
  have at5 : ∀ x, m5.att stVA x = m3.att stVA x := fun x => by rw [e5, Map.att_setA]; simp [stVA]
  have V5 : ∀ x, vvalT stVA m5 x = vvalT stVA m2 x := fun x => by
    rw [vvalT_of_sameTopo st35 at5, vvalT_of_sameTopo st23 at3]
  have b5 : m5.β = F := by rw [β_of_sameTopo st35, β_of_sameTopo st23]; exact b2
  have F2 : F 2 e = 0 ∧ F 2 nd1 = nd2 ∧ F 2 nd3 = 0 ∧ F 2 (m.β 1 e) = m.β 2 (m.β 1 e) := by
    rw [hF]
    simp [lnk1, lnk2, upd_apply, h2e, sb 2, d3, d4, d7, d8, d13, Ne.symm d13, Ne.symm d14, Ne.symm d15, Ne.symm d3,
      Ne.symm d4, Ne.symm d7, Ne.symm d8, d14, d15]
  have v0e : m3.β 0 e = m.β 0 e := by
    rw [β_of_sameTopo st23, b2, hF]; simp [lnk1, lnk2, upd_apply, Ne.symm d5, Ne.symm d4, Ne.symm d3]
  have v1e3 : m3.β 1 e = m.β 1 e := by
    rw [β_of_sameTopo st23, b2, hF]; simp [lnk1, lnk2, upd_apply, Ne.symm d5, Ne.symm d4, Ne.symm d3]
  rw [v0e, v1e3] at h
  -- the two unsews
  obtain ⟨_, m6, r6, h⟩ := run_bind_ok h
  obtain ⟨I6, fc6, b6, v6⟩ := unsewT_step cfg hV hA I5 fc5 Le r6
  obtain ⟨_, m7, r7, h⟩ := run_bind_ok h
  obtain ⟨I7, fc7, b7, v7⟩ := unsewT_step cfg hV hA I6 fc6 La r7
  have V7 : ∀ x, x ≠ 0 → x < m.n → vvalT stVA m7 x = vvalT stVA m2 x := fun x x0 xn => by
    rw [v7 x x0 xn, v6 x x0 xn, V5]
  have B7 : ∀ x, m7.β 2 x = F 2 x := fun x => by rw [b7, b6, b5]
  -- the four sews
  obtain ⟨_, m8, r8, h⟩ := run_bind_ok h
  obtain ⟨I8, fc8, b8, mo8, _, z8, _, _⟩ := sewT_step cfg hV hA I7 fc7 Le L1 r8
  obtain ⟨_, m9, r9, h⟩ := run_bind_ok h
  obtain ⟨I9, fc9, b9, mo9, n9, _, _, w9⟩ := sewT_step cfg hV hA I8 fc8 L1 Lb r9
  obtain ⟨_, m10, r10, h⟩ := run_bind_ok h
  obtain ⟨I10, fc10, b10, mo10, _, z10, _, _⟩ := sewT_step cfg hV hA I9 fc9 L3 La r10
  obtain ⟨_, m11, r11, h⟩ := run_bind_ok h
  obtain ⟨I11, fc11, b11, mo11, n11, z11, k11, w11⟩ := sewT_step cfg hV hA I10 fc10 La L2 r11
  have B8 : ∀ x, m8.β 2 x = F 2 x := fun x => by rw [b8, B7]
  have B9 : ∀ x, m9.β 2 x = F 2 x := fun x => by rw [b9, B8]
  have B10 : ∀ x, m10.β 2 x = F 2 x := fun x => by rw [b10, B9]
  rw [B7, F2.1] at z8
  rw [B8, F2.2.1] at n9 w9
  rw [B9, F2.2.2.1] at z10
  rw [B10, F2.2.2.2] at n11 z11 w11
  -- the anchor blocks
  obtain ⟨_, m12, r12, h⟩ := run_bind_ok h
  have st12 := AttrOnly.run_ok (ao_spreadFaceAnchor cfg m.n fa' nd1 nd2) r12
  have st13 := AttrOnly.run_ok (ao_spreadEdgeAnchorOuter cfg m.n ea nd1 nd3) h
  have I12 := inv_attrOnly (ao_spreadFaceAnchor cfg m.n fa' nd1 nd2) I11 r12
  have stF : SameTopo m11 m' := st12.trans st13
  -- the final colouring
  obtain ⟨K, hKdef⟩ : ∃ K : Nat → Nat, K = fun x => cellId m' .vertex x := ⟨_, rfl⟩
  have Kx : ∀ x, K x = cellId m' .vertex x := fun x => by rw [hKdef]
  have n11' := I11.n_eq
  have hK11 : ∀ x y, x ≠ 0 → x < m.n → y ≠ 0 → y < m.n → VC m11 x y → K x = K y := by
    intro x y x0 xn y0 yn hc
    rw [Kx, Kx, vid_of_sameTopo stF, vid_of_sameTopo stF]
    exact (vid_of_vc I11.wf x0 (by rw [n11']; exact xn) y0 (by rw [n11']; exact yn)).2 hc
  have hK10 : ∀ x y, x ≠ 0 → x < m.n → y ≠ 0 → y < m.n → VC m10 x y → K x = K y :=
    fun x y x0 xn y0 yn hc => hK11 x y x0 xn y0 yn (mo11 _ _ hc)
  have hK8 : ∀ x y, x ≠ 0 → x < m.n → y ≠ 0 → y < m.n → VC m8 x y → K x = K y :=
    fun x y x0 xn y0 yn hc => hK10 x y x0 xn y0 yn (mo10 _ _ (mo9 _ _ hc))
  have hm : min nd1 nd3 = nd1 ∨ min nd1 nd3 = nd3 := by
    rcases Nat.le_total nd1 nd3 with hh | hh
    · exact Or.inl (Nat.min_eq_left hh)
    · exact Or.inr (Nat.min_eq_right hh)
  have Kne : ∀ x, x ≠ 0 → x < m.n → x ≠ nd1 → x ≠ nd3 → K x ≠ K nd1 := by
    intro x x0 xn x1 x3 hh
    have o := others x x0 (by rw [hn']; exact xn) x1 x3
    rw [Kx, Kx, hcid] at hh
    rcases hm with hm | hm <;> rw [hm] at hh
    · exact o.1 hh
    · exact o.2 hh
  have Kn2 : K nd2 = K (m.β 0 e) := by rw [Kx, Kx]; exact c2
  have sameM : ∀ x y, x ≠ 0 → x < m.n → y ≠ 0 → y < m.n → x ∉ [nd1, nd2, nd3] → y ∉ [nd1, nd2, nd3] → K x = K y →
      vvalT stVA m x = vvalT stVA m y := by
    intro x y x0 xn y0 yn hx hy hk
    rw [Kx, Kx] at hk
    have := (part x y x0 xn y0 yn hx hy).1 hk
    unfold vvalT; rw [this]
  have bT : m.β 0 e ∉ [nd1, nd2, nd3] := by simp [d10, d11, d12]
  have V8 : ∀ x, x ≠ 0 → x < m.n → vvalT stVA m8 x = vvalT stVA m2 x := fun x x0 xn => by
    rw [z8 rfl x x0 xn, V7 x x0 xn]
  have V8b : vvalT stVA m8 (m.β 0 e) = vvalT stVA m (m.β 0 e) := by rw [V8 _ hb hbn, V2old _ hb hbn bT]
  have S9 := w9 s2.1.1 (Or.inr (by rw [V8 _ s2.1.1 s2.1.2.1]; exact V2n2))
  have old9 : ∀ x, x ≠ 0 → x < m.n → x ∉ [nd1, nd2, nd3] → vvalT stVA m9 x = vvalT stVA m x := by
    intro x x0 xn hx
    by_cases hc : VC m8 x nd2
    · rw [(S9 x x0 xn).1 hc, V8b]
      have : K x = K (m.β 0 e) := by rw [← Kn2]; exact hK8 _ _ x0 xn s2.1.1 s2.1.2.1 hc
      exact (sameM x _ x0 xn hb hbn hx bT this).symm
    · rw [(S9 x x0 xn).2 hc, V8 x x0 xn, V2old x x0 xn hx]
  have n1_9 : vvalT stVA m9 nd1 = none := by
    have : ¬ VC m8 nd1 nd2 := fun hc =>
      Kne nd2 s2.1.1 s2.1.2.1 (Ne.symm d13) d15 (hK8 _ _ s1.1.1 s1.1.2.1 s2.1.1 s2.1.2.1 hc).symm
    rw [(S9 nd1 s1.1.1 s1.1.2.1).2 this, V8 _ s1.1.1 s1.1.2.1]; exact V2n1
  have n2_9 : vvalT stVA m9 nd2 = vvalT stVA m (m.β 0 e) := by
    rw [(S9 nd2 s2.1.1 s2.1.2.1).1 (.refl _), V8b]
  have V10 : ∀ x, x ≠ 0 → x < m.n → vvalT stVA m10 x = vvalT stVA m9 x := fun x x0 xn => z10 rfl x x0 xn
  have xaT : m.β 2 (m.β 1 e) ∉ [nd1, nd2, nd3] := by
    simp only [List.mem_cons, List.mem_nil_iff, not_or, or_false]
    exact ⟨beta_ne_spare hwf s1 2 _, beta_ne_spare hwf s2 2 _, beta_ne_spare hwf s3 2 _⟩
  have xan : m.β 2 (m.β 1 e) < m.n := hwf.range 2 (by omega) _ ha
  have fin11 : (∀ x, x ≠ 0 → x < m.n → x ∉ [nd1, nd2, nd3] → vvalT stVA m11 x = vvalT stVA m x) ∧
      vvalT stVA m11 nd1 = none := by
    by_cases xa0 : m.β 2 (m.β 1 e) = 0
    · refine ⟨fun x x0 xn hx => ?_, ?_⟩
      · rw [z11 xa0 x x0 xn, V10 x x0 xn, old9 x x0 xn hx]
      · rw [z11 xa0 _ s1.1.1 s1.1.2.1, V10 _ s1.1.1 s1.1.2.1]; exact n1_9
    · have vxa : vvalT stVA m10 (m.β 2 (m.β 1 e)) = vvalT stVA m (m.β 0 e) := by
        rw [V10 _ xa0 xan, old9 _ xa0 xan xaT]
        have : VC m (m.β 2 (m.β 1 e)) (m.β 0 e) :=
          Conn.fwd (.refl _) ⟨m.β 1 e, rfl, htri, xa0, hb⟩
        unfold vvalT
        rw [(vid_of_vc hwf xa0 xan hb hbn).2 this]
      have vn2 : vvalT stVA m10 nd2 = vvalT stVA m (m.β 0 e) := by rw [V10 _ s2.1.1 s2.1.2.1]; exact n2_9
      have S11 := w11 xa0 (Or.inl (by rw [vxa, vn2]))
      refine ⟨fun x x0 xn hx => ?_, ?_⟩
      · by_cases hc : VC m10 x (m.β 2 (m.β 1 e))
        · rw [(S11 x x0 xn).1 hc, vn2]
          have n10' := I10.n_eq
          have : vvalT stVA m10 x = vvalT stVA m10 (m.β 2 (m.β 1 e)) := by
            unfold vvalT
            rw [(vid_of_vc I10.wf x0 (by rw [n10']; exact xn) xa0 (by rw [n10']; exact xan)).2 hc]
          rw [← vxa, ← this, V10 x x0 xn, old9 x x0 xn hx]
        · rw [(S11 x x0 xn).2 hc, V10 x x0 xn, old9 x x0 xn hx]
      · rw [k11 K hK11 _ s1.1.1 s1.1.2.1 (Ne.symm (Kne nd2 s2.1.1 s2.1.2.1 (Ne.symm d13) d15)),
          V10 _ s1.1.1 s1.1.2.1]
        exact n1_9
  have at12 : ∀ x, m12.att stVA x = m11.att stVA x :=
    att_spreadFaceAnchor_ne (by simp [stVA, stFA]) (by simp [stVA, stEA]) r12
  have n12 : m12.n = m.n := I12.n_eq
  -- the last block writes the new vertex
  have last : ∀ x, m'.att stVA x = if x = K nd1 ∧ ea.isSome then ea.map edgeToVertexVal else m12.att stVA x := by
    clear hea
    cases ea with
    | none =>
        simp only [spreadEdgeAnchorOuter, Prog.pure_eq, run_ret, Prod.mk.injEq, true_and] at h
        subst h
        intro x; simp
    | some a' =>
        simp only [spreadEdgeAnchorOuter] at h
        obtain ⟨vid', hv', h⟩ := ro_bind_ok (readOnly_vertexId2 _ _) h
        obtain ⟨_, md, rd', h⟩ := run_bind_ok h
        obtain ⟨eid, _, h⟩ := ro_bind_ok (readOnly_edgeId2 _) h
        obtain ⟨_, me, re, h⟩ := run_bind_ok h
        simp only [Prog.pure_eq, run_ret, Prod.mk.injEq, true_and] at h
        subst h
        have := (C03_vertexId2_min I12.wf s1.1.1 (by rw [n12]; exact s1.1.2.1)).1
        rw [n12] at this
        have ev : vid' = K nd1 := by
          rw [run_inj hv' this, Kx, ← vid_of_sameTopo st13]
        intro x
        rw [att_writeAttr_ne (by simp [stVA, stEA]) re x]
        rcases writeAttr_ok rd' with ⟨hf, _⟩ | ⟨_, okd, rfl⟩
        · rw [hreg] at hf; exact absurd hf (by simp)
        rw [Map.att_setA, ev]
        rw [ev] at okd
        by_cases hx : K nd1 = x
        · subst hx; simp [okd]
        · have hx' : ¬ x = K nd1 := fun hh => hx hh.symm
          simp [hx, hx']
  refine ⟨?_, hcid, c3, c2, ?_⟩
  · intro x x0 xn hx
    have hx' := hx
    simp only [List.mem_cons, List.mem_nil_iff, not_or, or_false] at hx'
    have kne := Kne x x0 xn hx'.1 hx'.2.2
    rw [← Kx, last, if_neg (fun hh => kne hh.1), at12, Kx, vid_of_sameTopo stF]
    exact fin11.1 x x0 xn hx
  · rw [← Kx, last]
    cases hea2 : ea with
    | none =>
        simp only [Option.isSome_none, Bool.false_eq_true, and_false, if_false, Option.map_none]
        rw [at12, Kx, vid_of_sameTopo stF]
        exact fin11.2
    | some a' => simp


theorem att_spreadEdgeAnchorOuter_ne {cfg : Cfg Val} {k a b t : Nat} {ea : Option Val} {m m' : Map Val}
    (h1 : t = stVA → regd cfg stVA = false) (h2 : t ≠ stEA)
    (h : run (spreadEdgeAnchorOuter cfg k ea a b) m = (.ok (), m')) : ∀ i, m'.att t i = m.att t i := by
  intro i
  cases ea with
  | none =>
      simp only [spreadEdgeAnchorOuter, Prog.pure_eq, run_ret, Prod.mk.injEq, true_and] at h
      rw [h]
  | some v =>
      simp only [spreadEdgeAnchorOuter] at h
      obtain ⟨_, _, h⟩ := ro_bind_ok (readOnly_vertexId2 _ _) h
      obtain ⟨_, md, rd', h⟩ := run_bind_ok h
      obtain ⟨_, _, h⟩ := ro_bind_ok (readOnly_edgeId2 _) h
      obtain ⟨_, me, re, h⟩ := run_bind_ok h
      simp only [Prog.pure_eq, run_ret, Prod.mk.injEq, true_and] at h
      rw [← h, att_writeAttr_ne h2 re i]
      rcases writeAttr_ok rd' with ⟨_, rfl⟩ | ⟨hr, _, rfl⟩
      · rfl
      · rw [Map.att_setA]
        by_cases ht : t = stVA
        · rw [h1 ht] at hr; exact absurd hr (by simp)
        · simp [Ne.symm ht]

/-- **C15 (anchors), cut_outer_edge, every other storage**: a storage `t` that is not vertex-bound and is neither the
    EdgeAnchor nor the FaceAnchor storage (their absent case is part of `C15_cutOuter_edge_face_anchors`: `fa = ea = none`)
    nor a REGISTERED VertexAnchor storage keeps EVERY slot — in particular storage 6 of a map without VertexAnchor
    storage, and the edge / face / volume test attributes -/
theorem C15_cutOuter_other_storages (cfg : Cfg Val) (m m' : Map Val) (e nd1 nd2 nd3 t : Nat) (hfc : m.fc = 0)
    (h : run (cutOuterEdge cfg m.n e nd1 nd2 nd3) m = (.ok (), m'))
    (ht : t ∉ vStores cfg) (htF : t ≠ stFA) (htE : t ≠ stEA) (htV : t = stVA → regd cfg stVA = false) :
    ∀ x, m'.att t x = m.att t x := by
  have t0 : t ≠ 0 := fun hh => ht (by simp [vStores, hh])
  unfold cutOuterEdge at h
  obtain ⟨_, m1, r1, h⟩ := run_bind_ok h
  obtain ⟨_, m2, r2, h⟩ := run_bind_ok h
  have fc2 : m2.fc = 0 := by rw [(link1_fc r2).1, (linkI_fc r1).1]; exact hfc
  have at2 : ∀ x, m2.att t x = m.att t x := fun x => by rw [(link1_fc r2).2.1, (linkI_fc r1).2.1]
  obtain ⟨fa, m3, r3, h⟩ := run_bind_ok h
  obtain ⟨fc3', _⟩ := keeps0_takeFaceAnchor cfg m.n e m2 m3 fa r3
  have fc3 : m3.fc = 0 := by rw [fc3']; exact fc2
  have at3 := att_takeFaceAnchor_ne htF r3
  obtain ⟨ea, _, h⟩ := ro_bind_ok (ro_peekEdgeAnchor cfg e) h
  obtain ⟨_, h⟩ := HC.C15.rB_ok h
  obtain ⟨_, h⟩ := HC.C15.rB_ok h
  obtain ⟨vid1, _, h⟩ := ro_bind_ok (readOnly_vertexId2 _ _) h
  obtain ⟨vid2, _, h⟩ := ro_bind_ok (readOnly_vertexId2 _ _) h
  obtain ⟨newV, _, h⟩ := ro_bind_ok (ro_midpointOrRetry _ _) h
  obtain ⟨vid, _, h⟩ := ro_bind_ok (readOnly_vertexId2 _ _) h
  obtain ⟨old, m5, r5, h⟩ := run_bind_ok h
  have e5 : m5 = m3.setA 0 vid (some newV) := by
    unfold writeVtx at r5
    obtain ⟨_, r5⟩ := rA_ok r5
    obtain ⟨_, r5⟩ := wA_ok r5
    simp at r5
    exact r5.2.symm
  have fc5 : m5.fc = 0 := by rw [e5]; exact fc3
  have at5 : ∀ x, m5.att t x = m3.att t x := fun x => by rw [e5, Map.att_setA]; simp [Ne.symm t0]
  obtain ⟨_, m6, r6, h⟩ := run_bind_ok h
  obtain ⟨fc6, at6⟩ := att_other_oneUnsew2 cfg fc5 ht r6
  obtain ⟨_, m7, r7, h⟩ := run_bind_ok h
  obtain ⟨fc7, at7⟩ := att_other_oneUnsew2 cfg fc6 ht r7
  obtain ⟨_, m8, r8, h⟩ := run_bind_ok h
  obtain ⟨fc8, at8⟩ := att_other_oneSew2 cfg fc7 ht r8
  obtain ⟨_, m9, r9, h⟩ := run_bind_ok h
  obtain ⟨fc9, at9⟩ := att_other_oneSew2 cfg fc8 ht r9
  obtain ⟨_, m10, r10, h⟩ := run_bind_ok h
  obtain ⟨fc10, at10⟩ := att_other_oneSew2 cfg fc9 ht r10
  obtain ⟨_, m11, r11, h⟩ := run_bind_ok h
  obtain ⟨fc11, at11⟩ := att_other_oneSew2 cfg fc10 ht r11
  obtain ⟨_, m12, r12, h⟩ := run_bind_ok h
  have at12 := att_spreadFaceAnchor_ne htF htE r12
  have at13 := att_spreadEdgeAnchorOuter_ne htV htE h
  intro x
  rw [at13, at12, at11, at10, at9, at8, at7, at6, at5, at3, at2]


/-! ## cut_inner_edge -/

/-- a 2-unsew only splits the edge-bound and the vertex-bound storages -/
theorem att_other_twoUnsew2 (cfg : Cfg Val) {n l t : Nat} {s s' : Map Val} (hfc : s.fc = 0) (ht : t ∉ vStores cfg)
    (hte : t ∉ eStores cfg) (hrun : run (twoUnsew2 cfg n l) s = (.ok (), s')) :
    s'.fc = 0 ∧ ∀ x, s'.att t x = s.att t x := by
  obtain ⟨eold, m1, me, _, hcore, spE, _, cases⟩ := C04_twoUnsew2_effect cfg n l s s' () hfc hrun
  have fc1 := unlinkI_fc hcore
  have fce : me.fc = 0 := by rw [spE.fc, fc1.1]; exact hfc
  have ate : ∀ x, me.att t x = s.att t x := fun x => by rw [spE.other t x hte, fc1.2.1]
  rcases cases with ⟨_, _, rfl⟩ | ⟨_, _, _, _, _, _, _, _, sp⟩ | ⟨_, _, _, _, _, _, _, _, sp⟩ |
    ⟨_, _, _, _, _, _, _, _, mv, _, _, _, _, _, _, sp1, sp2⟩
  · exact ⟨fce, ate⟩
  · exact ⟨by rw [sp.fc]; exact fce, fun x => by rw [sp.other t x ht, ate]⟩
  · exact ⟨by rw [sp.fc]; exact fce, fun x => by rw [sp.other t x ht, ate]⟩
  · exact ⟨by rw [sp2.fc, sp1.fc]; exact fce, fun x => by rw [sp2.other t x ht, sp1.other t x ht, ate]⟩

/-- a 2-sew of two 1-free darts only merges the edge-bound storages -/
theorem att_other_twoSew2_free (cfg : Cfg Val) {n l r t : Nat} {s s' : Map Val} (hfc : s.fc = 0)
    (hte : t ∉ eStores cfg) (hl0 : s.β 1 l = 0) (hr0 : s.β 1 r = 0)
    (hrun : run (twoSew2 cfg n l r) s = (.ok (), s')) : s'.fc = 0 ∧ ∀ x, s'.att t x = s.att t x := by
  obtain ⟨m1, eid, hcore, _, mg⟩ := C04_twoSew2_free cfg n l r s s' () hfc hl0 hr0 hrun
  have fc1 := linkI_fc hcore
  exact ⟨by rw [mg.fc, fc1.1]; exact hfc, fun x => by rw [mg.other t x hte, fc1.2.1]⟩

/-- the block `if let Some(a) = f_anchor { … }` of the cuts, slot by slot: the two faces of `nda`, `ndb` get the anchor, the
    edge of `nda` the derived edge anchor when the EdgeAnchor storage exists -/
theorem spreadFaceAnchor_att (cfg : Cfg Val) {n : Nat} {u : Array Bool} {s s' : Map Val} (I : Inv n u s)
    {fa : Option Val} {nda ndb : Nat} (hreg : fa.isSome → regd cfg stFA = true)
    (ha0 : nda ≠ 0) (han : nda < n) (hb0 : ndb ≠ 0) (hbn : ndb < n)
    (hrun : run (spreadFaceAnchor cfg n fa nda ndb) s = (.ok (), s')) :
    (∀ x, s'.att stFA x = spreadFA (s.att stFA) fa (cellId s .face nda) (cellId s .face ndb) x) ∧
    (∀ x, s'.att stEA x = spreadEA (s.att stEA) (if regd cfg stEA then fa else none) (cellId s .edge nda) x) := by
  have hn := I.n_eq
  cases fa with
  | none =>
      simp only [spreadFaceAnchor, Prog.pure_eq, run_ret, Prod.mk.injEq, true_and] at hrun
      subst hrun
      exact ⟨fun x => rfl, fun x => by simp [spreadEA]⟩
  | some a =>
      have hrF := hreg rfl
      simp only [spreadFA]
      simp only [spreadFaceAnchor] at hrun
      obtain ⟨fid1, hf1, hrun⟩ := ro_bind_ok (readOnly_faceId2 _ _) hrun
      obtain ⟨fid2, hf2, hrun⟩ := ro_bind_ok (readOnly_faceId2 _ _) hrun
      have := (C03_faceId2_min I.wf ha0 (by rw [hn]; exact han)).1
      rw [hn] at this
      have ef1 : fid1 = cellId s .face nda := run_inj hf1 this
      have := (C03_faceId2_min I.wf hb0 (by rw [hn]; exact hbn)).1
      rw [hn] at this
      have ef2 : fid2 = cellId s .face ndb := run_inj hf2 this
      obtain ⟨_, ma, ra, hrun⟩ := run_bind_ok hrun
      obtain ⟨_, mb, rb, hrun⟩ := run_bind_ok hrun
      rcases writeAttr_ok ra with ⟨hf, _⟩ | ⟨_, oka, rfl⟩
      · rw [hrF] at hf; exact absurd hf (by simp)
      rcases writeAttr_ok rb with ⟨hf, _⟩ | ⟨_, okb, rfl⟩
      · rw [hrF] at hf; exact absurd hf (by simp)
      have attF : ∀ x, ((s.setA stFA fid1 (some a)).setA stFA fid2 (some a)).att stFA x =
          if x = cellId s .face ndb ∨ x = cellId s .face nda then some a else s.att stFA x := by
        intro x
        rw [Map.att_setA, Map.att_setA, ef1, ef2]
        rw [ef1] at oka
        rw [ef1, ef2, Map.okA_setA] at okb
        simp only [Map.okA_setA]
        by_cases x2 : cellId s .face ndb = x
        · subst x2; simp [okb]
        · have x2' : ¬ x = cellId s .face ndb := fun hh => x2 hh.symm
          by_cases x1 : cellId s .face nda = x
          · subst x1; simp [x2, x2', oka]
          · have x1' : ¬ x = cellId s .face nda := fun hh => x1 hh.symm
            simp [x1, x2, x1', x2']
      have attE0 : ∀ x, ((s.setA stFA fid1 (some a)).setA stFA fid2 (some a)).att stEA x = s.att stEA x := by
        intro x; rw [Map.att_setA, Map.att_setA]; simp [stFA, stEA]
      by_cases hrE : regd cfg stEA = true
      · rw [if_pos hrE] at hrun ⊢
        simp only [spreadEA]
        obtain ⟨eid, heid, hrun⟩ := ro_bind_ok (readOnly_edgeId2 _) hrun
        have ee : eid = cellId s .edge nda := by
          rw [run_edgeId2] at heid
          rw [edgeId_eq I.wf ha0 (by rw [hn]; exact han)]
          have hβ : ((s.setA stFA fid1 (some a)).setA stFA fid2 (some a)).β = s.β :=
            β_of_sameTopo ((SameTopo.setA _ _ _ _).trans (SameTopo.setA _ _ _ _))
          by_cases hb' : ((s.setA stFA fid1 (some a)).setA stFA fid2 (some a)).okβ 2 nda = true
          · simp only [hb', if_true, Prod.mk.injEq, Out.ok.injEq] at heid
            rw [← heid.1, hβ]
          · simp [hb'] at heid
        obtain ⟨_, mc, rc, hrun⟩ := run_bind_ok hrun
        simp only [Prog.pure_eq, run_ret, Prod.mk.injEq, true_and] at hrun
        subst hrun
        rcases writeAttr_ok rc with ⟨hf, _⟩ | ⟨_, okc, rfl⟩
        · rw [hrE] at hf; exact absurd hf (by simp)
        refine ⟨fun x => ?_, fun x => ?_⟩
        · rw [Map.att_setA]
          simp only [stEA, stFA, Nat.reduceEqDiff, false_and, if_false]
          exact attF x
        · rw [Map.att_setA, ee]
          rw [ee] at okc
          by_cases hx : cellId s .edge nda = x
          · subst hx; simp [okc]
          · have hx' : ¬ x = cellId s .edge nda := fun hh => hx hh.symm
            simp only [hx, hx', and_false, false_and, if_false]
            exact attE0 x
      · rw [if_neg hrE] at hrun ⊢
        simp only [spreadEA]
        simp only [Prog.pure_eq, run_ret, Prod.mk.injEq, true_and] at hrun
        subst hrun
        exact ⟨attF, attE0⟩


theorem eanchor_code_ofCode {x : Nat} {p : EdgeAnchor} (h : EdgeAnchor.ofCode x = some p) : p.code = x := by
  unfold EdgeAnchor.ofCode at h
  split at h <;> simp at h <;> subst h <;> simp [EdgeAnchor.code, EdgeAnchor.id, EdgeAnchor.dim] <;> omega

theorem anchorLike_E : AnchorLike anchorLawE := by
  refine ⟨?_, ?_, ?_, ?_⟩
  · intro o a b h
    cases o with
    | none => simp [splitVal, anchorLawE, anchorLawOf, EdgeAnchor.splitFromNone] at h
    | some v =>
        simp only [splitVal, anchorLawE, anchorLawOf] at h
        split at h
        · rename_i x
          cases hp : EdgeAnchor.ofCode x with
          | none => simp [hp] at h
          | some p =>
              simp [hp, EdgeAnchor.split] at h
              have := eanchor_code_ofCode hp
              rw [this] at h
              exact ⟨by rw [h.1], by rw [← h.1, h.2]⟩
        · simp at h
  · intro v h
    simp [anchorLawE, anchorLawOf, EdgeAnchor.mergeFromNone] at h
  · intro v w h
    simp only [anchorLawE, anchorLawOf] at h
    split at h
    · rename_i x
      cases hp : EdgeAnchor.ofCode x with
      | none => simp [hp] at h
      | some p =>
          simp [hp, EdgeAnchor.mergeIncomplete] at h
          rw [eanchor_code_ofCode hp] at h
          exact h.symm
    · simp at h
  · intro v w h
    cases v with
    | pt a b c => simp [anchorLawE, anchorLawOf] at h
    | tm t =>
        cases t with
        | leaf x =>
            simp only [anchorLawE, anchorLawOf] at h
            cases hp : EdgeAnchor.ofCode x with
            | none => simp [hp] at h
            | some p =>
                simp [hp, C15_eanchor_merge_idem] at h
                rw [eanchor_code_ofCode hp] at h
                exact h.symm
        | _ => simp [anchorLawE, anchorLawOf] at h

/-- **2-unsew, an edge-bound anchor storage**: the anchor of the edge (it must be defined) is copied to both darts -/
theorem edge_att_twoUnsew2 (cfg : Cfg Val) {n l t : Nat} {s s' : Map Val} (hw : WF 3 s) (hfc : s.fc = 0)
    (ht : t ∉ vStores cfg) (hte : t ∈ eStores cfg) (hA : AnchorLike (cfg.law t)) (ln : l < s.n)
    (hrun : run (twoUnsew2 cfg n l) s = (.ok (), s')) :
    s'.fc = 0 ∧ ∃ A, s.att t (min (s.β 2 l) l) = some A ∧
      ∀ x, s'.att t x = if x = l ∨ x = s.β 2 l then some A else s.att t x := by
  obtain ⟨eold, m1, me, heold, hcore, spE, _, cases⟩ := C04_twoUnsew2_effect cfg n l s s' () hfc hrun
  obtain ⟨h2, _⟩ := step_twoUnlinkCore hcore
  have fc1 := unlinkI_fc hcore
  have fce : me.fc = 0 := by rw [spE.fc, fc1.1]; exact hfc
  have lne : l ≠ s.β 2 l := fun hh => (hw.invol 2 (by omega) (by omega) l ln h2).2 hh.symm
  have eo : eold = min (s.β 2 l) l := by
    rw [run_edgeId2] at heold
    by_cases hb : s.okβ 2 l = true
    · simp only [hb, if_true, Prod.mk.injEq, Out.ok.injEq, h2, if_false] at heold
      exact heold.1.symm
    · simp [hb] at heold
  obtain ⟨a, b, hs, hb', ha'⟩ := spE.split lne t hte
  rw [fc1.2.1] at hs
  obtain ⟨k1, k2⟩ := hA.split _ _ _ hs
  have ate : ∀ x, me.att t x = if x = l ∨ x = s.β 2 l then some a else s.att t x := by
    intro x
    by_cases x1 : x = l
    · rw [x1, ha']; simp
    · by_cases x2 : x = s.β 2 l
      · rw [x2, hb', k2]; simp
      · have x3 : x ≠ eold := by
          rw [eo]; intro hh
          rcases Nat.le_total (s.β 2 l) l with h' | h'
          · rw [Nat.min_eq_left h'] at hh; exact x2 hh
          · rw [Nat.min_eq_right h'] at hh; exact x1 hh
        rw [spE.frame t x hte x1 x2 x3, fc1.2.1]; simp [x1, x2]
  have done : ∀ mm : Map Val, (∀ x, mm.att t x = me.att t x) → mm.fc = 0 →
      mm.fc = 0 ∧ ∃ A, s.att t (min (s.β 2 l) l) = some A ∧
        ∀ x, mm.att t x = if x = l ∨ x = s.β 2 l then some A else s.att t x :=
    fun mm hmm hf => ⟨hf, a, by rw [← eo]; exact k1, fun x => by rw [hmm, ate]⟩
  rcases cases with ⟨_, _, rfl⟩ | ⟨_, _, _, _, _, _, _, _, sp⟩ | ⟨_, _, _, _, _, _, _, _, sp⟩ |
    ⟨_, _, _, _, _, _, _, _, mv, _, _, _, _, _, _, sp1, sp2⟩
  · exact done _ (fun _ => rfl) fce
  · exact done _ (fun x => sp.other t x ht) (by rw [sp.fc]; exact fce)
  · exact done _ (fun x => sp.other t x ht) (by rw [sp.fc]; exact fce)
  · exact done _ (fun x => by rw [sp2.other t x ht, sp1.other t x ht]) (by rw [sp2.fc, sp1.fc]; exact fce)

/-- **2-sew of two 1-free darts, an edge-bound anchor storage**: `l` carries `A`, `r` nothing: the new edge carries `A` -/
theorem edge_att_twoSew2_free (cfg : Cfg Val) {n l r t : Nat} {s s' : Map Val} (hfc : s.fc = 0)
    (hte : t ∈ eStores cfg) (hA : AnchorLike (cfg.law t)) (hl0 : s.β 1 l = 0) (hr0 : s.β 1 r = 0) (hlr : l ≠ r)
    (r0 : r ≠ 0) {A : Val} (hal : s.att t l = some A) (har : s.att t r = none)
    (hrun : run (twoSew2 cfg n l r) s = (.ok (), s')) :
    s'.fc = 0 ∧ ∀ x, s'.att t x = if x = min r l then some A else if x = l ∨ x = r then none else s.att t x := by
  obtain ⟨m1, eid, hcore, heid, mg⟩ := C04_twoSew2_free cfg n l r s s' () hfc hl0 hr0 hrun
  obtain ⟨_, _, sc⟩ := step_twoLinkCore hcore
  have fc1 := linkI_fc hcore
  have b2l : m1.β 2 l = r := by rw [sc.β]; simp [lnk2, upd_apply, hlr, Ne.symm hlr]
  have ee : eid = min r l := by
    rw [run_edgeId2] at heid
    by_cases hb : m1.okβ 2 l = true
    · simp only [hb, if_true, Prod.mk.injEq, Out.ok.injEq, b2l, r0, if_false] at heid
      exact heid.1.symm
    · simp [hb] at heid
  obtain ⟨v, hv, hout⟩ := mg.merged hlr t hte
  rw [fc1.2.1, fc1.2.1, hal, har] at hv
  have hvA : v = A := hA.inc A v hv
  refine ⟨by rw [mg.fc, fc1.1]; exact hfc, fun x => ?_⟩
  by_cases x0 : x = min r l
  · rw [x0, ← ee, hout, hvA]; simp
  · rw [if_neg x0]
    by_cases x1 : x = l ∨ x = r
    · rw [if_pos x1]; exact mg.cleared t x hte (by rw [ee]; exact x0) x1
    · rw [if_neg x1]
      have x1' : x ≠ l ∧ x ≠ r := ⟨fun hh => x1 (Or.inl hh), fun hh => x1 (Or.inr hh)⟩
      rw [mg.frame t x hte (by rw [ee]; exact x0) x1'.1 x1'.2, fc1.2.1]


/-- the FaceAnchor storage after an inner cut: the anchors `lfa`, `rfa` found at the identifiers `FL`, `FR` of the two cut
    faces (removed there) are written at the identifiers `F1, F2` (left) and `F3, F4` (right) of the four new faces -/
def innerFaceAnchorsAfter (old : Nat → Option Val) (lfa rfa : Option Val) (FL FR F1 F2 F3 F4 x : Nat) : Option Val :=
  spreadFA (spreadFA (fun y => if (rfa.isSome ∧ y = FR) ∨ (lfa.isSome ∧ y = FL) then none else old y) lfa F1 F2)
    rfa F3 F4 x

/-- **C15 (anchors), cut_inner_edge, the FaceAnchor storage — present or not**: on ANY well-formed 2-map (no fault
    injected), after a successful `cut_inner_edge(e, [n1 … n6])` on an interior edge whose two faces are closed triangles,
    free in-use spare darts in any numbering, the storage being neither vertex- nor edge-bound: with `lfa` / `rfa` the
    FaceAnchors found at the identifiers `FL = min(e, a, b)`, `FR = min(r, c, d)` of the two cut faces (`none` without the
    storage), EVERY slot of the storage is given by `innerFaceAnchorsAfter`: the identifiers of the two new LEFT faces
    hold `lfa`, those of the two new RIGHT faces hold `rfa` (each side independently, only when defined), the old
    identifiers are emptied, every other slot is unchanged; with both undefined NO slot changes.  Independent of the
    EdgeAnchor / VertexAnchor storages.  The identifiers are those of the RESULTING map (first conjunct). -/
theorem C15_cutInner_face_anchors (cfg : Cfg Val) (m m' : Map Val) (e n1 n2 n3 n4 n5 n6 : Nat) (hwf : WF 3 m)
    (hfc : m.fc = 0) (he : C01.InUse m e)
    (h : run (cutInnerEdge cfg m.n e n1 n2 n3 n4 n5 n6) m = (.ok (), m'))
    (hr0 : m.β 2 e ≠ 0)
    (htl : m.β 1 (m.β 1 e) = m.β 0 e) (hb : m.β 0 e ≠ 0)
    (htr : m.β 1 (m.β 1 (m.β 2 e)) = m.β 0 (m.β 2 e)) (hd : m.β 0 (m.β 2 e) ≠ 0)
    (hs : ∀ x, x ∈ [n1, n2, n3, n4, n5, n6] → Spare m x)
    (hnd : [e, m.β 2 e, m.β 1 e, m.β 0 e, m.β 1 (m.β 2 e), m.β 0 (m.β 2 e), n1, n2, n3, n4, n5, n6].Nodup)
    (hFv : stFA ∉ vStores cfg) (hFe : stFA ∉ eStores cfg) {lfa rfa : Option Val}
    (hlfa : lfa = if regd cfg stFA then m.att stFA (min e (min (m.β 1 e) (m.β 0 e))) else none)
    (hrfa : rfa = if regd cfg stFA then
      m.att stFA (min (m.β 2 e) (min (m.β 1 (m.β 2 e)) (m.β 0 (m.β 2 e)))) else none) :
    (cellId m .face e = min e (min (m.β 1 e) (m.β 0 e)) ∧
      cellId m .face (m.β 2 e) = min (m.β 2 e) (min (m.β 1 (m.β 2 e)) (m.β 0 (m.β 2 e))) ∧
      cellId m' .face e = min e (min n1 (m.β 0 e)) ∧ cellId m' .face n3 = min n3 (min (m.β 1 e) n2) ∧
      cellId m' .face (m.β 2 e) = min (m.β 2 e) (min n4 (m.β 0 (m.β 2 e))) ∧
      cellId m' .face n6 = min n6 (min (m.β 1 (m.β 2 e)) n5)) ∧
    ∀ x, m'.att stFA x = innerFaceAnchorsAfter (m.att stFA) lfa rfa
      (min e (min (m.β 1 e) (m.β 0 e))) (min (m.β 2 e) (min (m.β 1 (m.β 2 e)) (m.β 0 (m.β 2 e))))
      (min e (min n1 (m.β 0 e))) (min n3 (min (m.β 1 e) n2))
      (min (m.β 2 e) (min n4 (m.β 0 (m.β 2 e)))) (min n6 (min (m.β 1 (m.β 2 e)) n5)) x := by
  obtain ⟨FL, hFL⟩ : ∃ FL, FL = min e (min (m.β 1 e) (m.β 0 e)) := ⟨_, rfl⟩
  obtain ⟨FR, hFR⟩ : ∃ FR, FR = min (m.β 2 e) (min (m.β 1 (m.β 2 e)) (m.β 0 (m.β 2 e))) := ⟨_, rfl⟩
  rw [← hFL] at hlfa ⊢
  rw [← hFR] at hrfa ⊢
  obtain ⟨hw', ⟨w1, w4, w7, w10⟩, ⟨x1, _, _, x4, x5, _, _, x8⟩, _, _⟩ :=
    C15_cutInner_faces cfg m m' e n1 n2 n3 n4 n5 n6 hwf he h hr0 htl hb htr hd hs hnd
  have hn := he.2.1
  have hr : m.β 2 e < m.n := hwf.range 2 (by omega) e hn
  have a0 : m.β 1 e ≠ 0 := fun hh => hb (by rw [← htl, hh]; exact hwf.null 1 (by omega))
  have c0 : m.β 1 (m.β 2 e) ≠ 0 := fun hh => hd (by rw [← htr, hh]; exact hwf.null 1 (by omega))
  have ha : m.β 1 e < m.n := hwf.range 1 (by omega) e hn
  have hc : m.β 1 (m.β 2 e) < m.n := hwf.range 1 (by omega) _ hr
  have hbn : m.β 0 e < m.n := hwf.range 0 (by omega) e hn
  have hdn : m.β 0 (m.β 2 e) < m.n := hwf.range 0 (by omega) _ hr
  have er := (hwf.invol 2 (by omega) (by omega) e hn hr0).1
  have hnd' := hnd
  simp only [List.nodup_cons, List.mem_cons, List.mem_nil_iff, not_or, or_false, List.nodup_nil, and_true] at hnd'
  obtain ⟨⟨q1, q2, q3, q4, q5, q6, q7, q8, q9, q10, q11⟩, ⟨q12, q13, q14, q15, q16, q17, q18, q19, q20, q21⟩, ⟨q22, q23, q24, q25, q26, q27, q28, q29, q30⟩, ⟨q31, q32, q33, q34, q35, q36, q37, q38⟩, ⟨q39, q40, q41, q42, q43, q44, q45⟩, ⟨q46, q47, q48, q49, q50, q51⟩, ⟨q52, q53, q54, q55, q56⟩, ⟨q57, q58, q59, q60⟩, ⟨q61, q62, q63⟩, ⟨q64, q65⟩, q66, _⟩ := hnd'
  have s1 := hs n1 (by simp); have s2 := hs n2 (by simp); have s3 := hs n3 (by simp)
  have s4 := hs n4 (by simp); have s5 := hs n5 (by simp); have s6 := hs n6 (by simp)
  have L1 : Live m.n m.u n1 := Live.of_inUse s1.1
  have L2 : Live m.n m.u n2 := Live.of_inUse s2.1
  have L3 : Live m.n m.u n3 := Live.of_inUse s3.1
  have L4 : Live m.n m.u n4 := Live.of_inUse s4.1
  have L5 : Live m.n m.u n5 := Live.of_inUse s5.1
  have L6 : Live m.n m.u n6 := Live.of_inUse s6.1
  have Le : Live m.n m.u e := Live.of_inUse he
  have Lr := live_image hwf (by omega : 2 < 3) hn hr0
  have La := live_image hwf (by omega : 1 < 3) hn a0
  have Lb := live_image hwf (by omega : 0 < 3) hn hb
  have Lc := live_image hwf (by omega : 1 < 3) hr c0
  have Ld := live_image hwf (by omega : 0 < 3) hr hd
  have z : ∀ i, m.β i 0 = 0 := beta_zero hwf
  have sb : ∀ i, m.β i n1 = 0 ∧ m.β i n2 = 0 ∧ m.β i n3 = 0 ∧ m.β i n4 = 0 ∧ m.β i n5 = 0 ∧ m.β i n6 = 0 := fun i =>
    ⟨spare_beta hwf s1 i, spare_beta hwf s2 i, spare_beta hwf s3 i, spare_beta hwf s4 i, spare_beta hwf s5 i,
      spare_beta hwf s6 i⟩
  -- the four links of the spare darts
  unfold cutInnerEdge at h
  obtain ⟨_, m1, r1, h⟩ := run_bind_ok h
  have I1 := Keeps.twoLinkCore (X := Val) L1 L2 q52 m m1 _ (Inv.of_wf hwf) r1
  obtain ⟨_, _, st1⟩ := step_twoLinkCore r1
  obtain ⟨_, m2, r2, h⟩ := run_bind_ok h
  have I2 := Keeps.oneLinkCore (X := Val) L2 L3 m1 m2 _ I1 r2
  obtain ⟨_, _, st2⟩ := step_oneLinkCore r2
  obtain ⟨_, m3, r3, h⟩ := run_bind_ok h
  have I3 := Keeps.twoLinkCore (X := Val) L4 L5 q64 m2 m3 _ I2 r3
  obtain ⟨_, _, st3⟩ := step_twoLinkCore r3
  obtain ⟨_, m4, r4, h⟩ := run_bind_ok h
  have I4 := Keeps.oneLinkCore (X := Val) L5 L6 m3 m4 _ I3 r4
  obtain ⟨_, _, st4⟩ := step_oneLinkCore r4
  have b4 : m4.β = lnk1 (lnk2 (lnk1 (lnk2 m.β n1 n2) n2 n3) n4 n5) n5 n6 := by rw [st4.β, st3.β, st2.β, st1.β]
  have fc4 : m4.fc = 0 := by rw [(link1_fc r4).1, (linkI_fc r3).1, (link1_fc r2).1, (linkI_fc r1).1]; exact hfc
  have at4 : ∀ t x, m4.att t x = m.att t x := fun t x => by
    rw [(link1_fc r4).2.1, (linkI_fc r3).2.1, (link1_fc r2).2.1, (linkI_fc r1).2.1]
  -- the β function after the four links
  obtain ⟨F, hF⟩ : ∃ F, F = lnk1 (lnk2 (lnk1 (lnk2 m.β n1 n2) n2 n3) n4 n5) n5 n6 := ⟨_, rfl⟩
  rw [← hF] at b4
  have n0 : n1 ≠ 0 ∧ n2 ≠ 0 ∧ n3 ≠ 0 ∧ n4 ≠ 0 ∧ n5 ≠ 0 ∧ n6 ≠ 0 := ⟨s1.1.1, s2.1.1, s3.1.1, s4.1.1, s5.1.1, s6.1.1⟩
  have Fold : ∀ i x, x ≠ n1 → x ≠ n2 → x ≠ n3 → x ≠ n4 → x ≠ n5 → x ≠ n6 → F i x = m.β i x := by
    intro i x x1 x2 x3 x4 x5 x6
    rw [hF]; simp [lnk1, lnk2, upd_apply, Ne.symm x1, Ne.symm x2, Ne.symm x3, Ne.symm x4, Ne.symm x5, Ne.symm x6]
  have F1 : F 1 n1 = 0 ∧ F 1 n2 = n3 ∧ F 1 n3 = 0 ∧ F 1 n4 = 0 ∧ F 1 n5 = n6 ∧ F 1 n6 = 0 := by
    rw [hF]; simp [lnk1, lnk2, upd_apply, sb 1, q1, Ne.symm q1, q2, Ne.symm q2, q3, Ne.symm q3, q4, Ne.symm q4, q5, Ne.symm q5, q6, Ne.symm q6, q7, Ne.symm q7, q8, Ne.symm q8, q9, Ne.symm q9, q10, Ne.symm q10, q11, Ne.symm q11, q12, Ne.symm q12, q13, Ne.symm q13, q14, Ne.symm q14, q15, Ne.symm q15, q16, Ne.symm q16, q17, Ne.symm q17, q18, Ne.symm q18, q19, Ne.symm q19, q20, Ne.symm q20, q21, Ne.symm q21, q22, Ne.symm q22, q23, Ne.symm q23, q24, Ne.symm q24, q25, Ne.symm q25, q26, Ne.symm q26, q27, Ne.symm q27, q28, Ne.symm q28, q29, Ne.symm q29, q30, Ne.symm q30, q31, Ne.symm q31, q32, Ne.symm q32, q33, Ne.symm q33, q34, Ne.symm q34, q35, Ne.symm q35, q36, Ne.symm q36, q37, Ne.symm q37, q38, Ne.symm q38, q39, Ne.symm q39, q40, Ne.symm q40, q41, Ne.symm q41, q42, Ne.symm q42, q43, Ne.symm q43, q44, Ne.symm q44, q45, Ne.symm q45, q46, Ne.symm q46, q47, Ne.symm q47, q48, Ne.symm q48, q49, Ne.symm q49, q50, Ne.symm q50, q51, Ne.symm q51, q52, Ne.symm q52, q53, Ne.symm q53, q54, Ne.symm q54, q55, Ne.symm q55, q56, Ne.symm q56, q57, Ne.symm q57, q58, Ne.symm q58, q59, Ne.symm q59, q60, Ne.symm q60, q61, Ne.symm q61, q62, Ne.symm q62, q63, Ne.symm q63, q64, Ne.symm q64, q65, Ne.symm q65, q66, Ne.symm q66]
  have F2 : F 2 n1 = n2 ∧ F 2 n2 = n1 ∧ F 2 n3 = 0 ∧ F 2 n4 = n5 ∧ F 2 n5 = n4 ∧ F 2 n6 = 0 := by
    rw [hF]; simp [lnk1, lnk2, upd_apply, sb 2, q1, Ne.symm q1, q2, Ne.symm q2, q3, Ne.symm q3, q4, Ne.symm q4, q5, Ne.symm q5, q6, Ne.symm q6, q7, Ne.symm q7, q8, Ne.symm q8, q9, Ne.symm q9, q10, Ne.symm q10, q11, Ne.symm q11, q12, Ne.symm q12, q13, Ne.symm q13, q14, Ne.symm q14, q15, Ne.symm q15, q16, Ne.symm q16, q17, Ne.symm q17, q18, Ne.symm q18, q19, Ne.symm q19, q20, Ne.symm q20, q21, Ne.symm q21, q22, Ne.symm q22, q23, Ne.symm q23, q24, Ne.symm q24, q25, Ne.symm q25, q26, Ne.symm q26, q27, Ne.symm q27, q28, Ne.symm q28, q29, Ne.symm q29, q30, Ne.symm q30, q31, Ne.symm q31, q32, Ne.symm q32, q33, Ne.symm q33, q34, Ne.symm q34, q35, Ne.symm q35, q36, Ne.symm q36, q37, Ne.symm q37, q38, Ne.symm q38, q39, Ne.symm q39, q40, Ne.symm q40, q41, Ne.symm q41, q42, Ne.symm q42, q43, Ne.symm q43, q44, Ne.symm q44, q45, Ne.symm q45, q46, Ne.symm q46, q47, Ne.symm q47, q48, Ne.symm q48, q49, Ne.symm q49, q50, Ne.symm q50, q51, Ne.symm q51, q52, Ne.symm q52, q53, Ne.symm q53, q54, Ne.symm q54, q55, Ne.symm q55, q56, Ne.symm q56, q57, Ne.symm q57, q58, Ne.symm q58, q59, Ne.symm q59, q60, Ne.symm q60, q61, Ne.symm q61, q62, Ne.symm q62, q63, Ne.symm q63, q64, Ne.symm q64, q65, Ne.symm q65, q66, Ne.symm q66]
  have Fe : ∀ i, F i e = m.β i e := fun i => Fold i e q6 q7 q8 q9 q10 q11
  have Fr : ∀ i, F i (m.β 2 e) = m.β i (m.β 2 e) := fun i => Fold i _ q16 q17 q18 q19 q20 q21
  have Fa : ∀ i, F i (m.β 1 e) = m.β i (m.β 1 e) := fun i => Fold i _ q25 q26 q27 q28 q29 q30
  have Fc : ∀ i, F i (m.β 1 (m.β 2 e)) = m.β i (m.β 1 (m.β 2 e)) := fun i => Fold i _ q40 q41 q42 q43 q44 q45
  have Fb : ∀ i, F i (m.β 0 e) = m.β i (m.β 0 e) := fun i => Fold i _ q33 q34 q35 q36 q37 q38
  have Fd : ∀ i, F i (m.β 0 (m.β 2 e)) = m.β i (m.β 0 (m.β 2 e)) := fun i => Fold i _ q46 q47 q48 q49 q50 q51
  have n4' : m4.n = m.n := I4.n_eq
  have idL : cellId m .face e = FL := by
    rw [hFL]; exact faceId_triangle hwf he.1 hn a0 hb rfl htl (hwf.inv10 e hn hb)
  have idR : cellId m .face (m.β 2 e) = FR := by
    rw [hFR]; exact faceId_triangle hwf hr0 hr c0 hd rfl htr (hwf.inv10 _ hr hd)
  have fidL : cellId m4 .face e = FL := by
    rw [hFL]
    exact faceId_triangle I4.wf he.1 (by rw [n4']; exact hn) a0 hb (by rw [b4, Fe 1]) (by rw [b4, Fa 1]; exact htl)
      (by rw [b4, Fb 1]; exact hwf.inv10 e hn hb)
  have fidR : cellId m4 .face (m.β 2 e) = FR := by
    rw [hFR]
    exact faceId_triangle I4.wf hr0 (by rw [n4']; exact hr) c0 hd (by rw [b4, Fr 1]) (by rw [b4, Fc 1]; exact htr)
      (by rw [b4, Fd 1]; exact hwf.inv10 _ hr hd)
  have neLR : FL ≠ FR := by
    rw [hFL, hFR]; exact min3_ne q1 q4 q5 (Ne.symm q12) q23 q24 (Ne.symm q13) q31 q32
  refine ⟨⟨idL, idR, w1, w4, w7, w10⟩, ?_⟩
  have regL : lfa.isSome → regd cfg stFA = true := by
    intro hh
    by_cases hr' : regd cfg stFA = true
    · exact hr'
    · rw [hlfa, if_neg hr'] at hh; simp at hh
  have regR : rfa.isSome → regd cfg stFA = true := by
    intro hh
    by_cases hr' : regd cfg stFA = true
    · exact hr'
    · rw [hrfa, if_neg hr'] at hh; simp at hh
  obtain ⟨_, h⟩ := HC.C15.rB_ok h
  rw [b4, Fe 2] at h
  -- the two face anchors are taken
  obtain ⟨lfa', m5, r5, h⟩ := run_bind_ok h
  have I5 := inv_attrOnly (ao_takeFaceAnchor cfg m.n e) I4 r5
  obtain ⟨fc5', _⟩ := keeps0_takeFaceAnchor cfg m.n e m4 m5 lfa' r5
  have st45 := AttrOnly.run_ok (ao_takeFaceAnchor cfg m.n e) r5
  have takeL : lfa' = lfa ∧ ∀ x, m5.att stFA x = if lfa.isSome ∧ x = FL then none else m.att stFA x := by
    unfold takeFaceAnchor at r5
    by_cases hr' : regd cfg stFA = true
    · simp only [hr', if_true] at r5
      obtain ⟨fid, hfid, r5⟩ := ro_bind_ok (readOnly_faceId2 _ _) r5
      have := (C03_faceId2_min I4.wf he.1 (by rw [n4']; exact hn)).1
      rw [n4'] at this
      have efid : fid = FL := by rw [run_inj hfid this]; exact fidL
      rcases removeAttr_ok r5 with ⟨hf, _, _⟩ | ⟨_, hok, rfl, ho⟩
      · rw [hr'] at hf; exact absurd hf (by simp)
      · have hfe : lfa = m.att stFA FL := by rw [hlfa, if_pos hr']
        refine ⟨by rw [hfe, ho, efid, at4], fun x => ?_⟩
        rw [Map.att_setA, at4, efid]
        rw [efid] at hok
        by_cases hx : FL = x
        · subst hx
          rw [hfe]
          simp only [hok, and_true, true_and, if_true]
          cases m.att stFA FL <;> simp
        · have hx' : ¬ x = FL := fun hh => hx hh.symm
          simp [hx, hx']
    · simp [hr'] at r5
      have hfn : lfa = none := by rw [hlfa, if_neg hr']
      exact ⟨by rw [← r5.1, hfn], fun x => by rw [← r5.2, at4, hfn]; simp⟩
  obtain ⟨hl', at5F⟩ := takeL
  rw [hl'] at h
  obtain ⟨rfa', m6, r6, h⟩ := run_bind_ok h
  have I6 := inv_attrOnly (ao_takeFaceAnchor cfg m.n (m.β 2 e)) I5 r6
  obtain ⟨fc6', _⟩ := keeps0_takeFaceAnchor cfg m.n (m.β 2 e) m5 m6 rfa' r6
  have fc6 : m6.fc = 0 := by rw [fc6', fc5']; exact fc4
  have st56 := AttrOnly.run_ok (ao_takeFaceAnchor cfg m.n (m.β 2 e)) r6
  have n5' : m5.n = m.n := I5.n_eq
  have takeR : rfa' = rfa ∧ ∀ x, m6.att stFA x = if rfa.isSome ∧ x = FR then none else m5.att stFA x := by
    unfold takeFaceAnchor at r6
    by_cases hr' : regd cfg stFA = true
    · simp only [hr', if_true] at r6
      obtain ⟨fid, hfid, r6⟩ := ro_bind_ok (readOnly_faceId2 _ _) r6
      have := (C03_faceId2_min I5.wf hr0 (by rw [n5']; exact hr)).1
      rw [n5'] at this
      have efid : fid = FR := by rw [run_inj hfid this, cellId_of_sameTopo st45]; exact fidR
      rcases removeAttr_ok r6 with ⟨hf, _, _⟩ | ⟨_, hok, rfl, ho⟩
      · rw [hr'] at hf; exact absurd hf (by simp)
      · have hfe : rfa = m5.att stFA FR := by
          rw [hrfa, if_pos hr', at5F, if_neg (fun hh => neLR hh.2.symm)]
        refine ⟨by rw [hfe, ho, efid], fun x => ?_⟩
        rw [Map.att_setA, efid]
        rw [efid] at hok
        by_cases hx : FR = x
        · subst hx
          rw [hfe]
          simp only [hok, and_true, true_and, if_true]
          cases m5.att stFA FR <;> simp
        · have hx' : ¬ x = FR := fun hh => hx hh.symm
          simp [hx, hx']
    · simp [hr'] at r6
      have hfn : rfa = none := by rw [hrfa, if_neg hr']
      exact ⟨by rw [← r6.1, hfn], fun x => by rw [← r6.2, hfn]; simp⟩
  obtain ⟨hr'', at6F⟩ := takeR
  rw [hr''] at h
  have A6 : ∀ x, m6.att stFA x = if (rfa.isSome ∧ x = FR) ∨ (lfa.isSome ∧ x = FL) then none else m.att stFA x := by
    intro x
    rw [at6F, at5F]
    by_cases c1 : rfa.isSome ∧ x = FR
    · simp [c1]
    · by_cases c2 : lfa.isSome ∧ x = FL
      · simp [c1, c2]
      · simp [c1, c2]
  have b6 : m6.β = F := by rw [β_of_sameTopo st56, β_of_sameTopo st45]; exact b4
  obtain ⟨ea, _, h⟩ := ro_bind_ok (ro_peekEdgeAnchor cfg e) h
  obtain ⟨_, h⟩ := HC.C15.rB_ok h
  obtain ⟨_, h⟩ := HC.C15.rB_ok h
  obtain ⟨_, h⟩ := HC.C15.rB_ok h
  obtain ⟨_, h⟩ := HC.C15.rB_ok h
  rw [b6, Fe 0, Fe 1, Fr 0, Fr 1] at h
  obtain ⟨vid1, _, h⟩ := ro_bind_ok (readOnly_vertexId2 _ _) h
  obtain ⟨vid2, _, h⟩ := ro_bind_ok (readOnly_vertexId2 _ _) h
  obtain ⟨newV, _, h⟩ := ro_bind_ok (ro_midpointOrRetry _ _) h
  obtain ⟨vid, _, h⟩ := ro_bind_ok (readOnly_vertexId2 _ _) h
  obtain ⟨old, m7, r7, h⟩ := run_bind_ok h
  have I7 := inv_attrOnly (ao_writeVtx vid newV) I6 r7
  have e7 : m7 = m6.setA 0 vid (some newV) := by
    unfold writeVtx at r7
    obtain ⟨_, r7⟩ := rA_ok r7
    obtain ⟨_, r7⟩ := wA_ok r7
    simp at r7
    exact r7.2.symm
  have b7 : m7.β = F := by rw [e7]; exact b6
  have fc7 : m7.fc = 0 := by rw [e7]; exact fc6
  have at7 : ∀ x, m7.att stFA x = m6.att stFA x := fun x => by rw [e7, Map.att_setA]; simp [stFA]
  -- unsews and sews: the storage is neither vertex- nor edge-bound
  obtain ⟨_, m8, r8, h⟩ := run_bind_ok h
  have I8 := keeps_twoUnsew2 cfg m.n Le m7 m8 () I7 r8
  have b8 : m8.β = unl2 m7.β e := (step_twoUnsew2 r8).2.β
  obtain ⟨fc8, at8⟩ := att_other_twoUnsew2 cfg fc7 hFv hFe r8
  obtain ⟨_, m9, r9, h⟩ := run_bind_ok h
  have I9 := keeps_oneUnsew2 cfg m.n Le m8 m9 () I8 r9
  have b9 := unsew_step_beta cfg r9
  obtain ⟨fc9, at9⟩ := att_other_oneUnsew2 cfg fc8 hFv r9
  obtain ⟨_, m10, r10, h⟩ := run_bind_ok h
  have I10 := keeps_oneUnsew2 cfg m.n La m9 m10 () I9 r10
  have b10 := unsew_step_beta cfg r10
  obtain ⟨fc10, at10⟩ := att_other_oneUnsew2 cfg fc9 hFv r10
  obtain ⟨_, m11, r11, h⟩ := run_bind_ok h
  have I11 := keeps_oneUnsew2 cfg m.n Lr m10 m11 () I10 r11
  have b11 := unsew_step_beta cfg r11
  obtain ⟨fc11, at11⟩ := att_other_oneUnsew2 cfg fc10 hFv r11
  obtain ⟨_, m12, r12, h⟩ := run_bind_ok h
  have I12 := keeps_oneUnsew2 cfg m.n Lc m11 m12 () I11 r12
  have b12 := unsew_step_beta cfg r12
  obtain ⟨fc12, at12⟩ := att_other_oneUnsew2 cfg fc11 hFv r12
  have B12 : m12.β = unl1 (unl1 (unl1 (unl1 (unl2 F e) e) (m.β 1 e)) (m.β 2 e)) (m.β 1 (m.β 2 e)) := by
    rw [b12, b11, b10, b9, b8, b7]
  obtain ⟨_, m13, r13, h⟩ := run_bind_ok h
  have I13 := keeps_twoSew2 cfg m.n Le L6 q11 m12 m13 () I12 r13
  have b13 : m13.β = lnk2 m12.β e n6 := (step_twoSew2 r13).2.2.β
  obtain ⟨fc13, at13⟩ := att_other_twoSew2_free cfg fc12 hFe
    (by rw [B12]; simp [unl1_one', unl2_one', q1, Ne.symm q1, q2, Ne.symm q2, q3, Ne.symm q3, q4, Ne.symm q4, q5, Ne.symm q5, q6, Ne.symm q6, q7, Ne.symm q7, q8, Ne.symm q8, q9, Ne.symm q9, q10, Ne.symm q10, q11, Ne.symm q11, q12, Ne.symm q12, q13, Ne.symm q13, q14, Ne.symm q14, q15, Ne.symm q15, q16, Ne.symm q16, q17, Ne.symm q17, q18, Ne.symm q18, q19, Ne.symm q19, q20, Ne.symm q20, q21, Ne.symm q21, q22, Ne.symm q22, q23, Ne.symm q23, q24, Ne.symm q24, q25, Ne.symm q25, q26, Ne.symm q26, q27, Ne.symm q27, q28, Ne.symm q28, q29, Ne.symm q29, q30, Ne.symm q30, q31, Ne.symm q31, q32, Ne.symm q32, q33, Ne.symm q33, q34, Ne.symm q34, q35, Ne.symm q35, q36, Ne.symm q36, q37, Ne.symm q37, q38, Ne.symm q38, q39, Ne.symm q39, q40, Ne.symm q40, q41, Ne.symm q41, q42, Ne.symm q42, q43, Ne.symm q43, q44, Ne.symm q44, q45, Ne.symm q45, q46, Ne.symm q46, q47, Ne.symm q47, q48, Ne.symm q48, q49, Ne.symm q49, q50, Ne.symm q50, q51, Ne.symm q51, q52, Ne.symm q52, q53, Ne.symm q53, q54, Ne.symm q54, q55, Ne.symm q55, q56, Ne.symm q56, q57, Ne.symm q57, q58, Ne.symm q58, q59, Ne.symm q59, q60, Ne.symm q60, q61, Ne.symm q61, q62, Ne.symm q62, q63, Ne.symm q63, q64, Ne.symm q64, q65, Ne.symm q65, q66, Ne.symm q66])
    (by rw [B12]; simp [unl1_one', unl2_one', F1, q1, Ne.symm q1, q2, Ne.symm q2, q3, Ne.symm q3, q4, Ne.symm q4, q5, Ne.symm q5, q6, Ne.symm q6, q7, Ne.symm q7, q8, Ne.symm q8, q9, Ne.symm q9, q10, Ne.symm q10, q11, Ne.symm q11, q12, Ne.symm q12, q13, Ne.symm q13, q14, Ne.symm q14, q15, Ne.symm q15, q16, Ne.symm q16, q17, Ne.symm q17, q18, Ne.symm q18, q19, Ne.symm q19, q20, Ne.symm q20, q21, Ne.symm q21, q22, Ne.symm q22, q23, Ne.symm q23, q24, Ne.symm q24, q25, Ne.symm q25, q26, Ne.symm q26, q27, Ne.symm q27, q28, Ne.symm q28, q29, Ne.symm q29, q30, Ne.symm q30, q31, Ne.symm q31, q32, Ne.symm q32, q33, Ne.symm q33, q34, Ne.symm q34, q35, Ne.symm q35, q36, Ne.symm q36, q37, Ne.symm q37, q38, Ne.symm q38, q39, Ne.symm q39, q40, Ne.symm q40, q41, Ne.symm q41, q42, Ne.symm q42, q43, Ne.symm q43, q44, Ne.symm q44, q45, Ne.symm q45, q46, Ne.symm q46, q47, Ne.symm q47, q48, Ne.symm q48, q49, Ne.symm q49, q50, Ne.symm q50, q51, Ne.symm q51, q52, Ne.symm q52, q53, Ne.symm q53, q54, Ne.symm q54, q55, Ne.symm q55, q56, Ne.symm q56, q57, Ne.symm q57, q58, Ne.symm q58, q59, Ne.symm q59, q60, Ne.symm q60, q61, Ne.symm q61, q62, Ne.symm q62, q63, Ne.symm q63, q64, Ne.symm q64, q65, Ne.symm q65, q66, Ne.symm q66]) r13
  obtain ⟨_, m14, r14, h⟩ := run_bind_ok h
  have I14 := keeps_twoSew2 cfg m.n Lr L3 q18 m13 m14 () I13 r14
  obtain ⟨fc14, at14⟩ := att_other_twoSew2_free cfg fc13 hFe
    (by rw [b13, B12]; simp [lnk2_one', unl1_one', unl2_one', q1, Ne.symm q1, q2, Ne.symm q2, q3, Ne.symm q3, q4, Ne.symm q4, q5, Ne.symm q5, q6, Ne.symm q6, q7, Ne.symm q7, q8, Ne.symm q8, q9, Ne.symm q9, q10, Ne.symm q10, q11, Ne.symm q11, q12, Ne.symm q12, q13, Ne.symm q13, q14, Ne.symm q14, q15, Ne.symm q15, q16, Ne.symm q16, q17, Ne.symm q17, q18, Ne.symm q18, q19, Ne.symm q19, q20, Ne.symm q20, q21, Ne.symm q21, q22, Ne.symm q22, q23, Ne.symm q23, q24, Ne.symm q24, q25, Ne.symm q25, q26, Ne.symm q26, q27, Ne.symm q27, q28, Ne.symm q28, q29, Ne.symm q29, q30, Ne.symm q30, q31, Ne.symm q31, q32, Ne.symm q32, q33, Ne.symm q33, q34, Ne.symm q34, q35, Ne.symm q35, q36, Ne.symm q36, q37, Ne.symm q37, q38, Ne.symm q38, q39, Ne.symm q39, q40, Ne.symm q40, q41, Ne.symm q41, q42, Ne.symm q42, q43, Ne.symm q43, q44, Ne.symm q44, q45, Ne.symm q45, q46, Ne.symm q46, q47, Ne.symm q47, q48, Ne.symm q48, q49, Ne.symm q49, q50, Ne.symm q50, q51, Ne.symm q51, q52, Ne.symm q52, q53, Ne.symm q53, q54, Ne.symm q54, q55, Ne.symm q55, q56, Ne.symm q56, q57, Ne.symm q57, q58, Ne.symm q58, q59, Ne.symm q59, q60, Ne.symm q60, q61, Ne.symm q61, q62, Ne.symm q62, q63, Ne.symm q63, q64, Ne.symm q64, q65, Ne.symm q65, q66, Ne.symm q66])
    (by rw [b13, B12]; simp [lnk2_one', unl1_one', unl2_one', F1, q1, Ne.symm q1, q2, Ne.symm q2, q3, Ne.symm q3, q4, Ne.symm q4, q5, Ne.symm q5, q6, Ne.symm q6, q7, Ne.symm q7, q8, Ne.symm q8, q9, Ne.symm q9, q10, Ne.symm q10, q11, Ne.symm q11, q12, Ne.symm q12, q13, Ne.symm q13, q14, Ne.symm q14, q15, Ne.symm q15, q16, Ne.symm q16, q17, Ne.symm q17, q18, Ne.symm q18, q19, Ne.symm q19, q20, Ne.symm q20, q21, Ne.symm q21, q22, Ne.symm q22, q23, Ne.symm q23, q24, Ne.symm q24, q25, Ne.symm q25, q26, Ne.symm q26, q27, Ne.symm q27, q28, Ne.symm q28, q29, Ne.symm q29, q30, Ne.symm q30, q31, Ne.symm q31, q32, Ne.symm q32, q33, Ne.symm q33, q34, Ne.symm q34, q35, Ne.symm q35, q36, Ne.symm q36, q37, Ne.symm q37, q38, Ne.symm q38, q39, Ne.symm q39, q40, Ne.symm q40, q41, Ne.symm q41, q42, Ne.symm q42, q43, Ne.symm q43, q44, Ne.symm q44, q45, Ne.symm q45, q46, Ne.symm q46, q47, Ne.symm q47, q48, Ne.symm q48, q49, Ne.symm q49, q50, Ne.symm q50, q51, Ne.symm q51, q52, Ne.symm q52, q53, Ne.symm q53, q54, Ne.symm q54, q55, Ne.symm q55, q56, Ne.symm q56, q57, Ne.symm q57, q58, Ne.symm q58, q59, Ne.symm q59, q60, Ne.symm q60, q61, Ne.symm q61, q62, Ne.symm q62, q63, Ne.symm q63, q64, Ne.symm q64, q65, Ne.symm q65, q66, Ne.symm q66]) r14
  obtain ⟨_, m15, r15, h⟩ := run_bind_ok h
  have I15 := keeps_oneSew2 cfg m.n Le L1 m14 m15 () I14 r15
  obtain ⟨fc15, at15⟩ := att_other_oneSew2 cfg fc14 hFv r15
  obtain ⟨_, m16, r16, h⟩ := run_bind_ok h
  have I16 := keeps_oneSew2 cfg m.n L1 Lb m15 m16 () I15 r16
  obtain ⟨fc16, at16⟩ := att_other_oneSew2 cfg fc15 hFv r16
  obtain ⟨_, m17, r17, h⟩ := run_bind_ok h
  have I17 := keeps_oneSew2 cfg m.n L3 La m16 m17 () I16 r17
  obtain ⟨fc17, at17⟩ := att_other_oneSew2 cfg fc16 hFv r17
  obtain ⟨_, m18, r18, h⟩ := run_bind_ok h
  have I18 := keeps_oneSew2 cfg m.n La L2 m17 m18 () I17 r18
  obtain ⟨fc18, at18⟩ := att_other_oneSew2 cfg fc17 hFv r18
  obtain ⟨_, m19, r19, h⟩ := run_bind_ok h
  have I19 := keeps_oneSew2 cfg m.n Lr L4 m18 m19 () I18 r19
  obtain ⟨fc19, at19⟩ := att_other_oneSew2 cfg fc18 hFv r19
  obtain ⟨_, m20, r20, h⟩ := run_bind_ok h
  have I20 := keeps_oneSew2 cfg m.n L4 Ld m19 m20 () I19 r20
  obtain ⟨fc20, at20⟩ := att_other_oneSew2 cfg fc19 hFv r20
  obtain ⟨_, m21, r21, h⟩ := run_bind_ok h
  have I21 := keeps_oneSew2 cfg m.n L6 Lc m20 m21 () I20 r21
  obtain ⟨fc21, at21⟩ := att_other_oneSew2 cfg fc20 hFv r21
  obtain ⟨_, m22, r22, h⟩ := run_bind_ok h
  have I22 := keeps_oneSew2 cfg m.n Lc L5 m21 m22 () I21 r22
  obtain ⟨fc22, at22⟩ := att_other_oneSew2 cfg fc21 hFv r22
  have A22 : ∀ x, m22.att stFA x = if (rfa.isSome ∧ x = FR) ∨ (lfa.isSome ∧ x = FL) then none else m.att stFA x := by
    intro x
    rw [at22, at21, at20, at19, at18, at17, at16, at15, at14, at13, at12, at11, at10, at9, at8, at7, A6]
  -- the anchor blocks
  obtain ⟨_, m23, r23, h⟩ := run_bind_ok h
  obtain ⟨_, m24, r24, h⟩ := run_bind_ok h
  have I23 := inv_attrOnly (ao_spreadFaceAnchor cfg m.n lfa n1 n2) I22 r23
  have st23 := AttrOnly.run_ok (ao_spreadFaceAnchor cfg m.n lfa n1 n2) r23
  have st24 := AttrOnly.run_ok (ao_spreadFaceAnchor cfg m.n rfa n4 n5) r24
  have st25 := AttrOnly.run_ok (ao_spreadEdgeAnchor cfg m.n ea n1) h
  have S23 := (spreadFaceAnchor_att cfg I22 regL s1.1.1 s1.1.2.1 s2.1.1 s2.1.2.1 r23).1
  have S24 := (spreadFaceAnchor_att cfg I23 regR s4.1.1 s4.1.2.1 s5.1.1 s5.1.2.1 r24).1
  have last : ∀ x, m'.att stFA x = m24.att stFA x := by
    intro x
    cases ea with
    | none =>
        simp only [spreadEdgeAnchor, Prog.pure_eq, run_ret, Prod.mk.injEq, true_and] at h
        rw [h]
    | some a' =>
        simp only [spreadEdgeAnchor] at h
        obtain ⟨_, _, h⟩ := ro_bind_ok (readOnly_vertexId2 _ _) h
        obtain ⟨_, md, rd', h⟩ := run_bind_ok h
        simp only [Prog.pure_eq, run_ret, Prod.mk.injEq, true_and] at h
        rw [← h]
        exact att_writeAttr_ne (by simp [stFA, stVA]) rd' x
  -- identifiers of the new faces in the states of the two blocks
  have stA : SameTopo m22 m' := (st23.trans st24).trans st25
  have stB : SameTopo m23 m' := st24.trans st25
  have f1 : cellId m22 .face n1 = min e (min n1 (m.β 0 e)) := by rw [← cellId_of_sameTopo stA, x1, w1]
  have f2 : cellId m22 .face n2 = min n3 (min (m.β 1 e) n2) := by rw [← cellId_of_sameTopo stA, x4, w4]
  have f3 : cellId m23 .face n4 = min (m.β 2 e) (min n4 (m.β 0 (m.β 2 e))) := by rw [← cellId_of_sameTopo stB, x5, w7]
  have f4 : cellId m23 .face n5 = min n6 (min (m.β 1 (m.β 2 e)) n5) := by rw [← cellId_of_sameTopo stB, x8, w10]
  intro x
  rw [last, S24, f3, f4]
  unfold innerFaceAnchorsAfter
  have : m23.att stFA = spreadFA (fun y => if (rfa.isSome ∧ y = FR) ∨ (lfa.isSome ∧ y = FL) then none else m.att stFA y)
      lfa (min e (min n1 (m.β 0 e))) (min n3 (min (m.β 1 e) n2)) := by
    funext y
    rw [S23, f1, f2]
    have : m22.att stFA = fun y => if (rfa.isSome ∧ y = FR) ∨ (lfa.isSome ∧ y = FL) then none else m.att stFA y :=
      funext A22
    rw [this]
  rw [this]


/-- the EdgeAnchor storage after an inner cut: the anchor `A` of the cut edge ends up at the identifiers `min(n6, e)`,
    `min(n3, r)` of its two halves (the darts `e, r, n3, n6` that are not identifiers are emptied), the new transversal
    edges `min(n2, n1)`, `min(n5, n4)` get the anchors derived from the face anchors `lfa`, `rfa` -/
def innerEdgeAnchorsAfter (old : Nat → Option Val) (A : Val) (lfa rfa : Option Val) (e r n1 n2 n3 n4 n5 n6 x : Nat) :
    Option Val :=
  spreadEA (spreadEA (fun y => if y = min n3 r then some A else if y = r ∨ y = n3 then none
      else if y = min n6 e then some A else if y = e ∨ y = n6 then none else old y) lfa (min n2 n1)) rfa (min n5 n4) x

/-- **C15 (anchors), cut_inner_edge, the EdgeAnchor storage (present, edge-bound, with the generated law)**: under the
    hypotheses of `C15_cutInner_face_anchors`, the spare darts `n3`, `n6` carrying no edge anchor: the cut edge HAS an
    anchor `A` (at its identifier `min(r, e)`; the 2-unsew would fail otherwise) and EVERY slot of the storage is given by
    `innerEdgeAnchorsAfter`: BOTH halves of the cut edge (identifiers `min(n6, e)` and `min(n3, r)` in the result) carry
    `A`; the two new transversal edges (identifiers `min(n2, n1)`, `min(n5, n4)`) carry `EdgeAnchor::from` of the anchor of
    the face they lie in (`lfa` left, `rfa` right, each only when defined — `none` without FaceAnchor storage); the darts
    among `e, r, n3, n6` that are not identifiers are emptied; every other slot is unchanged. -/
theorem C15_cutInner_edge_anchors (cfg : Cfg Val) (m m' : Map Val) (e n1 n2 n3 n4 n5 n6 : Nat) (hwf : WF 3 m)
    (hfc : m.fc = 0) (he : C01.InUse m e)
    (h : run (cutInnerEdge cfg m.n e n1 n2 n3 n4 n5 n6) m = (.ok (), m'))
    (hr0 : m.β 2 e ≠ 0)
    (htl : m.β 1 (m.β 1 e) = m.β 0 e) (hb : m.β 0 e ≠ 0)
    (htr : m.β 1 (m.β 1 (m.β 2 e)) = m.β 0 (m.β 2 e)) (hd : m.β 0 (m.β 2 e) ≠ 0)
    (hs : ∀ x, x ∈ [n1, n2, n3, n4, n5, n6] → Spare m x)
    (hnd : [e, m.β 2 e, m.β 1 e, m.β 0 e, m.β 1 (m.β 2 e), m.β 0 (m.β 2 e), n1, n2, n3, n4, n5, n6].Nodup)
    (hEv : stEA ∉ vStores cfg) (hEe : stEA ∈ eStores cfg) (hregE : regd cfg stEA = true)
    (hLawE : cfg.law stEA = anchorLawE) (hnoneE : m.att stEA n3 = none ∧ m.att stEA n6 = none)
    {lfa rfa : Option Val}
    (hlfa : lfa = if regd cfg stFA then m.att stFA (min e (min (m.β 1 e) (m.β 0 e))) else none)
    (hrfa : rfa = if regd cfg stFA then
      m.att stFA (min (m.β 2 e) (min (m.β 1 (m.β 2 e)) (m.β 0 (m.β 2 e)))) else none) :
    (cellId m .edge e = min (m.β 2 e) e ∧ cellId m' .edge e = min n6 e ∧ cellId m' .edge (m.β 2 e) = min n3 (m.β 2 e) ∧
      cellId m' .edge n1 = min n2 n1 ∧ cellId m' .edge n4 = min n5 n4) ∧
    ∃ A, m.att stEA (min (m.β 2 e) e) = some A ∧
      ∀ x, m'.att stEA x = innerEdgeAnchorsAfter (m.att stEA) A lfa rfa e (m.β 2 e) n1 n2 n3 n4 n5 n6 x := by
  obtain ⟨FL, hFL⟩ : ∃ FL, FL = min e (min (m.β 1 e) (m.β 0 e)) := ⟨_, rfl⟩
  obtain ⟨FR, hFR⟩ : ∃ FR, FR = min (m.β 2 e) (min (m.β 1 (m.β 2 e)) (m.β 0 (m.β 2 e))) := ⟨_, rfl⟩
  rw [← hFL] at hlfa
  rw [← hFR] at hrfa
  obtain ⟨hw', _⟩ := C15_cutInner_faces cfg m m' e n1 n2 n3 n4 n5 n6 hwf he h hr0 htl hb htr hd hs hnd
  obtain ⟨_, _, ⟨⟨u1, u2⟩, ⟨u3, u4⟩, ⟨u5, u6⟩, ⟨u7, u8⟩, u9⟩, _, hn', _⟩ :=
    C15_cutInner_topology cfg m m' e n1 n2 n3 n4 n5 n6 hwf he.2.1 h hr0 htl hb htr hd hnd
  have hA : AnchorLike (cfg.law stEA) := by rw [hLawE]; exact anchorLike_E
  have hn := he.2.1
  have hr : m.β 2 e < m.n := hwf.range 2 (by omega) e hn
  have a0 : m.β 1 e ≠ 0 := fun hh => hb (by rw [← htl, hh]; exact hwf.null 1 (by omega))
  have c0 : m.β 1 (m.β 2 e) ≠ 0 := fun hh => hd (by rw [← htr, hh]; exact hwf.null 1 (by omega))
  have ha : m.β 1 e < m.n := hwf.range 1 (by omega) e hn
  have hc : m.β 1 (m.β 2 e) < m.n := hwf.range 1 (by omega) _ hr
  have hbn : m.β 0 e < m.n := hwf.range 0 (by omega) e hn
  have hdn : m.β 0 (m.β 2 e) < m.n := hwf.range 0 (by omega) _ hr
  have er := (hwf.invol 2 (by omega) (by omega) e hn hr0).1
  have hnd' := hnd
  simp only [List.nodup_cons, List.mem_cons, List.mem_nil_iff, not_or, or_false, List.nodup_nil, and_true] at hnd'
  obtain ⟨⟨q1, q2, q3, q4, q5, q6, q7, q8, q9, q10, q11⟩, ⟨q12, q13, q14, q15, q16, q17, q18, q19, q20, q21⟩, ⟨q22, q23, q24, q25, q26, q27, q28, q29, q30⟩, ⟨q31, q32, q33, q34, q35, q36, q37, q38⟩, ⟨q39, q40, q41, q42, q43, q44, q45⟩, ⟨q46, q47, q48, q49, q50, q51⟩, ⟨q52, q53, q54, q55, q56⟩, ⟨q57, q58, q59, q60⟩, ⟨q61, q62, q63⟩, ⟨q64, q65⟩, q66, _⟩ := hnd'
  have s1 := hs n1 (by simp); have s2 := hs n2 (by simp); have s3 := hs n3 (by simp)
  have s4 := hs n4 (by simp); have s5 := hs n5 (by simp); have s6 := hs n6 (by simp)
  have L1 : Live m.n m.u n1 := Live.of_inUse s1.1
  have L2 : Live m.n m.u n2 := Live.of_inUse s2.1
  have L3 : Live m.n m.u n3 := Live.of_inUse s3.1
  have L4 : Live m.n m.u n4 := Live.of_inUse s4.1
  have L5 : Live m.n m.u n5 := Live.of_inUse s5.1
  have L6 : Live m.n m.u n6 := Live.of_inUse s6.1
  have Le : Live m.n m.u e := Live.of_inUse he
  have Lr := live_image hwf (by omega : 2 < 3) hn hr0
  have La := live_image hwf (by omega : 1 < 3) hn a0
  have Lb := live_image hwf (by omega : 0 < 3) hn hb
  have Lc := live_image hwf (by omega : 1 < 3) hr c0
  have Ld := live_image hwf (by omega : 0 < 3) hr hd
  have z : ∀ i, m.β i 0 = 0 := beta_zero hwf
  have sb : ∀ i, m.β i n1 = 0 ∧ m.β i n2 = 0 ∧ m.β i n3 = 0 ∧ m.β i n4 = 0 ∧ m.β i n5 = 0 ∧ m.β i n6 = 0 := fun i =>
    ⟨spare_beta hwf s1 i, spare_beta hwf s2 i, spare_beta hwf s3 i, spare_beta hwf s4 i, spare_beta hwf s5 i,
      spare_beta hwf s6 i⟩
  -- the four links of the spare darts
  unfold cutInnerEdge at h
  obtain ⟨_, m1, r1, h⟩ := run_bind_ok h
  have I1 := Keeps.twoLinkCore (X := Val) L1 L2 q52 m m1 _ (Inv.of_wf hwf) r1
  obtain ⟨_, _, st1⟩ := step_twoLinkCore r1
  obtain ⟨_, m2, r2, h⟩ := run_bind_ok h
  have I2 := Keeps.oneLinkCore (X := Val) L2 L3 m1 m2 _ I1 r2
  obtain ⟨_, _, st2⟩ := step_oneLinkCore r2
  obtain ⟨_, m3, r3, h⟩ := run_bind_ok h
  have I3 := Keeps.twoLinkCore (X := Val) L4 L5 q64 m2 m3 _ I2 r3
  obtain ⟨_, _, st3⟩ := step_twoLinkCore r3
  obtain ⟨_, m4, r4, h⟩ := run_bind_ok h
  have I4 := Keeps.oneLinkCore (X := Val) L5 L6 m3 m4 _ I3 r4
  obtain ⟨_, _, st4⟩ := step_oneLinkCore r4
  have b4 : m4.β = lnk1 (lnk2 (lnk1 (lnk2 m.β n1 n2) n2 n3) n4 n5) n5 n6 := by rw [st4.β, st3.β, st2.β, st1.β]
  have fc4 : m4.fc = 0 := by rw [(link1_fc r4).1, (linkI_fc r3).1, (link1_fc r2).1, (linkI_fc r1).1]; exact hfc
  have at4 : ∀ t x, m4.att t x = m.att t x := fun t x => by
    rw [(link1_fc r4).2.1, (linkI_fc r3).2.1, (link1_fc r2).2.1, (linkI_fc r1).2.1]
  -- the β function after the four links
  obtain ⟨F, hF⟩ : ∃ F, F = lnk1 (lnk2 (lnk1 (lnk2 m.β n1 n2) n2 n3) n4 n5) n5 n6 := ⟨_, rfl⟩
  rw [← hF] at b4
  have n0 : n1 ≠ 0 ∧ n2 ≠ 0 ∧ n3 ≠ 0 ∧ n4 ≠ 0 ∧ n5 ≠ 0 ∧ n6 ≠ 0 := ⟨s1.1.1, s2.1.1, s3.1.1, s4.1.1, s5.1.1, s6.1.1⟩
  have Fold : ∀ i x, x ≠ n1 → x ≠ n2 → x ≠ n3 → x ≠ n4 → x ≠ n5 → x ≠ n6 → F i x = m.β i x := by
    intro i x x1 x2 x3 x4 x5 x6
    rw [hF]; simp [lnk1, lnk2, upd_apply, Ne.symm x1, Ne.symm x2, Ne.symm x3, Ne.symm x4, Ne.symm x5, Ne.symm x6]
  have F1 : F 1 n1 = 0 ∧ F 1 n2 = n3 ∧ F 1 n3 = 0 ∧ F 1 n4 = 0 ∧ F 1 n5 = n6 ∧ F 1 n6 = 0 := by
    rw [hF]; simp [lnk1, lnk2, upd_apply, sb 1, q1, Ne.symm q1, q2, Ne.symm q2, q3, Ne.symm q3, q4, Ne.symm q4, q5, Ne.symm q5, q6, Ne.symm q6, q7, Ne.symm q7, q8, Ne.symm q8, q9, Ne.symm q9, q10, Ne.symm q10, q11, Ne.symm q11, q12, Ne.symm q12, q13, Ne.symm q13, q14, Ne.symm q14, q15, Ne.symm q15, q16, Ne.symm q16, q17, Ne.symm q17, q18, Ne.symm q18, q19, Ne.symm q19, q20, Ne.symm q20, q21, Ne.symm q21, q22, Ne.symm q22, q23, Ne.symm q23, q24, Ne.symm q24, q25, Ne.symm q25, q26, Ne.symm q26, q27, Ne.symm q27, q28, Ne.symm q28, q29, Ne.symm q29, q30, Ne.symm q30, q31, Ne.symm q31, q32, Ne.symm q32, q33, Ne.symm q33, q34, Ne.symm q34, q35, Ne.symm q35, q36, Ne.symm q36, q37, Ne.symm q37, q38, Ne.symm q38, q39, Ne.symm q39, q40, Ne.symm q40, q41, Ne.symm q41, q42, Ne.symm q42, q43, Ne.symm q43, q44, Ne.symm q44, q45, Ne.symm q45, q46, Ne.symm q46, q47, Ne.symm q47, q48, Ne.symm q48, q49, Ne.symm q49, q50, Ne.symm q50, q51, Ne.symm q51, q52, Ne.symm q52, q53, Ne.symm q53, q54, Ne.symm q54, q55, Ne.symm q55, q56, Ne.symm q56, q57, Ne.symm q57, q58, Ne.symm q58, q59, Ne.symm q59, q60, Ne.symm q60, q61, Ne.symm q61, q62, Ne.symm q62, q63, Ne.symm q63, q64, Ne.symm q64, q65, Ne.symm q65, q66, Ne.symm q66]
  have F2 : F 2 n1 = n2 ∧ F 2 n2 = n1 ∧ F 2 n3 = 0 ∧ F 2 n4 = n5 ∧ F 2 n5 = n4 ∧ F 2 n6 = 0 := by
    rw [hF]; simp [lnk1, lnk2, upd_apply, sb 2, q1, Ne.symm q1, q2, Ne.symm q2, q3, Ne.symm q3, q4, Ne.symm q4, q5, Ne.symm q5, q6, Ne.symm q6, q7, Ne.symm q7, q8, Ne.symm q8, q9, Ne.symm q9, q10, Ne.symm q10, q11, Ne.symm q11, q12, Ne.symm q12, q13, Ne.symm q13, q14, Ne.symm q14, q15, Ne.symm q15, q16, Ne.symm q16, q17, Ne.symm q17, q18, Ne.symm q18, q19, Ne.symm q19, q20, Ne.symm q20, q21, Ne.symm q21, q22, Ne.symm q22, q23, Ne.symm q23, q24, Ne.symm q24, q25, Ne.symm q25, q26, Ne.symm q26, q27, Ne.symm q27, q28, Ne.symm q28, q29, Ne.symm q29, q30, Ne.symm q30, q31, Ne.symm q31, q32, Ne.symm q32, q33, Ne.symm q33, q34, Ne.symm q34, q35, Ne.symm q35, q36, Ne.symm q36, q37, Ne.symm q37, q38, Ne.symm q38, q39, Ne.symm q39, q40, Ne.symm q40, q41, Ne.symm q41, q42, Ne.symm q42, q43, Ne.symm q43, q44, Ne.symm q44, q45, Ne.symm q45, q46, Ne.symm q46, q47, Ne.symm q47, q48, Ne.symm q48, q49, Ne.symm q49, q50, Ne.symm q50, q51, Ne.symm q51, q52, Ne.symm q52, q53, Ne.symm q53, q54, Ne.symm q54, q55, Ne.symm q55, q56, Ne.symm q56, q57, Ne.symm q57, q58, Ne.symm q58, q59, Ne.symm q59, q60, Ne.symm q60, q61, Ne.symm q61, q62, Ne.symm q62, q63, Ne.symm q63, q64, Ne.symm q64, q65, Ne.symm q65, q66, Ne.symm q66]
  have Fe : ∀ i, F i e = m.β i e := fun i => Fold i e q6 q7 q8 q9 q10 q11
  have Fr : ∀ i, F i (m.β 2 e) = m.β i (m.β 2 e) := fun i => Fold i _ q16 q17 q18 q19 q20 q21
  have Fa : ∀ i, F i (m.β 1 e) = m.β i (m.β 1 e) := fun i => Fold i _ q25 q26 q27 q28 q29 q30
  have Fc : ∀ i, F i (m.β 1 (m.β 2 e)) = m.β i (m.β 1 (m.β 2 e)) := fun i => Fold i _ q40 q41 q42 q43 q44 q45
  have Fb : ∀ i, F i (m.β 0 e) = m.β i (m.β 0 e) := fun i => Fold i _ q33 q34 q35 q36 q37 q38
  have Fd : ∀ i, F i (m.β 0 (m.β 2 e)) = m.β i (m.β 0 (m.β 2 e)) := fun i => Fold i _ q46 q47 q48 q49 q50 q51
  have n4' : m4.n = m.n := I4.n_eq
  have idL : cellId m .face e = FL := by
    rw [hFL]; exact faceId_triangle hwf he.1 hn a0 hb rfl htl (hwf.inv10 e hn hb)
  have idR : cellId m .face (m.β 2 e) = FR := by
    rw [hFR]; exact faceId_triangle hwf hr0 hr c0 hd rfl htr (hwf.inv10 _ hr hd)
  have fidL : cellId m4 .face e = FL := by
    rw [hFL]
    exact faceId_triangle I4.wf he.1 (by rw [n4']; exact hn) a0 hb (by rw [b4, Fe 1]) (by rw [b4, Fa 1]; exact htl)
      (by rw [b4, Fb 1]; exact hwf.inv10 e hn hb)
  have fidR : cellId m4 .face (m.β 2 e) = FR := by
    rw [hFR]
    exact faceId_triangle I4.wf hr0 (by rw [n4']; exact hr) c0 hd (by rw [b4, Fr 1]) (by rw [b4, Fc 1]; exact htr)
      (by rw [b4, Fd 1]; exact hwf.inv10 _ hr hd)
  have neLR : FL ≠ FR := by
    rw [hFL, hFR]; exact min3_ne q1 q4 q5 (Ne.symm q12) q23 q24 (Ne.symm q13) q31 q32
  have idN : ∀ d, d ≠ 0 → d < m.n → cellId m' .edge d = (if m'.β 2 d = 0 then d else min (m'.β 2 d) d) :=
    fun d d0 dn => edgeId_eq hw' d0 (by rw [hn']; exact dn)
  have ie0 : cellId m .edge e = min (m.β 2 e) e := by rw [edgeId_eq hwf he.1 hn]; simp [hr0]
  have ie : cellId m' .edge e = min n6 e := by rw [idN e he.1 hn, u1]; simp [s6.1.1]
  have ir : cellId m' .edge (m.β 2 e) = min n3 (m.β 2 e) := by rw [idN _ hr0 hr, u3]; simp [s3.1.1]
  have i1 : cellId m' .edge n1 = min n2 n1 := by rw [idN _ s1.1.1 s1.1.2.1, u5]; simp [s2.1.1]
  have i4 : cellId m' .edge n4 = min n5 n4 := by rw [idN _ s4.1.1 s4.1.2.1, u7]; simp [s5.1.1]
  refine ⟨⟨ie0, ie, ir, i1, i4⟩, ?_⟩
  have regL : lfa.isSome → regd cfg stFA = true := by
    intro hh
    by_cases hr' : regd cfg stFA = true
    · exact hr'
    · rw [hlfa, if_neg hr'] at hh; simp at hh
  have regR : rfa.isSome → regd cfg stFA = true := by
    intro hh
    by_cases hr' : regd cfg stFA = true
    · exact hr'
    · rw [hrfa, if_neg hr'] at hh; simp at hh
  obtain ⟨_, h⟩ := HC.C15.rB_ok h
  rw [b4, Fe 2] at h
  -- the two face anchors are taken
  obtain ⟨lfa', m5, r5, h⟩ := run_bind_ok h
  have I5 := inv_attrOnly (ao_takeFaceAnchor cfg m.n e) I4 r5
  obtain ⟨fc5', _⟩ := keeps0_takeFaceAnchor cfg m.n e m4 m5 lfa' r5
  have st45 := AttrOnly.run_ok (ao_takeFaceAnchor cfg m.n e) r5
  have takeL : lfa' = lfa ∧ ∀ x, m5.att stFA x = if lfa.isSome ∧ x = FL then none else m.att stFA x := by
    unfold takeFaceAnchor at r5
    by_cases hr' : regd cfg stFA = true
    · simp only [hr', if_true] at r5
      obtain ⟨fid, hfid, r5⟩ := ro_bind_ok (readOnly_faceId2 _ _) r5
      have := (C03_faceId2_min I4.wf he.1 (by rw [n4']; exact hn)).1
      rw [n4'] at this
      have efid : fid = FL := by rw [run_inj hfid this]; exact fidL
      rcases removeAttr_ok r5 with ⟨hf, _, _⟩ | ⟨_, hok, rfl, ho⟩
      · rw [hr'] at hf; exact absurd hf (by simp)
      · have hfe : lfa = m.att stFA FL := by rw [hlfa, if_pos hr']
        refine ⟨by rw [hfe, ho, efid, at4], fun x => ?_⟩
        rw [Map.att_setA, at4, efid]
        rw [efid] at hok
        by_cases hx : FL = x
        · subst hx
          rw [hfe]
          simp only [hok, and_true, true_and, if_true]
          cases m.att stFA FL <;> simp
        · have hx' : ¬ x = FL := fun hh => hx hh.symm
          simp [hx, hx']
    · simp [hr'] at r5
      have hfn : lfa = none := by rw [hlfa, if_neg hr']
      exact ⟨by rw [← r5.1, hfn], fun x => by rw [← r5.2, at4, hfn]; simp⟩
  obtain ⟨hl', at5F⟩ := takeL
  rw [hl'] at h
  obtain ⟨rfa', m6, r6, h⟩ := run_bind_ok h
  have I6 := inv_attrOnly (ao_takeFaceAnchor cfg m.n (m.β 2 e)) I5 r6
  obtain ⟨fc6', _⟩ := keeps0_takeFaceAnchor cfg m.n (m.β 2 e) m5 m6 rfa' r6
  have fc6 : m6.fc = 0 := by rw [fc6', fc5']; exact fc4
  have st56 := AttrOnly.run_ok (ao_takeFaceAnchor cfg m.n (m.β 2 e)) r6
  have n5' : m5.n = m.n := I5.n_eq
  have takeR : rfa' = rfa ∧ ∀ x, m6.att stFA x = if rfa.isSome ∧ x = FR then none else m5.att stFA x := by
    unfold takeFaceAnchor at r6
    by_cases hr' : regd cfg stFA = true
    · simp only [hr', if_true] at r6
      obtain ⟨fid, hfid, r6⟩ := ro_bind_ok (readOnly_faceId2 _ _) r6
      have := (C03_faceId2_min I5.wf hr0 (by rw [n5']; exact hr)).1
      rw [n5'] at this
      have efid : fid = FR := by rw [run_inj hfid this, cellId_of_sameTopo st45]; exact fidR
      rcases removeAttr_ok r6 with ⟨hf, _, _⟩ | ⟨_, hok, rfl, ho⟩
      · rw [hr'] at hf; exact absurd hf (by simp)
      · have hfe : rfa = m5.att stFA FR := by
          rw [hrfa, if_pos hr', at5F, if_neg (fun hh => neLR hh.2.symm)]
        refine ⟨by rw [hfe, ho, efid], fun x => ?_⟩
        rw [Map.att_setA, efid]
        rw [efid] at hok
        by_cases hx : FR = x
        · subst hx
          rw [hfe]
          simp only [hok, and_true, true_and, if_true]
          cases m5.att stFA FR <;> simp
        · have hx' : ¬ x = FR := fun hh => hx hh.symm
          simp [hx, hx']
    · simp [hr'] at r6
      have hfn : rfa = none := by rw [hrfa, if_neg hr']
      exact ⟨by rw [← r6.1, hfn], fun x => by rw [← r6.2, hfn]; simp⟩
  obtain ⟨hr'', at6F⟩ := takeR
  rw [hr''] at h
  have A6 : ∀ x, m6.att stFA x = if (rfa.isSome ∧ x = FR) ∨ (lfa.isSome ∧ x = FL) then none else m.att stFA x := by
    intro x
    rw [at6F, at5F]
    by_cases c1 : rfa.isSome ∧ x = FR
    · simp [c1]
    · by_cases c2 : lfa.isSome ∧ x = FL
      · simp [c1, c2]
      · simp [c1, c2]
  have b6 : m6.β = F := by rw [β_of_sameTopo st56, β_of_sameTopo st45]; exact b4
  obtain ⟨ea, _, h⟩ := ro_bind_ok (ro_peekEdgeAnchor cfg e) h
  obtain ⟨_, h⟩ := HC.C15.rB_ok h
  obtain ⟨_, h⟩ := HC.C15.rB_ok h
  obtain ⟨_, h⟩ := HC.C15.rB_ok h
  obtain ⟨_, h⟩ := HC.C15.rB_ok h
  rw [b6, Fe 0, Fe 1, Fr 0, Fr 1] at h
  obtain ⟨vid1, _, h⟩ := ro_bind_ok (readOnly_vertexId2 _ _) h
  obtain ⟨vid2, _, h⟩ := ro_bind_ok (readOnly_vertexId2 _ _) h
  obtain ⟨newV, _, h⟩ := ro_bind_ok (ro_midpointOrRetry _ _) h
  obtain ⟨vid, _, h⟩ := ro_bind_ok (readOnly_vertexId2 _ _) h
  obtain ⟨old, m7, r7, h⟩ := run_bind_ok h
  have I7 := inv_attrOnly (ao_writeVtx vid newV) I6 r7
  have e7 : m7 = m6.setA 0 vid (some newV) := by
    unfold writeVtx at r7
    obtain ⟨_, r7⟩ := rA_ok r7
    obtain ⟨_, r7⟩ := wA_ok r7
    simp at r7
    exact r7.2.symm
  have b7 : m7.β = F := by rw [e7]; exact b6
  have fc7 : m7.fc = 0 := by rw [e7]; exact fc6
  have at7 : ∀ x, m7.att stEA x = m.att stEA x := fun x => by
    rw [e7, Map.att_setA]
    simp only [stEA, Nat.reduceEqDiff, false_and, if_false]
    rw [att_takeFaceAnchor_ne (by simp [stEA, stFA]) r6, att_takeFaceAnchor_ne (by simp [stEA, stFA]) r5, at4]
  have n7' : m7.n = m.n := I7.n_eq
  -- unsews and sews: the storage is neither vertex- nor edge-bound
  obtain ⟨_, m8, r8, h⟩ := run_bind_ok h
  have I8 := keeps_twoUnsew2 cfg m.n Le m7 m8 () I7 r8
  have b8 : m8.β = unl2 m7.β e := (step_twoUnsew2 r8).2.β
  obtain ⟨fc8, A, hAv, at8⟩ := edge_att_twoUnsew2 cfg I7.wf fc7 hEv hEe hA (by rw [n7']; exact hn) r8
  rw [b7, Fe 2] at hAv at8
  rw [at7] at hAv
  obtain ⟨_, m9, r9, h⟩ := run_bind_ok h
  have I9 := keeps_oneUnsew2 cfg m.n Le m8 m9 () I8 r9
  have b9 := unsew_step_beta cfg r9
  obtain ⟨fc9, at9⟩ := att_other_oneUnsew2 cfg fc8 hEv r9
  obtain ⟨_, m10, r10, h⟩ := run_bind_ok h
  have I10 := keeps_oneUnsew2 cfg m.n La m9 m10 () I9 r10
  have b10 := unsew_step_beta cfg r10
  obtain ⟨fc10, at10⟩ := att_other_oneUnsew2 cfg fc9 hEv r10
  obtain ⟨_, m11, r11, h⟩ := run_bind_ok h
  have I11 := keeps_oneUnsew2 cfg m.n Lr m10 m11 () I10 r11
  have b11 := unsew_step_beta cfg r11
  obtain ⟨fc11, at11⟩ := att_other_oneUnsew2 cfg fc10 hEv r11
  obtain ⟨_, m12, r12, h⟩ := run_bind_ok h
  have I12 := keeps_oneUnsew2 cfg m.n Lc m11 m12 () I11 r12
  have b12 := unsew_step_beta cfg r12
  obtain ⟨fc12, at12⟩ := att_other_oneUnsew2 cfg fc11 hEv r12
  have B12 : m12.β = unl1 (unl1 (unl1 (unl1 (unl2 F e) e) (m.β 1 e)) (m.β 2 e)) (m.β 1 (m.β 2 e)) := by
    rw [b12, b11, b10, b9, b8, b7]
  obtain ⟨_, m13, r13, h⟩ := run_bind_ok h
  have I13 := keeps_twoSew2 cfg m.n Le L6 q11 m12 m13 () I12 r13
  have b13 : m13.β = lnk2 m12.β e n6 := (step_twoSew2 r13).2.2.β
  have U12 : ∀ x, m12.att stEA x = if x = e ∨ x = m.β 2 e then some A else m.att stEA x := fun x => by
    rw [at12, at11, at10, at9, at8]
    by_cases hx : x = e ∨ x = m.β 2 e
    · rw [if_pos hx, if_pos hx]
    · rw [if_neg hx, if_neg hx, at7]
  have mn6 : min n6 e = n6 ∨ min n6 e = e := by
    rcases Nat.le_total n6 e with hh | hh
    · exact Or.inl (Nat.min_eq_left hh)
    · exact Or.inr (Nat.min_eq_right hh)
  have mn3 : min n3 (m.β 2 e) = n3 ∨ min n3 (m.β 2 e) = m.β 2 e := by
    rcases Nat.le_total n3 (m.β 2 e) with hh | hh
    · exact Or.inl (Nat.min_eq_left hh)
    · exact Or.inr (Nat.min_eq_right hh)
  obtain ⟨fc13, at13⟩ := edge_att_twoSew2_free (A := A) cfg fc12 hEe hA
    (by rw [B12]; simp [unl1_one', unl2_one', q1, Ne.symm q1, q2, Ne.symm q2, q3, Ne.symm q3, q4, Ne.symm q4, q5, Ne.symm q5, q6, Ne.symm q6, q7, Ne.symm q7, q8, Ne.symm q8, q9, Ne.symm q9, q10, Ne.symm q10, q11, Ne.symm q11, q12, Ne.symm q12, q13, Ne.symm q13, q14, Ne.symm q14, q15, Ne.symm q15, q16, Ne.symm q16, q17, Ne.symm q17, q18, Ne.symm q18, q19, Ne.symm q19, q20, Ne.symm q20, q21, Ne.symm q21, q22, Ne.symm q22, q23, Ne.symm q23, q24, Ne.symm q24, q25, Ne.symm q25, q26, Ne.symm q26, q27, Ne.symm q27, q28, Ne.symm q28, q29, Ne.symm q29, q30, Ne.symm q30, q31, Ne.symm q31, q32, Ne.symm q32, q33, Ne.symm q33, q34, Ne.symm q34, q35, Ne.symm q35, q36, Ne.symm q36, q37, Ne.symm q37, q38, Ne.symm q38, q39, Ne.symm q39, q40, Ne.symm q40, q41, Ne.symm q41, q42, Ne.symm q42, q43, Ne.symm q43, q44, Ne.symm q44, q45, Ne.symm q45, q46, Ne.symm q46, q47, Ne.symm q47, q48, Ne.symm q48, q49, Ne.symm q49, q50, Ne.symm q50, q51, Ne.symm q51, q52, Ne.symm q52, q53, Ne.symm q53, q54, Ne.symm q54, q55, Ne.symm q55, q56, Ne.symm q56, q57, Ne.symm q57, q58, Ne.symm q58, q59, Ne.symm q59, q60, Ne.symm q60, q61, Ne.symm q61, q62, Ne.symm q62, q63, Ne.symm q63, q64, Ne.symm q64, q65, Ne.symm q65, q66, Ne.symm q66])
    (by rw [B12]; simp [unl1_one', unl2_one', F1, q1, Ne.symm q1, q2, Ne.symm q2, q3, Ne.symm q3, q4, Ne.symm q4, q5, Ne.symm q5, q6, Ne.symm q6, q7, Ne.symm q7, q8, Ne.symm q8, q9, Ne.symm q9, q10, Ne.symm q10, q11, Ne.symm q11, q12, Ne.symm q12, q13, Ne.symm q13, q14, Ne.symm q14, q15, Ne.symm q15, q16, Ne.symm q16, q17, Ne.symm q17, q18, Ne.symm q18, q19, Ne.symm q19, q20, Ne.symm q20, q21, Ne.symm q21, q22, Ne.symm q22, q23, Ne.symm q23, q24, Ne.symm q24, q25, Ne.symm q25, q26, Ne.symm q26, q27, Ne.symm q27, q28, Ne.symm q28, q29, Ne.symm q29, q30, Ne.symm q30, q31, Ne.symm q31, q32, Ne.symm q32, q33, Ne.symm q33, q34, Ne.symm q34, q35, Ne.symm q35, q36, Ne.symm q36, q37, Ne.symm q37, q38, Ne.symm q38, q39, Ne.symm q39, q40, Ne.symm q40, q41, Ne.symm q41, q42, Ne.symm q42, q43, Ne.symm q43, q44, Ne.symm q44, q45, Ne.symm q45, q46, Ne.symm q46, q47, Ne.symm q47, q48, Ne.symm q48, q49, Ne.symm q49, q50, Ne.symm q50, q51, Ne.symm q51, q52, Ne.symm q52, q53, Ne.symm q53, q54, Ne.symm q54, q55, Ne.symm q55, q56, Ne.symm q56, q57, Ne.symm q57, q58, Ne.symm q58, q59, Ne.symm q59, q60, Ne.symm q60, q61, Ne.symm q61, q62, Ne.symm q62, q63, Ne.symm q63, q64, Ne.symm q64, q65, Ne.symm q65, q66, Ne.symm q66]) q11 s6.1.1
    (by rw [U12]; simp) (by rw [U12, if_neg (by simp [Ne.symm q11, Ne.symm q21])]; exact hnoneE.2) r13
  obtain ⟨_, m14, r14, h⟩ := run_bind_ok h
  have I14 := keeps_twoSew2 cfg m.n Lr L3 q18 m13 m14 () I13 r14
  have r13v : m13.att stEA (m.β 2 e) = some A := by
    rw [at13, if_neg (by rcases mn6 with hh | hh <;> rw [hh] <;> simp [q21, Ne.symm q1]),
      if_neg (by simp [Ne.symm q1, q21]), U12]
    simp
  have n13v : m13.att stEA n3 = none := by
    rw [at13, if_neg (by rcases mn6 with hh | hh <;> rw [hh] <;> simp [q63, Ne.symm q8]),
      if_neg (by simp [Ne.symm q8, q63]), U12, if_neg (by simp [Ne.symm q8, Ne.symm q18])]
    exact hnoneE.1
  obtain ⟨fc14, at14⟩ := edge_att_twoSew2_free (A := A) cfg fc13 hEe hA
    (by rw [b13, B12]; simp [lnk2_one', unl1_one', unl2_one', q1, Ne.symm q1, q2, Ne.symm q2, q3, Ne.symm q3, q4, Ne.symm q4, q5, Ne.symm q5, q6, Ne.symm q6, q7, Ne.symm q7, q8, Ne.symm q8, q9, Ne.symm q9, q10, Ne.symm q10, q11, Ne.symm q11, q12, Ne.symm q12, q13, Ne.symm q13, q14, Ne.symm q14, q15, Ne.symm q15, q16, Ne.symm q16, q17, Ne.symm q17, q18, Ne.symm q18, q19, Ne.symm q19, q20, Ne.symm q20, q21, Ne.symm q21, q22, Ne.symm q22, q23, Ne.symm q23, q24, Ne.symm q24, q25, Ne.symm q25, q26, Ne.symm q26, q27, Ne.symm q27, q28, Ne.symm q28, q29, Ne.symm q29, q30, Ne.symm q30, q31, Ne.symm q31, q32, Ne.symm q32, q33, Ne.symm q33, q34, Ne.symm q34, q35, Ne.symm q35, q36, Ne.symm q36, q37, Ne.symm q37, q38, Ne.symm q38, q39, Ne.symm q39, q40, Ne.symm q40, q41, Ne.symm q41, q42, Ne.symm q42, q43, Ne.symm q43, q44, Ne.symm q44, q45, Ne.symm q45, q46, Ne.symm q46, q47, Ne.symm q47, q48, Ne.symm q48, q49, Ne.symm q49, q50, Ne.symm q50, q51, Ne.symm q51, q52, Ne.symm q52, q53, Ne.symm q53, q54, Ne.symm q54, q55, Ne.symm q55, q56, Ne.symm q56, q57, Ne.symm q57, q58, Ne.symm q58, q59, Ne.symm q59, q60, Ne.symm q60, q61, Ne.symm q61, q62, Ne.symm q62, q63, Ne.symm q63, q64, Ne.symm q64, q65, Ne.symm q65, q66, Ne.symm q66])
    (by rw [b13, B12]; simp [lnk2_one', unl1_one', unl2_one', F1, q1, Ne.symm q1, q2, Ne.symm q2, q3, Ne.symm q3, q4, Ne.symm q4, q5, Ne.symm q5, q6, Ne.symm q6, q7, Ne.symm q7, q8, Ne.symm q8, q9, Ne.symm q9, q10, Ne.symm q10, q11, Ne.symm q11, q12, Ne.symm q12, q13, Ne.symm q13, q14, Ne.symm q14, q15, Ne.symm q15, q16, Ne.symm q16, q17, Ne.symm q17, q18, Ne.symm q18, q19, Ne.symm q19, q20, Ne.symm q20, q21, Ne.symm q21, q22, Ne.symm q22, q23, Ne.symm q23, q24, Ne.symm q24, q25, Ne.symm q25, q26, Ne.symm q26, q27, Ne.symm q27, q28, Ne.symm q28, q29, Ne.symm q29, q30, Ne.symm q30, q31, Ne.symm q31, q32, Ne.symm q32, q33, Ne.symm q33, q34, Ne.symm q34, q35, Ne.symm q35, q36, Ne.symm q36, q37, Ne.symm q37, q38, Ne.symm q38, q39, Ne.symm q39, q40, Ne.symm q40, q41, Ne.symm q41, q42, Ne.symm q42, q43, Ne.symm q43, q44, Ne.symm q44, q45, Ne.symm q45, q46, Ne.symm q46, q47, Ne.symm q47, q48, Ne.symm q48, q49, Ne.symm q49, q50, Ne.symm q50, q51, Ne.symm q51, q52, Ne.symm q52, q53, Ne.symm q53, q54, Ne.symm q54, q55, Ne.symm q55, q56, Ne.symm q56, q57, Ne.symm q57, q58, Ne.symm q58, q59, Ne.symm q59, q60, Ne.symm q60, q61, Ne.symm q61, q62, Ne.symm q62, q63, Ne.symm q63, q64, Ne.symm q64, q65, Ne.symm q65, q66, Ne.symm q66]) q18 s3.1.1 r13v n13v r14
  obtain ⟨_, m15, r15, h⟩ := run_bind_ok h
  have I15 := keeps_oneSew2 cfg m.n Le L1 m14 m15 () I14 r15
  obtain ⟨fc15, at15⟩ := att_other_oneSew2 cfg fc14 hEv r15
  obtain ⟨_, m16, r16, h⟩ := run_bind_ok h
  have I16 := keeps_oneSew2 cfg m.n L1 Lb m15 m16 () I15 r16
  obtain ⟨fc16, at16⟩ := att_other_oneSew2 cfg fc15 hEv r16
  obtain ⟨_, m17, r17, h⟩ := run_bind_ok h
  have I17 := keeps_oneSew2 cfg m.n L3 La m16 m17 () I16 r17
  obtain ⟨fc17, at17⟩ := att_other_oneSew2 cfg fc16 hEv r17
  obtain ⟨_, m18, r18, h⟩ := run_bind_ok h
  have I18 := keeps_oneSew2 cfg m.n La L2 m17 m18 () I17 r18
  obtain ⟨fc18, at18⟩ := att_other_oneSew2 cfg fc17 hEv r18
  obtain ⟨_, m19, r19, h⟩ := run_bind_ok h
  have I19 := keeps_oneSew2 cfg m.n Lr L4 m18 m19 () I18 r19
  obtain ⟨fc19, at19⟩ := att_other_oneSew2 cfg fc18 hEv r19
  obtain ⟨_, m20, r20, h⟩ := run_bind_ok h
  have I20 := keeps_oneSew2 cfg m.n L4 Ld m19 m20 () I19 r20
  obtain ⟨fc20, at20⟩ := att_other_oneSew2 cfg fc19 hEv r20
  obtain ⟨_, m21, r21, h⟩ := run_bind_ok h
  have I21 := keeps_oneSew2 cfg m.n L6 Lc m20 m21 () I20 r21
  obtain ⟨fc21, at21⟩ := att_other_oneSew2 cfg fc20 hEv r21
  obtain ⟨_, m22, r22, h⟩ := run_bind_ok h
  have I22 := keeps_oneSew2 cfg m.n Lc L5 m21 m22 () I21 r22
  obtain ⟨fc22, at22⟩ := att_other_oneSew2 cfg fc21 hEv r22
  have G22 : ∀ y, m22.att stEA y = if y = min n3 (m.β 2 e) then some A else if y = m.β 2 e ∨ y = n3 then none
      else if y = min n6 e then some A else if y = e ∨ y = n6 then none else m.att stEA y := by
    intro y
    rw [at22, at21, at20, at19, at18, at17, at16, at15, at14, at13, U12]
    by_cases c1 : y = min n3 (m.β 2 e)
    · simp [c1]
    · by_cases c2 : y = m.β 2 e ∨ y = n3
      · simp [c1, c2]
      · by_cases c3 : y = min n6 e
        · simp [c1, c2, c3]
        · by_cases c4 : y = e ∨ y = n6
          · simp [c1, c2, c3, c4]
          · have c2' : y ≠ m.β 2 e := fun hh => c2 (Or.inl hh)
            have c4' : y ≠ e := fun hh => c4 (Or.inl hh)
            simp [c1, c2, c3, c4, c2', c4']
  -- the anchor blocks
  obtain ⟨_, m23, r23, h⟩ := run_bind_ok h
  obtain ⟨_, m24, r24, h⟩ := run_bind_ok h
  have I23 := inv_attrOnly (ao_spreadFaceAnchor cfg m.n lfa n1 n2) I22 r23
  have st23 := AttrOnly.run_ok (ao_spreadFaceAnchor cfg m.n lfa n1 n2) r23
  have st24 := AttrOnly.run_ok (ao_spreadFaceAnchor cfg m.n rfa n4 n5) r24
  have st25 := AttrOnly.run_ok (ao_spreadEdgeAnchor cfg m.n ea n1) h
  have S23 := (spreadFaceAnchor_att cfg I22 regL s1.1.1 s1.1.2.1 s2.1.1 s2.1.2.1 r23).2
  have S24 := (spreadFaceAnchor_att cfg I23 regR s4.1.1 s4.1.2.1 s5.1.1 s5.1.2.1 r24).2
  rw [if_pos hregE] at S23 S24
  have last : ∀ x, m'.att stEA x = m24.att stEA x := by
    intro x
    cases ea with
    | none =>
        simp only [spreadEdgeAnchor, Prog.pure_eq, run_ret, Prod.mk.injEq, true_and] at h
        rw [h]
    | some a' =>
        simp only [spreadEdgeAnchor] at h
        obtain ⟨_, _, h⟩ := ro_bind_ok (readOnly_vertexId2 _ _) h
        obtain ⟨_, md, rd', h⟩ := run_bind_ok h
        simp only [Prog.pure_eq, run_ret, Prod.mk.injEq, true_and] at h
        rw [← h]
        exact att_writeAttr_ne (by simp [stEA, stVA]) rd' x
  have stA : SameTopo m22 m' := (st23.trans st24).trans st25
  have stB : SameTopo m23 m' := st24.trans st25
  have g1 : cellId m22 .edge n1 = min n2 n1 := by rw [← cellId_of_sameTopo stA, i1]
  have g4 : cellId m23 .edge n4 = min n5 n4 := by rw [← cellId_of_sameTopo stB, i4]
  refine ⟨A, hAv, fun x => ?_⟩
  rw [last, S24, g4]
  unfold innerEdgeAnchorsAfter
  have e22 : m22.att stEA = fun y => if y = min n3 (m.β 2 e) then some A else if y = m.β 2 e ∨ y = n3 then none
      else if y = min n6 e then some A else if y = e ∨ y = n6 then none else m.att stEA y := funext G22
  have : m23.att stEA = spreadEA (fun y => if y = min n3 (m.β 2 e) then some A else if y = m.β 2 e ∨ y = n3 then none
      else if y = min n6 e then some A else if y = e ∨ y = n6 then none else m.att stEA y) lfa (min n2 n1) := by
    funext y
    rw [S23, g1, e22]
  rw [this]


/-- **C15 (anchors), cut_inner_edge, every other storage**: a storage `t` that is neither vertex- nor edge-bound, is not
    the FaceAnchor storage and is not a REGISTERED EdgeAnchor / VertexAnchor storage keeps EVERY slot — in particular the
    slots 6 and 7 of a map without those anchor kinds -/
theorem C15_cutInner_other_storages (cfg : Cfg Val) (m m' : Map Val) (e n1 n2 n3 n4 n5 n6 t : Nat) (hwf : WF 3 m)
    (hfc : m.fc = 0) (he : C01.InUse m e)
    (h : run (cutInnerEdge cfg m.n e n1 n2 n3 n4 n5 n6) m = (.ok (), m'))
    (hr0 : m.β 2 e ≠ 0)
    (htl : m.β 1 (m.β 1 e) = m.β 0 e) (hb : m.β 0 e ≠ 0)
    (htr : m.β 1 (m.β 1 (m.β 2 e)) = m.β 0 (m.β 2 e)) (hd : m.β 0 (m.β 2 e) ≠ 0)
    (hs : ∀ x, x ∈ [n1, n2, n3, n4, n5, n6] → Spare m x)
    (hnd : [e, m.β 2 e, m.β 1 e, m.β 0 e, m.β 1 (m.β 2 e), m.β 0 (m.β 2 e), n1, n2, n3, n4, n5, n6].Nodup)
    (hFv : t ∉ vStores cfg) (hFe : t ∉ eStores cfg) (htF : t ≠ stFA) (htE : t = stEA → regd cfg stEA = false)
    (htV : t = stVA → regd cfg stVA = false) :
    ∀ x, m'.att t x = m.att t x := by
  have hn := he.2.1
  have hr : m.β 2 e < m.n := hwf.range 2 (by omega) e hn
  have a0 : m.β 1 e ≠ 0 := fun hh => hb (by rw [← htl, hh]; exact hwf.null 1 (by omega))
  have c0 : m.β 1 (m.β 2 e) ≠ 0 := fun hh => hd (by rw [← htr, hh]; exact hwf.null 1 (by omega))
  have ha : m.β 1 e < m.n := hwf.range 1 (by omega) e hn
  have hc : m.β 1 (m.β 2 e) < m.n := hwf.range 1 (by omega) _ hr
  have hbn : m.β 0 e < m.n := hwf.range 0 (by omega) e hn
  have hdn : m.β 0 (m.β 2 e) < m.n := hwf.range 0 (by omega) _ hr
  have er := (hwf.invol 2 (by omega) (by omega) e hn hr0).1
  have hnd' := hnd
  simp only [List.nodup_cons, List.mem_cons, List.mem_nil_iff, not_or, or_false, List.nodup_nil, and_true] at hnd'
  obtain ⟨⟨q1, q2, q3, q4, q5, q6, q7, q8, q9, q10, q11⟩, ⟨q12, q13, q14, q15, q16, q17, q18, q19, q20, q21⟩, ⟨q22, q23, q24, q25, q26, q27, q28, q29, q30⟩, ⟨q31, q32, q33, q34, q35, q36, q37, q38⟩, ⟨q39, q40, q41, q42, q43, q44, q45⟩, ⟨q46, q47, q48, q49, q50, q51⟩, ⟨q52, q53, q54, q55, q56⟩, ⟨q57, q58, q59, q60⟩, ⟨q61, q62, q63⟩, ⟨q64, q65⟩, q66, _⟩ := hnd'
  have s1 := hs n1 (by simp); have s2 := hs n2 (by simp); have s3 := hs n3 (by simp)
  have s4 := hs n4 (by simp); have s5 := hs n5 (by simp); have s6 := hs n6 (by simp)
  have L1 : Live m.n m.u n1 := Live.of_inUse s1.1
  have L2 : Live m.n m.u n2 := Live.of_inUse s2.1
  have L3 : Live m.n m.u n3 := Live.of_inUse s3.1
  have L4 : Live m.n m.u n4 := Live.of_inUse s4.1
  have L5 : Live m.n m.u n5 := Live.of_inUse s5.1
  have L6 : Live m.n m.u n6 := Live.of_inUse s6.1
  have Le : Live m.n m.u e := Live.of_inUse he
  have Lr := live_image hwf (by omega : 2 < 3) hn hr0
  have La := live_image hwf (by omega : 1 < 3) hn a0
  have Lb := live_image hwf (by omega : 0 < 3) hn hb
  have Lc := live_image hwf (by omega : 1 < 3) hr c0
  have Ld := live_image hwf (by omega : 0 < 3) hr hd
  have z : ∀ i, m.β i 0 = 0 := beta_zero hwf
  have sb : ∀ i, m.β i n1 = 0 ∧ m.β i n2 = 0 ∧ m.β i n3 = 0 ∧ m.β i n4 = 0 ∧ m.β i n5 = 0 ∧ m.β i n6 = 0 := fun i =>
    ⟨spare_beta hwf s1 i, spare_beta hwf s2 i, spare_beta hwf s3 i, spare_beta hwf s4 i, spare_beta hwf s5 i,
      spare_beta hwf s6 i⟩
  -- the four links of the spare darts
  unfold cutInnerEdge at h
  obtain ⟨_, m1, r1, h⟩ := run_bind_ok h
  have I1 := Keeps.twoLinkCore (X := Val) L1 L2 q52 m m1 _ (Inv.of_wf hwf) r1
  obtain ⟨_, _, st1⟩ := step_twoLinkCore r1
  obtain ⟨_, m2, r2, h⟩ := run_bind_ok h
  have I2 := Keeps.oneLinkCore (X := Val) L2 L3 m1 m2 _ I1 r2
  obtain ⟨_, _, st2⟩ := step_oneLinkCore r2
  obtain ⟨_, m3, r3, h⟩ := run_bind_ok h
  have I3 := Keeps.twoLinkCore (X := Val) L4 L5 q64 m2 m3 _ I2 r3
  obtain ⟨_, _, st3⟩ := step_twoLinkCore r3
  obtain ⟨_, m4, r4, h⟩ := run_bind_ok h
  have I4 := Keeps.oneLinkCore (X := Val) L5 L6 m3 m4 _ I3 r4
  obtain ⟨_, _, st4⟩ := step_oneLinkCore r4
  have b4 : m4.β = lnk1 (lnk2 (lnk1 (lnk2 m.β n1 n2) n2 n3) n4 n5) n5 n6 := by rw [st4.β, st3.β, st2.β, st1.β]
  have fc4 : m4.fc = 0 := by rw [(link1_fc r4).1, (linkI_fc r3).1, (link1_fc r2).1, (linkI_fc r1).1]; exact hfc
  have at4 : ∀ t x, m4.att t x = m.att t x := fun t x => by
    rw [(link1_fc r4).2.1, (linkI_fc r3).2.1, (link1_fc r2).2.1, (linkI_fc r1).2.1]
  -- the β function after the four links
  obtain ⟨F, hF⟩ : ∃ F, F = lnk1 (lnk2 (lnk1 (lnk2 m.β n1 n2) n2 n3) n4 n5) n5 n6 := ⟨_, rfl⟩
  rw [← hF] at b4
  have n0 : n1 ≠ 0 ∧ n2 ≠ 0 ∧ n3 ≠ 0 ∧ n4 ≠ 0 ∧ n5 ≠ 0 ∧ n6 ≠ 0 := ⟨s1.1.1, s2.1.1, s3.1.1, s4.1.1, s5.1.1, s6.1.1⟩
  have Fold : ∀ i x, x ≠ n1 → x ≠ n2 → x ≠ n3 → x ≠ n4 → x ≠ n5 → x ≠ n6 → F i x = m.β i x := by
    intro i x x1 x2 x3 x4 x5 x6
    rw [hF]; simp [lnk1, lnk2, upd_apply, Ne.symm x1, Ne.symm x2, Ne.symm x3, Ne.symm x4, Ne.symm x5, Ne.symm x6]
  have F1 : F 1 n1 = 0 ∧ F 1 n2 = n3 ∧ F 1 n3 = 0 ∧ F 1 n4 = 0 ∧ F 1 n5 = n6 ∧ F 1 n6 = 0 := by
    rw [hF]; simp [lnk1, lnk2, upd_apply, sb 1, q1, Ne.symm q1, q2, Ne.symm q2, q3, Ne.symm q3, q4, Ne.symm q4, q5, Ne.symm q5, q6, Ne.symm q6, q7, Ne.symm q7, q8, Ne.symm q8, q9, Ne.symm q9, q10, Ne.symm q10, q11, Ne.symm q11, q12, Ne.symm q12, q13, Ne.symm q13, q14, Ne.symm q14, q15, Ne.symm q15, q16, Ne.symm q16, q17, Ne.symm q17, q18, Ne.symm q18, q19, Ne.symm q19, q20, Ne.symm q20, q21, Ne.symm q21, q22, Ne.symm q22, q23, Ne.symm q23, q24, Ne.symm q24, q25, Ne.symm q25, q26, Ne.symm q26, q27, Ne.symm q27, q28, Ne.symm q28, q29, Ne.symm q29, q30, Ne.symm q30, q31, Ne.symm q31, q32, Ne.symm q32, q33, Ne.symm q33, q34, Ne.symm q34, q35, Ne.symm q35, q36, Ne.symm q36, q37, Ne.symm q37, q38, Ne.symm q38, q39, Ne.symm q39, q40, Ne.symm q40, q41, Ne.symm q41, q42, Ne.symm q42, q43, Ne.symm q43, q44, Ne.symm q44, q45, Ne.symm q45, q46, Ne.symm q46, q47, Ne.symm q47, q48, Ne.symm q48, q49, Ne.symm q49, q50, Ne.symm q50, q51, Ne.symm q51, q52, Ne.symm q52, q53, Ne.symm q53, q54, Ne.symm q54, q55, Ne.symm q55, q56, Ne.symm q56, q57, Ne.symm q57, q58, Ne.symm q58, q59, Ne.symm q59, q60, Ne.symm q60, q61, Ne.symm q61, q62, Ne.symm q62, q63, Ne.symm q63, q64, Ne.symm q64, q65, Ne.symm q65, q66, Ne.symm q66]
  have F2 : F 2 n1 = n2 ∧ F 2 n2 = n1 ∧ F 2 n3 = 0 ∧ F 2 n4 = n5 ∧ F 2 n5 = n4 ∧ F 2 n6 = 0 := by
    rw [hF]; simp [lnk1, lnk2, upd_apply, sb 2, q1, Ne.symm q1, q2, Ne.symm q2, q3, Ne.symm q3, q4, Ne.symm q4, q5, Ne.symm q5, q6, Ne.symm q6, q7, Ne.symm q7, q8, Ne.symm q8, q9, Ne.symm q9, q10, Ne.symm q10, q11, Ne.symm q11, q12, Ne.symm q12, q13, Ne.symm q13, q14, Ne.symm q14, q15, Ne.symm q15, q16, Ne.symm q16, q17, Ne.symm q17, q18, Ne.symm q18, q19, Ne.symm q19, q20, Ne.symm q20, q21, Ne.symm q21, q22, Ne.symm q22, q23, Ne.symm q23, q24, Ne.symm q24, q25, Ne.symm q25, q26, Ne.symm q26, q27, Ne.symm q27, q28, Ne.symm q28, q29, Ne.symm q29, q30, Ne.symm q30, q31, Ne.symm q31, q32, Ne.symm q32, q33, Ne.symm q33, q34, Ne.symm q34, q35, Ne.symm q35, q36, Ne.symm q36, q37, Ne.symm q37, q38, Ne.symm q38, q39, Ne.symm q39, q40, Ne.symm q40, q41, Ne.symm q41, q42, Ne.symm q42, q43, Ne.symm q43, q44, Ne.symm q44, q45, Ne.symm q45, q46, Ne.symm q46, q47, Ne.symm q47, q48, Ne.symm q48, q49, Ne.symm q49, q50, Ne.symm q50, q51, Ne.symm q51, q52, Ne.symm q52, q53, Ne.symm q53, q54, Ne.symm q54, q55, Ne.symm q55, q56, Ne.symm q56, q57, Ne.symm q57, q58, Ne.symm q58, q59, Ne.symm q59, q60, Ne.symm q60, q61, Ne.symm q61, q62, Ne.symm q62, q63, Ne.symm q63, q64, Ne.symm q64, q65, Ne.symm q65, q66, Ne.symm q66]
  have Fe : ∀ i, F i e = m.β i e := fun i => Fold i e q6 q7 q8 q9 q10 q11
  have Fr : ∀ i, F i (m.β 2 e) = m.β i (m.β 2 e) := fun i => Fold i _ q16 q17 q18 q19 q20 q21
  have Fa : ∀ i, F i (m.β 1 e) = m.β i (m.β 1 e) := fun i => Fold i _ q25 q26 q27 q28 q29 q30
  have Fc : ∀ i, F i (m.β 1 (m.β 2 e)) = m.β i (m.β 1 (m.β 2 e)) := fun i => Fold i _ q40 q41 q42 q43 q44 q45
  have t0 : t ≠ 0 := fun hh => hFv (by simp [vStores, hh])
  obtain ⟨_, h⟩ := HC.C15.rB_ok h
  rw [b4, Fe 2] at h
  -- the two face anchors are taken
  obtain ⟨lfa', m5, r5, h⟩ := run_bind_ok h
  have I5 := inv_attrOnly (ao_takeFaceAnchor cfg m.n e) I4 r5
  obtain ⟨fc5', _⟩ := keeps0_takeFaceAnchor cfg m.n e m4 m5 lfa' r5
  have st45 := AttrOnly.run_ok (ao_takeFaceAnchor cfg m.n e) r5
  have at5 := att_takeFaceAnchor_ne htF r5
  obtain ⟨rfa', m6, r6, h⟩ := run_bind_ok h
  have I6 := inv_attrOnly (ao_takeFaceAnchor cfg m.n (m.β 2 e)) I5 r6
  obtain ⟨fc6', _⟩ := keeps0_takeFaceAnchor cfg m.n (m.β 2 e) m5 m6 rfa' r6
  have fc6 : m6.fc = 0 := by rw [fc6', fc5']; exact fc4
  have st56 := AttrOnly.run_ok (ao_takeFaceAnchor cfg m.n (m.β 2 e)) r6
  have at6 := att_takeFaceAnchor_ne htF r6
  have b6 : m6.β = F := by rw [β_of_sameTopo st56, β_of_sameTopo st45]; exact b4
  obtain ⟨ea, _, h⟩ := ro_bind_ok (ro_peekEdgeAnchor cfg e) h
  obtain ⟨_, h⟩ := HC.C15.rB_ok h
  obtain ⟨_, h⟩ := HC.C15.rB_ok h
  obtain ⟨_, h⟩ := HC.C15.rB_ok h
  obtain ⟨_, h⟩ := HC.C15.rB_ok h
  rw [b6, Fe 0, Fe 1, Fr 0, Fr 1] at h
  obtain ⟨vid1, _, h⟩ := ro_bind_ok (readOnly_vertexId2 _ _) h
  obtain ⟨vid2, _, h⟩ := ro_bind_ok (readOnly_vertexId2 _ _) h
  obtain ⟨newV, _, h⟩ := ro_bind_ok (ro_midpointOrRetry _ _) h
  obtain ⟨vid, _, h⟩ := ro_bind_ok (readOnly_vertexId2 _ _) h
  obtain ⟨old, m7, r7, h⟩ := run_bind_ok h
  have I7 := inv_attrOnly (ao_writeVtx vid newV) I6 r7
  have e7 : m7 = m6.setA 0 vid (some newV) := by
    unfold writeVtx at r7
    obtain ⟨_, r7⟩ := rA_ok r7
    obtain ⟨_, r7⟩ := wA_ok r7
    simp at r7
    exact r7.2.symm
  have b7 : m7.β = F := by rw [e7]; exact b6
  have fc7 : m7.fc = 0 := by rw [e7]; exact fc6
  have at7 : ∀ x, m7.att t x = m6.att t x := fun x => by rw [e7, Map.att_setA]; simp [Ne.symm t0]
  -- unsews and sews: the storage is neither vertex- nor edge-bound
  obtain ⟨_, m8, r8, h⟩ := run_bind_ok h
  have I8 := keeps_twoUnsew2 cfg m.n Le m7 m8 () I7 r8
  have b8 : m8.β = unl2 m7.β e := (step_twoUnsew2 r8).2.β
  obtain ⟨fc8, at8⟩ := att_other_twoUnsew2 cfg fc7 hFv hFe r8
  obtain ⟨_, m9, r9, h⟩ := run_bind_ok h
  have I9 := keeps_oneUnsew2 cfg m.n Le m8 m9 () I8 r9
  have b9 := unsew_step_beta cfg r9
  obtain ⟨fc9, at9⟩ := att_other_oneUnsew2 cfg fc8 hFv r9
  obtain ⟨_, m10, r10, h⟩ := run_bind_ok h
  have I10 := keeps_oneUnsew2 cfg m.n La m9 m10 () I9 r10
  have b10 := unsew_step_beta cfg r10
  obtain ⟨fc10, at10⟩ := att_other_oneUnsew2 cfg fc9 hFv r10
  obtain ⟨_, m11, r11, h⟩ := run_bind_ok h
  have I11 := keeps_oneUnsew2 cfg m.n Lr m10 m11 () I10 r11
  have b11 := unsew_step_beta cfg r11
  obtain ⟨fc11, at11⟩ := att_other_oneUnsew2 cfg fc10 hFv r11
  obtain ⟨_, m12, r12, h⟩ := run_bind_ok h
  have I12 := keeps_oneUnsew2 cfg m.n Lc m11 m12 () I11 r12
  have b12 := unsew_step_beta cfg r12
  obtain ⟨fc12, at12⟩ := att_other_oneUnsew2 cfg fc11 hFv r12
  have B12 : m12.β = unl1 (unl1 (unl1 (unl1 (unl2 F e) e) (m.β 1 e)) (m.β 2 e)) (m.β 1 (m.β 2 e)) := by
    rw [b12, b11, b10, b9, b8, b7]
  obtain ⟨_, m13, r13, h⟩ := run_bind_ok h
  have I13 := keeps_twoSew2 cfg m.n Le L6 q11 m12 m13 () I12 r13
  have b13 : m13.β = lnk2 m12.β e n6 := (step_twoSew2 r13).2.2.β
  obtain ⟨fc13, at13⟩ := att_other_twoSew2_free cfg fc12 hFe
    (by rw [B12]; simp [unl1_one', unl2_one', q1, Ne.symm q1, q2, Ne.symm q2, q3, Ne.symm q3, q4, Ne.symm q4, q5, Ne.symm q5, q6, Ne.symm q6, q7, Ne.symm q7, q8, Ne.symm q8, q9, Ne.symm q9, q10, Ne.symm q10, q11, Ne.symm q11, q12, Ne.symm q12, q13, Ne.symm q13, q14, Ne.symm q14, q15, Ne.symm q15, q16, Ne.symm q16, q17, Ne.symm q17, q18, Ne.symm q18, q19, Ne.symm q19, q20, Ne.symm q20, q21, Ne.symm q21, q22, Ne.symm q22, q23, Ne.symm q23, q24, Ne.symm q24, q25, Ne.symm q25, q26, Ne.symm q26, q27, Ne.symm q27, q28, Ne.symm q28, q29, Ne.symm q29, q30, Ne.symm q30, q31, Ne.symm q31, q32, Ne.symm q32, q33, Ne.symm q33, q34, Ne.symm q34, q35, Ne.symm q35, q36, Ne.symm q36, q37, Ne.symm q37, q38, Ne.symm q38, q39, Ne.symm q39, q40, Ne.symm q40, q41, Ne.symm q41, q42, Ne.symm q42, q43, Ne.symm q43, q44, Ne.symm q44, q45, Ne.symm q45, q46, Ne.symm q46, q47, Ne.symm q47, q48, Ne.symm q48, q49, Ne.symm q49, q50, Ne.symm q50, q51, Ne.symm q51, q52, Ne.symm q52, q53, Ne.symm q53, q54, Ne.symm q54, q55, Ne.symm q55, q56, Ne.symm q56, q57, Ne.symm q57, q58, Ne.symm q58, q59, Ne.symm q59, q60, Ne.symm q60, q61, Ne.symm q61, q62, Ne.symm q62, q63, Ne.symm q63, q64, Ne.symm q64, q65, Ne.symm q65, q66, Ne.symm q66])
    (by rw [B12]; simp [unl1_one', unl2_one', F1, q1, Ne.symm q1, q2, Ne.symm q2, q3, Ne.symm q3, q4, Ne.symm q4, q5, Ne.symm q5, q6, Ne.symm q6, q7, Ne.symm q7, q8, Ne.symm q8, q9, Ne.symm q9, q10, Ne.symm q10, q11, Ne.symm q11, q12, Ne.symm q12, q13, Ne.symm q13, q14, Ne.symm q14, q15, Ne.symm q15, q16, Ne.symm q16, q17, Ne.symm q17, q18, Ne.symm q18, q19, Ne.symm q19, q20, Ne.symm q20, q21, Ne.symm q21, q22, Ne.symm q22, q23, Ne.symm q23, q24, Ne.symm q24, q25, Ne.symm q25, q26, Ne.symm q26, q27, Ne.symm q27, q28, Ne.symm q28, q29, Ne.symm q29, q30, Ne.symm q30, q31, Ne.symm q31, q32, Ne.symm q32, q33, Ne.symm q33, q34, Ne.symm q34, q35, Ne.symm q35, q36, Ne.symm q36, q37, Ne.symm q37, q38, Ne.symm q38, q39, Ne.symm q39, q40, Ne.symm q40, q41, Ne.symm q41, q42, Ne.symm q42, q43, Ne.symm q43, q44, Ne.symm q44, q45, Ne.symm q45, q46, Ne.symm q46, q47, Ne.symm q47, q48, Ne.symm q48, q49, Ne.symm q49, q50, Ne.symm q50, q51, Ne.symm q51, q52, Ne.symm q52, q53, Ne.symm q53, q54, Ne.symm q54, q55, Ne.symm q55, q56, Ne.symm q56, q57, Ne.symm q57, q58, Ne.symm q58, q59, Ne.symm q59, q60, Ne.symm q60, q61, Ne.symm q61, q62, Ne.symm q62, q63, Ne.symm q63, q64, Ne.symm q64, q65, Ne.symm q65, q66, Ne.symm q66]) r13
  obtain ⟨_, m14, r14, h⟩ := run_bind_ok h
  have I14 := keeps_twoSew2 cfg m.n Lr L3 q18 m13 m14 () I13 r14
  obtain ⟨fc14, at14⟩ := att_other_twoSew2_free cfg fc13 hFe
    (by rw [b13, B12]; simp [lnk2_one', unl1_one', unl2_one', q1, Ne.symm q1, q2, Ne.symm q2, q3, Ne.symm q3, q4, Ne.symm q4, q5, Ne.symm q5, q6, Ne.symm q6, q7, Ne.symm q7, q8, Ne.symm q8, q9, Ne.symm q9, q10, Ne.symm q10, q11, Ne.symm q11, q12, Ne.symm q12, q13, Ne.symm q13, q14, Ne.symm q14, q15, Ne.symm q15, q16, Ne.symm q16, q17, Ne.symm q17, q18, Ne.symm q18, q19, Ne.symm q19, q20, Ne.symm q20, q21, Ne.symm q21, q22, Ne.symm q22, q23, Ne.symm q23, q24, Ne.symm q24, q25, Ne.symm q25, q26, Ne.symm q26, q27, Ne.symm q27, q28, Ne.symm q28, q29, Ne.symm q29, q30, Ne.symm q30, q31, Ne.symm q31, q32, Ne.symm q32, q33, Ne.symm q33, q34, Ne.symm q34, q35, Ne.symm q35, q36, Ne.symm q36, q37, Ne.symm q37, q38, Ne.symm q38, q39, Ne.symm q39, q40, Ne.symm q40, q41, Ne.symm q41, q42, Ne.symm q42, q43, Ne.symm q43, q44, Ne.symm q44, q45, Ne.symm q45, q46, Ne.symm q46, q47, Ne.symm q47, q48, Ne.symm q48, q49, Ne.symm q49, q50, Ne.symm q50, q51, Ne.symm q51, q52, Ne.symm q52, q53, Ne.symm q53, q54, Ne.symm q54, q55, Ne.symm q55, q56, Ne.symm q56, q57, Ne.symm q57, q58, Ne.symm q58, q59, Ne.symm q59, q60, Ne.symm q60, q61, Ne.symm q61, q62, Ne.symm q62, q63, Ne.symm q63, q64, Ne.symm q64, q65, Ne.symm q65, q66, Ne.symm q66])
    (by rw [b13, B12]; simp [lnk2_one', unl1_one', unl2_one', F1, q1, Ne.symm q1, q2, Ne.symm q2, q3, Ne.symm q3, q4, Ne.symm q4, q5, Ne.symm q5, q6, Ne.symm q6, q7, Ne.symm q7, q8, Ne.symm q8, q9, Ne.symm q9, q10, Ne.symm q10, q11, Ne.symm q11, q12, Ne.symm q12, q13, Ne.symm q13, q14, Ne.symm q14, q15, Ne.symm q15, q16, Ne.symm q16, q17, Ne.symm q17, q18, Ne.symm q18, q19, Ne.symm q19, q20, Ne.symm q20, q21, Ne.symm q21, q22, Ne.symm q22, q23, Ne.symm q23, q24, Ne.symm q24, q25, Ne.symm q25, q26, Ne.symm q26, q27, Ne.symm q27, q28, Ne.symm q28, q29, Ne.symm q29, q30, Ne.symm q30, q31, Ne.symm q31, q32, Ne.symm q32, q33, Ne.symm q33, q34, Ne.symm q34, q35, Ne.symm q35, q36, Ne.symm q36, q37, Ne.symm q37, q38, Ne.symm q38, q39, Ne.symm q39, q40, Ne.symm q40, q41, Ne.symm q41, q42, Ne.symm q42, q43, Ne.symm q43, q44, Ne.symm q44, q45, Ne.symm q45, q46, Ne.symm q46, q47, Ne.symm q47, q48, Ne.symm q48, q49, Ne.symm q49, q50, Ne.symm q50, q51, Ne.symm q51, q52, Ne.symm q52, q53, Ne.symm q53, q54, Ne.symm q54, q55, Ne.symm q55, q56, Ne.symm q56, q57, Ne.symm q57, q58, Ne.symm q58, q59, Ne.symm q59, q60, Ne.symm q60, q61, Ne.symm q61, q62, Ne.symm q62, q63, Ne.symm q63, q64, Ne.symm q64, q65, Ne.symm q65, q66, Ne.symm q66]) r14
  obtain ⟨_, m15, r15, h⟩ := run_bind_ok h
  have I15 := keeps_oneSew2 cfg m.n Le L1 m14 m15 () I14 r15
  obtain ⟨fc15, at15⟩ := att_other_oneSew2 cfg fc14 hFv r15
  obtain ⟨_, m16, r16, h⟩ := run_bind_ok h
  have I16 := keeps_oneSew2 cfg m.n L1 Lb m15 m16 () I15 r16
  obtain ⟨fc16, at16⟩ := att_other_oneSew2 cfg fc15 hFv r16
  obtain ⟨_, m17, r17, h⟩ := run_bind_ok h
  have I17 := keeps_oneSew2 cfg m.n L3 La m16 m17 () I16 r17
  obtain ⟨fc17, at17⟩ := att_other_oneSew2 cfg fc16 hFv r17
  obtain ⟨_, m18, r18, h⟩ := run_bind_ok h
  have I18 := keeps_oneSew2 cfg m.n La L2 m17 m18 () I17 r18
  obtain ⟨fc18, at18⟩ := att_other_oneSew2 cfg fc17 hFv r18
  obtain ⟨_, m19, r19, h⟩ := run_bind_ok h
  have I19 := keeps_oneSew2 cfg m.n Lr L4 m18 m19 () I18 r19
  obtain ⟨fc19, at19⟩ := att_other_oneSew2 cfg fc18 hFv r19
  obtain ⟨_, m20, r20, h⟩ := run_bind_ok h
  have I20 := keeps_oneSew2 cfg m.n L4 Ld m19 m20 () I19 r20
  obtain ⟨fc20, at20⟩ := att_other_oneSew2 cfg fc19 hFv r20
  obtain ⟨_, m21, r21, h⟩ := run_bind_ok h
  have I21 := keeps_oneSew2 cfg m.n L6 Lc m20 m21 () I20 r21
  obtain ⟨fc21, at21⟩ := att_other_oneSew2 cfg fc20 hFv r21
  obtain ⟨_, m22, r22, h⟩ := run_bind_ok h
  have I22 := keeps_oneSew2 cfg m.n Lc L5 m21 m22 () I21 r22
  obtain ⟨fc22, at22⟩ := att_other_oneSew2 cfg fc21 hFv r22
  obtain ⟨_, m23, r23, h⟩ := run_bind_ok h
  obtain ⟨_, m24, r24, h⟩ := run_bind_ok h
  have htE' : t ≠ stEA ∨ regd cfg stEA = false := by
    by_cases hh : t = stEA
    · exact Or.inr (htE hh)
    · exact Or.inl hh
  have spread : ∀ (s s' : Map Val) (fa : Option Val) (a b : Nat),
      run (spreadFaceAnchor cfg m.n fa a b) s = (.ok (), s') → ∀ x, s'.att t x = s.att t x := by
    intro s s' fa a b hrun x
    cases fa with
    | none =>
        simp only [spreadFaceAnchor, Prog.pure_eq, run_ret, Prod.mk.injEq, true_and] at hrun
        rw [hrun]
    | some v =>
        simp only [spreadFaceAnchor] at hrun
        obtain ⟨_, _, hrun⟩ := ro_bind_ok (readOnly_faceId2 _ _) hrun
        obtain ⟨_, _, hrun⟩ := ro_bind_ok (readOnly_faceId2 _ _) hrun
        obtain ⟨_, ma, ra, hrun⟩ := run_bind_ok hrun
        obtain ⟨_, mb, rb, hrun⟩ := run_bind_ok hrun
        have e1 := att_writeAttr_ne htF ra x
        have e2 := att_writeAttr_ne htF rb x
        by_cases hr' : regd cfg stEA = true
        · rw [if_pos hr'] at hrun
          obtain ⟨_, _, hrun⟩ := ro_bind_ok (readOnly_edgeId2 _) hrun
          obtain ⟨_, mc, rc, hrun⟩ := run_bind_ok hrun
          simp only [Prog.pure_eq, run_ret, Prod.mk.injEq, true_and] at hrun
          have tne : t ≠ stEA := by
            rcases htE' with hh | hh
            · exact hh
            · rw [hr'] at hh; exact absurd hh (by simp)
          rw [← hrun, att_writeAttr_ne tne rc x, e2, e1]
        · rw [if_neg hr'] at hrun
          simp only [Prog.pure_eq, run_ret, Prod.mk.injEq, true_and] at hrun
          rw [← hrun, e2, e1]
  have at23 := spread _ _ _ _ _ r23
  have at24 := spread _ _ _ _ _ r24
  have last : ∀ x, m'.att t x = m24.att t x := by
    intro x
    cases ea with
    | none =>
        simp only [spreadEdgeAnchor, Prog.pure_eq, run_ret, Prod.mk.injEq, true_and] at h
        rw [h]
    | some a' =>
        simp only [spreadEdgeAnchor] at h
        obtain ⟨_, _, h⟩ := ro_bind_ok (readOnly_vertexId2 _ _) h
        obtain ⟨_, md, rd', h⟩ := run_bind_ok h
        simp only [Prog.pure_eq, run_ret, Prod.mk.injEq, true_and] at h
        rw [← h]
        rcases writeAttr_ok rd' with ⟨_, rfl⟩ | ⟨hr', _, rfl⟩
        · rfl
        · rw [Map.att_setA]
          by_cases ht : t = stVA
          · rw [htV ht] at hr'; exact absurd hr' (by simp)
          · simp [Ne.symm ht]
  intro x
  rw [last, at24, at23, at22, at21, at20, at19, at18, at17, at16, at15, at14, at13, at12, at11, at10, at9, at8, at7, at6,
    at5, at4]


/-! ## collapse_edge: storages the kernel never writes -/

/-- a successful run (started without fault countdown) keeps the countdown and every slot of storage `t` -/
def KA (t : Nat) {α : Type} (p : P Val α) : Prop :=
  ∀ (m m' : Map Val) (a : α), m.fc = 0 → run p m = (.ok a, m') → m'.fc = 0 ∧ ∀ x, m'.att t x = m.att t x

section
variable {t : Nat} {α β : Type}

theorem KA.bind {p : P Val α} {q : α → P Val β} (hp : KA t p) (hq : ∀ a, KA t (q a)) : KA t (p.bind q) := by
  intro m m' b hfc h
  obtain ⟨a, m1, h1, h2⟩ := run_bind_ok h
  obtain ⟨f1, a1⟩ := hp m m1 a hfc h1
  obtain ⟨f2, a2⟩ := hq a m1 m' b f1 h2
  exact ⟨f2, fun x => by rw [a2, a1]⟩

theorem KA.ro {p : P Val α} (hp : ReadOnly p) : KA t p := by
  intro m m' a hfc h
  have := hp.run_ok h; subst this
  exact ⟨hfc, fun _ => rfl⟩

theorem KA.pure (a : α) : KA t (Pure.pure a : P Val α) := KA.ro (ReadOnly.pure a)
theorem KA.abort (e : Err) : KA t (HC.abort e : P Val α) := KA.ro (ReadOnly.abort e)

theorem KA.ite {c : Prop} [Decidable c] {p q : P Val α} (hp : KA t p) (hq : KA t q) : KA t (if c then p else q) := by
  split <;> assumption

theorem KA.ro_bind {p : P Val α} {q : α → P Val β} (hp : ReadOnly p) (hq : ∀ a, KA t (q a)) : KA t (p.bind q) :=
  KA.bind (KA.ro hp) hq

theorem KA.oneUnsew2 (cfg : Cfg Val) (k l : Nat) (ht : t ∉ vStores cfg) : KA t (HC.oneUnsew2 cfg k l) :=
  fun m m' _ hfc h => att_other_oneUnsew2 cfg hfc ht h

theorem KA.oneSew2 (cfg : Cfg Val) (k l r : Nat) (ht : t ∉ vStores cfg) : KA t (HC.oneSew2 cfg k l r) :=
  fun m m' _ hfc h => att_other_oneSew2 cfg hfc ht h

theorem KA.twoUnsew2 (cfg : Cfg Val) (k l : Nat) (ht : t ∉ vStores cfg) (hte : t ∉ eStores cfg) :
    KA t (HC.twoUnsew2 cfg k l) :=
  fun m m' _ hfc h => att_other_twoUnsew2 cfg hfc ht hte h

theorem KA.twoSew2 (cfg : Cfg Val) (k l r : Nat) (ht : t ∉ vStores cfg) (hte : t ∉ eStores cfg) :
    KA t (HC.twoSew2 cfg k l r) := by
  intro m m' u hfc h
  have t0 : t ∉ [0] := by intro hh; simp at hh; exact ht (by simp [vStores, hh])
  have ts : t ∉ storagesOf cfg 0 := fun hh => ht (by simp [vStores, hh])
  by_cases hl0 : m.β 1 l = 0 <;> by_cases hr0 : m.β 1 r = 0
  · exact att_other_twoSew2_free cfg hfc hte hl0 hr0 h
  · obtain ⟨_, _, m1, _, _, ma, _, _, hcore, _, _, mg1, mg2⟩ := C04_twoSew2_left cfg k l r m m' u hfc hl0 hr0 h
    have fc1 := linkI_fc hcore
    exact ⟨by rw [mg2.fc, mg1.fc, fc1.1]; exact hfc, fun x => by rw [mg2.other t x hte, mg1.other t x ht, fc1.2.1]⟩
  · obtain ⟨_, _, m1, _, _, ma, _, _, hcore, _, _, mg1, mg2⟩ := C04_twoSew2_right cfg k l r m m' u hfc hl0 hr0 h
    have fc1 := linkI_fc hcore
    exact ⟨by rw [mg2.fc, mg1.fc, fc1.1]; exact hfc, fun x => by rw [mg2.other t x hte, mg1.other t x ht, fc1.2.1]⟩
  · obtain ⟨_, _, _, _, m1, _, _, _, ma, mb, mc, md, _, _, _, _, _, hcore, _, _, _, g1, g2, g3, g4, g5⟩ :=
      C04_twoSew2_both cfg k l r m m' u hfc hl0 hr0 h
    have fc1 := linkI_fc hcore
    exact ⟨by rw [g5.fc, g4.fc, g3.fc, g2.fc, g1.fc, fc1.1]; exact hfc, fun x => by
      rw [g5.other t x hte, g4.other t x ts, g3.other t x ts, g2.other t x t0, g1.other t x t0, fc1.2.1]⟩

theorem KA.flag (d : Nat) : KA t (HC.removeFreeDartTx (X := Val) d) := by
  intro m m' a hfc h
  rw [run_removeFreeDartTx] at h
  by_cases hok : m.okU d = true
  · simp only [hok, if_true, Prod.mk.injEq] at h
    rw [← h.2]; exact ⟨hfc, fun _ => rfl⟩
  · simp [hok] at h

theorem KA.twoUnlinkCore (l : Nat) : KA t (iUnlinkCore (X := Val) 2 l) := by
  intro m m' a hfc h
  have := unlinkI_fc h
  exact ⟨by rw [this.1]; exact hfc, fun x => this.2.1 t x⟩

theorem KA.writeVtx (d : Nat) (v : Val) (t0 : t ≠ 0) : KA t (HC.writeVtx d v) := by
  intro m m' a hfc h
  unfold HC.writeVtx at h
  obtain ⟨_, h⟩ := rA_ok h
  obtain ⟨_, h⟩ := wA_ok h
  simp at h
  rw [← h.2]
  exact ⟨hfc, fun x => by rw [Map.att_setA]; simp [Ne.symm t0]⟩

theorem KA.writeAttr (cfg : Cfg Val) (s id : Nat) (v : Val) (hts : t = s → regd cfg s = false) :
    KA t (HC.writeAttr cfg s id v) := by
  intro m m' a hfc h
  rcases writeAttr_ok h with ⟨_, rfl⟩ | ⟨hr, _, rfl⟩
  · exact ⟨hfc, fun _ => rfl⟩
  · refine ⟨hfc, fun x => ?_⟩
    rw [Map.att_setA]
    by_cases hts' : t = s
    · rw [hts hts'] at hr; exact absurd hr (by simp)
    · simp [Ne.symm hts']

end

section
variable {t : Nat}

theorem ka_halfMid (cfg : Cfg Val) (k b0d d b1d : Nat) (ht : t ∉ vStores cfg) (hte : t ∉ eStores cfg) :
    KA t (halfMidG (fun _ => pure ()) cfg k b0d d b1d) := by
  unfold halfMidG
  refine KA.bind (KA.oneUnsew2 cfg k _ ht) fun _ => ?_
  refine KA.bind (KA.oneUnsew2 cfg k _ ht) fun _ => ?_
  refine KA.bind (KA.oneUnsew2 cfg k _ ht) fun _ => ?_
  refine KA.ro_bind (ReadOnly.rB _ _) fun x => ?_
  refine KA.ro_bind (ReadOnly.rB _ _) fun y => ?_
  refine KA.bind (KA.twoUnsew2 cfg k _ ht hte) fun _ => ?_
  refine KA.bind (KA.twoUnsew2 cfg k _ ht hte) fun _ => ?_
  refine KA.bind (KA.pure _) fun _ => ?_
  refine KA.bind (KA.twoSew2 cfg k _ _ ht hte) fun _ => ?_
  refine KA.bind (KA.flag _) fun _ => ?_
  refine KA.bind (KA.flag _) fun _ => ?_
  refine KA.bind (KA.flag _) fun _ => ?_
  exact KA.pure _

theorem ka_edgeToMidpoint (cfg : Cfg Val) (k b0l l b1l b0r r b1r : Nat) (ht : t ∉ vStores cfg) (hte : t ∉ eStores cfg) :
    KA t (edgeToMidpointG (fun _ => pure ()) cfg k b0l l b1l b0r r b1r) := by
  unfold edgeToMidpointG
  have rest : KA t (do
      let b2b0l ← rB 2 b0l
      halfMidG (fun _ => pure ()) cfg k b0l l b1l
      collapsedVid k b2b0l r b1r : P Val Nat) := by
    refine KA.ro_bind (ReadOnly.rB _ _) fun x => ?_
    refine KA.bind (ka_halfMid cfg k b0l l b1l ht hte) fun _ => ?_
    exact KA.ro (ro_collapsedVid _ _ _ _)
  refine KA.ite ?_ rest
  refine KA.bind (KA.twoUnsew2 cfg k _ ht hte) fun _ => ?_
  exact KA.bind (ka_halfMid cfg k b0r r b1r ht hte) fun _ => rest

theorem ka_halfBase (cfg : Cfg Val) (k dPe dE dNe : Nat) (ht : t ∉ vStores cfg) :
    KA t (halfBaseG (fun _ => pure ()) cfg k dPe dE dNe) := by
  unfold halfBaseG
  refine KA.ro_bind (ReadOnly.rB _ _) fun x => ?_
  refine KA.ro_bind (ReadOnly.rB _ _) fun y => ?_
  refine KA.ro_bind (ReadOnly.rB _ _) fun z => ?_
  refine KA.bind (KA.oneUnsew2 cfg k _ ht) fun _ => ?_
  refine KA.bind (KA.oneUnsew2 cfg k _ ht) fun _ => ?_
  refine KA.bind (KA.oneUnsew2 cfg k _ ht) fun _ => ?_
  refine KA.ite ?_ (KA.pure _)
  refine KA.bind (KA.oneUnsew2 cfg k _ ht) fun _ => ?_
  refine KA.bind (KA.oneUnsew2 cfg k _ ht) fun _ => ?_
  refine KA.bind (KA.twoUnlinkCore _) fun _ => ?_
  refine KA.bind (KA.flag _) fun _ => ?_
  refine KA.bind (KA.flag _) fun _ => ?_
  refine KA.bind (KA.flag _) fun _ => ?_
  refine KA.bind (KA.pure _) fun _ => ?_
  refine KA.bind (KA.oneSew2 cfg k _ _ ht) fun _ => ?_
  refine KA.bind (KA.pure _) fun _ => ?_
  exact KA.oneSew2 cfg k _ _ ht

theorem ka_baseWriteBack (cfg : Cfg Val) (newVid : Nat) (tv ta : Option Val) (t0 : t ≠ 0)
    (tV : t = stVA → regd cfg stVA = false) :
    KA t (do
      if newVid ≠ 0 then do
        match tv with
        | some v => do let _ ← writeVtx newVid v; pure ()
        | none => pure ()
        match ta with
        | some a => do let _ ← writeAttr cfg stVA newVid a; pure ()
        | none => pure ()
      else pure ()
      pure newVid : P Val Nat) := by
  refine KA.ite ?_ (KA.pure _)
  have j2 : KA t (match ta with
      | some a => do let _ ← writeAttr cfg stVA newVid a; pure newVid
      | none => pure newVid : P Val Nat) := by
    cases ta
    · exact KA.pure _
    · exact KA.bind (KA.writeAttr cfg _ _ _ tV) fun _ => KA.pure _
  cases tv
  · exact j2
  · exact KA.bind (KA.writeVtx _ _ t0) fun _ => j2

theorem ka_edgeToBase (cfg : Cfg Val) (k b0l l b1l b0r r b1r : Nat) (ht : t ∉ vStores cfg) (hte : t ∉ eStores cfg)
    (tV : t = stVA → regd cfg stVA = false) : KA t (edgeToBaseG (fun _ => pure ()) cfg k b0l l b1l b0r r b1r) := by
  have t0 : t ≠ 0 := fun hh => ht (by simp [vStores, hh])
  unfold edgeToBaseG
  refine KA.ro_bind (readOnly_vertexId2 _ _) fun lVid => ?_
  refine KA.ro_bind (ReadOnly.rA _ _) fun tv => ?_
  refine KA.ro_bind (ro_readAttr _ _ _) fun ta => ?_
  have rest : KA t (do
      let b2b0l ← rB 2 b0l
      halfBaseG (fun _ => pure ()) cfg k b0l l b1l
      let newVid ← collapsedVid k b2b0l r b1r
      if newVid ≠ 0 then do
        match tv with
        | some v => do let _ ← writeVtx newVid v; pure ()
        | none => pure ()
        match ta with
        | some a => do let _ ← writeAttr cfg stVA newVid a; pure ()
        | none => pure ()
      else pure ()
      pure newVid : P Val Nat) := by
    refine KA.ro_bind (ReadOnly.rB _ _) fun x => ?_
    refine KA.bind (ka_halfBase cfg k b0l l b1l ht) fun _ => ?_
    refine KA.ro_bind (ro_collapsedVid _ _ _ _) fun newVid => ?_
    exact ka_baseWriteBack cfg newVid tv ta t0 tV
  refine KA.ite ?_ rest
  refine KA.bind (KA.twoUnsew2 cfg k _ ht hte) fun _ => ?_
  exact KA.bind (ka_halfBase cfg k b1r r b0r ht) fun _ => rest

theorem ka_collapseEdge (cfg : Cfg Val) (k e : Nat) (ht : t ∉ vStores cfg) (hte : t ∉ eStores cfg)
    (tV : t = stVA → regd cfg stVA = false) :
    KA t (collapseEdge cfg k e) := by
  rw [← collapseEdgeG_nochk]
  unfold collapseEdgeG
  refine KA.ite (KA.abort _) ?_
  refine KA.ro_bind (ReadOnly.rB _ _) fun r => ?_
  refine KA.ro_bind (ReadOnly.rB _ _) fun b0l => ?_
  refine KA.ro_bind (ReadOnly.rB _ _) fun b1l => ?_
  refine KA.ro_bind (ReadOnly.rB _ _) fun b0r => ?_
  refine KA.ro_bind (ReadOnly.rB _ _) fun b1r => ?_
  refine KA.ro_bind (ReadOnly.rB _ _) fun _ => ?_
  refine KA.ite (KA.abort _) ?_
  refine KA.ro_bind ?_ fun bad => ?_
  · exact ReadOnly.ite (ReadOnly.bind (ReadOnly.rB _ _) fun _ => ReadOnly.pure _) (ReadOnly.pure _)
  · refine KA.ite (KA.abort _) ?_
    unfold collapseBodyG
    refine KA.ro_bind (ro_isCollapsible _ _ _) fun c => ?_
    refine KA.bind ?_ fun newVid => ?_
    · cases c
      · exact ka_edgeToMidpoint cfg k _ _ _ _ _ _ ht hte
      · exact ka_edgeToBase cfg k _ _ _ _ _ _ ht hte tV
      · exact ka_edgeToBase cfg k _ _ _ _ _ _ ht hte tV
    · refine KA.ro_bind (ro_isOrbitOrientationConsistent _ _) fun ok => ?_
      exact KA.ite (KA.abort _) (KA.pure _)

end

/-- **C15 (anchors), collapse_edge never writes the FaceAnchor storage (nor any storage that is neither vertex- nor
    edge-bound, other than a REGISTERED VertexAnchor storage)**: for EVERY map (no fault injected), EVERY successful
    `collapse_edge(e)` — midpoint or end-point variant, interior or boundary — leaves EVERY slot of such a storage
    unchanged.  The anchors of the removed triangles stay under their old identifiers, and no anchor is moved when a
    surviving face changes identifier: that is finding D15a (end-point variant); in the midpoint variant the surviving
    faces keep their identifiers (`C15_collapse_midpoint_face_anchors`). -/
theorem C15_collapse_other_storages (cfg : Cfg Val) (m m' : Map Val) (e v t : Nat) (hfc : m.fc = 0)
    (h : run (collapseEdge cfg m.n e) m = (.ok v, m'))
    (ht : t ∉ vStores cfg) (hte : t ∉ eStores cfg) (tV : t = stVA → regd cfg stVA = false) :
    ∀ x, m'.att t x = m.att t x :=
  (ka_collapseEdge cfg m.n e ht hte tV m m' v hfc h).2

/-- **C15 (anchors), midpoint collapse on an interior configuration, the face anchors**: under the hypotheses of
    `C15_collapse_midpoint_interior` (no VertexAnchor storage), the FaceAnchor storage being neither vertex- nor
    edge-bound: every dart outside the two removed triangles keeps its face identifier, and the anchor found there is the
    one found before: the face anchors of ALL surviving faces are kept -/
theorem C15_collapse_midpoint_face_anchors (cfg : Cfg Val) (m m' : Map Val) (e v : Nat) (hwf : WF 3 m) (hfc : m.fc = 0)
    (he : C01.InUse m e) (hreg : regd cfg stVA = false)
    (h : run (collapseEdge cfg m.n e) m = (.ok v, m'))
    (hr0 : m.β 2 e ≠ 0) (hb : m.β 0 e ≠ 0) (hd : m.β 0 (m.β 2 e) ≠ 0)
    (hx : m.β 2 (m.β 1 e) ≠ 0 ∧ m.β 2 (m.β 0 e) ≠ 0 ∧ m.β 2 (m.β 1 (m.β 2 e)) ≠ 0 ∧ m.β 2 (m.β 0 (m.β 2 e)) ≠ 0)
    (hnd : [e, m.β 2 e, m.β 1 e, m.β 0 e, m.β 1 (m.β 2 e), m.β 0 (m.β 2 e), m.β 2 (m.β 1 e), m.β 2 (m.β 0 e),
      m.β 2 (m.β 1 (m.β 2 e)), m.β 2 (m.β 0 (m.β 2 e))].Nodup)
    (hFv : stFA ∉ vStores cfg) (hFe : stFA ∉ eStores cfg) :
    ∀ x, x ≠ 0 → x < m.n → x ∉ [e, m.β 2 e, m.β 1 e, m.β 0 e, m.β 1 (m.β 2 e), m.β 0 (m.β 2 e)] →
      cellId m' .face x = cellId m .face x ∧ m'.att stFA (cellId m' .face x) = m.att stFA (cellId m .face x) := by
  have hn := he.2.1
  obtain ⟨hw', fl, _, _, _, f01, hn', _⟩ := C15_collapse_midpoint_interior cfg m m' e v hwf he hreg h hr0 hb hd hx hnd
  have att := C15_collapse_other_storages cfg m m' e v stFA hfc h hFv hFe (fun hh => by simp [stFA, stVA] at hh)
  -- the guards hold
  have g := h
  rw [C15_collapse_guards cfg m.n e m (fun i d hi hd => (hwf.toSized.okβ i d).2 ⟨hi, hd⟩)
    (fun i d hi hd => hwf.range i hi d hd) hn] at g
  simp only [he.1, if_false] at g
  have gl : m.β 1 (m.β 1 e) = m.β 0 e := by
    by_cases hh : m.β 1 (m.β 1 e) = m.β 0 e
    · exact hh
    · simp [hh] at g
  simp only [gl, ne_eq, not_true_eq_false, if_false] at g
  have gr : m.β 1 (m.β 1 (m.β 2 e)) = m.β 0 (m.β 2 e) := by
    by_cases hh : m.β 1 (m.β 1 (m.β 2 e)) = m.β 0 (m.β 2 e)
    · exact hh
    · simp [hh, hr0] at g
  have hr : m.β 2 e < m.n := hwf.range 2 (by omega) e hn
  have a0 : m.β 1 e ≠ 0 := fun hh => hb (by rw [← gl, hh]; exact hwf.null 1 (by omega))
  have c0 : m.β 1 (m.β 2 e) ≠ 0 := fun hh => hd (by rw [← gr, hh]; exact hwf.null 1 (by omega))
  have ha : m.β 1 e < m.n := hwf.range 1 (by omega) e hn
  have hc : m.β 1 (m.β 2 e) < m.n := hwf.range 1 (by omega) _ hr
  have p3' := hwf.inv10 e hn hb
  have q3' := hwf.inv10 _ hr hd
  have i1 := hwf.inv01 e hn a0
  have i4 := hwf.inv01 _ hr c0
  have i2 : m.β 0 (m.β 0 e) = m.β 1 e := by
    have := hwf.inv01 _ ha (by rw [gl]; exact hb); rw [gl] at this; exact this
  have i5 : m.β 0 (m.β 0 (m.β 2 e)) = m.β 1 (m.β 2 e) := by
    have := hwf.inv01 _ hc (by rw [gr]; exact hd); rw [gr] at this; exact this
  intro x x0 xn hxM
  have fr := cellId_frame hwf hw' hn' (pol := .face) trivial
    [e, m.β 2 e, m.β 1 e, m.β 0 e, m.β 1 (m.β 2 e), m.β 0 (m.β 2 e)]
    (by intro y hy; simp only [g2]; rw [(f01 y hy).2, (f01 y hy).1])
    (by
      intro y hy w hw
      simp only [List.mem_cons, List.mem_nil_iff, or_false] at hy
      simp only [g2, List.mem_cons, List.mem_nil_iff, or_false] at hw
      rcases hy with rfl | rfl | rfl | rfl | rfl | rfl <;> rcases hw with rfl | rfl <;>
        simp [gl, gr, p3', q3', i1, i2, i4, i5])
    (by
      intro y hy w hw
      simp only [g2, List.mem_cons, List.mem_nil_iff, or_false] at hw
      have z := (fl y hy).2
      rcases hw with rfl | rfl
      · exact Or.inl (z 1 (by omega))
      · exact Or.inl (z 0 (by omega)))
    x0 xn hxM
  exact ⟨fr.2, by rw [fr.2, att]⟩


/-- the write-back at the end of `collapse_edge_to_base` -/
theorem baseWriteBack_att (cfg : Cfg Val) (newVid : Nat) (tv ta : Option Val) {s s' : Map Val} {w : Nat}
    (h : run (do
      if newVid ≠ 0 then do
        match tv with
        | some v => do let _ ← writeVtx newVid v; pure ()
        | none => pure ()
        match ta with
        | some a => do let _ ← writeAttr cfg stVA newVid a; pure ()
        | none => pure ()
      else pure ()
      pure newVid : P Val Nat) s = (.ok w, s')) :
    w = newVid ∧ (newVid ≠ 0 → (∀ p, tv = some p → s'.att 0 newVid = some p) ∧
      (∀ a, ta = some a → regd cfg stVA = true → s'.att stVA newVid = some a)) := by
  by_cases hv : newVid ≠ 0
  · simp only [hv, ne_eq, not_false_eq_true, if_true] at h
    cases tv with
    | none =>
        cases ta with
        | none =>
            simp at h
            exact ⟨h.1.symm, fun _ => ⟨fun p hp => by simp at hp, fun a ha => by simp at ha⟩⟩
        | some a =>
            simp only at h
            obtain ⟨_, m1, r1, h⟩ := run_bind_ok h
            simp at h
            obtain ⟨rfl, rfl⟩ := h
            refine ⟨rfl, fun _ => ⟨fun p hp => by simp at hp, fun a' ha' hreg => ?_⟩⟩
            simp only [Option.some.injEq] at ha'
            subst ha'
            rcases writeAttr_ok r1 with ⟨hf, _⟩ | ⟨_, ok1, rfl⟩
            · rw [hreg] at hf; exact absurd hf (by simp)
            · rw [Map.att_setA]; simp [ok1]
    | some p =>
        simp only at h
        obtain ⟨_, m1, r1, h⟩ := run_bind_ok h
        have e1 : m1 = s.setA 0 newVid (some p) ∧ s.okA 0 newVid = true := by
          unfold writeVtx at r1
          obtain ⟨hok, r1⟩ := rA_ok r1
          obtain ⟨_, r1⟩ := wA_ok r1
          simp at r1
          exact ⟨r1.2.symm, hok⟩
        cases ta with
        | none =>
            simp at h
            obtain ⟨rfl, rfl⟩ := h
            refine ⟨rfl, fun _ => ⟨fun p' hp' => ?_, fun a ha => by simp at ha⟩⟩
            simp only [Option.some.injEq] at hp'
            subst hp'
            rw [e1.1, Map.att_setA]; simp [e1.2]
        | some a =>
            simp only at h
            obtain ⟨_, m2, r2, h⟩ := run_bind_ok h
            simp at h
            obtain ⟨rfl, rfl⟩ := h
            refine ⟨rfl, fun _ => ⟨fun p' hp' => ?_, fun a' ha' hreg => ?_⟩⟩
            · simp only [Option.some.injEq] at hp'
              subst hp'
              rw [att_writeAttr_ne (by simp [stVA]) r2, e1.1, Map.att_setA]; simp [e1.2]
            · simp only [Option.some.injEq] at ha'
              subst ha'
              rcases writeAttr_ok r2 with ⟨hf, _⟩ | ⟨_, ok2, rfl⟩
              · rw [hreg] at hf; exact absurd hf (by simp)
              · rw [Map.att_setA]; simp [ok2]
  · simp only [hv, if_false] at h
    simp at h
    exact ⟨h.1.symm, fun hh => absurd hh hv⟩

/-- `collapse_edge_to_base`: the vertex it returns (when not the null identifier) holds the position and the vertex
    anchor that the BASE vertex (the vertex of `l`) held before the call -/
theorem collapseEdgeToBase_target (cfg : Cfg Val) (m m' : Map Val) (b0l l b1l b0r r b1r vid : Nat) (hwf : WF 3 m)
    (hl0 : l ≠ 0) (hln : l < m.n)
    (h : run (collapseEdgeToBase cfg m.n b0l l b1l b0r r b1r) m = (.ok vid, m')) (hv : vid ≠ 0) :
    (∀ p, m.att 0 (cellId m .vertex l) = some p → m'.att 0 vid = some p) ∧
    (∀ a, regd cfg stVA = true → m.att stVA (cellId m .vertex l) = some a → m'.att stVA vid = some a) := by
  unfold collapseEdgeToBase at h
  obtain ⟨lVid, hlv, h⟩ := ro_bind_ok (readOnly_vertexId2 _ _) h
  have elv : lVid = cellId m .vertex l := run_inj hlv (C03_vertexId2_min hwf hl0 hln).1
  obtain ⟨_, h⟩ := rA_ok h
  obtain ⟨ta, hta, h⟩ := ro_bind_ok (ro_readAttr _ _ _) h
  have eta : regd cfg stVA = true → ta = m.att stVA lVid := by
    intro hr
    unfold readAttr at hta
    simp only [hr, if_true, run_rA'] at hta
    split at hta
    · simp at hta; exact hta.symm
    · simp at hta
  have fin : ∀ (s s' : Map Val) (newVid : Nat), run (do
      if newVid ≠ 0 then do
        match m.att 0 lVid with
        | some v => do let _ ← writeVtx newVid v; pure ()
        | none => pure ()
        match ta with
        | some a => do let _ ← writeAttr cfg stVA newVid a; pure ()
        | none => pure ()
      else pure ()
      pure newVid : P Val Nat) s = (.ok vid, s') →
      (∀ p, m.att 0 (cellId m .vertex l) = some p → s'.att 0 vid = some p) ∧
      (∀ a, regd cfg stVA = true → m.att stVA (cellId m .vertex l) = some a → s'.att stVA vid = some a) := by
    intro s s' newVid hh
    obtain ⟨ev, rest⟩ := baseWriteBack_att cfg newVid (m.att 0 lVid) ta hh
    subst ev
    obtain ⟨k1, k2⟩ := rest hv
    exact ⟨fun p hp => k1 p (by rw [elv]; exact hp), fun a hr ha => k2 a (by rw [eta hr, elv]; exact ha) hr⟩
  by_cases hr : r ≠ 0
  · simp only [hr, ne_eq, not_false_eq_true, if_true] at h
    obtain ⟨_, m1, _, h⟩ := run_bind_ok h
    obtain ⟨_, m2, _, h⟩ := run_bind_ok h
    obtain ⟨_, h⟩ := HC.C15.rB_ok h
    obtain ⟨_, m3, _, h⟩ := run_bind_ok h
    obtain ⟨newVid, _, h⟩ := ro_bind_ok (ro_collapsedVid _ _ _ _) h
    exact fin _ _ _ h
  · simp only [hr, if_false] at h
    obtain ⟨_, h⟩ := HC.C15.rB_ok h
    obtain ⟨_, m3, _, h⟩ := run_bind_ok h
    obtain ⟨newVid, _, h⟩ := ro_bind_ok (ro_collapsedVid _ _ _ _) h
    exact fin _ _ _ h

/-- **C15, collapse towards an end point: the target** (`Left`: the vertex of `e`; `Right`: the vertex of `β2 e`, for an interior edge): on ANY
    well-formed map — interior or boundary edge — whenever the anchors make `is_collapsible(e)` choose an end point and
    `collapse_edge(e)` succeeds with a non-null vertex `v`, the vertex `v` of the result holds the POSITION the chosen end
    point had and (with a VertexAnchor storage) its VERTEX ANCHOR — the lawful merge of the two end-point anchors, which
    is the chosen one by `C15_collapse_choice_target` -/
theorem C15_collapse_endpoint_target (cfg : Cfg Val) (m m' : Map Val) (e v : Nat) (hwf : WF 3 m) (he : C01.InUse m e)
    (h : run (collapseEdge cfg m.n e) m = (.ok v, m')) (hv : v ≠ 0) :
    ((run (isCollapsible cfg m.n e) m).1 = .ok .left →
      (∀ p, m.att 0 (cellId m .vertex e) = some p → m'.att 0 v = some p) ∧
      (∀ a, regd cfg stVA = true → m.att stVA (cellId m .vertex e) = some a → m'.att stVA v = some a)) ∧
    ((run (isCollapsible cfg m.n e) m).1 = .ok .right → m.β 2 e ≠ 0 →
      (∀ p, m.att 0 (cellId m .vertex (m.β 2 e)) = some p → m'.att 0 v = some p) ∧
      (∀ a, regd cfg stVA = true → m.att stVA (cellId m .vertex (m.β 2 e)) = some a → m'.att stVA v = some a)) := by
  have hn := he.2.1
  rw [C15_collapse_guards cfg m.n e m (fun i d hi hd => (hwf.toSized.okβ i d).2 ⟨hi, hd⟩)
    (fun i d hi hd => hwf.range i hi d hd) hn] at h
  simp only [he.1, if_false] at h
  by_cases g1 : m.β 1 (m.β 1 e) ≠ m.β 0 e
  · simp [g1] at h
  simp only [g1, if_false] at h
  by_cases g2 : m.β 2 e ≠ 0 ∧ m.β 1 (m.β 1 (m.β 2 e)) ≠ m.β 0 (m.β 2 e)
  · simp [g2] at h
  simp only [g2, if_false] at h
  unfold collapseBodyG at h
  obtain ⟨cc, hc0, h⟩ := ro_bind_ok (ro_isCollapsible _ _ _) h
  obtain ⟨vid, m1, r1, h2⟩ := run_bind_ok h
  obtain ⟨ok, _, h3⟩ := ro_bind_ok (ro_isOrbitOrientationConsistent _ _) h2
  have em : m' = m1 ∧ v = vid := by
    cases ok
    · simp at h3
    · simp at h3; exact ⟨h3.2.symm, h3.1.symm⟩
  obtain ⟨rfl, rfl⟩ := em
  constructor
  · intro hl
    rw [hc0] at hl
    simp only [Out.ok.injEq] at hl
    subst hl
    exact collapseEdgeToBase_target cfg m m' _ e _ _ _ _ v hwf he.1 hn r1 hv
  · intro hl r0
    rw [hc0] at hl
    simp only [Out.ok.injEq] at hl
    subst hl
    exact collapseEdgeToBase_target cfg m m' _ (m.β 2 e) _ _ _ _ v hwf r0 (hwf.range 2 (by omega) e hn) r1 hv


/-! ## collapse_edge: the vertex count -/

/-- **C15, vertex count of the interior midpoint collapse** (the clause that fails in finding D15f, under a hypothesis that
    excludes it): under the hypotheses of `C15_collapse_midpoint_interior`, the end points being different vertices, the
    face across the side `β1 e` being closed at `β2 (β1 e)`, and NO VERTEX BEING SPLIT by the call — two surviving darts
    that shared a vertex before still share one (`hkeep`; in a pinch, D15f, the survivors of an end point fall apart) —
    `iter_vertices` yields exactly one vertex less: the two end points have become one vertex, every other vertex is kept.
    Tools: every pair of the result is a path of the input or joins the two end points (`new_to_old`). -/
theorem C15_collapse_midpoint_vertex_count (cfg : Cfg Val) (m m' : Map Val) (e v : Nat) (hwf : WF 3 m)
    (he : C01.InUse m e) (hreg : regd cfg stVA = false)
    (h : run (collapseEdge cfg m.n e) m = (.ok v, m'))
    (hr0 : m.β 2 e ≠ 0) (hb : m.β 0 e ≠ 0) (hd : m.β 0 (m.β 2 e) ≠ 0)
    (hx : m.β 2 (m.β 1 e) ≠ 0 ∧ m.β 2 (m.β 0 e) ≠ 0 ∧ m.β 2 (m.β 1 (m.β 2 e)) ≠ 0 ∧ m.β 2 (m.β 0 (m.β 2 e)) ≠ 0)
    (hnd : [e, m.β 2 e, m.β 1 e, m.β 0 e, m.β 1 (m.β 2 e), m.β 0 (m.β 2 e), m.β 2 (m.β 1 e), m.β 2 (m.β 0 e),
      m.β 2 (m.β 1 (m.β 2 e)), m.β 2 (m.β 0 (m.β 2 e))].Nodup)
    (hends : cellId m .vertex e ≠ cellId m .vertex (m.β 2 e))
    (hq : m.β 1 (m.β 2 (m.β 1 e)) ≠ 0)
    (hkeep : ∀ p q, p ≠ 0 → p < m.n → q ≠ 0 → q < m.n →
      p ∉ [e, m.β 2 e, m.β 1 e, m.β 0 e, m.β 1 (m.β 2 e), m.β 0 (m.β 2 e)] →
      q ∉ [e, m.β 2 e, m.β 1 e, m.β 0 e, m.β 1 (m.β 2 e), m.β 0 (m.β 2 e)] →
      cellId m .vertex p = cellId m .vertex q → cellId m' .vertex p = cellId m' .vertex q) :
    (iterVertices2 m').length + 1 = (iterVertices2 m).length := by
  have hn := he.2.1
  obtain ⟨hw', fl, ⟨gb, ga, gd, gc⟩, frame, _, f01, hn', hu⟩ :=
    C15_collapse_midpoint_interior cfg m m' e v hwf he hreg h hr0 hb hd hx hnd
  obtain ⟨xa0, xb0, xc0, xd0⟩ := hx
  -- the guards hold
  have g := h
  rw [C15_collapse_guards cfg m.n e m (fun i d hi hd => (hwf.toSized.okβ i d).2 ⟨hi, hd⟩)
    (fun i d hi hd => hwf.range i hi d hd) hn] at g
  simp only [he.1, if_false] at g
  have gl : m.β 1 (m.β 1 e) = m.β 0 e := by
    by_cases hh : m.β 1 (m.β 1 e) = m.β 0 e
    · exact hh
    · simp [hh] at g
  simp only [gl, ne_eq, not_true_eq_false, if_false] at g
  have gr : m.β 1 (m.β 1 (m.β 2 e)) = m.β 0 (m.β 2 e) := by
    by_cases hh : m.β 1 (m.β 1 (m.β 2 e)) = m.β 0 (m.β 2 e)
    · exact hh
    · simp [hh, hr0] at g
  have hr : m.β 2 e < m.n := hwf.range 2 (by omega) e hn
  have a0 : m.β 1 e ≠ 0 := fun hh => hb (by rw [← gl, hh]; exact hwf.null 1 (by omega))
  have c0 : m.β 1 (m.β 2 e) ≠ 0 := fun hh => hd (by rw [← gr, hh]; exact hwf.null 1 (by omega))
  have ha : m.β 1 e < m.n := hwf.range 1 (by omega) e hn
  have hc : m.β 1 (m.β 2 e) < m.n := hwf.range 1 (by omega) _ hr
  have hbn : m.β 0 e < m.n := hwf.range 0 (by omega) e hn
  have hdn : m.β 0 (m.β 2 e) < m.n := hwf.range 0 (by omega) _ hr
  have er := (hwf.invol 2 (by omega) (by omega) e hn hr0).1
  have p3' := hwf.inv10 e hn hb
  have q3' := hwf.inv10 _ hr hd
  have ia := (hwf.invol 2 (by omega) (by omega) _ ha xa0).1
  have ic := (hwf.invol 2 (by omega) (by omega) _ hc xc0).1
  have Lxa := live_image hwf (by omega : 2 < 3) ha xa0
  have Lxb := live_image hwf (by omega : 2 < 3) hbn xb0
  have Lxc := live_image hwf (by omega : 2 < 3) hc xc0
  have Lxd := live_image hwf (by omega : 2 < 3) hdn xd0
  have hnd' := hnd
  simp only [List.nodup_cons, List.mem_cons, List.mem_nil_iff, not_or, or_false, List.nodup_nil, and_true] at hnd'
  obtain ⟨⟨e1, e2, e3, e4, e5, e7, e8, e9, e10⟩, ⟨r2, r3, r4, r5, r7, r8, r9, r10⟩, ⟨a3, a4, a5, a7, a8, a9, a10⟩,
    ⟨b4, b5, b7, b8, b9, b10⟩, ⟨c5, c7, c8, c9, c10⟩, ⟨d7, d8, d9, d10⟩, ⟨x78, x79, x710⟩, ⟨x89, x810⟩, x910, _⟩ := hnd'
  obtain ⟨S, hS⟩ : ∃ S : List Nat, S = [e, m.β 2 e, m.β 1 e, m.β 0 e, m.β 1 (m.β 2 e), m.β 0 (m.β 2 e)] := ⟨_, rfl⟩
  rw [← hS] at fl f01 hu hkeep
  have memS : ∀ x, x ∈ S ↔ (x = e ∨ x = m.β 2 e ∨ x = m.β 1 e ∨ x = m.β 0 e ∨ x = m.β 1 (m.β 2 e) ∨ x = m.β 0 (m.β 2 e)) := by
    intro x; rw [hS]; simp
  have xaS : m.β 2 (m.β 1 e) ∉ S := by rw [memS]; simp [Ne.symm e7, Ne.symm r7, Ne.symm a7, Ne.symm b7, Ne.symm c7, Ne.symm d7]
  have xbS : m.β 2 (m.β 0 e) ∉ S := by rw [memS]; simp [Ne.symm e8, Ne.symm r8, Ne.symm a8, Ne.symm b8, Ne.symm c8, Ne.symm d8]
  have xcS : m.β 2 (m.β 1 (m.β 2 e)) ∉ S := by
    rw [memS]; simp [Ne.symm e9, Ne.symm r9, Ne.symm a9, Ne.symm b9, Ne.symm c9, Ne.symm d9]
  have xdS : m.β 2 (m.β 0 (m.β 2 e)) ∉ S := by
    rw [memS]; simp [Ne.symm e10, Ne.symm r10, Ne.symm a10, Ne.symm b10, Ne.symm c10, Ne.symm d10]
  -- old pairs around the two triangles
  have pr : ∀ z u v, m.β 2 z = u → m.β 1 z = v → u ≠ 0 → v ≠ 0 → VC m u v := fun z u v e2 e1 u0 v0 =>
    Conn.fwd (.refl _) ⟨z, e2, e1, u0, v0⟩
  have o_xb_e : VC m (m.β 2 (m.β 0 e)) e := pr (m.β 0 e) _ _ rfl p3' xb0 he.1
  have o_e_c : VC m e (m.β 1 (m.β 2 e)) := pr (m.β 2 e) _ _ er rfl he.1 c0
  have o_xd_r : VC m (m.β 2 (m.β 0 (m.β 2 e))) (m.β 2 e) := pr (m.β 0 (m.β 2 e)) _ _ rfl q3' xd0 hr0
  have o_r_a : VC m (m.β 2 e) (m.β 1 e) := pr e _ _ rfl rfl hr0 a0
  have o_xa_b : VC m (m.β 2 (m.β 1 e)) (m.β 0 e) := pr (m.β 1 e) _ _ rfl gl xa0 hb
  have o_xc_d : VC m (m.β 2 (m.β 1 (m.β 2 e))) (m.β 0 (m.β 2 e)) := pr (m.β 1 (m.β 2 e)) _ _ rfl gr xc0 hd
  have ib := (hwf.invol 2 (by omega) (by omega) _ hbn xb0).1
  have id' := (hwf.invol 2 (by omega) (by omega) _ hdn xd0).1
  obtain ⟨AB, hAB⟩ : ∃ AB : Nat → Prop, AB = fun y => VC m y e ∨ VC m y (m.β 2 e) := ⟨_, rfl⟩
  have ABi : ∀ y, AB y ↔ (VC m y e ∨ VC m y (m.β 2 e)) := fun y => by rw [hAB]
  have ABc : ∀ y z, AB y → VC m y z → AB z := by
    intro y z hy hc
    rw [ABi] at hy ⊢
    rcases hy with hy | hy
    · exact Or.inl (hc.symm.trans hy)
    · exact Or.inr (hc.symm.trans hy)
  -- a pair of the result is a path of the input, or joins the two end points
  have step_old : ∀ u v, VPair m'.β u v → VC m u v ∨ (AB u ∧ AB v) := by
    rintro u v ⟨z, h2, h1, u0, v0⟩
    by_cases zS : z ∈ S
    · exact absurd ((fl z zS).2 1 (by omega)) (by rw [h1]; exact v0)
    · have h1' : m.β 1 z = v := by rw [← (f01 z zS).2]; exact h1
      by_cases z7 : z = m.β 2 (m.β 1 e)
      · right
        rw [z7] at h2 h1'
        rw [ga] at h2
        rw [← h2, ← h1', ABi, ABi]
        refine ⟨Or.inl o_xb_e, Or.inr ?_⟩
        exact ((pr (m.β 2 (m.β 1 e)) _ _ ia rfl a0 (by rw [h1']; exact v0)).symm.trans o_r_a.symm)
      · by_cases z8 : z = m.β 2 (m.β 0 e)
        · left
          rw [z8] at h2 h1'
          rw [gb] at h2
          rw [← h2, ← h1']
          exact o_xa_b.trans (pr (m.β 2 (m.β 0 e)) _ _ ib rfl hb (by rw [h1']; exact v0))
        · by_cases z9 : z = m.β 2 (m.β 1 (m.β 2 e))
          · right
            rw [z9] at h2 h1'
            rw [gc] at h2
            rw [← h2, ← h1', ABi, ABi]
            refine ⟨Or.inr o_xd_r, Or.inl ?_⟩
            exact ((pr (m.β 2 (m.β 1 (m.β 2 e))) _ _ ic rfl c0 (by rw [h1']; exact v0)).symm.trans o_e_c.symm)
          · by_cases z10 : z = m.β 2 (m.β 0 (m.β 2 e))
            · left
              rw [z10] at h2 h1'
              rw [gd] at h2
              rw [← h2, ← h1']
              exact o_xc_d.trans (pr (m.β 2 (m.β 0 (m.β 2 e))) _ _ id' rfl hd (by rw [h1']; exact v0))
            · left
              have zT : z ∉ [e, m.β 2 e, m.β 1 e, m.β 0 e, m.β 1 (m.β 2 e), m.β 0 (m.β 2 e), m.β 2 (m.β 1 e),
                  m.β 2 (m.β 0 e), m.β 2 (m.β 1 (m.β 2 e)), m.β 2 (m.β 0 (m.β 2 e))] := by
                rw [memS] at zS
                simp only [List.mem_cons, List.mem_nil_iff, not_or, or_false] at zS ⊢
                exact ⟨zS.1, zS.2.1, zS.2.2.1, zS.2.2.2.1, zS.2.2.2.2.1, zS.2.2.2.2.2, z7, z8, z9, z10⟩
              exact pr z u v (by rw [← frame 2 z zT]; exact h2) h1' u0 v0
  have new_to_old : ∀ p q, VC m' p q → VC m p q ∨ (AB p ∧ AB q) := by
    intro p q hc
    induction hc with
    | refl => exact Or.inl (.refl _)
    | fwd _ ed ih =>
        rcases ih with ih | ⟨ip, iy⟩ <;> rcases step_old _ _ ed with st | ⟨sy, sz⟩
        · exact Or.inl (ih.trans st)
        · exact Or.inr ⟨ABc _ _ sy ih.symm, sz⟩
        · exact Or.inr ⟨ip, ABc _ _ iy st⟩
        · exact Or.inr ⟨ip, sz⟩
    | bwd _ ed ih =>
        rcases ih with ih | ⟨ip, iy⟩ <;> rcases step_old _ _ ed with st | ⟨sz, sy⟩
        · exact Or.inl (ih.trans st.symm)
        · exact Or.inr ⟨ABc _ _ sy ih.symm, sz⟩
        · exact Or.inr ⟨ip, ABc _ _ iy st.symm⟩
        · exact Or.inr ⟨ip, sz⟩
  -- counting
  have nodup : ∀ mm : Map Val, (iterVertices2 mm).Nodup := fun mm =>
    ((C03_iter_sorted mm).1).imp (fun hab => Nat.ne_of_lt hab)
  have sameN : ∀ x y, x ≠ 0 → x < m.n → y ≠ 0 → y < m.n →
      (cellId m' .vertex x = cellId m' .vertex y ↔ VC m' x y) := fun x y x0 xn y0 yn =>
    vid_of_vc hw' x0 (by rw [hn']; exact xn) y0 (by rw [hn']; exact yn)
  have sameO : ∀ x y, x ≠ 0 → x < m.n → y ≠ 0 → y < m.n →
      (cellId m .vertex x = cellId m .vertex y ↔ VC m x y) := fun x y x0 xn y0 yn => vid_of_vc hwf x0 xn y0 yn
  -- a surviving dart of the old vertex of `x`
  obtain ⟨ρ, hρ⟩ : ∃ ρ : Nat → Nat, ρ = fun x =>
      if x = e ∨ x = m.β 1 (m.β 2 e) then m.β 2 (m.β 0 e)
      else if x = m.β 2 e ∨ x = m.β 1 e then m.β 2 (m.β 0 (m.β 2 e))
      else if x = m.β 0 e then m.β 2 (m.β 1 e)
      else if x = m.β 0 (m.β 2 e) then m.β 2 (m.β 1 (m.β 2 e)) else x := ⟨_, rfl⟩
  have ρok : ∀ x, x ≠ 0 → x < m.n → m.unused x = false →
      ρ x ≠ 0 ∧ ρ x < m.n ∧ m.unused (ρ x) = false ∧ ρ x ∉ S ∧ VC m (ρ x) x := by
    intro x x0 xn xu
    rw [hρ]
    simp only
    by_cases c1 : x = e ∨ x = m.β 1 (m.β 2 e)
    · rw [if_pos c1]
      refine ⟨xb0, Lxb.2.1, Lxb.2.2, xbS, ?_⟩
      rcases c1 with rfl | rfl
      · exact o_xb_e
      · exact o_xb_e.trans o_e_c
    · rw [if_neg c1]
      by_cases c2 : x = m.β 2 e ∨ x = m.β 1 e
      · rw [if_pos c2]
        refine ⟨xd0, Lxd.2.1, Lxd.2.2, xdS, ?_⟩
        rcases c2 with rfl | rfl
        · exact o_xd_r
        · exact o_xd_r.trans o_r_a
      · rw [if_neg c2]
        by_cases c3 : x = m.β 0 e
        · rw [if_pos c3, c3]; exact ⟨xa0, Lxa.2.1, Lxa.2.2, xaS, o_xa_b⟩
        · rw [if_neg c3]
          by_cases c4 : x = m.β 0 (m.β 2 e)
          · rw [if_pos c4, c4]; exact ⟨xc0, Lxc.2.1, Lxc.2.2, xcS, o_xc_d⟩
          · rw [if_neg c4]
            refine ⟨x0, xn, xu, ?_, .refl _⟩
            rw [memS]
            simp only [not_or]
            exact ⟨fun hh => c1 (Or.inl hh), fun hh => c2 (Or.inl hh), fun hh => c2 (Or.inr hh), c3,
              fun hh => c1 (Or.inr hh), c4⟩
  have oldid : ∀ a, a ∈ iterVertices2 m → a ≠ 0 ∧ a < m.n ∧ m.unused a = false ∧ cellId m .vertex a = a := by
    intro a ha'
    obtain ⟨d, hd0, hdn', hdu, rfl⟩ := (C03_iterVertices2_mem hwf a).1 ha'
    have f := vid_facts hwf hd0 hdn' hdu
    exact ⟨f.1, f.2.1, f.2.2.1, f.2.2.2.2.2⟩
  have keep : ∀ p q, p ≠ 0 → p < m.n → q ≠ 0 → q < m.n → p ∉ S → q ∉ S → VC m p q →
      cellId m' .vertex p = cellId m' .vertex q := fun p q p0 pn q0 qn pS qS hc =>
    hkeep p q p0 pn q0 qn pS qS ((sameO p q p0 pn q0 qn).2 hc)
  have idAin : cellId m .vertex e ∈ iterVertices2 m :=
    (C03_iterVertices2_mem hwf _).2 ⟨e, he.1, hn, he.2.2, rfl⟩
  have Lr := live_image hwf (by omega : 2 < 3) hn hr0
  have idBin : cellId m .vertex (m.β 2 e) ∈ iterVertices2 m :=
    (C03_iterVertices2_mem hwf _).2 ⟨_, hr0, hr, Lr.2.2, rfl⟩
  have ABid : ∀ a, a ∈ iterVertices2 m → AB a → a = cellId m .vertex e ∨ a = cellId m .vertex (m.β 2 e) := by
    intro a ha' hab
    obtain ⟨a0', an, _, ai⟩ := oldid a ha'
    rw [ABi] at hab
    rcases hab with hh | hh
    · left; rw [← ai]; exact (sameO a e a0' an he.1 hn).2 hh
    · right; rw [← ai]; exact (sameO a _ a0' an hr0 hr).2 hh
  have cnt := length_via_bijection (N := [cellId m .vertex (m.β 2 e)]) (N' := []) (nodup m) (nodup m')
    (fun x => cellId m' .vertex (ρ x)) (by simp) (by simp) (by intro x hx; simp at hx; rw [hx]; exact idBin) (by simp) ?_ ?_
  · simp at cnt; omega
  · intro a b ha' haN hb' hbN hab
    simp only [List.mem_cons, List.mem_nil_iff, or_false] at haN hbN
    obtain ⟨a0', an, au, ai⟩ := oldid a ha'
    obtain ⟨b0', bn, bu, bi⟩ := oldid b hb'
    obtain ⟨ra0, ran, _, raS, rar⟩ := ρok a a0' an au
    obtain ⟨rb0, rbn, _, rbS, rbr⟩ := ρok b b0' bn bu
    have hc := (sameN _ _ ra0 ran rb0 rbn).1 hab
    rcases new_to_old _ _ hc with ho | ⟨ha2, hb2⟩
    · have := (sameO a b a0' an b0' bn).2 ((rar.symm.trans ho).trans rbr)
      rw [ai, bi] at this; exact this
    · have ea := ABid a ha' (ABc _ _ ha2 rar)
      have eb := ABid b hb' (ABc _ _ hb2 rbr)
      rcases ea with ea | ea
      · rcases eb with eb | eb
        · rw [ea, eb]
        · exact absurd eb hbN
      · exact absurd ea haN
  · intro y
    simp only [List.not_mem_nil, not_false_eq_true, and_true, List.mem_cons, List.mem_nil_iff, or_false]
    constructor
    · intro hy
      obtain ⟨d, hd0, hdn', hdu, rfl⟩ := (C03_iterVertices2_mem hw' y).1 hy
      rw [hn'] at hdn'
      have dS : d ∉ S := fun hh => by rw [(fl d hh).1] at hdu; exact absurd hdu (by simp)
      rw [hu d dS] at hdu
      have f := vid_facts hwf hd0 hdn' hdu
      by_cases hB : cellId m .vertex d = cellId m .vertex (m.β 2 e)
      · -- a dart of the end point `B`: the image of the identifier of `A`
        obtain ⟨a0', an, au, ai⟩ := oldid _ idAin
        obtain ⟨ra0, ran, _, raS, rar⟩ := ρok _ a0' an au
        refine ⟨cellId m .vertex e, idAin, hends, ?_⟩
        have fe := vid_facts hwf he.1 hn he.2.2
        -- ρ(idA) ~ xb  (old), xb ~' β1 xa (new pair), β1 xa ~ d (old)
        have k1 : cellId m' .vertex (ρ (cellId m .vertex e)) = cellId m' .vertex (m.β 2 (m.β 0 e)) :=
          keep _ _ ra0 ran xb0 Lxb.2.1 raS xbS
            ((rar.trans ((vc_iff_reach hwf he.1).2 fe.2.2.2.2.1)).trans o_xb_e.symm)
        have qn : m.β 1 (m.β 2 (m.β 1 e)) < m.n := hwf.range 1 (by omega) _ Lxa.2.1
        have qS : m.β 1 (m.β 2 (m.β 1 e)) ∉ S := by
          intro hh
          have back := hwf.inv01 _ Lxa.2.1 hq
          rw [memS] at hh
          apply xaS
          rw [memS, ← back]
          rcases hh with hh | hh | hh | hh | hh | hh <;> rw [hh]
          · right; right; right; left; rfl
          · right; right; right; right; right; rfl
          · left; exact hwf.inv01 e hn a0
          · right; right; left
            have := hwf.inv01 _ ha (by rw [gl]; exact hb); rw [gl] at this; exact this
          · right; left; exact hwf.inv01 _ hr c0
          · right; right; right; right; left
            have := hwf.inv01 _ hc (by rw [gr]; exact hd); rw [gr] at this; exact this
        have k2 : cellId m' .vertex (m.β 2 (m.β 0 e)) = cellId m' .vertex (m.β 1 (m.β 2 (m.β 1 e))) :=
          (sameN _ _ xb0 Lxb.2.1 hq qn).2
            (Conn.fwd (.refl _) ⟨m.β 2 (m.β 1 e), ga, (f01 _ xaS).2, xb0, hq⟩)
        have k3 : cellId m' .vertex (m.β 1 (m.β 2 (m.β 1 e))) = cellId m' .vertex d := by
          refine keep _ _ hq qn hd0 hdn' qS dS ?_
          have q_a : VC m (m.β 1 e) (m.β 1 (m.β 2 (m.β 1 e))) := pr (m.β 2 (m.β 1 e)) _ _ ia rfl a0 hq
          have d_r : VC m d (m.β 2 e) := (sameO d _ hd0 hdn' hr0 hr).1 hB
          exact (q_a.symm.trans o_r_a.symm).trans d_r.symm
        rw [k1, k2, k3]
      · refine ⟨cellId m .vertex d, (C03_iterVertices2_mem hwf _).2 ⟨d, hd0, hdn', hdu, rfl⟩, hB, ?_⟩
        obtain ⟨rx0, rxn, _, rxS, rxr⟩ := ρok _ f.1 f.2.1 f.2.2.1
        exact keep _ _ rx0 rxn hd0 hdn' rxS dS (rxr.trans ((vc_iff_reach hwf hd0).2 f.2.2.2.2.1))
    · rintro ⟨x, hx, _, rfl⟩
      obtain ⟨x0, xn, xu, _⟩ := oldid x hx
      obtain ⟨rx0, rxn, rxu, rxS, _⟩ := ρok x x0 xn xu
      exact (C03_iterVertices2_mem hw' _).2 ⟨ρ x, rx0, by rw [hn']; exact rxn, by rw [hu _ rxS]; exact rxu, rfl⟩


/-! ## cut_inner_edge with a VertexAnchor storage: always refused -/

/-- the 2-sew of two 1-free darts, for a vertex-bound storage `T` that is not edge-bound (text of
    `vval_twoSew2_free`, Lemmas/RemeshValues.lean) -/
theorem vvalT_twoSew2_free (cfg : Cfg Val) {T : Nat} (hTe : T ∉ eStores cfg) {n l r : Nat} {s s' : Map Val} (hw : WF 3 s) (hw' : WF 3 s') (hn : s.n = n)
    (hfc : s.fc = 0) (hl0 : s.β 1 l = 0) (hr0 : s.β 1 r = 0) (hlr : l ≠ r)
    (hrun : run (twoSew2 cfg n l r) s = (.ok (), s')) :
    s'.β = lnk2 s.β l r ∧ s'.n = s.n ∧ s'.fc = 0 ∧ (∀ x y, VC s' x y ↔ VC s x y) ∧
    ∀ x, x ≠ 0 → x < n → vvalT T s' x = vvalT T s x := by
  subst hn
  obtain ⟨m1, eid, hcore, _, mg⟩ := C04_twoSew2_free cfg s.n l r s s' () hfc hl0 hr0 hrun
  obtain ⟨h2l, h2r, sc⟩ := step_twoLinkCore hcore
  have fc1 := linkI_fc hcore
  have hβ : s'.β = lnk2 s.β l r := by rw [β_of_sameTopo mg.topo]; exact sc.β
  have hn' : s'.n = s.n := by rw [mg.topo.n]; exact sc.n
  have pairs : ∀ u v, VPair s'.β u v ↔ VPair s.β u v := by
    intro u v
    rw [hβ, vpair_lnk2 h2l h2r hlr]
    constructor
    · rintro (e | ⟨_, hv, _, v0⟩ | ⟨_, hv, _, v0⟩)
      · exact e
      · rw [hl0] at hv; exact absurd hv v0
      · rw [hr0] at hv; exact absurd hv v0
    · exact Or.inl
  have conn : ∀ x y, VC s' x y ↔ VC s x y := fun x y =>
    ⟨Conn.mono (fun u v e => Conn.fwd (.refl _) ((pairs u v).1 e)),
      Conn.mono (fun u v e => Conn.fwd (.refl _) ((pairs u v).2 e))⟩
  refine ⟨hβ, hn', by rw [mg.fc, fc1.1]; exact hfc, conn, ?_⟩
  intro x x0 xn
  unfold vvalT
  rw [vid_congr hw hw' hn' x0 xn (fun y _ => conn x y), mg.other T _ hTe, fc1.2.1]


open HC.C04 in
/-- **2-unsew of an edge whose two darts have successors and whose end points are different vertices**: two pairs
    disappear, each end vertex is split (copied) or moved: no dart sees another value -/
theorem vvalT_twoUnsew2_both (cfg : Cfg Val) {T : Nat} (hT : T ∈ vStores cfg) (hTe : T ∉ eStores cfg) (hL : ∀ o a b, splitVal (cfg.law T) o = .ok (a, b) → o = some a ∧ b = a) {n l : Nat} {s s' : Map Val} (hw : WF 3 s)
    (hw' : WF 3 s') (hn : s.n = n) (hfc : s.fc = 0) (ln : l < n) (h1l : s.β 1 l ≠ 0) (h1r : s.β 1 (s.β 2 l) ≠ 0)
    (hdiff : ¬ VC s l (s.β 2 l))
    (hrun : run (twoUnsew2 cfg n l) s = (.ok (), s')) :
    s'.β = unl2 s.β l ∧ s.β 2 l ≠ 0 ∧ s'.n = s.n ∧ s'.fc = 0 ∧ (∀ x y, VC s' x y → VC s x y) ∧
    ∀ x, x ≠ 0 → x < n → vvalT T s' x = vvalT T s x := by
  subst hn
  obtain ⟨eold, m1, me, _, hcore, spE, st, cases⟩ := C04_twoUnsew2_effect cfg s.n l s s' () hfc hrun
  obtain ⟨h2, sc⟩ := step_twoUnlinkCore hcore
  have fc1 := unlinkI_fc hcore
  have hβ : s'.β = unl2 s.β l := by rw [β_of_sameTopo st]; exact sc.β
  have hn' : s'.n = s.n := by rw [st.n]; exact sc.n
  have l0 : l ≠ 0 := by intro hh; rw [hh, hw.null 2 (by omega)] at h2; exact h2 rfl
  have rn : s.β 2 l < s.n := hw.range 2 (by omega) l ln
  have pn : s.β 1 l < s.n := hw.range 1 (by omega) l ln
  have qn : s.β 1 (s.β 2 l) < s.n := hw.range 1 (by omega) _ rn
  have hinv : s.β 2 (s.β 2 l) = l := (hw.invol 2 (by omega) (by omega) l ln h2).1
  have pairs : ∀ u v, VPair s.β u v ↔ VPair s'.β u v ∨ (u = s.β 2 l ∧ v = s.β 1 l ∧ u ≠ 0 ∧ v ≠ 0) ∨
      (u = l ∧ v = s.β 1 (s.β 2 l) ∧ u ≠ 0 ∧ v ≠ 0) := by
    intro u v; rw [hβ]; exact vpair_unl2 hinv u v
  have mono : ∀ x y, VC s' x y → VC s x y := fun x y h =>
    Conn.mono (fun u v e => Conn.fwd (.refl _) ((pairs u v).2 (Or.inl e))) h
  rcases cases with ⟨c, _, _⟩ | ⟨c, _, _⟩ | ⟨_, c, _⟩ | ⟨_, _, lvold, rvold, a, b, c, d, mv, hlv, hrv, ha, hb, hc, hd, sp1, sp2⟩
  · exact absurd c h1l
  · exact absurd c h1l
  · exact absurd c h1r
  refine ⟨hβ, h2, hn', by rw [sp2.fc, sp1.fc, spE.fc, fc1.1]; exact hfc, mono, ?_⟩
  -- the intermediate relation: the new pairs and `(r, p)`
  let E1 : Nat → Nat → Prop := fun u v => VPair s'.β u v ∨ (u = s.β 2 l ∧ v = s.β 1 l)
  have rp : VC s (s.β 2 l) (s.β 1 l) :=
    Conn.fwd (.refl _) ((pairs _ _).2 (Or.inr (Or.inl ⟨rfl, rfl, h2, h1l⟩)))
  have lq : VC s l (s.β 1 (s.β 2 l)) :=
    Conn.fwd (.refl _) ((pairs _ _).2 (Or.inr (Or.inr ⟨rfl, rfl, l0, h1r⟩)))
  have mono1 : ∀ x y, Conn E1 x y → VC s x y := fun x y h =>
    Conn.mono (fun u v e => by
      rcases e with e | ⟨hu, hv⟩
      · exact Conn.fwd (.refl _) ((pairs u v).2 (Or.inl e))
      · rw [hu, hv]; exact rp) h
  have dec2 : ∀ x y, VC s x y → Conn E1 x y ∨ (Conn E1 x l ∧ Conn E1 (s.β 1 (s.β 2 l)) y) ∨
      (Conn E1 x (s.β 1 (s.β 2 l)) ∧ Conn E1 l y) := fun x y h =>
    Conn.add_edge (E := E1) (a := l) (b := s.β 1 (s.β 2 l)) (fun u v e => by
      rcases (pairs u v).1 e with e | ⟨hu, hv, _, _⟩ | ⟨hu, hv, _, _⟩
      · exact Or.inl (Or.inl e)
      · exact Or.inl (Or.inr ⟨hu, hv⟩)
      · exact Or.inr ⟨hu, hv⟩) h
  have dec1 : ∀ x y, Conn E1 x y → VC s' x y ∨ (VC s' x (s.β 2 l) ∧ VC s' (s.β 1 l) y) ∨
      (VC s' x (s.β 1 l) ∧ VC s' (s.β 2 l) y) := fun x y h =>
    Conn.add_edge (E := VPair s'.β) (a := s.β 2 l) (b := s.β 1 l) (fun u v e => by
      rcases e with e | ⟨hu, hv⟩
      · exact Or.inl e
      · exact Or.inr ⟨hu, hv⟩) h
  -- the two old vertices are different
  have nlr : ∀ y, VC s l y → VC s (s.β 2 l) y → False := fun y h1 h2' => hdiff (h1.trans h2'.symm)
  -- where the darts of the two old vertices end up
  have clsL : ∀ x, VC s x l → VC s' x l ∨ VC s' x (s.β 1 (s.β 2 l)) := by
    intro x hx
    have step : ∀ t, VC s l t → Conn E1 x t → VC s' x t := by
      intro t lt h
      rcases dec1 x t h with h | ⟨_, h⟩ | ⟨_, h⟩
      · exact h
      · exact (nlr t lt (rp.trans (mono _ _ h))).elim
      · exact (nlr t lt (mono _ _ h)).elim
    rcases dec2 x l hx with h | ⟨h, _⟩ | ⟨h, _⟩
    · exact Or.inl (step l (.refl _) h)
    · exact Or.inl (step l (.refl _) h)
    · exact Or.inr (step _ lq h)
  have clsR : ∀ x, VC s x (s.β 2 l) → VC s' x (s.β 2 l) ∨ VC s' x (s.β 1 l) := by
    intro x hx
    have h : Conn E1 x (s.β 2 l) := by
      rcases dec2 x _ hx with h | ⟨_, h⟩ | ⟨_, h⟩
      · exact h
      · exact (nlr _ lq (mono1 _ _ h).symm).elim
      · exact (hdiff (mono1 _ _ h)).elim
    rcases dec1 x _ h with h | ⟨h, _⟩ | ⟨h, _⟩
    · exact Or.inl h
    · exact Or.inl h
    · exact Or.inr h
  have clsO : ∀ x, ¬ VC s x l → ¬ VC s x (s.β 2 l) → ∀ y, VC s x y → VC s' x y := by
    intro x nl nr y h
    rcases dec2 x y h with h | ⟨h, _⟩ | ⟨h, _⟩
    · rcases dec1 x y h with h | ⟨h, _⟩ | ⟨h, _⟩
      · exact h
      · exact absurd (mono _ _ h) nr
      · exact absurd ((mono _ _ h).trans rp.symm) nr
    · exact absurd (mono1 _ _ h) nl
    · exact absurd ((mono1 _ _ h).trans lq.symm) nl
  -- identifiers
  have hwe : WF 3 me := (hw'.sameTopo (SameTopo.symm' st)).sameTopo spE.topo
  have ste : SameTopo me s' := (SameTopo.symm' spE.topo).trans st
  have hne : me.n = s.n := by rw [spE.topo.n]; exact sc.n
  have idOld : ∀ {x v : Nat}, x ≠ 0 → x < s.n → run (vertexId2 s.n x) s = (.ok v, s) → v = cellId s .vertex x := by
    intro x v x0 xn hv
    have := (C03_vertexId2_min hw x0 xn).1; rw [this] at hv; simp at hv; exact hv.symm
  have idNew : ∀ {x v : Nat}, x ≠ 0 → x < s.n → run (vertexId2 s.n x) me = (.ok v, me) → v = cellId s' .vertex x := by
    intro x v x0 xn hv
    have := (C03_vertexId2_min hwe x0 (by rw [hne]; exact xn)).1
    rw [hne] at this
    rw [this] at hv; simp at hv
    rw [← hv]; exact (vid_of_sameTopo ste x).symm
  have eL := idOld l0 ln hlv
  have eR := idOld h2 rn hrv
  have ea := idNew l0 ln ha
  have eb := idNew h1r qn hb
  have ec := idNew h1l pn hc
  have ed := idNew h2 rn hd
  have z0 := hT
  have attE : ∀ e, me.att T e = s.att T e := fun e => by
    rw [spE.other T e hTe, fc1.2.1]
  have ln' : l < s'.n := by rw [hn']; exact ln
  have rn' : s.β 2 l < s'.n := by rw [hn']; exact rn
  have pn' : s.β 1 l < s'.n := by rw [hn']; exact pn
  have qn' : s.β 1 (s.β 2 l) < s'.n := by rw [hn']; exact qn
  obtain ⟨_, _, cL⟩ := vc_vid hw l0 ln
  obtain ⟨_, _, cR⟩ := vc_vid hw h2 rn
  obtain ⟨_, _, ca⟩ := vc_vid hw' l0 ln'
  obtain ⟨_, _, cb⟩ := vc_vid hw' h1r qn'
  obtain ⟨_, _, cc⟩ := vc_vid hw' h1l pn'
  obtain ⟨_, _, cd⟩ := vc_vid hw' h2 rn'
  -- the six identifiers: `a, b, lvold` in the old vertex of `l`; `c, d, rvold` in that of `r`
  have inL : ∀ t, (t = a ∨ t = b ∨ t = lvold) → VC s l t := by
    intro t ht
    rcases ht with rfl | rfl | rfl
    · rw [ea]; exact mono _ _ ca
    · rw [eb]; exact lq.trans (mono _ _ cb)
    · rw [eL]; exact cL
  have inR : ∀ t, (t = c ∨ t = d ∨ t = rvold) → VC s (s.β 2 l) t := by
    intro t ht
    rcases ht with rfl | rfl | rfl
    · rw [ec]; exact rp.trans (mono _ _ cc)
    · rw [ed]; exact mono _ _ cd
    · rw [eR]; exact cR
  have neLR : ∀ t t', (t = a ∨ t = b ∨ t = lvold) → (t' = c ∨ t' = d ∨ t' = rvold) → t ≠ t' := by
    intro t t' ht ht' hh
    exact nlr t (inL t ht) (by rw [hh]; exact inR t' ht')
  -- the values at the four new identifiers
  have val1 : mv.att T a = s.att T lvold ∧ mv.att T b = s.att T lvold := by
    by_cases hab : a = b
    · have := sp1.moved hab T z0
      rw [attE] at this
      exact ⟨this, by rw [← hab]; exact this⟩
    · obtain ⟨x, y, hs, hy, hx⟩ := sp1.split hab T z0
      rw [attE] at hs
      obtain ⟨k1, k2⟩ := hL _ _ _ hs
      exact ⟨by rw [hx, k1], by rw [hy, k1, k2]⟩
  have rvold1 : mv.att T rvold = s.att T rvold := by
    rw [sp1.frame T _ z0 (Ne.symm (neLR a rvold (Or.inl rfl) (Or.inr (Or.inr rfl))))
      (Ne.symm (neLR b rvold (Or.inr (Or.inl rfl)) (Or.inr (Or.inr rfl))))
      (Ne.symm (neLR lvold rvold (Or.inr (Or.inr rfl)) (Or.inr (Or.inr rfl)))), attE]
  have val2 : s'.att T c = s.att T rvold ∧ s'.att T d = s.att T rvold := by
    by_cases hcd : c = d
    · have := sp2.moved hcd T z0
      rw [rvold1] at this
      exact ⟨this, by rw [← hcd]; exact this⟩
    · obtain ⟨x, y, hs, hy, hx⟩ := sp2.split hcd T z0
      rw [rvold1] at hs
      obtain ⟨k1, k2⟩ := hL _ _ _ hs
      exact ⟨by rw [hx, k1], by rw [hy, k1, k2]⟩
  have val1' : s'.att T a = s.att T lvold ∧ s'.att T b = s.att T lvold := by
    constructor
    · rw [sp2.frame T _ z0 (neLR a c (Or.inl rfl) (Or.inl rfl)) (neLR a d (Or.inl rfl) (Or.inr (Or.inl rfl)))
        (neLR a rvold (Or.inl rfl) (Or.inr (Or.inr rfl)))]
      exact val1.1
    · rw [sp2.frame T _ z0 (neLR b c (Or.inr (Or.inl rfl)) (Or.inl rfl))
        (neLR b d (Or.inr (Or.inl rfl)) (Or.inr (Or.inl rfl))) (neLR b rvold (Or.inr (Or.inl rfl)) (Or.inr (Or.inr rfl)))]
      exact val1.2
  intro x x0 xn
  have xn' : x < s'.n := by rw [hn']; exact xn
  by_cases xL : VC s x l
  · have old : cellId s .vertex x = lvold := by rw [eL]; exact (vid_of_vc hw x0 xn l0 ln).2 xL
    unfold vvalT
    rcases clsL x xL with h | h
    · rw [(vid_of_vc hw' x0 xn' l0 ln').2 h, ← ea, val1'.1, old]
    · rw [(vid_of_vc hw' x0 xn' h1r qn').2 h, ← eb, val1'.2, old]
  · by_cases xR : VC s x (s.β 2 l)
    · have old : cellId s .vertex x = rvold := by rw [eR]; exact (vid_of_vc hw x0 xn h2 rn).2 xR
      unfold vvalT
      rcases clsR x xR with h | h
      · rw [(vid_of_vc hw' x0 xn' h2 rn').2 h, ← ed, val2.2, old]
      · rw [(vid_of_vc hw' x0 xn' h1l pn').2 h, ← ec, val2.1, old]
    · have same : ∀ y, y ≠ 0 → (VC s' x y ↔ VC s x y) := fun y _ => ⟨mono x y, clsO x xL xR y⟩
      have ceq := vid_congr hw hw' hn' x0 xn same
      obtain ⟨_, _, cx⟩ := vc_vid hw x0 xn
      have notL : ∀ t, (t = a ∨ t = b ∨ t = lvold) → cellId s .vertex x ≠ t := by
        intro t ht hh; exact xL (cx.trans (by rw [hh]; exact (inL t ht).symm))
      have notR : ∀ t, (t = c ∨ t = d ∨ t = rvold) → cellId s .vertex x ≠ t := by
        intro t ht hh; exact xR (cx.trans (by rw [hh]; exact (inR t ht).symm))
      unfold vvalT
      rw [ceq, sp2.frame T _ z0 (notR c (Or.inl rfl)) (notR d (Or.inr (Or.inl rfl))) (notR rvold (Or.inr (Or.inr rfl))),
        sp1.frame T _ z0 (notL a (Or.inl rfl)) (notL b (Or.inr (Or.inl rfl))) (notL lvold (Or.inr (Or.inr rfl))), attE]


/-- the 2-unsew between two different vertices, at value level, storage `T` -/
theorem twoUnsewT_step (cfg : Cfg Val) {T : Nat} (hT : T ∈ vStores cfg) (hTe : T ∉ eStores cfg)
    (hA : AnchorLike (cfg.law T)) {n : Nat} {u : Array Bool} {l : Nat} {s s' : Map Val}
    (J : Inv n u s) (hfc : s.fc = 0) (hl : Live n u l) (h1l : s.β 1 l ≠ 0) (h1r : s.β 1 (s.β 2 l) ≠ 0)
    (hdiff : ¬ VC s l (s.β 2 l)) (hrun : run (twoUnsew2 cfg n l) s = (.ok (), s')) :
    Inv n u s' ∧ s'.fc = 0 ∧ s'.β = unl2 s.β l ∧ (∀ x y, VC s' x y → VC s x y) ∧
      ∀ x, x ≠ 0 → x < n → vvalT T s' x = vvalT T s x := by
  have J' := keeps_twoUnsew2 cfg n hl s s' () J hrun
  obtain ⟨hβ, _, _, fc', mo, vv⟩ := vvalT_twoUnsew2_both cfg hT hTe hA.split J.wf J'.wf J.n_eq hfc
    hl.2.1 h1l h1r hdiff hrun
  exact ⟨J', fc', hβ, mo, vv⟩

/-- the 2-sew of two 1-free darts, at value level, storage `T` -/
theorem twoSewT_free_step (cfg : Cfg Val) {T : Nat} (hTe : T ∉ eStores cfg) {n : Nat} {u : Array Bool} {l r : Nat}
    {s s' : Map Val} (J : Inv n u s) (hfc : s.fc = 0) (hl : Live n u l) (hr : Live n u r) (hlr : l ≠ r)
    (hl0 : s.β 1 l = 0) (hr0 : s.β 1 r = 0) (hrun : run (twoSew2 cfg n l r) s = (.ok (), s')) :
    Inv n u s' ∧ s'.fc = 0 ∧ s'.β = lnk2 s.β l r ∧ (∀ x y, VC s' x y ↔ VC s x y) ∧
      ∀ x, x ≠ 0 → x < n → vvalT T s' x = vvalT T s x := by
  have J' := keeps_twoSew2 cfg n hl hr hlr s s' () J hrun
  obtain ⟨hβ, _, fc', cn, vv⟩ := vvalT_twoSew2_free cfg hTe J.wf J'.wf J.n_eq hfc hl0 hr0 hlr hrun
  exact ⟨J', fc', hβ, cn, vv⟩

/-- a 1-unlink only removes connections -/
theorem vc_of_unl1 {s s' : Map Val} {l : Nat} (hβ : s'.β = unl1 s.β l) (x y : Nat) (h : VC s' x y) : VC s x y := by
  unfold VC at h ⊢
  rw [hβ] at h
  exact Conn.mono (fun u v e => Conn.fwd (.refl _) ((vpair_unl1 u v).2 (Or.inl e))) h

/-- **C15 (anchors), cut_inner_edge with a VertexAnchor storage: ALWAYS refused.**  On ANY well-formed 2-map (no fault
    injected), when the VertexAnchor storage is vertex-bound with the generated law and the spare darts carry no vertex
    anchor, `cut_inner_edge(e, [n1 … n6])` on an interior edge between two different vertices whose two faces are closed
    triangles NEVER returns `Ok`: after the unsews and the two 2-sews the 1-sew `(e, n1)` merges the two halves
    `{n1, n3}` and `{n4, n6}` of the new vertex, neither of which has a vertex anchor yet (the anchor is only written at
    the very end), and the merge of two undefined anchors is an error.  This is why there is no vertex-anchor statement
    for the inner cut: the set of successful calls is empty. -/
theorem C15_cutInner_vertex_anchor_storage_refused (cfg : Cfg Val) (m : Map Val)
    (e n1 n2 n3 n4 n5 n6 : Nat) (hwf : WF 3 m) (hfc : m.fc = 0) (he : C01.InUse m e)
    (hr0 : m.β 2 e ≠ 0)
    (htl : m.β 1 (m.β 1 e) = m.β 0 e) (hb : m.β 0 e ≠ 0)
    (htr : m.β 1 (m.β 1 (m.β 2 e)) = m.β 0 (m.β 2 e)) (hd : m.β 0 (m.β 2 e) ≠ 0)
    (hs : ∀ x, x ∈ [n1, n2, n3, n4, n5, n6] → Spare m x)
    (hV : stVA ∈ vStores cfg) (hVe : stVA ∉ eStores cfg) (hLaw : cfg.law stVA = anchorLawV)
    (hnone : ∀ x, x ∈ [n1, n3, n4, n6] → m.att stVA x = none)
    (hends : cellId m .vertex e ≠ cellId m .vertex (m.β 2 e))
    (hnd : [e, m.β 2 e, m.β 1 e, m.β 0 e, m.β 1 (m.β 2 e), m.β 0 (m.β 2 e), n1, n2, n3, n4, n5, n6].Nodup) :
    ∀ m', run (cutInnerEdge cfg m.n e n1 n2 n3 n4 n5 n6) m ≠ (.ok (), m') := by
  intro m' h
  have hA : AnchorLike (cfg.law stVA) := by rw [hLaw]; exact anchorLike_V
  have hn := he.2.1
  have h0 := h
  have hr : m.β 2 e < m.n := hwf.range 2 (by omega) e hn
  have a0 : m.β 1 e ≠ 0 := fun hh => hb (by rw [← htl, hh]; exact hwf.null 1 (by omega))
  have c0 : m.β 1 (m.β 2 e) ≠ 0 := fun hh => hd (by rw [← htr, hh]; exact hwf.null 1 (by omega))
  have ha : m.β 1 e < m.n := hwf.range 1 (by omega) e hn
  have hc : m.β 1 (m.β 2 e) < m.n := hwf.range 1 (by omega) _ hr
  have hbn : m.β 0 e < m.n := hwf.range 0 (by omega) e hn
  have hdn : m.β 0 (m.β 2 e) < m.n := hwf.range 0 (by omega) _ hr
  have er := (hwf.invol 2 (by omega) (by omega) e hn hr0).1
  have hnd' := hnd
  simp only [List.nodup_cons, List.mem_cons, List.mem_nil_iff, not_or, or_false, List.nodup_nil, and_true] at hnd'
  obtain ⟨⟨q1, q2, q3, q4, q5, q6, q7, q8, q9, q10, q11⟩, ⟨q12, q13, q14, q15, q16, q17, q18, q19, q20, q21⟩, ⟨q22, q23, q24, q25, q26, q27, q28, q29, q30⟩, ⟨q31, q32, q33, q34, q35, q36, q37, q38⟩, ⟨q39, q40, q41, q42, q43, q44, q45⟩, ⟨q46, q47, q48, q49, q50, q51⟩, ⟨q52, q53, q54, q55, q56⟩, ⟨q57, q58, q59, q60⟩, ⟨q61, q62, q63⟩, ⟨q64, q65⟩, q66, _⟩ := hnd'
  have s1 := hs n1 (by simp); have s2 := hs n2 (by simp); have s3 := hs n3 (by simp)
  have s4 := hs n4 (by simp); have s5 := hs n5 (by simp); have s6 := hs n6 (by simp)
  have L1 : Live m.n m.u n1 := Live.of_inUse s1.1
  have L2 : Live m.n m.u n2 := Live.of_inUse s2.1
  have L3 : Live m.n m.u n3 := Live.of_inUse s3.1
  have L4 : Live m.n m.u n4 := Live.of_inUse s4.1
  have L5 : Live m.n m.u n5 := Live.of_inUse s5.1
  have L6 : Live m.n m.u n6 := Live.of_inUse s6.1
  have Le : Live m.n m.u e := Live.of_inUse he
  have Lr := live_image hwf (by omega : 2 < 3) hn hr0
  have La := live_image hwf (by omega : 1 < 3) hn a0
  have Lb := live_image hwf (by omega : 0 < 3) hn hb
  have Lc := live_image hwf (by omega : 1 < 3) hr c0
  have Ld := live_image hwf (by omega : 0 < 3) hr hd
  have z : ∀ i, m.β i 0 = 0 := beta_zero hwf
  have sb : ∀ i, m.β i n1 = 0 ∧ m.β i n2 = 0 ∧ m.β i n3 = 0 ∧ m.β i n4 = 0 ∧ m.β i n5 = 0 ∧ m.β i n6 = 0 := fun i =>
    ⟨spare_beta hwf s1 i, spare_beta hwf s2 i, spare_beta hwf s3 i, spare_beta hwf s4 i, spare_beta hwf s5 i,
      spare_beta hwf s6 i⟩
  -- the four links of the spare darts
  unfold cutInnerEdge at h
  obtain ⟨_, m1, r1, h⟩ := run_bind_ok h
  have I1 := Keeps.twoLinkCore (X := Val) L1 L2 q52 m m1 _ (Inv.of_wf hwf) r1
  obtain ⟨_, _, st1⟩ := step_twoLinkCore r1
  obtain ⟨_, m2, r2, h⟩ := run_bind_ok h
  have I2 := Keeps.oneLinkCore (X := Val) L2 L3 m1 m2 _ I1 r2
  obtain ⟨_, _, st2⟩ := step_oneLinkCore r2
  obtain ⟨_, m3, r3, h⟩ := run_bind_ok h
  have I3 := Keeps.twoLinkCore (X := Val) L4 L5 q64 m2 m3 _ I2 r3
  obtain ⟨_, _, st3⟩ := step_twoLinkCore r3
  obtain ⟨_, m4, r4, h⟩ := run_bind_ok h
  have I4 := Keeps.oneLinkCore (X := Val) L5 L6 m3 m4 _ I3 r4
  obtain ⟨_, _, st4⟩ := step_oneLinkCore r4
  have b4 : m4.β = lnk1 (lnk2 (lnk1 (lnk2 m.β n1 n2) n2 n3) n4 n5) n5 n6 := by rw [st4.β, st3.β, st2.β, st1.β]
  have fc4 : m4.fc = 0 := by rw [(link1_fc r4).1, (linkI_fc r3).1, (link1_fc r2).1, (linkI_fc r1).1]; exact hfc
  have at4 : ∀ x, m4.att stVA x = m.att stVA x := fun x => by
    rw [(link1_fc r4).2.1, (linkI_fc r3).2.1, (link1_fc r2).2.1, (linkI_fc r1).2.1]
  -- the β function after the four links
  obtain ⟨F, hF⟩ : ∃ F, F = lnk1 (lnk2 (lnk1 (lnk2 m.β n1 n2) n2 n3) n4 n5) n5 n6 := ⟨_, rfl⟩
  rw [← hF] at b4
  have n0 : n1 ≠ 0 ∧ n2 ≠ 0 ∧ n3 ≠ 0 ∧ n4 ≠ 0 ∧ n5 ≠ 0 ∧ n6 ≠ 0 := ⟨s1.1.1, s2.1.1, s3.1.1, s4.1.1, s5.1.1, s6.1.1⟩
  have Fold : ∀ i x, x ≠ n1 → x ≠ n2 → x ≠ n3 → x ≠ n4 → x ≠ n5 → x ≠ n6 → F i x = m.β i x := by
    intro i x x1 x2 x3 x4 x5 x6
    rw [hF]; simp [lnk1, lnk2, upd_apply, Ne.symm x1, Ne.symm x2, Ne.symm x3, Ne.symm x4, Ne.symm x5, Ne.symm x6]
  have F1 : F 1 n1 = 0 ∧ F 1 n2 = n3 ∧ F 1 n3 = 0 ∧ F 1 n4 = 0 ∧ F 1 n5 = n6 ∧ F 1 n6 = 0 := by
    rw [hF]; simp [lnk1, lnk2, upd_apply, sb 1, q1, Ne.symm q1, q2, Ne.symm q2, q3, Ne.symm q3, q4, Ne.symm q4, q5, Ne.symm q5, q6, Ne.symm q6, q7, Ne.symm q7, q8, Ne.symm q8, q9, Ne.symm q9, q10, Ne.symm q10, q11, Ne.symm q11, q12, Ne.symm q12, q13, Ne.symm q13, q14, Ne.symm q14, q15, Ne.symm q15, q16, Ne.symm q16, q17, Ne.symm q17, q18, Ne.symm q18, q19, Ne.symm q19, q20, Ne.symm q20, q21, Ne.symm q21, q22, Ne.symm q22, q23, Ne.symm q23, q24, Ne.symm q24, q25, Ne.symm q25, q26, Ne.symm q26, q27, Ne.symm q27, q28, Ne.symm q28, q29, Ne.symm q29, q30, Ne.symm q30, q31, Ne.symm q31, q32, Ne.symm q32, q33, Ne.symm q33, q34, Ne.symm q34, q35, Ne.symm q35, q36, Ne.symm q36, q37, Ne.symm q37, q38, Ne.symm q38, q39, Ne.symm q39, q40, Ne.symm q40, q41, Ne.symm q41, q42, Ne.symm q42, q43, Ne.symm q43, q44, Ne.symm q44, q45, Ne.symm q45, q46, Ne.symm q46, q47, Ne.symm q47, q48, Ne.symm q48, q49, Ne.symm q49, q50, Ne.symm q50, q51, Ne.symm q51, q52, Ne.symm q52, q53, Ne.symm q53, q54, Ne.symm q54, q55, Ne.symm q55, q56, Ne.symm q56, q57, Ne.symm q57, q58, Ne.symm q58, q59, Ne.symm q59, q60, Ne.symm q60, q61, Ne.symm q61, q62, Ne.symm q62, q63, Ne.symm q63, q64, Ne.symm q64, q65, Ne.symm q65, q66, Ne.symm q66]
  have F2 : F 2 n1 = n2 ∧ F 2 n2 = n1 ∧ F 2 n3 = 0 ∧ F 2 n4 = n5 ∧ F 2 n5 = n4 ∧ F 2 n6 = 0 := by
    rw [hF]; simp [lnk1, lnk2, upd_apply, sb 2, q1, Ne.symm q1, q2, Ne.symm q2, q3, Ne.symm q3, q4, Ne.symm q4, q5, Ne.symm q5, q6, Ne.symm q6, q7, Ne.symm q7, q8, Ne.symm q8, q9, Ne.symm q9, q10, Ne.symm q10, q11, Ne.symm q11, q12, Ne.symm q12, q13, Ne.symm q13, q14, Ne.symm q14, q15, Ne.symm q15, q16, Ne.symm q16, q17, Ne.symm q17, q18, Ne.symm q18, q19, Ne.symm q19, q20, Ne.symm q20, q21, Ne.symm q21, q22, Ne.symm q22, q23, Ne.symm q23, q24, Ne.symm q24, q25, Ne.symm q25, q26, Ne.symm q26, q27, Ne.symm q27, q28, Ne.symm q28, q29, Ne.symm q29, q30, Ne.symm q30, q31, Ne.symm q31, q32, Ne.symm q32, q33, Ne.symm q33, q34, Ne.symm q34, q35, Ne.symm q35, q36, Ne.symm q36, q37, Ne.symm q37, q38, Ne.symm q38, q39, Ne.symm q39, q40, Ne.symm q40, q41, Ne.symm q41, q42, Ne.symm q42, q43, Ne.symm q43, q44, Ne.symm q44, q45, Ne.symm q45, q46, Ne.symm q46, q47, Ne.symm q47, q48, Ne.symm q48, q49, Ne.symm q49, q50, Ne.symm q50, q51, Ne.symm q51, q52, Ne.symm q52, q53, Ne.symm q53, q54, Ne.symm q54, q55, Ne.symm q55, q56, Ne.symm q56, q57, Ne.symm q57, q58, Ne.symm q58, q59, Ne.symm q59, q60, Ne.symm q60, q61, Ne.symm q61, q62, Ne.symm q62, q63, Ne.symm q63, q64, Ne.symm q64, q65, Ne.symm q65, q66, Ne.symm q66]
  have Fe : ∀ i, F i e = m.β i e := fun i => Fold i e q6 q7 q8 q9 q10 q11
  have Fr : ∀ i, F i (m.β 2 e) = m.β i (m.β 2 e) := fun i => Fold i _ q16 q17 q18 q19 q20 q21
  have Fa : ∀ i, F i (m.β 1 e) = m.β i (m.β 1 e) := fun i => Fold i _ q25 q26 q27 q28 q29 q30
  have Fc : ∀ i, F i (m.β 1 (m.β 2 e)) = m.β i (m.β 1 (m.β 2 e)) := fun i => Fold i _ q40 q41 q42 q43 q44 q45
  -- its pairs: those of `m` and `(n1, n3)`, `(n4, n6)`
  have pairsF : ∀ u v, VPair F u v ↔ VPair m.β u v ∨ (u = n1 ∧ v = n3) ∨ (u = n4 ∧ v = n6) := by
    intro u v
    have P1 : ∀ u v, VPair (lnk2 m.β n1 n2) u v ↔ VPair m.β u v := by
      intro u v
      rw [vpair_lnk2 (sb 2).1 (sb 2).2.1 q52]
      constructor
      · rintro (e | ⟨_, hv, _, v0⟩ | ⟨_, hv, _, v0⟩)
        · exact e
        · rw [(sb 1).1] at hv; exact absurd hv v0
        · rw [(sb 1).2.1] at hv; exact absurd hv v0
      · exact Or.inl
    have P2 : ∀ u v, VPair (lnk1 (lnk2 m.β n1 n2) n2 n3) u v ↔ VPair m.β u v ∨ (u = n1 ∧ v = n3) := by
      intro u v
      rw [vpair_lnk1 (by simp [lnk2, upd_apply, sb 1]), P1]
      have : lnk2 m.β n1 n2 2 n2 = n1 := by simp [lnk2, upd_apply]
      rw [this]
      constructor
      · rintro (e | ⟨hu, hv, _, _⟩)
        · exact Or.inl e
        · exact Or.inr ⟨hu, hv⟩
      · rintro (e | ⟨hu, hv⟩)
        · exact Or.inl e
        · exact Or.inr ⟨hu, hv, by rw [hu]; exact n0.1, by rw [hv]; exact n0.2.2.1⟩
    have P3 : ∀ u v, VPair (lnk2 (lnk1 (lnk2 m.β n1 n2) n2 n3) n4 n5) u v ↔ VPair m.β u v ∨ (u = n1 ∧ v = n3) := by
      intro u v
      rw [vpair_lnk2 (by simp [lnk1, lnk2, upd_apply, sb 2, q1, Ne.symm q1, q2, Ne.symm q2, q3, Ne.symm q3, q4, Ne.symm q4, q5, Ne.symm q5, q6, Ne.symm q6, q7, Ne.symm q7, q8, Ne.symm q8, q9, Ne.symm q9, q10, Ne.symm q10, q11, Ne.symm q11, q12, Ne.symm q12, q13, Ne.symm q13, q14, Ne.symm q14, q15, Ne.symm q15, q16, Ne.symm q16, q17, Ne.symm q17, q18, Ne.symm q18, q19, Ne.symm q19, q20, Ne.symm q20, q21, Ne.symm q21, q22, Ne.symm q22, q23, Ne.symm q23, q24, Ne.symm q24, q25, Ne.symm q25, q26, Ne.symm q26, q27, Ne.symm q27, q28, Ne.symm q28, q29, Ne.symm q29, q30, Ne.symm q30, q31, Ne.symm q31, q32, Ne.symm q32, q33, Ne.symm q33, q34, Ne.symm q34, q35, Ne.symm q35, q36, Ne.symm q36, q37, Ne.symm q37, q38, Ne.symm q38, q39, Ne.symm q39, q40, Ne.symm q40, q41, Ne.symm q41, q42, Ne.symm q42, q43, Ne.symm q43, q44, Ne.symm q44, q45, Ne.symm q45, q46, Ne.symm q46, q47, Ne.symm q47, q48, Ne.symm q48, q49, Ne.symm q49, q50, Ne.symm q50, q51, Ne.symm q51, q52, Ne.symm q52, q53, Ne.symm q53, q54, Ne.symm q54, q55, Ne.symm q55, q56, Ne.symm q56, q57, Ne.symm q57, q58, Ne.symm q58, q59, Ne.symm q59, q60, Ne.symm q60, q61, Ne.symm q61, q62, Ne.symm q62, q63, Ne.symm q63, q64, Ne.symm q64, q65, Ne.symm q65, q66, Ne.symm q66]) (by simp [lnk1, lnk2, upd_apply, sb 2, q1, Ne.symm q1, q2, Ne.symm q2, q3, Ne.symm q3, q4, Ne.symm q4, q5, Ne.symm q5, q6, Ne.symm q6, q7, Ne.symm q7, q8, Ne.symm q8, q9, Ne.symm q9, q10, Ne.symm q10, q11, Ne.symm q11, q12, Ne.symm q12, q13, Ne.symm q13, q14, Ne.symm q14, q15, Ne.symm q15, q16, Ne.symm q16, q17, Ne.symm q17, q18, Ne.symm q18, q19, Ne.symm q19, q20, Ne.symm q20, q21, Ne.symm q21, q22, Ne.symm q22, q23, Ne.symm q23, q24, Ne.symm q24, q25, Ne.symm q25, q26, Ne.symm q26, q27, Ne.symm q27, q28, Ne.symm q28, q29, Ne.symm q29, q30, Ne.symm q30, q31, Ne.symm q31, q32, Ne.symm q32, q33, Ne.symm q33, q34, Ne.symm q34, q35, Ne.symm q35, q36, Ne.symm q36, q37, Ne.symm q37, q38, Ne.symm q38, q39, Ne.symm q39, q40, Ne.symm q40, q41, Ne.symm q41, q42, Ne.symm q42, q43, Ne.symm q43, q44, Ne.symm q44, q45, Ne.symm q45, q46, Ne.symm q46, q47, Ne.symm q47, q48, Ne.symm q48, q49, Ne.symm q49, q50, Ne.symm q50, q51, Ne.symm q51, q52, Ne.symm q52, q53, Ne.symm q53, q54, Ne.symm q54, q55, Ne.symm q55, q56, Ne.symm q56, q57, Ne.symm q57, q58, Ne.symm q58, q59, Ne.symm q59, q60, Ne.symm q60, q61, Ne.symm q61, q62, Ne.symm q62, q63, Ne.symm q63, q64, Ne.symm q64, q65, Ne.symm q65, q66, Ne.symm q66]) q64, P2]
      constructor
      · rintro (e | ⟨_, hv, _, v0⟩ | ⟨_, hv, _, v0⟩)
        · exact e
        · exfalso; apply v0; rw [hv]; simp [lnk1, lnk2, upd_apply, sb 1, q1, Ne.symm q1, q2, Ne.symm q2, q3, Ne.symm q3, q4, Ne.symm q4, q5, Ne.symm q5, q6, Ne.symm q6, q7, Ne.symm q7, q8, Ne.symm q8, q9, Ne.symm q9, q10, Ne.symm q10, q11, Ne.symm q11, q12, Ne.symm q12, q13, Ne.symm q13, q14, Ne.symm q14, q15, Ne.symm q15, q16, Ne.symm q16, q17, Ne.symm q17, q18, Ne.symm q18, q19, Ne.symm q19, q20, Ne.symm q20, q21, Ne.symm q21, q22, Ne.symm q22, q23, Ne.symm q23, q24, Ne.symm q24, q25, Ne.symm q25, q26, Ne.symm q26, q27, Ne.symm q27, q28, Ne.symm q28, q29, Ne.symm q29, q30, Ne.symm q30, q31, Ne.symm q31, q32, Ne.symm q32, q33, Ne.symm q33, q34, Ne.symm q34, q35, Ne.symm q35, q36, Ne.symm q36, q37, Ne.symm q37, q38, Ne.symm q38, q39, Ne.symm q39, q40, Ne.symm q40, q41, Ne.symm q41, q42, Ne.symm q42, q43, Ne.symm q43, q44, Ne.symm q44, q45, Ne.symm q45, q46, Ne.symm q46, q47, Ne.symm q47, q48, Ne.symm q48, q49, Ne.symm q49, q50, Ne.symm q50, q51, Ne.symm q51, q52, Ne.symm q52, q53, Ne.symm q53, q54, Ne.symm q54, q55, Ne.symm q55, q56, Ne.symm q56, q57, Ne.symm q57, q58, Ne.symm q58, q59, Ne.symm q59, q60, Ne.symm q60, q61, Ne.symm q61, q62, Ne.symm q62, q63, Ne.symm q63, q64, Ne.symm q64, q65, Ne.symm q65, q66, Ne.symm q66]
        · exfalso; apply v0; rw [hv]; simp [lnk1, lnk2, upd_apply, sb 1, q1, Ne.symm q1, q2, Ne.symm q2, q3, Ne.symm q3, q4, Ne.symm q4, q5, Ne.symm q5, q6, Ne.symm q6, q7, Ne.symm q7, q8, Ne.symm q8, q9, Ne.symm q9, q10, Ne.symm q10, q11, Ne.symm q11, q12, Ne.symm q12, q13, Ne.symm q13, q14, Ne.symm q14, q15, Ne.symm q15, q16, Ne.symm q16, q17, Ne.symm q17, q18, Ne.symm q18, q19, Ne.symm q19, q20, Ne.symm q20, q21, Ne.symm q21, q22, Ne.symm q22, q23, Ne.symm q23, q24, Ne.symm q24, q25, Ne.symm q25, q26, Ne.symm q26, q27, Ne.symm q27, q28, Ne.symm q28, q29, Ne.symm q29, q30, Ne.symm q30, q31, Ne.symm q31, q32, Ne.symm q32, q33, Ne.symm q33, q34, Ne.symm q34, q35, Ne.symm q35, q36, Ne.symm q36, q37, Ne.symm q37, q38, Ne.symm q38, q39, Ne.symm q39, q40, Ne.symm q40, q41, Ne.symm q41, q42, Ne.symm q42, q43, Ne.symm q43, q44, Ne.symm q44, q45, Ne.symm q45, q46, Ne.symm q46, q47, Ne.symm q47, q48, Ne.symm q48, q49, Ne.symm q49, q50, Ne.symm q50, q51, Ne.symm q51, q52, Ne.symm q52, q53, Ne.symm q53, q54, Ne.symm q54, q55, Ne.symm q55, q56, Ne.symm q56, q57, Ne.symm q57, q58, Ne.symm q58, q59, Ne.symm q59, q60, Ne.symm q60, q61, Ne.symm q61, q62, Ne.symm q62, q63, Ne.symm q63, q64, Ne.symm q64, q65, Ne.symm q65, q66, Ne.symm q66]
      · exact Or.inl
    rw [hF, vpair_lnk1 (by simp [lnk1, lnk2, upd_apply, sb 1, q1, Ne.symm q1, q2, Ne.symm q2, q3, Ne.symm q3, q4, Ne.symm q4, q5, Ne.symm q5, q6, Ne.symm q6, q7, Ne.symm q7, q8, Ne.symm q8, q9, Ne.symm q9, q10, Ne.symm q10, q11, Ne.symm q11, q12, Ne.symm q12, q13, Ne.symm q13, q14, Ne.symm q14, q15, Ne.symm q15, q16, Ne.symm q16, q17, Ne.symm q17, q18, Ne.symm q18, q19, Ne.symm q19, q20, Ne.symm q20, q21, Ne.symm q21, q22, Ne.symm q22, q23, Ne.symm q23, q24, Ne.symm q24, q25, Ne.symm q25, q26, Ne.symm q26, q27, Ne.symm q27, q28, Ne.symm q28, q29, Ne.symm q29, q30, Ne.symm q30, q31, Ne.symm q31, q32, Ne.symm q32, q33, Ne.symm q33, q34, Ne.symm q34, q35, Ne.symm q35, q36, Ne.symm q36, q37, Ne.symm q37, q38, Ne.symm q38, q39, Ne.symm q39, q40, Ne.symm q40, q41, Ne.symm q41, q42, Ne.symm q42, q43, Ne.symm q43, q44, Ne.symm q44, q45, Ne.symm q45, q46, Ne.symm q46, q47, Ne.symm q47, q48, Ne.symm q48, q49, Ne.symm q49, q50, Ne.symm q50, q51, Ne.symm q51, q52, Ne.symm q52, q53, Ne.symm q53, q54, Ne.symm q54, q55, Ne.symm q55, q56, Ne.symm q56, q57, Ne.symm q57, q58, Ne.symm q58, q59, Ne.symm q59, q60, Ne.symm q60, q61, Ne.symm q61, q62, Ne.symm q62, q63, Ne.symm q63, q64, Ne.symm q64, q65, Ne.symm q65, q66, Ne.symm q66]), P3]
    have : lnk2 (lnk1 (lnk2 m.β n1 n2) n2 n3) n4 n5 2 n5 = n4 := by simp [lnk1, lnk2, upd_apply]
    rw [this]
    constructor
    · rintro ((e | e) | ⟨hu, hv, _, _⟩)
      · exact Or.inl e
      · exact Or.inr (Or.inl e)
      · exact Or.inr (Or.inr ⟨hu, hv⟩)
    · rintro (e | e | ⟨hu, hv⟩)
      · exact Or.inl (Or.inl e)
      · exact Or.inl (Or.inr e)
      · exact Or.inr ⟨hu, hv, by rw [hu]; exact n0.2.2.2.1, by rw [hv]; exact n0.2.2.2.2.2⟩
  have noSpare : ∀ u v, VPair m.β u v → ∀ t, t ∈ [n1, n2, n3, n4, n5, n6] → u ≠ t ∧ v ≠ t := by
    rintro u v ⟨zz, e2, e1, _, _⟩ t ht
    rw [← e2, ← e1]
    exact ⟨beta_ne_spare hwf (hs t ht) 2 zz, beta_ne_spare hwf (hs t ht) 1 zz⟩
  -- the old darts keep their vertices
  have oldconn : ∀ x y, x ∉ [n1, n3, n4, n6] → Conn (VPair F) x y → VC m x y ∧ y ∉ [n1, n3, n4, n6] := by
    intro x y hx hc
    induction hc with
    | refl => exact ⟨.refl _, hx⟩
    | fwd _ ed ih =>
        rename_i y' y''
        rcases (pairsF _ _).1 ed with ed | ⟨hu, _⟩ | ⟨hu, _⟩
        · refine ⟨.fwd ih.1 ed, ?_⟩
          have k := noSpare _ _ ed
          simp only [List.mem_cons, List.mem_nil_iff, not_or, or_false]
          exact ⟨(k n1 (by simp)).2, (k n3 (by simp)).2, (k n4 (by simp)).2, (k n6 (by simp)).2⟩
        · exact absurd (by simp [hu]) ih.2
        · exact absurd (by simp [hu]) ih.2
    | bwd _ ed ih =>
        rename_i y' y''
        rcases (pairsF _ _).1 ed with ed | ⟨_, hv⟩ | ⟨_, hv⟩
        · refine ⟨.bwd ih.1 ed, ?_⟩
          have k := noSpare _ _ ed
          simp only [List.mem_cons, List.mem_nil_iff, not_or, or_false]
          exact ⟨(k n1 (by simp)).1, (k n3 (by simp)).1, (k n4 (by simp)).1, (k n6 (by simp)).1⟩
        · exact absurd (by simp [hv]) ih.2
        · exact absurd (by simp [hv]) ih.2
  have newconn : ∀ y, (Conn (VPair F) n1 y → y = n1 ∨ y = n3) ∧ (Conn (VPair F) n6 y → y = n4 ∨ y = n6) := by
    intro y
    constructor
    · intro hc
      induction hc with
      | refl => exact Or.inl rfl
      | fwd _ ed ih =>
          rcases (pairsF _ _).1 ed with ed | ⟨_, hv⟩ | ⟨hu, _⟩
          · have k := noSpare _ _ ed
            rcases ih with ih | ih
            · exact absurd ih (k n1 (by simp)).1
            · exact absurd ih (k n3 (by simp)).1
          · exact Or.inr hv
          · rcases ih with ih | ih
            · rw [ih] at hu; exact absurd hu q54
            · rw [ih] at hu; exact absurd hu q61
      | bwd _ ed ih =>
          rcases (pairsF _ _).1 ed with ed | ⟨hu, _⟩ | ⟨_, hv⟩
          · have k := noSpare _ _ ed
            rcases ih with ih | ih
            · exact absurd ih (k n1 (by simp)).2
            · exact absurd ih (k n3 (by simp)).2
          · exact Or.inl hu
          · rcases ih with ih | ih
            · rw [ih] at hv; exact absurd hv q56
            · rw [ih] at hv; exact absurd hv q63
    · intro hc
      induction hc with
      | refl => exact Or.inr rfl
      | fwd _ ed ih =>
          rcases (pairsF _ _).1 ed with ed | ⟨hu, _⟩ | ⟨_, hv⟩
          · have k := noSpare _ _ ed
            rcases ih with ih | ih
            · exact absurd ih (k n4 (by simp)).1
            · exact absurd ih (k n6 (by simp)).1
          · rcases ih with ih | ih
            · rw [ih] at hu; exact absurd hu (Ne.symm q54)
            · rw [ih] at hu; exact absurd hu (Ne.symm q56)
          · exact Or.inr hv
      | bwd _ ed ih =>
          rcases (pairsF _ _).1 ed with ed | ⟨_, hv⟩ | ⟨hu, _⟩
          · have k := noSpare _ _ ed
            rcases ih with ih | ih
            · exact absurd ih (k n4 (by simp)).2
            · exact absurd ih (k n6 (by simp)).2
          · rcases ih with ih | ih
            · rw [ih] at hv; exact absurd hv (Ne.symm q61)
            · rw [ih] at hv; exact absurd hv (Ne.symm q63)
          · exact Or.inl hu
  -- the reads
  obtain ⟨_, h⟩ := HC.C15.rB_ok h
  rw [b4, Fe 2] at h
  obtain ⟨lfa, m5, r5, h⟩ := run_bind_ok h
  have I5 := inv_attrOnly (ao_takeFaceAnchor cfg m.n e) I4 r5
  have b5 : m5.β = F := by rw [β_of_sameTopo (AttrOnly.run_ok (ao_takeFaceAnchor cfg m.n e) r5)]; exact b4
  obtain ⟨fc5', at5'⟩ := keeps0_takeFaceAnchor cfg m.n e m4 m5 lfa r5
  obtain ⟨rfa, m6, r6, h⟩ := run_bind_ok h
  have I6 := inv_attrOnly (ao_takeFaceAnchor cfg m.n (m.β 2 e)) I5 r6
  have b6 : m6.β = F := by rw [β_of_sameTopo (AttrOnly.run_ok (ao_takeFaceAnchor cfg m.n _) r6)]; exact b5
  obtain ⟨fc6', at6'⟩ := keeps0_takeFaceAnchor cfg m.n (m.β 2 e) m5 m6 rfa r6
  have fc6 : m6.fc = 0 := by rw [fc6', fc5']; exact fc4
  have at5V := att_takeFaceAnchor_ne (t := stVA) (by decide) r5
  have at6V := att_takeFaceAnchor_ne (t := stVA) (by decide) r6
  have at6 : ∀ x, m6.att stVA x = m.att stVA x := fun x => by rw [at6V, at5V, at4]
  obtain ⟨ea, _, h⟩ := ro_bind_ok (ro_peekEdgeAnchor cfg e) h
  obtain ⟨_, h⟩ := HC.C15.rB_ok h
  obtain ⟨_, h⟩ := HC.C15.rB_ok h
  obtain ⟨_, h⟩ := HC.C15.rB_ok h
  obtain ⟨_, h⟩ := HC.C15.rB_ok h
  rw [b6, Fe 0, Fe 1, Fr 0, Fr 1] at h
  obtain ⟨vid1, hv1, h⟩ := ro_bind_ok (readOnly_vertexId2 _ _) h
  obtain ⟨vid2, hv2, h⟩ := ro_bind_ok (readOnly_vertexId2 _ _) h
  obtain ⟨newV, hmid, h⟩ := ro_bind_ok (ro_midpointOrRetry _ _) h
  obtain ⟨vid, hvid, h⟩ := ro_bind_ok (readOnly_vertexId2 _ _) h
  obtain ⟨old, m7, r7, h⟩ := run_bind_ok h
  have n6' : m6.n = m.n := I6.n_eq
  -- the identifiers read
  have four : ∀ x, x ∈ [e, m.β 2 e, m.β 1 e, m.β 0 e, m.β 1 (m.β 2 e), m.β 0 (m.β 2 e)] → x ∉ [n1, n3, n4, n6] := by
    intro x hx
    simp only [List.mem_cons, List.mem_nil_iff, or_false] at hx
    rcases hx with rfl | rfl | rfl | rfl | rfl | rfl <;> simp [q1, Ne.symm q1, q2, Ne.symm q2, q3, Ne.symm q3, q4, Ne.symm q4, q5, Ne.symm q5, q6, Ne.symm q6, q7, Ne.symm q7, q8, Ne.symm q8, q9, Ne.symm q9, q10, Ne.symm q10, q11, Ne.symm q11, q12, Ne.symm q12, q13, Ne.symm q13, q14, Ne.symm q14, q15, Ne.symm q15, q16, Ne.symm q16, q17, Ne.symm q17, q18, Ne.symm q18, q19, Ne.symm q19, q20, Ne.symm q20, q21, Ne.symm q21, q22, Ne.symm q22, q23, Ne.symm q23, q24, Ne.symm q24, q25, Ne.symm q25, q26, Ne.symm q26, q27, Ne.symm q27, q28, Ne.symm q28, q29, Ne.symm q29, q30, Ne.symm q30, q31, Ne.symm q31, q32, Ne.symm q32, q33, Ne.symm q33, q34, Ne.symm q34, q35, Ne.symm q35, q36, Ne.symm q36, q37, Ne.symm q37, q38, Ne.symm q38, q39, Ne.symm q39, q40, Ne.symm q40, q41, Ne.symm q41, q42, Ne.symm q42, q43, Ne.symm q43, q44, Ne.symm q44, q45, Ne.symm q45, q46, Ne.symm q46, q47, Ne.symm q47, q48, Ne.symm q48, q49, Ne.symm q49, q50, Ne.symm q50, q51, Ne.symm q51, q52, Ne.symm q52, q53, Ne.symm q53, q54, Ne.symm q54, q55, Ne.symm q55, q56, Ne.symm q56, q57, Ne.symm q57, q58, Ne.symm q58, q59, Ne.symm q59, q60, Ne.symm q60, q61, Ne.symm q61, q62, Ne.symm q62, q63, Ne.symm q63, q64, Ne.symm q64, q65, Ne.symm q65, q66, Ne.symm q66]
  have oldid : ∀ x, x ≠ 0 → x < m.n → x ∉ [n1, n3, n4, n6] → cellId m6 .vertex x = cellId m .vertex x := by
    intro x x0 xn hx
    refine vid_congr hwf I6.wf n6' x0 xn (fun y _ => ?_)
    rw [show VC m6 x y = Conn (VPair F) x y by unfold VC; rw [b6]]
    exact ⟨fun hc => (oldconn x y hx hc).1,
      Conn.mono (fun u v ed => Conn.fwd (.refl _) ((pairsF u v).2 (Or.inl ed)))⟩
  have ev1 : vid1 = cellId m .vertex e := by
    have := (C03_vertexId2_min I6.wf he.1 (by rw [n6']; exact hn)).1
    rw [n6'] at this
    rw [run_inj hv1 this, oldid e he.1 hn (four e (by simp))]
  have ev2 : vid2 = cellId m .vertex (m.β 1 e) := by
    have := (C03_vertexId2_min I6.wf a0 (by rw [n6']; exact ha)).1
    rw [n6'] at this
    rw [run_inj hv2 this, oldid _ a0 ha (four _ (by simp))]
  have evid : vid = cellId m6 .vertex n1 := by
    have := (C03_vertexId2_min I6.wf n0.1 (by rw [n6']; exact s1.1.2.1)).1
    rw [n6'] at this
    exact run_inj hvid this
  -- the write
  have I7 := inv_attrOnly (ao_writeVtx vid newV) I6 r7
  have e7 : m7 = m6.setA 0 vid (some newV) ∧ m6.okA 0 vid = true := by
    unfold writeVtx at r7
    obtain ⟨hok, r7⟩ := rA_ok r7
    obtain ⟨_, r7⟩ := wA_ok r7
    simp at r7
    exact ⟨r7.2.symm, hok⟩
  have b7 : m7.β = F := by rw [e7.1]; exact b6
  have fc7 : m7.fc = 0 := by rw [e7.1]; exact fc6
  have st67 : SameTopo m6 m7 := by rw [e7.1]; exact SameTopo.setA _ _ _ _
  have vc7 : ∀ x y, VC m7 x y ↔ Conn (VPair F) x y := fun x y => by unfold VC; rw [b7]
  have hat7 : ∀ x, m7.att stVA x = m6.att stVA x := fun x => by
    rw [e7.1, Map.att_setA]; simp [show stVA ≠ 0 by decide, show (0 : Nat) ≠ stVA by decide]
  have v7n1 : vvalT stVA m7 n1 = none := by
    obtain ⟨j0, jn, jc⟩ := vc_vid I6.wf n0.1 (by rw [n6']; exact s1.1.2.1)
    have jj := (newconn _).1 (by have := jc; unfold VC at this; rw [b6] at this; exact this)
    unfold vvalT
    rw [vid_of_sameTopo st67, hat7, at6]
    rcases jj with jj | jj <;> rw [jj]
    · exact hnone n1 (by simp)
    · exact hnone n3 (by simp)
  have v7n6 : vvalT stVA m7 n6 = none := by
    obtain ⟨k0, kn, kc⟩ := vc_vid I6.wf n0.2.2.2.2.2 (by rw [n6']; exact s6.1.2.1)
    have kk := (newconn _).2 (by have := kc; unfold VC at this; rw [b6] at this; exact this)
    unfold vvalT
    rw [vid_of_sameTopo st67, hat7, at6]
    rcases kk with kk | kk <;> rw [kk]
    · exact hnone n4 (by simp)
    · exact hnone n6 (by simp)
  -- the two end points of the edge are different vertices
  have hdiff : ¬ VC m7 e (m7.β 2 e) := by
    rw [b7, Fe 2, vc7]
    intro hc
    have := (oldconn _ _ (four e (by simp)) hc).1
    exact hends ((vid_of_vc hwf he.1 hn hr0 hr).2 this)
  -- the unsews and the two 2-sews: no dart sees another value
  obtain ⟨_, m8, r8, h⟩ := run_bind_ok h
  obtain ⟨I8, fc8, b8, mo8, v8⟩ := twoUnsewT_step cfg hV hVe hA I7 fc7 Le (by rw [b7, Fe 1]; exact a0)
    (by rw [b7, Fe 2, Fr 1]; exact c0) hdiff r8
  obtain ⟨_, m9, r9, h⟩ := run_bind_ok h
  obtain ⟨I9, fc9, _, v9⟩ := unsewT_step cfg hV hA I8 fc8 Le r9
  have b9 := unsew_step_beta cfg r9
  obtain ⟨_, m10, r10, h⟩ := run_bind_ok h
  obtain ⟨I10, fc10, _, v10⟩ := unsewT_step cfg hV hA I9 fc9 La r10
  have b10 := unsew_step_beta cfg r10
  obtain ⟨_, m11, r11, h⟩ := run_bind_ok h
  obtain ⟨I11, fc11, _, v11⟩ := unsewT_step cfg hV hA I10 fc10 Lr r11
  have b11 := unsew_step_beta cfg r11
  obtain ⟨_, m12, r12, h⟩ := run_bind_ok h
  obtain ⟨I12, fc12, _, v12⟩ := unsewT_step cfg hV hA I11 fc11 Lc r12
  have b12 := unsew_step_beta cfg r12
  have B12 : m12.β = unl1 (unl1 (unl1 (unl1 (unl2 F e) e) (m.β 1 e)) (m.β 2 e)) (m.β 1 (m.β 2 e)) := by
    rw [b12, b11, b10, b9, b8, b7]
  obtain ⟨_, m13, r13, h⟩ := run_bind_ok h
  obtain ⟨I13, fc13, b13, mo13, v13⟩ := twoSewT_free_step cfg hVe I12 fc12 Le L6 q11
    (by rw [B12]; simp [unl1_one', unl2_one', q1, Ne.symm q1, q2, Ne.symm q2, q3, Ne.symm q3, q4, Ne.symm q4, q5, Ne.symm q5, q6, Ne.symm q6, q7, Ne.symm q7, q8, Ne.symm q8, q9, Ne.symm q9, q10, Ne.symm q10, q11, Ne.symm q11, q12, Ne.symm q12, q13, Ne.symm q13, q14, Ne.symm q14, q15, Ne.symm q15, q16, Ne.symm q16, q17, Ne.symm q17, q18, Ne.symm q18, q19, Ne.symm q19, q20, Ne.symm q20, q21, Ne.symm q21, q22, Ne.symm q22, q23, Ne.symm q23, q24, Ne.symm q24, q25, Ne.symm q25, q26, Ne.symm q26, q27, Ne.symm q27, q28, Ne.symm q28, q29, Ne.symm q29, q30, Ne.symm q30, q31, Ne.symm q31, q32, Ne.symm q32, q33, Ne.symm q33, q34, Ne.symm q34, q35, Ne.symm q35, q36, Ne.symm q36, q37, Ne.symm q37, q38, Ne.symm q38, q39, Ne.symm q39, q40, Ne.symm q40, q41, Ne.symm q41, q42, Ne.symm q42, q43, Ne.symm q43, q44, Ne.symm q44, q45, Ne.symm q45, q46, Ne.symm q46, q47, Ne.symm q47, q48, Ne.symm q48, q49, Ne.symm q49, q50, Ne.symm q50, q51, Ne.symm q51, q52, Ne.symm q52, q53, Ne.symm q53, q54, Ne.symm q54, q55, Ne.symm q55, q56, Ne.symm q56, q57, Ne.symm q57, q58, Ne.symm q58, q59, Ne.symm q59, q60, Ne.symm q60, q61, Ne.symm q61, q62, Ne.symm q62, q63, Ne.symm q63, q64, Ne.symm q64, q65, Ne.symm q65, q66, Ne.symm q66])
    (by rw [B12]; simp [unl1_one', unl2_one', F1, q1, Ne.symm q1, q2, Ne.symm q2, q3, Ne.symm q3, q4, Ne.symm q4, q5, Ne.symm q5, q6, Ne.symm q6, q7, Ne.symm q7, q8, Ne.symm q8, q9, Ne.symm q9, q10, Ne.symm q10, q11, Ne.symm q11, q12, Ne.symm q12, q13, Ne.symm q13, q14, Ne.symm q14, q15, Ne.symm q15, q16, Ne.symm q16, q17, Ne.symm q17, q18, Ne.symm q18, q19, Ne.symm q19, q20, Ne.symm q20, q21, Ne.symm q21, q22, Ne.symm q22, q23, Ne.symm q23, q24, Ne.symm q24, q25, Ne.symm q25, q26, Ne.symm q26, q27, Ne.symm q27, q28, Ne.symm q28, q29, Ne.symm q29, q30, Ne.symm q30, q31, Ne.symm q31, q32, Ne.symm q32, q33, Ne.symm q33, q34, Ne.symm q34, q35, Ne.symm q35, q36, Ne.symm q36, q37, Ne.symm q37, q38, Ne.symm q38, q39, Ne.symm q39, q40, Ne.symm q40, q41, Ne.symm q41, q42, Ne.symm q42, q43, Ne.symm q43, q44, Ne.symm q44, q45, Ne.symm q45, q46, Ne.symm q46, q47, Ne.symm q47, q48, Ne.symm q48, q49, Ne.symm q49, q50, Ne.symm q50, q51, Ne.symm q51, q52, Ne.symm q52, q53, Ne.symm q53, q54, Ne.symm q54, q55, Ne.symm q55, q56, Ne.symm q56, q57, Ne.symm q57, q58, Ne.symm q58, q59, Ne.symm q59, q60, Ne.symm q60, q61, Ne.symm q61, q62, Ne.symm q62, q63, Ne.symm q63, q64, Ne.symm q64, q65, Ne.symm q65, q66, Ne.symm q66]) r13
  obtain ⟨_, m14, r14, h⟩ := run_bind_ok h
  obtain ⟨I14, fc14, b14, mo14, v14⟩ := twoSewT_free_step cfg hVe I13 fc13 Lr L3 q18
    (by rw [b13, B12]; simp [lnk2_one', unl1_one', unl2_one', q1, Ne.symm q1, q2, Ne.symm q2, q3, Ne.symm q3, q4, Ne.symm q4, q5, Ne.symm q5, q6, Ne.symm q6, q7, Ne.symm q7, q8, Ne.symm q8, q9, Ne.symm q9, q10, Ne.symm q10, q11, Ne.symm q11, q12, Ne.symm q12, q13, Ne.symm q13, q14, Ne.symm q14, q15, Ne.symm q15, q16, Ne.symm q16, q17, Ne.symm q17, q18, Ne.symm q18, q19, Ne.symm q19, q20, Ne.symm q20, q21, Ne.symm q21, q22, Ne.symm q22, q23, Ne.symm q23, q24, Ne.symm q24, q25, Ne.symm q25, q26, Ne.symm q26, q27, Ne.symm q27, q28, Ne.symm q28, q29, Ne.symm q29, q30, Ne.symm q30, q31, Ne.symm q31, q32, Ne.symm q32, q33, Ne.symm q33, q34, Ne.symm q34, q35, Ne.symm q35, q36, Ne.symm q36, q37, Ne.symm q37, q38, Ne.symm q38, q39, Ne.symm q39, q40, Ne.symm q40, q41, Ne.symm q41, q42, Ne.symm q42, q43, Ne.symm q43, q44, Ne.symm q44, q45, Ne.symm q45, q46, Ne.symm q46, q47, Ne.symm q47, q48, Ne.symm q48, q49, Ne.symm q49, q50, Ne.symm q50, q51, Ne.symm q51, q52, Ne.symm q52, q53, Ne.symm q53, q54, Ne.symm q54, q55, Ne.symm q55, q56, Ne.symm q56, q57, Ne.symm q57, q58, Ne.symm q58, q59, Ne.symm q59, q60, Ne.symm q60, q61, Ne.symm q61, q62, Ne.symm q62, q63, Ne.symm q63, q64, Ne.symm q64, q65, Ne.symm q65, q66, Ne.symm q66])
    (by rw [b13, B12]; simp [lnk2_one', unl1_one', unl2_one', F1, q1, Ne.symm q1, q2, Ne.symm q2, q3, Ne.symm q3, q4, Ne.symm q4, q5, Ne.symm q5, q6, Ne.symm q6, q7, Ne.symm q7, q8, Ne.symm q8, q9, Ne.symm q9, q10, Ne.symm q10, q11, Ne.symm q11, q12, Ne.symm q12, q13, Ne.symm q13, q14, Ne.symm q14, q15, Ne.symm q15, q16, Ne.symm q16, q17, Ne.symm q17, q18, Ne.symm q18, q19, Ne.symm q19, q20, Ne.symm q20, q21, Ne.symm q21, q22, Ne.symm q22, q23, Ne.symm q23, q24, Ne.symm q24, q25, Ne.symm q25, q26, Ne.symm q26, q27, Ne.symm q27, q28, Ne.symm q28, q29, Ne.symm q29, q30, Ne.symm q30, q31, Ne.symm q31, q32, Ne.symm q32, q33, Ne.symm q33, q34, Ne.symm q34, q35, Ne.symm q35, q36, Ne.symm q36, q37, Ne.symm q37, q38, Ne.symm q38, q39, Ne.symm q39, q40, Ne.symm q40, q41, Ne.symm q41, q42, Ne.symm q42, q43, Ne.symm q43, q44, Ne.symm q44, q45, Ne.symm q45, q46, Ne.symm q46, q47, Ne.symm q47, q48, Ne.symm q48, q49, Ne.symm q49, q50, Ne.symm q50, q51, Ne.symm q51, q52, Ne.symm q52, q53, Ne.symm q53, q54, Ne.symm q54, q55, Ne.symm q55, q56, Ne.symm q56, q57, Ne.symm q57, q58, Ne.symm q58, q59, Ne.symm q59, q60, Ne.symm q60, q61, Ne.symm q61, q62, Ne.symm q62, q63, Ne.symm q63, q64, Ne.symm q64, q65, Ne.symm q65, q66, Ne.symm q66]) r14
  have B14 : m14.β = lnk2 (lnk2 (unl1 (unl1 (unl1 (unl1 (unl2 F e) e) (m.β 1 e)) (m.β 2 e)) (m.β 1 (m.β 2 e))) e n6)
      (m.β 2 e) n3 := by rw [b14, b13, B12]
  have H2 : m14.β 2 e = n6 ∧ m14.β 2 n1 = n2 ∧ m14.β 2 n3 = m.β 2 e ∧ m14.β 2 (m.β 2 e) = n3 ∧ m14.β 2 n4 = n5 ∧
      m14.β 2 n6 = e ∧ m14.β 2 n2 = n1 ∧ m14.β 2 n5 = n4 := by
    rw [B14]
    simp [lnk2_two', unl1_two', unl2_two', Fe 2, F2, q1, Ne.symm q1, q2, Ne.symm q2, q3, Ne.symm q3, q4, Ne.symm q4, q5, Ne.symm q5, q6, Ne.symm q6, q7, Ne.symm q7, q8, Ne.symm q8, q9, Ne.symm q9, q10, Ne.symm q10, q11, Ne.symm q11, q12, Ne.symm q12, q13, Ne.symm q13, q14, Ne.symm q14, q15, Ne.symm q15, q16, Ne.symm q16, q17, Ne.symm q17, q18, Ne.symm q18, q19, Ne.symm q19, q20, Ne.symm q20, q21, Ne.symm q21, q22, Ne.symm q22, q23, Ne.symm q23, q24, Ne.symm q24, q25, Ne.symm q25, q26, Ne.symm q26, q27, Ne.symm q27, q28, Ne.symm q28, q29, Ne.symm q29, q30, Ne.symm q30, q31, Ne.symm q31, q32, Ne.symm q32, q33, Ne.symm q33, q34, Ne.symm q34, q35, Ne.symm q35, q36, Ne.symm q36, q37, Ne.symm q37, q38, Ne.symm q38, q39, Ne.symm q39, q40, Ne.symm q40, q41, Ne.symm q41, q42, Ne.symm q42, q43, Ne.symm q43, q44, Ne.symm q44, q45, Ne.symm q45, q46, Ne.symm q46, q47, Ne.symm q47, q48, Ne.symm q48, q49, Ne.symm q49, q50, Ne.symm q50, q51, Ne.symm q51, q52, Ne.symm q52, q53, Ne.symm q53, q54, Ne.symm q54, q55, Ne.symm q55, q56, Ne.symm q56, q57, Ne.symm q57, q58, Ne.symm q58, q59, Ne.symm q59, q60, Ne.symm q60, q61, Ne.symm q61, q62, Ne.symm q62, q63, Ne.symm q63, q64, Ne.symm q64, q65, Ne.symm q65, q66, Ne.symm q66]
  -- the two halves of the new vertex are still different vertices
  have hsep : ¬ VC m14 n6 n1 := by
    intro hc
    have c7 : VC m7 n6 n1 :=
      mo8 _ _ (vc_of_unl1 b9 _ _ (vc_of_unl1 b10 _ _ (vc_of_unl1 b11 _ _ (vc_of_unl1 b12 _ _
        ((mo13 _ _).1 ((mo14 _ _).1 hc))))))
    rcases (newconn _).2 ((vc7 _ _).1 c7) with hh | hh
    · exact q54 hh
    · exact q56 hh
  have v14n1 : vvalT stVA m14 n1 = none := by
    rw [v14 _ n0.1 s1.1.2.1, v13 _ n0.1 s1.1.2.1, v12 _ n0.1 s1.1.2.1, v11 _ n0.1 s1.1.2.1, v10 _ n0.1 s1.1.2.1,
      v9 _ n0.1 s1.1.2.1, v8 _ n0.1 s1.1.2.1]
    exact v7n1
  have v14n6 : vvalT stVA m14 n6 = none := by
    rw [v14 _ n0.2.2.2.2.2 s6.1.2.1, v13 _ n0.2.2.2.2.2 s6.1.2.1, v12 _ n0.2.2.2.2.2 s6.1.2.1,
      v11 _ n0.2.2.2.2.2 s6.1.2.1, v10 _ n0.2.2.2.2.2 s6.1.2.1, v9 _ n0.2.2.2.2.2 s6.1.2.1, v8 _ n0.2.2.2.2.2 s6.1.2.1]
    exact v7n6
  -- the 1-sew (e, n1) has to merge two undefined anchors
  obtain ⟨_, m15, r15, h⟩ := run_bind_ok h
  have I15 := keeps_oneSew2 cfg m.n Le L1 m14 m15 () I14 r15
  obtain ⟨_, _, _, _, _, _, W⟩ := vvalT_oneSew2 cfg hV I14.wf I15.wf I14.n_eq fc14 n0.1 s1.1.2.1 r15
  have h2 : m14.β 2 e ≠ 0 := by rw [H2.1]; exact n0.2.2.2.2.2
  obtain ⟨_, Wv, _, _, mg, _⟩ := W h2
  have hid : cellId m14 .vertex (m14.β 2 e) ≠ cellId m14 .vertex n1 := by
    rw [H2.1]
    intro hh
    exact hsep ((vid_of_vc I14.wf n0.2.2.2.2.2 (by rw [I14.n_eq]; exact s6.1.2.1) n0.1
      (by rw [I14.n_eq]; exact s1.1.2.1)).1 hh)
  obtain ⟨v, hv, _⟩ := mg hid
  rw [H2.1, v14n6, v14n1] at hv
  exact hA.mergeNone v hv


/-! ## the cut theorems in words (corollaries) -/

/-- **C15 (anchors), cut_outer_edge, in words** (corollary of `C15_cutOuter_edge_face_anchors`; identifiers of the
    RESULTING map): whatever anchor storages exist,
    * with an EdgeAnchor storage the first half of the cut edge keeps the anchor read at `e`, and the second half (the edge
      of `nd3`) carries it as soon as it is defined — no hypothesis on the FaceAnchor storage or the face anchor;
    * with both storages and an anchored cut face, the new inner edge (the edge of `nd1`) carries `EdgeAnchor::from` of it;
    * with a FaceAnchor storage and an anchored cut face, both new faces carry its anchor;
    * without FaceAnchor storage, or with an unanchored cut face, NO slot of the FaceAnchor storage changes. -/
theorem C15_cutOuter_anchors (cfg : Cfg Val) (m m' : Map Val) (e nd1 nd2 nd3 : Nat) (hwf : WF 3 m)
    (hfc : m.fc = 0) (he : C01.InUse m e) (h2e : m.β 2 e = 0)
    (h : run (cutOuterEdge cfg m.n e nd1 nd2 nd3) m = (.ok (), m'))
    (htri : m.β 1 (m.β 1 e) = m.β 0 e) (hb : m.β 0 e ≠ 0)
    (s1 : Spare m nd1) (s2 : Spare m nd2) (s3 : Spare m nd3)
    (hnd : [e, m.β 1 e, m.β 0 e, nd1, nd2, nd3].Nodup)
    (hE : stEA ∉ vStores cfg) (hF : stFA ∉ vStores cfg) :
    (regd cfg stEA = true →
      m'.att stEA (cellId m' .edge e) = m.att stEA e ∧
      ∀ a', m.att stEA e = some a' → m'.att stEA (cellId m' .edge nd3) = some a') ∧
    (regd cfg stEA = true → regd cfg stFA = true → ∀ a, m.att stFA (cellId m .face e) = some a →
      m'.att stEA (cellId m' .edge nd1) = some (faceToEdgeVal a)) ∧
    (regd cfg stFA = true → ∀ a, m.att stFA (cellId m .face e) = some a →
      m'.att stFA (cellId m' .face e) = some a ∧ m'.att stFA (cellId m' .face nd3) = some a) ∧
    ((regd cfg stFA = false ∨ m.att stFA (cellId m .face e) = none) → ∀ x, m'.att stFA x = m.att stFA x) := by
  obtain ⟨⟨i0, i1, i2, i3, i4, i5⟩, hFA, hEA⟩ := C15_cutOuter_edge_face_anchors cfg m m' e nd1 nd2 nd3 hwf hfc he h2e h htri
    hb s1 s2 s3 hnd hE hF rfl rfl
  have hnd' := hnd
  simp only [List.nodup_cons, List.mem_cons, List.mem_nil_iff, not_or, or_false, List.nodup_nil, and_true] at hnd'
  obtain ⟨⟨d1, d2, d3, d4, d5⟩, ⟨d6, d7, d8, d9⟩, ⟨d10, d11, d12⟩, ⟨d13, d14⟩, d15, _⟩ := hnd'
  have m1 : min nd2 nd1 ≠ nd3 := min2_ne1 d15 d14
  have m2 : e ≠ min nd2 nd1 := Ne.symm (min2_ne1 (Ne.symm d4) (Ne.symm d3))
  rw [i0]
  refine ⟨fun hrE => ⟨?_, fun a' ha' => ?_⟩, fun hrE hrF a ha => ?_, fun hrF a ha => ⟨?_, ?_⟩, fun hh x => ?_⟩
  · rw [i3, hEA]
    unfold edgeAnchorsAfter
    rw [if_neg (fun hh => d5 hh.1)]
    generalize (if regd cfg stEA = true then (if regd cfg stFA = true then
      m.att stFA (min e (min (m.β 1 e) (m.β 0 e))) else none) else none) = g
    cases g with
    | none => rfl
    | some a => simp [m2]
  · rw [i4, hEA]
    unfold edgeAnchorsAfter
    rw [if_pos hrE, ha']
    simp
  · rw [i5, hEA]
    unfold edgeAnchorsAfter
    rw [if_neg (fun hh => m1 hh.1), if_pos hrE, if_pos hrF, ha]
    simp
  · rw [i1, hFA]
    unfold faceAnchorsAfter
    rw [if_pos hrF, ha]
    simp
  · rw [i2, hFA]
    unfold faceAnchorsAfter
    rw [if_pos hrF, ha]
    simp
  · rw [hFA]
    unfold faceAnchorsAfter
    rcases hh with hh | hh
    · rw [hh]; simp
    · by_cases hrF : regd cfg stFA = true
      · rw [if_pos hrF, hh]
      · simp [hrF]

/-- **C15 (anchors), cut_inner_edge, in words** (corollary of `C15_cutInner_face_anchors` and `C15_cutInner_edge_anchors`;
    identifiers of the RESULTING map):
    * FaceAnchor storage (any situation of the two others): the two new faces on the side of `e` carry the anchor of the
      left cut face when it is defined, the two on the side of `r = β2 e` that of the right cut face;
    * EdgeAnchor storage present (edge-bound, generated law; `n3`, `n6` without edge anchor): the cut edge has an anchor
      `A` and BOTH halves (the edges of `e` and of `r`) carry it; the transversal edges (the edges of `n1`, `n4`) carry
      `EdgeAnchor::from` of the anchor of the face they lie in, when that face is anchored. -/
theorem C15_cutInner_anchors (cfg : Cfg Val) (m m' : Map Val) (e n1 n2 n3 n4 n5 n6 : Nat) (hwf : WF 3 m)
    (hfc : m.fc = 0) (he : C01.InUse m e)
    (h : run (cutInnerEdge cfg m.n e n1 n2 n3 n4 n5 n6) m = (.ok (), m'))
    (hr0 : m.β 2 e ≠ 0)
    (htl : m.β 1 (m.β 1 e) = m.β 0 e) (hb : m.β 0 e ≠ 0)
    (htr : m.β 1 (m.β 1 (m.β 2 e)) = m.β 0 (m.β 2 e)) (hd : m.β 0 (m.β 2 e) ≠ 0)
    (hs : ∀ x, x ∈ [n1, n2, n3, n4, n5, n6] → Spare m x)
    (hnd : [e, m.β 2 e, m.β 1 e, m.β 0 e, m.β 1 (m.β 2 e), m.β 0 (m.β 2 e), n1, n2, n3, n4, n5, n6].Nodup)
    (hFv : stFA ∉ vStores cfg) (hFe : stFA ∉ eStores cfg) :
    (regd cfg stFA = true →
      (∀ a, m.att stFA (cellId m .face e) = some a →
        m'.att stFA (cellId m' .face e) = some a ∧ m'.att stFA (cellId m' .face n3) = some a) ∧
      (∀ b, m.att stFA (cellId m .face (m.β 2 e)) = some b →
        m'.att stFA (cellId m' .face (m.β 2 e)) = some b ∧ m'.att stFA (cellId m' .face n6) = some b)) ∧
    (stEA ∉ vStores cfg → stEA ∈ eStores cfg → regd cfg stEA = true → cfg.law stEA = anchorLawE →
      m.att stEA n3 = none → m.att stEA n6 = none →
      ∃ A, m.att stEA (cellId m .edge e) = some A ∧
        m'.att stEA (cellId m' .edge e) = some A ∧ m'.att stEA (cellId m' .edge (m.β 2 e)) = some A ∧
        (regd cfg stFA = true → ∀ a, m.att stFA (cellId m .face e) = some a →
          m'.att stEA (cellId m' .edge n1) = some (faceToEdgeVal a)) ∧
        (regd cfg stFA = true → ∀ b, m.att stFA (cellId m .face (m.β 2 e)) = some b →
          m'.att stEA (cellId m' .edge n4) = some (faceToEdgeVal b))) := by
  have hnd' := hnd
  simp only [List.nodup_cons, List.mem_cons, List.mem_nil_iff, not_or, or_false, List.nodup_nil, and_true] at hnd'
  obtain ⟨⟨q1, q2, q3, q4, q5, q6, q7, q8, q9, q10, q11⟩, ⟨q12, q13, q14, q15, q16, q17, q18, q19, q20, q21⟩, ⟨q22, q23, q24, q25, q26, q27, q28, q29, q30⟩, ⟨q31, q32, q33, q34, q35, q36, q37, q38⟩, ⟨q39, q40, q41, q42, q43, q44, q45⟩, ⟨q46, q47, q48, q49, q50, q51⟩, ⟨q52, q53, q54, q55, q56⟩, ⟨q57, q58, q59, q60⟩, ⟨q61, q62, q63⟩, ⟨q64, q65⟩, q66, _⟩ := hnd'
  obtain ⟨⟨j0, j1, f1, f2, f3, f4⟩, hFA⟩ := C15_cutInner_face_anchors cfg m m' e n1 n2 n3 n4 n5 n6 hwf hfc he h hr0 htl hb
    htr hd hs hnd hFv hFe rfl rfl
  have F13 := min3_ne q1 q9 q5 (Ne.symm q16) q54 (Ne.symm q46) (Ne.symm q13) q36 q32
  have F14 := min3_ne q11 q4 q10 q56 (Ne.symm q40) q55 q38 q31 q37
  have F23 := min3_ne (Ne.symm q18) q61 (Ne.symm q48) (Ne.symm q12) q28 q24 (Ne.symm q17) q58 (Ne.symm q47)
  have F24 := min3_ne q63 (Ne.symm q42) q62 q30 q23 q29 q60 (Ne.symm q41) q59
  refine ⟨fun hrF => ⟨fun a ha => ?_, fun b hb' => ?_⟩, ?_⟩
  · rw [j0] at ha
    constructor
    · rw [f1, hFA]
      unfold innerFaceAnchorsAfter spreadFA
      simp only [hrF, ↓reduceIte, ha]
      cases hq : m.att stFA (min (m.β 2 e) (min (m.β 1 (m.β 2 e)) (m.β 0 (m.β 2 e)))) <;> simp [F13, F14, hq]
    · rw [f2, hFA]
      unfold innerFaceAnchorsAfter spreadFA
      simp only [hrF, ↓reduceIte, ha]
      cases hq : m.att stFA (min (m.β 2 e) (min (m.β 1 (m.β 2 e)) (m.β 0 (m.β 2 e)))) <;> simp [F23, F24, hq]
  · rw [j1] at hb'
    constructor
    · rw [f3, hFA]
      unfold innerFaceAnchorsAfter spreadFA
      simp only [hrF, ↓reduceIte, hb']
      simp
    · rw [f4, hFA]
      unfold innerFaceAnchorsAfter spreadFA
      simp only [hrF, ↓reduceIte, hb']
      simp
  · intro hEv hEe hrE hLaw hn3 hn6
    obtain ⟨⟨i0, i1, i2, i3, i4⟩, A, hA, hEA⟩ := C15_cutInner_edge_anchors cfg m m' e n1 n2 n3 n4 n5 n6 hwf hfc he h hr0
      htl hb htr hd hs hnd hEv hEe hrE hLaw ⟨hn3, hn6⟩ rfl rfl
    have X12 := min2_ne (Ne.symm q63) (Ne.symm q21) q8 q1
    have X13 := min2_ne (Ne.symm q60) (Ne.symm q56) q7 q6
    have X14 := min2_ne (Ne.symm q66) (Ne.symm q65) q10 q9
    have X23 := min2_ne (Ne.symm q57) (Ne.symm q53) q17 q16
    have X24 := min2_ne q62 q61 q20 q19
    have X34 := min2_ne q59 q58 q55 q54
    have X1r := min2_ne1 (Ne.symm q21) q1
    have X1n := min2_ne1 (Ne.symm q63) q8
    refine ⟨A, by rw [i0]; exact hA, ?_, ?_, fun hrF a ha => ?_, fun hrF b hb' => ?_⟩
    · rw [i1, hEA]
      unfold innerEdgeAnchorsAfter spreadEA
      cases (if regd cfg stFA = true then
        m.att stFA (min (m.β 2 e) (min (m.β 1 (m.β 2 e)) (m.β 0 (m.β 2 e)))) else none) <;>
      cases (if regd cfg stFA = true then m.att stFA (min e (min (m.β 1 e) (m.β 0 e))) else none) <;>
        simp [X12, X13, X14, X1r, X1n]
    · rw [i2, hEA]
      unfold innerEdgeAnchorsAfter spreadEA
      cases (if regd cfg stFA = true then
        m.att stFA (min (m.β 2 e) (min (m.β 1 (m.β 2 e)) (m.β 0 (m.β 2 e)))) else none) <;>
      cases (if regd cfg stFA = true then m.att stFA (min e (min (m.β 1 e) (m.β 0 e))) else none) <;>
        simp [X23, X24]
    · rw [j0] at ha
      rw [i3, hEA]
      unfold innerEdgeAnchorsAfter spreadEA
      rw [if_pos hrF, if_pos hrF, ha]
      cases m.att stFA (min (m.β 2 e) (min (m.β 1 (m.β 2 e)) (m.β 0 (m.β 2 e)))) <;> simp [X34]
    · rw [j1] at hb'
      rw [i4, hEA]
      unfold innerEdgeAnchorsAfter spreadEA
      rw [if_pos hrF, if_pos hrF, hb']
      simp


/-! ## non-vacuity: the anchored unit square with three spare darts, every subset of anchor storages -/

def sqA3 : Map Val := (unitSquareAnchored.addFreeDarts 3).2

/-- the three theorems on `cut_outer_edge(1, [7, 8, 9])`, Vertex + Edge anchor storages only (mask 96: no FaceAnchor
    storage — the configuration of the seeded change C15-6): both halves of the cut edge (identifiers 1 and 9) keep its
    curve anchor C0, the new vertex (identifier 7) gets C0, no face slot changes, the corner (1,0) keeps its node -/
example : ∃ m', run (cutOuterEdge (stdCfg 3 96) sqA3.n 1 7 8 9) sqA3 = (.ok (), m') ∧
    m'.att stEA 1 = tml 1 ∧ m'.att stEA 9 = tml 1 ∧ cellId m' .vertex 7 = 7 ∧ m'.att stVA 7 = tml 1 ∧
    (∀ x, m'.att stFA x = sqA3.att stFA x) ∧
    m'.att stVA (cellId m' .vertex 2) = sqA3.att stVA (cellId sqA3 .vertex 2) := by
  have hrun := run_eq_of_fst (p := cutOuterEdge (stdCfg 3 96) sqA3.n 1 7 8 9) (m := sqA3) (a := ()) (by decide +kernel)
  have hw : WF 3 sqA3 := by decide +kernel
  have he : C01.InUse sqA3 1 := by decide +kernel
  have s7 : Spare sqA3 7 := ⟨by decide +kernel, by decide +kernel⟩
  have s8 : Spare sqA3 8 := ⟨by decide +kernel, by decide +kernel⟩
  have s9 : Spare sqA3 9 := ⟨by decide +kernel, by decide +kernel⟩
  obtain ⟨_, hF, hE⟩ := C15_cutOuter_edge_face_anchors (stdCfg 3 96) sqA3 _ 1 7 8 9 hw (by decide +kernel) he
    (by decide +kernel) hrun (by decide +kernel) (by decide +kernel) s7 s8 s9 (by decide +kernel) (by decide +kernel)
    (by decide +kernel) rfl rfl
  obtain ⟨hold, hid, _, _, hnew⟩ := C15_cutOuter_vertex_anchors (stdCfg 3 96) sqA3 _ 1 7 8 9 hw (by decide +kernel) he
    (by decide +kernel) hrun (by decide +kernel) (by decide +kernel) s7 s8 s9 (by decide +kernel) (by decide +kernel)
    (by decide +kernel) rfl ⟨by decide +kernel, by decide +kernel, by decide +kernel⟩ rfl
  have i7 : min 7 9 = 7 := by decide
  rw [i7] at hid
  rw [hid] at hnew
  refine ⟨_, hrun, ?_, ?_, hid, ?_, fun x => ?_, hold 2 (by decide) (by decide +kernel) (by decide)⟩
  · rw [hE]; decide +kernel
  · rw [hE]; decide +kernel
  · rw [hnew]; decide +kernel
  · rw [hF]; rfl

/-- … with the FaceAnchor storage only (mask 128): the two new faces (identifiers 1 and 2) get the surface anchor of the
    cut face; the EdgeAnchor and VertexAnchor slots (unregistered) do not change -/
example : ∃ m', run (cutOuterEdge (stdCfg 3 128) sqA3.n 1 7 8 9) sqA3 = (.ok (), m') ∧
    m'.att stFA 1 = tml 2 ∧ m'.att stFA 2 = tml 2 ∧ (∀ x, m'.att stEA x = sqA3.att stEA x) ∧
    (∀ x, m'.att stVA x = sqA3.att stVA x) := by
  have hrun := run_eq_of_fst (p := cutOuterEdge (stdCfg 3 128) sqA3.n 1 7 8 9) (m := sqA3) (a := ()) (by decide +kernel)
  have s7 : Spare sqA3 7 := ⟨by decide +kernel, by decide +kernel⟩
  have s8 : Spare sqA3 8 := ⟨by decide +kernel, by decide +kernel⟩
  have s9 : Spare sqA3 9 := ⟨by decide +kernel, by decide +kernel⟩
  obtain ⟨_, hF, hE⟩ := C15_cutOuter_edge_face_anchors (stdCfg 3 128) sqA3 _ 1 7 8 9 (by decide +kernel)
    (by decide +kernel) (by decide +kernel) (by decide +kernel) hrun (by decide +kernel) (by decide +kernel) s7 s8 s9
    (by decide +kernel) (by decide +kernel) (by decide +kernel) rfl rfl
  refine ⟨_, hrun, ?_, ?_, fun x => ?_, C15_cutOuter_other_storages (stdCfg 3 128) sqA3 _ 1 7 8 9 stVA (by decide +kernel)
    hrun (by decide +kernel) (by decide) (by decide) (fun _ => by decide +kernel)⟩
  · rw [hF]; decide +kernel
  · rw [hF]; decide +kernel
  · have r : regd (stdCfg 3 128) stEA = false := by decide +kernel
    rw [hE]; simp [edgeAnchorsAfter, r]

/-- … with all three storages (mask 224) and with none (mask 0): the hypotheses hold as well -/
example : (run (cutOuterEdge (stdCfg 3 224) sqA3.n 1 7 8 9) sqA3).1 = .ok () ∧
    (run (cutOuterEdge (stdCfg 3 0) sqA3.n 1 7 8 9) sqA3).1 = .ok () ∧
    stEA ∉ C04.vStores (stdCfg 3 224) ∧ stFA ∉ C04.vStores (stdCfg 3 224) ∧ stVA ∈ C04.vStores (stdCfg 3 224) ∧
    stEA ∉ C04.vStores (stdCfg 3 0) ∧ stFA ∉ C04.vStores (stdCfg 3 0) ∧ stVA ∉ C04.vStores (stdCfg 3 0) := by
  decide +kernel

def sqA6 : Map Val := (unitSquareAnchored.addFreeDarts 6).2

/-- the inner-cut theorems on `cut_inner_edge(2, [12 … 7])` of the anchored unit square, Edge + Face anchor storages
    (mask 192; with a VertexAnchor storage `cut_inner_edge` never succeeds): both halves of the diagonal (identifiers 2 and
    4) keep its anchor S0, the two transversal edges (11 and 8) and the four new faces get the surface anchor -/
example : ∃ m', run (cutInnerEdge (stdCfg 3 192) sqA6.n 2 12 11 10 9 8 7) sqA6 = (.ok (), m') ∧
    m'.att stEA 2 = tml 2 ∧ m'.att stEA 4 = tml 2 ∧ m'.att stEA 11 = tml 2 ∧ m'.att stEA 8 = tml 2 ∧
    m'.att stFA (cellId m' .face 2) = tml 2 ∧ m'.att stFA (cellId m' .face 10) = tml 2 ∧
    m'.att stFA (cellId m' .face 4) = tml 2 ∧ m'.att stFA (cellId m' .face 7) = tml 2 ∧
    (∀ x, m'.att stVA x = sqA6.att stVA x) := by
  have hrun := run_eq_of_fst (p := cutInnerEdge (stdCfg 3 192) sqA6.n 2 12 11 10 9 8 7) (m := sqA6) (a := ())
    (by decide +kernel)
  have hw : WF 3 sqA6 := by decide +kernel
  have he : C01.InUse sqA6 2 := by decide +kernel
  have hs : ∀ x, x ∈ [12, 11, 10, 9, 8, 7] → Spare sqA6 x := by
    intro x hx
    simp only [List.mem_cons, List.mem_nil_iff, or_false] at hx
    rcases hx with rfl | rfl | rfl | rfl | rfl | rfl <;> exact ⟨by decide +kernel, by decide +kernel⟩
  obtain ⟨⟨_, _, f1, f2, f3, f4⟩, hF⟩ := C15_cutInner_face_anchors (stdCfg 3 192) sqA6 _ 2 12 11 10 9 8 7 hw
    (by decide +kernel) he hrun (by decide +kernel) (by decide +kernel) (by decide +kernel) (by decide +kernel)
    (by decide +kernel) hs (by decide +kernel) (by decide +kernel) (by decide +kernel) rfl rfl
  obtain ⟨_, A, hA, hE⟩ := C15_cutInner_edge_anchors (stdCfg 3 192) sqA6 _ 2 12 11 10 9 8 7 hw
    (by decide +kernel) he hrun (by decide +kernel) (by decide +kernel) (by decide +kernel) (by decide +kernel)
    (by decide +kernel) hs (by decide +kernel) (by decide +kernel) (by decide +kernel) (by decide +kernel) rfl
    ⟨by decide +kernel, by decide +kernel⟩ rfl rfl
  have e4 : sqA6.β 2 2 = 4 := by decide +kernel
  rw [e4] at f3
  have hA' : sqA6.att stEA (min (sqA6.β 2 2) 2) = tml 2 := by decide +kernel
  rw [hA'] at hA
  simp only [tml, Option.some.injEq] at hA
  subst hA
  refine ⟨_, hrun, ?_, ?_, ?_, ?_, ?_, ?_, ?_, ?_, C15_cutInner_other_storages (stdCfg 3 192) sqA6 _ 2 12 11 10 9 8 7 stVA
    hw (by decide +kernel) he hrun (by decide +kernel) (by decide +kernel) (by decide +kernel) (by decide +kernel)
    (by decide +kernel) hs (by decide +kernel) (by decide +kernel) (by decide +kernel) (by decide) (by decide)
    (fun _ => by decide +kernel)⟩
  · rw [hE]; decide +kernel
  · rw [hE]; decide +kernel
  · rw [hE]; decide +kernel
  · rw [hE]; decide +kernel
  · rw [f1, hF]; decide +kernel
  · rw [f2, hF]; decide +kernel
  · rw [f3, hF]; decide +kernel
  · rw [f4, hF]; decide +kernel

/-- `cutGrid` with a surface anchor on every face slot -/
def cutGridF : Map Val := (List.range cutGrid.n).foldl (fun mm i => mm.setA stFA i (tml (2 + 4 * (i % 3)))) cutGrid

/-- the two collapse theorems on `collapse_edge(26)` of `cutGridF` with the FaceAnchor storage only (mask 128: the
    midpoint variant): the call succeeds, no slot of the storage changes, dart 1 keeps its face and its anchor -/
example : ∃ m', run (collapseEdge (stdCfg 3 128) cutGridF.n 26) cutGridF = (.ok 3, m') ∧
    (∀ x, m'.att stFA x = cutGridF.att stFA x) ∧
    m'.att stFA (cellId m' .face 1) = cutGridF.att stFA (cellId cutGridF .face 1) := by
  have hrun := run_eq_of_fst (p := collapseEdge (stdCfg 3 128) cutGridF.n 26) (m := cutGridF) (a := 3) (by decide +kernel)
  refine ⟨_, hrun, C15_collapse_other_storages (stdCfg 3 128) cutGridF _ 26 3 stFA (by decide +kernel) hrun
    (by decide +kernel) (by decide +kernel) (fun hh => by simp [stFA, stVA] at hh), ?_⟩
  exact (C15_collapse_midpoint_face_anchors (stdCfg 3 128) cutGridF _ 26 3 (by decide +kernel) (by decide +kernel)
    (by decide +kernel) (by decide +kernel) hrun (by decide +kernel) (by decide +kernel) (by decide +kernel)
    (by decide +kernel) (by decide +kernel) (by decide +kernel) (by decide +kernel) 1 (by decide) (by decide +kernel)
    (by decide +kernel)).2


/-- `C15_collapse_endpoint_target` on `flatGrid` (all three anchor storages): `collapse_edge(12)` chooses `Left` and
    returns vertex 6, which then sits at `(2, 1)` with the curve anchor C1 of the vertex of dart 12; `collapse_edge(6)`
    chooses `Right` and returns vertex 3, which sits at `(0, 13/16)` with the anchor C3 of the vertex of `β2 6` -/
example : (∃ m', run (collapseEdge (stdCfg 3 224) flatGrid.n 12) flatGrid = (.ok 6, m') ∧
      m'.att 0 6 = some (.pt 2 1 0) ∧ m'.att stVA 6 = tml 5) ∧
    (∃ m', run (collapseEdge (stdCfg 3 224) flatGrid.n 6) flatGrid = (.ok 3, m') ∧
      m'.att 0 3 = some (.pt 0 (13/16) 0) ∧ m'.att stVA 3 = tml 13) := by
  constructor
  · have hrun := run_eq_of_fst (p := collapseEdge (stdCfg 3 224) flatGrid.n 12) (m := flatGrid) (a := 6) (by decide +kernel)
    obtain ⟨k1, k2⟩ := (C15_collapse_endpoint_target (stdCfg 3 224) flatGrid _ 12 6 (by decide +kernel)
      (by decide +kernel) hrun (by decide)).1 (by decide +kernel)
    exact ⟨_, hrun, k1 _ (by decide +kernel), k2 _ (by decide +kernel) (by decide +kernel)⟩
  · have hrun := run_eq_of_fst (p := collapseEdge (stdCfg 3 224) flatGrid.n 6) (m := flatGrid) (a := 3) (by decide +kernel)
    obtain ⟨k1, k2⟩ := (C15_collapse_endpoint_target (stdCfg 3 224) flatGrid _ 6 3 (by decide +kernel)
      (by decide +kernel) hrun (by decide)).2 (by decide +kernel) (by decide +kernel)
    exact ⟨_, hrun, k1 _ (by decide +kernel), k2 _ (by decide +kernel) (by decide +kernel)⟩


/-- `C15_collapse_midpoint_vertex_count` on `collapse_edge(26)` of `cutGrid`: 10 vertices before, 9 after -/
example : ∃ m', run (collapseEdge (stdCfg 3 0) cutGrid.n 26) cutGrid = (.ok 3, m') ∧
    (iterVertices2 cutGrid).length = 10 ∧ (iterVertices2 m').length + 1 = 10 := by
  have hrun := run_eq_of_fst (p := collapseEdge (stdCfg 3 0) cutGrid.n 26) (m := cutGrid) (a := 3) (by decide +kernel)
  have l1 : (iterVertices2 cutGrid).length = 10 := by decide +kernel
  have keep : ∀ p, p ∈ List.range cutGrid.n → ∀ q, q ∈ List.range cutGrid.n →
      cellId cutGrid .vertex p = cellId cutGrid .vertex q →
      cellId (run (collapseEdge (stdCfg 3 0) cutGrid.n 26) cutGrid).2 .vertex p =
        cellId (run (collapseEdge (stdCfg 3 0) cutGrid.n 26) cutGrid).2 .vertex q ∨
      p ∈ [26, cutGrid.β 2 26, cutGrid.β 1 26, cutGrid.β 0 26, cutGrid.β 1 (cutGrid.β 2 26), cutGrid.β 0 (cutGrid.β 2 26)] ∨
      q ∈ [26, cutGrid.β 2 26, cutGrid.β 1 26, cutGrid.β 0 26, cutGrid.β 1 (cutGrid.β 2 26), cutGrid.β 0 (cutGrid.β 2 26)] := by
    decide +kernel
  have c := C15_collapse_midpoint_vertex_count (stdCfg 3 0) cutGrid _ 26 3 (by decide +kernel) (by decide +kernel)
    (by decide +kernel) hrun (by decide +kernel) (by decide +kernel) (by decide +kernel) (by decide +kernel)
    (by decide +kernel) (by decide +kernel) (by decide +kernel)
    (by
      intro p q _ pn _ qn pS qS hpq
      rcases keep p (List.mem_range.2 pn) q (List.mem_range.2 qn) hpq with hh | hh | hh
      · exact hh
      · exact absurd hh pS
      · exact absurd hh qS)
  exact ⟨_, hrun, l1, by rw [c, l1]⟩

/-- `C15_cutOuter_anchors` on `cut_outer_edge(1, [7, 8, 9])` of the anchored unit square with all three anchor storages
    (mask 224): both halves of the cut edge carry its curve anchor C0, the new inner edge carries the surface anchor of
    the cut face, and so do the two new faces -/
example : ∃ m', run (cutOuterEdge (stdCfg 3 224) sqA3.n 1 7 8 9) sqA3 = (.ok (), m') ∧
    m'.att stEA (cellId m' .edge 1) = tml 1 ∧ m'.att stEA (cellId m' .edge 9) = tml 1 ∧
    m'.att stEA (cellId m' .edge 7) = tml 2 ∧
    m'.att stFA (cellId m' .face 1) = tml 2 ∧ m'.att stFA (cellId m' .face 9) = tml 2 := by
  have hrun := run_eq_of_fst (p := cutOuterEdge (stdCfg 3 224) sqA3.n 1 7 8 9) (m := sqA3) (a := ()) (by decide +kernel)
  have s7 : Spare sqA3 7 := ⟨by decide +kernel, by decide +kernel⟩
  have s8 : Spare sqA3 8 := ⟨by decide +kernel, by decide +kernel⟩
  have s9 : Spare sqA3 9 := ⟨by decide +kernel, by decide +kernel⟩
  obtain ⟨hE, hT, hF, _⟩ := C15_cutOuter_anchors (stdCfg 3 224) sqA3 _ 1 7 8 9 (by decide +kernel)
    (by decide +kernel) (by decide +kernel) (by decide +kernel) hrun (by decide +kernel) (by decide +kernel) s7 s8 s9
    (by decide +kernel) (by decide +kernel) (by decide +kernel)
  have rE : regd (stdCfg 3 224) stEA = true := by decide +kernel
  have rF : regd (stdCfg 3 224) stFA = true := by decide +kernel
  have a1 : sqA3.att stEA 1 = some (Val.tm (.leaf 1)) := by decide +kernel
  have a2 : sqA3.att stFA (cellId sqA3 .face 1) = some (Val.tm (.leaf 2)) := by decide +kernel
  obtain ⟨h1, h2⟩ := hE rE
  obtain ⟨h3, h4⟩ := hF rF _ a2
  exact ⟨_, hrun, by rw [h1]; exact a1, h2 _ a1, hT rE rF _ a2, h3, h4⟩

/-- `C15_cutInner_anchors` on `cut_inner_edge(2, [12 … 7])` of the anchored unit square, Edge + Face anchor storages
    (mask 192): both halves of the diagonal carry its anchor S0, the transversal edges and the four faces the surface
    anchor of their face -/
example : ∃ m', run (cutInnerEdge (stdCfg 3 192) sqA6.n 2 12 11 10 9 8 7) sqA6 = (.ok (), m') ∧
    m'.att stEA (cellId m' .edge 2) = tml 2 ∧ m'.att stEA (cellId m' .edge 4) = tml 2 ∧
    m'.att stEA (cellId m' .edge 12) = tml 2 ∧ m'.att stEA (cellId m' .edge 9) = tml 2 ∧
    m'.att stFA (cellId m' .face 2) = tml 2 ∧ m'.att stFA (cellId m' .face 10) = tml 2 ∧
    m'.att stFA (cellId m' .face 4) = tml 2 ∧ m'.att stFA (cellId m' .face 7) = tml 2 := by
  have hrun := run_eq_of_fst (p := cutInnerEdge (stdCfg 3 192) sqA6.n 2 12 11 10 9 8 7) (m := sqA6) (a := ())
    (by decide +kernel)
  have hs : ∀ x, x ∈ [12, 11, 10, 9, 8, 7] → Spare sqA6 x := by
    intro x hx
    simp only [List.mem_cons, List.mem_nil_iff, or_false] at hx
    rcases hx with rfl | rfl | rfl | rfl | rfl | rfl <;> exact ⟨by decide +kernel, by decide +kernel⟩
  obtain ⟨hF, hE⟩ := C15_cutInner_anchors (stdCfg 3 192) sqA6 _ 2 12 11 10 9 8 7 (by decide +kernel)
    (by decide +kernel) (by decide +kernel) hrun (by decide +kernel) (by decide +kernel) (by decide +kernel)
    (by decide +kernel) (by decide +kernel) hs (by decide +kernel) (by decide +kernel) (by decide +kernel)
  have rF : regd (stdCfg 3 192) stFA = true := by decide +kernel
  have e4 : sqA6.β 2 2 = 4 := by decide +kernel
  have aL : sqA6.att stFA (cellId sqA6 .face 2) = some (Val.tm (.leaf 2)) := by decide +kernel
  have aR : sqA6.att stFA (cellId sqA6 .face (sqA6.β 2 2)) = some (Val.tm (.leaf 2)) := by decide +kernel
  have aE : sqA6.att stEA (cellId sqA6 .edge 2) = some (Val.tm (.leaf 2)) := by decide +kernel
  obtain ⟨hL, hR⟩ := hF rF
  obtain ⟨l1, l2⟩ := hL _ aL
  obtain ⟨r1, r2⟩ := hR _ aR
  obtain ⟨A, hA, g1, g2, g3, g4⟩ := hE (by decide +kernel) (by decide +kernel) (by decide +kernel) rfl
    (by decide +kernel) (by decide +kernel)
  rw [aE] at hA
  simp only [Option.some.injEq] at hA
  subst hA
  rw [e4] at r1 g2
  exact ⟨_, hrun, g1, g2, g3 rF _ aL, g4 rF _ aR, l1, l2, r1, r2⟩

/-- `C15_cutInner_vertex_anchor_storage_refused` on the fully anchored unit square with six spare darts (all three anchor
    storages, mask 224): the hypotheses hold, and the model indeed answers `InsufficientData` -/
example : (∀ m', run (cutInnerEdge (stdCfg 3 224) sqA6.n 2 12 11 10 9 8 7) sqA6 ≠ (.ok (), m')) ∧
    (run (cutInnerEdge (stdCfg 3 224) sqA6.n 2 12 11 10 9 8 7) sqA6).1 = .err errInsufficient := by
  have hs : ∀ x, x ∈ [12, 11, 10, 9, 8, 7] → Spare sqA6 x := by
    intro x hx
    simp only [List.mem_cons, List.mem_nil_iff, or_false] at hx
    rcases hx with rfl | rfl | rfl | rfl | rfl | rfl <;> exact ⟨by decide +kernel, by decide +kernel⟩
  exact ⟨C15_cutInner_vertex_anchor_storage_refused (stdCfg 3 224) sqA6 2 12 11 10 9 8 7 (by decide +kernel)
    (by decide +kernel) (by decide +kernel) (by decide +kernel) (by decide +kernel) (by decide +kernel)
    (by decide +kernel) (by decide +kernel) hs (by decide +kernel) (by decide +kernel) rfl (by decide +kernel)
    (by decide +kernel) (by decide +kernel), by decide +kernel⟩

end HC.C15
