/-
  C13, second part — the map surgery of the triangulation kernels
  (`honeycomb-kernels/src/triangulation/{fan,ear_clipping}.rs`, model `Model/Kernels/{Fan,EarClip}.lean`).
  `Props/C13.lean` treats the vertex-list computations (star search, ear search, areas); this file treats what the
  sew/unsew loops do to the map.  Tools: `Lemmas/KernelWF2.lean` (a successful sew = its link core + attribute moves;
  exact β tables after each sew on a well-formed map).

  PROVED (every map, every face size, every attribute configuration and law)
  * `C13_earclip_preserves_WF`   — a successful `earclip_cell_*` keeps `WF 3`: any face, any polygon, any ears; the
                                    only user-side hypotheses are "spare darts live and pairwise distinct"; all other
                                    side conditions follow from the code's own reads and the success of its unsews.
  * `C13_fan_preserves_WF`, `C13_fan_convex_preserves_WF`, `C13_fan_preserves_WF_closed_face`
                                  — a successful `fan_cell` / `fan_convex_cell` keeps `WF 3` on a closed face (given as
                                    one β1-cycle, or dart-wise as β1-paths) with live, pairwise distinct spare darts
                                    outside the face.  The closedness hypothesis is NECESSARY: on an open β1-chain the
                                    final `sew::<1>(β1(β1 d0), d0)` can be `sew::<1>(0, d0)`, which succeeds and
                                    writes β1(0) (the model and the real code agree: degenerate stream of c13.py).
  * `C13_fan_structure`, `C13_fan_convex_structure`, `C13_fan_cell_structure` (`FanResult`)
                                  — exact face structure after the fan: the n−2 triangles
                                    (s,c1,p1), (q1,c2,p2), …, (q_{n-3},c_{n-2},c_{n-1}) are closed β1-cycles of three
                                    darts; spare darts 2-linked pair by pair; β2 of every other dart (every side of
                                    the polygon) unchanged; every β image of every dart outside face ∪ spares
                                    unchanged.
  * `closedFace_orbit`, `ClosedFace.rotate` — a closed cycle is exactly what `orbit_transac(FaceLinear, ·)`
                                    enumerates from any of its darts (uses C03's BFS theorem).

  * `C13_earclip_frame`           — ear clipping on a closed face: well-formed result, every β image of every dart
                                    outside face ∪ spares unchanged (other faces untouched), β2 of every face dart (the
                                    neighbour across each side) unchanged, spare darts 2-linked pair by pair.

  CONTINUED in Props/C13c.lean: the exact face structure after ear clipping (`C13_earclip_structure`).

  CONTINUED in Props/C13d.lean: the triangles of `FanResult` carry the coordinates of `fanTriangles` (vertex data only
  moves through `avg v v = v` on equal copies, merges with valueless fresh darts, and the final `write_vertex`).
-/
import Honeycomb.Lemmas.KernelWF2
import Honeycomb.Props.C13
import Honeycomb.Props.C03

set_option linter.unusedSimpArgs false
set_option linter.unusedVariables false

namespace HC.C13
open HC

variable {n : Nat} {u : Array Bool}

/-! ## ear clipping keeps the map well formed -/

/-- the loop of `ear_clipping::process_cell`: whatever ears are chosen, every sew/unsew that succeeds acts on live
    darts (the code's own reads and the success of the two unsews guarantee it), so well-formedness is kept -/
theorem keeps_earclipLoop (cfg : Cfg Val) (nn : Nat) (inside : P2 → P2 → P2 → Bool) :
    ∀ (chunks : List (Nat × Nat)) (darts : List Nat) (vs : List P2) (m m' : Map Val),
      Inv n u m → (∀ c ∈ chunks, Live n u c.1 ∧ Live n u c.2 ∧ c.1 ≠ c.2) →
      run (earclipLoop cfg nn inside chunks darts vs) m = (.ok (), m') → Inv n u m' := by
  intro chunks
  induction chunks with
  | nil =>
      intro darts vs m m' hi _ h
      unfold earclipLoop at h
      by_cases h3 : vs.length = 3
      · simp [h3] at h; rw [← h]; exact hi
      · simp [h3] at h
  | cons x rest ih =>
      intro darts vs m m' hi hsp h
      obtain ⟨nd1, nd2⟩ := x
      obtain ⟨l1, l2, hne⟩ := hsp (nd1, nd2) (by simp)
      unfold earclipLoop at h
      cases hf : findEar inside vs with
      | none => simp [hf] at h
      | some ear =>
          simp only [hf] at h
          obtain ⟨_, hE1, h⟩ := rB_ok hi h
          obtain ⟨_, hE2, h⟩ := rB_ok hi h
          obtain ⟨_, m1, s1, h⟩ := run_bind_ok h
          obtain ⟨i1, lb0, _, e1⟩ := oneUnsew2_eff cfg nn hi s1
          have lE1 : Live n u (darts.getD ear 0) := hi.live_of_image (by omega) hE1 lb0.1
          obtain ⟨_, m2, s2, h⟩ := run_bind_ok h
          obtain ⟨i2, lE2, lb1', _⟩ := oneUnsew2_eff cfg nn i1 s2
          have lb1 : Live n u (m.β 1 (darts.getD ((ear + 1) % vs.length) 0)) := by
            rw [e1, if_neg (fun hh => absurd hh.1 (by decide))] at lb1'
            by_cases hc : m.β 0 (darts.getD ear 0) = darts.getD ((ear + 1) % vs.length) 0
            · rw [if_pos ⟨rfl, hc⟩] at lb1'; exact absurd rfl lb1'.1
            · rw [if_neg (fun hh => hc hh.2)] at lb1'; exact lb1'
          obtain ⟨_, m3, s3, h⟩ := run_bind_ok h
          obtain ⟨i3, _, _, _⟩ := oneSew2_eff cfg nn i2 lE2 l1 s3
          obtain ⟨_, m4, s4, h⟩ := run_bind_ok h
          obtain ⟨i4, _, _, _⟩ := oneSew2_eff cfg nn i3 l1 lE1 s4
          obtain ⟨_, m5, s5, h⟩ := run_bind_ok h
          obtain ⟨i5, _, _, _⟩ := oneSew2_eff cfg nn i4 lb0 l2 s5
          obtain ⟨_, m6, s6, h⟩ := run_bind_ok h
          obtain ⟨i6, _, _, _⟩ := oneSew2_eff cfg nn i5 l2 lb1 s6
          obtain ⟨_, m7, s7, h⟩ := run_bind_ok h
          obtain ⟨i7, _, _, _⟩ := twoSew2_eff cfg nn i6 l1 l2 hne s7
          exact ih _ _ _ _ i7 (fun c hc => hsp c (by simp [hc])) h

theorem chunks2_mem : ∀ (l : List Nat) (c : Nat × Nat), c ∈ chunks2 l → c.1 ∈ l ∧ c.2 ∈ l
  | [], c, h => by simp [chunks2] at h
  | [_], c, h => by simp [chunks2] at h
  | a :: b :: rest, c, h => by
      simp only [chunks2, List.mem_cons] at h
      rcases h with rfl | h
      · simp
      · obtain ⟨h1, h2⟩ := chunks2_mem rest c h
        exact ⟨by simp [h1], by simp [h2]⟩

theorem chunks2_ne : ∀ (l : List Nat), l.Nodup → ∀ c ∈ chunks2 l, c.1 ≠ c.2
  | [], _, c, h => by simp [chunks2] at h
  | [_], _, c, h => by simp [chunks2] at h
  | a :: b :: rest, hnd, c, h => by
      simp only [chunks2, List.mem_cons] at h
      simp only [List.nodup_cons, List.mem_cons, not_or] at hnd
      rcases h with rfl | h
      · exact hnd.1.1
      · exact chunks2_ne rest hnd.2.2 c h

/-- **C13, well-formedness (ear clipping)**: a successful `earclip_cell_countercw` / `earclip_cell_cw` keeps a
    well-formed 2-map well formed — any face, any polygon, any ears.  User-side hypotheses: the spare darts are live
    darts (non-null, existing, not removed) and pairwise distinct; everything else is established by the code's own
    reads and by the success of its unsews. -/
theorem C13_earclip_preserves_WF (cfg : Cfg Val) (inside : P2 → P2 → P2 → Bool) (m m' : Map Val) (face : Nat)
    (nds : List Nat) (hwf : WF 3 m) (hsp : ∀ d ∈ nds, C01.InUse m d) (hnd : nds.Nodup)
    (h : run (earclipCell cfg m.n inside face nds) m = (.ok (), m')) : WF 3 m' := by
  unfold earclipCell at h
  obtain ⟨darts, h1, h3⟩ := ro_bind_ok (readOnly_orbit2 m.n .faceLinear face) h
  obtain ⟨vals, m2, h2, h4⟩ := run_bind_ok h3
  obtain ⟨_, hm2⟩ := faceVertices_length m.n _ _ _ _ h2
  subst hm2
  clear h h3
  cases hc : checkRequirements darts.length nds.length with
  | error e => simp [hc] at h4
  | ok v =>
      simp only [hc] at h4
      refine (keeps_earclipLoop (n := m2.n) (u := m2.u) cfg m2.n inside _ _ _ _ _ (Inv.of_wf hwf) ?_ h4).wf
      intro c hcm
      obtain ⟨a, b⟩ := chunks2_mem nds c hcm
      exact ⟨hsp _ a, hsp _ b, chunks2_ne nds hnd c hcm⟩

/-! ## the fan keeps the map well formed -/

/-- an inner dart of a β1-path has its successor on the path -/
theorem B1Chain.succ_mem {m : Map Val} : ∀ (l : List Nat) (d y : Nat), B1Chain m d l → y ∈ (d :: l).dropLast →
    m.β 1 y ∈ l := by
  intro l
  induction l with
  | nil => intro d y _ hy; simp [List.dropLast] at hy
  | cons x rest ih =>
      intro d y h hy
      obtain ⟨h1, h2⟩ := h
      rw [List.dropLast_cons_of_ne_nil (by simp)] at hy
      simp only [List.mem_cons] at hy
      rcases hy with rfl | hy
      · rw [h1]; simp
      · exact List.mem_cons_of_mem _ (ih x y h2 hy)

/-- the loop of the fan kernels from apex dart `d0`: `L` is the β1-path ahead of `d0` (two darts more than there are
    spare pairs left); at the end the last two darts of the path are still ahead of the returned dart -/
theorem fanLoop_spec (cfg : Cfg Val) (nn : Nat) :
    ∀ (cs : List (Nat × Nat)) (d0 : Nat) (L : List Nat) (m m' : Map Val) (r : Nat),
      Inv n u m → Live n u d0 → B1Chain m d0 L → L.length = cs.length + 2 → L.Nodup → (∀ x ∈ L, x ≠ 0) →
      (∀ c ∈ cs, Live n u c.1 ∧ Live n u c.2 ∧ c.1 ≠ c.2 ∧ c.1 ∉ L ∧ c.2 ∉ L) →
      run (fanLoop cfg nn d0 cs) m = (.ok r, m') →
      Inv n u m' ∧ Live n u r ∧ ∃ x1 x2, B1Chain m' r [x1, x2] ∧ x2 ≠ 0 := by
  intro cs
  induction cs with
  | nil =>
      intro d0 L m m' r hi hd0 hch hlen _ hnz _ h
      simp [fanLoop] at h
      obtain ⟨rfl, rfl⟩ := h
      match L, hlen with
      | [x1, x2], _ => exact ⟨hi, hd0, x1, x2, hch, hnz x2 (by simp)⟩
  | cons c rest ih =>
      intro d0 L m m' r hi hd0 hch hlen hnd hnz hsp h
      obtain ⟨d1, d2⟩ := c
      obtain ⟨l1, l2, hne, hn1, hn2⟩ := hsp (d1, d2) (by simp)
      match L, hlen with
      | x1 :: x2 :: L', hlen =>
        obtain ⟨c1, c2, c3⟩ := hch
        unfold fanLoop at h
        obtain ⟨_, _, h⟩ := rB_ok hi h
        rw [c1] at h
        obtain ⟨_, _, h⟩ := rB_ok hi h
        rw [c2] at h
        obtain ⟨_, m1, s1, h⟩ := run_bind_ok h
        obtain ⟨i1, lx1, lx2, e1⟩ := oneUnsew2_eff cfg nn hi s1
        rw [c2] at lx2 e1
        obtain ⟨_, m2, s2, h⟩ := run_bind_ok h
        obtain ⟨i2, _, _, e2⟩ := twoSew2_eff cfg nn i1 l1 l2 hne s2
        obtain ⟨_, m3, s3, h⟩ := run_bind_ok h
        obtain ⟨i3, _, _, e3⟩ := oneSew2_eff cfg nn i2 l2 lx2 s3
        obtain ⟨_, m4, s4, h⟩ := run_bind_ok h
        obtain ⟨i4, _, _, e4⟩ := oneSew2_eff cfg nn i3 lx1 l1 s4
        obtain ⟨_, m5, s5, h⟩ := run_bind_ok h
        obtain ⟨i5, _, _, e5⟩ := oneSew2_eff cfg nn i4 l1 hd0 s5
        -- β1 after the iteration
        have b1 : ∀ y, m5.β 1 y = if d1 = y then d0 else if x1 = y then d1 else if d2 = y then x2 else
            if x1 = y then 0 else m.β 1 y := by
          intro y
          rw [e5, e4, e3, e2, e1]
          simp only [show ¬ (0 = 1) by decide, show ¬ (2 = 1) by decide, false_and, if_false, true_and]
        simp only [List.mem_cons, not_or] at hn1 hn2
        simp only [List.nodup_cons, List.mem_cons, not_or] at hnd
        have hx1d2 : x1 ≠ d2 := fun hh => hn2.1 hh.symm
        have hch' : B1Chain m5 d2 (x2 :: L') := by
          refine ⟨?_, B1Chain.frame L' x2 c3 fun y hy => ?_⟩
          · rw [b1, if_neg hne, if_neg hx1d2, if_pos rfl]
          · have hyL : y ∈ x2 :: L' := List.dropLast_subset _ hy
            have y1 : d1 ≠ y := by
              rintro rfl; simp only [List.mem_cons] at hyL
              rcases hyL with hh | hh
              · exact hn1.2.1 hh
              · exact hn1.2.2 hh
            have y2 : d2 ≠ y := by
              rintro rfl; simp only [List.mem_cons] at hyL
              rcases hyL with hh | hh
              · exact hn2.2.1 hh
              · exact hn2.2.2 hh
            have y3 : x1 ≠ y := by
              rintro rfl; simp only [List.mem_cons] at hyL
              rcases hyL with hh | hh
              · exact hnd.1.1 hh
              · exact hnd.1.2 hh
            rw [b1, if_neg y1, if_neg y3, if_neg y2, if_neg y3]
        refine ih d2 (x2 :: L') m5 m' r i5 l2 hch' (by simp at hlen ⊢; omega) ?_ ?_ ?_ h
        · simp only [List.nodup_cons]; exact hnd.2
        · intro x hx; exact hnz x (List.mem_cons_of_mem _ hx)
        · intro c hc
          obtain ⟨a1, a2, a3, a4, a5⟩ := hsp c (by simp [hc])
          exact ⟨a1, a2, a3, fun hh => a4 (List.mem_cons_of_mem _ hh), fun hh => a5 (List.mem_cons_of_mem _ hh)⟩

/-- the β1-path ahead of a dart: `L` are the next darts, pairwise distinct, distinct from it, non-null.  For a dart
    of a closed `n`-gon face, `L` is the rest of the face (`n - 1` darts). -/
structure FacePath (m : Map Val) (s : Nat) (L : List Nat) : Prop where
  chain : B1Chain m s L
  nodup : (s :: L).Nodup
  nz : ∀ x ∈ L, x ≠ 0

theorem attrOnly_writeVtx (d : Nat) (v : Val) : AttrOnly (writeVtx d v) := by
  unfold writeVtx
  refine AttrOnly.bind (AttrOnly.of_readOnly (ReadOnly.rA _ _)) fun _ => ?_
  exact AttrOnly.bind (AttrOnly.wA _ _ _) fun _ => AttrOnly.pure _

/-- the common tail of both fan kernels from the apex dart `s` -/
theorem keeps_fanFrom (cfg : Cfg Val) (nn s : Nat) (nds : List Nat) (L : List Nat) (m m' : Map Val)
    (hi : Inv n u m) (hp : FacePath m s L) (hlen : L.length = (chunks2 nds).length + 2)
    (hsp : ∀ c ∈ chunks2 nds, Live n u c.1 ∧ Live n u c.2 ∧ c.1 ≠ c.2 ∧ c.1 ∉ L ∧ c.2 ∉ L)
    (h : run (fanFrom cfg nn s nds) m = (.ok (), m')) : Inv n u m' := by
  unfold fanFrom at h
  obtain ⟨_, hs, h⟩ := rB_ok hi h
  obtain ⟨vid, _, h⟩ := ro_bind_ok (readOnly_vertexId2 nn s) h
  obtain ⟨v0, _, h⟩ := ro_bind_ok (ReadOnly.rA 0 vid) h
  cases v0 with
  | none => simp at h
  | some v0 =>
      simp only at h
      obtain ⟨_, m1, s1, h⟩ := run_bind_ok h
      obtain ⟨i1, lb0, _, e1⟩ := oneUnsew2_eff cfg nn hi s1
      have ls : Live n u s := hi.live_of_image (by omega) hs lb0.1
      -- β1(β0 s) = s, so the unsew cuts the dart before `s`, which is not an inner dart of the path
      have hback : m.β 1 (m.β 0 s) = s := hi.wf.inv10 s (by rw [hi.n_eq]; exact hs) lb0.1
      have hnd := hp.nodup
      simp only [List.nodup_cons] at hnd
      have hch1 : B1Chain m1 s L := by
        refine B1Chain.frame L s hp.chain fun y hy => ?_
        have hyne : m.β 0 s ≠ y := by
          rintro rfl
          have := B1Chain.succ_mem L s _ hp.chain hy
          rw [hback] at this
          exact hnd.1 this
        rw [e1, if_neg (fun hh => absurd hh.1 (by decide)), if_neg (fun hh => hyne hh.2)]
      obtain ⟨r, m2, s2, h⟩ := run_bind_ok h
      obtain ⟨i2, lr, x1, x2, ⟨c1, c2, _⟩, hx2⟩ :=
        fanLoop_spec cfg nn _ s L m1 m2 r i1 ls hch1 hlen hnd.2 hp.nz hsp s2
      obtain ⟨_, _, h⟩ := rB_ok i2 h
      rw [c1] at h
      obtain ⟨_, hx1, h⟩ := rB_ok i2 h
      rw [c2] at h
      have lx2 : Live n u x2 := by
        have := i2.live_image (i := 1) (by omega) hx1 (by rw [c2]; exact hx2)
        rw [c2] at this; exact this
      obtain ⟨_, m3, s3, h⟩ := run_bind_ok h
      obtain ⟨i3, _, _, _⟩ := oneSew2_eff cfg nn i2 lx2 lr s3
      obtain ⟨vid2, _, h⟩ := ro_bind_ok (readOnly_vertexId2 nn s) h
      obtain ⟨_, m4, s4, h⟩ := run_bind_ok h
      simp at h
      rw [← h]
      have st := attrOnly_writeVtx vid2 v0 m3
      rw [s4] at st
      exact i3.sameTopo st

/-- **C13, well-formedness (fan, convex version)**: a successful `fan_convex_cell` keeps a well-formed 2-map well
    formed, when the face dart lies on a β1-path of `n - 1` further distinct non-null darts (`n` = number of darts
    the kernel counted: a closed `n`-gon face) and the spare darts are live, pairwise distinct and not on the
    face. -/
theorem C13_fan_convex_preserves_WF (cfg : Cfg Val) (m m' : Map Val) (face : Nat) (nds : List Nat) (L : List Nat)
    (hwf : WF 3 m) (hp : FacePath m face L)
    (hlen : ∀ darts, run (orbit2 m.n .faceLinear face) m = (.ok darts, m) → L.length + 1 = darts.length)
    (hsp : ∀ d ∈ nds, C01.InUse m d ∧ d ∉ L) (hnd : nds.Nodup)
    (h : run (fanConvexCell cfg m.n face nds) m = (.ok (), m')) : WF 3 m' := by
  unfold fanConvexCell at h
  obtain ⟨darts, h1, h3⟩ := ro_bind_ok (readOnly_orbit2 m.n .faceLinear face) h
  cases hc : checkRequirements darts.length nds.length with
  | error e => simp [hc] at h3
  | ok v =>
      simp only [hc] at h3
      cases v
      have hreq := (C13_check_requirements_ok_iff _ _).1 hc
      have hk := chunks2_length nds
      refine (keeps_fanFrom (n := m.n) (u := m.u) cfg m.n face nds L m m' (Inv.of_wf hwf) hp ?_ ?_ h3).wf
      · have := hlen darts h1; omega
      · intro c hcm
        obtain ⟨a, b⟩ := chunks2_mem nds c hcm
        exact ⟨(hsp _ a).1, (hsp _ b).1, chunks2_ne nds hnd c hcm, (hsp _ a).2, (hsp _ b).2⟩

/-- **C13, well-formedness (fan)**: a successful `fan_cell` keeps a well-formed 2-map well formed, when every dart of
    the face (as the kernel enumerates it) lies on a β1-path of `n - 1` further distinct non-null darts avoiding the
    spare darts — i.e. the face is a closed `n`-gon — and the spare darts are live and pairwise distinct.
    (`facePath_of_cycle` below derives the path hypothesis from one closed cycle.) -/
theorem C13_fan_preserves_WF (cfg : Cfg Val) (m m' : Map Val) (face : Nat) (nds : List Nat)
    (hwf : WF 3 m)
    (hface : ∀ darts, run (orbit2 m.n .faceLinear face) m = (.ok darts, m) → ∀ s ∈ darts,
      ∃ L, FacePath m s L ∧ L.length + 1 = darts.length ∧ ∀ d ∈ nds, d ∉ L)
    (hsp : ∀ d ∈ nds, C01.InUse m d) (hnd : nds.Nodup)
    (h : run (fanCell cfg m.n face nds) m = (.ok (), m')) : WF 3 m' := by
  obtain ⟨darts, vals, id, h1, h2, h4, hn, hs, hfrom, _⟩ := C13_fan_kernel_star cfg m.n face nds m m' h
  obtain ⟨hvl, _⟩ := faceVertices_length m.n _ _ _ _ h2
  have hid : id < darts.length := by
    have := (fanStarFrom_some _ _ id hs).1
    simpa [hvl] using this
  have hmem : darts.getD id 0 ∈ darts := by
    rw [List.getD_eq_getElem?_getD, List.getElem?_eq_getElem hid]
    exact List.getElem_mem hid
  obtain ⟨L, hp, hl, hdis⟩ := hface darts h1 _ hmem
  have hk := chunks2_length nds
  refine (keeps_fanFrom (n := m.n) (u := m.u) cfg m.n _ nds L m m' (Inv.of_wf hwf) hp (by omega) ?_ hfrom).wf
  intro c hcm
  obtain ⟨a, b⟩ := chunks2_mem nds c hcm
  exact ⟨hsp _ a, hsp _ b, chunks2_ne nds hnd c hcm, hdis _ a, hdis _ b⟩

/-! ## closed faces: the path hypothesis from one cycle -/

/-- `cyc = a :: rest` is a closed face: `a → rest[0] → … → a` through β1, darts pairwise distinct and non-null -/
structure ClosedFace (m : Map Val) (a : Nat) (rest : List Nat) : Prop where
  chain : B1Chain m a (rest ++ [a])
  nodup : (a :: rest).Nodup
  nz : ∀ x ∈ a :: rest, x ≠ 0

theorem B1Chain.append {m : Map Val} : ∀ (l1 : List Nat) (d x : Nat) (l2 : List Nat),
    B1Chain m d (l1 ++ x :: l2) ↔ B1Chain m d (l1 ++ [x]) ∧ B1Chain m x l2 := by
  intro l1
  induction l1 with
  | nil => intro d x l2; simp [B1Chain]
  | cons y rest ih =>
      intro d x l2
      simp only [List.cons_append, B1Chain]
      rw [ih y x l2]
      exact ⟨fun ⟨a, b, c⟩ => ⟨⟨a, b⟩, c⟩, fun ⟨⟨a, b⟩, c⟩ => ⟨a, b, c⟩⟩

theorem B1Chain.prefix {m : Map Val} : ∀ (l1 l2 : List Nat) (d : Nat), B1Chain m d (l1 ++ l2) → B1Chain m d l1 := by
  intro l1
  induction l1 with
  | nil => intro _ _ _; trivial
  | cons y rest ih => intro l2 d h; exact ⟨h.1, ih l2 y h.2⟩

theorem ClosedFace.facePath {m : Map Val} {s : Nat} {L : List Nat} (hc : ClosedFace m s L) : FacePath m s L :=
  ⟨B1Chain.prefix L [s] s hc.chain, hc.nodup, fun x hx => hc.nz x (List.mem_cons_of_mem _ hx)⟩

/-- a closed face can be read from any of its darts: the rest of the face lies ahead on the β1-path -/
theorem ClosedFace.rotate {m : Map Val} {a : Nat} {rest : List Nat} (hc : ClosedFace m a rest) {s : Nat}
    (hs : s ∈ a :: rest) :
    ∃ L, ClosedFace m s L ∧ L.length + 1 = (a :: rest).length ∧ (∀ x, x ∈ L → x ∈ a :: rest) ∧
      (∀ x, x ∈ a :: rest → x = s ∨ x ∈ L) := by
  obtain ⟨pre, post, hsplit⟩ := List.append_of_mem hs
  cases pre with
  | nil =>
      simp only [List.nil_append, List.cons.injEq] at hsplit
      obtain ⟨rfl, rfl⟩ := hsplit
      exact ⟨rest, hc, rfl, fun x hx => by simp [hx], fun x hx => by simpa using hx⟩
  | cons b pre' =>
      simp only [List.cons_append, List.cons.injEq] at hsplit
      obtain ⟨rfl, hrest⟩ := hsplit
      have hch := hc.chain
      rw [hrest, List.append_assoc, List.cons_append, B1Chain.append] at hch
      obtain ⟨h1, h2⟩ := hch
      have hmem : ∀ x, x ∈ post ++ a :: pre' → x ∈ a :: rest := by
        intro x hx
        rw [hrest]
        simp only [List.mem_append, List.mem_cons] at hx ⊢
        rcases hx with h | h | h
        · exact Or.inr (Or.inr (Or.inr h))
        · exact Or.inl h
        · exact Or.inr (Or.inl h)
      refine ⟨post ++ a :: pre', ⟨?_, ?_, ?_⟩, ?_, hmem, ?_⟩
      · rw [List.append_assoc, List.cons_append, B1Chain.append]
        exact ⟨h2, h1⟩
      · have hnd := hc.nodup
        rw [hrest] at hnd
        have hperm : (s :: (post ++ a :: pre')).Perm (a :: (pre' ++ s :: post)) := by
          have e1 : s :: (post ++ a :: pre') = (s :: post) ++ (a :: pre') := by simp
          have e2 : a :: (pre' ++ s :: post) = (a :: pre') ++ (s :: post) := by simp
          rw [e1, e2]; exact List.perm_append_comm
        exact hperm.nodup_iff.2 hnd
      · intro x hx
        apply hc.nz x
        simp only [List.mem_cons] at hx
        rcases hx with rfl | hx
        · exact hs
        · exact hmem x hx
      · rw [hrest]; simp; omega
      · intro x hx
        rw [hrest] at hx
        simp only [List.mem_append, List.mem_cons] at hx ⊢
        rcases hx with h | h | h | h
        · exact Or.inr (Or.inr (Or.inl h))
        · exact Or.inr (Or.inr (Or.inr h))
        · exact Or.inl h
        · exact Or.inr (Or.inl h)

theorem B1Chain.reach {m : Map Val} : ∀ (l : List Nat) (d : Nat), B1Chain m d l →
    ∀ x ∈ l, Reach (C03.g2 m .faceLinear) d x := by
  intro l
  induction l with
  | nil => intro d _ x hx; simp at hx
  | cons y rest ih =>
      intro d h x hx
      have h1 : Reach (C03.g2 m .faceLinear) d y := Reach.single (by simp [C03.g2, h.1])
      simp only [List.mem_cons] at hx
      rcases hx with rfl | hx
      · exact h1
      · exact h1.trans (ih y h.2 x hx)

/-- a closed face is exactly what `orbit_transac(FaceLinear, face)` enumerates from any of its darts, and every
    enumerated dart has the rest of the face ahead of it -/
theorem closedFace_orbit {m : Map Val} (hwf : WF 3 m) {a : Nat} {rest : List Nat} (hc : ClosedFace m a rest)
    {face : Nat} (hf : face ∈ a :: rest) (hlt : face < m.n) :
    ∀ darts, run (orbit2 m.n .faceLinear face) m = (.ok darts, m) →
      darts.length = (a :: rest).length ∧ ∀ s ∈ darts, s ∈ a :: rest := by
  intro darts hrun
  have hf0 : face ≠ 0 := hc.nz face hf
  obtain ⟨hspec, _, hnd, _, hmem, _⟩ := C03.C03_orbit2_spec hwf (pol := .faceLinear) trivial hf0 hlt
  rw [hspec] at hrun
  simp only [Prod.mk.injEq, Out.ok.injEq, and_true] at hrun
  subst hrun
  -- the cycle is closed under β1
  have hclosed : ∀ x, x ∈ a :: rest → m.β 1 x ∈ a :: rest := by
    intro x hx
    have hx' : x ∈ (a :: (rest ++ [a])).dropLast := by
      have : a :: (rest ++ [a]) = (a :: rest) ++ [a] := by simp
      rw [this, List.dropLast_concat]; exact hx
    have := B1Chain.succ_mem _ a x hc.chain hx'
    simp only [List.mem_append, List.mem_singleton, List.mem_cons, List.not_mem_nil, or_false] at this ⊢
    rcases this with h | h
    · exact Or.inr h
    · exact Or.inl h
  have hsub : ∀ x, Reach (C03.g2 m .faceLinear) face x → x ∈ a :: rest := by
    intro x hr
    induction hr with
    | refl => exact hf
    | tail _ hcx ih =>
        simp only [C03.g2, List.mem_singleton] at hcx
        rw [hcx]; exact hclosed _ ih
  obtain ⟨Lf, hcf, _, _, hcov⟩ := hc.rotate hf
  have hsame : ∀ x, x ∈ C03.orb m .faceLinear face ↔ x ∈ a :: rest := by
    intro x
    rw [hmem]
    constructor
    · intro ⟨_, hr⟩; exact hsub x hr
    · intro hx
      refine ⟨hc.nz x hx, ?_⟩
      rcases hcov x hx with rfl | hL
      · exact .refl _
      · exact B1Chain.reach Lf face hcf.facePath.chain x hL
  exact ⟨((List.perm_ext_iff_of_nodup hnd hc.nodup).2 hsame).length_eq, fun s hs => (hsame s).1 hs⟩

/-- the path hypothesis of `C13_fan_preserves_WF` from one closed cycle -/
theorem facePath_of_cycle {m : Map Val} (hwf : WF 3 m) {a : Nat} {rest : List Nat} (hc : ClosedFace m a rest)
    {face : Nat} (hf : face ∈ a :: rest) (hlt : face < m.n) (nds : List Nat) (hdis : ∀ d ∈ nds, d ∉ a :: rest) :
    ∀ darts, run (orbit2 m.n .faceLinear face) m = (.ok darts, m) → ∀ s ∈ darts,
      ∃ L, FacePath m s L ∧ L.length + 1 = darts.length ∧ ∀ d ∈ nds, d ∉ L := by
  intro darts hrun s hs
  obtain ⟨hlen, hin⟩ := closedFace_orbit hwf hc hf hlt darts hrun
  obtain ⟨L, hcs, hl, hinL, _⟩ := hc.rotate (hin s hs)
  exact ⟨L, hcs.facePath, by rw [hlen]; exact hl, fun d hd hh => hdis d hd (hinL d hh)⟩

/-- a dart of a closed face exists -/
theorem ClosedFace.lt {m : Map Val} (hwf : WF 3 m) {a : Nat} {rest : List Nat} (hc : ClosedFace m a rest)
    {x : Nat} (hx : x ∈ a :: rest) : x < m.n := by
  obtain ⟨L, hcx, _, _, _⟩ := hc.rotate hx
  have := hcx.chain
  cases L with
  | nil =>
      simp only [List.nil_append, B1Chain] at this
      exact hwf.toSized.lt_of_β_ne (i := 1) (by omega) (by rw [this.1]; exact hc.nz _ hx)
  | cons y L' =>
      exact hwf.toSized.lt_of_β_ne (i := 1) (by omega) (by rw [this.1]; exact hcx.nz y (by simp))

/-- **C13, well-formedness (fan) on a closed face**: `fan_cell` on a face given as one closed β1-cycle `a :: rest`
    (pairwise distinct non-null darts), with live, pairwise distinct spare darts outside the face -/
theorem C13_fan_preserves_WF_closed_face (cfg : Cfg Val) (m m' : Map Val) (face : Nat) (nds : List Nat)
    (a : Nat) (rest : List Nat) (hwf : WF 3 m) (hc : ClosedFace m a rest) (hf : face ∈ a :: rest)
    (hsp : ∀ d ∈ nds, C01.InUse m d ∧ d ∉ a :: rest) (hnd : nds.Nodup)
    (h : run (fanCell cfg m.n face nds) m = (.ok (), m')) : WF 3 m' := by
  have hlt : face < m.n := hc.lt hwf hf
  exact C13_fan_preserves_WF cfg m m' face nds hwf
    (facePath_of_cycle hwf hc hf hlt nds (fun d hd => (hsp d hd).2)) (fun d hd => (hsp d hd).1) hnd h

/-! ## exact face structure after the fan -/

/-- `a → b → c → a` through β1: the three darts bound a triangular face -/
def TriFace (m : Map Val) (t : Nat × Nat × Nat) : Prop :=
  m.β 1 t.1 = t.2.1 ∧ m.β 1 t.2.1 = t.2.2 ∧ m.β 1 t.2.2 = t.1

instance (m : Map Val) (t : Nat × Nat × Nat) : Decidable (TriFace m t) := by unfold TriFace; exact inferInstance

/-- the triangles closed by the loop: `(d0, x1, d1)` per spare pair `(d1, d2)`, then on from `d2` -/
def loopTris : Nat → List Nat → List (Nat × Nat) → List (Nat × Nat × Nat)
  | d0, x1 :: L, (d1, d2) :: cs => (d0, x1, d1) :: loopTris d2 L cs
  | _, _, _ => []

/-- the dart returned by the loop -/
def loopEnd : Nat → List (Nat × Nat) → Nat
  | d0, [] => d0
  | _, (_, d2) :: cs => loopEnd d2 cs

/-- the spare darts in the order they are consumed -/
def sparesOf (cs : List (Nat × Nat)) : List Nat := cs.flatMap (fun c => [c.1, c.2])

theorem sparesOf_cons (d1 d2 : Nat) (cs : List (Nat × Nat)) : sparesOf ((d1, d2) :: cs) = d1 :: d2 :: sparesOf cs := by
  simp [sparesOf]

theorem mem_sparesOf {cs : List (Nat × Nat)} {c : Nat × Nat} (h : c ∈ cs) : c.1 ∈ sparesOf cs ∧ c.2 ∈ sparesOf cs := by
  unfold sparesOf
  simp only [List.mem_flatMap, List.mem_cons, List.not_mem_nil, or_false]
  exact ⟨⟨c, h, Or.inl rfl⟩, ⟨c, h, Or.inr rfl⟩⟩

theorem loopTris_mem : ∀ (cs : List (Nat × Nat)) (d0 : Nat) (L : List Nat) (t : Nat × Nat × Nat),
    t ∈ loopTris d0 L cs → (t.1 = d0 ∨ t.1 ∈ sparesOf cs) ∧ t.2.1 ∈ L.take cs.length ∧ t.2.2 ∈ sparesOf cs := by
  intro cs
  induction cs with
  | nil => intro d0 L t h; cases L <;> simp [loopTris] at h
  | cons c rest ih =>
      intro d0 L t h
      obtain ⟨d1, d2⟩ := c
      cases L with
      | nil => simp [loopTris] at h
      | cons x1 L' =>
          simp only [loopTris, List.mem_cons] at h
          rw [sparesOf_cons]
          rcases h with rfl | h
          · simp
          · obtain ⟨a, b, c⟩ := ih d2 L' t h
            refine ⟨?_, ?_, ?_⟩
            · rcases a with a | a
              · right; simp [a]
              · right; simp [a]
            · simp [b]
            · simp [c]

theorem loopTris_length : ∀ (cs : List (Nat × Nat)) (d0 : Nat) (L : List Nat), cs.length ≤ L.length →
    (loopTris d0 L cs).length = cs.length := by
  intro cs
  induction cs with
  | nil => intro d0 L _; cases L <;> simp [loopTris]
  | cons c rest ih =>
      intro d0 L h
      obtain ⟨d1, d2⟩ := c
      cases L with
      | nil => simp at h
      | cons x1 L' =>
          simp only [loopTris, List.length_cons]
          rw [ih d2 L' (by simpa using h)]

theorem loopEnd_mem : ∀ (cs : List (Nat × Nat)) (d0 : Nat), loopEnd d0 cs = d0 ∨ loopEnd d0 cs ∈ sparesOf cs := by
  intro cs
  induction cs with
  | nil => intro d0; left; rfl
  | cons c rest ih =>
      intro d0
      obtain ⟨d1, d2⟩ := c
      rw [sparesOf_cons]
      simp only [loopEnd]
      rcases ih d2 with h | h
      · right; simp [h]
      · right; simp [h]

/-- the loop, with everything it does to the β tables -/
theorem fanLoop_struct (cfg : Cfg Val) (nn : Nat) :
    ∀ (cs : List (Nat × Nat)) (d0 : Nat) (L : List Nat) (m m' : Map Val) (r : Nat),
      Inv n u m → Live n u d0 → B1Chain m d0 L → L.length = cs.length + 2 → (d0 :: L).Nodup → (∀ x ∈ L, x ≠ 0) →
      (sparesOf cs).Nodup → (∀ x ∈ sparesOf cs, Live n u x ∧ x ∉ d0 :: L) →
      run (fanLoop cfg nn d0 cs) m = (.ok r, m') →
      Inv n u m' ∧ Live n u r ∧ r = loopEnd d0 cs ∧ B1Chain m' r (L.drop cs.length) ∧
      (∀ t ∈ loopTris d0 L cs, TriFace m' t) ∧
      (∀ c ∈ cs, m'.β 2 c.1 = c.2 ∧ m'.β 2 c.2 = c.1) ∧
      (∀ y, y ∉ sparesOf cs → m'.β 2 y = m.β 2 y) ∧
      (∀ y, y ∉ L.take cs.length → y ∉ sparesOf cs → m'.β 1 y = m.β 1 y) ∧
      (∀ y, y ∉ d0 :: L → y ∉ sparesOf cs → m'.β 0 y = m.β 0 y) := by
  intro cs
  induction cs with
  | nil =>
      intro d0 L m m' r hi hd0 hch hlen _ hnz _ _ h
      simp [fanLoop] at h
      obtain ⟨rfl, rfl⟩ := h
      refine ⟨hi, hd0, rfl, by simpa using hch, ?_, by simp, fun _ _ => rfl, fun _ _ _ => rfl, fun _ _ _ => rfl⟩
      intro t ht; cases L <;> simp [loopTris] at ht
  | cons c rest ih =>
      intro d0 L m m' r hi hd0 hch hlen hnd hnz hsnd hsp h
      obtain ⟨d1, d2⟩ := c
      rw [sparesOf_cons] at hsnd hsp
      simp only [List.nodup_cons, List.mem_cons, not_or] at hsnd
      obtain ⟨l1, hn1⟩ := hsp d1 (by simp)
      obtain ⟨l2, hn2⟩ := hsp d2 (by simp)
      have hne : d1 ≠ d2 := hsnd.1.1
      match L, hlen with
      | x1 :: x2 :: L', hlen =>
        obtain ⟨c1, c2, c3⟩ := hch
        unfold fanLoop at h
        obtain ⟨_, _, h⟩ := rB_ok hi h
        rw [c1] at h
        obtain ⟨_, _, h⟩ := rB_ok hi h
        rw [c2] at h
        obtain ⟨_, m1, s1, h⟩ := run_bind_ok h
        obtain ⟨i1, lx1, lx2, e1⟩ := oneUnsew2_eff cfg nn hi s1
        rw [c2] at lx2 e1
        obtain ⟨_, m2, s2, h⟩ := run_bind_ok h
        obtain ⟨i2, _, _, e2⟩ := twoSew2_eff cfg nn i1 l1 l2 hne s2
        obtain ⟨_, m3, s3, h⟩ := run_bind_ok h
        obtain ⟨i3, _, _, e3⟩ := oneSew2_eff cfg nn i2 l2 lx2 s3
        obtain ⟨_, m4, s4, h⟩ := run_bind_ok h
        obtain ⟨i4, _, _, e4⟩ := oneSew2_eff cfg nn i3 lx1 l1 s4
        obtain ⟨_, m5, s5, h⟩ := run_bind_ok h
        obtain ⟨i5, _, _, e5⟩ := oneSew2_eff cfg nn i4 l1 hd0 s5
        -- the β tables after the iteration
        have b1 : ∀ y, m5.β 1 y = if d1 = y then d0 else if x1 = y then d1 else if d2 = y then x2 else
            if x1 = y then 0 else m.β 1 y := by
          intro y
          rw [e5, e4, e3, e2, e1]
          simp only [show ¬ (0 = 1) by decide, show ¬ (2 = 1) by decide, false_and, if_false, true_and]
        have b2 : ∀ y, m5.β 2 y = if d2 = y then d1 else if d1 = y then d2 else m.β 2 y := by
          intro y
          rw [e5, e4, e3, e2, e1]
          simp only [show ¬ (0 = 2) by decide, show ¬ (1 = 2) by decide, false_and, if_false, true_and]
        have b0 : ∀ y, m5.β 0 y = if d0 = y then d1 else if d1 = y then x1 else if x2 = y then d2 else
            if x2 = y then 0 else m.β 0 y := by
          intro y
          rw [e5, e4, e3, e2, e1]
          simp only [show ¬ (1 = 0) by decide, show ¬ (2 = 0) by decide, false_and, if_false, true_and]
        simp only [List.mem_cons, not_or] at hn1 hn2
        simp only [List.nodup_cons, List.mem_cons, not_or] at hnd
        obtain ⟨⟨hd0x1, hd0x2, hd0L⟩, ⟨hx1x2, hx1L⟩, hx2L, hL'nd⟩ := hnd
        have hx1d2 : x1 ≠ d2 := fun hh => hn2.2.1 hh.symm
        have hch' : B1Chain m5 d2 (x2 :: L') := by
          refine ⟨?_, B1Chain.frame L' x2 c3 fun y hy => ?_⟩
          · rw [b1, if_neg hne, if_neg hx1d2, if_pos rfl]
          · have hyL : y ∈ x2 :: L' := List.dropLast_subset _ hy
            have y1 : d1 ≠ y := by
              rintro rfl; simp only [List.mem_cons] at hyL
              rcases hyL with hh | hh
              · exact hn1.2.2.1 hh
              · exact hn1.2.2.2 hh
            have y2 : d2 ≠ y := by
              rintro rfl; simp only [List.mem_cons] at hyL
              rcases hyL with hh | hh
              · exact hn2.2.2.1 hh
              · exact hn2.2.2.2 hh
            have y3 : x1 ≠ y := by
              rintro rfl; simp only [List.mem_cons] at hyL
              rcases hyL with hh | hh
              · exact hx1x2 hh
              · exact hx1L hh
            rw [b1, if_neg y1, if_neg y3, if_neg y2, if_neg y3]
        have hrestsp : ∀ x ∈ sparesOf rest, Live n u x ∧ x ∉ d2 :: x2 :: L' := by
          intro x hx
          obtain ⟨a, b⟩ := hsp x (by simp [hx])
          refine ⟨a, ?_⟩
          simp only [List.mem_cons, not_or] at b ⊢
          exact ⟨fun hh => hsnd.2.1 (hh ▸ hx), b.2.2.1, b.2.2.2⟩
        obtain ⟨j1, j2, j3, j4, j5, j6, j7, j8, j9⟩ :=
          ih d2 (x2 :: L') m5 m' r i5 l2 hch' (by simp at hlen ⊢; omega)
            (by simp only [List.nodup_cons, List.mem_cons, not_or]
                exact ⟨⟨fun hh => hn2.2.2.1 hh, hn2.2.2.2⟩, hx2L, hL'nd⟩)
            (fun x hx => hnz x (List.mem_cons_of_mem _ hx)) hsnd.2.2 hrestsp h
        have hd0sp : d0 ∉ sparesOf rest := fun hh => (hsp d0 (by simp [hh])).2 (by simp)
        have hx1sp : x1 ∉ sparesOf rest := fun hh => (hsp x1 (by simp [hh])).2 (by simp)
        refine ⟨j1, j2, by simp only [loopEnd]; exact j3, by simpa using j4, ?_, ?_, ?_, ?_, ?_⟩
        · -- triangles
          intro t ht
          simp only [loopTris, List.mem_cons] at ht
          rcases ht with rfl | ht
          · refine ⟨?_, ?_, ?_⟩
            · show m'.β 1 d0 = x1
              rw [j8 d0 (fun hh => by
                    have := List.mem_of_mem_take hh
                    simp only [List.mem_cons] at this
                    rcases this with e | e
                    · exact hd0x2 e
                    · exact hd0L e) hd0sp,
                b1, if_neg (fun hh => hn1.1 hh), if_neg (fun hh => hd0x1 hh.symm), if_neg (fun hh => hn2.1 hh),
                if_neg (fun hh => hd0x1 hh.symm), c1]
            · show m'.β 1 x1 = d1
              rw [j8 x1 (fun hh => by
                    have := List.mem_of_mem_take hh
                    simp only [List.mem_cons] at this
                    rcases this with e | e
                    · exact hx1x2 e
                    · exact hx1L e) hx1sp,
                b1, if_neg (fun hh => hn1.2.1 hh), if_pos rfl]
            · show m'.β 1 d1 = d0
              rw [j8 d1 (fun hh => by
                    have := List.mem_of_mem_take hh
                    simp only [List.mem_cons] at this
                    rcases this with e | e
                    · exact hn1.2.2.1 e
                    · exact hn1.2.2.2 e) hsnd.1.2, b1, if_pos rfl]
          · exact j5 t ht
        · -- β2 pairs
          intro c hc
          simp only [List.mem_cons] at hc
          rcases hc with rfl | hc
          · constructor
            · show m'.β 2 d1 = d2
              rw [j7 d1 hsnd.1.2, b2, if_neg (fun hh => hne hh.symm), if_pos rfl]
            · show m'.β 2 d2 = d1
              rw [j7 d2 hsnd.2.1, b2, if_pos rfl]
          · exact j6 c hc
        · intro y hy
          rw [sparesOf_cons] at hy
          simp only [List.mem_cons, not_or] at hy
          rw [j7 y hy.2.2, b2, if_neg (fun hh => hy.2.1 hh.symm), if_neg (fun hh => hy.1 hh.symm)]
        · intro y hy1 hy2
          rw [sparesOf_cons] at hy2
          simp only [List.mem_cons, not_or] at hy2
          simp only [List.length_cons, List.take_succ_cons, List.mem_cons, not_or] at hy1
          rw [j8 y hy1.2 hy2.2.2, b1, if_neg (fun hh => hy2.1 hh.symm), if_neg (fun hh => hy1.1 hh.symm),
            if_neg (fun hh => hy2.2.1 hh.symm), if_neg (fun hh => hy1.1 hh.symm)]
        · intro y hy1 hy2
          rw [sparesOf_cons] at hy2
          simp only [List.mem_cons, not_or] at hy1 hy2
          rw [j9 y (by simp only [List.mem_cons, not_or]; exact ⟨hy2.2.1, hy1.2.2.1, hy1.2.2.2⟩) hy2.2.2, b0,
            if_neg (fun hh => hy1.1 hh.symm), if_neg (fun hh => hy2.1 hh.symm),
            if_neg (fun hh => hy1.2.2.1 hh.symm), if_neg (fun hh => hy1.2.2.1 hh.symm)]

/-- what a successful fan from the apex dart `s` of the closed face `s :: L` with the spare pairs `cs` leaves:
    * the `|cs| + 1 = n - 2` triangles `(s, c1, p1), (q1, c2, p2), …, (q_last, c_{n-2}, c_{n-1})`, each a closed β1-cycle
      of three darts (`(pj, qj)` the spare pairs in order, `ci` the face darts after `s`);
    * the spare darts 2-linked pair by pair, β2 of every other dart — in particular of every side of the polygon —
      unchanged;
    * every β image of every dart outside the face and the spare darts unchanged (other faces untouched) -/
def FanResult (m m' : Map Val) (s : Nat) (L : List Nat) (cs : List (Nat × Nat)) : Prop :=
  (∃ x1 x2, L.drop cs.length = [x1, x2] ∧
    ∀ t ∈ loopTris s L cs ++ [(loopEnd s cs, x1, x2)], TriFace m' t) ∧
  (loopTris s L cs).length + 1 = L.length - 1 ∧
  (∀ c ∈ cs, m'.β 2 c.1 = c.2 ∧ m'.β 2 c.2 = c.1) ∧
  (∀ y, y ∉ sparesOf cs → m'.β 2 y = m.β 2 y) ∧
  (∀ i y, i < 3 → y ∉ s :: L → y ∉ sparesOf cs → m'.β i y = m.β i y)

/-- the last dart of a closed face is the β0 image of its first dart -/
theorem ClosedFace.last {m : Map Val} {s : Nat} {L : List Nat} (hc : ClosedFace m s L) (hne : L ≠ []) :
    m.β 1 (L.getLast hne) = s := by
  have hch := hc.chain
  rw [← List.dropLast_concat_getLast hne, List.append_assoc, List.singleton_append, B1Chain.append] at hch
  exact hch.2.1

/-- **C13, exact face structure after the fan** (both `fan_cell` and `fan_convex_cell` end in `fanFrom` from the apex
    dart `s`): on a closed face `s :: L` with `n = |L| + 1 ≥ 4` darts and `2(n-3)` live, pairwise distinct spare
    darts outside the face, a successful run leaves a well-formed map with exactly the `n - 2` triangles of
    `FanResult`, the polygon's sides keep their β2 neighbours, every other face is untouched. -/
theorem C13_fan_structure (cfg : Cfg Val) (nn s : Nat) (nds : List Nat) (L : List Nat) (m m' : Map Val)
    (hi : Inv n u m) (hc : ClosedFace m s L) (hlen : L.length = (chunks2 nds).length + 2)
    (hsnd : (sparesOf (chunks2 nds)).Nodup)
    (hsp : ∀ x ∈ sparesOf (chunks2 nds), Live n u x ∧ x ∉ s :: L)
    (h : run (fanFrom cfg nn s nds) m = (.ok (), m')) :
    Inv n u m' ∧ FanResult m m' s L (chunks2 nds) := by
  unfold FanResult
  have hp : FacePath m s L := hc.facePath
  have hLne : L ≠ [] := by intro h0; rw [h0] at hlen; simp at hlen
  unfold fanFrom at h
  obtain ⟨_, hs, h⟩ := rB_ok hi h
  obtain ⟨vid, _, h⟩ := ro_bind_ok (readOnly_vertexId2 nn s) h
  obtain ⟨v0, _, h⟩ := ro_bind_ok (ReadOnly.rA 0 vid) h
  cases v0 with
  | none => simp at h
  | some v0 =>
      simp only at h
      obtain ⟨_, m1, s1, h⟩ := run_bind_ok h
      obtain ⟨i1, lb0, _, e1⟩ := oneUnsew2_eff cfg nn hi s1
      have ls : Live n u s := hi.live_of_image (by omega) hs lb0.1
      -- the dart before `s` is the last dart of the face
      have hlast := hc.last hLne
      have hzL : L.getLast hLne ∈ L := List.getLast_mem hLne
      have hzlt : L.getLast hLne < m.n :=
        hi.wf.toSized.lt_of_β_ne (i := 1) (by omega) (by rw [hlast]; exact ls.1)
      have hb0 : m.β 0 s = L.getLast hLne := by
        have := hi.wf.inv01 _ hzlt (by rw [hlast]; exact ls.1)
        rw [hlast] at this; exact this
      have hback : m.β 1 (m.β 0 s) = s := by rw [hb0]; exact hlast
      rw [hback] at e1
      have hnd := hp.nodup
      simp only [List.nodup_cons] at hnd
      have hch1 : B1Chain m1 s L := by
        refine B1Chain.frame L s hp.chain fun y hy => ?_
        have hyne : m.β 0 s ≠ y := by
          rintro rfl
          have := B1Chain.succ_mem L s _ hp.chain hy
          rw [hback] at this
          exact hnd.1 this
        rw [e1, if_neg (fun hh => absurd hh.1 (by decide)), if_neg (fun hh => hyne hh.2)]
      obtain ⟨r, m2, s2, h⟩ := run_bind_ok h
      obtain ⟨i2, lr, hr, hchr, htris, hpairs, hf2, hf1, hf0⟩ :=
        fanLoop_struct cfg nn _ s L m1 m2 r i1 ls hch1 hlen hp.nodup hp.nz hsnd hsp s2
      -- the last two darts of the face
      have hdrop : (L.drop (chunks2 nds).length).length = 2 := by rw [List.length_drop]; omega
      match hD : L.drop (chunks2 nds).length, hdrop with
      | [x1, x2], _ =>
        rw [hD] at hchr
        obtain ⟨c1, c2, _⟩ := hchr
        have hx1L : x1 ∈ L := List.mem_of_mem_drop (by rw [hD]; simp)
        have hx2L : x2 ∈ L := List.mem_of_mem_drop (by rw [hD]; simp)
        have hx12 : x1 ≠ x2 := by
          have : (L.drop (chunks2 nds).length).Nodup := hnd.2.sublist (List.drop_sublist _ _)
          rw [hD] at this; simp at this; exact this
        obtain ⟨_, _, h⟩ := rB_ok i2 h
        rw [c1] at h
        obtain ⟨_, hx1, h⟩ := rB_ok i2 h
        rw [c2] at h
        have lx2 : Live n u x2 := by
          have := i2.live_image (i := 1) (by omega) hx1 (by rw [c2]; exact hp.nz x2 hx2L)
          rw [c2] at this; exact this
        obtain ⟨_, m3, s3, h⟩ := run_bind_ok h
        obtain ⟨i3, _, _, e3⟩ := oneSew2_eff cfg nn i2 lx2 lr s3
        obtain ⟨vid2, _, h⟩ := ro_bind_ok (readOnly_vertexId2 nn s) h
        obtain ⟨_, m4, s4, h⟩ := run_bind_ok h
        simp at h
        subst h
        have st := attrOnly_writeVtx vid2 v0 m3
        rw [s4] at st
        -- where `r` is: the apex or a spare dart, hence not on `L`
        have hrL : r ∉ L := by
          rcases loopEnd_mem (chunks2 nds) s with e | e
          · rw [hr, e]; exact hnd.1
          · rw [hr]; exact fun hh => (hsp _ e).2 (List.mem_cons_of_mem _ hh)
        have b1 : ∀ y, m4.β 1 y = if x2 = y then r else m2.β 1 y := by
          intro y; rw [st.β, e3]
          simp only [show ¬ (0 = 1) by decide, false_and, if_false, true_and]
        -- x2 is not among the first |cs| darts of L
        have hx2take : x2 ∉ L.take (chunks2 nds).length := by
          intro hh
          have hdis := (List.nodup_append.1 (by rw [List.take_append_drop]; exact hnd.2 :
            (L.take (chunks2 nds).length ++ L.drop (chunks2 nds).length).Nodup)).2.2
          exact hdis x2 hh x2 (by rw [hD]; simp) rfl
        have hx2sp : x2 ∉ sparesOf (chunks2 nds) := fun hh => (hsp x2 hh).2 (List.mem_cons_of_mem _ hx2L)
        refine ⟨i3.sameTopo st, ⟨x1, x2, rfl, ?_⟩, ?_, ?_, ?_, ?_⟩
        · intro t ht
          simp only [List.mem_append, List.mem_singleton] at ht
          rcases ht with ht | rfl
          · obtain ⟨a, b, c⟩ := loopTris_mem _ _ _ t ht
            obtain ⟨t1, t2, t3⟩ := htris t ht
            have n1 : x2 ≠ t.1 := by
              rcases a with a | a
              · rw [a]; exact fun hh => hnd.1 (hh ▸ hx2L)
              · exact fun hh => hx2sp (hh ▸ a)
            have n2 : x2 ≠ t.2.1 := fun hh => hx2take (hh ▸ b)
            have n3 : x2 ≠ t.2.2 := fun hh => hx2sp (hh ▸ c)
            exact ⟨by rw [b1, if_neg n1]; exact t1, by rw [b1, if_neg n2]; exact t2,
              by rw [b1, if_neg n3]; exact t3⟩
          · rw [← hr]
            refine ⟨?_, ?_, ?_⟩
            · show m4.β 1 r = x1
              rw [b1, if_neg (fun (hh : x2 = r) => hrL (hh ▸ hx2L))]; exact c1
            · show m4.β 1 x1 = x2
              rw [b1, if_neg (fun hh => hx12 hh.symm)]; exact c2
            · show m4.β 1 x2 = r
              rw [b1, if_pos rfl]
        · rw [loopTris_length _ _ _ (by omega)]; omega
        · intro c hcm
          obtain ⟨a, b⟩ := hpairs c hcm
          have e : ∀ y, m4.β 2 y = m2.β 2 y := by
            intro y; rw [st.β, e3]
            simp only [show ¬ (0 = 2) by decide, show ¬ (1 = 2) by decide, false_and, if_false]
          exact ⟨by rw [e]; exact a, by rw [e]; exact b⟩
        · intro y hy
          have e : m4.β 2 y = m2.β 2 y := by
            rw [st.β, e3]
            simp only [show ¬ (0 = 2) by decide, show ¬ (1 = 2) by decide, false_and, if_false]
          rw [e, hf2 y hy, e1]
          simp only [show ¬ (0 = 2) by decide, show ¬ (1 = 2) by decide, false_and, if_false]
        · intro i y hi3 hyF hySp
          simp only [List.mem_cons, not_or] at hyF
          have hys : s ≠ y := fun hh => hyF.1 hh.symm
          have hyb0 : m.β 0 s ≠ y := by rw [hb0]; exact fun hh => hyF.2 (hh ▸ hzL)
          have hyx2 : x2 ≠ y := fun hh => hyF.2 (hh ▸ hx2L)
          have hyr : r ≠ y := by
            rcases loopEnd_mem (chunks2 nds) s with e | e
            · rw [hr, e]; exact hys
            · rw [hr]; exact fun hh => hySp (hh ▸ e)
          rw [st.β, e3, if_neg (fun hh => hyr hh.2), if_neg (fun hh => hyx2 hh.2)]
          have : i = 0 ∨ i = 1 ∨ i = 2 := by omega
          rcases this with rfl | rfl | rfl
          · rw [hf0 y (by simp only [List.mem_cons, not_or]; exact hyF) hySp, e1,
              if_neg (fun hh => hys hh.2), if_neg (fun hh => absurd hh.1 (by decide))]
          · rw [hf1 y (fun hh => hyF.2 (List.mem_of_mem_take hh)) hySp, e1,
              if_neg (fun hh => absurd hh.1 (by decide)), if_neg (fun hh => hyb0 hh.2)]
          · rw [hf2 y hySp, e1, if_neg (fun hh => absurd hh.1 (by decide)),
              if_neg (fun hh => absurd hh.1 (by decide))]

theorem sparesOf_chunks2_sublist : ∀ (l : List Nat), (sparesOf (chunks2 l)).Sublist l
  | [] => by simp [chunks2, sparesOf]
  | [_] => by simp [chunks2, sparesOf]
  | a :: b :: rest => by
      simp only [chunks2, sparesOf_cons]
      exact ((sparesOf_chunks2_sublist rest).cons₂ b).cons₂ a

/-- **C13, exact face structure, `fan_convex_cell`** on a closed face read from the face dart -/
theorem C13_fan_convex_structure (cfg : Cfg Val) (m m' : Map Val) (face : Nat) (nds : List Nat) (L : List Nat)
    (hwf : WF 3 m) (hc : ClosedFace m face L) (hsp : ∀ d ∈ nds, C01.InUse m d ∧ d ∉ face :: L) (hnd : nds.Nodup)
    (h : run (fanConvexCell cfg m.n face nds) m = (.ok (), m')) :
    WF 3 m' ∧ FanResult m m' face L (chunks2 nds) := by
  unfold fanConvexCell at h
  obtain ⟨darts, h1, h3⟩ := ro_bind_ok (readOnly_orbit2 m.n .faceLinear face) h
  cases hcr : checkRequirements darts.length nds.length with
  | error e => simp [hcr] at h3
  | ok v =>
      simp only [hcr] at h3
      cases v
      have hreq := (C13_check_requirements_ok_iff _ _).1 hcr
      have hk := chunks2_length nds
      obtain ⟨hdl, _⟩ := closedFace_orbit hwf hc (by simp) (hc.lt hwf (by simp)) darts h1
      have hsub := sparesOf_chunks2_sublist nds
      obtain ⟨i1, r⟩ := C13_fan_structure (n := m.n) (u := m.u) cfg m.n face nds L m m' (Inv.of_wf hwf) hc
        (by simp at hdl; omega) (hnd.sublist hsub)
        (fun x hx => ⟨(hsp x (hsub.subset hx)).1, (hsp x (hsub.subset hx)).2⟩) h3
      exact ⟨i1.wf, r⟩

/-- **C13, exact face structure, `fan_cell`**: on a closed face `a :: rest`, a successful run has fanned the face
    from one of its darts `s` — the dart of the index returned by the star search; `s :: L` is the same face read
    from `s` — with the result of `FanResult` -/
theorem C13_fan_cell_structure (cfg : Cfg Val) (m m' : Map Val) (face : Nat) (nds : List Nat)
    (a : Nat) (rest : List Nat) (hwf : WF 3 m) (hc : ClosedFace m a rest) (hf : face ∈ a :: rest)
    (hsp : ∀ d ∈ nds, C01.InUse m d ∧ d ∉ a :: rest) (hnd : nds.Nodup)
    (h : run (fanCell cfg m.n face nds) m = (.ok (), m')) :
    WF 3 m' ∧ ∃ s L, s ∈ a :: rest ∧ ClosedFace m s L ∧ (∀ x, x ∈ s :: L ↔ x ∈ a :: rest) ∧
      FanResult m m' s L (chunks2 nds) := by
  obtain ⟨darts, vals, id, h1, h2, h4, hn, hs, hfrom, _⟩ := C13_fan_kernel_star cfg m.n face nds m m' h
  obtain ⟨hvl, _⟩ := faceVertices_length m.n _ _ _ _ h2
  have hid : id < darts.length := by
    have := (fanStarFrom_some _ _ id hs).1
    simpa [hvl] using this
  have hmem : darts.getD id 0 ∈ darts := by
    rw [List.getD_eq_getElem?_getD, List.getElem?_eq_getElem hid]
    exact List.getElem_mem hid
  obtain ⟨hdl, hin⟩ := closedFace_orbit hwf hc hf (hc.lt hwf hf) darts h1
  obtain ⟨L, hcs, hl, hinL, hcov⟩ := hc.rotate (hin _ hmem)
  have hk := chunks2_length nds
  have hsub := sparesOf_chunks2_sublist nds
  have hiff : ∀ x, x ∈ darts.getD id 0 :: L ↔ x ∈ a :: rest := by
    intro x
    constructor
    · intro hx
      rw [List.mem_cons] at hx
      rcases hx with rfl | hx
      · exact hin _ hmem
      · exact hinL x hx
    · intro hx
      rw [List.mem_cons]
      exact hcov x hx
  obtain ⟨i1, r⟩ := C13_fan_structure (n := m.n) (u := m.u) cfg m.n _ nds L m m' (Inv.of_wf hwf) hcs
    (by omega) (hnd.sublist hsub)
    (fun x hx => ⟨(hsp x (hsub.subset hx)).1, fun hh => (hsp x (hsub.subset hx)).2 ((hiff x).1 hh)⟩) hfrom
  exact ⟨i1.wf, _, L, hin _ hmem, hcs, hiff, r⟩

/-! ## ear clipping: the other faces are untouched, the sides keep their neighbours -/

/-- `D` is closed under the non-null β0 / β1 images -/
def DClosed (D : Nat → Prop) (m : Map Val) : Prop :=
  ∀ y, D y → (m.β 1 y = 0 ∨ D (m.β 1 y)) ∧ (m.β 0 y = 0 ∨ D (m.β 0 y))

/-- a 1-sew / 1-unsew shaped update inside `D` keeps `D` closed and touches nothing outside -/
theorem dstep1 {D : Nat → Prop} {m m' : Map Val} {r l l' r' : Nat}
    (eff : ∀ i d, m'.β i d = if 0 = i ∧ r = d then l else if 1 = i ∧ l' = d then r' else m.β i d)
    (hr : D r) (hl' : D l') (hl : l = 0 ∨ D l) (hr' : r' = 0 ∨ D r') (hc : DClosed D m) :
    DClosed D m' ∧ (∀ i y, ¬ D y → m'.β i y = m.β i y) ∧ (∀ y, m'.β 2 y = m.β 2 y) := by
  refine ⟨fun y hy => ⟨?_, ?_⟩, fun i y hy => ?_, fun y => ?_⟩
  · rw [eff, if_neg (fun hh => absurd hh.1 (by decide))]
    by_cases c : l' = y
    · rw [if_pos ⟨rfl, c⟩]; exact hr'
    · rw [if_neg (fun hh => c hh.2)]; exact (hc y hy).1
  · rw [eff]
    by_cases c : r = y
    · rw [if_pos ⟨rfl, c⟩]; exact hl
    · rw [if_neg (fun hh => c hh.2), if_neg (fun hh => absurd hh.1 (by decide))]; exact (hc y hy).2
  · rw [eff, if_neg (fun (hh : 0 = i ∧ r = y) => hy (hh.2 ▸ hr)), if_neg (fun (hh : 1 = i ∧ l' = y) => hy (hh.2 ▸ hl'))]
  · rw [eff, if_neg (fun hh => absurd hh.1 (by decide)), if_neg (fun hh => absurd hh.1 (by decide))]

theorem dstep2 {D : Nat → Prop} {m m' : Map Val} {l r : Nat}
    (eff : ∀ i d, m'.β i d = if 2 = i ∧ r = d then l else if 2 = i ∧ l = d then r else m.β i d)
    (hl : D l) (hr : D r) (hc : DClosed D m) :
    DClosed D m' ∧ (∀ i y, ¬ D y → m'.β i y = m.β i y) := by
  refine ⟨fun y hy => ?_, fun i y hy => ?_⟩
  · rw [eff, eff, if_neg (fun hh => absurd hh.1 (by decide)), if_neg (fun hh => absurd hh.1 (by decide)),
      if_neg (fun hh => absurd hh.1 (by decide)), if_neg (fun hh => absurd hh.1 (by decide))]
    exact hc y hy
  · rw [eff, if_neg (fun (hh : 2 = i ∧ r = y) => hy (hh.2 ▸ hr)), if_neg (fun (hh : 2 = i ∧ l = y) => hy (hh.2 ▸ hl))]

theorem getD_mem_of_ne {l : List Nat} {i : Nat} (h : l.getD i 0 ≠ 0) : l.getD i 0 ∈ l := by
  by_cases hi : i < l.length
  · rw [List.getD_eq_getElem?_getD, List.getElem?_eq_getElem hi]; exact List.getElem_mem hi
  · exfalso; apply h
    rw [List.getD_eq_getElem?_getD, List.getElem?_eq_none (by omega)]; rfl

theorem dartSurgery_mem (darts : List Nat) (ear nd2 x : Nat) (h : x ∈ dartSurgery darts ear nd2) :
    x ∈ darts ∨ x = nd2 := by
  unfold dartSurgery swapRemove at h
  have h1 := List.dropLast_subset _ h
  rcases List.mem_or_eq_of_mem_set h1 with h2 | h2
  · simp only [List.mem_append, List.mem_singleton] at h2
    rcases h2 with h3 | h3
    · exact Or.inl (List.mem_of_mem_eraseIdx h3)
    · exact Or.inr h3
  · -- the last element of `erase ++ [nd2]` is `nd2`
    right
    rw [h2, List.getLastD_eq_getLast?]; simp

/-- the ear-clipping loop inside a dart set `D` closed under β0 / β1 (the face and the spare darts): well-formedness,
    nothing outside `D` is touched, β2 only changes at the spare darts, which end up 2-linked pair by pair -/
theorem earclipLoop_frame (cfg : Cfg Val) (nn : Nat) (inside : P2 → P2 → P2 → Bool) (D : Nat → Prop) :
    ∀ (chunks : List (Nat × Nat)) (darts : List Nat) (vs : List P2) (m m' : Map Val),
      Inv n u m → DClosed D m → (∀ x ∈ darts, D x) → (sparesOf chunks).Nodup →
      (∀ c ∈ chunks, Live n u c.1 ∧ Live n u c.2 ∧ D c.1 ∧ D c.2) →
      run (earclipLoop cfg nn inside chunks darts vs) m = (.ok (), m') →
      Inv n u m' ∧ (∀ i y, ¬ D y → m'.β i y = m.β i y) ∧
      (∀ y, y ∉ sparesOf chunks → m'.β 2 y = m.β 2 y) ∧
      (∀ c ∈ chunks, m'.β 2 c.1 = c.2 ∧ m'.β 2 c.2 = c.1) := by
  intro chunks
  induction chunks with
  | nil =>
      intro darts vs m m' hi _ _ _ _ h
      unfold earclipLoop at h
      by_cases h3 : vs.length = 3
      · simp [h3] at h; rw [← h]
        exact ⟨hi, fun _ _ _ => rfl, fun _ _ => rfl, by simp⟩
      · simp [h3] at h
  | cons x rest ih =>
      intro darts vs m m' hi hcl hdarts hsnd hsp h
      obtain ⟨nd1, nd2⟩ := x
      obtain ⟨l1, l2, D1, D2⟩ := hsp (nd1, nd2) (by simp)
      rw [sparesOf_cons] at hsnd
      simp only [List.nodup_cons, List.mem_cons, not_or] at hsnd
      have hne : nd1 ≠ nd2 := hsnd.1.1
      unfold earclipLoop at h
      cases hf : findEar inside vs with
      | none => simp [hf] at h
      | some ear =>
          simp only [hf] at h
          obtain ⟨_, hE1, h⟩ := rB_ok hi h
          obtain ⟨_, hE2, h⟩ := rB_ok hi h
          obtain ⟨_, m1, s1, h⟩ := run_bind_ok h
          obtain ⟨i1, lb0, _, e1⟩ := oneUnsew2_eff cfg nn hi s1
          have lE1 : Live n u (darts.getD ear 0) := hi.live_of_image (by omega) hE1 lb0.1
          have DE1 : D (darts.getD ear 0) := hdarts _ (getD_mem_of_ne lE1.1)
          have Db0 : D (m.β 0 (darts.getD ear 0)) := by
            rcases (hcl _ DE1).2 with c | c
            · exact absurd c lb0.1
            · exact c
          have hback : m.β 1 (m.β 0 (darts.getD ear 0)) = darts.getD ear 0 :=
            hi.wf.inv10 _ (by rw [hi.n_eq]; exact hE1) lb0.1
          rw [hback] at e1
          obtain ⟨c1, g1, _⟩ := dstep1 e1 DE1 Db0 (Or.inl rfl) (Or.inl rfl) hcl
          obtain ⟨_, m2, s2, h⟩ := run_bind_ok h
          obtain ⟨i2, lE2, lb1', e2⟩ := oneUnsew2_eff cfg nn i1 s2
          have DE2 : D (darts.getD ((ear + 1) % vs.length) 0) := hdarts _ (getD_mem_of_ne lE2.1)
          have hb1eq : m1.β 1 (darts.getD ((ear + 1) % vs.length) 0) = m.β 1 (darts.getD ((ear + 1) % vs.length) 0) := by
            rw [e1, if_neg (fun hh => absurd hh.1 (by decide))]
            by_cases hc : m.β 0 (darts.getD ear 0) = darts.getD ((ear + 1) % vs.length) 0
            · exfalso
              have := lb1'.1
              rw [e1, if_neg (fun hh => absurd hh.1 (by decide)), if_pos ⟨rfl, hc⟩] at this
              exact this rfl
            · rw [if_neg (fun hh => hc hh.2)]
          rw [hb1eq] at lb1' e2
          have Db1 : D (m.β 1 (darts.getD ((ear + 1) % vs.length) 0)) := by
            rcases (hcl _ DE2).1 with c | c
            · exact absurd c lb1'.1
            · exact c
          obtain ⟨c2, g2, _⟩ := dstep1 e2 Db1 DE2 (Or.inl rfl) (Or.inl rfl) c1
          obtain ⟨_, m3, s3, h⟩ := run_bind_ok h
          obtain ⟨i3, _, _, e3⟩ := oneSew2_eff cfg nn i2 lE2 l1 s3
          obtain ⟨c3, g3, _⟩ := dstep1 e3 D1 DE2 (Or.inr DE2) (Or.inr D1) c2
          obtain ⟨_, m4, s4, h⟩ := run_bind_ok h
          obtain ⟨i4, _, _, e4⟩ := oneSew2_eff cfg nn i3 l1 lE1 s4
          obtain ⟨c4, g4, _⟩ := dstep1 e4 DE1 D1 (Or.inr D1) (Or.inr DE1) c3
          obtain ⟨_, m5, s5, h⟩ := run_bind_ok h
          obtain ⟨i5, _, _, e5⟩ := oneSew2_eff cfg nn i4 lb0 l2 s5
          obtain ⟨c5, g5, _⟩ := dstep1 e5 D2 Db0 (Or.inr Db0) (Or.inr D2) c4
          obtain ⟨_, m6, s6, h⟩ := run_bind_ok h
          obtain ⟨i6, _, _, e6⟩ := oneSew2_eff cfg nn i5 l2 lb1' s6
          obtain ⟨c6, g6, _⟩ := dstep1 e6 Db1 D2 (Or.inr D2) (Or.inr Db1) c5
          obtain ⟨_, m7, s7, h⟩ := run_bind_ok h
          obtain ⟨i7, _, _, e7⟩ := twoSew2_eff cfg nn i6 l1 l2 hne s7
          obtain ⟨c7, g7⟩ := dstep2 e7 D1 D2 c6
          have b2 : ∀ y, m7.β 2 y = if nd2 = y then nd1 else if nd1 = y then nd2 else m.β 2 y := by
            intro y
            rw [e7, e6, e5, e4, e3, e2, e1]
            simp only [show ¬ (0 = 2) by decide, show ¬ (1 = 2) by decide, false_and, if_false, true_and]
          have hdarts' : ∀ x ∈ dartSurgery darts ear nd2, D x := by
            intro x hx
            rcases dartSurgery_mem darts ear nd2 x hx with c | c
            · exact hdarts x c
            · rw [c]; exact D2
          obtain ⟨j1, j2, j3, j4⟩ := ih _ _ m7 m' i7 c7 hdarts' hsnd.2.2 (fun c hc => hsp c (by simp [hc])) h
          refine ⟨j1, fun i y hy => ?_, fun y hy => ?_, fun c hc => ?_⟩
          · rw [j2 i y hy, g7 i y hy, g6 i y hy, g5 i y hy, g4 i y hy, g3 i y hy, g2 i y hy, g1 i y hy]
          · rw [sparesOf_cons] at hy
            simp only [List.mem_cons, not_or] at hy
            rw [j3 y hy.2.2, b2, if_neg (fun hh => hy.2.1 hh.symm), if_neg (fun hh => hy.1 hh.symm)]
          · simp only [List.mem_cons] at hc
            rcases hc with rfl | hc
            · exact ⟨by rw [j3 _ hsnd.1.2, b2, if_neg (fun hh => hne hh.symm), if_pos rfl],
                by rw [j3 _ hsnd.2.1, b2, if_pos rfl]⟩
            · exact j4 c hc

/-- **C13, frame for ear clipping**: on a closed face `a :: rest` with live, pairwise distinct spare darts outside the
    face, a successful `earclip_cell_*` leaves a well-formed map in which every β image of every dart outside the face
    and the spare darts is unchanged (other faces untouched), β2 of every face dart — the neighbour across each side of
    the polygon — is unchanged, and the spare darts are 2-linked pair by pair (the new diagonals) -/
theorem C13_earclip_frame (cfg : Cfg Val) (inside : P2 → P2 → P2 → Bool) (m m' : Map Val) (face : Nat)
    (nds : List Nat) (a : Nat) (rest : List Nat) (hwf : WF 3 m) (hc : ClosedFace m a rest) (hf : face ∈ a :: rest)
    (hsp : ∀ d ∈ nds, C01.InUse m d ∧ m.isFree 3 d = true ∧ d ∉ a :: rest) (hnd : nds.Nodup)
    (h : run (earclipCell cfg m.n inside face nds) m = (.ok (), m')) :
    WF 3 m' ∧
    (∀ i y, y ∉ a :: rest → y ∉ nds → m'.β i y = m.β i y) ∧
    (∀ y, y ∉ sparesOf (chunks2 nds) → m'.β 2 y = m.β 2 y) ∧
    (∀ c ∈ chunks2 nds, m'.β 2 c.1 = c.2 ∧ m'.β 2 c.2 = c.1) := by
  unfold earclipCell at h
  obtain ⟨darts, h1, h3⟩ := ro_bind_ok (readOnly_orbit2 m.n .faceLinear face) h
  obtain ⟨vals, m2, h2, h4⟩ := run_bind_ok h3
  obtain ⟨_, hm2⟩ := faceVertices_length m.n _ _ _ _ h2
  subst hm2
  clear h h3
  cases hcr : checkRequirements darts.length nds.length with
  | error e => simp [hcr] at h4
  | ok v =>
      simp only [hcr] at h4
      obtain ⟨_, hin⟩ := closedFace_orbit hwf hc hf (hc.lt hwf hf) darts h1
      have hsub := sparesOf_chunks2_sublist nds
      -- the face and the spare darts are closed under β0 / β1
      have hD : DClosed (fun y => y ∈ a :: rest ∨ y ∈ nds) m2 := by
        intro y hy
        rcases hy with hy | hy
        · obtain ⟨L, hcy, _, hinL, hcov⟩ := hc.rotate hy
          constructor
          · right; left
            have := hcy.chain
            cases L with
            | nil => simp only [List.nil_append, B1Chain] at this; rw [this.1]; exact hy
            | cons z L' => rw [this.1]; exact hinL z (by simp)
          · -- β0 y is the predecessor on the cycle
            by_cases c : m2.β 0 y = 0
            · exact Or.inl c
            · right; left
              have hylt := hc.lt hwf hy
              have hb := hwf.inv10 y hylt c
              -- the predecessor is the last dart of the face read from `y`
              cases L with
              | nil =>
                  have := hcy.chain
                  simp only [List.nil_append, B1Chain] at this
                  have e0 := hwf.inv01 y hylt (by rw [this.1]; exact hc.nz y hy)
                  rw [this.1] at e0; rw [e0]; exact hy
              | cons z L' =>
                  have hl := hcy.last (by simp)
                  have hzlt : (z :: L').getLast (by simp) < m2.n :=
                    hwf.toSized.lt_of_β_ne (i := 1) (by omega) (by rw [hl]; exact hc.nz y hy)
                  have e0 := hwf.inv01 _ hzlt (by rw [hl]; exact hc.nz y hy)
                  rw [hl] at e0; rw [e0]
                  exact hinL _ (List.getLast_mem _)
        · have hfr := (hsp y hy).2.1
          exact ⟨Or.inl ((isFree_iff m2 3 y).1 hfr 1 (by omega)), Or.inl ((isFree_iff m2 3 y).1 hfr 0 (by omega))⟩
      obtain ⟨j1, j2, j3, j4⟩ := earclipLoop_frame (n := m2.n) (u := m2.u) cfg m2.n inside
        (fun y => y ∈ a :: rest ∨ y ∈ nds) (chunks2 nds) darts _ m2 m' (Inv.of_wf hwf) hD
        (fun x hx => Or.inl (hin x hx)) (hnd.sublist hsub)
        (fun c hcm => by
          obtain ⟨p, q⟩ := chunks2_mem nds c hcm
          exact ⟨(hsp _ p).1, (hsp _ q).1, Or.inr p, Or.inr q⟩) h4
      exact ⟨j1.wf, fun i y hy1 hy2 => j2 i y (fun hh => hh.elim hy1 hy2), j3, j4⟩

/-! ## non-vacuity -/

theorem ok_of_fst {p : P Val Unit} {m : Map Val} (h : (run p m).1 = .ok ()) : run p m = (.ok (), (run p m).2) := by
  revert h
  generalize run p m = r
  obtain ⟨o, m'⟩ := r
  intro h; simp at h; subst h; rfl

/-- the pentagon face 1-2-3-4-5 of `d7Map` with spare darts 6–9: ear clipping, fan (apex 1) and the convex fan all
    succeed and the theorems apply -/
example : WF 3 (run (earclipCell (stdCfg 3 0) d7Map.n insideCCW 1 [6, 7, 8, 9]) d7Map).2 :=
  C13_earclip_preserves_WF _ _ d7Map _ 1 [6, 7, 8, 9] (by decide +kernel) (by decide +kernel) (by decide)
    (ok_of_fst (by decide +kernel))

example : ClosedFace d7Map 1 [2, 3, 4, 5] := ⟨by decide +kernel, by decide, by decide⟩

example : WF 3 (run (fanCell (stdCfg 3 0) d7Map.n 1 [6, 7, 8, 9]) d7Map).2 :=
  C13_fan_preserves_WF_closed_face _ d7Map _ 1 [6, 7, 8, 9] 1 [2, 3, 4, 5] (by decide +kernel)
    ⟨by decide +kernel, by decide, by decide⟩ (by decide) (by decide +kernel) (by decide)
    (ok_of_fst (by decide +kernel))

example : WF 3 (run (fanConvexCell (stdCfg 3 0) d7Map.n 1 [6, 7, 8, 9]) d7Map).2 :=
  C13_fan_convex_preserves_WF _ d7Map _ 1 [6, 7, 8, 9] [2, 3, 4, 5] (by decide +kernel)
    ⟨by decide +kernel, by decide, by decide⟩
    (by
      intro darts hd
      have : (run (orbit2 d7Map.n .faceLinear 1) d7Map).1 = .ok [1, 2, 3, 4, 5] := by decide +kernel
      rw [hd] at this
      simp only [Out.ok.injEq] at this
      subst this; rfl)
    (by decide +kernel) (by decide) (ok_of_fst (by decide +kernel))

/-- the structure theorem on the pentagon: `fan_convex_cell` from dart 1 leaves the triangles (1,2,6), (7,3,8),
    (9,4,5), the spare pairs 6–7, 8–9 2-linked, and nothing else changed -/
example : FanResult d7Map (run (fanConvexCell (stdCfg 3 0) d7Map.n 1 [6, 7, 8, 9]) d7Map).2 1 [2, 3, 4, 5]
    [(6, 7), (8, 9)] :=
  (C13_fan_convex_structure _ d7Map _ 1 [6, 7, 8, 9] [2, 3, 4, 5] (by decide +kernel)
    ⟨by decide +kernel, by decide, by decide⟩ (by decide +kernel) (by decide) (ok_of_fst (by decide +kernel))).2
example : loopTris 1 [2, 3, 4, 5] [(6, 7), (8, 9)] ++ [(loopEnd 1 [(6, 7), (8, 9)], 4, 5)]
    = [(1, 2, 6), (7, 3, 8), (9, 4, 5)] := by decide
example : ∀ t ∈ [(1, 2, 6), (7, 3, 8), (9, 4, 5)],
    TriFace (run (fanConvexCell (stdCfg 3 0) d7Map.n 1 [6, 7, 8, 9]) d7Map).2 t := by decide +kernel
/-- `fan_cell` on the same face fans it from dart 2 (vertex (2,1), index 1 of the star search) -/
example : ∃ s L, s ∈ [1, 2, 3, 4, 5] ∧ ClosedFace d7Map s L ∧ (∀ x, x ∈ s :: L ↔ x ∈ [1, 2, 3, 4, 5]) ∧
    FanResult d7Map (run (fanCell (stdCfg 3 0) d7Map.n 1 [6, 7, 8, 9]) d7Map).2 s L [(6, 7), (8, 9)] :=
  (C13_fan_cell_structure _ d7Map _ 1 [6, 7, 8, 9] 1 [2, 3, 4, 5] (by decide +kernel)
    ⟨by decide +kernel, by decide, by decide⟩ (by decide) (by decide +kernel) (by decide)
    (ok_of_fst (by decide +kernel))).2

/-- the frame theorem for ear clipping on the pentagon: the diagonals 6–7 and 8–9 are 2-linked, nothing outside
    the face and the spare darts moves -/
example : ∀ c ∈ [(6, 7), (8, 9)],
    (run (earclipCell (stdCfg 3 0) d7Map.n insideCCW 1 [6, 7, 8, 9]) d7Map).2.β 2 c.1 = c.2 ∧
    (run (earclipCell (stdCfg 3 0) d7Map.n insideCCW 1 [6, 7, 8, 9]) d7Map).2.β 2 c.2 = c.1 :=
  (C13_earclip_frame _ _ d7Map _ 1 [6, 7, 8, 9] 1 [2, 3, 4, 5] (by decide +kernel)
    ⟨by decide +kernel, by decide, by decide⟩ (by decide) (by decide +kernel) (by decide)
    (ok_of_fst (by decide +kernel))).2.2.2

end HC.C13
