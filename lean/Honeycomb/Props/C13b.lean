/-
  C13, second part — the map surgery of the triangulation kernels (header completed below).
-/
import Honeycomb.Lemmas.KernelWF2
import Honeycomb.Props.C13

set_option linter.unusedSimpArgs false
set_option linter.unusedVariables false

namespace HC.C13
open HC

variable {n : Nat} {u : Array Bool}

/-! ## ear clipping keeps the map well formed -/

/-- the loop of `ear_clipping::process_cell`: whatever ears are chosen, every sew/unsew that succeeds acts on live
    darts (the code's own reads and the success of the two unsews guarantee it), so well-formedness is kept -/
theorem keeps_earclipLoop (cfg : Cfg Val) (nn : Nat) (inside : P2 → P2 → P2 → Bool) :
    ∀ (chunks : List (Nat × Nat)) (darts : List Nat) (vs : List P2) (m m' : Map Val),
      Inv n u m → (∀ c ∈ chunks, Live n u c.1 ∧ Live n u c.2 ∧ c.1 ≠ c.2) →
      run (earclipLoop cfg nn inside chunks darts vs) m = (.ok (), m') → Inv n u m' := by
  intro chunks
  induction chunks with
  | nil =>
      intro darts vs m m' hi _ h
      unfold earclipLoop at h
      by_cases h3 : vs.length = 3
      · simp [h3] at h; rw [← h]; exact hi
      · simp [h3] at h
  | cons x rest ih =>
      intro darts vs m m' hi hsp h
      obtain ⟨nd1, nd2⟩ := x
      obtain ⟨l1, l2, hne⟩ := hsp (nd1, nd2) (by simp)
      unfold earclipLoop at h
      cases hf : findEar inside vs with
      | none => simp [hf] at h
      | some ear =>
          simp only [hf] at h
          obtain ⟨_, hE1, h⟩ := rB_ok hi h
          obtain ⟨_, hE2, h⟩ := rB_ok hi h
          obtain ⟨_, m1, s1, h⟩ := run_bind_ok h
          obtain ⟨i1, lb0, _, e1⟩ := oneUnsew2_eff cfg nn hi s1
          have lE1 : Live n u (darts.getD ear 0) := hi.live_of_image (by omega) hE1 lb0.1
          obtain ⟨_, m2, s2, h⟩ := run_bind_ok h
          obtain ⟨i2, lE2, lb1', _⟩ := oneUnsew2_eff cfg nn i1 s2
          have lb1 : Live n u (m.β 1 (darts.getD ((ear + 1) % vs.length) 0)) := by
            rw [e1, if_neg (fun hh => absurd hh.1 (by decide))] at lb1'
            by_cases hc : m.β 0 (darts.getD ear 0) = darts.getD ((ear + 1) % vs.length) 0
            · rw [if_pos ⟨rfl, hc⟩] at lb1'; exact absurd rfl lb1'.1
            · rw [if_neg (fun hh => hc hh.2)] at lb1'; exact lb1'
          obtain ⟨_, m3, s3, h⟩ := run_bind_ok h
          obtain ⟨i3, _, _, _⟩ := oneSew2_eff cfg nn i2 lE2 l1 s3
          obtain ⟨_, m4, s4, h⟩ := run_bind_ok h
          obtain ⟨i4, _, _, _⟩ := oneSew2_eff cfg nn i3 l1 lE1 s4
          obtain ⟨_, m5, s5, h⟩ := run_bind_ok h
          obtain ⟨i5, _, _, _⟩ := oneSew2_eff cfg nn i4 lb0 l2 s5
          obtain ⟨_, m6, s6, h⟩ := run_bind_ok h
          obtain ⟨i6, _, _, _⟩ := oneSew2_eff cfg nn i5 l2 lb1 s6
          obtain ⟨_, m7, s7, h⟩ := run_bind_ok h
          obtain ⟨i7, _, _, _⟩ := twoSew2_eff cfg nn i6 l1 l2 hne s7
          exact ih _ _ _ _ i7 (fun c hc => hsp c (by simp [hc])) h

end HC.C13
