/-
  C09b — the cmap round trip at CHARACTER level (everything except the decimal text of the
  coordinate values).

  * `C09_chars_tokenise_to_tokens`: for EVERY map (any size, well formed or not), any version
    token and any coordinate formatter `fmt` producing non-empty blank-free strings, the reader's
    tokenisation (`str::lines`, `str::split_whitespace` with the Unicode `White_Space` blanks) of
    the characters written by `CMap2::serialize` — headers, META line, the three BETAS lines with
    their `{:>width$}` padding and the `trim`, the UNUSED line with its trailing blank, the
    VERTICES lines — is exactly the list of token lines of the token-level model.
  * `C09_chars_reader_is_token_reader`: the character-level mirror of `CMapFile::try_from`
    (`trim`, `starts_with`, `contains`, `trim_matches`, `to_lowercase`, `split('#')`) followed by
    the builder is the token-level `load` after tokenisation, for EVERY character string.
  * `C09_char_level_round_trip`: hence, for every well-formed 2-map with fewer than 2^32 darts,
    whose null dart is not flagged and whose coordinates are 18-digit rationals printed exactly
    (`fmt = ratStr`): reading the characters written by `serialize` succeeds, yields the same
    darts, β images, flags and vertex values, and serializing the result writes the same
    characters again.

  Numerals: `{}` of an integer is `Nat.toDigits 10` (= `Nat.repr`), read back by the model of
  `parse::<u32>` (`parseU32_natTok`, from core's `Nat.ofDigitChars_ten_toDigits`).
  Outside: the decimal text of `f64` values (`Display` / `FromStr for f64`), validated by `rt`.
-/
import Honeycomb.Lemmas.CmapChars
import Honeycomb.Props.C09

namespace HC.C09
open HC HC.CmapText

theorem C09_chars_tokenise_to_tokens (ver : String) (hv : TokChars ver.toList)
    (fmt : Rat → String) (hf : ∀ q, TokChars (fmt q).toList) (m : Map Val) :
    tokenise (serializeChars ver fmt m) = serializeF ver fmt m :=
  tokenise_serializeChars ver hv fmt hf m

theorem C09_chars_reader_is_token_reader (ns : Nat) (cs : List Char) :
    loadChars ns cs = load ns (tokenise cs) ∧ parseFileC cs = parseFile (tokenise cs) :=
  ⟨loadChars_eq ns cs, parseFileC_eq cs⟩

/-- the exact rational text is a token: non-empty, blank-free -/
theorem tokChars_ratStr (q : Rat) : TokChars (ratStr q).toList := by
  have hint : ∀ i : Int, intChars i ≠ [] ∧ ∀ c ∈ intChars i, isWs c = false := by
    intro i
    cases i with
    | ofNat k => exact ⟨(tok_digits k).ne, (tok_digits k).noWs⟩
    | negSucc k =>
      refine ⟨by simp [intChars], ?_⟩
      intro c hc
      simp only [intChars, List.mem_cons] at hc
      rcases hc with rfl | hc
      · decide
      · exact (tok_digits (k + 1)).noWs c hc
  rw [toList_ratStr]
  split
  · exact ⟨(hint q.num).1, (hint q.num).2⟩
  · refine ⟨by simp, ?_⟩
    intro c hc
    simp only [List.mem_append, List.mem_cons] at hc
    rcases hc with h | rfl | h
    · exact (hint q.num).2 c h
    · decide
    · exact (tok_digits q.den).noWs c h

/-- the characters of `serialize` with exact coordinates tokenise to the token-level `serialize` -/
theorem C09_chars_tokenise_ratStr (ver : String) (hv : TokChars ver.toList) (m : Map Val) :
    tokenise (serializeChars ver ratStr m) = serialize ver m := by
  rw [C09_chars_tokenise_to_tokens ver hv ratStr tokChars_ratStr m, serializeF_ratStr]

theorem C09_char_level_round_trip (ver : String) (hv : TokChars ver.toList) (hver : PlainVer ver)
    (ns : Nat) (hns : 0 < ns) (m : Map Val) (hwf : WF 3 m) (hu0 : m.unused 0 = false)
    (h32 : m.n ≤ u32Bound) (hc : SmallCoords m) :
    ∃ m', loadChars ns (serializeChars ver ratStr m) = .ok m' ∧ m'.n = m.n ∧
      (∀ i, i < 3 → ∀ d, m'.β i d = m.β i d) ∧ (∀ d, m'.unused d = m.unused d) ∧
      (∀ v ∈ iterVertices2 m, m'.att 0 v = m.att 0 v) ∧
      serializeChars ver ratStr m' = serializeChars ver ratStr m := by
  obtain ⟨m', hl, hn, hβ, hu, ha, hs⟩ := C09_roundtrip_small ver hver ns hns m hwf hu0 h32 hc
  refine ⟨m', ?_, hn, hβ, hu, ha, ?_⟩
  · rw [loadChars_eq, C09_chars_tokenise_ratStr ver hv m]; exact hl
  · apply serializeChars_congr ver ratStr _ hn
    rw [serializeF_ratStr, serializeF_ratStr]; exact hs

/-! ## non-vacuity and concrete texts -/

theorem tokChars_pkgVersion : TokChars pkgVersion.toList :=
  ⟨by decide, by decide⟩

theorem exMap_small : SmallCoords exMap := by
  constructor
  intro v hv val h
  have hl : iterVertices2 exMap = [1, 2, 3, 4] := by decide
  rw [hl] at hv
  simp only [List.mem_cons, List.not_mem_nil, or_false] at hv
  rcases hv with rfl | rfl | rfl | rfl
  · have e : exMap.att 0 1 = some (.pt (1/4) (-2) 0) := rfl
    rw [e] at h; injection h with h; subst h
    exact ⟨1/4, -2, rfl, by decide +kernel, by decide +kernel, by decide +kernel, by decide +kernel⟩
  · have e : exMap.att 0 2 = some (.pt 7 7 0) := rfl
    rw [e] at h; injection h with h; subst h
    exact ⟨7, 7, rfl, by decide +kernel, by decide +kernel, by decide +kernel, by decide +kernel⟩
  · have e : exMap.att 0 3 = some (.pt 3 (-5/8) 0) := rfl
    rw [e] at h; injection h with h; subst h
    exact ⟨3, -5/8, rfl, by decide +kernel, by decide +kernel, by decide +kernel, by decide +kernel⟩
  · have e : exMap.att 0 4 = none := by decide
    rw [e] at h; cases h

example : ∃ m', loadChars 1 (serializeChars pkgVersion ratStr exMap) = .ok m' ∧ m'.n = exMap.n ∧
    (∀ i, i < 3 → ∀ d, m'.β i d = exMap.β i d) ∧ (∀ d, m'.unused d = exMap.unused d) ∧
    (∀ v ∈ iterVertices2 exMap, m'.att 0 v = exMap.att 0 v) ∧
    serializeChars pkgVersion ratStr m' = serializeChars pkgVersion ratStr exMap :=
  C09_char_level_round_trip pkgVersion tokChars_pkgVersion plainVer_pkgVersion 1 (by decide) exMap
    exMap_wf (by decide) (by decide) exMap_small

/-- the characters written for the example map (width 1: six darts) -/
example : String.ofList (serializeChars pkgVersion ratStr exMap) =
    "[META]\n0.8.1 2 5\n\n[BETAS]\n0 0 1 0 0 0\n0 2 0 0 0 0\n0 0 0 4 3 0\n\n[UNUSED]\n5 \n\n[VERTICES]\n1 1/4 -2\n2 7 7\n3 3 -5/8\n" := by
  decide +kernel

/-- column padding: with 12 darts (`n_darts = 12`, width 2) every image is right-aligned on two
    characters, the buffer is trimmed at both ends -/
def exWide : Map Val :=
  { n := 12
    b := #[#[0, 0, 1, 0, 0, 0, 0, 0, 0, 0, 0, 10], #[0, 2, 0, 0, 0, 0, 0, 0, 0, 0, 11, 0],
           #[0, 0, 0, 0, 0, 0, 0, 0, 0, 0, 0, 0]]
    u := #[false, false, false, false, false, false, false, false, false, true, false, false]
    a := #[#[none, none, none, none, none, none, none, none, none, none, none, none]] }

example : String.ofList (serializeChars pkgVersion ratStr exWide) =
    "[META]\n0.8.1 2 11\n\n[BETAS]\n0  0  1  0  0  0  0  0  0  0  0 10\n0  2  0  0  0  0  0  0  0  0 11  0\n0  0  0  0  0  0  0  0  0  0  0  0\n\n[UNUSED]\n9 \n\n[VERTICES]\n" := by
  decide +kernel

example : tokenise (serializeChars pkgVersion ratStr exWide) = serialize pkgVersion exWide :=
  C09_chars_tokenise_ratStr pkgVersion tokChars_pkgVersion exWide

end HC.C09
