/-
  C05 at cell level, continued (Props/C05Cells.lean did 1-sew / 1-unsew): 2-sew / 2-unsew and 3-sew /
  3-unsew of a 3-map — the identifiers the code computes ARE the cells.

  Cells: vertex = class under `SameCell (g3v m)` (six images and inverses), edge = class under
  `SameCell (g3e m)` (`⟨β2, β3⟩`), face = class under `SameCell (g3f m)` (`⟨β1, β0, β3⟩`).
  `Glue R ps` = the partition obtained from `R` by uniting the cells of each pair of `ps`
  (`Lemmas/Cell3b.lean`); under the property's proviso (`Far`: no old cell takes part in two pairs)
  it is "old cells, plus for each pair the union of its two cells" (`glue_sep`), and the smallest
  dart of a united cell is the smaller of the two old smallest darts.

  * `C05_edgeId3_is_cell_min`: `edge_id_transac` returns the smallest dart of the edge cell.
  * `C05_twoSew3_cells` (closed faces: both darts have a successor): new vertex partition = old one
    with `l — β1 r` and `r — β1 l` united; new edge partition = old one with `l — r` united; every
    identifier the code computes (old ones before, new ones after the link) is the smallest dart
    of its cell; the new edge id is `min` of the two old ones; under the proviso the two new vertex
    ids are the `min` of the respective old ones; data placement between these ids (C05).
  * `C05_twoUnsew3_cells`: the same read backwards (re-linking what was unlinked gives back β).
-/
import Honeycomb.Lemmas.Cell3b
import Honeycomb.Props.C05Cells

set_option linter.unusedSimpArgs false
set_option linter.unusedVariables false

namespace HC.C05
open HC HC.CellCalc HC.Cell3
open HC.C04 (vStores eStores)
variable {X : Type}

/-- **`edge_id_transac` = smallest dart of the edge cell** (3-D, every well-formed map) -/
theorem C05_edgeId3_is_cell_min {m m' : Map X} (h : WF 4 m) {n' d v : Nat} (hd0 : d ≠ 0) (hd : d < m.n)
    (hr : run (edgeId3 (X := X) n' d) m = (.ok v, m')) : IsEid3 m d v :=
  (edgeId3_spec h hd0 hd hr).2

/-- identifiers only depend on the topology -/
theorem isVid3_sameTopo {m m' : Map X} (st : SameTopo m m') (d v : Nat) : IsVid3 m' d v ↔ IsVid3 m d v := by
  have : g3v m' = g3v m := funext (g3v_congr (fun j e => st.β j e))
  unfold IsVid3; rw [this, st.n]

theorem isEid3_sameTopo {m m' : Map X} (st : SameTopo m m') (d v : Nat) : IsEid3 m' d v ↔ IsEid3 m d v := by
  have : g3e m' = g3e m := g3e_congr (fun j e => st.β j e)
  unfold IsEid3; rw [this, st.n]

theorem pairsV2_both {m : Map X} {l r : Nat} (hbl : m.β 1 l ≠ 0) (hbr : m.β 1 r ≠ 0) :
    pairsV2 m l r = [(l, m.β 1 r), (r, m.β 1 l)] := by
  unfold pairsV2 headV
  simp [hbl, hbr]

theorem pairwise_two {α : Type} {P : α → α → Prop} {x y : α} (h : P x y) : [x, y].Pairwise P := by
  simp [h]

/-- **C05, 2-sew at cell level** (both darts have a successor; the orientation test passed) -/
theorem C05_twoSew3_cells (cfg : Cfg X) (n : Nat) (m m' : Map X) (l r : Nat) (u : Unit)
    (hwf : WF 4 m) (hl : C02.InUse m l) (hr : C02.InUse m r) (hlr : l ≠ r) (hfc : m.fc = 0)
    (hbl : m.β 1 l ≠ 0) (hbr : m.β 1 r ≠ 0)
    (h : run (twoSew3 cfg n l r) m = (.ok u, m')) :
    WF 4 (m.linkI 2 l r) ∧ SameTopo (m.linkI 2 l r) m' ∧
    -- the new vertex partition: cell(l) ∪ cell(β1 r) and cell(r) ∪ cell(β1 l); nothing else changes
    (∀ d e, SameCell (g3v (m.linkI 2 l r)) m.n d e ↔
      Glue (SameCell (g3v m) m.n) [(l, m.β 1 r), (r, m.β 1 l)] d e) ∧
    -- the new edge partition: cell(l) ∪ cell(r)
    (∀ d e, SameCell (g3e (m.linkI 2 l r)) m.n d e ↔ Glue (SameCell (g3e m) m.n) [(l, r)] d e) ∧
    ∃ el er lv b1rv b1lv rv lvn rvn en,
      -- every identifier the code computes is the smallest dart of its cell
      IsEid3 m l el ∧ IsEid3 m r er ∧ IsVid3 m l lv ∧ IsVid3 m (m.β 1 r) b1rv ∧
      IsVid3 m (m.β 1 l) b1lv ∧ IsVid3 m r rv ∧
      IsVid3 (m.linkI 2 l r) l lvn ∧ IsVid3 (m.linkI 2 l r) r rvn ∧ IsEid3 (m.linkI 2 l r) l en ∧
      en = min el er ∧
      -- the property's proviso: the two end points of the new edge are made of four different old
      -- vertices — then each new identifier is the smaller of the two old ones
      (Far (SameCell (g3v m) m.n) (l, m.β 1 r) (r, m.β 1 l) → lvn = min lv b1rv ∧ rvn = min rv b1lv) ∧
      -- the data, in the order of the code, between these identifiers
      ∃ ma mb mc md,
        MergedIn cfg [0] lvn lv b1rv (m.linkI 2 l r) ma ∧ MergedIn cfg [0] rvn b1lv rv ma mb ∧
        MergedIn cfg (storagesOf cfg 0) lvn lv b1rv mb mc ∧ MergedIn cfg (storagesOf cfg 0) rvn b1lv rv mc md ∧
        MergedIn cfg (eStores cfg) en el er md m' := by
  obtain ⟨hl0, hln, hlu⟩ := hl
  obtain ⟨hr0, hrn, hru⟩ := hr
  have han : m.β 1 r < m.n := hwf.range 1 (by omega) r hrn
  have hbn : m.β 1 l < m.n := hwf.range 1 (by omega) l hln
  obtain ⟨el, er, lv, b1rv, b1lv, rv, m1, lvn, rvn, en, ma, mb, mc, md, hel, her, hlv, hb1rv, hb1lv, hrv, _,
    hlink, hlvn, hrvn, hen, rA', rB', rC', rD', rE'⟩ := C05_twoSew3_both cfg n l r m m' u hfc hbl hbr h
  obtain ⟨_, _, h2l, h2r, hm1⟩ := iLinkCore_ok hlink
  have hm1' : m1 = m.linkI 2 l r := hm1
  subst hm1'
  have hwf1 : WF 4 (m.linkI 2 l r) := hwf.linkI (by omega) (by omega) hl0 hr0 hlr hln hrn hlu hru h2l h2r
  have hn1 : (m.linkI 2 l r).n = m.n := rfl
  have htopo : SameTopo (m.linkI 2 l r) m' :=
    (((rA'.topo.trans rB'.topo).trans rC'.topo).trans rD'.topo).trans rE'.topo
  have hv : ∀ d e, SameCell (g3v (m.linkI 2 l r)) m.n d e ↔
      Glue (SameCell (g3v m) m.n) [(l, m.β 1 r), (r, m.β 1 l)] d e := by
    intro d e
    rw [← pairsV2_both hbl hbr]
    exact vertex_cells_link2 hwf hl0 hr0 hlr hln hrn hlu hru h2l h2r d e
  have he := edge_cells_link2 hwf hl0 hr0 hlr hln hrn h2l h2r
  -- the identifiers
  have s_el := (edgeId3_spec hwf hl0 hln hel).2
  have s_er := (edgeId3_spec hwf hr0 hrn her).2
  have s_lv := (vertexId3_spec hwf hl0 hln hlv).2
  have s_b1rv := (vertexId3_spec hwf hbr han hb1rv).2
  have s_b1lv := (vertexId3_spec hwf hbl hbn hb1lv).2
  have s_rv := (vertexId3_spec hwf hr0 hrn hrv).2
  have s_lvn := (vertexId3_spec hwf1 hl0 (by rw [hn1]; exact hln) hlvn).2
  have s_rvn := (vertexId3_spec hwf1 hr0 (by rw [hn1]; exact hrn) hrvn).2
  have s_en := (edgeId3_spec hwf1 hl0 (by rw [hn1]; exact hln) hen).2
  have eqE := sameCell_equiv (g3e m) m.n
  have eqV := sameCell_equiv (g3v m) m.n
  -- the new edge id
  have hen' : en = min el er := by
    have hG : ∀ e, SameCell (g3e (m.linkI 2 l r)) m.n l e ↔
        (SameCell (g3e m) m.n l e ∨ SameCell (g3e m) m.n r e) := by
      intro e
      rw [he]
      exact glue_sep_pair eqE (ps := [(l, r)]) (by simp) (pq := (l, r)) (by simp) e
    have hu := isMinOf_union hG s_el s_er
    have e0 : en ≠ 0 := sameCellE_ne_zero hwf1 hl0 (by rw [hn1]; exact hln) s_en.1
    have a0 := sameCellE_ne_zero hwf hl0 hln s_el.1
    have b0 := sameCellE_ne_zero hwf hr0 hrn s_er.1
    exact IsMinOf.unique s_en hu e0 (by omega)
  refine ⟨hwf1, htopo, hv, he, el, er, lv, b1rv, b1lv, rv, lvn, rvn, en, s_el, s_er, s_lv, s_b1rv, s_b1lv, s_rv,
    s_lvn, s_rvn, s_en, hen', ?_, ma, mb, mc, md, rA', rB', rC', rD', rE'⟩
  intro hfar
  have hsep : [(l, m.β 1 r), (r, m.β 1 l)].Pairwise (Far (SameCell (g3v m) m.n)) := pairwise_two hfar
  have hG1 : ∀ e, SameCell (g3v (m.linkI 2 l r)) m.n l e ↔
      (SameCell (g3v m) m.n l e ∨ SameCell (g3v m) m.n (m.β 1 r) e) := by
    intro e; rw [hv]
    exact glue_sep_pair eqV hsep (pq := (l, m.β 1 r)) (by simp) e
  have hG2 : ∀ e, SameCell (g3v (m.linkI 2 l r)) m.n r e ↔
      (SameCell (g3v m) m.n r e ∨ SameCell (g3v m) m.n (m.β 1 l) e) := by
    intro e; rw [hv]
    exact glue_sep_pair eqV hsep (pq := (r, m.β 1 l)) (by simp) e
  have u1 := isMinOf_union hG1 s_lv s_b1rv
  have u2 := isMinOf_union hG2 s_rv s_b1lv
  have z1 := s_lvn.ne_zero hwf1 hl0 (by rw [hn1]; exact hln)
  have z2 := s_rvn.ne_zero hwf1 hr0 (by rw [hn1]; exact hrn)
  have z3 := s_lv.ne_zero hwf hl0 hln
  have z4 := s_b1rv.ne_zero hwf hbr han
  have z5 := s_rv.ne_zero hwf hr0 hrn
  have z6 := s_b1lv.ne_zero hwf hbl hbn
  exact ⟨IsMinOf.unique s_lvn u1 z1 (by omega), IsMinOf.unique s_rvn u2 z2 (by omega)⟩

/-- **C05, 2-unsew at cell level** (both darts have a successor).  `r = β2 l`; `U = unlinkI 2 l` is
    the map after the call as far as topology is concerned: the OLD partitions are the new ones
    with the stated pairs united. -/
theorem C05_twoUnsew3_cells (cfg : Cfg X) (n : Nat) (m m' : Map X) (l : Nat) (u : Unit)
    (hwf : WF 4 m) (hl : C02.InUse m l) (hfc : m.fc = 0)
    (hbl : m.β 1 l ≠ 0) (hbr : m.β 1 (m.β 2 l) ≠ 0)
    (h : run (twoUnsew3 cfg n l) m = (.ok u, m')) :
    m.β 2 l ≠ 0 ∧ WF 4 (m.unlinkI 2 l) ∧ SameTopo (m.unlinkI 2 l) m' ∧
    (∀ d e, SameCell (g3v m) m.n d e ↔
      Glue (SameCell (g3v (m.unlinkI 2 l)) m.n) [(l, m.β 1 (m.β 2 l)), (m.β 2 l, m.β 1 l)] d e) ∧
    (∀ d e, SameCell (g3e m) m.n d e ↔ Glue (SameCell (g3e (m.unlinkI 2 l)) m.n) [(l, m.β 2 l)] d e) ∧
    ∃ eold enl enr lvold rvold a b c d,
      IsEid3 m l eold ∧ IsEid3 (m.unlinkI 2 l) l enl ∧ IsEid3 (m.unlinkI 2 l) (m.β 2 l) enr ∧
      eold = min enl enr ∧
      IsVid3 m l lvold ∧ IsVid3 m (m.β 2 l) rvold ∧
      IsVid3 (m.unlinkI 2 l) l a ∧ IsVid3 (m.unlinkI 2 l) (m.β 1 (m.β 2 l)) b ∧
      IsVid3 (m.unlinkI 2 l) (m.β 1 l) c ∧ IsVid3 (m.unlinkI 2 l) (m.β 2 l) d ∧
      (Far (SameCell (g3v (m.unlinkI 2 l)) m.n) (l, m.β 1 (m.β 2 l)) (m.β 2 l, m.β 1 l) →
        lvold = min a b ∧ rvold = min d c) ∧
      ∃ me ma mb mc,
        SplitIn cfg (eStores cfg) enl enr eold (m.unlinkI 2 l) me ∧
        SplitIn cfg [0] a b lvold me ma ∧ SplitIn cfg [0] c d rvold ma mb ∧
        SplitIn cfg (storagesOf cfg 0) a b lvold mb mc ∧ SplitIn cfg (storagesOf cfg 0) c d rvold mc m' := by
  obtain ⟨hl0, hln, hlu⟩ := hl
  obtain ⟨eold, m1, enl, enr, me, he, hunl, henl, henr, hE, htopo, hcase⟩ :=
    C05_twoUnsew3_effect cfg n l m m' u hfc h
  obtain ⟨_, _, hne, hm1⟩ := iUnlinkCore_ok hunl
  have hm1' : m1 = m.unlinkI 2 l := hm1
  subst hm1'
  have ir := hwf.image_inUse (i := 2) (by omega) hln hne
  have hrn := ir.1
  have hwf1 : WF 4 (m.unlinkI 2 l) := hwf.unlinkI (by omega) (by omega) hln hne
  have hn1 : (m.unlinkI 2 l).n = m.n := rfl
  have hinv := hwf.invol 2 (by omega) (by omega) l hln hne
  have hlr : l ≠ m.β 2 l := fun hh => hinv.2 hh.symm
  have eβ := hwf.toSized.β_unlinkI (i := 2) (by omega) hln hrn
  have h2l' : (m.unlinkI 2 l).β 2 l = 0 := by rw [eβ]; simp
  have h2r' : (m.unlinkI 2 l).β 2 (m.β 2 l) = 0 := by rw [eβ]; simp
  have h1 : ∀ e, (m.unlinkI 2 l).β 1 e = m.β 1 e := by intro e; rw [eβ]; simp
  have hu : ∀ e, (m.unlinkI 2 l).unused e = m.unused e := fun _ => rfl
  have han : m.β 1 (m.β 2 l) < m.n := hwf.range 1 (by omega) _ hrn
  have hbn : m.β 1 l < m.n := hwf.range 1 (by omega) l hln
  -- the partitions, read backwards
  have hβ := relink2_β hwf hln hne
  have hv : ∀ d e, SameCell (g3v m) m.n d e ↔
      Glue (SameCell (g3v (m.unlinkI 2 l)) m.n) [(l, m.β 1 (m.β 2 l)), (m.β 2 l, m.β 1 l)] d e := by
    intro d e
    rw [← sameCell_of_β_eq hβ m.n d e]
    have := vertex_cells_link2 hwf1 (l := l) (r := m.β 2 l) hl0 hne hlr hln hrn
      (by rw [hu]; exact hlu) (by rw [hu]; exact ir.2) h2l' h2r' d e
    rw [pairsV2_both (by rw [h1]; exact hbl) (by rw [h1]; exact hbr), h1, h1] at this
    exact this
  have hee : ∀ d e, SameCell (g3e m) m.n d e ↔ Glue (SameCell (g3e (m.unlinkI 2 l)) m.n) [(l, m.β 2 l)] d e := by
    intro d e
    rw [← g3e_congr hβ]
    exact edge_cells_link2 hwf1 (l := l) (r := m.β 2 l) hl0 hne hlr hln hrn h2l' h2r' d e
  -- the fourth case of the code
  rcases hcase with ⟨c1, _⟩ | ⟨c1, _⟩ | ⟨_, c2, _⟩ |
      ⟨_, _, lvold, rvold, a, b, c, d, ma, mb, mc, hlv, hrv, ha, hb, hc, hd, rA', rB', rC', rD'⟩
  · exact absurd c1 hbl
  · exact absurd c1 hbl
  · exact absurd c2 hbr
  have ste : SameTopo (m.unlinkI 2 l) me := hE.topo
  have hwfe : WF 4 me := hwf1.sameTopo ste
  have hne' : me.n = m.n := ste.n
  have s_eold := (edgeId3_spec hwf hl0 hln he).2
  have s_enl := (edgeId3_spec hwf1 hl0 (by rw [hn1]; exact hln) henl).2
  have s_enr := (edgeId3_spec hwf1 hne (by rw [hn1]; exact hrn) henr).2
  have s_lvold := (vertexId3_spec hwf hl0 hln hlv).2
  have s_rvold := (vertexId3_spec hwf hne hrn hrv).2
  have s_a := (isVid3_sameTopo ste _ _).1 (vertexId3_spec hwfe hl0 (by rw [hne']; exact hln) ha).2
  have s_b := (isVid3_sameTopo ste _ _).1 (vertexId3_spec hwfe hbr (by rw [hne']; exact han) hb).2
  have s_c := (isVid3_sameTopo ste _ _).1 (vertexId3_spec hwfe hbl (by rw [hne']; exact hbn) hc).2
  have s_d := (isVid3_sameTopo ste _ _).1 (vertexId3_spec hwfe hne (by rw [hne']; exact hrn) hd).2
  have eqE := sameCell_equiv (g3e (m.unlinkI 2 l)) m.n
  have eqV := sameCell_equiv (g3v (m.unlinkI 2 l)) m.n
  have hold : eold = min enl enr := by
    have hG : ∀ e, SameCell (g3e m) m.n l e ↔
        (SameCell (g3e (m.unlinkI 2 l)) m.n l e ∨ SameCell (g3e (m.unlinkI 2 l)) m.n (m.β 2 l) e) := by
      intro e
      rw [hee]
      exact glue_sep_pair eqE (ps := [(l, m.β 2 l)]) (by simp) (pq := (l, m.β 2 l)) (by simp) e
    have hu := isMinOf_union (G := SameCell (g3e m) m.n) hG s_enl s_enr
    have e0 := sameCellE_ne_zero hwf hl0 hln s_eold.1
    have a0 := sameCellE_ne_zero hwf1 hl0 (by rw [hn1]; exact hln) s_enl.1
    have b0 := sameCellE_ne_zero hwf1 hne (by rw [hn1]; exact hrn) s_enr.1
    exact IsMinOf.unique s_eold hu e0 (by omega)
  refine ⟨hne, hwf1, htopo, hv, hee, eold, enl, enr, lvold, rvold, a, b, c, d, s_eold, s_enl, s_enr, hold,
    s_lvold, s_rvold, s_a, s_b, s_c, s_d, ?_, me, ma, mb, mc, hE, rA', rB', rC', rD'⟩
  intro hfar
  have hsep : [(l, m.β 1 (m.β 2 l)), (m.β 2 l, m.β 1 l)].Pairwise (Far (SameCell (g3v (m.unlinkI 2 l)) m.n)) :=
    pairwise_two hfar
  have hG1 : ∀ e, SameCell (g3v m) m.n l e ↔ (SameCell (g3v (m.unlinkI 2 l)) m.n l e ∨
      SameCell (g3v (m.unlinkI 2 l)) m.n (m.β 1 (m.β 2 l)) e) := by
    intro e; rw [hv]
    exact glue_sep_pair eqV hsep (pq := (l, m.β 1 (m.β 2 l))) (by simp) e
  have hG2 : ∀ e, SameCell (g3v m) m.n (m.β 2 l) e ↔ (SameCell (g3v (m.unlinkI 2 l)) m.n (m.β 2 l) e ∨
      SameCell (g3v (m.unlinkI 2 l)) m.n (m.β 1 l) e) := by
    intro e; rw [hv]
    exact glue_sep_pair eqV hsep (pq := (m.β 2 l, m.β 1 l)) (by simp) e
  have u1 := isMinOf_union (G := SameCell (g3v m) m.n) hG1 s_a s_b
  have u2 := isMinOf_union (G := SameCell (g3v m) m.n) hG2 s_d s_c
  have z1 := s_lvold.ne_zero hwf hl0 hln
  have z2 := s_rvold.ne_zero hwf hne hrn
  have z3 := s_a.ne_zero hwf1 hl0 (by rw [hn1]; exact hln)
  have z4 := s_b.ne_zero hwf1 hbr (by rw [hn1]; exact han)
  have z5 := s_d.ne_zero hwf1 hne (by rw [hn1]; exact hrn)
  have z6 := s_c.ne_zero hwf1 hbl (by rw [hn1]; exact hbn)
  exact ⟨IsMinOf.unique s_lvold u1 z1 (by omega), IsMinOf.unique s_rvold u2 z2 (by omega)⟩


/-! ## 3-sew: the face merge and the edge partition (closed faces) -/

theorem cyc_free {m m1 : Map X} {i j d e L : Nat} (c : Cyc m i d L)
    (hL : Linked3 m m1 (walkPairs m i j L d e)) : ∀ t, m.β 3 (it m i t d) = 0 := by
  intro t
  obtain ⟨s, hs, he⟩ := c.mod t
  rw [he]
  exact (hL.pairs (it m i s d, it m j s e) ((mem_walkPairs L d e _).2 ⟨s, hs, rfl⟩)).2.2.1

theorem cyc_free_r {m m1 : Map X} {i j d e L : Nat} (c : Cyc m j e L)
    (hL : Linked3 m m1 (walkPairs m i j L d e)) : ∀ t, m.β 3 (it m j t e) = 0 := by
  intro t
  obtain ⟨s, hs, he⟩ := c.mod t
  rw [he]
  exact (hL.pairs (it m i s d, it m j s e) ((mem_walkPairs L d e _).2 ⟨s, hs, rfl⟩)).2.2.2.1

/-- **C05, 3-sew at cell level: faces and edges** (closed left face — the right one is then closed
    with the same number of darts, C02).  The topology is that of `three_link`, which 3-links
    exactly the pairs `(β1^t ld, β0^t rd)`, `t < L`.  The two face identifiers the code computes (the
    minima of its two face walks) are the smallest darts of the two old face cells; the new face
    partition is the old one with these two faces united; the identifier merged into is the smallest
    dart of the united face.  The new edge partition is the old one with the edge cells of each
    linked pair united. -/
theorem C05_threeSew3_faces (cfg : Cfg X) (m m' : Map X) (ld rd : Nat) (u : Unit)
    (hwf : WF 4 m) (hl : C02.InUse m ld) (hr : C02.InUse m rd) (hne : ld ≠ rd) (hfc : m.fc = 0)
    (hclosed : ∀ t, it m 1 t ld ≠ 0)
    (h : run (threeSew3 cfg m.n ld rd) m = (.ok u, m')) :
    ∃ m1 L lface rface mf,
      run (threeLink3 (X := X) m.n ld rd) m = (.ok (), m1) ∧ WF 4 m1 ∧ SameTopo m1 m' ∧ 0 < L ∧
      Linked3 m m1 (walkPairs m 1 0 L ld rd) ∧ Cyc m 1 ld L ∧ Cyc m 0 rd L ∧
      IsFid3 m ld lface ∧ IsFid3 m rd rface ∧
      (∀ d e, SameCell (g3f m1) m.n d e ↔ Glue (SameCell (g3f m) m.n) [(ld, rd)] d e) ∧
      IsFid3 m1 ld (min lface rface) ∧
      MergedIn cfg (fStores cfg) (min lface rface) lface rface m1 mf ∧
      (∀ d e, SameCell (g3e m1) m.n d e ↔ Glue (SameCell (g3e m) m.n) (walkPairs m 1 0 L ld rd) d e) := by
  obtain ⟨hl0, hln, hlu⟩ := hl
  obtain ⟨hr0, hrn, hru⟩ := hr
  obtain ⟨lo, ro, es, vs, m1, mf, me, hfo, hC, hlink, hF, hE, hV, htopo⟩ :=
    C05_threeSew3_effect cfg m.n ld rd m m' u hfc h
  obtain ⟨hw1, hg, _, _⟩ := threeLink3_ok hwf hl0 hr0 hln hrn hlu hru hne hlink
  obtain ⟨L, hL0, hL, hpl, hpr, _⟩ := threeLink3_linked_closed hwf.toSized hl0 hr0 hclosed hlink
  have cl : Cyc m 1 ld L := ⟨hL0, hpl, hclosed⟩
  have cr : Cyc m 0 rd L := ⟨hL0, hpr, C02.periodic_never_null (hwf.null 0 (by omega)) hL0 hpr hr0⟩
  have d10 : Dir 1 0 := Or.inl ⟨rfl, rfl⟩
  have d01 : Dir 0 1 := Or.inr ⟨rfl, rfl⟩
  have fl := cyc_free cl hL
  have fr := cyc_free_r cr hL
  -- the two face walks of the code
  unfold faceOrbits3 at hfo
  obtain ⟨lo', h1, hfo⟩ := run_ro_bind_ok (readOnly_bfs _ (readOnly_gen3_custom _) _ _ _ _) hfo
  obtain ⟨ro', h2, hfo⟩ := run_ro_bind_ok (readOnly_bfs _ (readOnly_gen3_custom _) _ _ _ _) hfo
  obtain ⟨hp, _⟩ := run_pure_ok hfo
  simp only [Prod.mk.injEq] at hp
  obtain ⟨rfl, rfl⟩ := hp
  have o1 := (face_orbit_cycle (X := X) hwf d10 hl0 hln cl).1
  have o2 := (face_orbit_cycle (X := X) hwf d01 hr0 hrn cr).1
  have e1 : lo = bfsPure (gIJ m 1 0) (m.n + 1) [ld] [0, ld] [] := by
    have : run (orbitWith m.n (gen3 (X := X) (.custom [1, 0])) ld) m = (.ok lo, m) := h1
    rw [o1] at this; simp at this; exact this.symm
  have e2 : ro = bfsPure (gIJ m 0 1) (m.n + 1) [rd] [0, rd] [] := by
    have : run (orbitWith m.n (gen3 (X := X) (.custom [0, 1])) rd) m = (.ok ro, m) := h2
    rw [o2] at this; simp at this; exact this.symm
  have s_l : IsFid3 m ld (listMin lo ld) := by rw [e1]; exact face_min_cycle hwf d10 hl0 hln cl fl
  have s_r : IsFid3 m rd (listMin ro rd) := by rw [e2]; exact face_min_cycle hwf d01 hr0 hrn cr fr
  -- the face partition
  have eqF := sameCell_equiv (g3f m) m.n
  have hfaces : ∀ d e, SameCell (g3f m1) m.n d e ↔ Glue (SameCell (g3f m) m.n) [(ld, rd)] d e := by
    intro d e
    have := cells_linked3 (base := fun m x => [m.β 1 x, m.β 0 x]) (m := m) (m' := m1)
      (fun x => by simp only [hL.other 1 x (by omega), hL.other 0 x (by omega)]) hL d e
    rw [show gB3 (fun m x => [m.β 1 x, m.β 0 x]) m1 = g3f m1 from rfl,
      show gB3 (fun m x => [m.β 1 x, m.β 0 x]) m = g3f m from rfl] at this
    rw [this]
    refine glue_same_cells eqF (fun pq hm => ?_) ⟨(ld, rd), (mem_walkPairs L ld rd _).2 ⟨0, hL0, rfl⟩⟩ d e
    obtain ⟨t, _, rfl⟩ := (mem_walkPairs L ld rd pq).1 hm
    exact ⟨.symm ((face_cell_cycle hwf d10 hln cl fl _).2 ⟨t, rfl⟩),
      .symm ((face_cell_cycle hwf d01 hrn cr fr _).2 ⟨t, rfl⟩)⟩
  have hG : ∀ e, SameCell (g3f m1) m.n ld e ↔ (SameCell (g3f m) m.n ld e ∨ SameCell (g3f m) m.n rd e) := by
    intro e; rw [hfaces]
    exact glue_sep_pair eqF (ps := [(ld, rd)]) (by simp) (pq := (ld, rd)) (by simp) e
  have s_new : IsFid3 m1 ld (min (listMin lo ld) (listMin ro rd)) := by
    unfold IsFid3; rw [hL.n]; exact isMinOf_union hG s_l s_r
  have hedges : ∀ d e, SameCell (g3e m1) m.n d e ↔ Glue (SameCell (g3e m) m.n) (walkPairs m 1 0 L ld rd) d e := by
    intro d e
    exact cells_linked3 (base := fun m x => [m.β 2 x]) (m := m) (m' := m1)
      (fun x => by simp only [hL.other 2 x (by omega)]) hL d e
  exact ⟨m1, L, listMin lo ld, listMin ro rd, mf, hlink, hw1, htopo, hL0, hL, cl, cr, s_l, s_r, hfaces, s_new, hF,
    hedges⟩

/-! ## 3-sew: vertices and edges, the collected identifier pairs -/

/-- what the collecting loop of `three_sew` records, pair by pair, on closed faces: the edge ids of
    the two darts, and the vertex id of the head of the left dart with the vertex id of the right
    dart — each the smallest dart of its cell -/
theorem collected_ids {m : Map X} (hwf : WF 4 m) :
    ∀ {zs es vs : List (Nat × Nat)}, Collected m.n m zs es vs →
      (∀ lr, lr ∈ zs → lr.1 ≠ 0 ∧ lr.1 < m.n ∧ lr.2 ≠ 0 ∧ lr.2 < m.n ∧ m.β 1 lr.1 ≠ 0 ∧ m.β 0 lr.1 ≠ 0) →
      (∀ p, p ∈ es → ∃ lr, lr ∈ zs ∧ IsEid3 m lr.1 p.1 ∧ IsEid3 m lr.2 p.2) ∧
      (∀ lr, lr ∈ zs → ∃ p, p ∈ es ∧ IsEid3 m lr.1 p.1 ∧ IsEid3 m lr.2 p.2) ∧
      (∀ p, p ∈ vs → ∃ lr, lr ∈ zs ∧ IsVid3 m (m.β 1 lr.1) p.1 ∧ IsVid3 m lr.2 p.2) ∧
      (∀ lr, lr ∈ zs → ∃ p, p ∈ vs ∧ IsVid3 m (m.β 1 lr.1) p.1 ∧ IsVid3 m lr.2 p.2) := by
  intro zs es vs hC
  induction hC with
  | nil => intro _; exact ⟨fun p h => absurd h (by simp), fun p h => absurd h (by simp),
      fun p h => absurd h (by simp), fun p h => absurd h (by simp)⟩
  | @cons l r rest es vs es' vs' hP _ ih =>
      intro hz
      obtain ⟨i1, i2, i3, i4⟩ := ih (fun lr hm => hz lr (List.mem_cons_of_mem _ hm))
      obtain ⟨hl0, hln, hr0, hrn, h1, h0⟩ := hz (l, r) (by simp)
      obtain ⟨el, er, v1, v2, hel, her, hv1, hv2, hes, hvs⟩ := hP
      rw [if_neg h1] at hv1
      have s1 := (edgeId3_spec hwf hl0 hln hel).2
      have s2 := (edgeId3_spec hwf hr0 hrn her).2
      have s3 := (vertexId3_spec hwf h1 (hwf.range 1 (by omega) l hln) hv1).2
      have s4 := (vertexId3_spec hwf hr0 hrn hv2).2
      have hvs' : vs = [(v1, v2)] := by
        rcases hvs with ⟨_, k⟩ | ⟨k, _⟩
        · exact k
        · exact absurd k h0
      subst hes hvs'
      refine ⟨?_, ?_, ?_, ?_⟩
      · intro p hp
        rcases List.mem_append.1 hp with hp | hp
        · have : p = (el, er) := by simpa using hp
          subst this; exact ⟨(l, r), by simp, s1, s2⟩
        · obtain ⟨lr, hm, k⟩ := i1 p hp
          exact ⟨lr, List.mem_cons_of_mem _ hm, k⟩
      · intro lr hm
        rcases List.mem_cons.1 hm with rfl | hm
        · exact ⟨(el, er), by simp, s1, s2⟩
        · obtain ⟨p, hp, k⟩ := i2 lr hm
          exact ⟨p, List.mem_append_right _ hp, k⟩
      · intro p hp
        rcases List.mem_append.1 hp with hp | hp
        · have : p = (v1, v2) := by simpa using hp
          subst this; exact ⟨(l, r), by simp, s3, s4⟩
        · obtain ⟨lr, hm, k⟩ := i3 p hp
          exact ⟨lr, List.mem_cons_of_mem _ hm, k⟩
      · intro lr hm
        rcases List.mem_cons.1 hm with rfl | hm
        · exact ⟨(v1, v2), by simp, s3, s4⟩
        · obtain ⟨p, hp, k⟩ := i4 lr hm
          exact ⟨p, List.mem_append_right _ hp, k⟩

/-- **C05, 3-sew at cell level: vertices and edges** (closed faces).  With `ps` the pairs
    `(β1^t ld, β0^t rd)`, `t < L`, that `three_link` links:
    * the zipped face walks of the code list exactly `ps`;
    * the new edge partition is the old one with `l — r` united for every `(l, r) ∈ ps`, the new
      vertex partition the old one with `β1 l — r` united for every `(l, r) ∈ ps`;
    * the collected edge (vertex) identifier pairs are, pair by pair, the smallest darts of the edge
      cells of `l` and `r` (of the vertex cells of `β1 l` and `r`);
    * under the property's proviso — no old cell takes part in two of these unions — the identifier
      each pair is merged into, `min` of the two, is the smallest dart of the united cell.
    (Data placement between these identifiers: `C05_threeSew3_effect`, `C05_threeSew3_vertices`.) -/
theorem C05_threeSew3_cells (cfg : Cfg X) (m m' : Map X) (ld rd : Nat) (u : Unit)
    (hwf : WF 4 m) (hl : C02.InUse m ld) (hr : C02.InUse m rd) (hne : ld ≠ rd) (hfc : m.fc = 0)
    (hclosed : ∀ t, it m 1 t ld ≠ 0)
    (h : run (threeSew3 cfg m.n ld rd) m = (.ok u, m')) :
    ∃ m1 L lo ro es vs,
      run (threeLink3 (X := X) m.n ld rd) m = (.ok (), m1) ∧ WF 4 m1 ∧ SameTopo m1 m' ∧
      run (faceOrbits3 m.n ld rd) m = (.ok (lo, ro), m) ∧ Collected m.n m (lo.zip ro) es vs ∧
      (∀ pq, pq ∈ lo.zip ro ↔ pq ∈ walkPairs m 1 0 L ld rd) ∧
      -- partitions
      (∀ d e, SameCell (g3e m1) m.n d e ↔ Glue (SameCell (g3e m) m.n) (walkPairs m 1 0 L ld rd) d e) ∧
      (∀ d e, SameCell (g3v m1) m.n d e ↔
        Glue (SameCell (g3v m) m.n) (pairsA m (walkPairs m 1 0 L ld rd)) d e) ∧
      -- the collected identifiers are cell minima, pair by pair
      (∀ p, p ∈ es → ∃ lr, lr ∈ walkPairs m 1 0 L ld rd ∧ IsEid3 m lr.1 p.1 ∧ IsEid3 m lr.2 p.2) ∧
      (∀ lr, lr ∈ walkPairs m 1 0 L ld rd → ∃ p, p ∈ es ∧ IsEid3 m lr.1 p.1 ∧ IsEid3 m lr.2 p.2) ∧
      (∀ p, p ∈ vs → ∃ lr, lr ∈ walkPairs m 1 0 L ld rd ∧ IsVid3 m (m.β 1 lr.1) p.1 ∧ IsVid3 m lr.2 p.2) ∧
      (∀ lr, lr ∈ walkPairs m 1 0 L ld rd → ∃ p, p ∈ vs ∧ IsVid3 m (m.β 1 lr.1) p.1 ∧ IsVid3 m lr.2 p.2) ∧
      -- the proviso, per cell kind: the merged-into identifier is the minimum of the united cell
      ((walkPairs m 1 0 L ld rd).Pairwise (Far (SameCell (g3e m) m.n)) →
        ∀ lr, lr ∈ walkPairs m 1 0 L ld rd → ∀ a b, IsEid3 m lr.1 a → IsEid3 m lr.2 b →
          IsEid3 m1 lr.1 (min a b)) ∧
      ((pairsA m (walkPairs m 1 0 L ld rd)).Pairwise (Far (SameCell (g3v m) m.n)) →
        ∀ lr, lr ∈ walkPairs m 1 0 L ld rd → ∀ a b, IsVid3 m (m.β 1 lr.1) a → IsVid3 m lr.2 b →
          IsVid3 m1 (m.β 1 lr.1) (min a b)) := by
  obtain ⟨hl0, hln, hlu⟩ := hl
  obtain ⟨hr0, hrn, hru⟩ := hr
  obtain ⟨lo, ro, es, vs, m1, mf, me, hfo, hC, hlink, hF, hE, hV, htopo⟩ :=
    C05_threeSew3_effect cfg m.n ld rd m m' u hfc h
  obtain ⟨hw1, hg, _, hshape⟩ := threeLink3_ok hwf hl0 hr0 hln hrn hlu hru hne hlink
  obtain ⟨L, hL0, hL, hpl, hpr, hminl⟩ := threeLink3_linked_closed hwf.toSized hl0 hr0 hclosed hlink
  have cl : Cyc m 1 ld L := ⟨hL0, hpl, hclosed⟩
  have cr : Cyc m 0 rd L := ⟨hL0, hpr, C02.periodic_never_null (hwf.null 0 (by omega)) hL0 hpr hr0⟩
  have d10 : Dir 1 0 := Or.inl ⟨rfl, rfl⟩
  have d01 : Dir 0 1 := Or.inr ⟨rfl, rfl⟩
  -- minimality of the period on the right-hand side (C02: the shapes agree)
  have hminr : ∀ t, 0 < t → t < L → it m 0 t rd ≠ rd := by
    rcases hshape with ⟨L', hL'0, hp', _, hmin'⟩ | ⟨F, _, hF0, _⟩
    · have : L' = L := by
        rcases Nat.lt_trichotomy L' L with hh | hh | hh
        · exact absurd hp' (hminl L' hL'0 hh)
        · exact hh
        · exact absurd hpl (hmin' L hL0 hh).1
      subst this
      intro t h0 ht; exact (hmin' t h0 ht).2.2.1
    · exact absurd hF0 (hclosed F)
  -- the two face walks of the code
  have hfo' := hfo
  unfold faceOrbits3 at hfo
  obtain ⟨lo', h1, hfo⟩ := run_ro_bind_ok (readOnly_bfs _ (readOnly_gen3_custom _) _ _ _ _) hfo
  obtain ⟨ro', h2, hfo⟩ := run_ro_bind_ok (readOnly_bfs _ (readOnly_gen3_custom _) _ _ _ _) hfo
  obtain ⟨hp, _⟩ := run_pure_ok hfo
  simp only [Prod.mk.injEq] at hp
  obtain ⟨rfl, rfl⟩ := hp
  have o1 := (face_orbit_cycle (X := X) hwf d10 hl0 hln cl).1
  have o2 := (face_orbit_cycle (X := X) hwf d01 hr0 hrn cr).1
  have e1 : lo = bfsPure (gIJ m 1 0) (m.n + 1) [ld] [0, ld] [] := by
    have : run (orbitWith m.n (gen3 (X := X) (.custom [1, 0])) ld) m = (.ok lo, m) := h1
    rw [o1] at this; simp at this; exact this.symm
  have e2 : ro = bfsPure (gIJ m 0 1) (m.n + 1) [rd] [0, rd] [] := by
    have : run (orbitWith m.n (gen3 (X := X) (.custom [0, 1])) rd) m = (.ok ro, m) := h2
    rw [o2] at this; simp at this; exact this.symm
  have hzip : ∀ pq, pq ∈ lo.zip ro ↔ pq ∈ walkPairs m 1 0 L ld rd := by
    intro pq; rw [e1, e2]
    exact zip_face_walks hwf hl0 hr0 hln hrn cl cr hminl hminr pq
  -- facts about the linked darts
  have hps : ∀ lr, lr ∈ walkPairs m 1 0 L ld rd →
      lr.1 ≠ 0 ∧ lr.1 < m.n ∧ lr.2 ≠ 0 ∧ lr.2 < m.n ∧ m.β 1 lr.1 ≠ 0 ∧ m.β 0 lr.1 ≠ 0 ∧ m.β 1 lr.2 ≠ 0 := by
    intro lr hm
    obtain ⟨_, _, _, _, a5, a6, a7, a8⟩ := hL.pairs lr hm
    obtain ⟨t, ht, rfl⟩ := (mem_walkPairs L ld rd lr).1 hm
    refine ⟨a5, a7, a6, a8, ?_, ?_, ?_⟩
    · show m.β 1 (it m 1 t ld) ≠ 0
      rw [← it_succ']; exact cl.nz _
    · show m.β 0 (it m 1 t ld) ≠ 0
      rw [cl.pred hwf d10 hln t]; exact cl.nz _
    · show m.β 1 (it m 0 t rd) ≠ 0
      rw [cr.pred hwf d01 hrn t]; exact cr.nz _
  obtain ⟨c1, c2, c3, c4⟩ := collected_ids hwf hC (fun lr hm => by
    obtain ⟨a1, a2, a3, a4, a5, a6, _⟩ := hps lr ((hzip lr).1 hm)
    exact ⟨a1, a2, a3, a4, a5, a6⟩)
  -- partitions
  have hedges : ∀ d e, SameCell (g3e m1) m.n d e ↔ Glue (SameCell (g3e m) m.n) (walkPairs m 1 0 L ld rd) d e := by
    intro d e
    exact cells_linked3 (base := fun m x => [m.β 2 x]) (m := m) (m' := m1)
      (fun x => by simp only [hL.other 2 x (by omega)]) hL d e
  have hverts : ∀ d e, SameCell (g3v m1) m.n d e ↔
      Glue (SameCell (g3v m) m.n) (pairsA m (walkPairs m 1 0 L ld rd)) d e := by
    intro d e
    rw [vertex_cells_linked3 hwf hw1 hL (fun pq hm => ⟨(hps pq hm).2.2.2.2.1, (hps pq hm).2.2.2.2.2.2⟩) d e]
    constructor
    · exact Glue.mono fun x hx => (pairsV3_closed hwf hln hrn cl cr x).1 hx
    · exact Glue.mono fun x hx => (pairsV3_closed hwf hln hrn cl cr x).2 hx
  refine ⟨m1, L, lo, ro, es, vs, hlink, hw1, htopo, hfo', hC, hzip, hedges, hverts, ?_, ?_, ?_, ?_, ?_, ?_⟩
  · intro p hp
    obtain ⟨lr, hm, k⟩ := c1 p hp
    exact ⟨lr, (hzip lr).1 hm, k⟩
  · intro lr hm
    exact c2 lr ((hzip lr).2 hm)
  · intro p hp
    obtain ⟨lr, hm, k⟩ := c3 p hp
    exact ⟨lr, (hzip lr).1 hm, k⟩
  · intro lr hm
    exact c4 lr ((hzip lr).2 hm)
  · intro hfar lr hm a b ha hb
    have hG : ∀ e, SameCell (g3e m1) m.n lr.1 e ↔ (SameCell (g3e m) m.n lr.1 e ∨ SameCell (g3e m) m.n lr.2 e) := by
      intro e; rw [hedges]
      exact glue_sep_pair (sameCell_equiv _ _) hfar hm e
    unfold IsEid3; rw [hL.n]
    exact isMinOf_union hG ha hb
  · intro hfar lr hm a b ha hb
    have hmem : (m.β 1 lr.1, lr.2) ∈ pairsA m (walkPairs m 1 0 L ld rd) := List.mem_map.2 ⟨lr, hm, rfl⟩
    have hG : ∀ e, SameCell (g3v m1) m.n (m.β 1 lr.1) e ↔
        (SameCell (g3v m) m.n (m.β 1 lr.1) e ∨ SameCell (g3v m) m.n lr.2 e) := by
      intro e; rw [hverts]
      exact glue_sep_pair (sameCell_equiv _ _) hfar (pq := (m.β 1 lr.1, lr.2)) hmem e
    unfold IsVid3; rw [hL.n]
    exact isMinOf_union hG ha hb

/-! ## 3-unsew: the partitions read backwards, the face split -/

/-- **C05, 3-unsew at cell level** (mirrored map, closed left face).  `rd = β3 ld`; `m1` is the map
    after `three_unlink`: `m` is `m1` with exactly the pairs `(β1^t ld, β0^t rd)`, `t < L`, 3-linked
    (re-linking what was unlinked gives back β), so the OLD face / edge / vertex partitions are the
    new ones with the stated pairs united; the zipped face walks of the code (computed on `m1`)
    list exactly these pairs; the two face identifiers split INTO are the smallest darts of the two
    new faces and the identifier split FROM, `min` of the two, is the smallest dart of the old
    face.  (The edge / vertex identifiers inside the chain `UnsewnPairs` are computed by
    `edge_id_transac` / `vertex_id_transac` on maps with the topology of `m1`, hence cell minima of
    `m1` by `C05_edgeId3_is_cell_min` / `C05_vertexId3_is_cell_min`.) -/
theorem C05_threeUnsew3_cells (cfg : Cfg X) (m m' : Map X) (ld : Nat) (u : Unit)
    (hwf : WF 4 m) (hM : Mirror m) (hl : C02.InUse m ld) (hfc : m.fc = 0)
    (hclosed : ∀ t, it m 1 t ld ≠ 0)
    (h : run (threeUnsew3 cfg m.n ld) m = (.ok u, m')) :
    ∃ m1 L lo ro mf,
      run (threeUnlink3 (X := X) m.n ld) m = (.ok (), m1) ∧ WF 4 m1 ∧ SameTopo m1 m' ∧ m.β 3 ld ≠ 0 ∧
      Linked3 m1 m (walkPairs m 1 0 L ld (m.β 3 ld)) ∧
      run (faceOrbits3 m.n ld (m.β 3 ld)) m1 = (.ok (lo, ro), m1) ∧
      (∀ pq, pq ∈ lo.zip ro ↔ pq ∈ walkPairs m 1 0 L ld (m.β 3 ld)) ∧
      (∀ d e, SameCell (g3f m) m.n d e ↔ Glue (SameCell (g3f m1) m.n) [(ld, m.β 3 ld)] d e) ∧
      (∀ d e, SameCell (g3e m) m.n d e ↔
        Glue (SameCell (g3e m1) m.n) (walkPairs m 1 0 L ld (m.β 3 ld)) d e) ∧
      (∀ d e, SameCell (g3v m) m.n d e ↔
        Glue (SameCell (g3v m1) m.n) (pairsA m (walkPairs m 1 0 L ld (m.β 3 ld))) d e) ∧
      IsFid3 m1 ld (listMin lo ld) ∧ IsFid3 m1 (m.β 3 ld) (listMin ro (m.β 3 ld)) ∧
      IsFid3 m ld (min (listMin lo ld) (listMin ro (m.β 3 ld))) ∧
      SplitIn cfg (fStores cfg) (listMin lo ld) (listMin ro (m.β 3 ld))
        (min (listMin lo ld) (listMin ro (m.β 3 ld))) m1 mf ∧
      UnsewnPairs cfg m.n (lo.zip ro) mf m' := by
  obtain ⟨hl0, hln, hlu⟩ := hl
  obtain ⟨m1, lo, ro, mf, hunl, hfo, hF, hU, htopo⟩ := C05_threeUnsew3_effect cfg m.n ld m m' u hfc h
  obtain ⟨L, hne, hL, cl, cr, hminl, hminr, hw1⟩ := threeUnlink3_unlinked_closed hwf hM hln hclosed hunl
  have hrn : m.β 3 ld < m.n := hwf.range 3 (by omega) ld hln
  have d10 : Dir 1 0 := Or.inl ⟨rfl, rfl⟩
  have d01 : Dir 0 1 := Or.inr ⟨rfl, rfl⟩
  have hn1 : m1.n = m.n := hL.n.symm
  have e1 : ∀ x, m1.β 1 x = m.β 1 x := fun x => (hL.other 1 x (by omega)).symm
  have e0 : ∀ x, m1.β 0 x = m.β 0 x := fun x => (hL.other 0 x (by omega)).symm
  have i1 : ∀ t x, it m1 1 t x = it m 1 t x := it_congr e1
  have i0 : ∀ t x, it m1 0 t x = it m 0 t x := it_congr e0
  have wp : walkPairs m1 1 0 L ld (m.β 3 ld) = walkPairs m 1 0 L ld (m.β 3 ld) := walkPairs_congr e1 e0 _ _ _
  have hL' : Linked3 m1 m (walkPairs m1 1 0 L ld (m.β 3 ld)) := by rw [wp]; exact hL
  have cl1 : Cyc m1 1 ld L := ⟨cl.pos, by rw [i1]; exact cl.per, fun t => by rw [i1]; exact cl.nz t⟩
  have cr1 : Cyc m1 0 (m.β 3 ld) L := ⟨cr.pos, by rw [i0]; exact cr.per, fun t => by rw [i0]; exact cr.nz t⟩
  have fl := cyc_free cl1 hL'
  have fr := cyc_free_r cr1 hL'
  have hln1 : ld < m1.n := by rw [hn1]; exact hln
  have hrn1 : m.β 3 ld < m1.n := by rw [hn1]; exact hrn
  -- the two face walks of the code, on `m1`
  have hfo' := hfo
  unfold faceOrbits3 at hfo
  obtain ⟨lo', h1, hfo⟩ := run_ro_bind_ok (readOnly_bfs _ (readOnly_gen3_custom _) _ _ _ _) hfo
  obtain ⟨ro', h2, hfo⟩ := run_ro_bind_ok (readOnly_bfs _ (readOnly_gen3_custom _) _ _ _ _) hfo
  obtain ⟨hp, _⟩ := run_pure_ok hfo
  simp only [Prod.mk.injEq] at hp
  obtain ⟨rfl, rfl⟩ := hp
  have o1 := (face_orbit_cycle (X := X) hw1 d10 hl0 hln1 cl1).1
  have o2 := (face_orbit_cycle (X := X) hw1 d01 hne hrn1 cr1).1
  rw [hn1] at o1 o2
  have eq1 : lo = bfsPure (gIJ m1 1 0) (m.n + 1) [ld] [0, ld] [] := by
    have : run (orbitWith m.n (gen3 (X := X) (.custom [1, 0])) ld) m1 = (.ok lo, m1) := h1
    rw [o1] at this; simp at this; exact this.symm
  have eq2 : ro = bfsPure (gIJ m1 0 1) (m.n + 1) [m.β 3 ld] [0, m.β 3 ld] [] := by
    have : run (orbitWith m.n (gen3 (X := X) (.custom [0, 1])) (m.β 3 ld)) m1 = (.ok ro, m1) := h2
    rw [o2] at this; simp at this; exact this.symm
  have hzip : ∀ pq, pq ∈ lo.zip ro ↔ pq ∈ walkPairs m 1 0 L ld (m.β 3 ld) := by
    intro pq
    rw [eq1, eq2, ← wp, ← hn1]
    exact zip_face_walks hw1 hl0 hne hln1 hrn1 cl1 cr1 (fun t h0 ht => by rw [i1]; exact hminl t h0 ht)
      (fun t h0 ht => by rw [i0]; exact hminr t h0 ht) pq
  have s_l : IsFid3 m1 ld (listMin lo ld) := by
    rw [eq1, ← hn1]; exact face_min_cycle hw1 d10 hl0 hln1 cl1 fl
  have s_r : IsFid3 m1 (m.β 3 ld) (listMin ro (m.β 3 ld)) := by
    rw [eq2, ← hn1]; exact face_min_cycle hw1 d01 hne hrn1 cr1 fr
  -- the partitions, read backwards
  have eqF := sameCell_equiv (g3f m1) m.n
  have hfaces : ∀ d e, SameCell (g3f m) m.n d e ↔ Glue (SameCell (g3f m1) m.n) [(ld, m.β 3 ld)] d e := by
    intro d e
    have := cells_linked3 (base := fun m x => [m.β 1 x, m.β 0 x]) (m := m1) (m' := m)
      (fun x => by simp only [e1, e0]) hL d e
    rw [show gB3 (fun m x => [m.β 1 x, m.β 0 x]) m = g3f m from rfl,
      show gB3 (fun m x => [m.β 1 x, m.β 0 x]) m1 = g3f m1 from rfl, hn1] at this
    rw [this]
    refine glue_same_cells eqF (fun pq hm => ?_)
      ⟨(ld, m.β 3 ld), (mem_walkPairs L ld _ _).2 ⟨0, cl.pos, rfl⟩⟩ d e
    obtain ⟨t, _, rfl⟩ := (mem_walkPairs L ld _ pq).1 hm
    have a := (face_cell_cycle hw1 d10 hln1 cl1 fl (it m 1 t ld)).2 ⟨t, (i1 t ld).symm⟩
    have b := (face_cell_cycle hw1 d01 hrn1 cr1 fr (it m 0 t (m.β 3 ld))).2 ⟨t, (i0 t _).symm⟩
    rw [hn1] at a b
    exact ⟨.symm a, .symm b⟩
  have hedges : ∀ d e, SameCell (g3e m) m.n d e ↔
      Glue (SameCell (g3e m1) m.n) (walkPairs m 1 0 L ld (m.β 3 ld)) d e := by
    intro d e
    have := cells_linked3 (base := fun m x => [m.β 2 x]) (m := m1) (m' := m)
      (fun x => by simp only [(hL.other 2 x (by omega)).symm]) hL d e
    rw [hn1] at this
    exact this
  have hps : ∀ lr, lr ∈ walkPairs m 1 0 L ld (m.β 3 ld) → m1.β 1 lr.1 ≠ 0 ∧ m1.β 1 lr.2 ≠ 0 := by
    intro lr hm
    obtain ⟨t, ht, rfl⟩ := (mem_walkPairs L ld _ lr).1 hm
    constructor
    · show m1.β 1 (it m 1 t ld) ≠ 0
      rw [e1, ← it_succ']; exact cl.nz _
    · show m1.β 1 (it m 0 t (m.β 3 ld)) ≠ 0
      rw [e1, cr.pred hwf d01 hrn t]; exact cr.nz _
  have hverts : ∀ d e, SameCell (g3v m) m.n d e ↔
      Glue (SameCell (g3v m1) m.n) (pairsA m (walkPairs m 1 0 L ld (m.β 3 ld))) d e := by
    intro d e
    have := vertex_cells_linked3 hw1 hwf hL hps d e
    rw [hn1] at this
    rw [this]
    have pa : ∀ ps, pairsA m1 ps = pairsA m ps := by
      intro ps; unfold pairsA; simp only [e1]
    have hcl := fun x => pairsV3_closed hw1 hln1 hrn1 cl1 cr1 x
    rw [wp, pa] at hcl
    constructor
    · exact Glue.mono fun x hx => (hcl x).1 hx
    · exact Glue.mono fun x hx => (hcl x).2 hx
  -- the old face identifier
  have hG : ∀ e, SameCell (g3f m) m.n ld e ↔ (SameCell (g3f m1) m.n ld e ∨ SameCell (g3f m1) m.n (m.β 3 ld) e) := by
    intro e; rw [hfaces]
    exact glue_sep_pair eqF (ps := [(ld, m.β 3 ld)]) (by simp) (pq := (ld, m.β 3 ld)) (by simp) e
  have s_old : IsFid3 m ld (min (listMin lo ld) (listMin ro (m.β 3 ld))) := by
    have a := s_l; have b := s_r
    unfold IsFid3 at a b ⊢
    rw [hn1] at a b
    exact isMinOf_union hG a b
  exact ⟨m1, L, lo, ro, mf, hunl, hw1, htopo, hne, hL, hfo', hzip, hfaces, hedges, hverts, s_l, s_r, s_old, hF, hU⟩

/-! ## non-vacuity -/

open HC.C02 (exMap exCfg)

example : (run (twoSew3 exCfg 16 7 11) exMap).1 = .ok () ∧ exMap.β 1 7 ≠ 0 ∧ exMap.β 1 11 ≠ 0 := by decide +kernel
example := C05_twoSew3_cells exCfg 16 exMap (run (twoSew3 exCfg 16 7 11) exMap).2 7 11 ()
  (by decide +kernel) (by decide +kernel) (by decide +kernel) (by decide) rfl (by decide +kernel) (by decide +kernel)
  (Prod.ext (by decide +kernel : (run (twoSew3 exCfg 16 7 11) exMap).1 = .ok ()) rfl)
/-- the square 2-sewn to the chain, then 2-unsewn again -/
def exSewn2 : Map Val := (run (twoSew3 exCfg 16 7 11) exMap).2
example : (run (twoUnsew3 exCfg 16 7) exSewn2).1 = .ok () ∧ exSewn2.β 1 7 ≠ 0 ∧ exSewn2.β 1 (exSewn2.β 2 7) ≠ 0 := by
  decide +kernel
example := C05_twoUnsew3_cells exCfg 16 exSewn2 (run (twoUnsew3 exCfg 16 7) exSewn2).2 7 ()
  (by decide +kernel) (by decide +kernel) (by decide +kernel) (by decide +kernel) (by decide +kernel)
  (Prod.ext (by decide +kernel : (run (twoUnsew3 exCfg 16 7) exSewn2).1 = .ok ()) rfl)
/-- the two triangles of `C02.exMap`: closed faces, 3-sewn along `(1, 4)` -/
example : ∀ t, it exMap 1 t 1 ≠ 0 :=
  C02.periodic_never_null (L := 3) (by decide +kernel) (by decide) (by decide +kernel) (by decide)
example := C05_threeSew3_faces exCfg exMap (run (threeSew3 exCfg 16 1 4) exMap).2 1 4 ()
  (by decide +kernel) (by decide +kernel) (by decide +kernel) (by decide) rfl
  (C02.periodic_never_null (L := 3) (by decide +kernel) (by decide) (by decide +kernel) (by decide))
  (Prod.ext (by decide +kernel : (run (threeSew3 exCfg 16 1 4) exMap).1 = .ok ()) rfl)
example := C05_threeSew3_cells exCfg exMap (run (threeSew3 exCfg 16 1 4) exMap).2 1 4 ()
  (by decide +kernel) (by decide +kernel) (by decide +kernel) (by decide) rfl
  (C02.periodic_never_null (L := 3) (by decide +kernel) (by decide) (by decide +kernel) (by decide))
  (Prod.ext (by decide +kernel : (run (threeSew3 exCfg 16 1 4) exMap).1 = .ok ()) rfl)
/-- the two triangles 3-sewn, then 3-unsewn at dart 2 -/
def exSewn3 : Map Val := (run (threeSew3 exCfg 16 1 4) exMap).2
example := C05_threeUnsew3_cells exCfg exSewn3 (run (threeUnsew3 exCfg exSewn3.n 2) exSewn3).2 2 ()
  (by decide +kernel) (by decide +kernel) (by decide +kernel) (by decide +kernel)
  (C02.periodic_never_null (L := 3) (by decide +kernel) (by decide) (by decide +kernel) (by decide))
  (Prod.ext (by decide +kernel : (run (threeUnsew3 exCfg exSewn3.n 2) exSewn3).1 = .ok ()) rfl)
example : IsEid3 exSewn2 7 7 :=
  C05_edgeId3_is_cell_min (m' := exSewn2) (n' := 16) (by decide +kernel) (by decide) (by decide +kernel)
    (Prod.ext (by decide +kernel : (run (edgeId3 16 7) exSewn2).1 = .ok 7) (readOnly_edgeId3 16 7 exSewn2))

end HC.C05
