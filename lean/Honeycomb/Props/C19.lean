/-
  C19 — geometric primitives and the skewness measure obey their contracts.

  All theorems are about the definitions of `Model/Geometry.lean` (the model tied to the Rust by the
  `geo` correspondence stream), instantiated
    (a) with an arbitrary field `K` (exact laws; ordered where an order is needed) and with `ℝ`
        (`unit_dir`/`normal_dir` with `Real.sqrt`),
    (b) with the rounded arithmetic `FlR fl` — the SAME model definitions evaluated with
        `x ⊕ y := fl (x + y)` … under the hypothesis structure `RoundModel fl u` (standard model of
        floating-point arithmetic without overflow/underflow; a hypothesis, not an axiom),
    (c) with `ℝ` for the skewness formula.

  HISTORY (D12, fixed).  `impl SubAssign<Vector2<T>> for Vector2<T>` used to read
  `self.0 -= rhs.0; self.0 -= rhs.0;`; this file then carried the proved negation of "compound assignment =
  binary operator" for that operator.  /repo commit 90eb331 repaired the code, the model follows it, and
  `C19_v2_subAssign_eq` is now the positive law like the 19 others.  The old behaviour survives only as a
  commented `example` about the OLD formula in the Examples section.

  NOT PROVED (validated by the float stream of tools/props/c19.py only, see SPEC["not_proved"]):
  * that the HARDWARE arithmetic is the idealised rounding `rnd 53` / `rnd 24` (round to nearest even, unbounded
    exponent; `Model/Rounding.lean`).  That `rnd p` satisfies `RoundModel` with u = 2⁻ᵖ, is odd, monotone and exact
    on p-bit numbers IS proved (`Lemmas/Rounding.lean`, `Props/C19b.lean`), so the `C19_fl_*` theorems are
    unconditional for it; the identification with the machine is validated by the `flop` stream, and overflow /
    underflow / subnormal results are excluded;
  * bit-for-bit clauses on the machine types (compound = binary, dot symmetric, cross antisymmetric):
    proved here for every arithmetic (`FlR fl` with `fl` arbitrary) as equalities of model terms, which
    is the content of "bit for bit" given that the Rust evaluates the same expression; the statement
    about the compiled code is validated, not proved;
  * accuracy of `hypot`/`sqrt`/`acos`: "`unit_dir` returns a vector of norm 1 ± 1e-12 (f64) / 1e-5 (f32)" and
    "skewness ≈ 0 / invariant up to 1e-9" are exact theorems over ℝ here and tolerance tests there;
  * the angle sum of a simple polygon (hypothesis `hsum` of `C19_skew_mem_Ico`), and that the corner angles
    of a convex polygon lie in ]0, pi[ (hypothesis `hθ`);
  * that the SIGN OF ZERO agrees in `cross(a,b)` and `-cross(b,a)` (it does not: `x - x = +0`, `-(+0) = -0`; `FlR`
    has a single zero, the float oracle compares values);
  * reversal of the face orientation is proved on the list of corner angles (`C19_skew_reverse`), not on the polygon.
-/
import Honeycomb.Model.Geometry
import Mathlib.Tactic.Ring
import Mathlib.Tactic.Linarith
import Mathlib.Tactic.Positivity
import Mathlib.Tactic.FieldSimp
import Mathlib.Analysis.Real.Sqrt

namespace HC.C19
open HC.Geo

/-! ## compound assignment = binary operator, in EVERY arithmetic

These hold by unfolding for any coordinate type with the operation (no law needed) — in particular for
machine floats: "bit for bit". -/
section AnyArithmetic
variable {α : Type}

theorem C19_v2_subAssign_eq [Sub α] (a b : V2 α) : V2.subAssign a b = V2.sub a b := rfl
theorem C19_v2_addAssign_eq [Add α] (a b : V2 α) : V2.addAssign a b = V2.add a b := rfl
theorem C19_v2_mulAssign_eq [Mul α] (a : V2 α) (k : α) : V2.mulAssign a k = V2.mul a k := rfl
theorem C19_v2_divAssign_eq [Div α] [OfNat α 0] [DecidableEq α] (a : V2 α) (k : α) :
    V2.divAssign a k = V2.div a k := rfl
theorem C19_v3_addAssign_eq [Add α] (a b : V3 α) : V3.addAssign a b = V3.add a b := rfl
theorem C19_v3_subAssign_eq [Sub α] (a b : V3 α) : V3.subAssign a b = V3.sub a b := rfl
theorem C19_v3_mulAssign_eq [Mul α] (a : V3 α) (k : α) : V3.mulAssign a k = V3.mul a k := rfl
theorem C19_v3_divAssign_eq [Div α] [OfNat α 0] [DecidableEq α] (a : V3 α) (k : α) :
    V3.divAssign a k = V3.div a k := rfl
theorem C19_p2_addVAssign_eq [Add α] (p : P2 α) (v : V2 α) : P2.addVAssign p v = P2.addV p v := rfl
theorem C19_p2_addVRef_eq [Add α] (p : P2 α) (v : V2 α) : P2.addVRef p v = P2.addV p v := rfl
theorem C19_p2_addVRefAssign_eq [Add α] (p : P2 α) (v : V2 α) : P2.addVRefAssign p v = P2.addV p v := rfl
theorem C19_p2_subVAssign_eq [Sub α] (p : P2 α) (v : V2 α) : P2.subVAssign p v = P2.subV p v := rfl
theorem C19_p2_subVRef_eq [Sub α] (p : P2 α) (v : V2 α) : P2.subVRef p v = P2.subV p v := rfl
theorem C19_p2_subVRefAssign_eq [Sub α] (p : P2 α) (v : V2 α) : P2.subVRefAssign p v = P2.subV p v := rfl
theorem C19_p3_addVAssign_eq [Add α] (p : P3 α) (v : V3 α) : P3.addVAssign p v = P3.addV p v := rfl
theorem C19_p3_addVRef_eq [Add α] (p : P3 α) (v : V3 α) : P3.addVRef p v = P3.addV p v := rfl
theorem C19_p3_addVRefAssign_eq [Add α] (p : P3 α) (v : V3 α) : P3.addVRefAssign p v = P3.addV p v := rfl
theorem C19_p3_subVAssign_eq [Sub α] (p : P3 α) (v : V3 α) : P3.subVAssign p v = P3.subV p v := rfl
theorem C19_p3_subVRef_eq [Sub α] (p : P3 α) (v : V3 α) : P3.subVRef p v = P3.subV p v := rfl
theorem C19_p3_subVRefAssign_eq [Sub α] (p : P3 α) (v : V3 α) : P3.subVRefAssign p v = P3.subV p v := rfl

end AnyArithmetic

/-! ## (a) exact laws over a field -/
section Exact
variable {K : Type} [Field K]

/-! ### Vector2 -/

theorem C19_v2_sub_self (v : V2 K) : V2.sub v v = ⟨0, 0⟩ := by
  simp [V2.sub]

theorem C19_v2_add_sub_cancel (v u : V2 K) : V2.sub (V2.add v u) v = u := by
  cases u; simp [V2.sub, V2.add]




theorem C19_v2_dot_comm (a b : V2 K) : V2.dot a b = V2.dot b a := by
  simp only [V2.dot]; ring

theorem C19_v2_neg_eq (a : V2 K) : V2.neg a = V2.sub ⟨0, 0⟩ a := by
  simp [V2.neg, V2.sub]

theorem C19_v2_div_ok_iff [DecidableEq K] (a : V2 K) (k : K) :
    V2.div a k = some (V2.divCore a k) ↔ k ≠ 0 := by
  unfold V2.div; split <;> simp_all

/-! ### Vector3 -/

theorem C19_v3_sub_self (v : V3 K) : V3.sub v v = ⟨0, 0, 0⟩ := by
  simp [V3.sub]

theorem C19_v3_add_sub_cancel (v u : V3 K) : V3.sub (V3.add v u) v = u := by
  cases u; simp [V3.sub, V3.add]


theorem C19_v3_dot_comm (a b : V3 K) : V3.dot a b = V3.dot b a := by
  simp only [V3.dot]; ring

theorem C19_v3_cross_antisymm (a b : V3 K) : V3.cross a b = V3.neg (V3.cross b a) := by
  simp only [V3.cross, V3.neg, V3.mk.injEq]
  refine ⟨?_, ?_, ?_⟩ <;> ring

theorem C19_v3_cross_dot_left (a b : V3 K) : V3.dot (V3.cross a b) a = 0 := by
  simp only [V3.cross, V3.dot]; ring

theorem C19_v3_cross_dot_right (a b : V3 K) : V3.dot (V3.cross a b) b = 0 := by
  simp only [V3.cross, V3.dot]; ring

theorem C19_v3_div_ok_iff [DecidableEq K] (a : V3 K) (k : K) :
    V3.div a k = some (V3.divCore a k) ↔ k ≠ 0 := by
  unfold V3.div; split <;> simp_all

/-! ### Vertex2 / Vertex3 -/


theorem C19_p2_sub_self (p : P2 K) : P2.sub p p = ⟨0, 0⟩ := by
  simp [P2.sub]

theorem C19_p2_add_sub_cancel (p : P2 K) (v : V2 K) : P2.sub (P2.addV p v) p = v := by
  cases v; simp [P2.sub, P2.addV]

theorem C19_p2_addV_subV_cancel (p : P2 K) (v : V2 K) : P2.subV (P2.addV p v) v = p := by
  cases p; simp [P2.subV, P2.addV]


theorem C19_p3_sub_self (p : P3 K) : P3.sub p p = ⟨0, 0, 0⟩ := by
  simp [P3.sub]

theorem C19_p3_add_sub_cancel (p : P3 K) (v : V3 K) : P3.sub (P3.addV p v) p = v := by
  cases v; simp [P3.sub, P3.addV]

theorem C19_p3_addV_subV_cancel (p : P3 K) (v : V3 K) : P3.subV (P3.addV p v) v = p := by
  cases p; simp [P3.subV, P3.addV]

/-! ### orientation (`cross_product_from_vertices`) -/

/-- twice the signed area of the triangle `a b c` (shoelace formula); positive = counter-clockwise -/
def shoelace2 (a b c : P2 K) : K :=
  (a.x * b.y - b.x * a.y) + (b.x * c.y - c.x * b.y) + (c.x * a.y - a.x * c.y)

theorem C19_orient_eq_shoelace (a b c : P2 K) : P2.orient a b c = shoelace2 a b c := by
  simp only [P2.orient, shoelace2]; ring

theorem C19_orient_swap (a b c : P2 K) : P2.orient a b c = -P2.orient a c b := by
  simp only [P2.orient]; ring

theorem C19_orient_cyclic (a b c : P2 K) : P2.orient a b c = P2.orient b c a := by
  simp only [P2.orient]; ring

/-- an affine map `p ↦ (m11·x + m12·y + tx, m21·x + m22·y + ty)` multiplies the orientation product by
    its determinant: orientation is preserved by translations, rotations, positive scalings and
    reversed by reflections -/
theorem C19_orient_affine (m11 m12 m21 m22 tx ty : K) (a b c : P2 K) :
    let f : P2 K → P2 K := fun p => ⟨m11 * p.x + m12 * p.y + tx, m21 * p.x + m22 * p.y + ty⟩
    P2.orient (f a) (f b) (f c) = (m11 * m22 - m12 * m21) * P2.orient a b c := by
  simp only [P2.orient]; ring

end Exact

section Ordered
variable {K : Type} [Field K] [LinearOrder K] [IsStrictOrderedRing K]

/-- counter-clockwise triple: positive signed area -/
def Ccw (a b c : P2 K) : Prop := 0 < shoelace2 a b c
/-- clockwise triple: negative signed area -/
def Cw (a b c : P2 K) : Prop := shoelace2 a b c < 0

omit [IsStrictOrderedRing K] in
theorem C19_orient_pos_iff_ccw (a b c : P2 K) : 0 < P2.orient a b c ↔ Ccw a b c := by
  rw [C19_orient_eq_shoelace]; rfl

omit [IsStrictOrderedRing K] in
theorem C19_orient_neg_iff_cw (a b c : P2 K) : P2.orient a b c < 0 ↔ Cw a b c := by
  rw [C19_orient_eq_shoelace]; rfl

theorem C19_cw_iff_ccw_swap (a b c : P2 K) : Cw a b c ↔ Ccw a c b := by
  rw [← C19_orient_neg_iff_cw, ← C19_orient_pos_iff_ccw, C19_orient_swap a b c]
  exact neg_lt_zero

/-! ### average -/

theorem C19_p2_average_comm (a b : P2 K) : P2.average a b = P2.average b a := by
  simp only [P2.average, P2.mk.injEq]
  exact ⟨by ring, by ring⟩

theorem C19_p3_average_comm (a b : P3 K) : P3.average a b = P3.average b a := by
  simp only [P3.average, P3.mk.injEq]
  exact ⟨by ring, by ring, by ring⟩

theorem mid_between (x y : K) :
    min x y ≤ (x + y) / 2 ∧ (x + y) / 2 ≤ max x y := by
  rcases le_total x y with h | h
  · rw [min_eq_left h, max_eq_right h]
    constructor <;> linarith
  · rw [min_eq_right h, max_eq_left h]
    constructor <;> linarith

theorem C19_p2_average_between (a b : P2 K) :
    (min a.x b.x ≤ (P2.average a b).x ∧ (P2.average a b).x ≤ max a.x b.x) ∧
    (min a.y b.y ≤ (P2.average a b).y ∧ (P2.average a b).y ≤ max a.y b.y) :=
  ⟨mid_between _ _, mid_between _ _⟩

theorem C19_p3_average_between (a b : P3 K) :
    (min a.x b.x ≤ (P3.average a b).x ∧ (P3.average a b).x ≤ max a.x b.x) ∧
    (min a.y b.y ≤ (P3.average a b).y ∧ (P3.average a b).y ≤ max a.y b.y) ∧
    (min a.z b.z ≤ (P3.average a b).z ∧ (P3.average a b).z ≤ max a.z b.z) :=
  ⟨mid_between _ _, mid_between _ _, mid_between _ _⟩

/-! ### `unit_dir` / `normal_dir`: failure iff null vector -/

theorem sq2_zero_iff (x y : K) : x * x + y * y = 0 ↔ x = 0 ∧ y = 0 := by
  constructor
  · intro h
    have hx := mul_self_nonneg x
    have hy := mul_self_nonneg y
    have hx0 : x * x = 0 := by linarith
    have hy0 : y * y = 0 := by linarith
    exact ⟨mul_self_eq_zero.mp hx0, mul_self_eq_zero.mp hy0⟩
  · rintro ⟨rfl, rfl⟩; simp

theorem sq3_zero_iff (x y z : K) : x * x + y * y + z * z = 0 ↔ x = 0 ∧ y = 0 ∧ z = 0 := by
  constructor
  · intro h
    have hx := mul_self_nonneg x
    have hy := mul_self_nonneg y
    have hz := mul_self_nonneg z
    have hx0 : x * x = 0 := by linarith
    have hy0 : y * y = 0 := by linarith
    have hz0 : z * z = 0 := by linarith
    exact ⟨mul_self_eq_zero.mp hx0, mul_self_eq_zero.mp hy0, mul_self_eq_zero.mp hz0⟩
  · rintro ⟨rfl, rfl, rfl⟩; simp

variable [DecidableEq K]

theorem C19_v2_unitDir_err_iff (v : V2 K) :
    V2.unitDirPre v = .error .invalidUnitDir ↔ v = ⟨0, 0⟩ := by
  cases v with
  | mk x y =>
    unfold V2.unitDirPre V2.normSq
    by_cases h : x * x + y * y = 0
    · simp only [h, if_true, true_iff, V2.mk.injEq]; exact (sq2_zero_iff x y).mp h
    · simp only [h, if_false, V2.mk.injEq]
      constructor
      · intro h'; cases h'
      · intro h'; exact absurd ((sq2_zero_iff x y).mpr h') h

theorem C19_v2_unitDir_ok_iff (v : V2 K) :
    V2.unitDirPre v = .ok (V2.normSq v, v) ↔ v ≠ ⟨0, 0⟩ := by
  rw [Ne, ← C19_v2_unitDir_err_iff]
  unfold V2.unitDirPre
  split <;> simp

theorem C19_v2_normalDir_err_iff (v : V2 K) :
    V2.normalDirPre v = .error .invalidNormDir ↔ v = ⟨0, 0⟩ := by
  cases v with
  | mk x y =>
    unfold V2.normalDirPre V2.unitDirPre V2.normSq
    by_cases h : -y * -y + x * x = 0
    · simp only [h, if_true, true_iff, V2.mk.injEq]
      have := (sq2_zero_iff (-y) x).mp h
      exact ⟨this.2, neg_eq_zero.mp this.1⟩
    · simp only [h, if_false, V2.mk.injEq]
      constructor
      · intro h'; cases h'
      · rintro ⟨rfl, rfl⟩; simp at h

/-- `normal_dir` succeeds on every non-null vector, with the quarter turn `(-y, x)` as direction -/
theorem C19_v2_normalDir_ok_iff (v : V2 K) :
    V2.normalDirPre v = .ok (V2.normSq (⟨-v.y, v.x⟩ : V2 K), ⟨-v.y, v.x⟩) ↔ v ≠ ⟨0, 0⟩ := by
  rw [Ne, ← C19_v2_normalDir_err_iff]
  unfold V2.normalDirPre V2.unitDirPre
  split <;> rename_i h <;> split at h <;> simp_all

theorem C19_v3_unitDir_err_iff (v : V3 K) :
    V3.unitDirPre v = .error .invalidUnitDir ↔ v = ⟨0, 0, 0⟩ := by
  cases v with
  | mk x y z =>
    unfold V3.unitDirPre V3.normSq
    by_cases h : x * x + y * y + z * z = 0
    · simp only [h, if_true, true_iff, V3.mk.injEq]; exact (sq3_zero_iff x y z).mp h
    · simp only [h, if_false, V3.mk.injEq]
      constructor
      · intro h'; cases h'
      · intro h'; exact absurd ((sq3_zero_iff x y z).mpr h') h

theorem C19_v3_unitDir_ok_iff (v : V3 K) :
    V3.unitDirPre v = .ok (V3.normSq v, v) ↔ v ≠ ⟨0, 0, 0⟩ := by
  rw [Ne, ← C19_v3_unitDir_err_iff]
  unfold V3.unitDirPre
  split <;> simp

end Ordered

/-! ### `unit_dir` / `normal_dir` over ℝ (with `Real.sqrt`) -/
section RealDir

/-- `Vector2::unit_dir` over ℝ: `unitDirPre` followed by `*self / norm` with `norm = √radicand` -/
noncomputable def unitDirR2 (v : V2 ℝ) : Except CoordsError (V2 ℝ) :=
  match V2.unitDirPre v with
  | .error e => .error e
  | .ok (s, d) => .ok (V2.divCore d (Real.sqrt s))

/-- `Vector2::normal_dir` over ℝ -/
noncomputable def normalDirR2 (v : V2 ℝ) : Except CoordsError (V2 ℝ) :=
  match V2.normalDirPre v with
  | .error e => .error e
  | .ok (s, d) => .ok (V2.divCore d (Real.sqrt s))

/-- `Vector3::unit_dir` over ℝ -/
noncomputable def unitDirR3 (v : V3 ℝ) : Except CoordsError (V3 ℝ) :=
  match V3.unitDirPre v with
  | .error e => .error e
  | .ok (s, d) => .ok (V3.divCore d (Real.sqrt s))

theorem C19_unitDirR2_err_iff (v : V2 ℝ) : unitDirR2 v = .error .invalidUnitDir ↔ v = ⟨0, 0⟩ := by
  rw [← C19_v2_unitDir_err_iff]
  unfold unitDirR2 V2.unitDirPre
  split <;> rename_i h <;> split at h <;> simp_all

theorem C19_normalDirR2_err_iff (v : V2 ℝ) : normalDirR2 v = .error .invalidNormDir ↔ v = ⟨0, 0⟩ := by
  rw [← C19_v2_normalDir_err_iff]
  unfold normalDirR2
  split <;> rename_i h <;> simp_all

theorem C19_unitDirR3_err_iff (v : V3 ℝ) : unitDirR3 v = .error .invalidUnitDir ↔ v = ⟨0, 0, 0⟩ := by
  rw [← C19_v3_unitDir_err_iff]
  unfold unitDirR3 V3.unitDirPre
  split <;> rename_i h <;> split at h <;> simp_all

theorem normSq2_pos {v : V2 ℝ} (hv : v ≠ ⟨0, 0⟩) : 0 < V2.normSq v := by
  cases v with
  | mk x y =>
    have h0 : x * x + y * y ≠ 0 := fun h => hv (by
      have := (sq2_zero_iff x y).mp h; simp [this.1, this.2])
    have := add_nonneg (mul_self_nonneg x) (mul_self_nonneg y)
    exact lt_of_le_of_ne this (Ne.symm h0)

theorem normSq3_pos {v : V3 ℝ} (hv : v ≠ ⟨0, 0, 0⟩) : 0 < V3.normSq v := by
  cases v with
  | mk x y z =>
    have h0 : x * x + y * y + z * z ≠ 0 := fun h => hv (by
      have := (sq3_zero_iff x y z).mp h; simp [this.1, this.2.1, this.2.2])
    have := add_nonneg (add_nonneg (mul_self_nonneg x) (mul_self_nonneg y)) (mul_self_nonneg z)
    exact lt_of_le_of_ne this (Ne.symm h0)

/-- on a non-null vector `unit_dir` returns `r = v / ‖v‖`: the `assert!` of `Div` does not fire, `r` has
    norm 1 and is a positive multiple of `v` -/
theorem C19_unitDirR2_spec (v : V2 ℝ) (hv : v ≠ ⟨0, 0⟩) :
    ∃ r k, unitDirR2 v = .ok r ∧ V2.div v (Real.sqrt (V2.normSq v)) = some r ∧
      V2.normSq r = 1 ∧ 0 < k ∧ r = V2.mul v k := by
  have hs := normSq2_pos hv
  have hq : 0 < Real.sqrt (V2.normSq v) := Real.sqrt_pos.mpr hs
  refine ⟨V2.divCore v (Real.sqrt (V2.normSq v)), (Real.sqrt (V2.normSq v))⁻¹, ?_, ?_, ?_, inv_pos.mpr hq, ?_⟩
  · unfold unitDirR2 V2.unitDirPre
    simp [hs.ne']
  · exact (C19_v2_div_ok_iff v _).mpr hq.ne'
  · have hm := Real.mul_self_sqrt hs.le
    simp only [V2.divCore, V2.normSq] at hm ⊢
    rw [div_mul_div_comm, div_mul_div_comm, ← add_div, hm]
    exact div_self hs.ne'
  · simp only [V2.divCore, V2.mul, div_eq_mul_inv]

/-- on a non-null vector `normal_dir` returns the unit vector along the quarter turn `(-y, x)`:
    norm 1, positive multiple of `(-y, x)`, orthogonal to `v`, and `(v, r)` is counter-clockwise -/
theorem C19_normalDirR2_spec (v : V2 ℝ) (hv : v ≠ ⟨0, 0⟩) :
    ∃ r k, normalDirR2 v = .ok r ∧ V2.normSq r = 1 ∧ 0 < k ∧ r = V2.mul ⟨-v.y, v.x⟩ k ∧
      V2.dot r v = 0 ∧ 0 < v.x * r.y - v.y * r.x := by
  have hw : (⟨-v.y, v.x⟩ : V2 ℝ) ≠ ⟨0, 0⟩ := by
    intro h
    simp only [V2.mk.injEq, neg_eq_zero] at h
    exact hv (by cases v; simp_all)
  obtain ⟨r, k, h1, _, h3, h4, h5⟩ := C19_unitDirR2_spec _ hw
  refine ⟨r, k, ?_, h3, h4, h5, ?_, ?_⟩
  · have hok := (C19_v2_normalDir_ok_iff v).mpr hv
    unfold normalDirR2
    rw [hok]
    unfold unitDirR2 at h1
    rw [(C19_v2_unitDir_ok_iff _).mpr hw] at h1
    exact h1
  · rw [h5]; simp only [V2.dot, V2.mul]; ring
  · rw [h5]; simp only [V2.mul]
    have : v.x * (v.x * k) - v.y * (-v.y * k) = V2.normSq v * k := by simp only [V2.normSq]; ring
    rw [this]
    exact mul_pos (normSq2_pos hv) h4

theorem C19_unitDirR3_spec (v : V3 ℝ) (hv : v ≠ ⟨0, 0, 0⟩) :
    ∃ r k, unitDirR3 v = .ok r ∧ V3.div v (Real.sqrt (V3.normSq v)) = some r ∧
      V3.normSq r = 1 ∧ 0 < k ∧ r = V3.mul v k := by
  have hs := normSq3_pos hv
  have hq : 0 < Real.sqrt (V3.normSq v) := Real.sqrt_pos.mpr hs
  refine ⟨V3.divCore v (Real.sqrt (V3.normSq v)), (Real.sqrt (V3.normSq v))⁻¹, ?_, ?_, ?_, inv_pos.mpr hq, ?_⟩
  · unfold unitDirR3 V3.unitDirPre
    simp [hs.ne']
  · exact (C19_v3_div_ok_iff v _).mpr hq.ne'
  · have hm := Real.mul_self_sqrt hs.le
    simp only [V3.divCore, V3.normSq] at hm ⊢
    rw [div_mul_div_comm, div_mul_div_comm, div_mul_div_comm, ← add_div, ← add_div, hm]
    exact div_self hs.ne'
  · simp only [V3.divCore, V3.mul, div_eq_mul_inv]

end RealDir

/-! ## (b) rounding

`RoundModel fl u` is the standard model of floating-point arithmetic: every operation returns
`fl` of the exact result of the operation on its (floating-point) arguments, and `fl` commits a
relative error of at most `u < 1`.  It is a HYPOTHESIS of the theorems below; `Props/C19b.lean` proves
that the idealised IEEE rounding `rnd p` (round to nearest even, `p` bits, unbounded exponent — i.e.
binary64 / binary32 as long as no overflow or underflow occurs, the domain of the property) satisfies
it with `u = 2⁻ᵖ`, which makes every theorem below unconditional for that rounding.  `FlR fl` instantiates the coordinate type of the model with this
arithmetic, so the statements are about the model definitions themselves (`V2.sub`, `P2.orient`, …)
evaluated operation by operation in the order the Rust evaluates them. -/
section Rounding
set_option linter.unusedSectionVars false
/- the coordinate field: any ordered field (ℝ in the examples; ℚ — the exact values of floats — for the
   unconditional instance `rnd 53` / `rnd 24` of `Props/C19b.lean`) -/
variable {K : Type} [Field K] [LinearOrder K] [IsStrictOrderedRing K]

structure RoundModel {K : Type} [Field K] [LinearOrder K] [IsStrictOrderedRing K] (fl : K → K) (u : K) : Prop where
  u_nonneg : 0 ≤ u
  u_lt_one : u < 1
  err : ∀ x, |fl x - x| ≤ u * |x|

/-- values of the rounded arithmetic: real numbers, with every operation followed by `fl` -/
structure FlR {K : Type} (fl : K → K) where
  val : K

variable {fl : K → K} {u : K}

instance : Add (FlR fl) := ⟨fun a b => ⟨fl (a.val + b.val)⟩⟩
instance : Sub (FlR fl) := ⟨fun a b => ⟨fl (a.val - b.val)⟩⟩
instance : Mul (FlR fl) := ⟨fun a b => ⟨fl (a.val * b.val)⟩⟩
noncomputable instance : Div (FlR fl) := ⟨fun a b => ⟨fl (a.val / b.val)⟩⟩
/-- negation is exact (sign flip) -/
instance : Neg (FlR fl) := ⟨fun a => ⟨-a.val⟩⟩
instance : OfNat (FlR fl) 0 := ⟨⟨0⟩⟩
instance : OfNat (FlR fl) 2 := ⟨⟨2⟩⟩

@[simp] theorem FlR.add_val (a b : FlR fl) : (a + b).val = fl (a.val + b.val) := rfl
@[simp] theorem FlR.sub_val (a b : FlR fl) : (a - b).val = fl (a.val - b.val) := rfl
@[simp] theorem FlR.mul_val (a b : FlR fl) : (a * b).val = fl (a.val * b.val) := rfl
@[simp] theorem FlR.div_val (a b : FlR fl) : (a / b).val = fl (a.val / b.val) := rfl
@[simp] theorem FlR.neg_val (a : FlR fl) : (-a).val = -a.val := rfl

/-- the real point with the same coordinates -/
def toR2 (p : P2 (FlR fl)) : P2 K := ⟨p.x.val, p.y.val⟩

theorem RoundModel.fl_zero (h : RoundModel fl u) : fl 0 = 0 := by
  have := h.err 0
  simpa using this

theorem RoundModel.fl_pos_iff (h : RoundModel fl u) (x : K) : 0 < fl x ↔ 0 < x := by
  have he := abs_le.mp (h.err x)
  have hu := h.u_lt_one
  have hu0 := h.u_nonneg
  constructor
  · intro hp
    by_contra hx
    have hx' : x ≤ 0 := not_lt.mp hx
    rw [abs_of_nonpos hx'] at he
    nlinarith [he.2]
  · intro hx
    rw [abs_of_pos hx] at he
    nlinarith [he.1]

theorem RoundModel.fl_neg_iff (h : RoundModel fl u) (x : K) : fl x < 0 ↔ x < 0 := by
  have he := abs_le.mp (h.err x)
  have hu := h.u_lt_one
  have hu0 := h.u_nonneg
  constructor
  · intro hp
    by_contra hx
    have hx' : 0 ≤ x := not_lt.mp hx
    rw [abs_of_nonneg hx'] at he
    nlinarith [he.1]
  · intro hx
    rw [abs_of_neg hx] at he
    nlinarith [he.2]

/-- multiplicative form of the error: `fl x = x · d` with `|d − 1| ≤ u` -/
theorem RoundModel.fl_rel (h : RoundModel fl u) (x : K) : ∃ d, |d - 1| ≤ u ∧ fl x = x * d := by
  by_cases hx : x = 0
  · subst hx
    exact ⟨1, by simpa using h.u_nonneg, by simpa using h.fl_zero⟩
  · refine ⟨fl x / x, ?_, by field_simp⟩
    have hpos : 0 < |x| := abs_pos.mpr hx
    have e : fl x / x - 1 = (fl x - x) / x := by field_simp
    rw [e, abs_div, div_le_iff₀ hpos]
    exact h.err x

/-! ### `v − v = 0` exactly -/

theorem C19_fl_v2_sub_self (h : RoundModel fl u) (v : V2 (FlR fl)) : V2.sub v v = ⟨⟨0⟩, ⟨0⟩⟩ := by
  simp only [V2.sub, V2.mk.injEq]
  exact ⟨congrArg FlR.mk (by simp [h.fl_zero]), congrArg FlR.mk (by simp [h.fl_zero])⟩

theorem C19_fl_v3_sub_self (h : RoundModel fl u) (v : V3 (FlR fl)) :
    V3.sub v v = ⟨⟨0⟩, ⟨0⟩, ⟨0⟩⟩ := by
  simp only [V3.sub, V3.mk.injEq]
  exact ⟨congrArg FlR.mk (by simp [h.fl_zero]), congrArg FlR.mk (by simp [h.fl_zero]),
    congrArg FlR.mk (by simp [h.fl_zero])⟩

theorem C19_fl_p2_sub_self (h : RoundModel fl u) (p : P2 (FlR fl)) : P2.sub p p = ⟨⟨0⟩, ⟨0⟩⟩ := by
  simp only [P2.sub, V2.mk.injEq]
  exact ⟨congrArg FlR.mk (by simp [h.fl_zero]), congrArg FlR.mk (by simp [h.fl_zero])⟩

theorem C19_fl_p3_sub_self (h : RoundModel fl u) (p : P3 (FlR fl)) :
    P3.sub p p = ⟨⟨0⟩, ⟨0⟩, ⟨0⟩⟩ := by
  simp only [P3.sub, V3.mk.injEq]
  exact ⟨congrArg FlR.mk (by simp [h.fl_zero]), congrArg FlR.mk (by simp [h.fl_zero]),
    congrArg FlR.mk (by simp [h.fl_zero])⟩

/-! ### `(v + u) − v ≈ u` -/

/-- scalar form: `|fl(fl(a + b) − a) − b| ≤ (2u + u²)(|a| + |b|)` -/
theorem RoundModel.add_sub_bound (h : RoundModel fl u) (a b : K) :
    |fl (fl (a + b) - a) - b| ≤ (2 * u + u ^ 2) * (|a| + |b|) := by
  have hu0 := h.u_nonneg
  have h1 := h.err (a + b)
  have h2 := h.err (fl (a + b) - a)
  have hX : |a + b| ≤ |a| + |b| := abs_add_le a b
  -- |s - a| ≤ |b| + u |a+b|
  have hsa : |fl (a + b) - a| ≤ |b| + u * |a + b| := by
    have e : fl (a + b) - a = b + (fl (a + b) - (a + b)) := by ring
    rw [e]
    exact (abs_add_le _ _).trans (by linarith)
  have e : fl (fl (a + b) - a) - b
      = (fl (fl (a + b) - a) - (fl (a + b) - a)) + (fl (a + b) - (a + b)) := by ring
  rw [e]
  refine (abs_add_le _ _).trans ?_
  have hb : |b| ≤ |a| + |b| := by linarith [abs_nonneg a]
  have m1 : u * |a + b| ≤ u * (|a| + |b|) := mul_le_mul_of_nonneg_left hX hu0
  have m2 : u * |fl (a + b) - a| ≤ u * (|b| + u * |a + b|) := mul_le_mul_of_nonneg_left hsa hu0
  have m3 : u * |b| ≤ u * (|a| + |b|) := mul_le_mul_of_nonneg_left hb hu0
  have m4 : u * (u * |a + b|) ≤ u * (u * (|a| + |b|)) := mul_le_mul_of_nonneg_left m1 hu0
  calc |fl (fl (a + b) - a) - (fl (a + b) - a)| + |fl (a + b) - (a + b)|
      ≤ u * (|b| + u * |a + b|) + u * |a + b| := by linarith
    _ = u * |b| + u * (u * |a + b|) + u * |a + b| := by ring
    _ ≤ u * (|a| + |b|) + u * (u * (|a| + |b|)) + u * (|a| + |b|) := by linarith
    _ = (2 * u + u ^ 2) * (|a| + |b|) := by ring

theorem C19_fl_v2_add_sub_bound (h : RoundModel fl u) (v w : V2 (FlR fl)) :
    |(V2.sub (V2.add v w) v).x.val - w.x.val| ≤ (2 * u + u ^ 2) * (|v.x.val| + |w.x.val|) ∧
    |(V2.sub (V2.add v w) v).y.val - w.y.val| ≤ (2 * u + u ^ 2) * (|v.y.val| + |w.y.val|) :=
  ⟨h.add_sub_bound _ _, h.add_sub_bound _ _⟩

theorem C19_fl_v3_add_sub_bound (h : RoundModel fl u) (v w : V3 (FlR fl)) :
    |(V3.sub (V3.add v w) v).x.val - w.x.val| ≤ (2 * u + u ^ 2) * (|v.x.val| + |w.x.val|) ∧
    |(V3.sub (V3.add v w) v).y.val - w.y.val| ≤ (2 * u + u ^ 2) * (|v.y.val| + |w.y.val|) ∧
    |(V3.sub (V3.add v w) v).z.val - w.z.val| ≤ (2 * u + u ^ 2) * (|v.z.val| + |w.z.val|) :=
  ⟨h.add_sub_bound _ _, h.add_sub_bound _ _, h.add_sub_bound _ _⟩

theorem C19_fl_p2_add_sub_bound (h : RoundModel fl u) (p : P2 (FlR fl)) (w : V2 (FlR fl)) :
    |(P2.sub (P2.addV p w) p).x.val - w.x.val| ≤ (2 * u + u ^ 2) * (|p.x.val| + |w.x.val|) ∧
    |(P2.sub (P2.addV p w) p).y.val - w.y.val| ≤ (2 * u + u ^ 2) * (|p.y.val| + |w.y.val|) :=
  ⟨h.add_sub_bound _ _, h.add_sub_bound _ _⟩

theorem C19_fl_p3_add_sub_bound (h : RoundModel fl u) (p : P3 (FlR fl)) (w : V3 (FlR fl)) :
    |(P3.sub (P3.addV p w) p).x.val - w.x.val| ≤ (2 * u + u ^ 2) * (|p.x.val| + |w.x.val|) ∧
    |(P3.sub (P3.addV p w) p).y.val - w.y.val| ≤ (2 * u + u ^ 2) * (|p.y.val| + |w.y.val|) ∧
    |(P3.sub (P3.addV p w) p).z.val - w.z.val| ≤ (2 * u + u ^ 2) * (|p.z.val| + |w.z.val|) :=
  ⟨h.add_sub_bound _ _, h.add_sub_bound _ _, h.add_sub_bound _ _⟩

/-! ### symmetric clauses hold in every arithmetic (no hypothesis on `fl`) -/

theorem C19_fl_v2_dot_comm (a b : V2 (FlR fl)) : V2.dot a b = V2.dot b a := by
  simp only [V2.dot]
  exact congrArg FlR.mk (by simp [mul_comm])

theorem C19_fl_v3_dot_comm (a b : V3 (FlR fl)) : V3.dot a b = V3.dot b a := by
  simp only [V3.dot]
  exact congrArg FlR.mk (by simp [mul_comm])

theorem C19_fl_p2_average_comm (a b : P2 (FlR fl)) : P2.average a b = P2.average b a := by
  simp only [P2.average, P2.mk.injEq]
  exact ⟨congrArg FlR.mk (by simp [add_comm]), congrArg FlR.mk (by simp [add_comm])⟩

theorem C19_fl_p3_average_comm (a b : P3 (FlR fl)) : P3.average a b = P3.average b a := by
  simp only [P3.average, P3.mk.injEq]
  exact ⟨congrArg FlR.mk (by simp [add_comm]), congrArg FlR.mk (by simp [add_comm]),
    congrArg FlR.mk (by simp [add_comm])⟩

/-- the computed cross product is antisymmetric as soon as rounding is odd (`fl (−x) = −fl x`,
    true of round-to-nearest; the sign of a zero component is not represented in `FlR`) -/
theorem C19_fl_v3_cross_antisymm (hodd : ∀ x, fl (-x) = -fl x) (a b : V3 (FlR fl)) :
    V3.cross a b = V3.neg (V3.cross b a) := by
  have key : ∀ p q r s : K, fl (fl (p * q) - fl (r * s)) = -fl (fl (s * r) - fl (q * p)) := by
    intro p q r s
    rw [← hodd, mul_comm s r, mul_comm q p]
    congr 1; ring
  simp only [V3.cross, V3.neg, V3.mk.injEq]
  exact ⟨congrArg FlR.mk (by simpa using key _ _ _ _), congrArg FlR.mk (by simpa using key _ _ _ _),
    congrArg FlR.mk (by simpa using key _ _ _ _)⟩

/-! ### the orientation sign outside the rounding band -/

theorem mul_err {a b p q : K} (ha : |a - 1| ≤ p) (hb : |b - 1| ≤ q) :
    |a * b - 1| ≤ p + q + p * q := by
  have e : a * b - 1 = (a - 1) * (b - 1) + (a - 1) + (b - 1) := by ring
  rw [e]
  have hp : 0 ≤ p := (abs_nonneg _).trans ha
  have := mul_le_mul ha hb (abs_nonneg _) hp
  calc |(a - 1) * (b - 1) + (a - 1) + (b - 1)|
      ≤ |(a - 1) * (b - 1) + (a - 1)| + |b - 1| := abs_add_le _ _
    _ ≤ |(a - 1) * (b - 1)| + |a - 1| + |b - 1| := by linarith [abs_add_le ((a - 1) * (b - 1)) (a - 1)]
    _ = |a - 1| * |b - 1| + |a - 1| + |b - 1| := by rw [abs_mul]
    _ ≤ p + q + p * q := by linarith

/-- a rounded product of two rounded factors: `|fl(fl x · fl y) − x·y| ≤ (3u + 3u² + u³)·|x·y|` -/
theorem RoundModel.prod_bound (h : RoundModel fl u) (x y : K) :
    |fl (fl x * fl y) - x * y| ≤ (3 * u + 3 * u ^ 2 + u ^ 3) * |x * y| := by
  obtain ⟨d1, hd1, e1⟩ := h.fl_rel x
  obtain ⟨d2, hd2, e2⟩ := h.fl_rel y
  obtain ⟨d3, hd3, e3⟩ := h.fl_rel (fl x * fl y)
  have h12 := mul_err hd1 hd2
  have h123 := mul_err h12 hd3
  have e : fl (fl x * fl y) - x * y = (x * y) * (d1 * d2 * d3 - 1) := by
    rw [e3, e1, e2]; ring
  rw [e, abs_mul, mul_comm]
  refine mul_le_mul_of_nonneg_right (h123.trans (le_of_eq ?_)) (abs_nonneg _)
  ring

/-- the band around collinearity inside which the computed sign is not guaranteed:
    `|A·B| + |C·D|` for the four coordinate differences of `cross_product_from_vertices` -/
def orientBand (a b c : P2 K) : K :=
  |(b.x - a.x) * (c.y - b.y)| + |(b.y - a.y) * (c.x - b.x)|

/-- **orientation sign.**  Evaluate `cross_product_from_vertices` in rounded arithmetic (7 rounded
    operations, in the order of the Rust expression).  If the exact value on the same inputs is
    outside the band `(3u + 3u² + u³)·(|A·B| + |C·D|)`, the computed value has the exact sign. -/
theorem C19_fl_orient_sign (h : RoundModel fl u) (a b c : P2 (FlR fl))
    (hband : (3 * u + 3 * u ^ 2 + u ^ 3) * orientBand (toR2 a) (toR2 b) (toR2 c)
      < |P2.orient (toR2 a) (toR2 b) (toR2 c)|) :
    (0 < (P2.orient a b c).val ↔ 0 < P2.orient (toR2 a) (toR2 b) (toR2 c)) ∧
    ((P2.orient a b c).val < 0 ↔ P2.orient (toR2 a) (toR2 b) (toR2 c) < 0) := by
  simp only [P2.orient, toR2, orientBand, FlR.sub_val, FlR.mul_val] at hband ⊢
  rw [h.fl_pos_iff, h.fl_neg_iff]
  generalize b.x.val - a.x.val = A at hband ⊢
  generalize c.y.val - b.y.val = B at hband ⊢
  generalize b.y.val - a.y.val = C at hband ⊢
  generalize c.x.val - b.x.val = D at hband ⊢
  have hP := abs_le.mp (h.prod_bound A B)
  have hQ := abs_le.mp (h.prod_bound C D)
  set g := 3 * u + 3 * u ^ 2 + u ^ 3 with hg
  rw [mul_add] at hband
  rcases le_or_gt 0 (A * B - C * D) with hE | hE
  · rw [abs_of_nonneg hE] at hband
    constructor <;> constructor <;> intro _ <;> linarith [hP.1, hP.2, hQ.1, hQ.2]
  · rw [abs_of_neg hE] at hband
    constructor <;> constructor <;> intro _ <;> linarith [hP.1, hP.2, hQ.1, hQ.2]

/-! ### orthogonality of the computed cross product -/


/-- difference of two rounded products of floats:
    `|fl(fl(x·y) − fl(z·w)) − (x·y − z·w)| ≤ (2u + u²)(|x·y| + |z·w|)` -/
theorem RoundModel.sub_prod_bound (h : RoundModel fl u) (x y z w : K) :
    |fl (fl (x * y) - fl (z * w)) - (x * y - z * w)| ≤ (2 * u + u ^ 2) * (|x * y| + |z * w|) := by
  obtain ⟨d1, hd1, e1⟩ := h.fl_rel (x * y)
  obtain ⟨d2, hd2, e2⟩ := h.fl_rel (z * w)
  obtain ⟨d3, hd3, e3⟩ := h.fl_rel (fl (x * y) - fl (z * w))
  have h13 := mul_err hd1 hd3
  have h23 := mul_err hd2 hd3
  have e : fl (fl (x * y) - fl (z * w)) - (x * y - z * w)
      = (x * y) * (d1 * d3 - 1) - (z * w) * (d2 * d3 - 1) := by
    rw [e3, e1, e2]; ring
  rw [e]
  have g : u + u + u * u = 2 * u + u ^ 2 := by ring
  rw [g] at h13 h23
  calc |x * y * (d1 * d3 - 1) - z * w * (d2 * d3 - 1)|
      ≤ |x * y * (d1 * d3 - 1)| + |z * w * (d2 * d3 - 1)| := abs_sub _ _
    _ = |x * y| * |d1 * d3 - 1| + |z * w| * |d2 * d3 - 1| := by
        rw [abs_mul (x * y), abs_mul (z * w)]
    _ ≤ |x * y| * (2 * u + u ^ 2) + |z * w| * (2 * u + u ^ 2) :=
        add_le_add (mul_le_mul_of_nonneg_left h13 (abs_nonneg _))
          (mul_le_mul_of_nonneg_left h23 (abs_nonneg _))
    _ = (2 * u + u ^ 2) * (|x * y| + |z * w|) := by ring

/-- a rounded three-term dot product of arbitrary reals `s_i = x_i·y_i`:
    `|fl(fl(fl s0 + fl s1) + fl s2) − (s0 + s1 + s2)| ≤ (3u + 3u² + u³)(|s0| + |s1| + |s2|)` -/
theorem RoundModel.dot3_bound (h : RoundModel fl u) (s0 s1 s2 : K) :
    |fl (fl (fl s0 + fl s1) + fl s2) - (s0 + s1 + s2)|
      ≤ (3 * u + 3 * u ^ 2 + u ^ 3) * (|s0| + |s1| + |s2|) := by
  have hu0 := h.u_nonneg
  obtain ⟨d0, hd0, e0⟩ := h.fl_rel s0
  obtain ⟨d1, hd1, e1⟩ := h.fl_rel s1
  obtain ⟨d2, hd2, e2⟩ := h.fl_rel s2
  obtain ⟨d3, hd3, e3⟩ := h.fl_rel (fl s0 + fl s1)
  obtain ⟨d4, hd4, e4⟩ := h.fl_rel (fl (fl s0 + fl s1) + fl s2)
  have g2 : u + u + u * u = 2 * u + u ^ 2 := by ring
  have g3 : (2 * u + u ^ 2) + u + (2 * u + u ^ 2) * u = 3 * u + 3 * u ^ 2 + u ^ 3 := by ring
  have h03 := mul_err hd0 hd3
  have h13 := mul_err hd1 hd3
  rw [g2] at h03 h13
  have h034 := mul_err h03 hd4
  have h134 := mul_err h13 hd4
  have h24 := mul_err hd2 hd4
  rw [g3] at h034 h134
  rw [g2] at h24
  have h24' : |d2 * d4 - 1| ≤ 3 * u + 3 * u ^ 2 + u ^ 3 := by
    have : 0 ≤ u + 2 * u ^ 2 + u ^ 3 := by positivity
    linarith
  have e : fl (fl (fl s0 + fl s1) + fl s2) - (s0 + s1 + s2)
      = s0 * (d0 * d3 * d4 - 1) + s1 * (d1 * d3 * d4 - 1) + s2 * (d2 * d4 - 1) := by
    rw [e4, e3, e0, e1, e2]; ring
  rw [e]
  calc |s0 * (d0 * d3 * d4 - 1) + s1 * (d1 * d3 * d4 - 1) + s2 * (d2 * d4 - 1)|
      ≤ |s0 * (d0 * d3 * d4 - 1)| + |s1 * (d1 * d3 * d4 - 1)| + |s2 * (d2 * d4 - 1)| := abs_add_three _ _ _
    _ = |s0| * |d0 * d3 * d4 - 1| + |s1| * |d1 * d3 * d4 - 1| + |s2| * |d2 * d4 - 1| := by
        rw [abs_mul, abs_mul, abs_mul]
    _ ≤ |s0| * (3 * u + 3 * u ^ 2 + u ^ 3) + |s1| * (3 * u + 3 * u ^ 2 + u ^ 3)
          + |s2| * (3 * u + 3 * u ^ 2 + u ^ 3) :=
        add_le_add (add_le_add (mul_le_mul_of_nonneg_left h034 (abs_nonneg _))
          (mul_le_mul_of_nonneg_left h134 (abs_nonneg _)))
          (mul_le_mul_of_nonneg_left h24' (abs_nonneg _))
    _ = (3 * u + 3 * u ^ 2 + u ^ 3) * (|s0| + |s1| + |s2|) := by ring

/-- magnitude against which the orthogonality defect of the computed cross product is measured:
    `Σ |w_i|·(|p_i| + |q_i|)` where `p_i − q_i` is the i-th component of `a × b` -/
def crossMag (a b w : V3 K) : K :=
  |w.x| * (|a.y * b.z| + |a.z * b.y|) + |w.y| * (|a.z * b.x| + |a.x * b.z|)
    + |w.z| * (|a.x * b.y| + |a.y * b.x|)

def toR3 (v : V3 (FlR fl)) : V3 K := ⟨v.x.val, v.y.val, v.z.val⟩

/-- scalar core: if `ĉ_i` approximates `c_i` with `|ĉ_i − c_i| ≤ ε·m_i`, `|c_i| ≤ m_i` and `Σ c_i w_i = 0`, the rounded dot
    product `ĉ·w` is bounded by `(ε + γ₃(1 + ε))·Σ|w_i| m_i` -/
theorem RoundModel.orth_bound (h : RoundModel fl u) {c0 c1 c2 k0 k1 k2 m0 m1 m2 w0 w1 w2 ε : K}
        (h0 : |k0 - c0| ≤ ε * m0) (h1 : |k1 - c1| ≤ ε * m1) (h2 : |k2 - c2| ≤ ε * m2)
    (b0 : |c0| ≤ m0) (b1 : |c1| ≤ m1) (b2 : |c2| ≤ m2)
    (horth : c0 * w0 + c1 * w1 + c2 * w2 = 0) :
    |fl (fl (fl (k0 * w0) + fl (k1 * w1)) + fl (k2 * w2))|
      ≤ (ε + (3 * u + 3 * u ^ 2 + u ^ 3) * (1 + ε)) * (|w0| * m0 + |w1| * m1 + |w2| * m2) := by
  have hu0 := h.u_nonneg
  have hg : 0 ≤ 3 * u + 3 * u ^ 2 + u ^ 3 := by positivity
  have hd := h.dot3_bound (k0 * w0) (k1 * w1) (k2 * w2)
  -- |k_i| ≤ (1 + ε) m_i
  have kb : ∀ {k c m : K}, |k - c| ≤ ε * m → |c| ≤ m → |k| ≤ (1 + ε) * m := by
    intro k c m hk hc
    have : |k| ≤ |k - c| + |c| := by
      have := abs_add_le (k - c) c
      simpa using this
    linarith
  have kw : ∀ {k c m w : K}, |k - c| ≤ ε * m → |c| ≤ m → |k * w| ≤ (1 + ε) * (|w| * m) := by
    intro k c m w hk hc
    rw [abs_mul]
    have := mul_le_mul_of_nonneg_right (kb hk hc) (abs_nonneg w)
    linarith
  have ew : ∀ {k c m w : K}, |k - c| ≤ ε * m → |(k - c) * w| ≤ ε * (|w| * m) := by
    intro k c m w hk
    rw [abs_mul]
    have := mul_le_mul_of_nonneg_right hk (abs_nonneg w)
    linarith
  have hsum : k0 * w0 + k1 * w1 + k2 * w2 = (k0 - c0) * w0 + (k1 - c1) * w1 + (k2 - c2) * w2 := by
    have : (k0 - c0) * w0 + (k1 - c1) * w1 + (k2 - c2) * w2
        = k0 * w0 + k1 * w1 + k2 * w2 - (c0 * w0 + c1 * w1 + c2 * w2) := by ring
    rw [this, horth, sub_zero]
  have hS : |k0 * w0 + k1 * w1 + k2 * w2| ≤ ε * (|w0| * m0 + |w1| * m1 + |w2| * m2) := by
    rw [hsum]
    have := abs_add_three ((k0 - c0) * w0) ((k1 - c1) * w1) ((k2 - c2) * w2)
    have := ew (w := w0) h0
    have := ew (w := w1) h1
    have := ew (w := w2) h2
    linarith
  have hT : |k0 * w0| + |k1 * w1| + |k2 * w2| ≤ (1 + ε) * (|w0| * m0 + |w1| * m1 + |w2| * m2) := by
    have := kw (w := w0) h0 b0
    have := kw (w := w1) h1 b1
    have := kw (w := w2) h2 b2
    linarith
  have hd' : |fl (fl (fl (k0 * w0) + fl (k1 * w1)) + fl (k2 * w2))|
      ≤ |k0 * w0 + k1 * w1 + k2 * w2| + (3 * u + 3 * u ^ 2 + u ^ 3) * (|k0 * w0| + |k1 * w1| + |k2 * w2|) := by
    have := abs_add_le (fl (fl (fl (k0 * w0) + fl (k1 * w1)) + fl (k2 * w2)) - (k0 * w0 + k1 * w1 + k2 * w2))
      (k0 * w0 + k1 * w1 + k2 * w2)
    simp only [sub_add_cancel] at this
    linarith
  have := mul_le_mul_of_nonneg_left hT hg
  calc _ ≤ _ := hd'
    _ ≤ ε * (|w0| * m0 + |w1| * m1 + |w2| * m2)
        + (3 * u + 3 * u ^ 2 + u ^ 3) * ((1 + ε) * (|w0| * m0 + |w1| * m1 + |w2| * m2)) := by linarith
    _ = _ := by ring

/-- **orthogonality up to rounding.**  The computed `(a × b)·a` and `(a × b)·b` (11 rounded operations
    each, in the order of `Vector3::cross` and `Vector3::dot`) are bounded by
    `K·Σ|w_i|(|p_i| + |q_i|)` with `K = (2u + u²) + (3u + 3u² + u³)(1 + 2u + u²) = 5u + O(u²)`. -/
theorem C19_fl_v3_cross_dot_bound (h : RoundModel fl u) (a b : V3 (FlR fl)) :
    |(V3.dot (V3.cross a b) a).val|
      ≤ ((2 * u + u ^ 2) + (3 * u + 3 * u ^ 2 + u ^ 3) * (1 + (2 * u + u ^ 2)))
          * crossMag (toR3 a) (toR3 b) (toR3 a) ∧
    |(V3.dot (V3.cross a b) b).val|
      ≤ ((2 * u + u ^ 2) + (3 * u + 3 * u ^ 2 + u ^ 3) * (1 + (2 * u + u ^ 2)))
          * crossMag (toR3 a) (toR3 b) (toR3 b) := by
  simp only [V3.dot, V3.cross, crossMag, toR3, FlR.add_val, FlR.mul_val, FlR.sub_val]
  constructor
  · exact h.orth_bound (h.sub_prod_bound _ _ _ _) (h.sub_prod_bound _ _ _ _) (h.sub_prod_bound _ _ _ _)
      (abs_sub _ _) (abs_sub _ _) (abs_sub _ _) (by ring)
  · exact h.orth_bound (h.sub_prod_bound _ _ _ _) (h.sub_prod_bound _ _ _ _) (h.sub_prod_bound _ _ _ _)
      (abs_sub _ _) (abs_sub _ _) (abs_sub _ _) (by ring)

/-- the constant is below `6u` for every `u ≤ 1/16` (so for `2⁻²⁴` and `2⁻⁵³`): the bound used by the float oracle -/
theorem cross_dot_const_le {u : K} (h0 : 0 ≤ u) (h1 : u ≤ 1 / 16) :
    (2 * u + u ^ 2) + (3 * u + 3 * u ^ 2 + u ^ 3) * (1 + (2 * u + u ^ 2)) ≤ 6 * u := by
  have h2 : u ^ 2 ≤ u / 16 := by nlinarith
  have h3 : u ^ 3 ≤ u / 256 := by nlinarith
  have h4 : u ^ 4 ≤ u / 4096 := by nlinarith
  have h5 : u ^ 5 ≤ u / 65536 := by nlinarith
  have e : (2 * u + u ^ 2) + (3 * u + 3 * u ^ 2 + u ^ 3) * (1 + (2 * u + u ^ 2))
      = 5 * u + 10 * u ^ 2 + 10 * u ^ 3 + 5 * u ^ 4 + u ^ 5 := by ring
  rw [e]; linarith

/-! ### the computed average lies between its arguments -/

/-- `x` and `2x` are representable (true of every finite float whose double does not overflow) -/
def Rep (fl : K → K) (x : K) : Prop := fl x = x ∧ fl (2 * x) = 2 * x

/-- with a MONOTONE rounding, the computed midpoint `fl(fl(a + b) / 2)` of two representable numbers lies
    between them (no relative-error hypothesis needed) -/
theorem fl_mid_between (hmono : Monotone fl) {a b : K} (ha : Rep fl a) (hb : Rep fl b) :
    min a b ≤ fl (fl (a + b) / 2) ∧ fl (fl (a + b) / 2) ≤ max a b := by
  have key : ∀ {x y : K}, Rep fl x → Rep fl y → x ≤ y →
      x ≤ fl (fl (x + y) / 2) ∧ fl (fl (x + y) / 2) ≤ y := by
    intro x y hx hy hxy
    have h1 : 2 * x ≤ fl (x + y) := by
      have := hmono (by linarith : 2 * x ≤ x + y)
      rwa [hx.2] at this
    have h2 : fl (x + y) ≤ 2 * y := by
      have := hmono (by linarith : x + y ≤ 2 * y)
      rwa [hy.2] at this
    constructor
    · have := hmono (by linarith : x ≤ fl (x + y) / 2)
      rwa [hx.1] at this
    · have := hmono (by linarith : fl (x + y) / 2 ≤ y)
      rwa [hy.1] at this
  rcases le_total a b with h | h
  · rw [min_eq_left h, max_eq_right h]; exact key ha hb h
  · rw [min_eq_right h, max_eq_left h, add_comm a b]
    exact key hb ha h

@[simp] theorem FlR.two_val : (2 : FlR fl).val = 2 := rfl

theorem C19_fl_p2_average_between (hmono : Monotone fl) (a b : P2 (FlR fl))
    (hax : Rep fl a.x.val) (hbx : Rep fl b.x.val) (hay : Rep fl a.y.val) (hby : Rep fl b.y.val) :
    (min a.x.val b.x.val ≤ (P2.average a b).x.val ∧ (P2.average a b).x.val ≤ max a.x.val b.x.val) ∧
    (min a.y.val b.y.val ≤ (P2.average a b).y.val ∧ (P2.average a b).y.val ≤ max a.y.val b.y.val) := by
  simp only [P2.average, FlR.div_val, FlR.add_val, FlR.two_val]
  exact ⟨fl_mid_between hmono hax hbx, fl_mid_between hmono hay hby⟩

theorem C19_fl_p3_average_between (hmono : Monotone fl) (a b : P3 (FlR fl))
    (hax : Rep fl a.x.val) (hbx : Rep fl b.x.val) (hay : Rep fl a.y.val) (hby : Rep fl b.y.val)
    (haz : Rep fl a.z.val) (hbz : Rep fl b.z.val) :
    (min a.x.val b.x.val ≤ (P3.average a b).x.val ∧ (P3.average a b).x.val ≤ max a.x.val b.x.val) ∧
    (min a.y.val b.y.val ≤ (P3.average a b).y.val ∧ (P3.average a b).y.val ≤ max a.y.val b.y.val) ∧
    (min a.z.val b.z.val ≤ (P3.average a b).z.val ∧ (P3.average a b).z.val ≤ max a.z.val b.z.val) := by
  simp only [P3.average, FlR.div_val, FlR.add_val, FlR.two_val]
  exact ⟨fl_mid_between hmono hax hbx, fl_mid_between hmono hay hby, fl_mid_between hmono haz hbz⟩


end Rounding

/-! ## (c) skewness over ℝ

`skewOfAngles pi θs` is the value `compute_face_skewness_2d/3d` return once the corner angles `θs`
have been measured (in the order the loop visits the corners).  `pi` is a parameter (`0 < pi`): the
Rust uses the `f64` constant, the theorems hold for it as well as for `Real.pi`. -/
section Skew

theorem foldl_min_le (ts : List ℝ) : ∀ t : ℝ,
    ts.foldl (fun m θ => min m θ) t ≤ t ∧ ∀ x ∈ ts, ts.foldl (fun m θ => min m θ) t ≤ x := by
  induction ts with
  | nil => intro t; simp
  | cons a r ih =>
    intro t
    obtain ⟨h1, h2⟩ := ih (min t a)
    simp only [List.foldl_cons, List.mem_cons]
    refine ⟨h1.trans (min_le_left _ _), ?_⟩
    rintro x (rfl | hx)
    · exact h1.trans (min_le_right _ _)
    · exact h2 x hx

theorem foldl_min_mem (ts : List ℝ) : ∀ t : ℝ,
    ts.foldl (fun m θ => min m θ) t ∈ t :: ts := by
  induction ts with
  | nil => intro t; simp
  | cons a r ih =>
    intro t
    have := ih (min t a)
    simp only [List.foldl_cons, List.mem_cons] at this ⊢
    rcases this with h | h
    · rcases min_choice t a with h' | h'
      · left; rw [h, h']
      · right; left; rw [h, h']
    · right; right; exact h

theorem foldl_max_ge (ts : List ℝ) : ∀ t : ℝ,
    t ≤ ts.foldl (fun m θ => max m θ) t ∧ ∀ x ∈ ts, x ≤ ts.foldl (fun m θ => max m θ) t := by
  induction ts with
  | nil => intro t; simp
  | cons a r ih =>
    intro t
    obtain ⟨h1, h2⟩ := ih (max t a)
    simp only [List.foldl_cons, List.mem_cons]
    refine ⟨(le_max_left _ _).trans h1, ?_⟩
    rintro x (rfl | hx)
    · exact (le_max_right _ _).trans h1
    · exact h2 x hx

theorem foldl_max_mem (ts : List ℝ) : ∀ t : ℝ,
    ts.foldl (fun m θ => max m θ) t ∈ t :: ts := by
  induction ts with
  | nil => intro t; simp
  | cons a r ih =>
    intro t
    have := ih (max t a)
    simp only [List.foldl_cons, List.mem_cons] at this ⊢
    rcases this with h | h
    · rcases max_choice t a with h' | h'
      · left; rw [h, h']
      · right; left; rw [h, h']
    · right; right; exact h

theorem minAngle_le (t : ℝ) (ts : List ℝ) : ∀ x ∈ t :: ts, minAngle t ts ≤ x := by
  intro x hx
  rcases List.mem_cons.mp hx with rfl | hx
  · exact (foldl_min_le ts _).1
  · exact (foldl_min_le ts t).2 x hx

theorem minAngle_mem (t : ℝ) (ts : List ℝ) : minAngle t ts ∈ t :: ts := foldl_min_mem ts t

theorem le_maxAngle (t : ℝ) (ts : List ℝ) : ∀ x ∈ t :: ts, x ≤ maxAngle t ts := by
  intro x hx
  rcases List.mem_cons.mp hx with rfl | hx
  · exact (foldl_max_ge ts _).1
  · exact (foldl_max_ge ts t).2 x hx

theorem maxAngle_mem (t : ℝ) (ts : List ℝ) : maxAngle t ts ∈ t :: ts := foldl_max_mem ts t

/-- the extreme angles depend only on the SET of angles -/
theorem extremes_congr {t t' : ℝ} {ts ts' : List ℝ}
    (h : ∀ x, x ∈ t :: ts ↔ x ∈ t' :: ts') :
    minAngle t ts = minAngle t' ts' ∧ maxAngle t ts = maxAngle t' ts' := by
  constructor
  · exact le_antisymm (minAngle_le t ts _ ((h _).mpr (minAngle_mem t' ts')))
      (minAngle_le t' ts' _ ((h _).mp (minAngle_mem t ts)))
  · exact le_antisymm (le_maxAngle t' ts' _ ((h _).mp (maxAngle_mem t ts)))
      (le_maxAngle t ts _ ((h _).mpr (maxAngle_mem t' ts')))

/-- **order independence.**  The value is the same for every permutation of the corner list … -/
theorem C19_skew_perm (pi : ℝ) {l l' : List ℝ} (h : l.Perm l') :
    skewOfAngles pi l = skewOfAngles pi l' := by
  cases l with
  | nil => rw [List.nil_perm.mp h]
  | cons t ts =>
    cases l' with
    | nil => exact absurd h.length_eq (by simp)
    | cons t' ts' =>
      obtain ⟨h1, h2⟩ := extremes_congr (fun x => h.mem_iff)
      have hl : (t :: ts).length = (t' :: ts').length := h.length_eq
      simp only [skewOfAngles, h1, h2, hl]

/-- … in particular for every cyclic rotation (choice of the starting dart of the face) … -/
theorem C19_skew_rotate (pi : ℝ) (l : List ℝ) (k : Nat) :
    skewOfAngles pi (l.drop k ++ l.take k) = skewOfAngles pi l := by
  apply C19_skew_perm
  have : (l.take k ++ l.drop k).Perm l := by rw [List.take_append_drop]
  exact List.perm_append_comm.trans this

theorem C19_skew_rotateLeft (pi : ℝ) (l : List ℝ) (k : Nat) :
    skewOfAngles pi (l.rotateLeft k) = skewOfAngles pi l := by
  by_cases h : l.length ≤ 1
  · simp [List.rotateLeft, h]
  · simp only [List.rotateLeft, h, if_false]
    exact C19_skew_rotate pi l _

/-- … and for the reversed list (orientation of the face). -/
theorem C19_skew_reverse (pi : ℝ) (l : List ℝ) :
    skewOfAngles pi l.reverse = skewOfAngles pi l :=
  C19_skew_perm pi (List.reverse_perm l)

theorem sum_le_length_mul {l : List ℝ} {M : ℝ} (h : ∀ x ∈ l, x ≤ M) :
    l.sum ≤ l.length * M := by
  induction l with
  | nil => simp
  | cons a r ih =>
    have h1 := h a (List.mem_cons_self ..)
    have h2 := ih (fun x hx => h x (List.mem_cons_of_mem _ hx))
    simp only [List.sum_cons, List.length_cons, Nat.cast_add, Nat.cast_one]
    linarith

theorem length_mul_le_sum {l : List ℝ} {m : ℝ} (h : ∀ x ∈ l, m ≤ x) :
    l.length * m ≤ l.sum := by
  induction l with
  | nil => simp
  | cons a r ih =>
    have h1 := h a (List.mem_cons_self ..)
    have h2 := ih (fun x hx => h x (List.mem_cons_of_mem _ hx))
    simp only [List.sum_cons, List.length_cons, Nat.cast_add, Nat.cast_one]
    linarith

theorem ideal_bounds {pi : ℝ} (hpi : 0 < pi) {n : Nat} (hn : 3 ≤ n) :
    0 < idealAngle pi n ∧ idealAngle pi n < pi := by
  have hn' : (3 : ℝ) ≤ n := by exact_mod_cast hn
  have hn0 : (0 : ℝ) < n := by linarith
  unfold idealAngle
  constructor
  · apply div_pos _ hn0
    exact mul_pos (by linarith) hpi
  · rw [div_lt_iff₀ hn0]
    nlinarith

/-- with the polygon angle sum `Σθ = (n − 2)·pi` as a hypothesis, the largest angle is at least the
    ideal one and the smallest at most the ideal one -/
theorem ideal_between {pi : ℝ} {t : ℝ} {ts : List ℝ}
    (hsum : (t :: ts).sum = (((t :: ts).length : ℝ) - 2) * pi) :
    minAngle t ts ≤ idealAngle pi (t :: ts).length ∧ idealAngle pi (t :: ts).length ≤ maxAngle t ts := by
  have hn0 : (0 : ℝ) < ((t :: ts).length : ℝ) := by
    simp only [List.length_cons, Nat.cast_add, Nat.cast_one]; positivity
  have h1 := sum_le_length_mul (le_maxAngle t ts)
  have h2 := length_mul_le_sum (minAngle_le t ts)
  unfold idealAngle
  rw [hsum] at h1 h2
  constructor
  · rw [le_div_iff₀ hn0]; linarith
  · rw [div_le_iff₀ hn0]; linarith

/-- **range.**  For a face with `n ≥ 3` corners whose angles lie in `]0, pi[` and add up to
    `(n − 2)·pi` (angle sum of a simple polygon — a hypothesis) the skewness lies in `[0, 1[`. -/
theorem C19_skew_mem_Ico {pi : ℝ} (hpi : 0 < pi) (l : List ℝ) (hn : 3 ≤ l.length)
    (hθ : ∀ θ ∈ l, 0 < θ ∧ θ < pi) (hsum : l.sum = ((l.length : ℝ) - 2) * pi) :
    0 ≤ skewOfAngles pi l ∧ skewOfAngles pi l < 1 := by
  cases l with
  | nil => simp at hn
  | cons t ts =>
    obtain ⟨hi0, hi1⟩ := ideal_bounds hpi hn
    obtain ⟨hm, hM⟩ := ideal_between hsum
    have hMlt := (hθ _ (maxAngle_mem t ts)).2
    have hmpos := (hθ _ (minAngle_mem t ts)).1
    simp only [skewOfAngles]
    set I := idealAngle pi (t :: ts).length
    have hd : 0 < pi - I := by linarith
    constructor
    · exact le_max_of_le_left (div_nonneg (by linarith) hd.le)
    · apply max_lt
      · rw [div_lt_one hd]; linarith
      · rw [div_lt_one hi0]; linarith

/-- **equiangular faces.**  If every corner angle equals the ideal angle the skewness is 0
    (regular polygons in particular) — no side condition. -/
theorem C19_skew_eq_zero_of_equiangular (pi : ℝ) (l : List ℝ)
    (h : ∀ θ ∈ l, θ = idealAngle pi l.length) : skewOfAngles pi l = 0 := by
  cases l with
  | nil => rfl
  | cons t ts =>
    have h1 := h _ (maxAngle_mem t ts)
    have h2 := h _ (minAngle_mem t ts)
    simp only [skewOfAngles, h1, h2, sub_self, zero_div, max_self]

/-- conversely (for `n ≥ 3`, `0 < pi`): skewness 0 only for equiangular faces -/
theorem C19_skew_eq_zero_iff {pi : ℝ} (hpi : 0 < pi) (l : List ℝ) (hn : 3 ≤ l.length) :
    skewOfAngles pi l = 0 ↔ ∀ θ ∈ l, θ = idealAngle pi l.length := by
  refine ⟨?_, C19_skew_eq_zero_of_equiangular pi l⟩
  cases l with
  | nil => simp at hn
  | cons t ts =>
    obtain ⟨hi0, hi1⟩ := ideal_bounds hpi hn
    intro h0 θ hθ
    simp only [skewOfAngles] at h0
    set I := idealAngle pi (t :: ts).length
    have hd : 0 < pi - I := by linarith
    have hA : (maxAngle t ts - I) / (pi - I) ≤ 0 := h0 ▸ le_max_left _ _
    have hB : (I - minAngle t ts) / I ≤ 0 := h0 ▸ le_max_right _ _
    have hA' : maxAngle t ts - I ≤ 0 := by
      by_contra hc
      exact absurd hA (not_le.mpr (div_pos (not_le.mp hc) hd))
    have hB' : I - minAngle t ts ≤ 0 := by
      by_contra hc
      exact absurd hB (not_le.mpr (div_pos (not_le.mp hc) hi0))
    have := le_maxAngle t ts θ hθ
    have := minAngle_le t ts θ hθ
    linarith

/-! ### similarity invariance: the value depends on the geometry only through the corner angles -/

/-- cosine of the corner at `b` as the Rust computes it:
    `vin.dot(&vout) / (vin.norm() * vout.norm())` with `vin = v1 - v2`, `vout = v3 - v2` -/
noncomputable def cornerCos (a b c : P2 ℝ) : ℝ :=
  V2.dot (P2.sub a b) (P2.sub c b) /
    (Real.sqrt (V2.normSq (P2.sub a b)) * Real.sqrt (V2.normSq (P2.sub c b)))

/-- skewness of the polygon `pts` (vertices in the order of the darts `fid, β1 fid, …`), for any
    function `acos` turning the cosine into the measured angle -/
noncomputable def faceSkew (acos : ℝ → ℝ) (pi : ℝ) (pts : List (P2 ℝ)) : ℝ :=
  skewOfAngles pi ((corners pts).map fun c => acos (cornerCos c.1 c.2.1 c.2.2))

/-- a similarity: differences are transformed by a map `L` that multiplies dot products by `κ > 0` -/
structure Similarity (f : P2 ℝ → P2 ℝ) : Prop where
  ex : ∃ (L : V2 ℝ → V2 ℝ) (κ : ℝ), 0 < κ ∧ (∀ p q, P2.sub (f p) (f q) = L (P2.sub p q)) ∧
    (∀ v w, V2.dot (L v) (L w) = κ * V2.dot v w)

theorem C19_cornerCos_similarity {f : P2 ℝ → P2 ℝ} (hf : Similarity f) (a b c : P2 ℝ) :
    cornerCos (f a) (f b) (f c) = cornerCos a b c := by
  obtain ⟨L, κ, hκ, hsub, hdot⟩ := hf.ex
  have hn : ∀ v, V2.normSq (L v) = κ * V2.normSq v := fun v => hdot v v
  unfold cornerCos
  rw [hsub, hsub, hdot, hn, hn, Real.sqrt_mul hκ.le, Real.sqrt_mul hκ.le]
  have hk : Real.sqrt κ * Real.sqrt κ = κ := Real.mul_self_sqrt hκ.le
  have : Real.sqrt κ * Real.sqrt (V2.normSq (P2.sub a b)) * (Real.sqrt κ * Real.sqrt (V2.normSq (P2.sub c b)))
      = κ * (Real.sqrt (V2.normSq (P2.sub a b)) * Real.sqrt (V2.normSq (P2.sub c b))) := by
    rw [mul_mul_mul_comm, hk]
  rw [this, mul_div_mul_left _ _ hκ.ne']

theorem similarity_translate (t : V2 ℝ) : Similarity (fun p => P2.addV p t) :=
  ⟨⟨id, 1, one_pos, fun p q => by simp [P2.sub, P2.addV], fun v w => by simp⟩⟩

theorem similarity_scale {k : ℝ} (hk : k ≠ 0) : Similarity (fun p => ⟨k * p.x, k * p.y⟩) :=
  ⟨⟨fun v => V2.mul v k, k * k, mul_self_pos.mpr hk,
    fun p q => by simp only [P2.sub, V2.mul, V2.mk.injEq]; constructor <;> ring,
    fun v w => by simp only [V2.dot, V2.mul]; ring⟩⟩

theorem similarity_rotate {co si : ℝ} (h : co * co + si * si = 1) :
    Similarity (fun p => ⟨co * p.x - si * p.y, si * p.x + co * p.y⟩) :=
  ⟨⟨fun v => ⟨co * v.x - si * v.y, si * v.x + co * v.y⟩, 1, one_pos,
    fun p q => by simp only [P2.sub, V2.mk.injEq]; constructor <;> ring,
    fun v w => by
      simp only [V2.dot]
      have : (co * v.x - si * v.y) * (co * w.x - si * w.y) + (si * v.x + co * v.y) * (si * w.x + co * w.y)
          = (co * co + si * si) * (v.x * w.x + v.y * w.y) := by ring
      rw [this, h]⟩⟩

theorem similarity_reflect : Similarity (fun p => ⟨p.x, -p.y⟩) :=
  ⟨⟨fun v => ⟨v.x, -v.y⟩, 1, one_pos,
    fun p q => by simp only [P2.sub, V2.mk.injEq, true_and]; ring,
    fun v w => by simp only [V2.dot]; ring⟩⟩

theorem corners_map {β γ : Type} (f : β → γ) (pts : List β) :
    corners (pts.map f) = (corners pts).map fun c => (f c.1, f c.2.1, f c.2.2) := by
  unfold corners
  simp only [List.length_map, List.getElem?_map, List.map_filterMap]
  congr 1
  funext i
  cases pts[i % pts.length]? <;> cases pts[(i + 1) % pts.length]? <;>
    cases pts[(i + 2) % pts.length]? <;> rfl

/-- **similarity invariance** of the face skewness (translation, rotation, uniform scaling,
    reflection and their composites), for any angle function of the corner cosine -/
theorem C19_faceSkew_similarity (acos : ℝ → ℝ) (pi : ℝ) {f : P2 ℝ → P2 ℝ} (hf : Similarity f)
    (pts : List (P2 ℝ)) : faceSkew acos pi (pts.map f) = faceSkew acos pi pts := by
  unfold faceSkew
  rw [corners_map, List.map_map]
  congr 1
  apply List.map_congr_left
  intro c _
  simp only [Function.comp, C19_cornerCos_similarity hf]

/-! ### choice of the starting dart, on the polygon -/

/-- the vertex list read from the next dart of the face (`β1 fid` instead of `fid`) -/
def rotate1 {β : Type} : List β → List β
  | [] => []
  | a :: r => r ++ [a]

theorem rotate1_length {β : Type} (l : List β) : (rotate1 l).length = l.length := by
  cases l <;> simp [rotate1]

theorem rotate1_getElem? {β : Type} (a : β) (r : List β) (j : Nat) :
    (r ++ [a])[j % (r.length + 1)]? = (a :: r)[(j + 1) % (r.length + 1)]? := by
  have hlt : j % (r.length + 1) < r.length + 1 := Nat.mod_lt _ (Nat.succ_pos _)
  rw [Nat.add_mod]
  by_cases h : j % (r.length + 1) < r.length
  · have h1 : (1 : Nat) % (r.length + 1) = 1 % (r.length + 1) := rfl
    have : (j % (r.length + 1) + 1 % (r.length + 1)) % (r.length + 1) = j % (r.length + 1) + 1 := by
      rcases Nat.eq_zero_or_pos r.length with h0 | h0
      · omega
      · rw [Nat.mod_eq_of_lt (by omega : 1 < r.length + 1), Nat.mod_eq_of_lt (by omega)]
    rw [this, List.getElem?_append_left h, List.getElem?_cons_succ]
  · have he : j % (r.length + 1) = r.length := by omega
    have : (j % (r.length + 1) + 1 % (r.length + 1)) % (r.length + 1) = 0 := by
      rw [he]
      rcases Nat.eq_zero_or_pos r.length with h0 | h0
      · rw [h0]
      · rw [Nat.mod_eq_of_lt (by omega : 1 < r.length + 1), Nat.mod_self]
    rw [this, he, List.getElem?_append_right (Nat.le_refl _)]
    simp

theorem perm_map_succ_mod (m : Nat) :
    ((List.range (m + 1)).map fun i => (i + 1) % (m + 1)).Perm (List.range (m + 1)) := by
  have h1 : (List.range (m + 1)).map (fun i => (i + 1) % (m + 1))
      = (List.range m).map (· + 1) ++ [0] := by
    rw [List.range_succ, List.map_append]
    congr 1
    · apply List.map_congr_left
      intro i hi
      have := List.mem_range.mp hi
      exact Nat.mod_eq_of_lt (by omega)
    · simp
  rw [h1, List.range_succ_eq_map]
  exact List.perm_append_singleton _ _

theorem corners_rotate1_perm {β : Type} (pts : List β) :
    (corners (rotate1 pts)).Perm (corners pts) := by
  cases pts with
  | nil => exact List.Perm.refl _
  | cons a r =>
    have hfun : corners (rotate1 (a :: r))
        = ((List.range (r.length + 1)).map fun i => (i + 1) % (r.length + 1)).filterMap fun i =>
            match (a :: r)[i % (r.length + 1)]?, (a :: r)[(i + 1) % (r.length + 1)]?,
              (a :: r)[(i + 2) % (r.length + 1)]? with
            | some x, some y, some z => some (x, y, z)
            | _, _, _ => none := by
      simp only [corners, rotate1, List.length_append, List.length_cons, List.length_nil,
        List.filterMap_map, Nat.zero_add]
      apply List.filterMap_congr
      intro i _
      simp only [Function.comp]
      rw [rotate1_getElem? a r i, rotate1_getElem? a r (i + 1), rotate1_getElem? a r (i + 2)]
      have e0 : (i + 1) % (r.length + 1) % (r.length + 1) = (i + 1) % (r.length + 1) := Nat.mod_mod _ _
      have e1 : ((i + 1) % (r.length + 1) + 1) % (r.length + 1) = (i + 1 + 1) % (r.length + 1) := by
        rw [Nat.add_mod, Nat.mod_mod, ← Nat.add_mod]
      have e2 : ((i + 1) % (r.length + 1) + 2) % (r.length + 1) = (i + 2 + 1) % (r.length + 1) := by
        rw [Nat.add_mod, Nat.mod_mod, ← Nat.add_mod]
      rw [e0, e1, e2]
      generalize (a :: r)[(i + 1) % (r.length + 1)]? = x
      generalize (a :: r)[(i + 1 + 1) % (r.length + 1)]? = y
      generalize (a :: r)[(i + 2 + 1) % (r.length + 1)]? = z
      cases x <;> cases y <;> cases z <;> rfl
    rw [hfun]
    simp only [corners, List.length_cons]
    exact (perm_map_succ_mod r.length).filterMap _

theorem corners_iterate_rotate1_perm {β : Type} (k : Nat) (pts : List β) :
    (corners (rotate1^[k] pts)).Perm (corners pts) := by
  induction k generalizing pts with
  | zero => exact List.Perm.refl _
  | succ k ih =>
    rw [Function.iterate_succ_apply]
    exact (ih (rotate1 pts)).trans (corners_rotate1_perm pts)

/-- **choice of the starting dart**: reading the face from its `k`-th dart does not change the value -/
theorem C19_faceSkew_start_dart (acos : ℝ → ℝ) (pi : ℝ) (k : Nat) (pts : List (P2 ℝ)) :
    faceSkew acos pi (rotate1^[k] pts) = faceSkew acos pi pts :=
  C19_skew_perm pi ((corners_iterate_rotate1_perm k pts).map _)

end Skew

/-! ## Non-vacuity: every theorem is instantiated, every hypothesis shown satisfiable -/
section Examples

-- (a) exact laws, on ℚ
example : V2.sub (⟨1, 2⟩ : V2 ℚ) ⟨1, 2⟩ = ⟨0, 0⟩ := C19_v2_sub_self _
example : V2.sub (V2.add (⟨1, 2⟩ : V2 ℚ) ⟨3, 5⟩) ⟨1, 2⟩ = ⟨3, 5⟩ := C19_v2_add_sub_cancel _ _
example : V2.addAssign (⟨1, 2⟩ : V2 ℚ) ⟨3, 5⟩ = V2.add ⟨1, 2⟩ ⟨3, 5⟩ := C19_v2_addAssign_eq _ _
example : V2.mulAssign (⟨1, 2⟩ : V2 ℚ) 3 = V2.mul ⟨1, 2⟩ 3 := C19_v2_mulAssign_eq _ _
example : V2.divAssign (⟨1, 2⟩ : V2 ℚ) 4 = V2.div ⟨1, 2⟩ 4 := C19_v2_divAssign_eq _ _
example : V2.subAssign (⟨1, 2⟩ : V2 ℚ) ⟨3, 5⟩ = V2.sub ⟨1, 2⟩ ⟨3, 5⟩ := C19_v2_subAssign_eq _ _
/-- HISTORICAL (D12, fixed in /repo 90eb331): the OLD body `self.0 -= rhs.0; self.0 -= rhs.0;` computed
    `(a.x - b.x - b.x, a.y)`, which is not `a - b` — e.g. `(1,2) -= (3/2,-1/4)` gave `(-2, 2)` instead of
    `(-1/2, 9/4)`.  This is a statement about the old formula only; `V2.subAssign` no longer has it. -/
example : (⟨(1 : ℚ) - 3 / 2 - 3 / 2, 2⟩ : V2 ℚ) ≠ V2.sub ⟨1, 2⟩ ⟨3 / 2, -1 / 4⟩ := by
  intro h
  have h2 := congrArg V2.y h
  norm_num [V2.sub] at h2
example : V2.dot (⟨1, 2⟩ : V2 ℚ) ⟨3, 5⟩ = V2.dot ⟨3, 5⟩ ⟨1, 2⟩ := C19_v2_dot_comm _ _
example : V2.neg (⟨1, 2⟩ : V2 ℚ) = V2.sub ⟨0, 0⟩ ⟨1, 2⟩ := C19_v2_neg_eq _
example : V2.div (⟨1, 2⟩ : V2 ℚ) 4 = some (V2.divCore ⟨1, 2⟩ 4) :=
  (C19_v2_div_ok_iff _ _).mpr (by norm_num)
example : V2.div (⟨1, 2⟩ : V2 ℚ) 0 ≠ some (V2.divCore ⟨1, 2⟩ 0) := fun h =>
  (C19_v2_div_ok_iff _ _).mp h rfl
example : V3.sub (⟨1, 2, 3⟩ : V3 ℚ) ⟨1, 2, 3⟩ = ⟨0, 0, 0⟩ := C19_v3_sub_self _
example : V3.sub (V3.add (⟨1, 2, 3⟩ : V3 ℚ) ⟨3, 5, 7⟩) ⟨1, 2, 3⟩ = ⟨3, 5, 7⟩ :=
  C19_v3_add_sub_cancel _ _
example : V3.addAssign (⟨1, 2, 3⟩ : V3 ℚ) ⟨3, 5, 7⟩ = V3.add ⟨1, 2, 3⟩ ⟨3, 5, 7⟩ := C19_v3_addAssign_eq _ _
example : V3.subAssign (⟨1, 2, 3⟩ : V3 ℚ) ⟨3, 5, 7⟩ = V3.sub ⟨1, 2, 3⟩ ⟨3, 5, 7⟩ := C19_v3_subAssign_eq _ _
example : V3.mulAssign (⟨1, 2, 3⟩ : V3 ℚ) 3 = V3.mul ⟨1, 2, 3⟩ 3 := C19_v3_mulAssign_eq _ _
example : V3.divAssign (⟨1, 2, 3⟩ : V3 ℚ) 4 = V3.div ⟨1, 2, 3⟩ 4 := C19_v3_divAssign_eq _ _
example : V3.dot (⟨1, 2, 3⟩ : V3 ℚ) ⟨3, 5, 7⟩ = V3.dot ⟨3, 5, 7⟩ ⟨1, 2, 3⟩ := C19_v3_dot_comm _ _
example : V3.cross (⟨1, 0, 0⟩ : V3 ℚ) ⟨0, 1, 0⟩ = V3.neg (V3.cross ⟨0, 1, 0⟩ ⟨1, 0, 0⟩) :=
  C19_v3_cross_antisymm _ _
example : V3.dot (V3.cross (⟨1, 2, 3⟩ : V3 ℚ) ⟨3, 5, 7⟩) ⟨1, 2, 3⟩ = 0 := C19_v3_cross_dot_left _ _
example : V3.dot (V3.cross (⟨1, 2, 3⟩ : V3 ℚ) ⟨3, 5, 7⟩) ⟨3, 5, 7⟩ = 0 := C19_v3_cross_dot_right _ _
example : V3.div (⟨1, 2, 3⟩ : V3 ℚ) 4 = some (V3.divCore ⟨1, 2, 3⟩ 4) :=
  (C19_v3_div_ok_iff _ _).mpr (by norm_num)
example : P2.addVAssign (⟨1, 2⟩ : P2 ℚ) ⟨3, 5⟩ = P2.addV ⟨1, 2⟩ ⟨3, 5⟩ := C19_p2_addVAssign_eq _ _
example : P2.addVRef (⟨1, 2⟩ : P2 ℚ) ⟨3, 5⟩ = P2.addV ⟨1, 2⟩ ⟨3, 5⟩ := C19_p2_addVRef_eq _ _
example : P2.addVRefAssign (⟨1, 2⟩ : P2 ℚ) ⟨3, 5⟩ = P2.addV ⟨1, 2⟩ ⟨3, 5⟩ := C19_p2_addVRefAssign_eq _ _
example : P2.subVAssign (⟨1, 2⟩ : P2 ℚ) ⟨3, 5⟩ = P2.subV ⟨1, 2⟩ ⟨3, 5⟩ := C19_p2_subVAssign_eq _ _
example : P2.subVRef (⟨1, 2⟩ : P2 ℚ) ⟨3, 5⟩ = P2.subV ⟨1, 2⟩ ⟨3, 5⟩ := C19_p2_subVRef_eq _ _
example : P2.subVRefAssign (⟨1, 2⟩ : P2 ℚ) ⟨3, 5⟩ = P2.subV ⟨1, 2⟩ ⟨3, 5⟩ := C19_p2_subVRefAssign_eq _ _
example : P2.sub (⟨1, 2⟩ : P2 ℚ) ⟨1, 2⟩ = ⟨0, 0⟩ := C19_p2_sub_self _
example : P2.sub (P2.addV (⟨1, 2⟩ : P2 ℚ) ⟨3, 5⟩) ⟨1, 2⟩ = ⟨3, 5⟩ := C19_p2_add_sub_cancel _ _
example : P2.subV (P2.addV (⟨1, 2⟩ : P2 ℚ) ⟨3, 5⟩) ⟨3, 5⟩ = ⟨1, 2⟩ := C19_p2_addV_subV_cancel _ _
example : P3.addVAssign (⟨1, 2, 3⟩ : P3 ℚ) ⟨3, 5, 7⟩ = P3.addV ⟨1, 2, 3⟩ ⟨3, 5, 7⟩ := C19_p3_addVAssign_eq _ _
example : P3.addVRef (⟨1, 2, 3⟩ : P3 ℚ) ⟨3, 5, 7⟩ = P3.addV ⟨1, 2, 3⟩ ⟨3, 5, 7⟩ := C19_p3_addVRef_eq _ _
example : P3.addVRefAssign (⟨1, 2, 3⟩ : P3 ℚ) ⟨3, 5, 7⟩ = P3.addV ⟨1, 2, 3⟩ ⟨3, 5, 7⟩ :=
  C19_p3_addVRefAssign_eq _ _
example : P3.subVAssign (⟨1, 2, 3⟩ : P3 ℚ) ⟨3, 5, 7⟩ = P3.subV ⟨1, 2, 3⟩ ⟨3, 5, 7⟩ := C19_p3_subVAssign_eq _ _
example : P3.subVRef (⟨1, 2, 3⟩ : P3 ℚ) ⟨3, 5, 7⟩ = P3.subV ⟨1, 2, 3⟩ ⟨3, 5, 7⟩ := C19_p3_subVRef_eq _ _
example : P3.subVRefAssign (⟨1, 2, 3⟩ : P3 ℚ) ⟨3, 5, 7⟩ = P3.subV ⟨1, 2, 3⟩ ⟨3, 5, 7⟩ :=
  C19_p3_subVRefAssign_eq _ _
example : P3.sub (⟨1, 2, 3⟩ : P3 ℚ) ⟨1, 2, 3⟩ = ⟨0, 0, 0⟩ := C19_p3_sub_self _
example : P3.sub (P3.addV (⟨1, 2, 3⟩ : P3 ℚ) ⟨3, 5, 7⟩) ⟨1, 2, 3⟩ = ⟨3, 5, 7⟩ := C19_p3_add_sub_cancel _ _
example : P3.subV (P3.addV (⟨1, 2, 3⟩ : P3 ℚ) ⟨3, 5, 7⟩) ⟨3, 5, 7⟩ = ⟨1, 2, 3⟩ :=
  C19_p3_addV_subV_cancel _ _

-- orientation
example : P2.orient (⟨0, 0⟩ : P2 ℚ) ⟨1, 0⟩ ⟨0, 1⟩ = shoelace2 ⟨0, 0⟩ ⟨1, 0⟩ ⟨0, 1⟩ := C19_orient_eq_shoelace _ _ _
example : P2.orient (⟨0, 0⟩ : P2 ℚ) ⟨1, 0⟩ ⟨0, 1⟩ = -P2.orient ⟨0, 0⟩ ⟨0, 1⟩ ⟨1, 0⟩ := C19_orient_swap _ _ _
example : P2.orient (⟨0, 0⟩ : P2 ℚ) ⟨1, 0⟩ ⟨0, 1⟩ = P2.orient ⟨1, 0⟩ ⟨0, 1⟩ ⟨0, 0⟩ := C19_orient_cyclic _ _ _
example (a b c : P2 ℚ) :
    P2.orient (⟨2 * a.x + 0 * a.y + 7, 0 * a.x + 3 * a.y + 1⟩ : P2 ℚ) ⟨2 * b.x + 0 * b.y + 7, 0 * b.x + 3 * b.y + 1⟩
      ⟨2 * c.x + 0 * c.y + 7, 0 * c.x + 3 * c.y + 1⟩ = (2 * 3 - 0 * 0) * P2.orient a b c :=
  C19_orient_affine 2 0 0 3 7 1 a b c
/-- the standard frame `(0,0), (1,0), (0,1)` is counter-clockwise and its orientation product positive -/
example : Ccw (⟨0, 0⟩ : P2 ℚ) ⟨1, 0⟩ ⟨0, 1⟩ := by norm_num [Ccw, shoelace2]
example : 0 < P2.orient (⟨0, 0⟩ : P2 ℚ) ⟨1, 0⟩ ⟨0, 1⟩ :=
  (C19_orient_pos_iff_ccw _ _ _).mpr (by norm_num [Ccw, shoelace2])
example : P2.orient (⟨0, 0⟩ : P2 ℚ) ⟨0, 1⟩ ⟨1, 0⟩ < 0 :=
  (C19_orient_neg_iff_cw _ _ _).mpr (by norm_num [Cw, shoelace2])
example : Cw (⟨0, 0⟩ : P2 ℚ) ⟨0, 1⟩ ⟨1, 0⟩ :=
  (C19_cw_iff_ccw_swap _ _ _).mpr (by norm_num [Ccw, shoelace2])

-- average
example : P2.average (⟨0, 0⟩ : P2 ℚ) ⟨2, 4⟩ = P2.average ⟨2, 4⟩ ⟨0, 0⟩ := C19_p2_average_comm _ _
example : P3.average (⟨0, 0, 1⟩ : P3 ℚ) ⟨2, 4, 3⟩ = P3.average ⟨2, 4, 3⟩ ⟨0, 0, 1⟩ := C19_p3_average_comm _ _
example := (C19_p2_average_between (⟨0, 0⟩ : P2 ℚ) ⟨2, 4⟩).1.1
example := (C19_p3_average_between (⟨0, 0, 1⟩ : P3 ℚ) ⟨2, 4, 3⟩).2.2.2

-- unit_dir / normal_dir: both outcomes occur
example : V2.unitDirPre (⟨0, 0⟩ : V2 ℚ) = .error .invalidUnitDir := (C19_v2_unitDir_err_iff _).mpr rfl
example : V2.unitDirPre (⟨3, 4⟩ : V2 ℚ) = .ok (V2.normSq ⟨3, 4⟩, ⟨3, 4⟩) :=
  (C19_v2_unitDir_ok_iff _).mpr (by simp)
example : V2.normalDirPre (⟨0, 0⟩ : V2 ℚ) = .error .invalidNormDir := (C19_v2_normalDir_err_iff _).mpr rfl
example : V2.normalDirPre (⟨3, 4⟩ : V2 ℚ) = .ok (V2.normSq (⟨-4, 3⟩ : V2 ℚ), ⟨-4, 3⟩) :=
  (C19_v2_normalDir_ok_iff _).mpr (by simp)
example : V3.unitDirPre (⟨0, 0, 0⟩ : V3 ℚ) = .error .invalidUnitDir := (C19_v3_unitDir_err_iff _).mpr rfl
example : V3.unitDirPre (⟨1, 2, 2⟩ : V3 ℚ) = .ok (V3.normSq ⟨1, 2, 2⟩, ⟨1, 2, 2⟩) :=
  (C19_v3_unitDir_ok_iff _).mpr (by simp)
example : unitDirR2 ⟨0, 0⟩ = .error .invalidUnitDir := (C19_unitDirR2_err_iff _).mpr rfl
example : normalDirR2 ⟨0, 0⟩ = .error .invalidNormDir := (C19_normalDirR2_err_iff _).mpr rfl
example : unitDirR3 ⟨0, 0, 0⟩ = .error .invalidUnitDir := (C19_unitDirR3_err_iff _).mpr rfl
example : ∃ r k, unitDirR2 ⟨3, 4⟩ = .ok r ∧ V2.div ⟨3, 4⟩ (Real.sqrt (V2.normSq ⟨3, 4⟩)) = some r ∧
    V2.normSq r = 1 ∧ 0 < k ∧ r = V2.mul ⟨3, 4⟩ k := C19_unitDirR2_spec ⟨3, 4⟩ (by simp)
example : ∃ r k, normalDirR2 ⟨3, 4⟩ = .ok r ∧ V2.normSq r = 1 ∧ 0 < k ∧ r = V2.mul ⟨-4, 3⟩ k ∧
    V2.dot r ⟨3, 4⟩ = 0 ∧ 0 < (3 : ℝ) * r.y - 4 * r.x := C19_normalDirR2_spec ⟨3, 4⟩ (by simp)
example : ∃ r k, unitDirR3 ⟨1, 2, 2⟩ = .ok r ∧ V3.div ⟨1, 2, 2⟩ (Real.sqrt (V3.normSq ⟨1, 2, 2⟩)) = some r ∧
    V3.normSq r = 1 ∧ 0 < k ∧ r = V3.mul ⟨1, 2, 2⟩ k := C19_unitDirR3_spec ⟨1, 2, 2⟩ (by simp)

-- (b) the rounding model is satisfiable: exact arithmetic, and a genuinely inexact rounding
theorem roundModel_id : RoundModel (id : ℝ → ℝ) 0 := ⟨le_rfl, one_pos, fun x => by simp⟩

/-- `fl x = x·(1 + 1/4)` commits exactly the maximal relative error `u = 1/4` -/
theorem roundModel_quarter : RoundModel (fun x : ℝ => x * (1 + 1 / 4)) (1 / 4) :=
  ⟨by norm_num, by norm_num, fun x => by
    have : x * (1 + 1 / 4) - x = 1 / 4 * x := by ring
    rw [this, abs_mul]; norm_num⟩

example : (fun x : ℝ => x * (1 + 1 / 4)) 0 = 0 := roundModel_quarter.fl_zero
example : 0 < (fun x : ℝ => x * (1 + 1 / 4)) 2 ↔ (0 : ℝ) < 2 := roundModel_quarter.fl_pos_iff 2
example : (fun x : ℝ => x * (1 + 1 / 4)) (-2) < 0 ↔ (-2 : ℝ) < 0 := roundModel_quarter.fl_neg_iff (-2)
example : ∃ d, |d - 1| ≤ (1 / 4 : ℝ) ∧ (fun x : ℝ => x * (1 + 1 / 4)) 2 = 2 * d := roundModel_quarter.fl_rel 2
example (v : V2 (FlR fun x : ℝ => x * (1 + 1 / 4))) : V2.sub v v = ⟨⟨0⟩, ⟨0⟩⟩ := C19_fl_v2_sub_self roundModel_quarter v
example (v : V3 (FlR fun x : ℝ => x * (1 + 1 / 4))) : V3.sub v v = ⟨⟨0⟩, ⟨0⟩, ⟨0⟩⟩ := C19_fl_v3_sub_self roundModel_quarter v
example (v : P2 (FlR fun x : ℝ => x * (1 + 1 / 4))) : P2.sub v v = ⟨⟨0⟩, ⟨0⟩⟩ := C19_fl_p2_sub_self roundModel_quarter v
example (v : P3 (FlR fun x : ℝ => x * (1 + 1 / 4))) : P3.sub v v = ⟨⟨0⟩, ⟨0⟩, ⟨0⟩⟩ := C19_fl_p3_sub_self roundModel_quarter v
example (a b : ℝ) : |(fun x : ℝ => x * (1 + 1 / 4)) ((fun x : ℝ => x * (1 + 1 / 4)) (a + b) - a) - b|
    ≤ (2 * (1 / 4) + (1 / 4) ^ 2) * (|a| + |b|) := roundModel_quarter.add_sub_bound a b
example (v w : V2 (FlR fun x : ℝ => x * (1 + 1 / 4))) :=
  C19_fl_v2_add_sub_bound roundModel_quarter v w
example (v w : V3 (FlR fun x : ℝ => x * (1 + 1 / 4))) :=
  C19_fl_v3_add_sub_bound roundModel_quarter v w
example (p : P2 (FlR fun x : ℝ => x * (1 + 1 / 4))) (w : V2 (FlR fun x : ℝ => x * (1 + 1 / 4))) :=
  C19_fl_p2_add_sub_bound roundModel_quarter p w
example (p : P3 (FlR fun x : ℝ => x * (1 + 1 / 4))) (w : V3 (FlR fun x : ℝ => x * (1 + 1 / 4))) :=
  C19_fl_p3_add_sub_bound roundModel_quarter p w
example (a b : V2 (FlR fun x : ℝ => x * (1 + 1 / 4))) : V2.dot a b = V2.dot b a := C19_fl_v2_dot_comm a b
example (a b : V3 (FlR fun x : ℝ => x * (1 + 1 / 4))) : V3.dot a b = V3.dot b a := C19_fl_v3_dot_comm a b
example (a b : P2 (FlR fun x : ℝ => x * (1 + 1 / 4))) : P2.average a b = P2.average b a := C19_fl_p2_average_comm a b
example (a b : P3 (FlR fun x : ℝ => x * (1 + 1 / 4))) : P3.average a b = P3.average b a := C19_fl_p3_average_comm a b
/-- the oddness hypothesis of the antisymmetry theorem is satisfiable by an inexact rounding -/
example (a b : V3 (FlR fun x : ℝ => x * (1 + 1 / 4))) : V3.cross a b = V3.neg (V3.cross b a) :=
  C19_fl_v3_cross_antisymm (fun x => by ring) a b
example (x y : ℝ) := roundModel_quarter.prod_bound x y

/-- the band hypothesis of the orientation theorem is satisfiable with an inexact rounding (`u = 1/4`,
    band factor `61/64`): the standard frame is far from collinear, the computed sign is right -/
example : 0 < (P2.orient (α := FlR fun x : ℝ => x * (1 + 1 / 4)) ⟨⟨0⟩, ⟨0⟩⟩ ⟨⟨1⟩, ⟨0⟩⟩ ⟨⟨0⟩, ⟨1⟩⟩).val :=
  (C19_fl_orient_sign roundModel_quarter ⟨⟨0⟩, ⟨0⟩⟩ ⟨⟨1⟩, ⟨0⟩⟩ ⟨⟨0⟩, ⟨1⟩⟩
    (by norm_num [orientBand, toR2, P2.orient])).1.mpr (by norm_num [toR2, P2.orient])

-- (c) skewness: a right triangle measured with `pi = 4` (angles 2, 1, 1), an equilateral one with `pi = 3`
example : 0 ≤ skewOfAngles (4 : ℝ) [2, 1, 1] ∧ skewOfAngles (4 : ℝ) [2, 1, 1] < 1 :=
  C19_skew_mem_Ico (by norm_num) _ (by simp) (by
    intro θ hθ
    simp only [List.mem_cons, List.not_mem_nil, or_false] at hθ
    rcases hθ with rfl | rfl | rfl <;> norm_num) (by norm_num)
example : skewOfAngles (3 : ℝ) [1, 1, 1] = 0 :=
  C19_skew_eq_zero_of_equiangular _ _ (by
    intro θ hθ
    simp only [List.mem_cons, List.not_mem_nil, or_false] at hθ
    rcases hθ with rfl | rfl | rfl <;> norm_num [idealAngle])
example : skewOfAngles (4 : ℝ) [2, 1, 1] ≠ 0 := fun h => by
  have := (C19_skew_eq_zero_iff (by norm_num) _ (by simp)).mp h 2 (by simp)
  norm_num [idealAngle] at this
example : skewOfAngles (4 : ℝ) [1, 2, 1] = skewOfAngles (4 : ℝ) [2, 1, 1] :=
  C19_skew_perm _ (List.Perm.swap ..)
example : skewOfAngles (4 : ℝ) ([2, 1, 1].drop 1 ++ [2, 1, 1].take 1) = skewOfAngles (4 : ℝ) [2, 1, 1] :=
  C19_skew_rotate _ _ 1
example : skewOfAngles (4 : ℝ) ([2, 1, 1].rotateLeft 2) = skewOfAngles (4 : ℝ) [2, 1, 1] :=
  C19_skew_rotateLeft _ _ 2
example : skewOfAngles (4 : ℝ) [2, 1, 1].reverse = skewOfAngles (4 : ℝ) [2, 1, 1] := C19_skew_reverse _ _
example : minAngle (2 : ℝ) [1, 1] ≤ 1 := minAngle_le _ _ _ (by simp)
example : minAngle (2 : ℝ) [1, 1] ∈ [(2 : ℝ), 1, 1] := minAngle_mem _ _
example : (2 : ℝ) ≤ maxAngle 2 [1, 1] := le_maxAngle _ _ _ (by simp)
example : maxAngle (2 : ℝ) [1, 1] ∈ [(2 : ℝ), 1, 1] := maxAngle_mem _ _

-- similarities exist: translation, scaling, the 3-4-5 rotation, reflection
example : Similarity (fun p => P2.addV p ⟨7, -1⟩) := similarity_translate _
example : Similarity (fun p => ⟨3 * p.x, 3 * p.y⟩) := similarity_scale (by norm_num)
example : Similarity (fun p => ⟨3 / 5 * p.x - 4 / 5 * p.y, 4 / 5 * p.x + 3 / 5 * p.y⟩) :=
  similarity_rotate (by norm_num)
example : Similarity (fun p => ⟨p.x, -p.y⟩) := similarity_reflect
example (a b c : P2 ℝ) : cornerCos (P2.addV a ⟨7, -1⟩) (P2.addV b ⟨7, -1⟩) (P2.addV c ⟨7, -1⟩) = cornerCos a b c :=
  C19_cornerCos_similarity (similarity_translate _) a b c
example (acos : ℝ → ℝ) (pts : List (P2 ℝ)) :
    faceSkew acos 3 (pts.map fun p => ⟨3 / 5 * p.x - 4 / 5 * p.y, 4 / 5 * p.x + 3 / 5 * p.y⟩) = faceSkew acos 3 pts :=
  C19_faceSkew_similarity acos 3 (similarity_rotate (by norm_num)) pts
example : corners ([1, 2, 3].map (· + 1)) = (corners [1, 2, 3]).map fun c => (c.1 + 1, c.2.1 + 1, c.2.2 + 1) :=
  corners_map _ _

-- added rounding theorems
example (x y z w : ℝ) := roundModel_quarter.sub_prod_bound x y z w
example (s0 s1 s2 : ℝ) := roundModel_quarter.dot3_bound s0 s1 s2
example (a b : V3 (FlR fun x : ℝ => x * (1 + 1 / 4))) := C19_fl_v3_cross_dot_bound roundModel_quarter a b
/-- the hypotheses of the scalar core are satisfiable: exact cross product of `e_x`, `e_y` against `e_x` -/
example := roundModel_quarter.orth_bound (c0 := 0) (c1 := 0) (c2 := 1) (k0 := 0) (k1 := 0) (k2 := 1)
  (m0 := 0) (m1 := 0) (m2 := 1) (w0 := 1) (w1 := 0) (w2 := 0) (ε := 0)
  (by norm_num) (by norm_num) (by norm_num) (by norm_num) (by norm_num) (by norm_num) (by norm_num)
example : (2 * (2⁻¹ : ℝ) ^ 24 + ((2⁻¹ : ℝ) ^ 24) ^ 2)
    + (3 * (2⁻¹ : ℝ) ^ 24 + 3 * ((2⁻¹ : ℝ) ^ 24) ^ 2 + ((2⁻¹ : ℝ) ^ 24) ^ 3) * (1 + (2 * (2⁻¹ : ℝ) ^ 24 + ((2⁻¹ : ℝ) ^ 24) ^ 2))
    ≤ 6 * (2⁻¹ : ℝ) ^ 24 := cross_dot_const_le (by positivity) (by norm_num)
/-- satisfiable with an inexact monotone rounding: round to the nearest integer below (`⌊x⌋`) -/
example : (min (1 : ℝ) 4 ≤ (fun x : ℝ => (⌊x⌋ : ℝ)) ((fun x : ℝ => (⌊x⌋ : ℝ)) (1 + 4) / 2)) :=
  (fl_mid_between (fl := fun x : ℝ => (⌊x⌋ : ℝ)) (fun x y h => by
      show ((⌊x⌋ : ℤ) : ℝ) ≤ ((⌊y⌋ : ℤ) : ℝ)
      exact_mod_cast Int.floor_le_floor h)
    (a := 1) (b := 4) ⟨by norm_num, by norm_num⟩ ⟨by norm_num, by norm_num⟩).1

example (a b : P2 (FlR fun x : ℝ => (⌊x⌋ : ℝ))) (h : Monotone fun x : ℝ => (⌊x⌋ : ℝ))
    (h1 : Rep (fun x : ℝ => (⌊x⌋ : ℝ)) a.x.val) (h2 : Rep (fun x : ℝ => (⌊x⌋ : ℝ)) b.x.val)
    (h3 : Rep (fun x : ℝ => (⌊x⌋ : ℝ)) a.y.val) (h4 : Rep (fun x : ℝ => (⌊x⌋ : ℝ)) b.y.val) :=
  C19_fl_p2_average_between h a b h1 h2 h3 h4
example (a b : P3 (FlR fun x : ℝ => (⌊x⌋ : ℝ))) (h : Monotone fun x : ℝ => (⌊x⌋ : ℝ))
    (h1 : Rep (fun x : ℝ => (⌊x⌋ : ℝ)) a.x.val) (h2 : Rep (fun x : ℝ => (⌊x⌋ : ℝ)) b.x.val)
    (h3 : Rep (fun x : ℝ => (⌊x⌋ : ℝ)) a.y.val) (h4 : Rep (fun x : ℝ => (⌊x⌋ : ℝ)) b.y.val)
    (h5 : Rep (fun x : ℝ => (⌊x⌋ : ℝ)) a.z.val) (h6 : Rep (fun x : ℝ => (⌊x⌋ : ℝ)) b.z.val) :=
  C19_fl_p3_average_between h a b h1 h2 h3 h4 h5 h6

-- starting dart on the polygon
example : rotate1 [1, 2, 3] = [2, 3, 1] := rfl
example : (rotate1 [1, 2, 3]).length = 3 := rotate1_length _
example := rotate1_getElem? 1 [2, 3] 5
example := perm_map_succ_mod 4
example : (corners (rotate1 [1, 2, 3])).Perm (corners [1, 2, 3]) := corners_rotate1_perm _
example : (corners (rotate1^[2] [1, 2, 3, 4])).Perm (corners [1, 2, 3, 4]) := corners_iterate_rotate1_perm 2 _
example (acos : ℝ → ℝ) (pts : List (P2 ℝ)) : faceSkew acos 3 (rotate1^[2] pts) = faceSkew acos 3 pts :=
  C19_faceSkew_start_dart acos 3 2 pts

end Examples

end HC.C19
