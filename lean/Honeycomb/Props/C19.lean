/-
  C19 — geometric primitives and the skewness measure obey their contracts.

  All theorems are about the definitions of `Model/Geometry.lean` (the model tied to the Rust by the
  `geo` correspondence stream), instantiated
    (a) with an arbitrary field `K` (exact laws; ordered where an order is needed) and with `ℝ`
        (`unit_dir`/`normal_dir` with `Real.sqrt`),
    (b) with the rounded arithmetic `FlR fl` — the SAME model definitions evaluated with
        `x ⊕ y := fl (x + y)` … under the hypothesis structure `RoundModel fl u` (standard model of
        floating-point arithmetic without overflow/underflow; a hypothesis, not an axiom),
    (c) with `ℝ` for the skewness formula.

  FINDING (D11).  `impl SubAssign<Vector2<T>> for Vector2<T>` is not `Sub`: the model mirrors the code
  (`self.0 -= rhs.0; self.0 -= rhs.0;`), `C19_v2_subAssign_fails` is the proved negation of the
  clause "compound assignment = binary operator" for that operator, `C19_v2_subAssign_eq_iff` the
  partial theorem (equality exactly when the right-hand side is the null vector).

  NOT PROVED (validated by the float stream of tools/props/c19.py only, see SPEC["not_proved"]):
  * that IEEE-754 binary32/binary64 arithmetic satisfies `RoundModel` (true for round-to-nearest absent
    overflow/underflow with u = 2⁻²⁴ / 2⁻⁵³; Mathlib has no IEEE theory);
  * bit-for-bit clauses on the machine types (compound = binary, dot symmetric, cross antisymmetric):
    proved here for every arithmetic (`FlR fl` with `fl` arbitrary) as equalities of model terms, which
    is the content of "bit for bit" given that the Rust evaluates the same expression; the statement
    about the compiled code is validated, not proved;
  * the rounding bound on `(a × b)·a` (orthogonality of the computed cross product up to rounding);
  * accuracy of `hypot`/`sqrt`/`acos`: "`unit_dir` returns a vector of norm 1 ± 1e-12 (f64) / 1e-5 (f32)" and
    "skewness ≈ 0 / invariant up to 1e-9" are exact theorems over ℝ here and tolerance tests there;
  * the angle sum of a convex polygon (hypothesis `hsum` of `C19_skew_nonneg`/`C19_skew_mem_Icc`), and that
    the corner angles of a convex polygon lie in ]0, π[ (hypothesis `hθ`).
-/
import Honeycomb.Model.Geometry
import Mathlib.Tactic.Ring
import Mathlib.Tactic.Linarith
import Mathlib.Tactic.Positivity
import Mathlib.Tactic.FieldSimp
import Mathlib.Analysis.Real.Sqrt

namespace HC.C19
open HC.Geo

/-! ## (a) exact laws over a field -/
section Exact
variable {K : Type} [Field K]

/-! ### Vector2 -/

theorem C19_v2_sub_self (v : V2 K) : V2.sub v v = ⟨0, 0⟩ := by
  simp [V2.sub]

theorem C19_v2_add_sub_cancel (v u : V2 K) : V2.sub (V2.add v u) v = u := by
  cases u; simp [V2.sub, V2.add]

theorem C19_v2_addAssign_eq (a b : V2 K) : V2.addAssign a b = V2.add a b := rfl

theorem C19_v2_mulAssign_eq (a : V2 K) (k : K) : V2.mulAssign a k = V2.mul a k := rfl

theorem C19_v2_divAssign_eq [DecidableEq K] (a : V2 K) (k : K) : V2.divAssign a k = V2.div a k := rfl

/-- what `SubAssign for Vector2` computes -/
theorem C19_v2_subAssign_formula (a b : V2 K) : V2.subAssign a b = ⟨a.x - 2 * b.x, a.y⟩ := by
  simp only [V2.subAssign, V2.mk.injEq, and_true]; ring

/-- partial theorem: `a -= b` agrees with `a - b` exactly when `b` is the null vector -/
theorem C19_v2_subAssign_eq_iff (a b : V2 K) :
    V2.subAssign a b = V2.sub a b ↔ b.x = 0 ∧ b.y = 0 := by
  simp only [V2.subAssign, V2.sub, V2.mk.injEq]
  constructor
  · rintro ⟨h1, h2⟩
    exact ⟨sub_eq_self.mp h1, sub_eq_self.mp h2.symm⟩
  · rintro ⟨h1, h2⟩
    simp [h1, h2]

/-- proved negation of "compound assignment = binary operator" for `Vector2 -=` (finding D11) -/
theorem C19_v2_subAssign_fails : ∃ a b : V2 Rat, V2.subAssign a b ≠ V2.sub a b :=
  ⟨⟨1, 2⟩, ⟨3 / 2, -1 / 4⟩, by
    intro h
    have h2 := congrArg V2.y h
    norm_num [V2.subAssign, V2.sub] at h2⟩

theorem C19_v2_dot_comm (a b : V2 K) : V2.dot a b = V2.dot b a := by
  simp only [V2.dot]; ring

theorem C19_v2_neg_eq (a : V2 K) : V2.neg a = V2.sub ⟨0, 0⟩ a := by
  simp [V2.neg, V2.sub]

theorem C19_v2_div_ok_iff [DecidableEq K] (a : V2 K) (k : K) :
    V2.div a k = some (V2.divCore a k) ↔ k ≠ 0 := by
  unfold V2.div; split <;> simp_all

/-! ### Vector3 -/

theorem C19_v3_sub_self (v : V3 K) : V3.sub v v = ⟨0, 0, 0⟩ := by
  simp [V3.sub]

theorem C19_v3_add_sub_cancel (v u : V3 K) : V3.sub (V3.add v u) v = u := by
  cases u; simp [V3.sub, V3.add]

theorem C19_v3_addAssign_eq (a b : V3 K) : V3.addAssign a b = V3.add a b := rfl
theorem C19_v3_subAssign_eq (a b : V3 K) : V3.subAssign a b = V3.sub a b := rfl
theorem C19_v3_mulAssign_eq (a : V3 K) (k : K) : V3.mulAssign a k = V3.mul a k := rfl
theorem C19_v3_divAssign_eq [DecidableEq K] (a : V3 K) (k : K) : V3.divAssign a k = V3.div a k := rfl

theorem C19_v3_dot_comm (a b : V3 K) : V3.dot a b = V3.dot b a := by
  simp only [V3.dot]; ring

theorem C19_v3_cross_antisymm (a b : V3 K) : V3.cross a b = V3.neg (V3.cross b a) := by
  simp only [V3.cross, V3.neg, V3.mk.injEq]
  refine ⟨?_, ?_, ?_⟩ <;> ring

theorem C19_v3_cross_dot_left (a b : V3 K) : V3.dot (V3.cross a b) a = 0 := by
  simp only [V3.cross, V3.dot]; ring

theorem C19_v3_cross_dot_right (a b : V3 K) : V3.dot (V3.cross a b) b = 0 := by
  simp only [V3.cross, V3.dot]; ring

theorem C19_v3_div_ok_iff [DecidableEq K] (a : V3 K) (k : K) :
    V3.div a k = some (V3.divCore a k) ↔ k ≠ 0 := by
  unfold V3.div; split <;> simp_all

/-! ### Vertex2 / Vertex3 -/

theorem C19_p2_addVAssign_eq (p : P2 K) (v : V2 K) : P2.addVAssign p v = P2.addV p v := rfl
theorem C19_p2_addVRef_eq (p : P2 K) (v : V2 K) : P2.addVRef p v = P2.addV p v := rfl
theorem C19_p2_addVRefAssign_eq (p : P2 K) (v : V2 K) : P2.addVRefAssign p v = P2.addV p v := rfl
theorem C19_p2_subVAssign_eq (p : P2 K) (v : V2 K) : P2.subVAssign p v = P2.subV p v := rfl
theorem C19_p2_subVRef_eq (p : P2 K) (v : V2 K) : P2.subVRef p v = P2.subV p v := rfl
theorem C19_p2_subVRefAssign_eq (p : P2 K) (v : V2 K) : P2.subVRefAssign p v = P2.subV p v := rfl

theorem C19_p2_sub_self (p : P2 K) : P2.sub p p = ⟨0, 0⟩ := by
  simp [P2.sub]

theorem C19_p2_add_sub_cancel (p : P2 K) (v : V2 K) : P2.sub (P2.addV p v) p = v := by
  cases v; simp [P2.sub, P2.addV]

theorem C19_p2_addV_subV_cancel (p : P2 K) (v : V2 K) : P2.subV (P2.addV p v) v = p := by
  cases p; simp [P2.subV, P2.addV]

theorem C19_p3_addVAssign_eq (p : P3 K) (v : V3 K) : P3.addVAssign p v = P3.addV p v := rfl
theorem C19_p3_addVRef_eq (p : P3 K) (v : V3 K) : P3.addVRef p v = P3.addV p v := rfl
theorem C19_p3_addVRefAssign_eq (p : P3 K) (v : V3 K) : P3.addVRefAssign p v = P3.addV p v := rfl
theorem C19_p3_subVAssign_eq (p : P3 K) (v : V3 K) : P3.subVAssign p v = P3.subV p v := rfl
theorem C19_p3_subVRef_eq (p : P3 K) (v : V3 K) : P3.subVRef p v = P3.subV p v := rfl
theorem C19_p3_subVRefAssign_eq (p : P3 K) (v : V3 K) : P3.subVRefAssign p v = P3.subV p v := rfl

theorem C19_p3_sub_self (p : P3 K) : P3.sub p p = ⟨0, 0, 0⟩ := by
  simp [P3.sub]

theorem C19_p3_add_sub_cancel (p : P3 K) (v : V3 K) : P3.sub (P3.addV p v) p = v := by
  cases v; simp [P3.sub, P3.addV]

theorem C19_p3_addV_subV_cancel (p : P3 K) (v : V3 K) : P3.subV (P3.addV p v) v = p := by
  cases p; simp [P3.subV, P3.addV]

/-! ### orientation (`cross_product_from_vertices`) -/

/-- twice the signed area of the triangle `a b c` (shoelace formula); positive = counter-clockwise -/
def shoelace2 (a b c : P2 K) : K :=
  (a.x * b.y - b.x * a.y) + (b.x * c.y - c.x * b.y) + (c.x * a.y - a.x * c.y)

theorem C19_orient_eq_shoelace (a b c : P2 K) : P2.orient a b c = shoelace2 a b c := by
  simp only [P2.orient, shoelace2]; ring

theorem C19_orient_swap (a b c : P2 K) : P2.orient a b c = -P2.orient a c b := by
  simp only [P2.orient]; ring

theorem C19_orient_cyclic (a b c : P2 K) : P2.orient a b c = P2.orient b c a := by
  simp only [P2.orient]; ring

/-- an affine map `p ↦ (m11·x + m12·y + tx, m21·x + m22·y + ty)` multiplies the orientation product by
    its determinant: orientation is preserved by translations, rotations, positive scalings and
    reversed by reflections -/
theorem C19_orient_affine (m11 m12 m21 m22 tx ty : K) (a b c : P2 K) :
    let f : P2 K → P2 K := fun p => ⟨m11 * p.x + m12 * p.y + tx, m21 * p.x + m22 * p.y + ty⟩
    P2.orient (f a) (f b) (f c) = (m11 * m22 - m12 * m21) * P2.orient a b c := by
  simp only [P2.orient]; ring

end Exact

section Ordered
variable {K : Type} [Field K] [LinearOrder K] [IsStrictOrderedRing K]

/-- counter-clockwise triple: positive signed area -/
def Ccw (a b c : P2 K) : Prop := 0 < shoelace2 a b c
/-- clockwise triple: negative signed area -/
def Cw (a b c : P2 K) : Prop := shoelace2 a b c < 0

omit [IsStrictOrderedRing K] in
theorem C19_orient_pos_iff_ccw (a b c : P2 K) : 0 < P2.orient a b c ↔ Ccw a b c := by
  rw [C19_orient_eq_shoelace]; rfl

omit [IsStrictOrderedRing K] in
theorem C19_orient_neg_iff_cw (a b c : P2 K) : P2.orient a b c < 0 ↔ Cw a b c := by
  rw [C19_orient_eq_shoelace]; rfl

theorem C19_cw_iff_ccw_swap (a b c : P2 K) : Cw a b c ↔ Ccw a c b := by
  rw [← C19_orient_neg_iff_cw, ← C19_orient_pos_iff_ccw, C19_orient_swap a b c]
  exact neg_lt_zero

/-! ### average -/

theorem C19_p2_average_comm (a b : P2 K) : P2.average a b = P2.average b a := by
  simp only [P2.average, P2.mk.injEq]
  exact ⟨by ring, by ring⟩

theorem C19_p3_average_comm (a b : P3 K) : P3.average a b = P3.average b a := by
  simp only [P3.average, P3.mk.injEq]
  exact ⟨by ring, by ring, by ring⟩

private theorem mid_between (x y : K) :
    min x y ≤ (x + y) / 2 ∧ (x + y) / 2 ≤ max x y := by
  rcases le_total x y with h | h
  · rw [min_eq_left h, max_eq_right h]
    constructor <;> linarith
  · rw [min_eq_right h, max_eq_left h]
    constructor <;> linarith

theorem C19_p2_average_between (a b : P2 K) :
    (min a.x b.x ≤ (P2.average a b).x ∧ (P2.average a b).x ≤ max a.x b.x) ∧
    (min a.y b.y ≤ (P2.average a b).y ∧ (P2.average a b).y ≤ max a.y b.y) :=
  ⟨mid_between _ _, mid_between _ _⟩

theorem C19_p3_average_between (a b : P3 K) :
    (min a.x b.x ≤ (P3.average a b).x ∧ (P3.average a b).x ≤ max a.x b.x) ∧
    (min a.y b.y ≤ (P3.average a b).y ∧ (P3.average a b).y ≤ max a.y b.y) ∧
    (min a.z b.z ≤ (P3.average a b).z ∧ (P3.average a b).z ≤ max a.z b.z) :=
  ⟨mid_between _ _, mid_between _ _, mid_between _ _⟩

/-! ### `unit_dir` / `normal_dir`: failure iff null vector -/

private theorem sq2_zero_iff (x y : K) : x * x + y * y = 0 ↔ x = 0 ∧ y = 0 := by
  constructor
  · intro h
    have hx := mul_self_nonneg x
    have hy := mul_self_nonneg y
    have hx0 : x * x = 0 := by linarith
    have hy0 : y * y = 0 := by linarith
    exact ⟨mul_self_eq_zero.mp hx0, mul_self_eq_zero.mp hy0⟩
  · rintro ⟨rfl, rfl⟩; simp

private theorem sq3_zero_iff (x y z : K) : x * x + y * y + z * z = 0 ↔ x = 0 ∧ y = 0 ∧ z = 0 := by
  constructor
  · intro h
    have hx := mul_self_nonneg x
    have hy := mul_self_nonneg y
    have hz := mul_self_nonneg z
    have hx0 : x * x = 0 := by linarith
    have hy0 : y * y = 0 := by linarith
    have hz0 : z * z = 0 := by linarith
    exact ⟨mul_self_eq_zero.mp hx0, mul_self_eq_zero.mp hy0, mul_self_eq_zero.mp hz0⟩
  · rintro ⟨rfl, rfl, rfl⟩; simp

variable [DecidableEq K]

theorem C19_v2_unitDir_err_iff (v : V2 K) :
    V2.unitDirPre v = .error .invalidUnitDir ↔ v = ⟨0, 0⟩ := by
  cases v with
  | mk x y =>
    unfold V2.unitDirPre V2.normSq
    by_cases h : x * x + y * y = 0
    · simp only [h, if_true, true_iff, V2.mk.injEq]; exact (sq2_zero_iff x y).mp h
    · simp only [h, if_false, V2.mk.injEq]
      constructor
      · intro h'; cases h'
      · intro h'; exact absurd ((sq2_zero_iff x y).mpr h') h

theorem C19_v2_unitDir_ok_iff (v : V2 K) :
    V2.unitDirPre v = .ok (V2.normSq v, v) ↔ v ≠ ⟨0, 0⟩ := by
  rw [Ne, ← C19_v2_unitDir_err_iff]
  unfold V2.unitDirPre
  split <;> simp

theorem C19_v2_normalDir_err_iff (v : V2 K) :
    V2.normalDirPre v = .error .invalidNormDir ↔ v = ⟨0, 0⟩ := by
  cases v with
  | mk x y =>
    unfold V2.normalDirPre V2.unitDirPre V2.normSq
    by_cases h : -y * -y + x * x = 0
    · simp only [h, if_true, true_iff, V2.mk.injEq]
      have := (sq2_zero_iff (-y) x).mp h
      exact ⟨this.2, neg_eq_zero.mp this.1⟩
    · simp only [h, if_false, V2.mk.injEq]
      constructor
      · intro h'; cases h'
      · rintro ⟨rfl, rfl⟩; simp at h

/-- `normal_dir` succeeds on every non-null vector, with the quarter turn `(-y, x)` as direction -/
theorem C19_v2_normalDir_ok_iff (v : V2 K) :
    V2.normalDirPre v = .ok (V2.normSq (⟨-v.y, v.x⟩ : V2 K), ⟨-v.y, v.x⟩) ↔ v ≠ ⟨0, 0⟩ := by
  rw [Ne, ← C19_v2_normalDir_err_iff]
  unfold V2.normalDirPre V2.unitDirPre
  split <;> rename_i h <;> split at h <;> simp_all

theorem C19_v3_unitDir_err_iff (v : V3 K) :
    V3.unitDirPre v = .error .invalidUnitDir ↔ v = ⟨0, 0, 0⟩ := by
  cases v with
  | mk x y z =>
    unfold V3.unitDirPre V3.normSq
    by_cases h : x * x + y * y + z * z = 0
    · simp only [h, if_true, true_iff, V3.mk.injEq]; exact (sq3_zero_iff x y z).mp h
    · simp only [h, if_false, V3.mk.injEq]
      constructor
      · intro h'; cases h'
      · intro h'; exact absurd ((sq3_zero_iff x y z).mpr h') h

theorem C19_v3_unitDir_ok_iff (v : V3 K) :
    V3.unitDirPre v = .ok (V3.normSq v, v) ↔ v ≠ ⟨0, 0, 0⟩ := by
  rw [Ne, ← C19_v3_unitDir_err_iff]
  unfold V3.unitDirPre
  split <;> simp

end Ordered

/-! ### `unit_dir` / `normal_dir` over ℝ (with `Real.sqrt`) -/
section RealDir

/-- `Vector2::unit_dir` over ℝ: `unitDirPre` followed by `*self / norm` with `norm = √radicand` -/
noncomputable def unitDirR2 (v : V2 ℝ) : Except CoordsError (V2 ℝ) :=
  match V2.unitDirPre v with
  | .error e => .error e
  | .ok (s, d) => .ok (V2.divCore d (Real.sqrt s))

/-- `Vector2::normal_dir` over ℝ -/
noncomputable def normalDirR2 (v : V2 ℝ) : Except CoordsError (V2 ℝ) :=
  match V2.normalDirPre v with
  | .error e => .error e
  | .ok (s, d) => .ok (V2.divCore d (Real.sqrt s))

/-- `Vector3::unit_dir` over ℝ -/
noncomputable def unitDirR3 (v : V3 ℝ) : Except CoordsError (V3 ℝ) :=
  match V3.unitDirPre v with
  | .error e => .error e
  | .ok (s, d) => .ok (V3.divCore d (Real.sqrt s))

theorem C19_unitDirR2_err_iff (v : V2 ℝ) : unitDirR2 v = .error .invalidUnitDir ↔ v = ⟨0, 0⟩ := by
  rw [← C19_v2_unitDir_err_iff]
  unfold unitDirR2 V2.unitDirPre
  split <;> rename_i h <;> split at h <;> simp_all

theorem C19_normalDirR2_err_iff (v : V2 ℝ) : normalDirR2 v = .error .invalidNormDir ↔ v = ⟨0, 0⟩ := by
  rw [← C19_v2_normalDir_err_iff]
  unfold normalDirR2
  split <;> rename_i h <;> simp_all

theorem C19_unitDirR3_err_iff (v : V3 ℝ) : unitDirR3 v = .error .invalidUnitDir ↔ v = ⟨0, 0, 0⟩ := by
  rw [← C19_v3_unitDir_err_iff]
  unfold unitDirR3 V3.unitDirPre
  split <;> rename_i h <;> split at h <;> simp_all

private theorem normSq2_pos {v : V2 ℝ} (hv : v ≠ ⟨0, 0⟩) : 0 < V2.normSq v := by
  cases v with
  | mk x y =>
    have h0 : x * x + y * y ≠ 0 := fun h => hv (by
      have := (sq2_zero_iff x y).mp h; simp [this.1, this.2])
    have := add_nonneg (mul_self_nonneg x) (mul_self_nonneg y)
    exact lt_of_le_of_ne this (Ne.symm h0)

private theorem normSq3_pos {v : V3 ℝ} (hv : v ≠ ⟨0, 0, 0⟩) : 0 < V3.normSq v := by
  cases v with
  | mk x y z =>
    have h0 : x * x + y * y + z * z ≠ 0 := fun h => hv (by
      have := (sq3_zero_iff x y z).mp h; simp [this.1, this.2.1, this.2.2])
    have := add_nonneg (add_nonneg (mul_self_nonneg x) (mul_self_nonneg y)) (mul_self_nonneg z)
    exact lt_of_le_of_ne this (Ne.symm h0)

/-- on a non-null vector `unit_dir` returns `r = v / ‖v‖`: the `assert!` of `Div` does not fire, `r` has
    norm 1 and is a positive multiple of `v` -/
theorem C19_unitDirR2_spec (v : V2 ℝ) (hv : v ≠ ⟨0, 0⟩) :
    ∃ r k, unitDirR2 v = .ok r ∧ V2.div v (Real.sqrt (V2.normSq v)) = some r ∧
      V2.normSq r = 1 ∧ 0 < k ∧ r = V2.mul v k := by
  have hs := normSq2_pos hv
  have hq : 0 < Real.sqrt (V2.normSq v) := Real.sqrt_pos.mpr hs
  refine ⟨V2.divCore v (Real.sqrt (V2.normSq v)), (Real.sqrt (V2.normSq v))⁻¹, ?_, ?_, ?_, inv_pos.mpr hq, ?_⟩
  · unfold unitDirR2 V2.unitDirPre
    simp [hs.ne']
  · exact (C19_v2_div_ok_iff v _).mpr hq.ne'
  · have hm := Real.mul_self_sqrt hs.le
    simp only [V2.divCore, V2.normSq] at hm ⊢
    rw [div_mul_div_comm, div_mul_div_comm, ← add_div, hm]
    exact div_self hs.ne'
  · simp only [V2.divCore, V2.mul, div_eq_mul_inv]

/-- on a non-null vector `normal_dir` returns the unit vector along the quarter turn `(-y, x)`:
    norm 1, positive multiple of `(-y, x)`, orthogonal to `v`, and `(v, r)` is counter-clockwise -/
theorem C19_normalDirR2_spec (v : V2 ℝ) (hv : v ≠ ⟨0, 0⟩) :
    ∃ r k, normalDirR2 v = .ok r ∧ V2.normSq r = 1 ∧ 0 < k ∧ r = V2.mul ⟨-v.y, v.x⟩ k ∧
      V2.dot r v = 0 ∧ 0 < v.x * r.y - v.y * r.x := by
  have hw : (⟨-v.y, v.x⟩ : V2 ℝ) ≠ ⟨0, 0⟩ := by
    intro h
    simp only [V2.mk.injEq, neg_eq_zero] at h
    exact hv (by cases v; simp_all)
  obtain ⟨r, k, h1, _, h3, h4, h5⟩ := C19_unitDirR2_spec _ hw
  refine ⟨r, k, ?_, h3, h4, h5, ?_, ?_⟩
  · have hok := (C19_v2_normalDir_ok_iff v).mpr hv
    unfold normalDirR2
    rw [hok]
    unfold unitDirR2 at h1
    rw [(C19_v2_unitDir_ok_iff _).mpr hw] at h1
    exact h1
  · rw [h5]; simp only [V2.dot, V2.mul]; ring
  · rw [h5]; simp only [V2.mul]
    have : v.x * (v.x * k) - v.y * (-v.y * k) = V2.normSq v * k := by simp only [V2.normSq]; ring
    rw [this]
    exact mul_pos (normSq2_pos hv) h4

theorem C19_unitDirR3_spec (v : V3 ℝ) (hv : v ≠ ⟨0, 0, 0⟩) :
    ∃ r k, unitDirR3 v = .ok r ∧ V3.div v (Real.sqrt (V3.normSq v)) = some r ∧
      V3.normSq r = 1 ∧ 0 < k ∧ r = V3.mul v k := by
  have hs := normSq3_pos hv
  have hq : 0 < Real.sqrt (V3.normSq v) := Real.sqrt_pos.mpr hs
  refine ⟨V3.divCore v (Real.sqrt (V3.normSq v)), (Real.sqrt (V3.normSq v))⁻¹, ?_, ?_, ?_, inv_pos.mpr hq, ?_⟩
  · unfold unitDirR3 V3.unitDirPre
    simp [hs.ne']
  · exact (C19_v3_div_ok_iff v _).mpr hq.ne'
  · have hm := Real.mul_self_sqrt hs.le
    simp only [V3.divCore, V3.normSq] at hm ⊢
    rw [div_mul_div_comm, div_mul_div_comm, div_mul_div_comm, ← add_div, ← add_div, hm]
    exact div_self hs.ne'
  · simp only [V3.divCore, V3.mul, div_eq_mul_inv]

end RealDir

/-! ## (b) rounding

`RoundModel fl u` is the standard model of floating-point arithmetic: every operation returns
`fl` of the exact result of the operation on its (floating-point) arguments, and `fl` commits a
relative error of at most `u < 1`.  It is a HYPOTHESIS of the theorems below (true of IEEE-754
round-to-nearest with `u = 2⁻⁵³` / `2⁻²⁴` as long as no overflow or underflow occurs — the domain of
the property; not proved here).  `FlR fl` instantiates the coordinate type of the model with this
arithmetic, so the statements are about the model definitions themselves (`V2.sub`, `P2.orient`, …)
evaluated operation by operation in the order the Rust evaluates them. -/
section Rounding

structure RoundModel (fl : ℝ → ℝ) (u : ℝ) : Prop where
  u_nonneg : 0 ≤ u
  u_lt_one : u < 1
  err : ∀ x, |fl x - x| ≤ u * |x|

/-- values of the rounded arithmetic: real numbers, with every operation followed by `fl` -/
structure FlR (fl : ℝ → ℝ) where
  val : ℝ

variable {fl : ℝ → ℝ} {u : ℝ}

instance : Add (FlR fl) := ⟨fun a b => ⟨fl (a.val + b.val)⟩⟩
instance : Sub (FlR fl) := ⟨fun a b => ⟨fl (a.val - b.val)⟩⟩
instance : Mul (FlR fl) := ⟨fun a b => ⟨fl (a.val * b.val)⟩⟩
noncomputable instance : Div (FlR fl) := ⟨fun a b => ⟨fl (a.val / b.val)⟩⟩
/-- negation is exact (sign flip) -/
instance : Neg (FlR fl) := ⟨fun a => ⟨-a.val⟩⟩
instance : OfNat (FlR fl) 0 := ⟨⟨0⟩⟩
instance : OfNat (FlR fl) 2 := ⟨⟨2⟩⟩

@[simp] theorem FlR.add_val (a b : FlR fl) : (a + b).val = fl (a.val + b.val) := rfl
@[simp] theorem FlR.sub_val (a b : FlR fl) : (a - b).val = fl (a.val - b.val) := rfl
@[simp] theorem FlR.mul_val (a b : FlR fl) : (a * b).val = fl (a.val * b.val) := rfl
@[simp] theorem FlR.div_val (a b : FlR fl) : (a / b).val = fl (a.val / b.val) := rfl
@[simp] theorem FlR.neg_val (a : FlR fl) : (-a).val = -a.val := rfl

/-- the real point with the same coordinates -/
def toR2 (p : P2 (FlR fl)) : P2 ℝ := ⟨p.x.val, p.y.val⟩

theorem RoundModel.fl_zero (h : RoundModel fl u) : fl 0 = 0 := by
  have := h.err 0
  simpa using this

theorem RoundModel.fl_pos_iff (h : RoundModel fl u) (x : ℝ) : 0 < fl x ↔ 0 < x := by
  have he := abs_le.mp (h.err x)
  have hu := h.u_lt_one
  have hu0 := h.u_nonneg
  constructor
  · intro hp
    by_contra hx
    have hx' : x ≤ 0 := not_lt.mp hx
    rw [abs_of_nonpos hx'] at he
    nlinarith [he.2]
  · intro hx
    rw [abs_of_pos hx] at he
    nlinarith [he.1]

theorem RoundModel.fl_neg_iff (h : RoundModel fl u) (x : ℝ) : fl x < 0 ↔ x < 0 := by
  have he := abs_le.mp (h.err x)
  have hu := h.u_lt_one
  have hu0 := h.u_nonneg
  constructor
  · intro hp
    by_contra hx
    have hx' : 0 ≤ x := not_lt.mp hx
    rw [abs_of_nonneg hx'] at he
    nlinarith [he.1]
  · intro hx
    rw [abs_of_neg hx] at he
    nlinarith [he.2]

/-- multiplicative form of the error: `fl x = x · d` with `|d − 1| ≤ u` -/
theorem RoundModel.fl_rel (h : RoundModel fl u) (x : ℝ) : ∃ d, |d - 1| ≤ u ∧ fl x = x * d := by
  by_cases hx : x = 0
  · subst hx
    exact ⟨1, by simpa using h.u_nonneg, by simpa using h.fl_zero⟩
  · refine ⟨fl x / x, ?_, by field_simp⟩
    have hpos : 0 < |x| := abs_pos.mpr hx
    have e : fl x / x - 1 = (fl x - x) / x := by field_simp
    rw [e, abs_div, div_le_iff₀ hpos]
    exact h.err x

/-! ### `v − v = 0` exactly -/

theorem C19_fl_v2_sub_self (h : RoundModel fl u) (v : V2 (FlR fl)) : V2.sub v v = ⟨⟨0⟩, ⟨0⟩⟩ := by
  simp only [V2.sub, V2.mk.injEq]
  exact ⟨congrArg FlR.mk (by simp [h.fl_zero]), congrArg FlR.mk (by simp [h.fl_zero])⟩

theorem C19_fl_v3_sub_self (h : RoundModel fl u) (v : V3 (FlR fl)) :
    V3.sub v v = ⟨⟨0⟩, ⟨0⟩, ⟨0⟩⟩ := by
  simp only [V3.sub, V3.mk.injEq]
  exact ⟨congrArg FlR.mk (by simp [h.fl_zero]), congrArg FlR.mk (by simp [h.fl_zero]),
    congrArg FlR.mk (by simp [h.fl_zero])⟩

theorem C19_fl_p2_sub_self (h : RoundModel fl u) (p : P2 (FlR fl)) : P2.sub p p = ⟨⟨0⟩, ⟨0⟩⟩ := by
  simp only [P2.sub, V2.mk.injEq]
  exact ⟨congrArg FlR.mk (by simp [h.fl_zero]), congrArg FlR.mk (by simp [h.fl_zero])⟩

theorem C19_fl_p3_sub_self (h : RoundModel fl u) (p : P3 (FlR fl)) :
    P3.sub p p = ⟨⟨0⟩, ⟨0⟩, ⟨0⟩⟩ := by
  simp only [P3.sub, V3.mk.injEq]
  exact ⟨congrArg FlR.mk (by simp [h.fl_zero]), congrArg FlR.mk (by simp [h.fl_zero]),
    congrArg FlR.mk (by simp [h.fl_zero])⟩

/-! ### `(v + u) − v ≈ u` -/

/-- scalar form: `|fl(fl(a + b) − a) − b| ≤ (2u + u²)(|a| + |b|)` -/
theorem RoundModel.add_sub_bound (h : RoundModel fl u) (a b : ℝ) :
    |fl (fl (a + b) - a) - b| ≤ (2 * u + u ^ 2) * (|a| + |b|) := by
  have hu0 := h.u_nonneg
  have h1 := h.err (a + b)
  have h2 := h.err (fl (a + b) - a)
  have hX : |a + b| ≤ |a| + |b| := abs_add_le a b
  -- |s - a| ≤ |b| + u |a+b|
  have hsa : |fl (a + b) - a| ≤ |b| + u * |a + b| := by
    have e : fl (a + b) - a = b + (fl (a + b) - (a + b)) := by ring
    rw [e]
    exact (abs_add_le _ _).trans (by linarith)
  have e : fl (fl (a + b) - a) - b
      = (fl (fl (a + b) - a) - (fl (a + b) - a)) + (fl (a + b) - (a + b)) := by ring
  rw [e]
  refine (abs_add_le _ _).trans ?_
  have hb : |b| ≤ |a| + |b| := by linarith [abs_nonneg a]
  have m1 : u * |a + b| ≤ u * (|a| + |b|) := mul_le_mul_of_nonneg_left hX hu0
  have m2 : u * |fl (a + b) - a| ≤ u * (|b| + u * |a + b|) := mul_le_mul_of_nonneg_left hsa hu0
  have m3 : u * |b| ≤ u * (|a| + |b|) := mul_le_mul_of_nonneg_left hb hu0
  have m4 : u * (u * |a + b|) ≤ u * (u * (|a| + |b|)) := mul_le_mul_of_nonneg_left m1 hu0
  calc |fl (fl (a + b) - a) - (fl (a + b) - a)| + |fl (a + b) - (a + b)|
      ≤ u * (|b| + u * |a + b|) + u * |a + b| := by linarith
    _ = u * |b| + u * (u * |a + b|) + u * |a + b| := by ring
    _ ≤ u * (|a| + |b|) + u * (u * (|a| + |b|)) + u * (|a| + |b|) := by linarith
    _ = (2 * u + u ^ 2) * (|a| + |b|) := by ring

theorem C19_fl_v2_add_sub_bound (h : RoundModel fl u) (v w : V2 (FlR fl)) :
    |(V2.sub (V2.add v w) v).x.val - w.x.val| ≤ (2 * u + u ^ 2) * (|v.x.val| + |w.x.val|) ∧
    |(V2.sub (V2.add v w) v).y.val - w.y.val| ≤ (2 * u + u ^ 2) * (|v.y.val| + |w.y.val|) :=
  ⟨h.add_sub_bound _ _, h.add_sub_bound _ _⟩

theorem C19_fl_v3_add_sub_bound (h : RoundModel fl u) (v w : V3 (FlR fl)) :
    |(V3.sub (V3.add v w) v).x.val - w.x.val| ≤ (2 * u + u ^ 2) * (|v.x.val| + |w.x.val|) ∧
    |(V3.sub (V3.add v w) v).y.val - w.y.val| ≤ (2 * u + u ^ 2) * (|v.y.val| + |w.y.val|) ∧
    |(V3.sub (V3.add v w) v).z.val - w.z.val| ≤ (2 * u + u ^ 2) * (|v.z.val| + |w.z.val|) :=
  ⟨h.add_sub_bound _ _, h.add_sub_bound _ _, h.add_sub_bound _ _⟩

theorem C19_fl_p2_add_sub_bound (h : RoundModel fl u) (p : P2 (FlR fl)) (w : V2 (FlR fl)) :
    |(P2.sub (P2.addV p w) p).x.val - w.x.val| ≤ (2 * u + u ^ 2) * (|p.x.val| + |w.x.val|) ∧
    |(P2.sub (P2.addV p w) p).y.val - w.y.val| ≤ (2 * u + u ^ 2) * (|p.y.val| + |w.y.val|) :=
  ⟨h.add_sub_bound _ _, h.add_sub_bound _ _⟩

theorem C19_fl_p3_add_sub_bound (h : RoundModel fl u) (p : P3 (FlR fl)) (w : V3 (FlR fl)) :
    |(P3.sub (P3.addV p w) p).x.val - w.x.val| ≤ (2 * u + u ^ 2) * (|p.x.val| + |w.x.val|) ∧
    |(P3.sub (P3.addV p w) p).y.val - w.y.val| ≤ (2 * u + u ^ 2) * (|p.y.val| + |w.y.val|) ∧
    |(P3.sub (P3.addV p w) p).z.val - w.z.val| ≤ (2 * u + u ^ 2) * (|p.z.val| + |w.z.val|) :=
  ⟨h.add_sub_bound _ _, h.add_sub_bound _ _, h.add_sub_bound _ _⟩

/-! ### symmetric clauses hold in every arithmetic (no hypothesis on `fl`) -/

theorem C19_fl_v2_dot_comm (a b : V2 (FlR fl)) : V2.dot a b = V2.dot b a := by
  simp only [V2.dot]
  exact congrArg FlR.mk (by simp [mul_comm])

theorem C19_fl_v3_dot_comm (a b : V3 (FlR fl)) : V3.dot a b = V3.dot b a := by
  simp only [V3.dot]
  exact congrArg FlR.mk (by simp [mul_comm])

theorem C19_fl_p2_average_comm (a b : P2 (FlR fl)) : P2.average a b = P2.average b a := by
  simp only [P2.average, P2.mk.injEq]
  exact ⟨congrArg FlR.mk (by simp [add_comm]), congrArg FlR.mk (by simp [add_comm])⟩

theorem C19_fl_p3_average_comm (a b : P3 (FlR fl)) : P3.average a b = P3.average b a := by
  simp only [P3.average, P3.mk.injEq]
  exact ⟨congrArg FlR.mk (by simp [add_comm]), congrArg FlR.mk (by simp [add_comm]),
    congrArg FlR.mk (by simp [add_comm])⟩

/-- the computed cross product is antisymmetric as soon as rounding is odd (`fl (−x) = −fl x`,
    true of round-to-nearest; the sign of a zero component is not represented in `FlR`) -/
theorem C19_fl_v3_cross_antisymm (hodd : ∀ x, fl (-x) = -fl x) (a b : V3 (FlR fl)) :
    V3.cross a b = V3.neg (V3.cross b a) := by
  have key : ∀ p q r s : ℝ, fl (fl (p * q) - fl (r * s)) = -fl (fl (s * r) - fl (q * p)) := by
    intro p q r s
    rw [← hodd, mul_comm s r, mul_comm q p]
    congr 1; ring
  simp only [V3.cross, V3.neg, V3.mk.injEq]
  exact ⟨congrArg FlR.mk (by simpa using key _ _ _ _), congrArg FlR.mk (by simpa using key _ _ _ _),
    congrArg FlR.mk (by simpa using key _ _ _ _)⟩

/-! ### the orientation sign outside the rounding band -/

private theorem mul_err {a b p q : ℝ} (ha : |a - 1| ≤ p) (hb : |b - 1| ≤ q) :
    |a * b - 1| ≤ p + q + p * q := by
  have e : a * b - 1 = (a - 1) * (b - 1) + (a - 1) + (b - 1) := by ring
  rw [e]
  have hp : 0 ≤ p := (abs_nonneg _).trans ha
  have := mul_le_mul ha hb (abs_nonneg _) hp
  calc |(a - 1) * (b - 1) + (a - 1) + (b - 1)|
      ≤ |(a - 1) * (b - 1) + (a - 1)| + |b - 1| := abs_add_le _ _
    _ ≤ |(a - 1) * (b - 1)| + |a - 1| + |b - 1| := by linarith [abs_add_le ((a - 1) * (b - 1)) (a - 1)]
    _ = |a - 1| * |b - 1| + |a - 1| + |b - 1| := by rw [abs_mul]
    _ ≤ p + q + p * q := by linarith

/-- a rounded product of two rounded factors: `|fl(fl x · fl y) − x·y| ≤ (3u + 3u² + u³)·|x·y|` -/
theorem RoundModel.prod_bound (h : RoundModel fl u) (x y : ℝ) :
    |fl (fl x * fl y) - x * y| ≤ (3 * u + 3 * u ^ 2 + u ^ 3) * |x * y| := by
  obtain ⟨d1, hd1, e1⟩ := h.fl_rel x
  obtain ⟨d2, hd2, e2⟩ := h.fl_rel y
  obtain ⟨d3, hd3, e3⟩ := h.fl_rel (fl x * fl y)
  have h12 := mul_err hd1 hd2
  have h123 := mul_err h12 hd3
  have e : fl (fl x * fl y) - x * y = (x * y) * (d1 * d2 * d3 - 1) := by
    rw [e3, e1, e2]; ring
  rw [e, abs_mul, mul_comm]
  refine mul_le_mul_of_nonneg_right (h123.trans (le_of_eq ?_)) (abs_nonneg _)
  ring

/-- the band around collinearity inside which the computed sign is not guaranteed:
    `|A·B| + |C·D|` for the four coordinate differences of `cross_product_from_vertices` -/
def orientBand (a b c : P2 ℝ) : ℝ :=
  |(b.x - a.x) * (c.y - b.y)| + |(b.y - a.y) * (c.x - b.x)|

/-- **orientation sign.**  Evaluate `cross_product_from_vertices` in rounded arithmetic (7 rounded
    operations, in the order of the Rust expression).  If the exact value on the same inputs is
    outside the band `(3u + 3u² + u³)·(|A·B| + |C·D|)`, the computed value has the exact sign. -/
theorem C19_fl_orient_sign (h : RoundModel fl u) (a b c : P2 (FlR fl))
    (hband : (3 * u + 3 * u ^ 2 + u ^ 3) * orientBand (toR2 a) (toR2 b) (toR2 c)
      < |P2.orient (toR2 a) (toR2 b) (toR2 c)|) :
    (0 < (P2.orient a b c).val ↔ 0 < P2.orient (toR2 a) (toR2 b) (toR2 c)) ∧
    ((P2.orient a b c).val < 0 ↔ P2.orient (toR2 a) (toR2 b) (toR2 c) < 0) := by
  simp only [P2.orient, toR2, orientBand, FlR.sub_val, FlR.mul_val] at hband ⊢
  rw [h.fl_pos_iff, h.fl_neg_iff]
  generalize b.x.val - a.x.val = A at hband ⊢
  generalize c.y.val - b.y.val = B at hband ⊢
  generalize b.y.val - a.y.val = C at hband ⊢
  generalize c.x.val - b.x.val = D at hband ⊢
  have hP := abs_le.mp (h.prod_bound A B)
  have hQ := abs_le.mp (h.prod_bound C D)
  set g := 3 * u + 3 * u ^ 2 + u ^ 3 with hg
  rw [mul_add] at hband
  rcases le_or_gt 0 (A * B - C * D) with hE | hE
  · rw [abs_of_nonneg hE] at hband
    constructor <;> constructor <;> intro _ <;> linarith [hP.1, hP.2, hQ.1, hQ.2]
  · rw [abs_of_neg hE] at hband
    constructor <;> constructor <;> intro _ <;> linarith [hP.1, hP.2, hQ.1, hQ.2]

end Rounding

end HC.C19
