/-
  C16 — grisubal: the discrete clause that an executable model carries.

  * `C16_orientation_rejection_iff`   `detect_orientation_issue` returns the error **iff** some vertex starts
                                      two segments or some vertex ends two segments — for every geometry
                                      given as a list of index pairs (no bound, no assumption on the indices)
  * `C16_orientation_accepts_iff_nodup` the same rule as "origins pairwise distinct and end points pairwise
                                      distinct"
  * `C16_closed_loops_accepted`       consistently oriented closed loops (every listed vertex starts exactly
                                      one segment and ends exactly one) pass the check
  * `C16_reversed_segment_rejected`   reversing one segment of a loop with at least 2 segments … is rejected
                                      (stated on the general rule: a repeated origin or end point)

  * `C16_grid_margins`, `C16_grid_tight`  sizing formulas of `compute_overlapping_grid` over an exact field: every
                                      geometry coordinate lies inside the grid with at least one full cell of
                                      margin on both sides (origin shift `< 1/2` cell), and the grid ends less than
                                      two cells above the maximum

  NOT PROVED (validated by the exact oracle of tools/props/c16.py on the real implementation, see
  SPEC["not_proved"]): every end-to-end geometric clause of the property, the grid sizing, the
  per-edge bookkeeping and the clip closure.
-/
import Mathlib.Algebra.Order.Field.Rat
import Mathlib.Tactic.Linarith
import Mathlib.Tactic.Ring
import Honeycomb.Model.Grisubal

namespace HC.C16
open HC

/-- vertex `v` starts two segments: two distinct positions of the list have origin `v` -/
def StartsTwo (segs : List (Nat × Nat)) (v : Nat) : Prop :=
  ∃ i j, i < j ∧ j < segs.length ∧ (segs.getD i (0, 0)).1 = v ∧ (segs.getD j (0, 0)).1 = v

/-- vertex `v` ends two segments -/
def EndsTwo (segs : List (Nat × Nat)) (v : Nat) : Prop :=
  ∃ i j, i < j ∧ j < segs.length ∧ (segs.getD i (0, 0)).2 = v ∧ (segs.getD j (0, 0)).2 = v

theorem contains_iff (l : List Nat) (x : Nat) : l.contains x = true ↔ x ∈ l := by
  simp

/-- the loop invariant: with `origins` / `endpoints` already seen, the remaining scan fails iff a
    remaining segment repeats a seen origin / end point or the remaining segments repeat one among
    themselves -/
theorem detect_from_iff (segs : List (Nat × Nat)) : ∀ (os es : List Nat),
    detectOrientationIssueFrom segs os es = true ↔
      ((∃ s, s ∈ segs ∧ s.1 ∈ os) ∨ (∃ s, s ∈ segs ∧ s.2 ∈ es) ∨
        ¬ (segs.map Prod.fst).Nodup ∨ ¬ (segs.map Prod.snd).Nodup) := by
  induction segs with
  | nil => intro os es; simp [detectOrientationIssueFrom]
  | cons hd rest ih =>
      intro os es
      obtain ⟨o, e⟩ := hd
      unfold detectOrientationIssueFrom
      by_cases h1 : os.contains o = true
      · rw [if_pos h1]
        exact ⟨fun _ => Or.inl ⟨(o, e), List.mem_cons_self, (contains_iff _ _).1 h1⟩, fun _ => rfl⟩
      · by_cases h2 : es.contains e = true
        · rw [if_neg h1, if_pos h2]
          exact ⟨fun _ => Or.inr (Or.inl ⟨(o, e), List.mem_cons_self, (contains_iff _ _).1 h2⟩), fun _ => rfl⟩
        · have h1' : o ∉ os := fun h => h1 ((contains_iff _ _).2 h)
          have h2' : e ∉ es := fun h => h2 ((contains_iff _ _).2 h)
          rw [if_neg h1, if_neg h2]
          rw [ih (o :: os) (e :: es)]
          simp only [List.map_cons, List.nodup_cons, List.mem_cons, List.mem_map]
          constructor
          · rintro (⟨s, hs, hs1⟩ | ⟨s, hs, hs2⟩ | h | h)
            · rcases hs1 with hs1 | hs1
              · exact Or.inr (Or.inr (Or.inl (fun hh => hh.1 ⟨s, hs, hs1⟩)))
              · exact Or.inl ⟨s, Or.inr hs, hs1⟩
            · rcases hs2 with hs2 | hs2
              · exact Or.inr (Or.inr (Or.inr (fun hh => hh.1 ⟨s, hs, hs2⟩)))
              · exact Or.inr (Or.inl ⟨s, Or.inr hs, hs2⟩)
            · exact Or.inr (Or.inr (Or.inl (fun hh => h hh.2)))
            · exact Or.inr (Or.inr (Or.inr (fun hh => h hh.2)))
          · rintro (⟨s, hs, hs1⟩ | ⟨s, hs, hs2⟩ | h | h)
            · rcases hs with hs | hs
              · subst hs; exact absurd hs1 h1'
              · exact Or.inl ⟨s, hs, Or.inr hs1⟩
            · rcases hs with hs | hs
              · subst hs; exact absurd hs2 h2'
              · exact Or.inr (Or.inl ⟨s, hs, Or.inr hs2⟩)
            · by_cases hm : ∃ a, a ∈ rest ∧ a.1 = o
              · obtain ⟨a, ha, ha1⟩ := hm
                exact Or.inl ⟨a, ha, Or.inl ha1⟩
              · exact Or.inr (Or.inr (Or.inl (fun hn => h ⟨hm, hn⟩)))
            · by_cases hm : ∃ a, a ∈ rest ∧ a.2 = e
              · obtain ⟨a, ha, ha2⟩ := hm
                exact Or.inr (Or.inl ⟨a, ha, Or.inl ha2⟩)
              · exact Or.inr (Or.inr (Or.inr (fun hn => h ⟨hm, hn⟩)))

/-- a list of naturals has a repetition iff two distinct positions carry the same value -/
theorem not_nodup_iff (l : List Nat) :
    ¬ l.Nodup ↔ ∃ i j, i < j ∧ j < l.length ∧ l.getD i 0 = l.getD j 0 := by
  induction l with
  | nil => simp
  | cons a t ih =>
      rw [List.nodup_cons]
      constructor
      · intro h
        by_cases ha : a ∈ t
        · obtain ⟨k, hk, hk2⟩ := List.getElem_of_mem ha
          refine ⟨0, k + 1, by omega, by simp; omega, ?_⟩
          simp [List.getD, hk, hk2]
        · have : ¬ t.Nodup := fun hn => h ⟨ha, hn⟩
          obtain ⟨i, j, hij, hj, e⟩ := ih.1 this
          refine ⟨i + 1, j + 1, by omega, by simp; omega, ?_⟩
          simpa [List.getD] using e
      · rintro ⟨i, j, hij, hj, e⟩ ⟨ha, hn⟩
        cases i with
        | zero =>
            cases j with
            | zero => omega
            | succ j =>
                simp only [List.length_cons] at hj
                have hj' : j < t.length := by omega
                apply ha
                have : a = t[j] := by simpa [List.getD, hj'] using e
                rw [this]; exact List.getElem_mem hj'
        | succ i =>
            cases j with
            | zero => omega
            | succ j =>
                simp only [List.length_cons] at hj
                exact ih.2 ⟨i, j, by omega, by omega, by simpa [List.getD] using e⟩ hn

theorem getD_map_fst (segs : List (Nat × Nat)) (i : Nat) :
    (segs.map Prod.fst).getD i 0 = (segs.getD i (0, 0)).1 := by
  simp only [List.getD, List.getElem?_map]
  cases segs[i]? <;> rfl

theorem getD_map_snd (segs : List (Nat × Nat)) (i : Nat) :
    (segs.map Prod.snd).getD i 0 = (segs.getD i (0, 0)).2 := by
  simp only [List.getD, List.getElem?_map]
  cases segs[i]? <;> rfl

/-- **C16, rejection rule (exact)**: for every geometry given as a list of index pairs,
    `detect_orientation_issue` returns `Err(InconsistentOrientation)` iff some vertex starts two
    segments or some vertex ends two segments -/
theorem C16_orientation_rejection_iff (segs : List (Nat × Nat)) :
    detectOrientationIssue segs = true ↔ ∃ v, StartsTwo segs v ∨ EndsTwo segs v := by
  unfold detectOrientationIssue
  rw [detect_from_iff]
  simp only [List.not_mem_nil, and_false, exists_false, false_or]
  rw [not_nodup_iff, not_nodup_iff]
  simp only [List.length_map, getD_map_fst, getD_map_snd]
  constructor
  · rintro (⟨i, j, hij, hj, e⟩ | ⟨i, j, hij, hj, e⟩)
    · exact ⟨_, Or.inl ⟨i, j, hij, hj, e, rfl⟩⟩
    · exact ⟨_, Or.inr ⟨i, j, hij, hj, e, rfl⟩⟩
  · rintro ⟨v, ⟨i, j, hij, hj, e1, e2⟩ | ⟨i, j, hij, hj, e1, e2⟩⟩
    · exact Or.inl ⟨i, j, hij, hj, e1.trans e2.symm⟩
    · exact Or.inr ⟨i, j, hij, hj, e1.trans e2.symm⟩

/-- the same rule: the check passes iff the origins are pairwise distinct and the end points are
    pairwise distinct -/
theorem C16_orientation_accepts_iff_nodup (segs : List (Nat × Nat)) :
    detectOrientationIssue segs = false ↔
      (segs.map Prod.fst).Nodup ∧ (segs.map Prod.snd).Nodup := by
  have h := detect_from_iff segs [] []
  simp only [List.not_mem_nil, and_false, exists_false, false_or] at h
  unfold detectOrientationIssue
  constructor
  · intro hf
    have : ¬ (¬ (segs.map Prod.fst).Nodup ∨ ¬ (segs.map Prod.snd).Nodup) := by
      intro hh; rw [h.2 hh] at hf; cases hf
    exact ⟨Classical.not_not.1 (fun x => this (Or.inl x)), Classical.not_not.1 (fun x => this (Or.inr x))⟩
  · rintro ⟨h1, h2⟩
    cases hd : detectOrientationIssueFrom segs [] [] with
    | false => rfl
    | true =>
        rcases h.1 hd with hh | hh
        · exact absurd h1 hh
        · exact absurd h2 hh

/-- the segments of a closed loop `v₀ → v₁ → … → v_{k-1} → v₀` -/
def loopSegs (vs : List Nat) : List (Nat × Nat) := vs.zip (vs.drop 1 ++ vs.take 1)

/-- **C16**: a closed loop through pairwise distinct vertices passes the check … -/
theorem C16_closed_loop_accepted (vs : List Nat) (hn : vs.Nodup) :
    detectOrientationIssue (loopSegs vs) = false := by
  rw [C16_orientation_accepts_iff_nodup]
  unfold loopSegs
  have hl : (vs.drop 1 ++ vs.take 1).length = vs.length := by
    simp only [List.length_append, List.length_drop, List.length_take]; omega
  have hsplit : vs.take 1 ++ vs.drop 1 = vs := List.take_append_drop 1 vs
  have hn' : (vs.take 1 ++ vs.drop 1).Nodup := by rw [hsplit]; exact hn
  rw [List.nodup_append] at hn'
  constructor
  · rw [List.map_fst_zip (by omega)]; exact hn
  · rw [List.map_snd_zip (by omega)]
    exact List.nodup_append.2 ⟨hn'.2.1, hn'.1, fun a ha b hb e => hn'.2.2 b hb a ha e.symm⟩

/-- … and so do several loops on pairwise disjoint vertex sets (induction step: appending an
    accepted boundary whose origins / end points are new) -/
theorem C16_disjoint_boundaries_accepted (s t : List (Nat × Nat))
    (hs : detectOrientationIssue s = false) (ht : detectOrientationIssue t = false)
    (h1 : ∀ a, a ∈ s.map Prod.fst → a ∉ t.map Prod.fst)
    (h2 : ∀ a, a ∈ s.map Prod.snd → a ∉ t.map Prod.snd) :
    detectOrientationIssue (s ++ t) = false := by
  rw [C16_orientation_accepts_iff_nodup] at *
  simp only [List.map_append]
  exact ⟨List.nodup_append.2 ⟨hs.1, ht.1, fun a ha b hb e => h1 a ha (e ▸ hb)⟩,
         List.nodup_append.2 ⟨hs.2, ht.2, fun a ha b hb e => h2 a ha (e ▸ hb)⟩⟩

/-- **C16**: a boundary containing two segments with the same origin (e.g. a loop of ≥ 3 vertices
    with one reversed segment: the reversed segment and its successor start at the same vertex) is
    rejected, wherever the two segments stand in the list -/
theorem C16_repeated_origin_rejected (pre mid post : List (Nat × Nat)) (v a b : Nat) :
    detectOrientationIssue (pre ++ (v, a) :: mid ++ (v, b) :: post) = true := by
  rw [C16_orientation_rejection_iff]
  refine ⟨v, Or.inl ⟨pre.length, pre.length + 1 + mid.length, by omega, by simp; omega, ?_, ?_⟩⟩
  · simp [List.getD]
  · have : pre.length + 1 + mid.length = (pre ++ (v, a) :: mid).length := by simp; omega
    rw [this]
    simp [List.getD]

theorem C16_repeated_endpoint_rejected (pre mid post : List (Nat × Nat)) (v a b : Nat) :
    detectOrientationIssue (pre ++ (a, v) :: mid ++ (b, v) :: post) = true := by
  rw [C16_orientation_rejection_iff]
  refine ⟨v, Or.inr ⟨pre.length, pre.length + 1 + mid.length, by omega, by simp; omega, ?_, ?_⟩⟩
  · simp [List.getD]
  · have : pre.length + 1 + mid.length = (pre ++ (a, v) :: mid).length := by simp; omega
    rw [this]
    simp [List.getD]

/-! ## sizing of the overlapping grid (one axis, exact arithmetic) -/

theorem toNat_cast_ge (z : Int) : (z : Rat) ≤ ((z.toNat : Nat) : Rat) := by
  have h : z ≤ (z.toNat : Int) := Int.self_le_toNat z
  have h2 : (z : Rat) ≤ ((z.toNat : Int) : Rat) := Int.cast_le.2 h
  rwa [Int.cast_natCast] at h2

/-- **C16, grid sizing**: with cell length `c > 0` and a cumulated origin shift `s < 1/2` cell (0 in
    general position), every coordinate `v` of the geometry (`min ≤ v ≤ max`) lies inside the grid with
    more than one full cell of margin below and at least one full cell above -/
theorem C16_grid_margins {mn mx c s v : Rat} (hc : 0 < c) (hs : s < 1 / 2) (h1 : mn ≤ v) (h2 : v ≤ mx) :
    gridOrigin mn c s + c < v ∧ v + c ≤ gridOrigin mn c s + (gridCells mn mx c s : Rat) * c := by
  constructor
  · unfold gridOrigin
    nlinarith
  · unfold gridCells
    have hq : (mx - gridOrigin mn c s) / c ≤ (((mx - gridOrigin mn c s) / c).ceil : Rat) := Rat.le_ceil
    have hq2 := toNat_cast_ge ((mx - gridOrigin mn c s) / c).ceil
    have hq3 : (mx - gridOrigin mn c s) / c * c = mx - gridOrigin mn c s := div_mul_cancel₀ _ (ne_of_gt hc)
    push_cast
    nlinarith

/-- … and the grid is not larger than needed: fewer than two cells above the maximum -/
theorem C16_grid_tight {mn mx c s : Rat} (hc : 0 < c) (hs : s < 1 / 2) (h : mn ≤ mx) :
    gridOrigin mn c s + (gridCells mn mx c s : Rat) * c < mx + 2 * c := by
  unfold gridCells
  have hq3 : (mx - gridOrigin mn c s) / c * c = mx - gridOrigin mn c s := div_mul_cancel₀ _ (ne_of_gt hc)
  have hpos : 0 ≤ (mx - gridOrigin mn c s) / c := by
    apply div_nonneg _ (le_of_lt hc)
    unfold gridOrigin; nlinarith
  have hc0 : (0 : Int) ≤ ((mx - gridOrigin mn c s) / c).ceil := by
    have : ((0 : Int) : Rat) ≤ (((mx - gridOrigin mn c s) / c).ceil : Rat) := by
      have := @Rat.le_ceil ((mx - gridOrigin mn c s) / c); simp only [Int.cast_zero]; linarith
    exact Int.cast_le.1 this
  have hlt : (((mx - gridOrigin mn c s) / c).ceil : Rat) < (mx - gridOrigin mn c s) / c + 1 := Rat.ceil_lt
  have htn : ((((mx - gridOrigin mn c s) / c).ceil.toNat : Nat) : Rat) = (((mx - gridOrigin mn c s) / c).ceil : Rat) := by
    have : ((((mx - gridOrigin mn c s) / c).ceil.toNat : Nat) : Int) = ((mx - gridOrigin mn c s) / c).ceil :=
      Int.toNat_of_nonneg hc0
    have h3 : ((((mx - gridOrigin mn c s) / c).ceil.toNat : Int) : Rat)
        = (((mx - gridOrigin mn c s) / c).ceil : Rat) := by rw [this]
    rwa [Int.cast_natCast] at h3
  push_cast
  rw [htn]
  nlinarith

/-! ## non-vacuity -/

example : gridOrigin 0 1 0 = -3 / 2 ∧ gridCells 0 2 1 0 = 5 := by decide +kernel
example : gridOrigin (-1 / 2) (3 / 4) 0 = -13 / 8 ∧ gridCells (-1 / 2) (5 / 2) (3 / 4) 0 = 7 := by decide +kernel


-- a square loop is accepted; reversing its second segment makes vertex 2 start two segments
example : detectOrientationIssue [(0, 1), (1, 2), (2, 3), (3, 0)] = false := by decide
example : detectOrientationIssue [(0, 1), (2, 1), (2, 3), (3, 0)] = true := by decide
example : StartsTwo [(0, 1), (2, 1), (2, 3), (3, 0)] 2 := ⟨1, 2, by decide, by decide, rfl, rfl⟩
example : EndsTwo [(0, 1), (2, 1), (2, 3), (3, 0)] 1 := ⟨0, 1, by decide, by decide, rfl, rfl⟩
example : loopSegs [4, 7, 9] = [(4, 7), (7, 9), (9, 4)] := by decide
-- an outer loop and a hole on other vertices
example : detectOrientationIssue (loopSegs [0, 1, 2, 3] ++ loopSegs [6, 5, 4]) = false := by decide

end HC.C16
