/-
  C15, second part — the core clause of the property at β level, on ARBITRARY well-formed 2-maps (not only grids).

  Method: a successful sew / unsew is its link core up to `SameTopo` (Lemmas/RemeshBeta.lean), so the β FUNCTION after a
  straight-line kernel is a closed `upd`-chain on the initial one (`Eff`); it is evaluated at the named darts by `simp`
  from their pairwise distinctness.  Cells come from C03's orbit theorems (Lemmas/RemeshCells.lean).

  PROVED
  (1) local topology: `C15_swap_topology` (+ `C15_swap_faces_are_triangles`), `C15_cutOuter_topology`,
      `C15_cutInner_topology` — the twelve (resp. twelve, twenty-four) β0/β1 images of the new triangles, the β2 pairings,
      the frame (every other image of every other dart unchanged), `n` and the flags unchanged.
  (2) cells after `cut_outer_edge`: `C15_cutOuter_cells` — identifiers of the two new faces, every other face keeps its
      dart set and identifier, `iter_faces` before/after (one face replaced by two), the new vertex is `{nd1, nd3}` with
      identifier `min(nd1, nd3)`; `C15_cut_midpoint_in_final_map` — the midpoint sits at that identifier in the FINAL map,
      any numbering of the spare darts (boundary dart, no fault injected).
  (3) collapse: `C15_collapse_midpoint_interior` — for `collapse_edge` ITSELF (no assertion), without VertexAnchor storage,
      interior configuration: the two side conditions of `C15_collapse_preserves_WF` are discharged (no null dart sewn,
      every flagged dart free): the result is well formed; exactly the six darts are flagged and free; the neighbours are
      re-glued pairwise; frame.

  NOT PROVED here: the end-point (anchor-driven) variant of collapse and the boundary configurations (D15e lives there:
  nothing is flagged, so the side condition on flagged darts is vacuous and the map stays well formed — the defect is that
  the result is not a triangle mesh); vertex / edge counts; the final-map midpoint for `cut_inner_edge` (same method, four
  darts in the new vertex); `iter_faces` for swap and the inner cut (same method).
-/
import Honeycomb.Lemmas.RemeshBeta
import Honeycomb.Lemmas.RemeshCells
import Honeycomb.Props.C15
import Honeycomb.Props.C04

set_option linter.unusedSimpArgs false
set_option linter.unusedVariables false

namespace HC.C15
open HC
variable {X : Type}

/-! ## swap_edge -/

theorem eff_swapBody (cfg : Cfg X) (k l r b0l b1l b0r b1r : Nat) :
    Eff (swapBody cfg k l r b0l b1l b0r b1r) (fun f =>
      lnk1 (lnk1 (lnk1 (lnk1 (lnk1 (lnk1 (unl1 (unl1 (unl1 (unl1 (unl1 (unl1 f l) r) b0l) b0r) b1l) b1r)
        l b0r) b0r b1l) b1l l) r b0l) b0l b1r) b1r r) := by
  unfold swapBody
  have key :=
    Eff.bind (Eff.oneUnsew2 cfg k l) fun _ =>
    Eff.bind (Eff.oneUnsew2 cfg k r) fun _ =>
    Eff.bind (Eff.oneUnsew2 cfg k b0l) fun _ =>
    Eff.bind (Eff.oneUnsew2 cfg k b0r) fun _ =>
    Eff.bind (Eff.oneUnsew2 cfg k b1l) fun _ =>
    Eff.bind (Eff.oneUnsew2 cfg k b1r) fun _ =>
    Eff.bind (Eff.oneSew2 cfg k l b0r) fun _ =>
    Eff.bind (Eff.oneSew2 cfg k b0r b1l) fun _ =>
    Eff.bind (Eff.oneSew2 cfg k b1l l) fun _ =>
    Eff.bind (Eff.oneSew2 cfg k r b0l) fun _ =>
    Eff.bind (Eff.oneSew2 cfg k b0l b1r) fun _ => Eff.oneSew2 cfg k b1r r
  exact key

/-- pure evaluation of the twelve-step chain of `swap_edge` on six pairwise distinct darts forming two β1-triangles
    `l → a → b → l` and `r → c → d → r` -/
theorem swap_chain_eval (f : Nat → Nat → Nat) (l r a b c d : Nat) (hd : [l, r, a, b, c, d].Nodup)
    (h1 : f 1 l = a) (h2 : f 1 a = b) (h3 : f 1 b = l) (h4 : f 1 r = c) (h5 : f 1 c = d) (h6 : f 1 d = r)
    (g1 : f 0 a = l) (g2 : f 0 b = a) (g3 : f 0 l = b) (g4 : f 0 c = r) (g5 : f 0 d = c) (g6 : f 0 r = d) :
    let F := lnk1 (lnk1 (lnk1 (lnk1 (lnk1 (lnk1 (unl1 (unl1 (unl1 (unl1 (unl1 (unl1 f l) r) b) d) a) c)
      l d) d a) a l) r b) b c) c r
    (F 1 l = d ∧ F 1 d = a ∧ F 1 a = l) ∧ (F 1 r = b ∧ F 1 b = c ∧ F 1 c = r) ∧
    (F 0 d = l ∧ F 0 a = d ∧ F 0 l = a) ∧ (F 0 b = r ∧ F 0 c = b ∧ F 0 r = c) ∧
    (∀ x, F 2 x = f 2 x) ∧ (∀ i x, x ∉ [l, r, a, b, c, d] → F i x = f i x) := by
  simp only [List.nodup_cons, List.mem_cons, List.mem_nil_iff, not_or, or_false, List.nodup_nil, and_true] at hd
  obtain ⟨⟨n1, n2, n3, n4, n5⟩, ⟨n6, n7, n8, n9⟩, ⟨n10, n11, n12⟩, ⟨n13, n14⟩, n15⟩ := hd
  intro F
  refine ⟨?_, ?_, ?_, ?_, ?_, ?_⟩
  · simp only [F, lnk1, unl1, upd_apply, h1, h2, h3, h4, h5, h6, g1, g2, g3, g4, g5, g6]
    simp [*, eq_comm]
  · simp only [F, lnk1, unl1, upd_apply, h1, h2, h3, h4, h5, h6, g1, g2, g3, g4, g5, g6]
    simp [*, eq_comm]
  · simp only [F, lnk1, unl1, upd_apply, h1, h2, h3, h4, h5, h6, g1, g2, g3, g4, g5, g6]
    simp [*, eq_comm]
  · simp only [F, lnk1, unl1, upd_apply, h1, h2, h3, h4, h5, h6, g1, g2, g3, g4, g5, g6]
    simp [*, eq_comm]
  · intro x
    simp [F, lnk1, unl1, upd_apply]
  · intro i x hx
    simp only [List.mem_cons, List.mem_nil_iff, not_or, or_false] at hx
    obtain ⟨x1, x2, x3, x4, x5, x6⟩ := hx
    simp only [F, lnk1, unl1, upd_apply, h1, h2, h3, h4, h5, h6, g1, g2, g3, g4, g5, g6]
    simp [*, eq_comm, Ne.symm x1, Ne.symm x2, Ne.symm x3, Ne.symm x4, Ne.symm x5, Ne.symm x6]

/-- **C15, swap, the core clause at β level**: on ANY well-formed 2-map, whenever `swap_edge(e)` succeeds on an edge
    whose two faces are closed at the edge darts and whose six surrounding darts `e, r = β2 e, a = β1 e, b = β0 e,
    c = β1 r, d = β0 r` are pairwise distinct (two genuine, different triangles — that they ARE triangles is the
    kernel's own BadTopology guard), the six darts form exactly the two triangles around the other diagonal,
    `e → d → a → e` and `r → b → c → r` (all twelve β0/β1 images), `e` and `r` stay 2-sewn to each other, every β2
    image and every image of every other dart is unchanged, and so are the dart count and the removal flags. -/
theorem C15_swap_topology (cfg : Cfg X) (m m' : Map X) (e : Nat) (hwf : WF 3 m) (he : e < m.n)
    (h : run (swapEdge cfg m.n e) m = (.ok (), m'))
    (hb : m.β 0 e ≠ 0) (hd : m.β 0 (m.β 2 e) ≠ 0)
    (hnd : [e, m.β 2 e, m.β 1 e, m.β 0 e, m.β 1 (m.β 2 e), m.β 0 (m.β 2 e)].Nodup) :
    (m'.β 1 e = m.β 0 (m.β 2 e) ∧ m'.β 1 (m.β 0 (m.β 2 e)) = m.β 1 e ∧ m'.β 1 (m.β 1 e) = e) ∧
    (m'.β 1 (m.β 2 e) = m.β 0 e ∧ m'.β 1 (m.β 0 e) = m.β 1 (m.β 2 e) ∧ m'.β 1 (m.β 1 (m.β 2 e)) = m.β 2 e) ∧
    (m'.β 0 (m.β 0 (m.β 2 e)) = e ∧ m'.β 0 (m.β 1 e) = m.β 0 (m.β 2 e) ∧ m'.β 0 e = m.β 1 e) ∧
    (m'.β 0 (m.β 0 e) = m.β 2 e ∧ m'.β 0 (m.β 1 (m.β 2 e)) = m.β 0 e ∧ m'.β 0 (m.β 2 e) = m.β 1 (m.β 2 e)) ∧
    (∀ x, m'.β 2 x = m.β 2 x) ∧
    (∀ i x, x ∉ [e, m.β 2 e, m.β 1 e, m.β 0 e, m.β 1 (m.β 2 e), m.β 0 (m.β 2 e)] → m'.β i x = m.β i x) ∧
    m'.n = m.n ∧ m'.u = m.u := by
  rw [C15_swap_guards cfg m.n e m (fun i d hi hd => (hwf.toSized.okβ i d).2 ⟨hi, hd⟩)
    (fun i d hi hd => hwf.range i hi d hd) he] at h
  by_cases e0 : e = 0
  · simp [e0] at h
  simp only [e0, if_false] at h
  by_cases r0 : m.β 2 e = 0
  · simp [r0] at h
  simp only [r0, if_false] at h
  by_cases g : m.β 1 (m.β 1 e) ≠ m.β 0 e ∨ m.β 1 (m.β 1 (m.β 2 e)) ≠ m.β 0 (m.β 2 e)
  · simp [g] at h
  simp only [g, if_false] at h
  have gl : m.β 1 (m.β 1 e) = m.β 0 e := by
    by_cases hh : m.β 1 (m.β 1 e) = m.β 0 e
    · exact hh
    · exact absurd (Or.inl hh) g
  have gr : m.β 1 (m.β 1 (m.β 2 e)) = m.β 0 (m.β 2 e) := by
    by_cases hh : m.β 1 (m.β 1 (m.β 2 e)) = m.β 0 (m.β 2 e)
    · exact hh
    · exact absurd (Or.inr hh) g
  have hr : m.β 2 e < m.n := hwf.range 2 (by omega) e he
  have a0 : m.β 1 e ≠ 0 := fun hh => hb (by rw [← gl, hh]; exact hwf.null 1 (by omega))
  have c0 : m.β 1 (m.β 2 e) ≠ 0 := fun hh => hd (by rw [← gr, hh]; exact hwf.null 1 (by omega))
  have ha : m.β 1 e < m.n := hwf.range 1 (by omega) e he
  have hc : m.β 1 (m.β 2 e) < m.n := hwf.range 1 (by omega) _ hr
  have st := eff_swapBody cfg m.n e (m.β 2 e) (m.β 0 e) (m.β 1 e) (m.β 0 (m.β 2 e)) (m.β 1 (m.β 2 e)) m m' () h
  have ev := swap_chain_eval m.β e (m.β 2 e) (m.β 1 e) (m.β 0 e) (m.β 1 (m.β 2 e)) (m.β 0 (m.β 2 e)) hnd
    rfl gl (hwf.inv10 e he hb) rfl gr (hwf.inv10 _ hr hd)
    (hwf.inv01 e he a0) (by rw [← gl]; exact hwf.inv01 _ ha (by rw [gl]; exact hb)) rfl
    (hwf.inv01 _ hr c0) (by rw [← gr]; exact hwf.inv01 _ hc (by rw [gr]; exact hd)) rfl
  simp only at ev
  rw [st.β]
  exact ⟨ev.1, ev.2.1, ev.2.2.1, ev.2.2.2.1, ev.2.2.2.2.1, ev.2.2.2.2.2, st.n, st.u⟩

/-- after a successful swap the six darts still form triangles: β1³ = id on each of them -/
theorem C15_swap_faces_are_triangles (cfg : Cfg X) (m m' : Map X) (e : Nat) (hwf : WF 3 m) (he : e < m.n)
    (h : run (swapEdge cfg m.n e) m = (.ok (), m'))
    (hb : m.β 0 e ≠ 0) (hd : m.β 0 (m.β 2 e) ≠ 0)
    (hnd : [e, m.β 2 e, m.β 1 e, m.β 0 e, m.β 1 (m.β 2 e), m.β 0 (m.β 2 e)].Nodup) :
    ∀ x, x ∈ [e, m.β 2 e, m.β 1 e, m.β 0 e, m.β 1 (m.β 2 e), m.β 0 (m.β 2 e)] → m'.β 1 (m'.β 1 (m'.β 1 x)) = x := by
  obtain ⟨⟨p1, p2, p3⟩, ⟨q1, q2, q3⟩, _⟩ := C15_swap_topology cfg m m' e hwf he h hb hd hnd
  intro x hx
  simp only [List.mem_cons, List.mem_nil_iff, or_false] at hx
  rcases hx with rfl | rfl | rfl | rfl | rfl | rfl
  · rw [p1, p2, p3]
  · rw [q1, q2, q3]
  · rw [p3, p1, p2]
  · rw [q2, q3, q1]
  · rw [q3, q1, q2]
  · rw [p2, p3, p1]

/-! ## cut_outer_edge -/

/-- the β function after `cut_outer_edge(e, [nd1, nd2, nd3])` -/
def cutOuterF (e nd1 nd2 nd3 : Nat) (f : Nat → Nat → Nat) : Nat → Nat → Nat :=
  let f2 := lnk1 (lnk2 f nd1 nd2) nd2 nd3
  let b0 := f2 0 e
  let b1 := f2 1 e
  lnk1 (lnk1 (lnk1 (lnk1 (unl1 (unl1 f2 e) b1) e nd1) nd1 b0) nd3 b1) b1 nd2

theorem eff_cutOuterEdge (cfg : Cfg Val) (k e nd1 nd2 nd3 : Nat) :
    Eff (cutOuterEdge cfg k e nd1 nd2 nd3) (cutOuterF e nd1 nd2 nd3) := by
  unfold cutOuterEdge
  have key :=
    Eff.bind (Eff.twoLinkCore (X := Val) nd1 nd2) fun _ =>
    Eff.bind (Eff.oneLinkCore (X := Val) nd2 nd3) fun _ =>
    Eff.attr_bind (ao_takeFaceAnchor cfg k e) fun fa =>
    Eff.attr_bind (ao_peekEdgeAnchor cfg e) fun ea =>
    Eff.rB_bind (i := 0) (d := e) fun b0 =>
    Eff.rB_bind (i := 1) (d := e) fun b1 =>
    Eff.ro_bind (readOnly_vertexId2 k e) fun v1 =>
    Eff.ro_bind (readOnly_vertexId2 k b1) fun v2 =>
    Eff.attr_bind (ao_midpointOrRetry v1 v2) fun nv =>
    Eff.ro_bind (readOnly_vertexId2 k nd1) fun vid =>
    Eff.attr_bind (ao_writeVtx vid nv) fun _ =>
    Eff.bind (Eff.oneUnsew2 cfg k e) fun _ =>
    Eff.bind (Eff.oneUnsew2 cfg k b1) fun _ =>
    Eff.bind (Eff.oneSew2 cfg k e nd1) fun _ =>
    Eff.bind (Eff.oneSew2 cfg k nd1 b0) fun _ =>
    Eff.bind (Eff.oneSew2 cfg k nd3 b1) fun _ =>
    Eff.bind (Eff.oneSew2 cfg k b1 nd2) fun _ =>
    Eff.attr_bind (ao_spreadFaceAnchor cfg k fa nd1 nd2) fun _ =>
    Eff.attr (ao_spreadEdgeAnchorOuter cfg k ea nd1 nd3)
  exact key

theorem cutOuter_chain_eval (f : Nat → Nat → Nat) (l a b n1 n2 n3 : Nat) (hd : [l, a, b, n1, n2, n3].Nodup)
    (h1 : f 1 l = a) (h2 : f 1 a = b) (h3 : f 1 b = l) (g1 : f 0 a = l) (g2 : f 0 b = a) (g3 : f 0 l = b) :
    let F := cutOuterF l n1 n2 n3 f
    (F 1 l = n1 ∧ F 1 n1 = b ∧ F 1 b = l) ∧ (F 1 n3 = a ∧ F 1 a = n2 ∧ F 1 n2 = n3) ∧
    (F 0 n1 = l ∧ F 0 b = n1 ∧ F 0 l = b) ∧ (F 0 a = n3 ∧ F 0 n2 = a ∧ F 0 n3 = n2) ∧
    (F 2 n1 = n2 ∧ F 2 n2 = n1 ∧ ∀ x, x ≠ n1 → x ≠ n2 → F 2 x = f 2 x) ∧
    (∀ i x, x ∉ [l, a, b, n1, n2, n3] → F i x = f i x) := by
  simp only [List.nodup_cons, List.mem_cons, List.mem_nil_iff, not_or, or_false, List.nodup_nil, and_true] at hd
  obtain ⟨⟨n1', n2', n3', n4, n5⟩, ⟨n6, n7, n8, n9⟩, ⟨n10, n11, n12⟩, ⟨n13, n14⟩, n15⟩ := hd
  intro F
  refine ⟨?_, ?_, ?_, ?_, ?_, ?_⟩
  · simp only [F, cutOuterF, lnk1, lnk2, unl1, upd_apply, h1, h2, h3, g1, g2, g3]
    simp [*, eq_comm]
  · simp only [F, cutOuterF, lnk1, lnk2, unl1, upd_apply, h1, h2, h3, g1, g2, g3]
    simp [*, eq_comm]
  · simp only [F, cutOuterF, lnk1, lnk2, unl1, upd_apply, h1, h2, h3, g1, g2, g3]
    simp [*, eq_comm]
  · simp only [F, cutOuterF, lnk1, lnk2, unl1, upd_apply, h1, h2, h3, g1, g2, g3]
    simp [*, eq_comm]
  · refine ⟨?_, ?_, ?_⟩
    · simp only [F, cutOuterF, lnk1, lnk2, unl1, upd_apply]
      simp [*, eq_comm]
    · simp only [F, cutOuterF, lnk1, lnk2, unl1, upd_apply]
      simp [*, eq_comm]
    · intro x x1 x2
      simp only [F, cutOuterF, lnk1, lnk2, unl1, upd_apply]
      simp [*, eq_comm, Ne.symm x1, Ne.symm x2]
  · intro i x hx
    simp only [List.mem_cons, List.mem_nil_iff, not_or, or_false] at hx
    obtain ⟨x1, x2, x3, x4, x5, x6⟩ := hx
    simp only [F, cutOuterF, lnk1, lnk2, unl1, upd_apply, h1, h2, h3, g1, g2, g3]
    simp [*, eq_comm, Ne.symm x1, Ne.symm x2, Ne.symm x3, Ne.symm x4, Ne.symm x5, Ne.symm x6]

/-- **C15, cut_outer_edge, the core clause at β level**: on ANY well-formed 2-map, whenever `cut_outer_edge(e, [nd1,
    nd2, nd3])` succeeds on a dart whose face is a closed triangle `e → a → b → e` (`a = β1 e`, `b = β0 e`, the kernel
    does not test it) with the six darts pairwise distinct, the triangle is replaced by the two triangles of the doc
    comment, `e → nd1 → b → e` and `nd3 → a → nd2 → nd3`, glued along `nd1 | nd2`; every other β2 image and every image of
    every other dart is unchanged (in particular `e` and `nd3` keep their β2 images: the two halves of the cut edge), and
    so are the dart count and the removal flags. -/
theorem C15_cutOuter_topology (cfg : Cfg Val) (m m' : Map Val) (e nd1 nd2 nd3 : Nat) (hwf : WF 3 m) (he : e < m.n)
    (h : run (cutOuterEdge cfg m.n e nd1 nd2 nd3) m = (.ok (), m'))
    (htri : m.β 1 (m.β 1 e) = m.β 0 e) (hb : m.β 0 e ≠ 0)
    (hnd : [e, m.β 1 e, m.β 0 e, nd1, nd2, nd3].Nodup) :
    (m'.β 1 e = nd1 ∧ m'.β 1 nd1 = m.β 0 e ∧ m'.β 1 (m.β 0 e) = e) ∧
    (m'.β 1 nd3 = m.β 1 e ∧ m'.β 1 (m.β 1 e) = nd2 ∧ m'.β 1 nd2 = nd3) ∧
    (m'.β 0 nd1 = e ∧ m'.β 0 (m.β 0 e) = nd1 ∧ m'.β 0 e = m.β 0 e) ∧
    (m'.β 0 (m.β 1 e) = nd3 ∧ m'.β 0 nd2 = m.β 1 e ∧ m'.β 0 nd3 = nd2) ∧
    (m'.β 2 nd1 = nd2 ∧ m'.β 2 nd2 = nd1 ∧ ∀ x, x ≠ nd1 → x ≠ nd2 → m'.β 2 x = m.β 2 x) ∧
    (∀ i x, x ∉ [e, m.β 1 e, m.β 0 e, nd1, nd2, nd3] → m'.β i x = m.β i x) ∧
    m'.n = m.n ∧ m'.u = m.u := by
  have a0 : m.β 1 e ≠ 0 := fun hh => hb (by rw [← htri, hh]; exact hwf.null 1 (by omega))
  have ha : m.β 1 e < m.n := hwf.range 1 (by omega) e he
  have st := eff_cutOuterEdge cfg m.n e nd1 nd2 nd3 m m' () h
  have ev := cutOuter_chain_eval m.β e (m.β 1 e) (m.β 0 e) nd1 nd2 nd3 hnd rfl htri (hwf.inv10 e he hb)
    (hwf.inv01 e he a0) (by rw [← htri]; exact hwf.inv01 _ ha (by rw [htri]; exact hb)) rfl
  simp only at ev
  rw [st.β]
  exact ⟨ev.1, ev.2.1, ev.2.2.1, ev.2.2.2.1, ev.2.2.2.2.1, ev.2.2.2.2.2, st.n, st.u⟩

/-! ## cut_inner_edge -/

/-- the β function after `cut_inner_edge(e, [nd1 … nd6])` -/
def cutInnerF (e n1 n2 n3 n4 n5 n6 : Nat) (f : Nat → Nat → Nat) : Nat → Nat → Nat :=
  let f4 := lnk1 (lnk2 (lnk1 (lnk2 f n1 n2) n2 n3) n4 n5) n5 n6
  let rd := f4 2 e
  let b0l := f4 0 e
  let b1l := f4 1 e
  let b0r := f4 0 rd
  let b1r := f4 1 rd
  lnk1 (lnk1 (lnk1 (lnk1 (lnk1 (lnk1 (lnk1 (lnk1 (lnk2 (lnk2
    (unl1 (unl1 (unl1 (unl1 (unl2 f4 e) e) b1l) rd) b1r)
    e n6) rd n3) e n1) n1 b0l) n3 b1l) b1l n2) rd n4) n4 b0r) n6 b1r) b1r n5

theorem eff_cutInnerEdge (cfg : Cfg Val) (k e n1 n2 n3 n4 n5 n6 : Nat) :
    Eff (cutInnerEdge cfg k e n1 n2 n3 n4 n5 n6) (cutInnerF e n1 n2 n3 n4 n5 n6) := by
  unfold cutInnerEdge
  have key :=
    Eff.bind (Eff.twoLinkCore (X := Val) n1 n2) fun _ =>
    Eff.bind (Eff.oneLinkCore (X := Val) n2 n3) fun _ =>
    Eff.bind (Eff.twoLinkCore (X := Val) n4 n5) fun _ =>
    Eff.bind (Eff.oneLinkCore (X := Val) n5 n6) fun _ =>
    Eff.rB_bind (i := 2) (d := e) fun rd =>
    Eff.attr_bind (ao_takeFaceAnchor cfg k e) fun lf =>
    Eff.attr_bind (ao_takeFaceAnchor cfg k rd) fun rf =>
    Eff.attr_bind (ao_peekEdgeAnchor cfg e) fun ea =>
    Eff.rB_bind (i := 0) (d := e) fun b0l =>
    Eff.rB_bind (i := 1) (d := e) fun b1l =>
    Eff.rB_bind (i := 0) (d := rd) fun b0r =>
    Eff.rB_bind (i := 1) (d := rd) fun b1r =>
    Eff.ro_bind (readOnly_vertexId2 k e) fun v1 =>
    Eff.ro_bind (readOnly_vertexId2 k b1l) fun v2 =>
    Eff.attr_bind (ao_midpointOrRetry v1 v2) fun nv =>
    Eff.ro_bind (readOnly_vertexId2 k n1) fun vid =>
    Eff.attr_bind (ao_writeVtx vid nv) fun _ =>
    Eff.bind (Eff.twoUnsew2 cfg k e) fun _ =>
    Eff.bind (Eff.oneUnsew2 cfg k e) fun _ =>
    Eff.bind (Eff.oneUnsew2 cfg k b1l) fun _ =>
    Eff.bind (Eff.oneUnsew2 cfg k rd) fun _ =>
    Eff.bind (Eff.oneUnsew2 cfg k b1r) fun _ =>
    Eff.bind (Eff.twoSew2 cfg k e n6) fun _ =>
    Eff.bind (Eff.twoSew2 cfg k rd n3) fun _ =>
    Eff.bind (Eff.oneSew2 cfg k e n1) fun _ =>
    Eff.bind (Eff.oneSew2 cfg k n1 b0l) fun _ =>
    Eff.bind (Eff.oneSew2 cfg k n3 b1l) fun _ =>
    Eff.bind (Eff.oneSew2 cfg k b1l n2) fun _ =>
    Eff.bind (Eff.oneSew2 cfg k rd n4) fun _ =>
    Eff.bind (Eff.oneSew2 cfg k n4 b0r) fun _ =>
    Eff.bind (Eff.oneSew2 cfg k n6 b1r) fun _ =>
    Eff.bind (Eff.oneSew2 cfg k b1r n5) fun _ =>
    Eff.attr_bind (ao_spreadFaceAnchor cfg k lf n1 n2) fun _ =>
    Eff.attr_bind (ao_spreadFaceAnchor cfg k rf n4 n5) fun _ =>
    Eff.attr (ao_spreadEdgeAnchor cfg k ea n1)
  exact key

set_option maxHeartbeats 1600000 in
theorem cutInner_chain_eval (f : Nat → Nat → Nat) (l r a b c d n1 n2 n3 n4 n5 n6 : Nat)
    (hd : [l, r, a, b, c, d, n1, n2, n3, n4, n5, n6].Nodup)
    (k1 : f 2 l = r) (k2 : f 2 r = l)
    (h1 : f 1 l = a) (h2 : f 1 a = b) (h3 : f 1 b = l) (h4 : f 1 r = c) (h5 : f 1 c = d) (h6 : f 1 d = r)
    (g1 : f 0 a = l) (g2 : f 0 b = a) (g3 : f 0 l = b) (g4 : f 0 c = r) (g5 : f 0 d = c) (g6 : f 0 r = d) :
    let F := cutInnerF l n1 n2 n3 n4 n5 n6 f
    ((F 1 l = n1 ∧ F 1 n1 = b ∧ F 1 b = l) ∧ (F 1 n3 = a ∧ F 1 a = n2 ∧ F 1 n2 = n3) ∧
     (F 1 r = n4 ∧ F 1 n4 = d ∧ F 1 d = r) ∧ (F 1 n6 = c ∧ F 1 c = n5 ∧ F 1 n5 = n6)) ∧
    ((F 0 n1 = l ∧ F 0 b = n1 ∧ F 0 l = b) ∧ (F 0 a = n3 ∧ F 0 n2 = a ∧ F 0 n3 = n2) ∧
     (F 0 n4 = r ∧ F 0 d = n4 ∧ F 0 r = d) ∧ (F 0 c = n6 ∧ F 0 n5 = c ∧ F 0 n6 = n5)) ∧
    ((F 2 l = n6 ∧ F 2 n6 = l) ∧ (F 2 r = n3 ∧ F 2 n3 = r) ∧ (F 2 n1 = n2 ∧ F 2 n2 = n1) ∧ (F 2 n4 = n5 ∧ F 2 n5 = n4) ∧
      ∀ x, x ∉ [l, r, n1, n2, n3, n4, n5, n6] → F 2 x = f 2 x) ∧
    (∀ i x, x ∉ [l, r, a, b, c, d, n1, n2, n3, n4, n5, n6] → F i x = f i x) := by
  simp only [List.nodup_cons, List.mem_cons, List.mem_nil_iff, not_or, or_false, List.nodup_nil, and_true] at hd
  intro F
  refine ⟨⟨?_, ?_, ?_, ?_⟩, ⟨?_, ?_, ?_, ?_⟩, ⟨?_, ?_, ?_, ?_, ?_⟩, ?_⟩
  all_goals try (simp only [F, cutInnerF, lnk1, lnk2, unl1, unl2, upd_apply, h1, h2, h3, h4, h5, h6, g1, g2, g3, g4, g5, g6, k1, k2]; simp [*, eq_comm]; done)
  · intro x hx
    simp only [List.mem_cons, List.mem_nil_iff, not_or, or_false] at hx
    have hx' := hx
    simp only [@eq_comm _ x] at hx'
    simp only [F, cutInnerF, lnk1, lnk2, unl1, unl2, upd_apply, h1, h2, h3, h4, h5, h6, g1, g2, g3, g4, g5, g6, k1, k2]
    simp [*, eq_comm]
  · intro i x hx
    simp only [List.mem_cons, List.mem_nil_iff, not_or, or_false] at hx
    have hx' := hx
    simp only [@eq_comm _ x] at hx'
    simp only [F, cutInnerF, lnk1, lnk2, unl1, unl2, upd_apply, h1, h2, h3, h4, h5, h6, g1, g2, g3, g4, g5, g6, k1, k2]
    simp [*, eq_comm]

/-- **C15, cut_inner_edge, the core clause at β level**: on ANY well-formed 2-map, whenever `cut_inner_edge(e, [nd1 …
    nd6])` succeeds on an interior edge whose two faces are closed triangles `e → a → b → e`, `r → c → d → r`
    (`r = β2 e`; the kernel does not test it) with the twelve darts pairwise distinct, the two triangles are replaced by
    the four of the doc comment — `e → nd1 → b`, `nd3 → a → nd2`, `r → nd4 → d`, `nd6 → c → nd5` — glued along
    `e | nd6`, `r | nd3` (the two halves of the cut edge), `nd1 | nd2`, `nd4 | nd5`; every other β2 image and every image
    of every other dart is unchanged, and so are the dart count and the removal flags. -/
theorem C15_cutInner_topology (cfg : Cfg Val) (m m' : Map Val) (e n1 n2 n3 n4 n5 n6 : Nat) (hwf : WF 3 m) (he : e < m.n)
    (h : run (cutInnerEdge cfg m.n e n1 n2 n3 n4 n5 n6) m = (.ok (), m'))
    (hr0 : m.β 2 e ≠ 0)
    (htl : m.β 1 (m.β 1 e) = m.β 0 e) (hb : m.β 0 e ≠ 0)
    (htr : m.β 1 (m.β 1 (m.β 2 e)) = m.β 0 (m.β 2 e)) (hd : m.β 0 (m.β 2 e) ≠ 0)
    (hnd : [e, m.β 2 e, m.β 1 e, m.β 0 e, m.β 1 (m.β 2 e), m.β 0 (m.β 2 e), n1, n2, n3, n4, n5, n6].Nodup) :
    ((m'.β 1 e = n1 ∧ m'.β 1 n1 = m.β 0 e ∧ m'.β 1 (m.β 0 e) = e) ∧
     (m'.β 1 n3 = m.β 1 e ∧ m'.β 1 (m.β 1 e) = n2 ∧ m'.β 1 n2 = n3) ∧
     (m'.β 1 (m.β 2 e) = n4 ∧ m'.β 1 n4 = m.β 0 (m.β 2 e) ∧ m'.β 1 (m.β 0 (m.β 2 e)) = m.β 2 e) ∧
     (m'.β 1 n6 = m.β 1 (m.β 2 e) ∧ m'.β 1 (m.β 1 (m.β 2 e)) = n5 ∧ m'.β 1 n5 = n6)) ∧
    ((m'.β 0 n1 = e ∧ m'.β 0 (m.β 0 e) = n1 ∧ m'.β 0 e = m.β 0 e) ∧
     (m'.β 0 (m.β 1 e) = n3 ∧ m'.β 0 n2 = m.β 1 e ∧ m'.β 0 n3 = n2) ∧
     (m'.β 0 n4 = m.β 2 e ∧ m'.β 0 (m.β 0 (m.β 2 e)) = n4 ∧ m'.β 0 (m.β 2 e) = m.β 0 (m.β 2 e)) ∧
     (m'.β 0 (m.β 1 (m.β 2 e)) = n6 ∧ m'.β 0 n5 = m.β 1 (m.β 2 e) ∧ m'.β 0 n6 = n5)) ∧
    ((m'.β 2 e = n6 ∧ m'.β 2 n6 = e) ∧ (m'.β 2 (m.β 2 e) = n3 ∧ m'.β 2 n3 = m.β 2 e) ∧
     (m'.β 2 n1 = n2 ∧ m'.β 2 n2 = n1) ∧ (m'.β 2 n4 = n5 ∧ m'.β 2 n5 = n4) ∧
     ∀ x, x ∉ [e, m.β 2 e, n1, n2, n3, n4, n5, n6] → m'.β 2 x = m.β 2 x) ∧
    (∀ i x, x ∉ [e, m.β 2 e, m.β 1 e, m.β 0 e, m.β 1 (m.β 2 e), m.β 0 (m.β 2 e), n1, n2, n3, n4, n5, n6] →
      m'.β i x = m.β i x) ∧
    m'.n = m.n ∧ m'.u = m.u := by
  have hr : m.β 2 e < m.n := hwf.range 2 (by omega) e he
  have a0 : m.β 1 e ≠ 0 := fun hh => hb (by rw [← htl, hh]; exact hwf.null 1 (by omega))
  have c0 : m.β 1 (m.β 2 e) ≠ 0 := fun hh => hd (by rw [← htr, hh]; exact hwf.null 1 (by omega))
  have ha : m.β 1 e < m.n := hwf.range 1 (by omega) e he
  have hc : m.β 1 (m.β 2 e) < m.n := hwf.range 1 (by omega) _ hr
  have st := eff_cutInnerEdge cfg m.n e n1 n2 n3 n4 n5 n6 m m' () h
  have ev := cutInner_chain_eval m.β e (m.β 2 e) (m.β 1 e) (m.β 0 e) (m.β 1 (m.β 2 e)) (m.β 0 (m.β 2 e))
    n1 n2 n3 n4 n5 n6 hnd rfl (hwf.invol 2 (by omega) (by omega) e he hr0).1
    rfl htl (hwf.inv10 e he hb) rfl htr (hwf.inv10 _ hr hd)
    (hwf.inv01 e he a0) (by rw [← htl]; exact hwf.inv01 _ ha (by rw [htl]; exact hb)) rfl
    (hwf.inv01 _ hr c0) (by rw [← htr]; exact hwf.inv01 _ hc (by rw [htr]; exact hd)) rfl
  simp only at ev
  rw [st.β]
  exact ⟨ev.1, ev.2.1, ev.2.2.1, ev.2.2.2, st.n, st.u⟩

/-! ## (2) cells after `cut_outer_edge`, from the β-level theorem and C03 -/

theorem wf_of_run_ok {α : Type} {p : P X α} {m m' : Map X} {a : α} (h : run p m = (.ok a, m'))
    (hw : WF 3 (atomically p m).2) : WF 3 m' := by
  unfold atomically at hw; rw [h] at hw; exact hw

open HC.C03 in
/-- **C15, cut_outer_edge, faces and the new vertex**: under the hypotheses of `C15_cutOuter_topology` with free in-use
    spare darts, in the map after a successful call
    * the two new faces have the identifiers `min(e, nd1, b)` and `min(nd3, a, nd2)`;
    * every dart outside the six keeps its face (same dart set, same identifier);
    * `iter_faces` yields exactly these two identifiers and the identifiers of the faces of the untouched darts
      (before the call: the identifier of the triangle, the three spare darts — each a face of its own — and the same
      untouched faces): one face is replaced by two;
    * when `e` is a boundary dart (`β2 e` null), the new vertex is `{nd1, nd3}` with identifier `min(nd1, nd3)`. -/
theorem C15_cutOuter_cells (cfg : Cfg Val) (m m' : Map Val) (e nd1 nd2 nd3 : Nat) (hwf : WF 3 m) (he : C01.InUse m e)
    (h : run (cutOuterEdge cfg m.n e nd1 nd2 nd3) m = (.ok (), m'))
    (htri : m.β 1 (m.β 1 e) = m.β 0 e) (hb : m.β 0 e ≠ 0)
    (s1 : Spare m nd1) (s2 : Spare m nd2) (s3 : Spare m nd3)
    (hnd : [e, m.β 1 e, m.β 0 e, nd1, nd2, nd3].Nodup) :
    WF 3 m' ∧
    cellId m' .face e = min e (min nd1 (m.β 0 e)) ∧ cellId m' .face nd3 = min nd3 (min (m.β 1 e) nd2) ∧
    (∀ d, d ≠ 0 → d < m.n → d ∉ [e, m.β 1 e, m.β 0 e, nd1, nd2, nd3] →
      (∀ x, x ∈ orb m' .face d ↔ x ∈ orb m .face d) ∧ cellId m' .face d = cellId m .face d) ∧
    (∀ x, x ∈ iterFaces2 m' ↔ (x = min e (min nd1 (m.β 0 e)) ∨ x = min nd3 (min (m.β 1 e) nd2) ∨
      ∃ d, d ≠ 0 ∧ d < m.n ∧ m.unused d = false ∧ d ∉ [e, m.β 1 e, m.β 0 e, nd1, nd2, nd3] ∧ cellId m .face d = x)) ∧
    (∀ x, x ∈ iterFaces2 m ↔ (x = min e (min (m.β 1 e) (m.β 0 e)) ∨ x = nd1 ∨ x = nd2 ∨ x = nd3 ∨
      ∃ d, d ≠ 0 ∧ d < m.n ∧ m.unused d = false ∧ d ∉ [e, m.β 1 e, m.β 0 e, nd1, nd2, nd3] ∧ cellId m .face d = x)) ∧
    (m.β 2 e = 0 → cellId m' .vertex nd1 = min nd1 nd3) := by
  have a0 : m.β 1 e ≠ 0 := fun hh => hb (by rw [← htri, hh]; exact hwf.null 1 (by omega))
  have hnd' := hnd
  simp only [List.nodup_cons, List.mem_cons, List.mem_nil_iff, not_or, or_false, List.nodup_nil, and_true] at hnd'
  obtain ⟨⟨d1, d2, d3, d4, d5⟩, ⟨d6, d7, d8, d9⟩, ⟨d10, d11, d12⟩, ⟨d13, d14⟩, d15⟩ := hnd'
  have hw' : WF 3 m' := wf_of_run_ok h
    (C15_cutOuter_preserves_WF cfg m e nd1 nd2 nd3 hwf he ⟨a0, hb⟩ s1 s2 s3 d13)
  obtain ⟨⟨p1, p2, p3⟩, ⟨q1, q2, q3⟩, ⟨r1, r2, r3⟩, ⟨t1, t2, t3⟩, ⟨u1, u2, u3⟩, fr, hn, hu⟩ :=
    C15_cutOuter_topology cfg m m' e nd1 nd2 nd3 hwf he.2.1 h htri hb hnd
  have hen : e < m'.n := by rw [hn]; exact he.2.1
  have ha : m.β 1 e < m.n := hwf.range 1 (by omega) e he.2.1
  have hbn : m.β 0 e < m.n := hwf.range 0 (by omega) e he.2.1
  have f1 : cellId m' .face e = min e (min nd1 (m.β 0 e)) :=
    faceId_triangle hw' he.1 hen s1.1.1 hb p1 p2 p3
  have f2 : cellId m' .face nd3 = min nd3 (min (m.β 1 e) nd2) :=
    faceId_triangle hw' s3.1.1 (by rw [hn]; exact s3.1.2.1) a0 s2.1.1 q1 q2 q3
  -- the other darts of the two new triangles
  have f1' : cellId m' .face nd1 = min e (min nd1 (m.β 0 e)) := by
    rw [faceId_triangle hw' s1.1.1 (by rw [hn]; exact s1.1.2.1) hb he.1 p2 p3 p1]; omega
  have f1'' : cellId m' .face (m.β 0 e) = min e (min nd1 (m.β 0 e)) := by
    rw [faceId_triangle hw' hb (by rw [hn]; exact hbn) he.1 s1.1.1 p3 p1 p2]; omega
  have f2' : cellId m' .face (m.β 1 e) = min nd3 (min (m.β 1 e) nd2) := by
    rw [faceId_triangle hw' a0 (by rw [hn]; exact ha) s2.1.1 s3.1.1 q2 q3 q1]; omega
  have f2'' : cellId m' .face nd2 = min nd3 (min (m.β 1 e) nd2) := by
    rw [faceId_triangle hw' s2.1.1 (by rw [hn]; exact s2.1.2.1) s3.1.1 a0 q3 q1 q2]; omega
  -- faces before the call
  have g0 : cellId m .face e = min e (min (m.β 1 e) (m.β 0 e)) :=
    faceId_triangle hwf he.1 he.2.1 a0 hb rfl htri (hwf.inv10 e he.2.1 hb)
  have g0' : cellId m .face (m.β 1 e) = min e (min (m.β 1 e) (m.β 0 e)) := by
    rw [faceId_triangle hwf a0 ha hb he.1 htri (hwf.inv10 e he.2.1 hb) rfl]; omega
  have g0'' : cellId m .face (m.β 0 e) = min e (min (m.β 1 e) (m.β 0 e)) := by
    rw [faceId_triangle hwf hb hbn he.1 a0 (hwf.inv10 e he.2.1 hb) rfl htri]; omega
  have spare_face : ∀ x, Spare m x → cellId m .face x = x := by
    intro x sx
    obtain ⟨_, hin, _⟩ := cell_of_list hwf (pol := .face) trivial sx.1.1 sx.1.2.1 [x] (by simp [sx.1.1])
      (by intro y hy; simp at hy; subst hy; exact .refl _) (by simp)
      (by intro y hy v hv; simp at hy; subst hy; simp [g2, sx.β 1 (by omega), sx.β 0 (by omega)] at hv; exact Or.inl hv)
    simpa using hin
  -- the frame
  have frame : ∀ d, d ≠ 0 → d < m.n → d ∉ [e, m.β 1 e, m.β 0 e, nd1, nd2, nd3] →
      (∀ x, x ∈ orb m' .face d ↔ x ∈ orb m .face d) ∧ cellId m' .face d = cellId m .face d := by
    intro d hd0 hd hdM
    refine cellId_frame hwf hw' hn (pol := .face) trivial [e, m.β 1 e, m.β 0 e, nd1, nd2, nd3] ?_ ?_ ?_ hd0 hd hdM
    · intro y hy; simp only [g2]; rw [fr 1 y hy, fr 0 y hy]
    · intro y hy v hv
      simp only [List.mem_cons, List.mem_nil_iff, or_false] at hy
      simp only [g2, List.mem_cons, List.mem_nil_iff, or_false] at hv
      have i1 := hwf.inv01 e he.2.1 a0
      have i2 : m.β 0 (m.β 0 e) = m.β 1 e := by
        have := hwf.inv01 _ ha (by rw [htri]; exact hb); rw [htri] at this; exact this
      have i3 := hwf.inv10 e he.2.1 hb
      rcases hy with rfl | rfl | rfl | rfl | rfl | rfl <;> rcases hv with rfl | rfl <;>
        simp [htri, i1, i2, i3, s1.β 1 (by omega), s1.β 0 (by omega), s2.β 1 (by omega), s2.β 0 (by omega),
          s3.β 1 (by omega), s3.β 0 (by omega)]
    · intro y hy v hv
      simp only [List.mem_cons, List.mem_nil_iff, or_false] at hy
      simp only [g2, List.mem_cons, List.mem_nil_iff, or_false] at hv
      rcases hy with rfl | rfl | rfl | rfl | rfl | rfl <;> rcases hv with rfl | rfl <;>
        simp [p1, p2, p3, q1, q2, q3, r1, r2, r3, t1, t2, t3]
  refine ⟨hw', f1, f2, frame, ?_, ?_, ?_⟩
  · intro x
    rw [C03_iterFaces2_mem hw' x]
    constructor
    · rintro ⟨d, hd0, hd, hdu, hx⟩
      rw [hn] at hd
      by_cases hdM : d ∈ [e, m.β 1 e, m.β 0 e, nd1, nd2, nd3]
      · simp only [List.mem_cons, List.mem_nil_iff, or_false] at hdM
        rcases hdM with rfl | rfl | rfl | rfl | rfl | rfl
        · exact Or.inl (by rw [← hx, f1])
        · exact Or.inr (Or.inl (by rw [← hx, f2']))
        · exact Or.inl (by rw [← hx, f1''])
        · exact Or.inl (by rw [← hx, f1'])
        · exact Or.inr (Or.inl (by rw [← hx, f2'']))
        · exact Or.inr (Or.inl (by rw [← hx, f2]))
      · refine Or.inr (Or.inr ⟨d, hd0, hd, ?_, hdM, ?_⟩)
        · unfold Map.unused at hdu ⊢; rw [← hu]; exact hdu
        · rw [← (frame d hd0 hd hdM).2]; exact hx
    · have hu' : ∀ d, m'.unused d = m.unused d := fun d => by unfold Map.unused; rw [hu]
      rintro (rfl | rfl | ⟨d, hd0, hd, hdu, hdM, hx⟩)
      · exact ⟨e, he.1, hen, by rw [hu']; exact he.2.2, f1⟩
      · exact ⟨nd3, s3.1.1, by rw [hn]; exact s3.1.2.1, by rw [hu']; exact s3.1.2.2, f2⟩
      · exact ⟨d, hd0, by rw [hn]; exact hd, by rw [hu']; exact hdu, by rw [(frame d hd0 hd hdM).2]; exact hx⟩
  · intro x
    rw [C03_iterFaces2_mem hwf x]
    constructor
    · rintro ⟨d, hd0, hd, hdu, hx⟩
      by_cases hdM : d ∈ [e, m.β 1 e, m.β 0 e, nd1, nd2, nd3]
      · simp only [List.mem_cons, List.mem_nil_iff, or_false] at hdM
        rcases hdM with rfl | rfl | rfl | rfl | rfl | rfl
        · exact Or.inl (by rw [← hx, g0])
        · exact Or.inl (by rw [← hx, g0'])
        · exact Or.inl (by rw [← hx, g0''])
        · exact Or.inr (Or.inl (by rw [← hx, spare_face _ s1]))
        · exact Or.inr (Or.inr (Or.inl (by rw [← hx, spare_face _ s2])))
        · exact Or.inr (Or.inr (Or.inr (Or.inl (by rw [← hx, spare_face _ s3]))))
      · exact Or.inr (Or.inr (Or.inr (Or.inr ⟨d, hd0, hd, hdu, hdM, hx⟩)))
    · rintro (rfl | rfl | rfl | rfl | ⟨d, hd0, hd, hdu, hdM, hx⟩)
      · exact ⟨e, he.1, he.2.1, he.2.2, g0⟩
      · exact ⟨_, s1.1.1, s1.1.2.1, s1.1.2.2, spare_face _ s1⟩
      · exact ⟨_, s2.1.1, s2.1.2.1, s2.1.2.2, spare_face _ s2⟩
      · exact ⟨_, s3.1.1, s3.1.2.1, s3.1.2.2, spare_face _ s3⟩
      · exact ⟨d, hd0, hd, hdu, hx⟩
  · intro h2e
    have b2e : m'.β 2 e = 0 := by rw [u3 e d3 d4, h2e]
    have b2n3 : m'.β 2 nd3 = 0 := by rw [u3 nd3 (Ne.symm d14) (Ne.symm d15.1)]; exact s3.β 2 (by omega)
    refine cellId_pair hw' (pol := .vertex) trivial s1.1.1 (by rw [hn]; exact s1.1.2.1) s3.1.1
      (Reach.single (by simp [g2, u1, q3])) ?_
    intro y hy v hv
    simp only [List.mem_cons, List.mem_nil_iff, or_false] at hy
    simp only [g2, List.mem_cons, List.mem_nil_iff, or_false] at hv
    rcases hy with rfl | rfl <;> rcases hv with rfl | rfl <;>
      simp [u1, u2, q3, r1, b2e, b2n3, t3, hw'.null 1 (by omega)]

/-! ## (2) the midpoint in the FINAL map of `cut_outer_edge`

The new vertex is `{nd1, nd3}` from the moment the spare darts are linked until the end of the kernel: `NV` are the β
facts that make it so.  Every later sew / unsew moves vertex values only at identifiers of OTHER vertices. -/

/-- β facts making `{nd1, nd3}` a complete vertex: `β1(β2 nd1) = nd3`, `β2(β0 nd1)` null, `β1(β2 nd3)` null,
    `β2(β0 nd3) = nd1` -/
structure NV (g : Nat → Nat → Nat) (nd1 nd2 nd3 : Nat) : Prop where
  a : g 2 nd1 = nd2
  b : g 1 nd2 = nd3
  c : g 2 nd3 = 0
  d : g 0 nd3 = nd2
  e : g 2 nd2 = nd1
  f : g 2 (g 0 nd1) = 0

open HC.C03 in
theorem vertex_of_NV {s : Map Val} (hw : WF 3 s) {nd1 nd2 nd3 : Nat} (nv : NV s.β nd1 nd2 nd3)
    (h1 : nd1 ≠ 0) (h1n : nd1 < s.n) (h3 : nd3 ≠ 0) (h3n : nd3 < s.n) :
    cellId s .vertex nd1 = min nd1 nd3 ∧
    ∀ x, x ≠ 0 → x < s.n → x ≠ nd1 → x ≠ nd3 → cellId s .vertex x ≠ nd1 ∧ cellId s .vertex x ≠ nd3 := by
  have cl : ∀ y, y ∈ [nd1, nd3] → ∀ x, x ∈ g2 s .vertex y → x = 0 ∨ x ∈ [nd1, nd3] := by
    intro y hy v hv
    simp only [List.mem_cons, List.mem_nil_iff, or_false] at hy
    simp only [g2, List.mem_cons, List.mem_nil_iff, or_false] at hv
    rcases hy with rfl | rfl <;> rcases hv with rfl | rfl <;>
      simp [nv.a, nv.b, nv.c, nv.d, nv.e, nv.f, hw.null 1 (by omega)]
  refine ⟨cellId_pair hw (pol := .vertex) trivial h1 h1n h3 (Reach.single (by simp [g2, nv.a, nv.b])) cl, ?_⟩
  intro x hx0 hx hx1 hx3
  have sp := cellId_spec hw (pol := .vertex) trivial hx0 hx
  obtain ⟨c0, hr⟩ := (mem_orb hw (pol := .vertex) trivial hx0 hx _).1 sp.1
  have key : ∀ y, y = nd1 ∨ y = nd3 → cellId s .vertex x ≠ y := by
    intro y hy heq
    rw [heq] at hr c0
    have back := Reach.symm_of_invClosed (g2_null hw .vertex trivial) (g2_range hw .vertex trivial)
      (C03_images_inverse_closed hw (pol := .vertex) trivial) hx c0 hr
    have : x = 0 ∨ x ∈ [nd1, nd3] := by
      refine reach_closed (S := fun z => z = 0 ∨ z ∈ [nd1, nd3]) ?_ (Or.inr (by rcases hy with rfl | rfl <;> simp)) back
      intro z hz v hv
      rcases hz with rfl | hz
      · exact Or.inl (g2_null hw .vertex trivial v hv)
      · exact cl z hz v hv
    simp at this
    rcases this with h | h | h
    · exact hx0 h
    · exact hx1 h
    · exact hx3 h
  exact ⟨key nd1 (Or.inl rfl), key nd3 (Or.inr rfl)⟩

theorem NV.unl1 {g : Nat → Nat → Nat} {nd1 nd2 nd3 l : Nat} (nv : NV g nd1 nd2 nd3) (z : g 2 0 = 0)
    (c1 : l ≠ nd2) (c2 : g 1 l ≠ nd3) : NV (unl1 g l) nd1 nd2 nd3 := by
  refine ⟨?_, ?_, ?_, ?_, ?_, ?_⟩
  · simp [HC.unl1, upd_apply, nv.a]
  · simp [HC.unl1, upd_apply, nv.b, c1]
  · simp [HC.unl1, upd_apply, nv.c]
  · simp [HC.unl1, upd_apply, nv.d, c2]
  · simp [HC.unl1, upd_apply, nv.e]
  · simp only [HC.unl1, upd_apply]
    by_cases hh : g 1 l = nd1
    · simp [hh, z]
    · simp [hh, nv.f]

theorem NV.lnk1 {g : Nat → Nat → Nat} {nd1 nd2 nd3 l r : Nat} (nv : NV g nd1 nd2 nd3)
    (c1 : l ≠ nd2) (c2 : r ≠ nd3) (c3 : r = nd1 → g 2 l = 0) : NV (lnk1 g l r) nd1 nd2 nd3 := by
  refine ⟨?_, ?_, ?_, ?_, ?_, ?_⟩
  · simp [HC.lnk1, upd_apply, nv.a]
  · simp [HC.lnk1, upd_apply, nv.b, c1]
  · simp [HC.lnk1, upd_apply, nv.c]
  · simp [HC.lnk1, upd_apply, nv.d, c2]
  · simp [HC.lnk1, upd_apply, nv.e]
  · simp only [HC.lnk1, upd_apply]
    by_cases hh : r = nd1
    · simp [hh, c3 hh]
    · simp [hh, nv.f]

theorem run_inj {α : Type} {p : P Val α} {m m1 m2 : Map Val} {a b : α}
    (h1 : run p m = (.ok a, m1)) (h2 : run p m = (.ok b, m2)) : a = b := by
  rw [h1] at h2; simp at h2; exact h2.1

/-- the invariant carried from the write of the midpoint to the end of the kernel -/
structure MidInv (n : Nat) (u : Array Bool) (nd1 nd2 nd3 : Nat) (w : Val) (s : Map Val) : Prop where
  inv : Inv n u s
  fc : s.fc = 0
  nv : NV s.β nd1 nd2 nd3
  val : s.att 0 (min nd1 nd3) = some w

section
variable {n : Nat} {u : Array Bool} {nd1 nd2 nd3 : Nat} {w : Val}

open HC.C03 HC.C04 in
theorem MidInv.unsew1 {cfg : Cfg Val} {s s' : Map Val} {l : Nat} (J : MidInv n u nd1 nd2 nd3 w s)
    (L1 : Live n u nd1) (L3 : Live n u nd3)
    (hrun : run (oneUnsew2 cfg n l) s = (.ok (), s')) (hl : Live n u l)
    (c1 : l ≠ nd2) (c2 : s.β 1 l ≠ nd3)
    (c3 : s.β 2 l ≠ 0 → s.β 1 l ≠ nd1 ∧ s.β 2 l ≠ nd1 ∧ s.β 2 l ≠ nd3) : MidInv n u nd1 nd2 nd3 w s' := by
  have hw := J.inv.wf
  have hn := J.inv.n_eq
  have inv' := keeps_oneUnsew2 cfg n hl s s' () J.inv hrun
  obtain ⟨m1, hcore, st, cases⟩ := C04_oneUnsew2_effect cfg n l s s' () J.fc hrun
  obtain ⟨hne, sc⟩ := step_oneUnlinkCore hcore
  have inv1 : Inv n u m1 := Keeps.oneUnlinkCore hl s m1 () J.inv hcore
  have nv1 : NV m1.β nd1 nd2 nd3 := by rw [sc.β]; exact J.nv.unl1 (hw.null 2 (by omega)) c1 c2
  have nv' : NV s'.β nd1 nd2 nd3 := by rw [β_of_sameTopo st]; exact nv1
  have fc1 := unlink1_fc hcore
  rcases cases with ⟨_, rfl⟩ | ⟨h2, vold, nl, nr, hvold, hnl, hnr, sp⟩
  · exact ⟨inv', by rw [fc1.1]; exact J.fc, nv', by rw [fc1.2.1]; exact J.val⟩
  · obtain ⟨d1, d2, d3⟩ := c3 h2
    have lr : s.β 1 l < s.n := hw.range 1 (by omega) l (by rw [hn]; exact hl.2.1)
    have l2 : s.β 2 l < s.n := hw.range 2 (by omega) l (by rw [hn]; exact hl.2.1)
    have A := vertex_of_NV hw J.nv L1.1 (by rw [hn]; exact L1.2.1) L3.1 (by rw [hn]; exact L3.2.1)
    have A1 := vertex_of_NV inv1.wf nv1 L1.1 (by rw [inv1.n_eq]; exact L1.2.1) L3.1 (by rw [inv1.n_eq]; exact L3.2.1)
    have hn1 : m1.n = s.n := by rw [inv1.n_eq, hn]
    -- the three identifiers are those of other vertices
    have e1 : vold = cellId s .vertex (s.β 1 l) := by
      have := (C03_vertexId2_min hw hne lr).1; rw [hn] at this; exact run_inj hvold this
    have e2 : nl = cellId m1 .vertex (s.β 2 l) := by
      have := (C03_vertexId2_min inv1.wf h2 (by rw [hn1]; exact l2)).1; rw [inv1.n_eq] at this; exact run_inj hnl this
    have e3 : nr = cellId m1 .vertex (s.β 1 l) := by
      have := (C03_vertexId2_min inv1.wf hne (by rw [hn1]; exact lr)).1; rw [inv1.n_eq] at this; exact run_inj hnr this
    have k1 := A.2 _ hne lr d1 c2
    have k2 := A1.2 _ h2 (by rw [hn1]; exact l2) d2 d3
    have k3 := A1.2 _ hne (by rw [hn1]; exact lr) d1 c2
    have vne : ∀ x, x ≠ nd1 ∧ x ≠ nd3 → min nd1 nd3 ≠ x := by
      intro x ⟨x1, x3⟩ hh; omega
    refine ⟨inv', by rw [sp.fc, fc1.1]; exact J.fc, nv', ?_⟩
    rw [sp.frame 0 _ (by simp [vStores]) (by rw [e2]; exact vne _ k2) (by rw [e3]; exact vne _ k3)
      (by rw [e1]; exact vne _ k1), fc1.2.1]
    exact J.val

open HC.C03 HC.C04 in
theorem MidInv.sew1 {cfg : Cfg Val} {s s' : Map Val} {l r : Nat} (J : MidInv n u nd1 nd2 nd3 w s)
    (L1 : Live n u nd1) (L3 : Live n u nd3)
    (hrun : run (oneSew2 cfg n l r) s = (.ok (), s')) (hl : Live n u l) (hr : Live n u r)
    (c1 : l ≠ nd2) (c2 : r ≠ nd3) (c3 : r = nd1 → s.β 2 l = 0)
    (c4 : s.β 2 l ≠ 0 → s.β 2 l ≠ nd1 ∧ s.β 2 l ≠ nd3 ∧ r ≠ nd1) : MidInv n u nd1 nd2 nd3 w s' := by
  have hw := J.inv.wf
  have hn := J.inv.n_eq
  have inv' := keeps_oneSew2 cfg n hl hr s s' () J.inv hrun
  obtain ⟨m1, hcore, st, cases⟩ := C04_oneSew2_effect cfg n l r s s' () J.fc hrun
  obtain ⟨_, _, sc⟩ := step_oneLinkCore hcore
  have inv1 : Inv n u m1 := Keeps.oneLinkCore hl hr s m1 () J.inv hcore
  have nv1 : NV m1.β nd1 nd2 nd3 := by rw [sc.β]; exact J.nv.lnk1 c1 c2 c3
  have nv' : NV s'.β nd1 nd2 nd3 := by rw [β_of_sameTopo st]; exact nv1
  have fc1 := link1_fc hcore
  rcases cases with ⟨_, rfl⟩ | ⟨h2, v1, v2, nv, hv1, hv2, hnv, mg⟩
  · exact ⟨inv', by rw [fc1.1]; exact J.fc, nv', by rw [fc1.2.1]; exact J.val⟩
  · obtain ⟨d1, d2, d3⟩ := c4 h2
    have l2 : s.β 2 l < s.n := hw.range 2 (by omega) l (by rw [hn]; exact hl.2.1)
    have rn : r < s.n := by rw [hn]; exact hr.2.1
    have A := vertex_of_NV hw J.nv L1.1 (by rw [hn]; exact L1.2.1) L3.1 (by rw [hn]; exact L3.2.1)
    have A1 := vertex_of_NV inv1.wf nv1 L1.1 (by rw [inv1.n_eq]; exact L1.2.1) L3.1 (by rw [inv1.n_eq]; exact L3.2.1)
    have hn1 : m1.n = s.n := by rw [inv1.n_eq, hn]
    have e1 : v1 = cellId s .vertex (s.β 2 l) := by
      have := (C03_vertexId2_min hw h2 l2).1; rw [hn] at this; exact run_inj hv1 this
    have e2 : v2 = cellId s .vertex r := by
      have := (C03_vertexId2_min hw hr.1 rn).1; rw [hn] at this; exact run_inj hv2 this
    have e3 : nv = cellId m1 .vertex r := by
      have := (C03_vertexId2_min inv1.wf hr.1 (by rw [hn1]; exact rn)).1; rw [inv1.n_eq] at this; exact run_inj hnv this
    have k1 := A.2 _ h2 l2 d1 d2
    have k2 := A.2 _ hr.1 rn d3 c2
    have k3 := A1.2 _ hr.1 (by rw [hn1]; exact rn) d3 c2
    have vne : ∀ x, x ≠ nd1 ∧ x ≠ nd3 → min nd1 nd3 ≠ x := by
      intro x ⟨x1, x3⟩ hh; omega
    refine ⟨inv', by rw [mg.fc, fc1.1]; exact J.fc, nv', ?_⟩
    rw [mg.frame 0 _ (by simp [vStores]) (by rw [e3]; exact vne _ k3) (by rw [e1]; exact vne _ k1)
      (by rw [e2]; exact vne _ k2), fc1.2.1]
    exact J.val

end

/-! ### pieces that neither touch the vertex storage nor the fault countdown -/

/-- a successful run keeps the fault countdown and every slot of storage 0 -/
def Keeps0 {α : Type} (p : P Val α) : Prop :=
  ∀ (m m' : Map Val) (a : α), run p m = (.ok a, m') → m'.fc = m.fc ∧ ∀ x, m'.att 0 x = m.att 0 x

theorem Keeps0.bind {α β : Type} {p : P Val α} {q : α → P Val β} (hp : Keeps0 p) (hq : ∀ a, Keeps0 (q a)) :
    Keeps0 (p.bind q) := by
  intro m m' b h
  obtain ⟨a, m1, h1, h2⟩ := run_bind_ok h
  obtain ⟨f1, a1⟩ := hp m m1 a h1
  obtain ⟨f2, a2⟩ := hq a m1 m' b h2
  exact ⟨by rw [f2, f1], fun x => by rw [a2, a1]⟩

theorem Keeps0.ro {α : Type} {p : P Val α} (hp : ReadOnly p) : Keeps0 p := by
  intro m m' a h
  have := hp.run_ok h; subst this
  exact ⟨rfl, fun _ => rfl⟩

theorem Keeps0.pure {α : Type} (a : α) : Keeps0 (Pure.pure a : P Val α) := Keeps0.ro (ReadOnly.pure a)

theorem Keeps0.ite {α : Type} {c : Prop} [Decidable c] {p q : P Val α} (hp : Keeps0 p) (hq : Keeps0 q) :
    Keeps0 (if c then p else q) := by
  split <;> assumption

theorem keeps0_wA {s id : Nat} (hs : s ≠ 0) (v : Option Val) : Keeps0 (wA s id v : P Val Unit) := by
  intro m m' a h
  rw [run_wA'] at h
  split at h
  · simp at h
    rw [← h]
    refine ⟨rfl, fun x => ?_⟩
    rw [Map.att_setA]; simp [hs]
  · simp at h

theorem keeps0_writeAttr (cfg : Cfg Val) {s : Nat} (hs : s ≠ 0) (id : Nat) (v : Val) : Keeps0 (writeAttr cfg s id v) := by
  unfold writeAttr
  refine Keeps0.ite ?_ (Keeps0.pure _)
  refine Keeps0.bind (Keeps0.ro (ReadOnly.rA _ _)) fun _ => ?_
  exact Keeps0.bind (keeps0_wA hs _) fun _ => Keeps0.pure _

theorem keeps0_removeAttr (cfg : Cfg Val) {s : Nat} (hs : s ≠ 0) (id : Nat) : Keeps0 (removeAttr cfg s id) := by
  unfold removeAttr
  refine Keeps0.ite ?_ (Keeps0.pure _)
  refine Keeps0.bind (Keeps0.ro (ReadOnly.rA _ _)) fun _ => ?_
  exact Keeps0.bind (keeps0_wA hs _) fun _ => Keeps0.pure _

theorem keeps0_takeFaceAnchor (cfg : Cfg Val) (k d : Nat) : Keeps0 (takeFaceAnchor cfg k d) := by
  unfold takeFaceAnchor
  refine Keeps0.ite ?_ (Keeps0.pure _)
  exact Keeps0.bind (Keeps0.ro (readOnly_faceId2 _ _)) fun _ => keeps0_removeAttr cfg (by simp [stFA]) _

theorem keeps0_spreadFaceAnchor (cfg : Cfg Val) (k : Nat) (fa : Option Val) (a b : Nat) :
    Keeps0 (spreadFaceAnchor cfg k fa a b) := by
  unfold spreadFaceAnchor
  cases fa
  · exact Keeps0.pure _
  · refine Keeps0.bind (Keeps0.ro (readOnly_faceId2 _ _)) fun _ => ?_
    refine Keeps0.bind (Keeps0.ro (readOnly_faceId2 _ _)) fun _ => ?_
    refine Keeps0.bind (keeps0_writeAttr cfg (by simp [stFA]) _ _) fun _ => ?_
    refine Keeps0.bind (keeps0_writeAttr cfg (by simp [stFA]) _ _) fun _ => ?_
    refine Keeps0.ite ?_ (Keeps0.pure _)
    refine Keeps0.bind (Keeps0.ro (readOnly_edgeId2 _)) fun _ => ?_
    exact Keeps0.bind (keeps0_writeAttr cfg (by simp [stEA]) _ _) fun _ => Keeps0.pure _

theorem keeps0_spreadEdgeAnchorOuter (cfg : Cfg Val) (k : Nat) (ea : Option Val) (a b : Nat) :
    Keeps0 (spreadEdgeAnchorOuter cfg k ea a b) := by
  unfold spreadEdgeAnchorOuter
  cases ea
  · exact Keeps0.pure _
  · refine Keeps0.bind (Keeps0.ro (readOnly_vertexId2 _ _)) fun _ => ?_
    refine Keeps0.bind (keeps0_writeAttr cfg (by simp [stVA]) _ _) fun _ => ?_
    refine Keeps0.bind (Keeps0.ro (readOnly_edgeId2 _)) fun _ => ?_
    exact Keeps0.bind (keeps0_writeAttr cfg (by simp [stEA]) _ _) fun _ => Keeps0.pure _

theorem ro_peekEdgeAnchor (cfg : Cfg Val) (e : Nat) : ReadOnly (peekEdgeAnchor cfg e) := by
  unfold peekEdgeAnchor readAttr
  exact ReadOnly.ite (ReadOnly.ite (ReadOnly.rA _ _) (ReadOnly.pure _)) (ReadOnly.pure _)

theorem ro_midpointOrRetry (v1 v2 : Nat) : ReadOnly (midpointOrRetry v1 v2) := by
  unfold midpointOrRetry
  refine ReadOnly.bind (ReadOnly.rA _ _) fun a => ?_
  refine ReadOnly.bind (ReadOnly.rA _ _) fun b => ?_
  cases a <;> cases b
  · exact ro_retry
  · exact ro_retry
  · exact ro_retry
  · exact ReadOnly.pure _

theorem lnk1_two (g : Nat → Nat → Nat) (l r x : Nat) : lnk1 g l r 2 x = g 2 x := by simp [lnk1, upd_apply]
theorem unl1_two (g : Nat → Nat → Nat) (l x : Nat) : unl1 g l 2 x = g 2 x := by simp [unl1, upd_apply]

/-- nobody is 2-sewn to a free dart -/
theorem beta2_ne_spare {m : Map Val} (hwf : WF 3 m) {x : Nat} (sx : Spare m x) {y : Nat} (hy : y < m.n) : m.β 2 y ≠ x := by
  intro hh
  have h0 : m.β 2 y ≠ 0 := by rw [hh]; exact sx.1.1
  have := (hwf.invol 2 (by omega) (by omega) y hy h0).1
  rw [hh, sx.β 2 (by omega)] at this
  rw [← this, hwf.null 2 (by omega)] at hh
  exact sx.1.1 hh.symm

open HC.C03 HC.C04 in
/-- **C15, cut_outer_edge, the midpoint in the FINAL map**: on ANY well-formed 2-map (no fault injected), after a
    successful `cut_outer_edge(e, [nd1, nd2, nd3])` on a boundary dart (`β2 e` null) of a closed triangle, with free
    in-use spare darts in ANY numbering, the new vertex `{nd1, nd3}` has the identifier `min(nd1, nd3)` in the resulting
    map and the vertex storage holds there the average of the two end points — the values found at `vertex_id(e)` and
    `vertex_id(β1 e)` (computed, as the kernel does, in the map `sL` whose spare darts are already linked; the vertex
    storage of `sL` is that of the input).  No sew or unsew of the kernel moves it: they only touch identifiers of other
    vertices (`MidInv`). -/
theorem C15_cut_midpoint_in_final_map (cfg : Cfg Val) (m m' : Map Val) (e nd1 nd2 nd3 : Nat) (hwf : WF 3 m)
    (hfc : m.fc = 0) (he : C01.InUse m e) (h2e : m.β 2 e = 0)
    (h : run (cutOuterEdge cfg m.n e nd1 nd2 nd3) m = (.ok (), m'))
    (htri : m.β 1 (m.β 1 e) = m.β 0 e) (hb : m.β 0 e ≠ 0)
    (s1 : Spare m nd1) (s2 : Spare m nd2) (s3 : Spare m nd3)
    (hnd : [e, m.β 1 e, m.β 0 e, nd1, nd2, nd3].Nodup) :
    ∃ (sL : Map Val) (v1 v2 : Nat) (va vb : Val),
      sL.β = lnk1 (lnk2 m.β nd1 nd2) nd2 nd3 ∧ (∀ x, sL.att 0 x = m.att 0 x) ∧
      run (vertexId2 m.n e) sL = (.ok v1, sL) ∧ run (vertexId2 m.n (m.β 1 e)) sL = (.ok v2, sL) ∧
      m.att 0 v1 = some va ∧ m.att 0 v2 = some vb ∧
      cellId m' .vertex nd1 = min nd1 nd3 ∧
      m'.att 0 (cellId m' .vertex nd1) = some (avgVal va vb) := by
  obtain ⟨hw', _, _, _, _, _, hvtx⟩ := C15_cutOuter_cells cfg m m' e nd1 nd2 nd3 hwf he h htri hb s1 s2 s3 hnd
  have a0 : m.β 1 e ≠ 0 := fun hh => hb (by rw [← htri, hh]; exact hwf.null 1 (by omega))
  have hnd' := hnd
  simp only [List.nodup_cons, List.mem_cons, List.mem_nil_iff, not_or, or_false, List.nodup_nil, and_true] at hnd'
  obtain ⟨⟨d1, d2, d3, d4, d5⟩, ⟨d6, d7, d8, d9⟩, ⟨d10, d11, d12⟩, ⟨d13, d14⟩, d15, _⟩ := hnd'
  have L1 : Live m.n m.u nd1 := Live.of_inUse s1.1
  have L2 : Live m.n m.u nd2 := Live.of_inUse s2.1
  have L3 : Live m.n m.u nd3 := Live.of_inUse s3.1
  have Le : Live m.n m.u e := Live.of_inUse he
  have La : Live m.n m.u (m.β 1 e) := live_image hwf (by omega) he.2.1 a0
  have Lb : Live m.n m.u (m.β 0 e) := live_image hwf (by omega) he.2.1 hb
  have z2 := hwf.null 2 (by omega)
  have z1 := hwf.null 1 (by omega)
  have z0 := hwf.null 0 (by omega)
  unfold cutOuterEdge at h
  obtain ⟨_, m1, r1, h1⟩ := run_bind_ok h
  clear h
  have I1 := Keeps.twoLinkCore (X := Val) L1 L2 d13 m m1 _ (Inv.of_wf hwf) r1
  obtain ⟨_, _, st1⟩ := step_twoLinkCore r1
  obtain ⟨_, m2, r2, h2⟩ := run_bind_ok h1
  clear h1
  have I2 := Keeps.oneLinkCore (X := Val) L2 L3 m1 m2 _ I1 r2
  obtain ⟨_, _, st2⟩ := step_oneLinkCore r2
  have b2 : m2.β = lnk1 (lnk2 m.β nd1 nd2) nd2 nd3 := by rw [st2.β, st1.β]
  have fc2 : m2.fc = 0 := by rw [(link1_fc r2).1, (linkI_fc r1).1]; exact hfc
  have at2 : ∀ x, m2.att 0 x = m.att 0 x := fun x => by rw [(link1_fc r2).2.1, (linkI_fc r1).2.1]
  obtain ⟨fa, m3, r3, h3⟩ := run_bind_ok h2
  clear h2
  have I3 := inv_attrOnly (ao_takeFaceAnchor cfg m.n e) I2 r3
  have b3 : m3.β = lnk1 (lnk2 m.β nd1 nd2) nd2 nd3 := by
    rw [β_of_sameTopo (AttrOnly.run_ok (ao_takeFaceAnchor cfg m.n e) r3)]; exact b2
  obtain ⟨fc3', at3'⟩ := keeps0_takeFaceAnchor cfg m.n e m2 m3 fa r3
  have fc3 : m3.fc = 0 := by rw [fc3']; exact fc2
  have at3 : ∀ x, m3.att 0 x = m.att 0 x := fun x => by rw [at3', at2]
  obtain ⟨ea, _, h4⟩ := ro_bind_ok (ro_peekEdgeAnchor cfg e) h3
  clear h3
  obtain ⟨_, h5⟩ := HC.C15.rB_ok h4
  clear h4
  obtain ⟨_, h6⟩ := HC.C15.rB_ok h5
  clear h5
  have v0e : m3.β 0 e = m.β 0 e := by
    rw [b3]; simp [lnk1, lnk2, upd_apply, Ne.symm d5, Ne.symm d4, Ne.symm d3]
  have v1e : m3.β 1 e = m.β 1 e := by
    rw [b3]; simp [lnk1, lnk2, upd_apply, Ne.symm d5, Ne.symm d4, Ne.symm d3]
  rw [v0e, v1e] at h6
  obtain ⟨v1, hv1, h7⟩ := ro_bind_ok (readOnly_vertexId2 _ _) h6
  clear h6
  obtain ⟨v2, hv2, h8⟩ := ro_bind_ok (readOnly_vertexId2 _ _) h7
  clear h7
  obtain ⟨newV, hmid, h9⟩ := ro_bind_ok (ro_midpointOrRetry _ _) h8
  clear h8
  obtain ⟨vid, hvid, h10⟩ := ro_bind_ok (readOnly_vertexId2 _ _) h9
  clear h9
  obtain ⟨old, m5, r5, h11⟩ := run_bind_ok h10
  clear h10
  -- the value read
  have hval : ∃ va vb, m3.att 0 v1 = some va ∧ m3.att 0 v2 = some vb ∧ newV = avgVal va vb := by
    unfold midpointOrRetry at hmid
    obtain ⟨_, hmid⟩ := rA_ok hmid
    obtain ⟨_, hmid⟩ := rA_ok hmid
    cases ha : m3.att 0 v1 <;> cases hb' : m3.att 0 v2 <;> simp [ha, hb'] at hmid
    exact ⟨_, _, rfl, rfl, hmid.symm⟩
  obtain ⟨va, vb, hva, hvb, rfl⟩ := hval
  -- the new vertex at the time of the write
  have nv3 : NV m3.β nd1 nd2 nd3 := by
    rw [b3]
    refine ⟨?_, ?_, ?_, ?_, ?_, ?_⟩ <;>
      simp [lnk1, lnk2, upd_apply, s1.β 0 (by omega), s3.β 2 (by omega), z2, d13, d14, d15, Ne.symm d13, Ne.symm d14,
        Ne.symm d15, s1.1.1, s2.1.1, s3.1.1, Ne.symm s1.1.1, Ne.symm s2.1.1, Ne.symm s3.1.1]
  have A3 := vertex_of_NV I3.wf nv3 L1.1 (by rw [I3.n_eq]; exact L1.2.1) L3.1 (by rw [I3.n_eq]; exact L3.2.1)
  have evid : vid = min nd1 nd3 := by
    have := (C03_vertexId2_min I3.wf L1.1 (by rw [I3.n_eq]; exact L1.2.1)).1
    rw [I3.n_eq] at this
    rw [run_inj hvid this, A3.1]
  have I5 := inv_attrOnly (ao_writeVtx vid (avgVal va vb)) I3 r5
  have e5 : m5 = m3.setA 0 vid (some (avgVal va vb)) ∧ m3.okA 0 vid = true := by
    unfold writeVtx at r5
    obtain ⟨hok, r5⟩ := rA_ok r5
    obtain ⟨_, r5⟩ := wA_ok r5
    simp at r5
    exact ⟨r5.2.symm, hok⟩
  have b5 : m5.β = lnk1 (lnk2 m.β nd1 nd2) nd2 nd3 := by rw [e5.1]; exact b3
  have J5 : MidInv m.n m.u nd1 nd2 nd3 (avgVal va vb) m5 := by
    refine ⟨I5, by rw [e5.1]; exact fc3, by rw [b5, ← b3]; exact nv3, ?_⟩
    rw [e5.1, Map.att_setA, evid]; simp [← evid, e5.2]
  -- β2 is never touched again; the six β1 images needed below
  have two : ∀ x, lnk1 (lnk2 m.β nd1 nd2) nd2 nd3 2 x = if x = nd1 then nd2 else if x = nd2 then nd1 else m.β 2 x := by
    intro x
    simp only [lnk1, lnk2, upd_apply]
    by_cases x1 : x = nd1
    · subst x1; simp [d13, Ne.symm d13]
    · by_cases x2 : x = nd2
      · subst x2; simp [d13, Ne.symm d13]
      · simp [x1, x2, Ne.symm x1, Ne.symm x2]
  have a2 : m.β 2 (m.β 1 e) ≠ nd1 ∧ m.β 2 (m.β 1 e) ≠ nd3 :=
    ⟨beta2_ne_spare hwf s1 La.2.1, beta2_ne_spare hwf s3 La.2.1⟩
  -- unsew e
  obtain ⟨_, m6, r6, h12⟩ := run_bind_ok h11
  clear h11
  have s6 := (step_oneUnsew2 r6).2
  have J6 := J5.unsew1 L1 L3 r6 Le d4 (by rw [b5]; simp [lnk1, lnk2, upd_apply, Ne.symm d4, Ne.symm d3, d9])
    (by intro hh; exfalso; apply hh; rw [b5, two]; simp [d3, d4, h2e])
  have b6 : m6.β = unl1 (lnk1 (lnk2 m.β nd1 nd2) nd2 nd3) e := by rw [s6.β, b5]
  -- unsew β1 e
  obtain ⟨_, m7, r7, h13⟩ := run_bind_ok h12
  clear h12
  have s7 := (step_oneUnsew2 r7).2
  have v6 : m6.β 1 (m.β 1 e) = m.β 0 e := by
    rw [b6]; simp [unl1, lnk1, lnk2, upd_apply, Ne.symm d1, Ne.symm d8, Ne.symm d7, Ne.symm d9, htri, d1]
  have w6 : m6.β 2 (m.β 1 e) = m.β 2 (m.β 1 e) := by rw [b6, unl1_two, two]; simp [d7, d8]
  have J7 := J6.unsew1 L1 L3 r7 La d8 (by rw [v6]; exact d12)
    (by intro _; rw [v6, w6]; exact ⟨d10, a2.1, a2.2⟩)
  have b7 : m7.β = unl1 (unl1 (lnk1 (lnk2 m.β nd1 nd2) nd2 nd3) e) (m.β 1 e) := by rw [s7.β, b6]
  -- sew e nd1
  obtain ⟨_, m8, r8, h14⟩ := run_bind_ok h13
  clear h13
  have s8 := (step_oneSew2 r8).2.2
  have w7 : m7.β 2 e = 0 := by rw [b7, unl1_two, unl1_two, two]; simp [d3, d4, h2e]
  have J8 := J7.sew1 L1 L3 r8 Le L1 d4 d14 (fun _ => w7) (fun hh => absurd w7 hh)
  have b8 : m8.β = lnk1 (unl1 (unl1 (lnk1 (lnk2 m.β nd1 nd2) nd2 nd3) e) (m.β 1 e)) e nd1 := by rw [s8.β, b7]
  -- sew nd1 (β0 e)
  obtain ⟨_, m9, r9, h15⟩ := run_bind_ok h14
  clear h14
  have s9 := (step_oneSew2 r9).2.2
  have w8 : m8.β 2 nd1 = nd2 := by rw [b8, lnk1_two, unl1_two, unl1_two, two]; simp
  have J9 := J8.sew1 L1 L3 r9 L1 Lb d13 d12 (fun hh => absurd hh d10)
    (by intro _; rw [w8]; exact ⟨Ne.symm d13, d15, d10⟩)
  have b9 : m9.β = lnk1 (lnk1 (unl1 (unl1 (lnk1 (lnk2 m.β nd1 nd2) nd2 nd3) e) (m.β 1 e)) e nd1) nd1 (m.β 0 e) := by
    rw [s9.β, b8]
  -- sew nd3 (β1 e)
  obtain ⟨_, m10, r10, h16⟩ := run_bind_ok h15
  clear h15
  have s10 := (step_oneSew2 r10).2.2
  have w9 : m9.β 2 nd3 = 0 := by
    rw [b9, lnk1_two, lnk1_two, unl1_two, unl1_two, two]; simp [Ne.symm d14, Ne.symm d15, s3.β 2 (by omega)]
  have J10 := J9.sew1 L1 L3 r10 L3 La (Ne.symm d15) d9 (fun hh => absurd hh d7) (fun hh => absurd w9 hh)
  have b10 : m10.β = lnk1 (lnk1 (lnk1 (unl1 (unl1 (lnk1 (lnk2 m.β nd1 nd2) nd2 nd3) e) (m.β 1 e)) e nd1) nd1 (m.β 0 e))
      nd3 (m.β 1 e) := by rw [s10.β, b9]
  -- sew (β1 e) nd2
  obtain ⟨_, m11, r11, h17⟩ := run_bind_ok h16
  clear h16
  have w10 : m10.β 2 (m.β 1 e) = m.β 2 (m.β 1 e) := by
    rw [b10, lnk1_two, lnk1_two, lnk1_two, unl1_two, unl1_two, two]; simp [d7, d8]
  have J11 := J10.sew1 L1 L3 r11 La L2 d8 d15 (fun hh => absurd hh (Ne.symm d13))
    (by intro _; rw [w10]; exact ⟨a2.1, a2.2, Ne.symm d13⟩)
  -- the anchors
  obtain ⟨_, m12, r12, h18⟩ := run_bind_ok h17
  clear h17
  obtain ⟨_, at12⟩ := keeps0_spreadFaceAnchor cfg m.n fa nd1 nd2 m11 m12 _ r12
  obtain ⟨_, at13⟩ := keeps0_spreadEdgeAnchorOuter cfg m.n ea nd1 nd3 m12 m' _ h18
  refine ⟨m3, v1, v2, va, vb, b3, at3, hv1, hv2, by rw [← at3]; exact hva, by rw [← at3]; exact hvb, hvtx h2e, ?_⟩
  rw [hvtx h2e, at13, at12]
  exact J11.val

/-! ## non-vacuity -/

def sq3 : Map Val := (unitSquare.addFreeDarts 3).2
def sq6 : Map Val := (unitSquare.addFreeDarts 6).2

theorem run_eq_of_fst {α : Type} {p : P Val α} {m : Map Val} {a : α} (h : (run p m).1 = .ok a) :
    run p m = (.ok a, (run p m).2) := Prod.ext h rfl

/-- the hypotheses of `C15_swap_topology` hold for `swap_edge(2)` on the unit square -/
example : ∃ m', run (swapEdge (stdCfg 3 0) unitSquare.n 2) unitSquare = (.ok (), m') ∧ WF 3 unitSquare ∧
    unitSquare.β 0 2 ≠ 0 ∧ unitSquare.β 0 (unitSquare.β 2 2) ≠ 0 ∧
    [2, unitSquare.β 2 2, unitSquare.β 1 2, unitSquare.β 0 2, unitSquare.β 1 (unitSquare.β 2 2),
      unitSquare.β 0 (unitSquare.β 2 2)].Nodup :=
  ⟨_, run_eq_of_fst (by decide +kernel), by decide, by decide, by decide, by decide⟩

/-- the hypotheses of `C15_cutOuter_topology`, `C15_cutOuter_cells` and `C15_cut_midpoint_in_final_map` hold for
    `cut_outer_edge(1, [9, 8, 7])` (the numbering that used to lose the vertex) on the unit square -/
example : ∃ m', run (cutOuterEdge (stdCfg 3 0) sq3.n 1 9 8 7) sq3 = (.ok (), m') ∧ WF 3 sq3 ∧ sq3.fc = 0 ∧
    C01.InUse sq3 1 ∧ sq3.β 2 1 = 0 ∧ sq3.β 1 (sq3.β 1 1) = sq3.β 0 1 ∧ sq3.β 0 1 ≠ 0 ∧
    Spare sq3 9 ∧ Spare sq3 8 ∧ Spare sq3 7 ∧ [1, sq3.β 1 1, sq3.β 0 1, 9, 8, 7].Nodup :=
  ⟨_, run_eq_of_fst (by decide +kernel), by decide +kernel, by decide +kernel, by decide +kernel, by decide +kernel,
    by decide +kernel, by decide +kernel, ⟨by decide +kernel, by decide +kernel⟩, ⟨by decide +kernel, by decide +kernel⟩,
    ⟨by decide +kernel, by decide +kernel⟩, by decide +kernel⟩

/-- … and the conclusion there: the new vertex has identifier 7 and holds (1/2, 0) -/
example : (run (cutOuterEdge (stdCfg 3 0) sq3.n 1 9 8 7) sq3).2.att 0 7 = some (.pt (1/2) 0 0) := by decide +kernel

/-- the hypotheses of `C15_cutInner_topology` hold for `cut_inner_edge(2, [12 … 7])` on the unit square -/
example : ∃ m', run (cutInnerEdge (stdCfg 3 0) sq6.n 2 12 11 10 9 8 7) sq6 = (.ok (), m') ∧ WF 3 sq6 ∧ sq6.β 2 2 ≠ 0 ∧
    sq6.β 1 (sq6.β 1 2) = sq6.β 0 2 ∧ sq6.β 0 2 ≠ 0 ∧
    sq6.β 1 (sq6.β 1 (sq6.β 2 2)) = sq6.β 0 (sq6.β 2 2) ∧ sq6.β 0 (sq6.β 2 2) ≠ 0 ∧
    [2, sq6.β 2 2, sq6.β 1 2, sq6.β 0 2, sq6.β 1 (sq6.β 2 2), sq6.β 0 (sq6.β 2 2), 12, 11, 10, 9, 8, 7].Nodup :=
  ⟨_, run_eq_of_fst (by decide +kernel), by decide +kernel, by decide +kernel, by decide +kernel, by decide +kernel,
    by decide +kernel, by decide +kernel, by decide +kernel⟩

/-! ## (3) collapse_edge: the side conditions of `C15_collapse_preserves_WF`, discharged

`TrJ p Pre F U`: from a state whose map-with-original-flags is well formed and whose β function satisfies `Pre`, every
successful run of `p` ends in such a state again, with β function `F f` and flags `U f u` (`f`, `u` the initial ones).
`Pre` collects the facts "this sew is handed non-null, distinct darts" as propositions about the INITIAL β function. -/

abbrev BF := Nat → Nat → Nat

def TrJ (n : Nat) (u0 : Array Bool) {α : Type} (p : P Val α) (Pre : BF → Prop) (F : BF → BF)
    (U : BF → Array Bool → Array Bool) : Prop :=
  ∀ (m m' : Map Val) (a : α), InvJ n u0 m → Pre m.β → run p m = (.ok a, m') →
    InvJ n u0 m' ∧ m'.β = F m.β ∧ m'.u = U m.β m.u

section
variable {n : Nat} {u : Array Bool} {α β : Type}

theorem TrJ.bind {p : P Val α} {q : α → P Val β} {P1 P2 : BF → Prop} {F1 F2 : BF → BF}
    {U1 U2 : BF → Array Bool → Array Bool} (hp : TrJ n u p P1 F1 U1) (hq : ∀ a, TrJ n u (q a) P2 F2 U2) :
    TrJ n u (p.bind q) (fun f => P1 f ∧ P2 (F1 f)) (fun f => F2 (F1 f)) (fun f w => U2 (F1 f) (U1 f w)) := by
  intro m m' b hi hpre h
  obtain ⟨a, m1, h1, h2⟩ := run_bind_ok h
  obtain ⟨i1, b1, u1⟩ := hp m m1 a hi hpre.1 h1
  obtain ⟨i2, b2, u2⟩ := hq a m1 m' b i1 (by rw [b1]; exact hpre.2) h2
  exact ⟨i2, by rw [b2, b1], by rw [u2, b1, u1]⟩

/-- pieces that keep the invariant unconditionally and whose β effect is known -/
theorem TrJ.of {p : P Val α} {F : BF → BF} (hk : KeepsJ n u p) (he : Eff p F) :
    TrJ n u p (fun _ => True) F (fun _ w => w) := by
  intro m m' a hi _ h
  have s := he m m' a h
  exact ⟨hk m m' a hi h, s.β, s.u⟩

theorem TrJ.attr {p : P Val α} (hp : AttrOnly p) : TrJ n u p (fun _ => True) (fun f => f) (fun _ w => w) :=
  TrJ.of (KeepsJ.of_attrOnly hp) (Eff.attr hp)

theorem TrJ.ro {p : P Val α} (hp : ReadOnly p) : TrJ n u p (fun _ => True) (fun f => f) (fun _ w => w) :=
  TrJ.attr (AttrOnly.of_readOnly hp)

theorem TrJ.rB_bind {i d : Nat} {k : Nat → P Val β} {P : Nat → BF → Prop} {G : Nat → BF → BF}
    {V : Nat → BF → Array Bool → Array Bool}
    (hk : ∀ x, (x ≠ 0 → Live n u x) → TrJ n u (k x) (P x) (G x) (V x)) :
    TrJ n u ((rB i d).bind k) (fun f => P (f i d) f) (fun f => G (f i d) f) (fun f w => V (f i d) f w) := by
  intro m m' b hi hpre h
  obtain ⟨hok, h⟩ := HC.C15.rB_ok h
  have hid := (hi.wf.toSized.okβ i d).1 hok
  refine hk (m.β i d) (fun hne => ?_) m m' b hi hpre h
  have := live_image hi.wf hid.1 hid.2 hne
  exact ⟨this.1, by rw [← hi.n_eq]; exact this.2.1, this.2.2⟩

theorem TrJ.oneUnsew2 (cfg : Cfg Val) {l : Nat} (hl : l ≠ 0 → Live n u l) :
    TrJ n u (HC.oneUnsew2 cfg n l) (fun _ => True) (fun f => unl1 f l) (fun _ w => w) :=
  TrJ.of (keepsJ_oneUnsew2_opt cfg n hl) (Eff.oneUnsew2 cfg n l)

theorem TrJ.twoUnsew2 (cfg : Cfg Val) {l : Nat} (hl : l ≠ 0 → Live n u l) :
    TrJ n u (HC.twoUnsew2 cfg n l) (fun _ => True) (fun f => unl2 f l) (fun _ w => w) :=
  TrJ.of (keepsJ_twoUnsew2_opt cfg n hl) (Eff.twoUnsew2 cfg n l)

/-- a 2-sew of darts read in the kernel: allowed when they are non-null and distinct -/
theorem TrJ.twoSew2 (cfg : Cfg Val) {x y : Nat} (hx : x ≠ 0 → Live n u x) (hy : y ≠ 0 → Live n u y) :
    TrJ n u (HC.twoSew2 cfg n x y) (fun _ => x ≠ 0 ∧ y ≠ 0 ∧ x ≠ y) (fun f => lnk2 f x y) (fun _ w => w) := by
  intro m m' a hi hpre h
  have s := Eff.twoSew2 cfg n x y m m' a h
  exact ⟨keepsJ_twoSew2 cfg n (hx hpre.1) (hy hpre.2.1) hpre.2.2 m m' a hi h, s.β, s.u⟩

theorem TrJ.oneSew2 (cfg : Cfg Val) {x y : Nat} (hx : x ≠ 0 → Live n u x) (hy : y ≠ 0 → Live n u y) :
    TrJ n u (HC.oneSew2 cfg n x y) (fun _ => x ≠ 0 ∧ y ≠ 0) (fun f => lnk1 f x y) (fun _ w => w) := by
  intro m m' a hi hpre h
  have s := Eff.oneSew2 cfg n x y m m' a h
  exact ⟨keepsJ_oneSew2 cfg n (hx hpre.1) (hy hpre.2) m m' a hi h, s.β, s.u⟩

/-- flagging: β untouched, one flag set -/
theorem TrJ.flag (d : Nat) :
    TrJ n u (HC.removeFreeDartTx (X := Val) d) (fun _ => True) (fun f => f) (fun _ w => wr w d true) := by
  intro m m' a hi _ h
  have k := KeepsJ.removeFreeDartTx (n := n) (u := u) d m m' a hi h
  rw [run_removeFreeDartTx] at h
  by_cases hok : m.okU d = true
  · simp only [hok, if_true, Prod.mk.injEq] at h
    rw [← h.2]
    exact ⟨by rw [h.2]; exact k, rfl, rfl⟩
  · simp [hok] at h

theorem TrJ.pure (a : α) : TrJ n u (Pure.pure a : P Val α) (fun _ => True) (fun f => f) (fun _ w => w) :=
  TrJ.ro (ReadOnly.pure a)

end

section
variable {n : Nat} {u : Array Bool}

theorem TrJ.conv {α : Type} {p : P Val α} {Pre Pre' : BF → Prop} {F F' : BF → BF} {U U' : BF → Array Bool → Array Bool}
    (h : TrJ n u p Pre F U) (hP : ∀ f, Pre' f → Pre f) (hF : ∀ f, F f = F' f) (hU : ∀ f w, U f w = U' f w) :
    TrJ n u p Pre' F' U' := by
  intro m m' a hi hpre hr
  obtain ⟨i1, b1, u1⟩ := h m m' a hi (hP _ hpre) hr
  exact ⟨i1, by rw [b1, hF], by rw [u1, hU]⟩

/-- β function after the three 1-unsews of a half cell -/
def halfG (b0d d b1d : Nat) (f : BF) : BF := unl1 (unl1 (unl1 f d) b1d) b0d
/-- the 2-sew of `collapse_halfcell_to_midpoint` is handed two non-null, distinct darts -/
def halfMidPre (b0d d b1d : Nat) (f : BF) : Prop :=
  halfG b0d d b1d f 2 b0d ≠ 0 ∧ halfG b0d d b1d f 2 b1d ≠ 0 ∧ halfG b0d d b1d f 2 b0d ≠ halfG b0d d b1d f 2 b1d
/-- β function after `collapse_halfcell_to_midpoint` -/
def halfMidF (b0d d b1d : Nat) (f : BF) : BF :=
  lnk2 (unl2 (unl2 (halfG b0d d b1d f) b0d) b1d) (halfG b0d d b1d f 2 b0d) (halfG b0d d b1d f 2 b1d)
def halfMidU (b0d d b1d : Nat) (w : Array Bool) : Array Bool := wr (wr (wr w d true) b0d true) b1d true

theorem trj_halfMid (cfg : Cfg Val) {b0d d b1d : Nat} (h0 : b0d ≠ 0 → Live n u b0d) (hd : d ≠ 0 → Live n u d)
    (h1 : b1d ≠ 0 → Live n u b1d) :
    TrJ n u (collapseHalfMid cfg n b0d d b1d) (halfMidPre b0d d b1d) (halfMidF b0d d b1d)
      (fun _ w => halfMidU b0d d b1d w) := by
  unfold collapseHalfMid
  have key :=
    TrJ.bind (TrJ.oneUnsew2 cfg hd) fun _ =>
    TrJ.bind (TrJ.oneUnsew2 cfg h1) fun _ =>
    TrJ.bind (TrJ.oneUnsew2 cfg h0) fun _ =>
    TrJ.rB_bind (i := 2) (d := b0d) fun x hx =>
    TrJ.rB_bind (i := 2) (d := b1d) fun y hy =>
    TrJ.bind (TrJ.twoUnsew2 cfg h0) fun _ =>
    TrJ.bind (TrJ.twoUnsew2 cfg h1) fun _ =>
    TrJ.bind (TrJ.twoSew2 (n := n) (u := u) cfg (x := x) (y := y) hx hy) fun _ =>
    TrJ.bind (TrJ.flag (n := n) (u := u) d) fun _ =>
    TrJ.bind (TrJ.flag (n := n) (u := u) b0d) fun _ =>
    TrJ.bind (TrJ.flag (n := n) (u := u) b1d) fun _ => TrJ.pure (n := n) (u := u) ()
  refine key.conv ?_ (fun f => rfl) (fun f w => rfl)
  intro f hf
  unfold halfMidPre halfG at hf
  exact ⟨trivial, trivial, trivial, trivial, trivial, hf, trivial, trivial, trivial, trivial⟩

end

/-- β function after `collapse_edge_to_midpoint` on an interior edge: `(b, l, a)` and `(d, r, c)` are the two half cells -/
def midF (l r a b c d : Nat) (f : BF) : BF := halfMidF b l a (halfMidF d r c (unl2 f r))
def midPre (l r a b c d : Nat) (f : BF) : Prop :=
  halfMidPre d r c (unl2 f r) ∧ halfMidPre b l a (halfMidF d r c (unl2 f r))
def midU (l r a b c d : Nat) (w : Array Bool) : Array Bool := halfMidU b l a (halfMidU d r c w)

set_option maxHeartbeats 1600000 in
/-- pure evaluation: two β1-triangles `l → a → b → l`, `r → c → d → r` glued along `l | r`, whose four other sides are
    glued to `xa, xb, xc, xd` (all ten darts pairwise distinct) -/
theorem collapseMid_chain_eval (f : BF) (l r a b c d xa xb xc xd : Nat)
    (hd : [l, r, a, b, c, d, xa, xb, xc, xd].Nodup) (x0 : xa ≠ 0 ∧ xb ≠ 0 ∧ xc ≠ 0 ∧ xd ≠ 0)
    (k1 : f 2 l = r) (k2 : f 2 r = l) (ka : f 2 a = xa) (kb : f 2 b = xb) (kc : f 2 c = xc) (kd : f 2 d = xd)
    (h1 : f 1 l = a) (h2 : f 1 a = b) (h3 : f 1 b = l) (h4 : f 1 r = c) (h5 : f 1 c = d) (h6 : f 1 d = r)
    (g1 : f 0 a = l) (g2 : f 0 b = a) (g3 : f 0 l = b) (g4 : f 0 c = r) (g5 : f 0 d = c) (g6 : f 0 r = d) :
    midPre l r a b c d f ∧
    ((midF l r a b c d f 0 l = 0 ∧ midF l r a b c d f 1 l = 0 ∧ midF l r a b c d f 2 l = 0) ∧
     (midF l r a b c d f 0 r = 0 ∧ midF l r a b c d f 1 r = 0 ∧ midF l r a b c d f 2 r = 0) ∧
     (midF l r a b c d f 0 a = 0 ∧ midF l r a b c d f 1 a = 0 ∧ midF l r a b c d f 2 a = 0) ∧
     (midF l r a b c d f 0 b = 0 ∧ midF l r a b c d f 1 b = 0 ∧ midF l r a b c d f 2 b = 0) ∧
     (midF l r a b c d f 0 c = 0 ∧ midF l r a b c d f 1 c = 0 ∧ midF l r a b c d f 2 c = 0) ∧
     (midF l r a b c d f 0 d = 0 ∧ midF l r a b c d f 1 d = 0 ∧ midF l r a b c d f 2 d = 0)) ∧
    (midF l r a b c d f 2 xb = xa ∧ midF l r a b c d f 2 xa = xb ∧ midF l r a b c d f 2 xd = xc ∧
      midF l r a b c d f 2 xc = xd) ∧
    (∀ i x, x ∉ [l, r, a, b, c, d, xa, xb, xc, xd] → midF l r a b c d f i x = f i x) ∧
    (∀ x, x ∉ [l, r, a, b, c, d] → midF l r a b c d f 0 x = f 0 x ∧ midF l r a b c d f 1 x = f 1 x) := by
  simp only [List.nodup_cons, List.mem_cons, List.mem_nil_iff, not_or, or_false, List.nodup_nil, and_true] at hd
  obtain ⟨xa0, xb0, xc0, xd0⟩ := x0
  refine ⟨⟨⟨?_, ?_, ?_⟩, ⟨?_, ?_, ?_⟩⟩, ⟨⟨?_, ?_, ?_⟩, ⟨?_, ?_, ?_⟩, ⟨?_, ?_, ?_⟩, ⟨?_, ?_, ?_⟩, ⟨?_, ?_, ?_⟩, ⟨?_, ?_, ?_⟩⟩,
    ⟨?_, ?_, ?_, ?_⟩, ?_, ?_⟩
  all_goals try (simp only [midPre, halfMidPre, midF, halfMidF, halfG, lnk1, lnk2, unl1, unl2, upd_apply, h1, h2, h3, h4, h5, h6, g1, g2, g3, g4, g5, g6, k1, k2, ka, kb, kc, kd]; simp [*, eq_comm]; done)
  · intro i x hx
    simp only [List.mem_cons, List.mem_nil_iff, not_or, or_false] at hx
    have hx' := hx
    simp only [@eq_comm _ x] at hx'
    simp only [midF, halfMidF, halfG, lnk1, lnk2, unl1, unl2, upd_apply, h1, h2, h3, h4, h5, h6, g1, g2, g3, g4, g5, g6, k1, k2, ka, kb, kc, kd]
    simp [*, eq_comm]
  · intro x hx
    simp only [List.mem_cons, List.mem_nil_iff, not_or, or_false] at hx
    have hx' := hx
    simp only [@eq_comm _ x] at hx'
    constructor <;> (simp only [midF, halfMidF, halfG, lnk1, lnk2, unl1, unl2, upd_apply, h1, h2, h3, h4, h5, h6, g1, g2, g3, g4, g5, g6, k1, k2, ka, kb, kc, kd]; simp [*, eq_comm])

section
variable {n : Nat} {u : Array Bool}

theorem collapseEdgeToMidpoint_interior (cfg : Cfg Val) (k b0l l b1l b0r r b1r : Nat) (hr : r ≠ 0) :
    collapseEdgeToMidpoint cfg k b0l l b1l b0r r b1r = (do
      twoUnsew2 cfg k r
      collapseHalfMid cfg k b0r r b1r
      let b2b0l ← rB 2 b0l
      collapseHalfMid cfg k b0l l b1l
      collapsedVid k b2b0l r b1r) := by
  unfold collapseEdgeToMidpoint
  simp only [hr, ne_eq, not_false_eq_true, if_true]

theorem trj_midpoint (cfg : Cfg Val) {b0l l b1l b0r r b1r : Nat} (hr0 : r ≠ 0)
    (h0l : b0l ≠ 0 → Live n u b0l) (hl : l ≠ 0 → Live n u l) (h1l : b1l ≠ 0 → Live n u b1l)
    (h0r : b0r ≠ 0 → Live n u b0r) (hr : r ≠ 0 → Live n u r) (h1r : b1r ≠ 0 → Live n u b1r) :
    TrJ n u (collapseEdgeToMidpoint cfg n b0l l b1l b0r r b1r) (midPre l r b1l b0l b1r b0r) (midF l r b1l b0l b1r b0r)
      (fun _ w => midU l r b1l b0l b1r b0r w) := by
  rw [collapseEdgeToMidpoint_interior cfg n b0l l b1l b0r r b1r hr0]
  have key :=
    TrJ.bind (TrJ.twoUnsew2 cfg hr) fun _ =>
    TrJ.bind (trj_halfMid cfg h0r hr h1r) fun _ =>
    TrJ.rB_bind (n := n) (u := u) (i := 2) (d := b0l) fun x _ =>
    TrJ.bind (trj_halfMid cfg h0l hl h1l) fun _ =>
    TrJ.ro (n := n) (u := u) (ro_collapsedVid n x r b1r)
  refine key.conv ?_ (fun f => rfl) (fun f w => rfl)
  intro f hf
  exact ⟨trivial, hf.1, hf.2, trivial⟩

end

theorem isCollapsible_noanchors (cfg : Cfg Val) (k e : Nat) (hreg : regd cfg stVA = false) :
    isCollapsible cfg k e = pure .average := by
  unfold isCollapsible
  simp [hreg]

theorem rd_wr_true {w : Array Bool} {i j : Nat} (h : rd (wr w i true) j = true) : i = j ∨ rd w j = true := by
  rw [rd_wr] at h
  by_cases c : i = j ∧ i < w.size
  · exact Or.inl c.1
  · simp [c] at h; exact Or.inr h

/-- **C15 (3), collapse to the midpoint, interior configuration — the side conditions of `C15_collapse_preserves_WF`
    discharged**: on ANY well-formed 2-map without VertexAnchor storage (the kernel then always collapses to the
    midpoint), whenever `collapse_edge(e)` itself (no assertion added) succeeds on an interior edge whose two faces are
    closed and whose four other sides are interior too, the ten darts `e, r, a, b, c, d` (the two triangles) and
    `xa = β2 a, xb = β2 b, xc = β2 c, xd = β2 d` (their neighbours) being pairwise distinct, then
    * no sew was handed a null dart (`midPre`, needed to obtain the invariant) and every flagged dart is free: the
      resulting map is WELL FORMED, unconditionally;
    * exactly the six darts of the two triangles are flagged, all their β images are null;
    * the neighbours are re-glued pairwise, `xb | xa` and `xd | xc`; every other image of every other dart and every
      other flag is unchanged.
    (That the two faces are triangles is the kernel's BadTopology guard; that the four sides are interior is implied by
    the success of the kernel's 2-unsews — here taken as hypotheses on the input map.) -/
theorem C15_collapse_midpoint_interior (cfg : Cfg Val) (m m' : Map Val) (e v : Nat) (hwf : WF 3 m) (he : C01.InUse m e)
    (hreg : regd cfg stVA = false)
    (h : run (collapseEdge cfg m.n e) m = (.ok v, m'))
    (hr0 : m.β 2 e ≠ 0) (hb : m.β 0 e ≠ 0) (hd : m.β 0 (m.β 2 e) ≠ 0)
    (hx : m.β 2 (m.β 1 e) ≠ 0 ∧ m.β 2 (m.β 0 e) ≠ 0 ∧ m.β 2 (m.β 1 (m.β 2 e)) ≠ 0 ∧ m.β 2 (m.β 0 (m.β 2 e)) ≠ 0)
    (hnd : [e, m.β 2 e, m.β 1 e, m.β 0 e, m.β 1 (m.β 2 e), m.β 0 (m.β 2 e), m.β 2 (m.β 1 e), m.β 2 (m.β 0 e),
      m.β 2 (m.β 1 (m.β 2 e)), m.β 2 (m.β 0 (m.β 2 e))].Nodup) :
    WF 3 m' ∧
    (∀ x, x ∈ [e, m.β 2 e, m.β 1 e, m.β 0 e, m.β 1 (m.β 2 e), m.β 0 (m.β 2 e)] →
      m'.unused x = true ∧ ∀ i, i < 3 → m'.β i x = 0) ∧
    (m'.β 2 (m.β 2 (m.β 0 e)) = m.β 2 (m.β 1 e) ∧ m'.β 2 (m.β 2 (m.β 1 e)) = m.β 2 (m.β 0 e) ∧
     m'.β 2 (m.β 2 (m.β 0 (m.β 2 e))) = m.β 2 (m.β 1 (m.β 2 e)) ∧
     m'.β 2 (m.β 2 (m.β 1 (m.β 2 e))) = m.β 2 (m.β 0 (m.β 2 e))) ∧
    (∀ i x, x ∉ [e, m.β 2 e, m.β 1 e, m.β 0 e, m.β 1 (m.β 2 e), m.β 0 (m.β 2 e), m.β 2 (m.β 1 e), m.β 2 (m.β 0 e),
      m.β 2 (m.β 1 (m.β 2 e)), m.β 2 (m.β 0 (m.β 2 e))] → m'.β i x = m.β i x) ∧
    (∀ x, x ∉ [e, m.β 2 e, m.β 1 e, m.β 0 e, m.β 1 (m.β 2 e), m.β 0 (m.β 2 e)] → m'.unused x = true → m.unused x = true) ∧
    (∀ x, x ∉ [e, m.β 2 e, m.β 1 e, m.β 0 e, m.β 1 (m.β 2 e), m.β 0 (m.β 2 e)] →
      m'.β 0 x = m.β 0 x ∧ m'.β 1 x = m.β 1 x) ∧ m'.n = m.n ∧
    (∀ x, x ∉ [e, m.β 2 e, m.β 1 e, m.β 0 e, m.β 1 (m.β 2 e), m.β 0 (m.β 2 e)] → m'.unused x = m.unused x) := by
  have hn := he.2.1
  rw [C15_collapse_guards cfg m.n e m (fun i d hi hd => (hwf.toSized.okβ i d).2 ⟨hi, hd⟩)
    (fun i d hi hd => hwf.range i hi d hd) hn] at h
  simp only [he.1, if_false] at h
  by_cases gl : m.β 1 (m.β 1 e) = m.β 0 e
  swap
  · simp [gl] at h
  simp only [gl, ne_eq, not_true_eq_false, if_false] at h
  by_cases gr : m.β 1 (m.β 1 (m.β 2 e)) = m.β 0 (m.β 2 e)
  swap
  · simp [gr, hr0] at h
  simp only [gr, not_true_eq_false, and_false, if_false] at h
  have hr : m.β 2 e < m.n := hwf.range 2 (by omega) e hn
  have a0 : m.β 1 e ≠ 0 := fun hh => hb (by rw [← gl, hh]; exact hwf.null 1 (by omega))
  have c0 : m.β 1 (m.β 2 e) ≠ 0 := fun hh => hd (by rw [← gr, hh]; exact hwf.null 1 (by omega))
  have ha : m.β 1 e < m.n := hwf.range 1 (by omega) e hn
  have hc : m.β 1 (m.β 2 e) < m.n := hwf.range 1 (by omega) _ hr
  have Le : Live m.n m.u e := Live.of_inUse he
  have Lr := live_image hwf (by omega : 2 < 3) hn hr0
  have La := live_image hwf (by omega : 1 < 3) hn a0
  have Lb := live_image hwf (by omega : 0 < 3) hn hb
  have Lc := live_image hwf (by omega : 1 < 3) hr c0
  have Ld := live_image hwf (by omega : 0 < 3) hr hd
  -- the body: no anchors ⇒ midpoint
  unfold collapseBodyG at h
  rw [isCollapsible_noanchors _ _ _ hreg] at h
  simp only [Prog.pure_eq, Prog.bind_eq, bind, Prog.ret_bind] at h
  have eqk : edgeToMidpointG (fun _ => Prog.ret ()) cfg m.n (m.β 0 e) e (m.β 1 e) (m.β 0 (m.β 2 e)) (m.β 2 e)
      (m.β 1 (m.β 2 e)) = collapseEdgeToMidpoint cfg m.n (m.β 0 e) e (m.β 1 e) (m.β 0 (m.β 2 e)) (m.β 2 e)
      (m.β 1 (m.β 2 e)) := rfl
  rw [eqk] at h
  obtain ⟨vid, m1, r1, h2⟩ := run_bind_ok h
  obtain ⟨ok, _, h3⟩ := ro_bind_ok (ro_isOrbitOrientationConsistent _ _) h2
  have em : m' = m1 := by
    cases ok
    · simp at h3
    · simp at h3; exact h3.2.symm
  subst em
  -- symbolic execution
  have ev := collapseMid_chain_eval m.β e (m.β 2 e) (m.β 1 e) (m.β 0 e) (m.β 1 (m.β 2 e)) (m.β 0 (m.β 2 e))
    (m.β 2 (m.β 1 e)) (m.β 2 (m.β 0 e)) (m.β 2 (m.β 1 (m.β 2 e))) (m.β 2 (m.β 0 (m.β 2 e))) hnd hx
    rfl (hwf.invol 2 (by omega) (by omega) e hn hr0).1 rfl rfl rfl rfl
    rfl gl (hwf.inv10 e hn hb) rfl gr (hwf.inv10 _ hr hd)
    (hwf.inv01 e hn a0) (by rw [← gl]; exact hwf.inv01 _ ha (by rw [gl]; exact hb)) rfl
    (hwf.inv01 _ hr c0) (by rw [← gr]; exact hwf.inv01 _ hc (by rw [gr]; exact hd)) rfl
  obtain ⟨pre, ⟨ze, zr, za, zb, zc, zd⟩, glue, frame, frame01⟩ := ev
  have J0 : InvJ m.n m.u m := ⟨hwf, rfl, hwf.usz⟩
  obtain ⟨J, hβ, hu⟩ := trj_midpoint (n := m.n) (u := m.u) cfg hr0 (fun _ => Lb) (fun _ => Le) (fun _ => La)
    (fun _ => Ld) (fun _ => Lr) (fun _ => Lc) m m' vid J0 pre r1
  -- flags
  have flagged : ∀ x, m'.unused x = true →
      x ∈ [e, m.β 2 e, m.β 1 e, m.β 0 e, m.β 1 (m.β 2 e), m.β 0 (m.β 2 e)] ∨ m.unused x = true := by
    intro x hxu
    unfold Map.unused at hxu ⊢
    rw [hu] at hxu
    simp only [midU, halfMidU] at hxu
    rcases rd_wr_true hxu with rfl | hxu
    · simp
    rcases rd_wr_true hxu with rfl | hxu
    · simp
    rcases rd_wr_true hxu with rfl | hxu
    · simp
    rcases rd_wr_true hxu with rfl | hxu
    · simp
    rcases rd_wr_true hxu with rfl | hxu
    · simp
    rcases rd_wr_true hxu with rfl | hxu
    · simp
    exact Or.inr hxu
  have zero : ∀ x, x ∈ [e, m.β 2 e, m.β 1 e, m.β 0 e, m.β 1 (m.β 2 e), m.β 0 (m.β 2 e)] → ∀ i, i < 3 → m'.β i x = 0 := by
    intro x hx i hi
    rw [hβ]
    simp only [List.mem_cons, List.mem_nil_iff, or_false] at hx
    have i3 : i = 0 ∨ i = 1 ∨ i = 2 := by omega
    rcases hx with rfl | rfl | rfl | rfl | rfl | rfl <;> rcases i3 with rfl | rfl | rfl
    · exact ze.1
    · exact ze.2.1
    · exact ze.2.2
    · exact zr.1
    · exact zr.2.1
    · exact zr.2.2
    · exact za.1
    · exact za.2.1
    · exact za.2.2
    · exact zb.1
    · exact zb.2.1
    · exact zb.2.2
    · exact zc.1
    · exact zc.2.1
    · exact zc.2.2
    · exact zd.1
    · exact zd.2.1
    · exact zd.2.2
  have w := J.wf
  have hwf' : WF 3 m' := by
    refine ⟨⟨w.npos, w.rows, w.row, ?_, w.asz⟩, ⟨w.null, w.range, w.inv01, w.inv10, w.invol, ?_⟩⟩
    · rw [J.usz]; exact J.n_eq.symm
    · intro x hxn hxu i hi
      rcases flagged x hxu with hm | hm
      · exact zero x hm i hi
      · exact w.unusedFree x hxn hm i hi
  -- which darts are flagged
  have setf : ∀ x, x ∈ [e, m.β 2 e, m.β 1 e, m.β 0 e, m.β 1 (m.β 2 e), m.β 0 (m.β 2 e)] → m'.unused x = true := by
    intro x hx
    have hxn : x < m.u.size := by
      rw [hwf.usz]
      simp only [List.mem_cons, List.mem_nil_iff, or_false] at hx
      rcases hx with rfl | rfl | rfl | rfl | rfl | rfl
      · exact hn
      · exact hr
      · exact ha
      · exact Lb.2.1
      · exact hc
      · exact Ld.2.1
    unfold Map.unused
    rw [hu]
    simp only [midU, halfMidU, rd_wr, size_wr]
    simp only [List.mem_cons, List.mem_nil_iff, or_false] at hx
    rcases hx with rfl | rfl | rfl | rfl | rfl | rfl <;> simp [hxn]
  refine ⟨hwf', fun x hx => ⟨setf x hx, zero x hx⟩, ?_, ?_, ?_, ?_, J.n_eq, ?_⟩
  rotate_right
  · intro x hx
    simp only [List.mem_cons, List.mem_nil_iff, not_or, or_false] at hx
    obtain ⟨x1, x2, x3, x4, x5, x6⟩ := hx
    unfold Map.unused
    rw [hu]
    simp only [midU, halfMidU, rd_wr]
    simp [Ne.symm x1, Ne.symm x2, Ne.symm x3, Ne.symm x4, Ne.symm x5, Ne.symm x6]
  · rw [hβ]; exact glue
  · intro i x hx; rw [hβ]; exact frame i x hx
  · intro x hx hxu
    rcases flagged x hxu with hm | hm
    · exact absurd hm hx
    · exact hm
  · intro x hx; rw [hβ]; exact frame01 x hx

/-- the hypotheses of `C15_collapse_midpoint_interior` hold for `collapse_edge(26)` on the 2 x 2 grid after one inner
    cut (`cutGrid`, the mesh of finding D15d: the position of the resulting vertex is wrong there, the topology is not) -/
example : ∃ m', run (collapseEdge (stdCfg 3 0) cutGrid.n 26) cutGrid = (.ok 3, m') ∧ WF 3 cutGrid ∧ C01.InUse cutGrid 26 ∧
    regd (stdCfg 3 0) stVA = false ∧ cutGrid.β 2 26 ≠ 0 ∧ cutGrid.β 0 26 ≠ 0 ∧ cutGrid.β 0 (cutGrid.β 2 26) ≠ 0 ∧
    (cutGrid.β 2 (cutGrid.β 1 26) ≠ 0 ∧ cutGrid.β 2 (cutGrid.β 0 26) ≠ 0 ∧ cutGrid.β 2 (cutGrid.β 1 (cutGrid.β 2 26)) ≠ 0 ∧
      cutGrid.β 2 (cutGrid.β 0 (cutGrid.β 2 26)) ≠ 0) ∧
    [26, cutGrid.β 2 26, cutGrid.β 1 26, cutGrid.β 0 26, cutGrid.β 1 (cutGrid.β 2 26), cutGrid.β 0 (cutGrid.β 2 26),
      cutGrid.β 2 (cutGrid.β 1 26), cutGrid.β 2 (cutGrid.β 0 26), cutGrid.β 2 (cutGrid.β 1 (cutGrid.β 2 26)),
      cutGrid.β 2 (cutGrid.β 0 (cutGrid.β 2 26))].Nodup :=
  ⟨_, run_eq_of_fst (by decide +kernel), by decide +kernel, by decide +kernel, by decide +kernel, by decide +kernel,
    by decide +kernel, by decide +kernel, by decide +kernel, by decide +kernel⟩

end HC.C15
