/-
  C01 / C02 — the six `*_core` functions of components/betas.rs, TRANSLATED from the source on every run
  (`Gen/LinkCores.lean`, written by tools/gen_lean.py), interpreted in the model's transaction monad, are
  EQUAL (as programs, not only in their results) to the hand-written cores `oneLinkCore`, `iLinkCore 2`,
  `iLinkCore 3`, `oneUnlinkCore`, `iUnlinkCore 2`, `iUnlinkCore 3` of Model/Ops.lean — the functions every
  link, unlink, sew and unsew of every dimension goes through and every C01 / C02 theorem is about.
  A change of a guard, of an error payload, of a written cell or value, or of the order of the operations in
  betas.rs changes the generated list and breaks a theorem of this file.
-/
import Honeycomb.Gen.LinkCores
import Honeycomb.Model.Ops
import Honeycomb.Props.C01

namespace HC.GenTie
open HC HC.C01
variable {X : Type}

/-- operand of a generated instruction -/
def coreArg (l r v : Nat) : Nat → Nat
  | 0 => l
  | 1 => r
  | 2 => 0
  | 3 => v
  | n => n - 10

/-- `LinkError` variant of a generated instruction -/
def coreErr : Nat → String
  | 0 => "NonFreeBase"
  | 1 => "NonFreeImage"
  | _ => "AlreadyFree"

/-- the meaning of a generated instruction list (see the header of Gen/LinkCores.lean); `v` is the value of
    the let-bound variable -/
def interpCore (l r : Nat) : Nat → List (Nat × List Nat) → P X Unit
  | _, [] => pure ()
  | v, (0, i :: a :: k :: es) :: rest => do
      let b ← rB i (coreArg l r v a)
      if b ≠ 0 then abort ⟨coreErr k, es.map (coreArg l r v)⟩ else
      interpCore l r v rest
  | v, (1, [i, a, w]) :: rest => do
      wB i (coreArg l r v a) (coreArg l r v w)
      interpCore l r v rest
  | v, (2, [i, a]) :: rest => do
      let x ← rB i (coreArg l r v a)
      wB i (coreArg l r v a) 0
      interpCore l r x rest
  | v, (3, a :: k :: es) :: rest =>
      if coreArg l r v a = 0 then abort ⟨coreErr k, es.map (coreArg l r v)⟩ else
      interpCore l r v rest
  | _, _ => Prog.panic

/-- **tie of `one_link_core`** -/
theorem C01_gen_oneLinkCore (l r : Nat) : interpCore (X := X) l r 0 Gen.oneLinkCore = oneLinkCore l r := rfl

/-- **tie of `two_link_core`** -/
theorem C01_gen_twoLinkCore (l r : Nat) : interpCore (X := X) l r 0 Gen.twoLinkCore = iLinkCore 2 l r := rfl

/-- **tie of `three_link_core`** -/
theorem C01_gen_threeLinkCore (l r : Nat) : interpCore (X := X) l r 0 Gen.threeLinkCore = iLinkCore 3 l r := rfl

/-- **tie of `one_unlink_core`** (`replace` = read then write) -/
theorem C01_gen_oneUnlinkCore (l : Nat) : interpCore (X := X) l 0 0 Gen.oneUnlinkCore = oneUnlinkCore l := rfl

/-- **tie of `two_unlink_core`** -/
theorem C01_gen_twoUnlinkCore (l : Nat) : interpCore (X := X) l 0 0 Gen.twoUnlinkCore = iUnlinkCore 2 l := rfl

/-- **tie of `three_unlink_core`** -/
theorem C01_gen_threeUnlinkCore (l : Nat) : interpCore (X := X) l 0 0 Gen.threeUnlinkCore = iUnlinkCore 3 l := rfl

/-- **C01 stated on the translated code**: every successful run of the translated `one_link_core`,
    `two_link_core`, `one_unlink_core`, `two_unlink_core` on a well-formed 2-map, with in-use arguments
    (distinct for the 2-link), ends in a well-formed map -/
theorem C01_gen_cores_preserve_WF (l r : Nat) :
    Safe (fun m : Map X => InUse m l ∧ InUse m r) (interpCore (X := X) l r 0 Gen.oneLinkCore) ∧
    Safe (fun m : Map X => InUse m l ∧ InUse m r ∧ l ≠ r) (interpCore (X := X) l r 0 Gen.twoLinkCore) ∧
    Safe (fun m : Map X => InUse m l) (interpCore (X := X) l 0 0 Gen.oneUnlinkCore) ∧
    Safe (fun m : Map X => InUse m l) (interpCore (X := X) l 0 0 Gen.twoUnlinkCore) := by
  rw [C01_gen_oneLinkCore, C01_gen_twoLinkCore, C01_gen_oneUnlinkCore, C01_gen_twoUnlinkCore]
  exact ⟨safe_oneLinkCore l r, safe_twoLinkCore l r, safe_oneUnlinkCore l, safe_twoUnlinkCore l⟩

/-- the interpreter is not vacuous: a list it does not understand is a panic, not a silent success -/
example (l r : Nat) : interpCore (X := X) l r 0 [(7, [])] = Prog.panic := rfl

end HC.GenTie
