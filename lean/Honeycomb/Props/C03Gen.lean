/-
  C03 — the images each orbit policy examines, TRANSLATED from the source on every run
  (`Gen/OrbitArms.lean`, written by tools/gen_lean.py from dim2/orbits.rs, dim3/orbits.rs and
  dim3/basic_ops.rs), are exactly the images of the hand-written model (`g2`, `g3`, `Cell3.g3v`), on which
  every C03 theorem rests (`run_gen2`, `run_gen3`, `C03_*Id3_min`).  A change of a composition in an arm of
  `orbit` / `orbit_transac` or in a push list of the 3-D identifier walks changes the generated table and
  breaks a theorem of this file; a reordering of the reads that keeps the compositions does not.
-/
import Honeycomb.Gen.OrbitArms
import Honeycomb.Props.C03
import Honeycomb.Props.C03b

namespace HC.C03
open HC
variable {X : Type}

/-- a generated image: the β indices applied to `x`, first applied first -/
def applyPath (m : Map X) (x : Nat) (p : List Nat) : Nat := p.foldl (fun y i => m.β i y) x

/-- policy codes of the generated tables -/
def polOfCode : Nat → Option Policy
  | 0 => some .vertex
  | 1 => some .vertexLinear
  | 2 => some .edge
  | 3 => some .face
  | 4 => some .faceLinear
  | 5 => some .volume
  | 6 => some .volumeLinear
  | _ => none

/-- **C03, tie of the 2-D orbit arms**: every arm of `CMap2::orbit_transac` as translated from the source
    examines exactly the images `g2` of the model, in the same order -/
theorem C03_gen_orbit2_arms (m : Map X) (x : Nat) :
    ∀ e ∈ Gen.orbitArms2, ∃ pol, polOfCode e.1 = some pol ∧ PolOK pol ∧
      g2 m pol x = e.2.map (applyPath m x) := by
  intro e he
  simp only [Gen.orbitArms2, List.mem_cons, List.not_mem_nil, or_false] at he
  rcases he with rfl | rfl | rfl | rfl | rfl <;> exact ⟨_, rfl, trivial, rfl⟩

/-- every named policy a 2-map accepts has an arm, once -/
theorem C03_gen_orbit2_complete : Gen.orbitArms2.map (·.1) = [0, 1, 2, 3, 4] := by decide

/-- the plain `orbit` examines the same images as `orbit_transac` (2-D) -/
theorem C03_gen_orbit2_plain_eq_transac : Gen.orbitArms2Plain = Gen.orbitArms2 := by decide

/-- **C03, tie of the 3-D orbit arms** -/
theorem C03_gen_orbit3_arms (m : Map X) (x : Nat) :
    ∀ e ∈ Gen.orbitArms3, ∃ pol, polOfCode e.1 = some pol ∧ Pol3OK pol ∧
      g3 m pol x = e.2.map (applyPath m x) := by
  intro e he
  simp only [Gen.orbitArms3, List.mem_cons, List.not_mem_nil, or_false] at he
  rcases he with rfl | rfl | rfl | rfl | rfl | rfl | rfl <;> exact ⟨_, rfl, trivial, rfl⟩

theorem C03_gen_orbit3_complete : Gen.orbitArms3.map (·.1) = [0, 1, 2, 3, 4, 5, 6] := by decide

theorem C03_gen_orbit3_plain_eq_transac : Gen.orbitArms3Plain = Gen.orbitArms3 := by decide

/-- **C03, tie of the 3-D identifier walks**: the images pushed by `vertex_id_transac`, `edge_id_transac`
    and `volume_id_transac` as translated from the source are the generators the minimality theorems
    `C03_vertexId3_min`, `C03_edgeId3_min`, `C03_volumeId3_min` are proved about -/
theorem C03_gen_id_pushes3 (m : Map X) (x : Nat) :
    Gen.idPushes3.map (fun e => (e.1, e.2.map (applyPath m x))) =
      [(0, Cell3.g3v m x), (1, g3 m .edge x), (2, g3 m .volume x)] := rfl

/-- **C03, tie of the 2-D identifier walks**: `CMap2::vertex_id_transac` and `face_id_transac` (dim2/basic_ops.rs have
    their own loops, apart from `orbit_transac`) mark, fold into the minimum and queue exactly the images of the
    `Vertex` / `Face` policy, in the same order — the generators `vertexId2` / `faceId2` of the model traverse
    (`C03_vertexId2_min`, `C03_faceId2_min`) -/
theorem C03_gen_id_pushes2 (m : Map X) (x : Nat) :
    Gen.idPushes2.map (fun e => (e.1, e.2.map (applyPath m x))) = [(0, g2 m .vertex x), (1, g2 m .face x)] := rfl

/-- the 2-D identifier walks examine the same compositions as the `Vertex` / `Face` arms of `orbit_transac` -/
theorem C03_gen_id_walks2_eq_arms :
    Gen.idPushes2.lookup 0 = Gen.orbitArms2.lookup 0 ∧ Gen.idPushes2.lookup 1 = Gen.orbitArms2.lookup 3 := by decide

/-- **tie of `CMap2::edge_id_transac`**: the shortcut reads β2 — with it the translated function is `edgeId2` -/
theorem C03_gen_edgeId2 (d : Nat) :
    (do let b ← rB (X := X) Gen.edgeIdImage2 d; if b = 0 then pure d else pure (min b d)) = edgeId2 d := rfl

/-! ## the cell iterators -/

theorem zip_self_map {α β : Type} (f : α → β) (l : List α) : l.zip (l.map f) = l.map (fun d => (d, f d)) := by
  induction l with
  | nil => rfl
  | cons a t ih => simp [ih]

theorem zip_range_flags (u : Nat → Bool) (n : Nat) :
    (List.range' 1 (n - 1)).zip (((List.range n).map u).drop 1) = (List.range' 1 (n - 1)).map (fun d => (d, u d)) := by
  have h : ((List.range n).map u).drop 1 = (List.range' 1 (n - 1)).map u := by
    rw [← List.map_drop, List.range_eq_range']
    congr 1
    cases n with
    | zero => rfl
    | succ k => simp [List.range'_succ]
  rw [h, zip_self_map]

theorem range_filter_nz (p : Nat → Bool) (n : Nat) :
    (List.range n).filter (fun d => decide (d ≠ 0) && p d) = (List.range' 1 (n - 1)).filter p := by
  cases n with
  | zero => rfl
  | succ k =>
    rw [List.range_eq_range', List.range'_succ]
    simp only [List.filter_cons, ne_eq, not_true_eq_false, decide_false, Bool.false_and, Bool.false_eq_true, if_false,
      Nat.add_sub_cancel, Nat.zero_add]
    apply List.filter_congr
    intro d hd
    have : d ≠ 0 := by
      have := (List.mem_range'_1.1 hd).1; omega
    simp [this]

/-- a cell iterator as translated: the dart range `start..n_darts` zipped with the removal flags after skipping `skip` of
    them, the darts whose flag is set dropped (`dropFlagged = 1`), then the darts that are their own identifier kept -/
def interpCellIter (m : Map X) (idf : Nat → P X Nat) (start skip dropFlagged : Nat) : List Nat :=
  (((List.range' start (m.n - start)).zip (((List.range m.n).map m.unused).drop skip)).filterMap
      (fun p => if p.2 == (dropFlagged == 1) then none else some p.1)).filter
    (fun d => okVal (run (idf d) m) 0 = d)

/-- with the parameters every iterator of the code has (range from 1, one flag skipped, flagged darts dropped) the
    translated iterator is `iterCells` -/
theorem interpCellIter_eq (m : Map X) (idf : Nat → P X Nat) : interpCellIter m idf 1 1 1 = iterCells m idf := by
  unfold interpCellIter iterCells
  rw [zip_range_flags, List.filterMap_map]
  have h1 : List.filterMap ((fun p : Nat × Bool => if p.2 == ((1 : Nat) == 1) then none else some p.1) ∘ fun d => (d, m.unused d))
      (List.range' 1 (m.n - 1)) = (List.range' 1 (m.n - 1)).filter (fun d => !m.unused d) := by
    rw [← List.filterMap_eq_filter]
    apply List.filterMap_congr
    intro d _
    cases h : m.unused d <;> simp [h, Option.guard]
  rw [h1, List.filter_filter]
  have := range_filter_nz (fun d => decide (okVal (run (idf d) m) 0 = d) && (!m.unused d)) m.n
  rw [← this]
  apply List.filter_congr
  intro d _
  by_cases h0 : d = 0 <;> cases hu : m.unused d <;> by_cases hv : okVal (run (idf d) m) 0 = d <;> simp [h0, hu, hv]

/-- **C03, tie of the cell iterators**: `iter_vertices`, `iter_edges`, `iter_faces` of a 2-map and `iter_vertices`, …,
    `iter_volumes` of a 3-map as translated from the source — range start, number of flags skipped, which darts the flag
    filter drops, which identifier function — are `iterCells` over the corresponding identifier -/
theorem C03_gen_cell_iters :
    Gen.cellIters2 = [[0, 1, 1, 1], [1, 1, 1, 1], [2, 1, 1, 1]] ∧
    Gen.cellIters3 = [[0, 1, 1, 1], [1, 1, 1, 1], [2, 1, 1, 1], [3, 1, 1, 1]] := by decide

theorem C03_gen_iterators2 (m : Map X) :
    interpCellIter m (vertexId2 m.n) 1 1 1 = iterVertices2 m ∧ interpCellIter m edgeId2 1 1 1 = iterEdges2 m ∧
    interpCellIter m (faceId2 m.n) 1 1 1 = iterFaces2 m :=
  ⟨interpCellIter_eq m _, interpCellIter_eq m _, interpCellIter_eq m _⟩

theorem C03_gen_iterators3 (m : Map X) :
    interpCellIter m (vertexId3 m.n) 1 1 1 = iterVertices3 m ∧ interpCellIter m (edgeId3 m.n) 1 1 1 = iterEdges3 m ∧
    interpCellIter m (faceId3 m.n) 1 1 1 = iterFaces3 m ∧ interpCellIter m (volumeId3 m.n) 1 1 1 = iterVolumes3 m :=
  ⟨interpCellIter_eq m _, interpCellIter_eq m _, interpCellIter_eq m _, interpCellIter_eq m _⟩

/-- an iterator that forgets to skip the flag of the null dart (the seeded changes C03-2 / C03-5) is a different list:
    on a 3-dart map whose dart 1 is removed it reports dart 1 and drops dart 2 -/
example : interpCellIter (X := Val) { n := 3, b := #[#[0,0,0],#[0,0,0],#[0,0,0]], u := #[false, true, false], a := #[#[none,none,none]] }
    edgeId2 1 0 1 = [1] ∧
    interpCellIter (X := Val) { n := 3, b := #[#[0,0,0],#[0,0,0],#[0,0,0]], u := #[false, true, false], a := #[#[none,none,none]] }
    edgeId2 1 1 1 = [2] := by decide

/-- the vertex walk pushes the images of the `Vertex` policy (as a set: the order differs) -/
theorem C03_gen_vertex_walk_same_images :
    ((Gen.idPushes3.lookup 0).getD []).all (fun p => ((Gen.orbitArms3.lookup 0).getD []).contains p) = true ∧
    ((Gen.orbitArms3.lookup 0).getD []).all (fun p => ((Gen.idPushes3.lookup 0).getD []).contains p) = true := by decide

/-- the hypotheses are about real tables: the generated 3-D vertex arm has its six compositions -/
example : (Gen.orbitArms3.lookup 0).getD [] = [[2, 3], [3, 1], [2, 1], [0, 3], [0, 2], [3, 2]] := by decide

example (m : Map X) (x : Nat) : applyPath m x [2, 1] = m.β 1 (m.β 2 x) := rfl

end HC.C03
